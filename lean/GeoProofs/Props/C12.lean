/-
  Property C12 — invariance of the predicates under re-encoding and lattice symmetries.

  Point maps (defined in GeoProofs/EquivLemmas.lean): `Pt.translate p d = p + d`,
  `Pt.scale p k = k·p`, `Pt.reflX`, `Pt.reflY`, `Pt.transpose`.  (`Pt.translate` takes the
  point first so that `p.translate d` reads as in the statement; it is symmetric anyway.)

  PROVED
  * kernels, exactly equivariant under translation and positive scaling (every comparison the
    code makes is between affine-equivariant quantities; the WHOLE result record is equal,
    decision site included): `raycast_translate/_scale`, `segIntersects_translate/_scale`
    (+ `segIntersectsS_*` with the site), `collinearPt_*`, `segContainsSeg_*`;
  * `on`, segment intersection and segment containment are invariant under ALL the symmetries:
    `onSeg_reflX/_reflY/_transpose`, `segsMeet_reflX/_reflY/_transpose`,
    `raycast_on_reflX/…`, `segIntersects_reflX/…`, `segContainsSeg_reflX/…`; hence Line × Line
    intersection and Line ∋ Point are invariant under all of them (`lineIntersectsLine_reflX/…`,
    `lineContainsPoint_reflX/…`; un-indexed line strings);
  * series attributes: `processPoints_translate/_scale` (flags unchanged, rectangle mapped),
    `convexSpec_reflX/_reflY/_transpose` (convex flag unchanged), `clockwiseSpec_reflX/…`
    (= `decide (area2 v > 0)`: flipped unless the area is 0), and the same for the flags
    computed by `processPoints`;
  * membership of a point in an un-indexed ring under translation and positive scaling:
    `ringContainsPoint_translate/_scale` (the whole result, edge index included; `_hit` variants
    are the statements as asked);
  * every ring-level predicate, for two un-indexed rings related by p ↦ k·p + d, 0 < k
    (relation `EQ.RingSim`): `ringContainsSegment_aff`, `ringIntersectsSegment_aff`,
    `ringContainsRing_aff`, `ringIntersectsRing_aff` (area comparison included),
    `ringIntersectsLine_aff`, `line_containsLineO_aff` (the walk);
  * the two 4 × 4 matrices: `geom_contains_translate/_scale`, `geom_intersects_translate/_scale`
    (and the common generalisation `geom_contains_aff`, `geom_intersects_aff`) for geometries all
    of whose series are built by `mkSeries … .none 0` (`Geom.Built`); NO layer is missing, so
    they are not named `_partial`.

  NOT PROVED (and not expected to be provable without a Jordan-curve argument, or false):
  * invariance of `raycast.inn` / of polygon membership under reflections and transposition
    (left-ray vs right-ray vs vertical-ray parity);
  * invariance of the ring-level `contains` heuristics under start-vertex rotation: FALSE
    (known findings D4 / D5, witnesses in Props/C03.lean);
  * indexed series: all statements are for `index = none`; the lift is the index-exactness
    theorem (GeoProofs/Index, GeoProofs/SeriesSearch).
-/
import GeoProofs.EquivLemmas

namespace Geo
open EQ GL

/-! ## kernels under translation and positive scaling -/

theorem raycast_translate (d a b p : Pt) :
    (raycast (a.translate d) (b.translate d) (p.translate d)).inn = (raycast a b p).inn ∧
    (raycast (a.translate d) (b.translate d) (p.translate d)).on = (raycast a b p).on := by
  simp only [translate_eq_aff, raycast_aff one_pos, and_self]

theorem raycast_scale (k : Rat) (hk : 0 < k) (a b p : Pt) :
    (raycast (a.scale k) (b.scale k) (p.scale k)).inn = (raycast a b p).inn ∧
    (raycast (a.scale k) (b.scale k) (p.scale k)).on = (raycast a b p).on := by
  simp only [scale_eq_aff, raycast_aff hk, and_self]

/-- stronger: the whole result record (decision site included) -/
theorem raycast_translate_eq (d a b p : Pt) :
    raycast (a.translate d) (b.translate d) (p.translate d) = raycast a b p := by
  simp only [translate_eq_aff, raycast_aff one_pos]

theorem raycast_scale_eq (k : Rat) (hk : 0 < k) (a b p : Pt) :
    raycast (a.scale k) (b.scale k) (p.scale k) = raycast a b p := by
  simp only [scale_eq_aff, raycast_aff hk]

def Seg.translate (s : Seg) (d : Pt) : Seg := ⟨s.a.translate d, s.b.translate d⟩
def Seg.scale (s : Seg) (k : Rat) : Seg := ⟨s.a.scale k, s.b.scale k⟩

theorem segIntersectsS_translate (d : Pt) (s t : Seg) :
    segIntersectsS (s.translate d) (t.translate d) = segIntersectsS s t := by
  simp only [Seg.translate, translate_eq_aff, segIntersectsS_aff one_pos]

theorem segIntersectsS_scale (k : Rat) (hk : 0 < k) (s t : Seg) :
    segIntersectsS (s.scale k) (t.scale k) = segIntersectsS s t := by
  simp only [Seg.scale, scale_eq_aff, segIntersectsS_aff hk]

theorem segIntersects_translate (d : Pt) (s t : Seg) :
    (s.translate d).intersects (t.translate d) = s.intersects t := by
  unfold Seg.intersects; rw [segIntersectsS_translate]

theorem segIntersects_scale (k : Rat) (hk : 0 < k) (s t : Seg) :
    (s.scale k).intersects (t.scale k) = s.intersects t := by
  unfold Seg.intersects; rw [segIntersectsS_scale k hk]

theorem collinearPt_translate (d : Pt) (s : Seg) (p : Pt) :
    (s.translate d).collinearPt (p.translate d) = s.collinearPt p := by
  simp only [Seg.translate, translate_eq_aff, collinearPt_aff one_pos]

theorem collinearPt_scale (k : Rat) (hk : 0 < k) (s : Seg) (p : Pt) :
    (s.scale k).collinearPt (p.scale k) = s.collinearPt p := by
  simp only [Seg.scale, scale_eq_aff, collinearPt_aff hk]

theorem segContainsSeg_translate (d : Pt) (s t : Seg) :
    (s.translate d).containsSeg (t.translate d) = s.containsSeg t := by
  simp only [Seg.translate, translate_eq_aff, containsSeg_aff one_pos]

theorem segContainsSeg_scale (k : Rat) (hk : 0 < k) (s t : Seg) :
    (s.scale k).containsSeg (t.scale k) = s.containsSeg t := by
  simp only [Seg.scale, scale_eq_aff, containsSeg_aff hk]

/-! ## `on`, intersection, containment under reflections and transposition -/

theorem onSeg_reflX (a b p : Pt) : OnSeg a.reflX b.reflX p.reflX ↔ OnSeg a b p := EQ.onSeg_reflX a b p
theorem onSeg_reflY (a b p : Pt) : OnSeg a.reflY b.reflY p.reflY ↔ OnSeg a b p := EQ.onSeg_reflY a b p
theorem onSeg_transpose (a b p : Pt) :
    OnSeg a.transpose b.transpose p.transpose ↔ OnSeg a b p := EQ.onSeg_transpose a b p
theorem segsMeet_reflX (a b c d : Pt) :
    SegsMeet a.reflX b.reflX c.reflX d.reflX ↔ SegsMeet a b c d := EQ.segsMeet_reflX a b c d
theorem segsMeet_reflY (a b c d : Pt) :
    SegsMeet a.reflY b.reflY c.reflY d.reflY ↔ SegsMeet a b c d := EQ.segsMeet_reflY a b c d
theorem segsMeet_transpose (a b c d : Pt) :
    SegsMeet a.transpose b.transpose c.transpose d.transpose ↔ SegsMeet a b c d :=
  EQ.segsMeet_transpose a b c d

theorem raycast_on_reflX (a b p : Pt) :
    (raycast a.reflX b.reflX p.reflX).on = (raycast a b p).on := by
  rw [Bool.eq_iff_iff, raycast_on_iff, raycast_on_iff, onSeg_reflX]
theorem raycast_on_reflY (a b p : Pt) :
    (raycast a.reflY b.reflY p.reflY).on = (raycast a b p).on := by
  rw [Bool.eq_iff_iff, raycast_on_iff, raycast_on_iff, onSeg_reflY]
theorem raycast_on_transpose (a b p : Pt) :
    (raycast a.transpose b.transpose p.transpose).on = (raycast a b p).on := by
  rw [Bool.eq_iff_iff, raycast_on_iff, raycast_on_iff, onSeg_transpose]

def Seg.mapPts (T : Pt → Pt) (s : Seg) : Seg := ⟨T s.a, T s.b⟩

theorem segIntersects_reflX (s t : Seg) :
    (s.mapPts Pt.reflX).intersects (t.mapPts Pt.reflX) = s.intersects t := by
  rw [Bool.eq_iff_iff, segIntersects_iff, segIntersects_iff]; exact segsMeet_reflX _ _ _ _
theorem segIntersects_reflY (s t : Seg) :
    (s.mapPts Pt.reflY).intersects (t.mapPts Pt.reflY) = s.intersects t := by
  rw [Bool.eq_iff_iff, segIntersects_iff, segIntersects_iff]; exact segsMeet_reflY _ _ _ _
theorem segIntersects_transpose (s t : Seg) :
    (s.mapPts Pt.transpose).intersects (t.mapPts Pt.transpose) = s.intersects t := by
  rw [Bool.eq_iff_iff, segIntersects_iff, segIntersects_iff]; exact segsMeet_transpose _ _ _ _

theorem segContainsSeg_reflX (s t : Seg) :
    (s.mapPts Pt.reflX).containsSeg (t.mapPts Pt.reflX) = s.containsSeg t := by
  rw [Bool.eq_iff_iff, segContainsSeg_iff, segContainsSeg_iff]
  simp only [Seg.mapPts, onSeg_reflX]
theorem segContainsSeg_reflY (s t : Seg) :
    (s.mapPts Pt.reflY).containsSeg (t.mapPts Pt.reflY) = s.containsSeg t := by
  rw [Bool.eq_iff_iff, segContainsSeg_iff, segContainsSeg_iff]
  simp only [Seg.mapPts, onSeg_reflY]
theorem segContainsSeg_transpose (s t : Seg) :
    (s.mapPts Pt.transpose).containsSeg (t.mapPts Pt.transpose) = s.containsSeg t := by
  rw [Bool.eq_iff_iff, segContainsSeg_iff, segContainsSeg_iff]
  simp only [Seg.mapPts, onSeg_transpose]

/-! ### line strings under reflections and transposition (no ray parity involved) -/

/-- the segments of an open series rebuilt from mapped points -/
theorem lineSegs_map (T : Pt → Pt) (hT : Function.Injective T) (p : Array Pt) :
    (mkSeries (p.map T) false .none 0).numSegments = (mkSeries p false .none 0).numSegments ∧
    ∀ i, i < (mkSeries p false .none 0).numSegments →
      (mkSeries (p.map T) false .none 0).segmentAt i =
        ⟨T ((mkSeries p false .none 0).segmentAt i).a, T ((mkSeries p false .none 0).segmentAt i).b⟩ :=
  ⟨numSegmentsOf_map T hT p false, fun i hi => segmentAtOf_map T p false i hi⟩

/-- Line × Line intersection is invariant under every injective point map that preserves
    "the two segments share a point" -/
theorem lineIntersectsLine_of_symm (T : Pt → Pt) (hT : Function.Injective T)
    (hm : ∀ a b c d, SegsMeet (T a) (T b) (T c) (T d) ↔ SegsMeet a b c d) (p q : Array Pt) :
    Line.intersectsLine (mkSeries (p.map T) false .none 0) (mkSeries (q.map T) false .none 0)
      = Line.intersectsLine (mkSeries p false .none 0) (mkSeries q false .none 0) := by
  obtain ⟨np, sp⟩ := lineSegs_map T hT p
  obtain ⟨nq, sq⟩ := lineSegs_map T hT q
  rw [Bool.eq_iff_iff, line_meet_iff _ _ (mkSeries_plain _ _ _) (mkSeries_plain _ _ _),
    line_meet_iff _ _ (mkSeries_plain _ _ _) (mkSeries_plain _ _ _), np, nq]
  constructor
  · rintro ⟨i, hi, j, hj, h⟩
    rw [sp i hi, sq j hj] at h
    exact ⟨i, hi, j, hj, (hm _ _ _ _).1 h⟩
  · rintro ⟨i, hi, j, hj, h⟩
    refine ⟨i, hi, j, hj, ?_⟩
    rw [sp i hi, sq j hj]
    exact (hm _ _ _ _).2 h

theorem lineIntersectsLine_reflX (p q : Array Pt) :
    Line.intersectsLine (mkSeries (p.map Pt.reflX) false .none 0) (mkSeries (q.map Pt.reflX) false .none 0)
      = Line.intersectsLine (mkSeries p false .none 0) (mkSeries q false .none 0) :=
  lineIntersectsLine_of_symm Pt.reflX reflX_inj segsMeet_reflX p q
theorem lineIntersectsLine_reflY (p q : Array Pt) :
    Line.intersectsLine (mkSeries (p.map Pt.reflY) false .none 0) (mkSeries (q.map Pt.reflY) false .none 0)
      = Line.intersectsLine (mkSeries p false .none 0) (mkSeries q false .none 0) :=
  lineIntersectsLine_of_symm Pt.reflY reflY_inj segsMeet_reflY p q
theorem lineIntersectsLine_transpose (p q : Array Pt) :
    Line.intersectsLine (mkSeries (p.map Pt.transpose) false .none 0)
        (mkSeries (q.map Pt.transpose) false .none 0)
      = Line.intersectsLine (mkSeries p false .none 0) (mkSeries q false .none 0) :=
  lineIntersectsLine_of_symm Pt.transpose transpose_inj segsMeet_transpose p q

/-- Line ∋ Point likewise -/
theorem lineContainsPoint_of_symm (T : Pt → Pt) (hT : Function.Injective T)
    (hon : ∀ a b c, OnSeg (T a) (T b) (T c) ↔ OnSeg a b c) (p : Array Pt) (x : Pt) :
    Line.containsPoint (mkSeries (p.map T) false .none 0) (T x)
      = Line.containsPoint (mkSeries p false .none 0) x := by
  obtain ⟨np, sp⟩ := lineSegs_map T hT p
  rw [Bool.eq_iff_iff, line_containsPoint_iff _ (mkSeries_plain _ _ _).1,
    line_containsPoint_iff _ (mkSeries_plain _ _ _).1, np]
  constructor
  · rintro ⟨i, hi, h⟩
    rw [sp i hi] at h
    exact ⟨i, hi, (hon _ _ _).1 h⟩
  · rintro ⟨i, hi, h⟩
    refine ⟨i, hi, ?_⟩
    rw [sp i hi]
    exact (hon _ _ _).2 h

theorem lineContainsPoint_reflX (p : Array Pt) (x : Pt) :
    Line.containsPoint (mkSeries (p.map Pt.reflX) false .none 0) x.reflX
      = Line.containsPoint (mkSeries p false .none 0) x :=
  lineContainsPoint_of_symm Pt.reflX reflX_inj EQ.onSeg_reflX p x
theorem lineContainsPoint_reflY (p : Array Pt) (x : Pt) :
    Line.containsPoint (mkSeries (p.map Pt.reflY) false .none 0) x.reflY
      = Line.containsPoint (mkSeries p false .none 0) x :=
  lineContainsPoint_of_symm Pt.reflY reflY_inj EQ.onSeg_reflY p x
theorem lineContainsPoint_transpose (p : Array Pt) (x : Pt) :
    Line.containsPoint (mkSeries (p.map Pt.transpose) false .none 0) x.transpose
      = Line.containsPoint (mkSeries p false .none 0) x :=
  lineContainsPoint_of_symm Pt.transpose transpose_inj EQ.onSeg_transpose p x

/-- `inn` is NOT invariant under the reflection x ↦ −x (the ray goes the other way) -/
theorem raycast_inn_reflX_counterexample :
    (raycast ⟨0, 0⟩ ⟨0, 2⟩ ⟨-1, 1⟩).inn = true ∧
    (raycast (Pt.reflX ⟨0, 0⟩) (Pt.reflX ⟨0, 2⟩) (Pt.reflX ⟨-1, 1⟩)).inn = false := by
  decide +kernel

/-! ## series attributes -/

def Box.translate (b : Box) (d : Pt) : Box := ⟨b.min.translate d, b.max.translate d⟩
def Box.scale (b : Box) (k : Rat) : Box := ⟨b.min.scale k, b.max.scale k⟩

theorem processPoints_translate (d : Pt) (pts : Array Pt) (closed : Bool)
    (hne : ¬ ((closed && pts.size < 3) || pts.size < 2)) :
    (processPoints (pts.map (·.translate d)) closed).convex = (processPoints pts closed).convex ∧
    (processPoints (pts.map (·.translate d)) closed).clockwise = (processPoints pts closed).clockwise ∧
    (processPoints (pts.map (·.translate d)) closed).rect = (processPoints pts closed).rect.translate d := by
  simp only [processPoints_aff one_pos d pts closed hne, Box.translate, translate_eq_aff, EQ.Box.aff,
    and_self]

theorem processPoints_scale (k : Rat) (hk : 0 < k) (pts : Array Pt) (closed : Bool)
    (hne : ¬ ((closed && pts.size < 3) || pts.size < 2)) :
    (processPoints (pts.map (·.scale k)) closed).convex = (processPoints pts closed).convex ∧
    (processPoints (pts.map (·.scale k)) closed).clockwise = (processPoints pts closed).clockwise ∧
    (processPoints (pts.map (·.scale k)) closed).rect = (processPoints pts closed).rect.scale k := by
  simp only [processPoints_aff hk ⟨0, 0⟩ pts closed hne, Box.scale, scale_eq_aff, EQ.Box.aff, and_self]

/-- an empty series has the zero rectangle and `false` flags whatever its points -/
theorem processPoints_map_empty (T : Pt → Pt) (pts : Array Pt) (closed : Bool)
    (he : ((closed && pts.size < 3) || pts.size < 2) = true) :
    processPoints (pts.map T) closed = processPoints pts closed := by
  unfold processPoints
  rw [if_pos he, if_pos (by simpa using he)]

theorem convexSpec_reflX (v : List Pt) : Driver.convexSpec (v.map Pt.reflX) = Driver.convexSpec v :=
  convexSpec_of_neg Pt.reflX reflX_inj (fun a b e => by simp only [SeriesL.turn, Pt.reflX]; ring) v
theorem convexSpec_reflY (v : List Pt) : Driver.convexSpec (v.map Pt.reflY) = Driver.convexSpec v :=
  convexSpec_of_neg Pt.reflY reflY_inj (fun a b e => by simp only [SeriesL.turn, Pt.reflY]; ring) v
theorem convexSpec_transpose (v : List Pt) :
    Driver.convexSpec (v.map Pt.transpose) = Driver.convexSpec v :=
  convexSpec_of_neg Pt.transpose transpose_inj
    (fun a b e => by simp only [SeriesL.turn, Pt.transpose]; ring) v

theorem clockwiseSpec_reflX (v : List Pt) :
    Driver.clockwiseSpec (v.map Pt.reflX) = decide (Spec.area2 v > 0) :=
  clockwiseSpec_of_neg Pt.reflX reflX_inj (fun a b => by simp only [Pt.reflX]; ring) v
theorem clockwiseSpec_reflY (v : List Pt) :
    Driver.clockwiseSpec (v.map Pt.reflY) = decide (Spec.area2 v > 0) :=
  clockwiseSpec_of_neg Pt.reflY reflY_inj (fun a b => by simp only [Pt.reflY]; ring) v
theorem clockwiseSpec_transpose (v : List Pt) :
    Driver.clockwiseSpec (v.map Pt.transpose) = decide (Spec.area2 v > 0) :=
  clockwiseSpec_of_neg Pt.transpose transpose_inj (fun a b => by simp only [Pt.transpose]; ring) v

/-- the flags computed by `processPoints` on a closed ring under a reflection / transposition `T`
    (any injective map negating turns and area): convex unchanged, clockwise = "area > 0" -/
theorem processPoints_flags_of_neg (T : Pt → Pt) (hT : Function.Injective T)
    (hturn : ∀ a b e : Pt, SeriesL.turn (T a) (T b) (T e) = (-1) * SeriesL.turn a b e)
    (harea : ∀ a b : Pt, (T a).x * (T b).y - (T b).x * (T a).y = (-1) * (a.x * b.y - b.x * a.y))
    (pts : Array Pt) (h : 3 ≤ pts.size) :
    (processPoints (pts.map T) true).convex = (processPoints pts true).convex ∧
    (processPoints (pts.map T) true).clockwise = decide (Spec.area2 pts.toList > 0) ∧
    (Spec.area2 pts.toList ≠ 0 →
      (processPoints (pts.map T) true).clockwise = !(processPoints pts true).clockwise) := by
  have h' : 3 ≤ (pts.map T).size := by simpa using h
  rw [convex_iff _ h', convex_iff _ h, clockwise_iff _ h', clockwise_iff _ h, Array.toList_map,
    convexSpec_of_neg T hT hturn, clockwiseSpec_of_neg T hT harea, clockwiseSpec_iff_area]
  refine ⟨rfl, rfl, fun hne => ?_⟩
  rcases lt_trichotomy (Spec.area2 pts.toList) 0 with hlt | heq | hgt
  · simp [hlt, not_lt.2 hlt.le]
  · exact absurd heq hne
  · simp [hgt, not_lt.2 hgt.le]

theorem processPoints_reflX (pts : Array Pt) (h : 3 ≤ pts.size) :
    (processPoints (pts.map Pt.reflX) true).convex = (processPoints pts true).convex ∧
    (processPoints (pts.map Pt.reflX) true).clockwise = decide (Spec.area2 pts.toList > 0) ∧
    (Spec.area2 pts.toList ≠ 0 →
      (processPoints (pts.map Pt.reflX) true).clockwise = !(processPoints pts true).clockwise) :=
  processPoints_flags_of_neg Pt.reflX reflX_inj
    (fun a b e => by simp only [SeriesL.turn, Pt.reflX]; ring)
    (fun a b => by simp only [Pt.reflX]; ring) pts h

theorem processPoints_reflY (pts : Array Pt) (h : 3 ≤ pts.size) :
    (processPoints (pts.map Pt.reflY) true).convex = (processPoints pts true).convex ∧
    (processPoints (pts.map Pt.reflY) true).clockwise = decide (Spec.area2 pts.toList > 0) ∧
    (Spec.area2 pts.toList ≠ 0 →
      (processPoints (pts.map Pt.reflY) true).clockwise = !(processPoints pts true).clockwise) :=
  processPoints_flags_of_neg Pt.reflY reflY_inj
    (fun a b e => by simp only [SeriesL.turn, Pt.reflY]; ring)
    (fun a b => by simp only [Pt.reflY]; ring) pts h

theorem processPoints_transpose (pts : Array Pt) (h : 3 ≤ pts.size) :
    (processPoints (pts.map Pt.transpose) true).convex = (processPoints pts true).convex ∧
    (processPoints (pts.map Pt.transpose) true).clockwise = decide (Spec.area2 pts.toList > 0) ∧
    (Spec.area2 pts.toList ≠ 0 →
      (processPoints (pts.map Pt.transpose) true).clockwise = !(processPoints pts true).clockwise) :=
  processPoints_flags_of_neg Pt.transpose transpose_inj
    (fun a b e => by simp only [SeriesL.turn, Pt.transpose]; ring)
    (fun a b => by simp only [Pt.transpose]; ring) pts h

/-! ## point in ring (un-indexed) under translation and positive scaling

The whole fold is equivariant: the strip query selects the same segments (every segment box of a
`mkSeries`-built ring lies inside the ring rectangle, so only the y-test matters — the `±1`
widening of `stripBox` is NOT scale-equivariant by itself), and `raycast` is equivariant. -/

theorem translate_fun (d : Pt) : (fun p : Pt => p.translate d) = Pt.aff 1 d :=
  funext fun p => translate_eq_aff p d
theorem scale_fun (k : Rat) : (fun p : Pt => p.scale k) = Pt.aff k ⟨0, 0⟩ :=
  funext fun p => scale_eq_aff p k

theorem ringContainsPoint_translate (pts : Array Pt) (d p : Pt) (allowOnEdge : Bool) :
    ringContainsPoint (.ser (mkSeries (pts.map (·.translate d)) true .none 0)) (p.translate d) allowOnEdge
      = ringContainsPoint (.ser (mkSeries pts true .none 0)) p allowOnEdge := by
  rw [translate_fun, translate_eq_aff]
  exact ringContainsPoint_sim one_pos (ringSim_mk one_pos d pts true) p allowOnEdge

theorem ringContainsPoint_scale (k : Rat) (hk : 0 < k) (pts : Array Pt) (p : Pt) (allowOnEdge : Bool) :
    ringContainsPoint (.ser (mkSeries (pts.map (·.scale k)) true .none 0)) (p.scale k) allowOnEdge
      = ringContainsPoint (.ser (mkSeries pts true .none 0)) p allowOnEdge := by
  rw [scale_fun, scale_eq_aff]
  exact ringContainsPoint_sim hk (ringSim_mk hk ⟨0, 0⟩ pts true) p allowOnEdge

/-- the statement asked for (`hit` only) -/
theorem ringContainsPoint_translate_hit (pts : Array Pt) (d p : Pt) (allowOnEdge : Bool) :
    (ringContainsPoint (.ser (mkSeries (pts.map (·.translate d)) true .none 0)) (p.translate d) allowOnEdge).hit
      = (ringContainsPoint (.ser (mkSeries pts true .none 0)) p allowOnEdge).hit := by
  rw [ringContainsPoint_translate]

theorem ringContainsPoint_scale_hit (k : Rat) (hk : 0 < k) (pts : Array Pt) (p : Pt) (allowOnEdge : Bool) :
    (ringContainsPoint (.ser (mkSeries (pts.map (·.scale k)) true .none 0)) (p.scale k) allowOnEdge).hit
      = (ringContainsPoint (.ser (mkSeries pts true .none 0)) p allowOnEdge).hit := by
  rw [ringContainsPoint_scale k hk]

/-! ## ring-level predicates, for any two un-indexed rings related by the map

`RingSim k d r r'` (GeoProofs/EquivLemmas.lean) says that `r'` is the image of the un-indexed
ring `r` under `p ↦ k·p + d`; it holds for `r = .ser (mkSeries pts c .none 0)`,
`r' = .ser (mkSeries (pts.map …) c .none 0)` (`ringSim_mk`) and for rectangles (`ringSim_bx`). -/

theorem ringContainsSegment_aff {k : Rat} (hk : 0 < k) {d : Pt} {r r' : Ring} (h : RingSim k d r r')
    (seg : Seg) (b : Bool) :
    ringContainsSegment r' ⟨Pt.aff k d seg.a, Pt.aff k d seg.b⟩ b = ringContainsSegment r seg b :=
  ringContainsSegment_sim hk h seg b

theorem ringIntersectsSegment_aff {k : Rat} (hk : 0 < k) {d : Pt} {r r' : Ring} (h : RingSim k d r r')
    (seg : Seg) (b : Bool) :
    ringIntersectsSegment r' ⟨Pt.aff k d seg.a, Pt.aff k d seg.b⟩ b = ringIntersectsSegment r seg b :=
  ringIntersectsSegment_sim hk h seg b

theorem ringContainsRing_aff {k : Rat} (hk : 0 < k) {d : Pt} {r r' o o' : Ring}
    (h : RingSim k d r r') (ho : RingSim k d o o') (b : Bool) :
    ringContainsRing r' o' b = ringContainsRing r o b := ringContainsRing_sim hk h ho b

/-- includes the area comparison that chooses which ring is walked (areas scale by k²) -/
theorem ringIntersectsRing_aff {k : Rat} (hk : 0 < k) {d : Pt} {r r' o o' : Ring}
    (h : RingSim k d r r') (ho : RingSim k d o o') (b : Bool) :
    ringIntersectsRing r' o' b = ringIntersectsRing r o b := ringIntersectsRing_sim hk h ho b

theorem ringIntersectsLine_aff {k : Rat} (hk : 0 < k) {d : Pt} {r r' : Ring} {l l' : Line}
    (h : RingSim k d r r') (hl : SerSim k d l l') (b : Bool) :
    ringIntersectsLine r' l' b = ringIntersectsLine r l b := ringIntersectsLine_sim hk h hl b

/-- the `Line.ContainsLine` walk, `Option` result included -/
theorem line_containsLineO_aff {k : Rat} (hk : 0 < k) {d : Pt} {l l' o o' : Line}
    (hl : SerSim k d l l') (ho : SerSim k d o o') : l'.containsLineO o' = l.containsLineO o :=
  line_containsLineO_sim hk hl ho

/-! ## the 4 × 4 matrices

`A.mapPts T` rebuilds `A` from the mapped points with `mkSeries … .none 0` (rectangles and
points are mapped directly); `A.Built` says every series of `A` is what `mkSeries … .none 0`
builds from its points (so its flags and rectangle are the computed ones, and it has no index).
All layers are proved (ring × point, ring × segment both ways, ring × ring both ways, ring × line,
the line walk, line × line, polygons with holes, the 16 + 16 dispatch cases), so these are the
full theorems, not `_partial`. -/

theorem geom_contains_aff {k : Rat} (hk : 0 < k) (d : Pt) (A B : Geom) (hA : A.Built) (hB : B.Built) :
    (A.mapPts (Pt.aff k d)).contains (B.mapPts (Pt.aff k d)) = A.contains B :=
  geom_contains_sim hk (geomSim_mapPts hk d A hA) (geomSim_mapPts hk d B hB)

theorem geom_intersects_aff {k : Rat} (hk : 0 < k) (d : Pt) (A B : Geom) (hA : A.Built) (hB : B.Built) :
    (A.mapPts (Pt.aff k d)).intersects (B.mapPts (Pt.aff k d)) = A.intersects B :=
  geom_intersects_sim hk (geomSim_mapPts hk d A hA) (geomSim_mapPts hk d B hB)

theorem geom_contains_translate (d : Pt) (A B : Geom) (hA : A.Built) (hB : B.Built) :
    (A.mapPts (·.translate d)).contains (B.mapPts (·.translate d)) = A.contains B := by
  rw [translate_fun]; exact geom_contains_aff one_pos d A B hA hB

theorem geom_intersects_translate (d : Pt) (A B : Geom) (hA : A.Built) (hB : B.Built) :
    (A.mapPts (·.translate d)).intersects (B.mapPts (·.translate d)) = A.intersects B := by
  rw [translate_fun]; exact geom_intersects_aff one_pos d A B hA hB

theorem geom_contains_scale (k : Rat) (hk : 0 < k) (A B : Geom) (hA : A.Built) (hB : B.Built) :
    (A.mapPts (·.scale k)).contains (B.mapPts (·.scale k)) = A.contains B := by
  rw [scale_fun]; exact geom_contains_aff hk ⟨0, 0⟩ A B hA hB

theorem geom_intersects_scale (k : Rat) (hk : 0 < k) (A B : Geom) (hA : A.Built) (hB : B.Built) :
    (A.mapPts (·.scale k)).intersects (B.mapPts (·.scale k)) = A.intersects B := by
  rw [scale_fun]; exact geom_intersects_aff hk ⟨0, 0⟩ A B hA hB

/-- non-vacuity: a polygon with a hole and a line string, both `Built` -/
example : (Geom.poly ⟨some (.ser (mkSeries #[⟨0,0⟩,⟨10,0⟩,⟨10,10⟩,⟨0,10⟩,⟨0,0⟩] true .none 0)),
    [.ser (mkSeries #[⟨3,3⟩,⟨5,3⟩,⟨5,5⟩,⟨3,5⟩,⟨3,3⟩] true .none 0)]⟩).Built :=
  ⟨fun e he => by cases he; exact mkSeries_built _ _, fun h hh => by
    simp only [List.mem_singleton] at hh; subst hh; exact mkSeries_built _ _⟩

/-- scaling by a NEGATIVE factor (point reflection) is not covered, and `raycast.inn` is not
    invariant under it -/
theorem raycast_inn_neg_scale_counterexample :
    (raycast ⟨0, 0⟩ ⟨0, 2⟩ ⟨-1, 1⟩).inn = true ∧
    (raycast (Pt.scale ⟨0, 0⟩ (-1)) (Pt.scale ⟨0, 2⟩ (-1)) (Pt.scale ⟨-1, 1⟩ (-1))).inn = false := by
  decide +kernel

end Geo

#print axioms Geo.raycast_translate
#print axioms Geo.raycast_scale
#print axioms Geo.raycast_translate_eq
#print axioms Geo.raycast_scale_eq
#print axioms Geo.segIntersectsS_translate
#print axioms Geo.segIntersectsS_scale
#print axioms Geo.segIntersects_translate
#print axioms Geo.segIntersects_scale
#print axioms Geo.collinearPt_translate
#print axioms Geo.collinearPt_scale
#print axioms Geo.segContainsSeg_translate
#print axioms Geo.segContainsSeg_scale
#print axioms Geo.onSeg_reflX
#print axioms Geo.onSeg_reflY
#print axioms Geo.onSeg_transpose
#print axioms Geo.segsMeet_reflX
#print axioms Geo.segsMeet_reflY
#print axioms Geo.segsMeet_transpose
#print axioms Geo.raycast_on_reflX
#print axioms Geo.raycast_on_reflY
#print axioms Geo.raycast_on_transpose
#print axioms Geo.segIntersects_reflX
#print axioms Geo.segIntersects_reflY
#print axioms Geo.segIntersects_transpose
#print axioms Geo.segContainsSeg_reflX
#print axioms Geo.segContainsSeg_reflY
#print axioms Geo.segContainsSeg_transpose
#print axioms Geo.lineIntersectsLine_of_symm
#print axioms Geo.lineIntersectsLine_reflX
#print axioms Geo.lineIntersectsLine_reflY
#print axioms Geo.lineIntersectsLine_transpose
#print axioms Geo.lineContainsPoint_of_symm
#print axioms Geo.lineContainsPoint_reflX
#print axioms Geo.lineContainsPoint_reflY
#print axioms Geo.lineContainsPoint_transpose
#print axioms Geo.raycast_inn_reflX_counterexample
#print axioms Geo.processPoints_translate
#print axioms Geo.processPoints_scale
#print axioms Geo.processPoints_map_empty
#print axioms Geo.convexSpec_reflX
#print axioms Geo.convexSpec_reflY
#print axioms Geo.convexSpec_transpose
#print axioms Geo.clockwiseSpec_reflX
#print axioms Geo.clockwiseSpec_reflY
#print axioms Geo.clockwiseSpec_transpose
#print axioms Geo.processPoints_reflX
#print axioms Geo.processPoints_reflY
#print axioms Geo.processPoints_transpose
#print axioms Geo.ringContainsPoint_translate
#print axioms Geo.ringContainsPoint_scale
#print axioms Geo.ringContainsPoint_translate_hit
#print axioms Geo.ringContainsPoint_scale_hit
#print axioms Geo.ringContainsSegment_aff
#print axioms Geo.ringIntersectsSegment_aff
#print axioms Geo.ringContainsRing_aff
#print axioms Geo.ringIntersectsRing_aff
#print axioms Geo.ringIntersectsLine_aff
#print axioms Geo.line_containsLineO_aff
#print axioms Geo.geom_contains_aff
#print axioms Geo.geom_intersects_aff
#print axioms Geo.geom_contains_translate
#print axioms Geo.geom_intersects_translate
#print axioms Geo.geom_contains_scale
#print axioms Geo.geom_intersects_scale
#print axioms Geo.raycast_inn_neg_scale_counterexample
