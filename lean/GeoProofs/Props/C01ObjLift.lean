/-
  C01 at the object level, ALL objects (collections, features, nested): for a point argument
    * `Contains`, `Intersects`, `Within` (of the point) and the point's own `Intersects` are the
      SAME answer for every receiver, no hypothesis (`c01_point_relations_agree`);
    * when every geometry leaf of the receiver is in a configuration covered by C01Index
      (`Obj.C01Leaf`), that answer is "some geometry leaf has the position as a member" in the
      sense of the specification (`c01_intersects_point_all`, `c01_contains_point_all`, …).
-/
import GeoProofs.Props.C01Obj

namespace Geo
open Obj

/-- the leaf is in a configuration covered by C01Index, with the shape read off the object -/
def Obj.C01Leaf (g : Obj) : Prop := g.geom.C01Cfg g.shape

theorem Geom.C01Cfg.wf {g : Geom} {S : Spec.Shape} (h : g.C01Cfg S) : g.WF := by
  cases h with
  | point a => trivial
  | rect b => trivial
  | line pts kind m h => exact mkSeries_WF pts false kind m h
  | poly ext ek em holes hext hholes =>
    intro e he
    simp only [Option.some.injEq] at he
    subst he
    exact mkSeries_WF ext true ek em hext

theorem Obj.C01Leaf.leafWF {g : Obj} (h : g.C01Leaf) : g.LeafWF := Geom.C01Cfg.wf h

/-! ### the relations agree on a point argument, for every receiver -/

theorem c01_contains_point_eq_intersects (pt : Obj) (hpt : pt.leaves = [pt]) (hne : pt.empty = false)
    (hleaf : ∀ a : Obj, a.isLeaf = true → a.contains pt = a.intersects pt) :
    ∀ a : Obj, a.contains pt = a.intersects pt := by
  intro a
  induction a using Obj.ind with
  | hpoint pos ex => exact hleaf _ rfl
  | hspoint pos => exact hleaf _ rfl
  | hline l poss ex => exact hleaf _ rfl
  | hpoly p rings ex => exact hleaf _ rfl
  | hrect b lo hi => exact hleaf _ rfl
  | hcircle c r => rw [circle_contains, circle_intersects]
  | hfeat b ex ih => rw [feature_contains, feature_intersects, ih]
  | hcoll k cs ex idx ih =>
    rw [Bool.eq_iff_iff, coll_contains_iff, coll_intersects_iff, hpt, coll_empty_iff]
    constructor
    · rintro ⟨_, _, h⟩
      obtain ⟨c, hc, hce, hr, hcc⟩ := h pt (by simp) hne
      exact ⟨c, hc, hce, pt, by simp, hne, hr, by rw [← ih c hc]; exact hcc⟩
    · rintro ⟨c, hc, hce, g, hg, _, hr, hci⟩
      simp only [List.mem_singleton] at hg
      subst hg
      refine ⟨?_, ⟨g, by simp, hne⟩, ?_⟩
      · rw [Bool.eq_false_iff]; intro hall
        rw [List.all_eq_true] at hall
        have := hall c hc
        simp [hce] at this
      · intro g' hg' _
        simp only [List.mem_singleton] at hg'
        subst hg'
        exact ⟨c, hc, hce, hr, by rw [ih c hc]; exact hci⟩

/-- **for every receiver `a` (leaf, feature, collection, nested) and every point object: Contains,
    Intersects and Within-of-the-point coincide** -/
theorem c01_point_relations_agree (a : Obj) (pos : Pos) (ex : Option Extra) :
    a.contains (.point pos ex) = a.intersects (.point pos ex) ∧
    a.contains (.spoint pos) = a.intersects (.spoint pos) ∧
    (Obj.point pos ex).within a = a.intersects (.point pos ex) ∧
    (Obj.spoint pos).within a = a.intersects (.spoint pos) := by
  have h1 := c01_contains_point_eq_intersects (.point pos ex) (by simp [Obj.leaves]) rfl
    (fun a ha => by
      have := c01_leaf_point_relations a ha pos ex
      rw [this.1, this.2.2.1]) a
  have h2 := c01_contains_point_eq_intersects (.spoint pos) (by simp [Obj.leaves]) rfl
    (fun a ha => by
      have := c01_leaf_point_relations a ha pos ex
      rw [this.2.1, this.2.2.2.1]) a
  exact ⟨h1, h2, h1, h2⟩

/-! ### … and the answer is membership in some geometry leaf -/

theorem c01_allLeaves_point (pos : Pos) (ex : Option Extra) :
    (Obj.point pos ex).AllLeaves Obj.LeafWF ∧ (Obj.spoint pos).AllLeaves Obj.LeafWF := by
  constructor <;> intro g hg _ <;> simp only [Obj.geoLeaves, List.mem_singleton] at hg <;>
    subst hg <;> trivial

/-- one atom of the receiver against a point -/
theorem c01_atom_intersects_point (g : Obj) (hg : g.isAtom = true) (hc : g.isLeaf = true → g.C01Leaf)
    (pos : Pos) (ex : Option Extra) :
    (g.intersects (.point pos ex) = true ↔ g.isLeaf = true ∧ g.shape.member pos.p = true) ∧
    (g.intersects (.spoint pos) = true ↔ g.isLeaf = true ∧ g.shape.member pos.p = true) := by
  rcases isLeaf_or_circle hg with hl | ⟨c, r, rfl⟩
  · have h := c01_obj_point_exact g hl (hc hl) pos ex
    rw [h.2.2.1, h.2.2.2.1]
    simp [hl]
  · simp [circle_intersects, Obj.isLeaf]

/-- **Intersects with a point, all objects: some geometry leaf has the position as a member** -/
theorem c01_intersects_point_all (a : Obj) (ha : a.AllLeaves Obj.C01Leaf) (pos : Pos)
    (ex : Option Extra) :
    (a.intersects (.point pos ex) = true ↔
      ∃ g ∈ a.geoLeaves, g.isLeaf = true ∧ g.shape.member pos.p = true) ∧
    (a.intersects (.spoint pos) = true ↔
      ∃ g ∈ a.geoLeaves, g.isLeaf = true ∧ g.shape.member pos.p = true) := by
  have wa : a.AllLeaves Obj.LeafWF := allLeaves_mono (fun _ h => h.leafWF) ha
  have hp := c01_allLeaves_point pos ex
  constructor
  · rw [intersects_iff_atoms_all a _ wa hp.1]
    simp only [Obj.geoLeaves, List.mem_singleton, exists_eq_left]
    exact exists_congr fun g => and_congr_right fun hg =>
      (c01_atom_intersects_point g (geoLeaves_atom a g hg) (ha g hg) pos ex).1
  · rw [intersects_iff_atoms_all a _ wa hp.2]
    simp only [Obj.geoLeaves, List.mem_singleton, exists_eq_left]
    exact exists_congr fun g => and_congr_right fun hg =>
      (c01_atom_intersects_point g (geoLeaves_atom a g hg) (ha g hg) pos ex).2

/-- **Contains / Within with a point, all objects** -/
theorem c01_contains_point_all (a : Obj) (ha : a.AllLeaves Obj.C01Leaf) (pos : Pos)
    (ex : Option Extra) :
    (a.contains (.point pos ex) = true ↔
      ∃ g ∈ a.geoLeaves, g.isLeaf = true ∧ g.shape.member pos.p = true) ∧
    (a.contains (.spoint pos) = true ↔
      ∃ g ∈ a.geoLeaves, g.isLeaf = true ∧ g.shape.member pos.p = true) ∧
    ((Obj.point pos ex).within a = true ↔
      ∃ g ∈ a.geoLeaves, g.isLeaf = true ∧ g.shape.member pos.p = true) := by
  have h := c01_point_relations_agree a pos ex
  have hi := c01_intersects_point_all a ha pos ex
  exact ⟨by rw [h.1]; exact hi.1, by rw [h.2.1]; exact hi.2, by rw [h.2.2.1]; exact hi.1⟩

/-- the point as receiver: `(Point pos).Intersects(a)` -/
theorem c01_point_intersects_all (a : Obj) (ha : a.AllLeaves Obj.C01Leaf) (pos : Pos)
    (ex : Option Extra) :
    (Obj.point pos ex).intersects a = true ↔
      ∃ g ∈ a.geoLeaves, g.isLeaf = true ∧ g.shape.member pos.p = true := by
  have wa : a.AllLeaves Obj.LeafWF := allLeaves_mono (fun _ h => h.leafWF) ha
  rw [intersects_iff_atoms_all _ a (c01_allLeaves_point pos ex).1 wa]
  simp only [Obj.geoLeaves, List.mem_singleton, exists_eq_left]
  refine exists_congr fun g => and_congr_right fun hg => ?_
  rcases isLeaf_or_circle (geoLeaves_atom a g hg) with hl | ⟨c, r, rfl⟩
  · rw [(c01_obj_point_exact g hl (ha g hg hl) pos ex).2.2.2.2.2.2.1]; simp [hl]
  · have : (Obj.point pos ex).intersects (.circle c r) = false := by
      simp [Obj.intersects, Obj.intersectsPoint]
    simp [this, Obj.isLeaf]

/-! ### non-vacuity: a polygon with a hole, a quadtree-free configuration, non-integer position -/

def c01oExt : Array Pt := #[⟨0, 0⟩, ⟨4, 0⟩, ⟨4, 4⟩, ⟨0, 4⟩, ⟨0, 0⟩]
def c01oHole : Array Pt := #[⟨1, 1⟩, ⟨2, 1⟩, ⟨2, 2⟩, ⟨1, 2⟩, ⟨1, 1⟩]
def c01oPoly : Obj :=
  .polygon ⟨some (.ser (mkSeries c01oExt true .none 0)),
    [(c01oHole, 0)].map (fun h => Ring.ser (mkSeries h.1 true .none h.2))⟩ [] none
def c01oPos (x y : Rat) : Pos := ⟨⟨x, y⟩, true, "", ""⟩

theorem c01oPoly_cfg : c01oPoly.geom.C01Cfg (.poly c01oExt.toList [c01oHole.toList]) :=
  c01Cfg_poly_none c01oExt 0 [(c01oHole, 0)]

/-- inside the shell, outside the hole -/
example : c01oPoly.contains (.point (c01oPos (7 / 2) (1 / 3)) none) = true := by
  rw [(c01_obj_point_exact c01oPoly rfl c01oPoly_cfg _ _).1]; decide +kernel
/-- strictly inside the hole -/
example : c01oPoly.intersects (.spoint (c01oPos (3 / 2) (4 / 3))) = false := by
  rw [(c01_obj_point_exact c01oPoly rfl c01oPoly_cfg _ none).2.2.2.1]; decide +kernel
/-- on the hole's boundary: a member -/
example : (Obj.point (c01oPos (3 / 2) 1) none).within c01oPoly = true := by
  rw [(c01_obj_point_exact c01oPoly rfl c01oPoly_cfg _ _).2.2.2.2.1]; decide +kernel

/-- the collection level: a FeatureCollection of the polygon and a point -/
example : (Obj.coll .featureCollection [.feature c01oPoly none, .point (c01oPos 9 9) none] none false).AllLeaves
    Obj.C01Leaf := by
  intro g hg _
  have hl : (Obj.coll .featureCollection [.feature c01oPoly none, .point (c01oPos 9 9) none] none
      false).geoLeaves = [c01oPoly, .point (c01oPos 9 9) none] := by
    simp [Obj.geoLeaves, geoLeavesL, c01oPoly]
  rw [hl] at hg
  simp only [List.mem_cons, List.not_mem_nil, or_false] at hg
  rcases hg with rfl | rfl
  · have := c01oPoly_cfg
    rwa [← this.shape_eq] at this
  · exact .point _

end Geo

#print axioms Geo.c01_leaf_point_relations
#print axioms Geo.c01_obj_point_exact
#print axioms Geo.c01_obj_point_exact_shape
#print axioms Geo.Geom.C01Cfg.member_eq
#print axioms Geo.c01Cfg_poly_none
#print axioms Geo.c01Cfg_line_none
#print axioms Geo.c01Cfg_line_dyadic
#print axioms Geo.c01Cfg_poly_dyadic
#print axioms Geo.c01_point_relations_agree
#print axioms Geo.c01_intersects_point_all
#print axioms Geo.c01_contains_point_all
#print axioms Geo.c01_point_intersects_all
