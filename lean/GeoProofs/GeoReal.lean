/-
  GeoProofs.GeoReal — the exact instance `GeoNum ℝ` and the lemmas that unfold the class
  operations at ℝ, so that the generated definitions `Geo.Gen.*` (GeoModel/Generated/GeoFormulas)
  become ordinary real-analytic expressions.

    sin, cos        Real.sin, Real.cos
    asin, acos      Real.arcsin, Real.arccos   (total: clamped outside [-1,1]; Go returns NaN there —
                                                NaN-freedom is therefore not expressible over ℝ)
    atan2 y x       Complex.arg ⟨x, y⟩          (∈ (-π, π]; atan2 0 0 = 0 as in Go; signed zeros are
                                                not modelled)
    sqrt            Real.sqrt                  (0 on negatives; Go: NaN)
    fmod x y        x − y · trunc (x / y)       (trunc toward zero; for y = 0 this is x; Go: NaN)
    lt, le          decide (a < b), decide (a ≤ b)   (classical)
    toInt32         trunc toward zero, unbounded
    literals        exact: natLit n = (n : ℝ), ofSci m s e = the decimal number written
-/
import GeoModel.GeoNum
import GeoModel.Generated.GeoFormulas
import Mathlib.Analysis.SpecialFunctions.Trigonometric.Basic
import Mathlib.Analysis.SpecialFunctions.Trigonometric.Inverse
import Mathlib.Analysis.SpecialFunctions.Complex.Arg
import Mathlib.Analysis.SpecialFunctions.Sqrt
import Mathlib.Tactic.Linarith
import Mathlib.Tactic.Positivity
import Mathlib.Tactic.Ring
import Mathlib.Tactic.FieldSimp
import Mathlib.Tactic.NormNum

namespace Geo

open Classical in
/-- truncation toward zero -/
noncomputable def truncZ (x : ℝ) : ℤ := if 0 ≤ x then ⌊x⌋ else ⌈x⌉

/-- Go's `math.Mod` over ℝ: `x − y·trunc(x/y)` -/
noncomputable def rmod (x y : ℝ) : ℝ := x - y * (truncZ (x / y) : ℝ)

/-- Go's `math.Atan2(y, x)` over ℝ -/
noncomputable def ratan2 (y x : ℝ) : ℝ := Complex.arg ⟨x, y⟩

open Classical in
noncomputable instance instGeoNumReal : GeoNum ℝ where
  add a b := a + b
  sub a b := a - b
  mul a b := a * b
  div a b := a / b
  neg a := -a
  natLit n := (n : ℝ)
  ofSci m s e := (OfScientific.ofScientific m s e : ℝ)
  pi := Real.pi
  sin := Real.sin
  cos := Real.cos
  asin := Real.arcsin
  acos := Real.arccos
  atan2 := ratan2
  sqrt := Real.sqrt
  fmod := rmod
  lt a b := decide (a < b)
  le a b := decide (a ≤ b)
  toInt32 := truncZ
  ofInt i := (i : ℝ)

namespace GeoReal

/-! ### unfolding the class operations at ℝ -/

@[simp] theorem add_def (a b : ℝ) :
    @HAdd.hAdd ℝ ℝ ℝ (@instHAdd ℝ (@GeoNum.instAdd ℝ instGeoNumReal)) a b = a + b := rfl
@[simp] theorem sub_def (a b : ℝ) :
    @HSub.hSub ℝ ℝ ℝ (@instHSub ℝ (@GeoNum.instSub ℝ instGeoNumReal)) a b = a - b := rfl
@[simp] theorem mul_def (a b : ℝ) :
    @HMul.hMul ℝ ℝ ℝ (@instHMul ℝ (@GeoNum.instMul ℝ instGeoNumReal)) a b = a * b := rfl
@[simp] theorem div_def (a b : ℝ) :
    @HDiv.hDiv ℝ ℝ ℝ (@instHDiv ℝ (@GeoNum.instDiv ℝ instGeoNumReal)) a b = a / b := rfl
@[simp] theorem neg_def (a : ℝ) :
    @Neg.neg ℝ (@GeoNum.instNeg ℝ instGeoNumReal) a = -a := rfl
@[simp] theorem ofNat_def (n : ℕ) [n.AtLeastTwo] :
    @OfNat.ofNat ℝ n (@GeoNum.instOfNat ℝ instGeoNumReal n) = (OfNat.ofNat n : ℝ) := rfl
@[simp] theorem ofNat_zero :
    @OfNat.ofNat ℝ 0 (@GeoNum.instOfNat ℝ instGeoNumReal 0) = (0 : ℝ) := Nat.cast_zero
@[simp] theorem ofNat_one :
    @OfNat.ofNat ℝ 1 (@GeoNum.instOfNat ℝ instGeoNumReal 1) = (1 : ℝ) := Nat.cast_one
@[simp] theorem ofScientific_def (m : ℕ) (s : Bool) (e : ℕ) :
    @OfScientific.ofScientific ℝ (@GeoNum.instOfScientific ℝ instGeoNumReal) m s e
      = (OfScientific.ofScientific m s e : ℝ) := rfl
@[simp] theorem pi_def : (GeoNum.pi : ℝ) = Real.pi := rfl
@[simp] theorem sin_def (x : ℝ) : GeoNum.sin x = Real.sin x := rfl
@[simp] theorem cos_def (x : ℝ) : GeoNum.cos x = Real.cos x := rfl
@[simp] theorem asin_def (x : ℝ) : GeoNum.asin x = Real.arcsin x := rfl
@[simp] theorem acos_def (x : ℝ) : GeoNum.acos x = Real.arccos x := rfl
@[simp] theorem atan2_def (y x : ℝ) : GeoNum.atan2 y x = ratan2 y x := rfl
@[simp] theorem sqrt_def (x : ℝ) : GeoNum.sqrt x = Real.sqrt x := rfl
@[simp] theorem fmod_def (x y : ℝ) : GeoNum.fmod x y = rmod x y := rfl
@[simp] theorem lt_def (a b : ℝ) : (GeoNum.lt a b = true) ↔ a < b := by
  simp [GeoNum.lt]
@[simp] theorem le_def (a b : ℝ) : (GeoNum.le a b = true) ↔ a ≤ b := by
  simp [GeoNum.le]
@[simp] theorem gt_def (a b : ℝ) : (GeoNum.gt a b = true) ↔ b < a := by
  simp [GeoNum.gt]
@[simp] theorem ge_def (a b : ℝ) : (GeoNum.ge a b = true) ↔ b ≤ a := by
  simp [GeoNum.ge]
@[simp] theorem toInt32_def (x : ℝ) : GeoNum.toInt32 x = truncZ x := rfl
@[simp] theorem ofInt_def (i : ℤ) : (GeoNum.ofInt i : ℝ) = (i : ℝ) := rfl

@[simp] theorem npow_def (x : ℝ) (n : ℕ) : GeoNum.npow x n = x ^ n := by
  induction n with
  | zero => simp [GeoNum.npow]
  | succ k ih => simp [GeoNum.npow, ih, pow_succ]

end GeoReal
end Geo
