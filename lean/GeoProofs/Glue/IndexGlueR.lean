/-
  GeoProofs.Glue.IndexGlueR — shared definitions for the R-tree half of the index bridge:
  the abstraction from the generated `IGen.RRect` (a rect with `data interface{}` holding
  `*rNode` = count + 17 slots, or an `int` item) to the model's `(GBox × RNode)`, the codec
  mapping, and the extra compatibility law for Go's float `==`.

  MAPPING (in addition to `Compat`, IndexGlue.lean):
      Go `a == b` on float64                ↦ the model's `feq a b = !(lt a b) && !(lt b a)`   (`CompatEq`)
      `appendFloat(dst, x)`                 ↦ `enc x = leBytes (Float64bits x) 8`               (`encOf`)
      `Float64frombits(LittleEndian.Uint64)`↦ `dec bs = Float64frombits (Σ bs[i]·256^i)`       (`decOf`)
  `CompatEq` holds for every carrier whose `lt` is a strict total order; it FAILS for IEEE NaN
  (`NaN == x` is false, `feq NaN x` is true): see the report.
-/
import GeoProofs.Glue.IndexGlueNum

namespace Geo.IGlue
open Geo Geo.IGen
open scoped Geo.KNum

/-- Go's `==` on float64 is the model's `feq` -/
class CompatEq (F : Type) [KNum F] [Carrier F] : Prop where
  eq : ∀ a b : F, KNum.eq a b = feq a b

variable {F : Type}

/-- the rect of a generated `rRect` (min[0], min[1], max[0], max[1]) as the model's box -/
def rbox (r : IGen.RRect F) : GBox F := ⟨r.min0, r.min1, r.max0, r.max1⟩

/-- little-endian value of a byte list -/
def leVal : List Nat → Nat
  | [] => 0
  | b :: rest => b + 256 * leVal rest

/-- the model's coordinate encoder read off `appendFloat` -/
def encOf (bits : F → Nat) (x : F) : List Nat := leBytes (bits x) 8

/-- the model's coordinate decoder read off `rnCompressSearch` -/
def decOf (f64 : Nat → F) (bs : List Nat) : F := f64 (leVal bs)

/-- a leaf slot: its rect and its item (`data.(int)`, a non-negative int) -/
def absLeafEntry (e : IGen.RRect F) : Option (GBox F × Nat) :=
  match e.data with
  | .int v => if 0 ≤ v then some (rbox e, v.toNat) else none
  | _ => none

/-- the used slots of a node: the first `count` of the 17 -/
def usedSlots (nd : IGen.RNode F) : List (IGen.RRect F) := nd.rects.take nd.count.toNat

/-- generated rect-with-node at a given height ↦ the model's (box, node); none = not a well-formed
    node of that height (wrong dynamic type in `data`) -/
def absNode : Nat → IGen.RRect F → Option (GBox F × Geo.RNode F)
  | 0, r =>
    match r.data with
    | .rNode nd => (usedSlots nd).mapM absLeafEntry |>.map (fun es => (rbox r, Geo.RNode.leaf es))
    | _ => none
  | h+1, r =>
    match r.data with
    | .rNode nd => (usedSlots nd).mapM (absNode h) |>.map (fun es => (rbox r, Geo.RNode.inner es))
    | _ => none

/-- the slot array of a node has its 17 places and the count is within them -/
def SlotsOK (nd : IGen.RNode F) : Prop := nd.rects.length = 17 ∧ 0 ≤ nd.count ∧ nd.count ≤ 17

end Geo.IGlue
