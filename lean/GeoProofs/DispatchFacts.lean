/-
  GeoProofs.DispatchFacts — pins the regenerated dispatch table (GeoModel/Generated/Dispatch.lean,
  extracted from /repo's source on every run) to the version that the hand-written object model
  (GeoModel/Object.lean, Write.lean) mirrors, and derives the code-side facts the object-level
  theorems rely on.  `expected` below was frozen from the repaired tree (after the fix: commits);
  an edit to any of these 179 method bodies changes the generated file and breaks
  `dispatch_table_pinned`.
-/
import GeoModel.Generated.Dispatch
namespace Geo.DispatchFacts

def expected0 : List (String × String × String) := [
  ("Circle", "Center", "func (g *Circle) Center() geometry.Point { return g.center }"),
  ("Circle", "Contains", "func (g *Circle) Contains(obj Object) bool { switch other := obj.(type) { case *Point: return g.containsPoint(other.Center()) case *SimplePoint: return g.containsPoint(other.Center()) case *Circle: return other.Distance(g)+other.meters <= g.meters case Collection: for _, p := range other.Children() { if !g.Contains(p) { return false } } return true default: return g.getObject().Contains(other) } }"),
  ("Circle", "Empty", "func (g *Circle) Empty() bool { return false }"),
  ("Circle", "ForEach", "func (g *Circle) ForEach(iter func(geom Object) bool) bool { return iter(g) }"),
  ("Circle", "Intersects", "func (g *Circle) Intersects(obj Object) bool { switch other := obj.(type) { case *Point: return g.containsPoint(other.Center()) case *SimplePoint: return g.containsPoint(other.Center()) case *Circle: return other.Distance(g) <= (other.meters + g.meters) case Collection: for _, p := range other.Children() { if g.Intersects(p) { return true } } return false case *Feature: return g.Intersects(other.base) default: return g.getObject().Intersects(obj) } }"),
  ("Circle", "JSON", "func (g *Circle) JSON() string { return string(g.AppendJSON(nil)) }"),
  ("Circle", "MarshalJSON", "func (g *Circle) MarshalJSON() ([]byte, error) { return g.AppendJSON(nil), nil }"),
  ("Circle", "NumPoints", "func (g *Circle) NumPoints() int { return 1 }"),
  ("Circle", "Rect", "func (g *Circle) Rect() geometry.Rect { return g.getObject().Rect() }"),
  ("Circle", "Spatial", "func (g *Circle) Spatial() Spatial { return g.getObject().Spatial() }"),
  ("Circle", "String", "func (g *Circle) String() string { return string(g.AppendJSON(nil)) }"),
  ("Circle", "Valid", "func (g *Circle) Valid() bool { return g.getObject().Valid() }"),
  ("Circle", "Within", "func (g *Circle) Within(obj Object) bool { return obj.Contains(g) }"),
  ("Feature", "Center", "func (g *Feature) Center() geometry.Point { return g.Rect().Center() }"),
  ("Feature", "Contains", "func (g *Feature) Contains(obj Object) bool { return g.base.Contains(obj) }"),
  ("Feature", "Empty", "func (g *Feature) Empty() bool { return g.base.Empty() }"),
  ("Feature", "ForEach", "func (g *Feature) ForEach(iter func(geom Object) bool) bool { return iter(g) }"),
  ("Feature", "Intersects", "func (g *Feature) Intersects(obj Object) bool { return g.base.Intersects(obj) }"),
  ("Feature", "IntersectsLine", "func (g *Feature) IntersectsLine(line *geometry.Line) bool { return g.base.Spatial().IntersectsLine(line) }"),
  ("Feature", "IntersectsPoint", "func (g *Feature) IntersectsPoint(point geometry.Point) bool { return g.base.Spatial().IntersectsPoint(point) }"),
  ("Feature", "IntersectsPoly", "func (g *Feature) IntersectsPoly(poly *geometry.Poly) bool { return g.base.Spatial().IntersectsPoly(poly) }"),
  ("Feature", "IntersectsRect", "func (g *Feature) IntersectsRect(rect geometry.Rect) bool { return g.base.Spatial().IntersectsRect(rect) }"),
  ("Feature", "JSON", "func (g *Feature) JSON() string { return string(g.AppendJSON(nil)) }"),
  ("Feature", "MarshalJSON", "func (g *Feature) MarshalJSON() ([]byte, error) { return g.AppendJSON(nil), nil }"),
  ("Feature", "NumPoints", "func (g *Feature) NumPoints() int { return g.base.NumPoints() }"),
  ("Feature", "Rect", "func (g *Feature) Rect() geometry.Rect { return g.base.Rect() }"),
  ("Feature", "Spatial", "func (g *Feature) Spatial() Spatial { return g }"),
  ("Feature", "String", "func (g *Feature) String() string { return string(g.AppendJSON(nil)) }"),
  ("Feature", "Valid", "func (g *Feature) Valid() bool { return g.base.Valid() }"),
  ("Feature", "Within", "func (g *Feature) Within(obj Object) bool { return obj.Contains(g) }")
]

def expected1 : List (String × String × String) := [
  ("Feature", "WithinLine", "func (g *Feature) WithinLine(line *geometry.Line) bool { return g.base.Spatial().WithinLine(line) }"),
  ("Feature", "WithinPoint", "func (g *Feature) WithinPoint(point geometry.Point) bool { return g.base.Spatial().WithinPoint(point) }"),
  ("Feature", "WithinPoly", "func (g *Feature) WithinPoly(poly *geometry.Poly) bool { return g.base.Spatial().WithinPoly(poly) }"),
  ("Feature", "WithinRect", "func (g *Feature) WithinRect(rect geometry.Rect) bool { return g.base.Spatial().WithinRect(rect) }"),
  ("FeatureCollection", "JSON", "func (g *FeatureCollection) JSON() string { return string(g.AppendJSON(nil)) }"),
  ("FeatureCollection", "MarshalJSON", "func (g *FeatureCollection) MarshalJSON() ([]byte, error) { return g.AppendJSON(nil), nil }"),
  ("FeatureCollection", "String", "func (g *FeatureCollection) String() string { return string(g.AppendJSON(nil)) }"),
  ("GeometryCollection", "JSON", "func (g *GeometryCollection) JSON() string { return string(g.AppendJSON(nil)) }"),
  ("GeometryCollection", "MarshalJSON", "func (g *GeometryCollection) MarshalJSON() ([]byte, error) { return g.AppendJSON(nil), nil }"),
  ("GeometryCollection", "String", "func (g *GeometryCollection) String() string { return string(g.AppendJSON(nil)) }"),
  ("LineString", "Center", "func (g *LineString) Center() geometry.Point { return g.Rect().Center() }"),
  ("LineString", "Contains", "func (g *LineString) Contains(obj Object) bool { return obj.Spatial().WithinLine(&g.base) }"),
  ("LineString", "Empty", "func (g *LineString) Empty() bool { return g.base.Empty() }"),
  ("LineString", "ForEach", "func (g *LineString) ForEach(iter func(geom Object) bool) bool { return iter(g) }"),
  ("LineString", "Intersects", "func (g *LineString) Intersects(obj Object) bool { return obj.Spatial().IntersectsLine(&g.base) }"),
  ("LineString", "IntersectsLine", "func (g *LineString) IntersectsLine(line *geometry.Line) bool { return g.base.IntersectsLine(line) }"),
  ("LineString", "IntersectsPoint", "func (g *LineString) IntersectsPoint(point geometry.Point) bool { return g.base.IntersectsPoint(point) }"),
  ("LineString", "IntersectsPoly", "func (g *LineString) IntersectsPoly(poly *geometry.Poly) bool { return g.base.IntersectsPoly(poly) }"),
  ("LineString", "IntersectsRect", "func (g *LineString) IntersectsRect(rect geometry.Rect) bool { return g.base.IntersectsRect(rect) }"),
  ("LineString", "JSON", "func (g *LineString) JSON() string { return string(g.AppendJSON(nil)) }"),
  ("LineString", "MarshalJSON", "func (g *LineString) MarshalJSON() ([]byte, error) { return g.AppendJSON(nil), nil }"),
  ("LineString", "NumPoints", "func (g *LineString) NumPoints() int { return g.base.NumPoints() }"),
  ("LineString", "Rect", "func (g *LineString) Rect() geometry.Rect { return g.base.Rect() }"),
  ("LineString", "Spatial", "func (g *LineString) Spatial() Spatial { return g }"),
  ("LineString", "String", "func (g *LineString) String() string { return string(g.AppendJSON(nil)) }"),
  ("LineString", "Valid", "func (g *LineString) Valid() bool { return g.base.Valid() }"),
  ("LineString", "Within", "func (g *LineString) Within(obj Object) bool { return obj.Contains(g) }"),
  ("LineString", "WithinLine", "func (g *LineString) WithinLine(line *geometry.Line) bool { return line.ContainsLine(&g.base) }"),
  ("LineString", "WithinPoint", "func (g *LineString) WithinPoint(point geometry.Point) bool { return point.ContainsLine(&g.base) }"),
  ("LineString", "WithinPoly", "func (g *LineString) WithinPoly(poly *geometry.Poly) bool { return poly.ContainsLine(&g.base) }")
]

def expected2 : List (String × String × String) := [
  ("LineString", "WithinRect", "func (g *LineString) WithinRect(rect geometry.Rect) bool { return rect.ContainsLine(&g.base) }"),
  ("MultiLineString", "JSON", "func (g *MultiLineString) JSON() string { return string(g.AppendJSON(nil)) }"),
  ("MultiLineString", "MarshalJSON", "func (g *MultiLineString) MarshalJSON() ([]byte, error) { return g.AppendJSON(nil), nil }"),
  ("MultiLineString", "String", "func (g *MultiLineString) String() string { return string(g.AppendJSON(nil)) }"),
  ("MultiLineString", "Valid", "func (g *MultiLineString) Valid() bool { valid := true for _, p := range g.children { if !p.Valid() { valid = false } } return valid }"),
  ("MultiPoint", "JSON", "func (g *MultiPoint) JSON() string { return string(g.AppendJSON(nil)) }"),
  ("MultiPoint", "MarshalJSON", "func (g *MultiPoint) MarshalJSON() ([]byte, error) { return g.AppendJSON(nil), nil }"),
  ("MultiPoint", "String", "func (g *MultiPoint) String() string { return string(g.AppendJSON(nil)) }"),
  ("MultiPolygon", "JSON", "func (g *MultiPolygon) JSON() string { return string(g.AppendJSON(nil)) }"),
  ("MultiPolygon", "MarshalJSON", "func (g *MultiPolygon) MarshalJSON() ([]byte, error) { return g.AppendJSON(nil), nil }"),
  ("MultiPolygon", "String", "func (g *MultiPolygon) String() string { return string(g.AppendJSON(nil)) }"),
  ("MultiPolygon", "Valid", "func (g *MultiPolygon) Valid() bool { valid := true for _, p := range g.children { if !p.Valid() { valid = false } } return valid }"),
  ("Point", "Center", "func (g *Point) Center() geometry.Point { return g.base }"),
  ("Point", "Contains", "func (g *Point) Contains(obj Object) bool { return obj.Spatial().WithinPoint(g.base) }"),
  ("Point", "Empty", "func (g *Point) Empty() bool { return g.base.Empty() }"),
  ("Point", "ForEach", "func (g *Point) ForEach(iter func(geom Object) bool) bool { return iter(g) }"),
  ("Point", "Intersects", "func (g *Point) Intersects(obj Object) bool { if obj, ok := obj.(*Circle); ok { return obj.Contains(g) } return obj.Spatial().IntersectsPoint(g.base) }"),
  ("Point", "IntersectsLine", "func (g *Point) IntersectsLine(line *geometry.Line) bool { return g.base.IntersectsLine(line) }"),
  ("Point", "IntersectsPoint", "func (g *Point) IntersectsPoint(point geometry.Point) bool { return g.base.IntersectsPoint(point) }"),
  ("Point", "IntersectsPoly", "func (g *Point) IntersectsPoly(poly *geometry.Poly) bool { return g.base.IntersectsPoly(poly) }"),
  ("Point", "IntersectsRect", "func (g *Point) IntersectsRect(rect geometry.Rect) bool { return g.base.IntersectsRect(rect) }"),
  ("Point", "JSON", "func (g *Point) JSON() string { return string(g.AppendJSON(nil)) }"),
  ("Point", "MarshalJSON", "func (g *Point) MarshalJSON() ([]byte, error) { return g.AppendJSON(nil), nil }"),
  ("Point", "NumPoints", "func (g *Point) NumPoints() int { return 1 }"),
  ("Point", "Rect", "func (g *Point) Rect() geometry.Rect { return g.base.Rect() }"),
  ("Point", "Spatial", "func (g *Point) Spatial() Spatial { return g }"),
  ("Point", "String", "func (g *Point) String() string { return string(g.AppendJSON(nil)) }"),
  ("Point", "Valid", "func (g *Point) Valid() bool { return g.base.Valid() }"),
  ("Point", "Within", "func (g *Point) Within(obj Object) bool { return obj.Contains(g) }"),
  ("Point", "WithinLine", "func (g *Point) WithinLine(line *geometry.Line) bool { return line.ContainsPoint(g.base) }")
]

def expected3 : List (String × String × String) := [
  ("Point", "WithinPoint", "func (g *Point) WithinPoint(point geometry.Point) bool { return point.ContainsPoint(g.base) }"),
  ("Point", "WithinPoly", "func (g *Point) WithinPoly(poly *geometry.Poly) bool { return poly.ContainsPoint(g.base) }"),
  ("Point", "WithinRect", "func (g *Point) WithinRect(rect geometry.Rect) bool { return rect.ContainsPoint(g.base) }"),
  ("Polygon", "Center", "func (g *Polygon) Center() geometry.Point { return g.Rect().Center() }"),
  ("Polygon", "Contains", "func (g *Polygon) Contains(obj Object) bool { return obj.Spatial().WithinPoly(&g.base) }"),
  ("Polygon", "Empty", "func (g *Polygon) Empty() bool { return g.base.Empty() }"),
  ("Polygon", "ForEach", "func (g *Polygon) ForEach(iter func(geom Object) bool) bool { return iter(g) }"),
  ("Polygon", "Intersects", "func (g *Polygon) Intersects(obj Object) bool { return obj.Spatial().IntersectsPoly(&g.base) }"),
  ("Polygon", "IntersectsLine", "func (g *Polygon) IntersectsLine(line *geometry.Line) bool { return g.base.IntersectsLine(line) }"),
  ("Polygon", "IntersectsPoint", "func (g *Polygon) IntersectsPoint(point geometry.Point) bool { return g.base.IntersectsPoint(point) }"),
  ("Polygon", "IntersectsPoly", "func (g *Polygon) IntersectsPoly(poly *geometry.Poly) bool { return g.base.IntersectsPoly(poly) }"),
  ("Polygon", "IntersectsRect", "func (g *Polygon) IntersectsRect(rect geometry.Rect) bool { return g.base.IntersectsRect(rect) }"),
  ("Polygon", "JSON", "func (g *Polygon) JSON() string { return string(g.AppendJSON(nil)) }"),
  ("Polygon", "MarshalJSON", "func (g *Polygon) MarshalJSON() ([]byte, error) { return g.AppendJSON(nil), nil }"),
  ("Polygon", "NumPoints", "func (g *Polygon) NumPoints() int { if g.base.Exterior == nil { return 0 } n := g.base.Exterior.NumPoints() for _, hole := range g.base.Holes { n += hole.NumPoints() } return n }"),
  ("Polygon", "Rect", "func (g *Polygon) Rect() geometry.Rect { return g.base.Rect() }"),
  ("Polygon", "Spatial", "func (g *Polygon) Spatial() Spatial { return g }"),
  ("Polygon", "String", "func (g *Polygon) String() string { return string(g.AppendJSON(nil)) }"),
  ("Polygon", "Valid", "func (g *Polygon) Valid() bool { return g.base.Valid() }"),
  ("Polygon", "Within", "func (g *Polygon) Within(obj Object) bool { return obj.Contains(g) }"),
  ("Polygon", "WithinLine", "func (g *Polygon) WithinLine(line *geometry.Line) bool { return line.ContainsPoly(&g.base) }"),
  ("Polygon", "WithinPoint", "func (g *Polygon) WithinPoint(point geometry.Point) bool { return point.ContainsPoly(&g.base) }"),
  ("Polygon", "WithinPoly", "func (g *Polygon) WithinPoly(poly *geometry.Poly) bool { return poly.ContainsPoly(&g.base) }"),
  ("Polygon", "WithinRect", "func (g *Polygon) WithinRect(rect geometry.Rect) bool { return rect.ContainsPoly(&g.base) }"),
  ("Rect", "Center", "func (g *Rect) Center() geometry.Point { return g.base.Center() }"),
  ("Rect", "Contains", "func (g *Rect) Contains(obj Object) bool { return obj.Spatial().WithinRect(g.base) }"),
  ("Rect", "Empty", "func (g *Rect) Empty() bool { return g.base.Empty() }"),
  ("Rect", "ForEach", "func (g *Rect) ForEach(iter func(geom Object) bool) bool { return iter(g) }"),
  ("Rect", "Intersects", "func (g *Rect) Intersects(obj Object) bool { return obj.Spatial().IntersectsRect(g.base) }"),
  ("Rect", "IntersectsLine", "func (g *Rect) IntersectsLine(line *geometry.Line) bool { return g.base.IntersectsLine(line) }")
]

def expected4 : List (String × String × String) := [
  ("Rect", "IntersectsPoint", "func (g *Rect) IntersectsPoint(point geometry.Point) bool { return g.base.IntersectsPoint(point) }"),
  ("Rect", "IntersectsPoly", "func (g *Rect) IntersectsPoly(poly *geometry.Poly) bool { return g.base.IntersectsPoly(poly) }"),
  ("Rect", "IntersectsRect", "func (g *Rect) IntersectsRect(rect geometry.Rect) bool { return g.base.IntersectsRect(rect) }"),
  ("Rect", "JSON", "func (g *Rect) JSON() string { return string(g.AppendJSON(nil)) }"),
  ("Rect", "MarshalJSON", "func (g *Rect) MarshalJSON() ([]byte, error) { return g.AppendJSON(nil), nil }"),
  ("Rect", "NumPoints", "func (g *Rect) NumPoints() int { return 2 }"),
  ("Rect", "Rect", "func (g *Rect) Rect() geometry.Rect { return g.base }"),
  ("Rect", "Spatial", "func (g *Rect) Spatial() Spatial { return g }"),
  ("Rect", "String", "func (g *Rect) String() string { return string(g.AppendJSON(nil)) }"),
  ("Rect", "Valid", "func (g *Rect) Valid() bool { return g.base.Valid() }"),
  ("Rect", "Within", "func (g *Rect) Within(obj Object) bool { return obj.Contains(g) }"),
  ("Rect", "WithinLine", "func (g *Rect) WithinLine(line *geometry.Line) bool { return line.ContainsRect(g.base) }"),
  ("Rect", "WithinPoint", "func (g *Rect) WithinPoint(point geometry.Point) bool { return point.ContainsRect(g.base) }"),
  ("Rect", "WithinPoly", "func (g *Rect) WithinPoly(poly *geometry.Poly) bool { return poly.ContainsRect(g.base) }"),
  ("Rect", "WithinRect", "func (g *Rect) WithinRect(rect geometry.Rect) bool { return rect.ContainsRect(g.base) }"),
  ("SimplePoint", "Center", "func (g *SimplePoint) Center() geometry.Point { return g.Point }"),
  ("SimplePoint", "Contains", "func (g *SimplePoint) Contains(obj Object) bool { return obj.Spatial().WithinPoint(g.Point) }"),
  ("SimplePoint", "Empty", "func (g *SimplePoint) Empty() bool { return g.Point.Empty() }"),
  ("SimplePoint", "ForEach", "func (g *SimplePoint) ForEach(iter func(geom Object) bool) bool { return iter(g) }"),
  ("SimplePoint", "Intersects", "func (g *SimplePoint) Intersects(obj Object) bool { if obj, ok := obj.(*Circle); ok { return obj.Contains(g) } return obj.Spatial().IntersectsPoint(g.Point) }"),
  ("SimplePoint", "IntersectsLine", "func (g *SimplePoint) IntersectsLine(line *geometry.Line) bool { return g.Point.IntersectsLine(line) }"),
  ("SimplePoint", "IntersectsPoint", "func (g *SimplePoint) IntersectsPoint(point geometry.Point) bool { return g.Point.IntersectsPoint(point) }"),
  ("SimplePoint", "IntersectsPoly", "func (g *SimplePoint) IntersectsPoly(poly *geometry.Poly) bool { return g.Point.IntersectsPoly(poly) }"),
  ("SimplePoint", "IntersectsRect", "func (g *SimplePoint) IntersectsRect(rect geometry.Rect) bool { return g.Point.IntersectsRect(rect) }"),
  ("SimplePoint", "JSON", "func (g *SimplePoint) JSON() string { return string(g.AppendJSON(nil)) }"),
  ("SimplePoint", "MarshalJSON", "func (g *SimplePoint) MarshalJSON() ([]byte, error) { return g.AppendJSON(nil), nil }"),
  ("SimplePoint", "NumPoints", "func (g *SimplePoint) NumPoints() int { return 1 }"),
  ("SimplePoint", "Rect", "func (g *SimplePoint) Rect() geometry.Rect { return g.Point.Rect() }"),
  ("SimplePoint", "Spatial", "func (g *SimplePoint) Spatial() Spatial { return g }"),
  ("SimplePoint", "String", "func (g *SimplePoint) String() string { return string(g.AppendJSON(nil)) }")
]

def expected5 : List (String × String × String) := [
  ("SimplePoint", "Valid", "func (g *SimplePoint) Valid() bool { return g.Point.Valid() }"),
  ("SimplePoint", "Within", "func (g *SimplePoint) Within(obj Object) bool { return obj.Contains(g) }"),
  ("SimplePoint", "WithinLine", "func (g *SimplePoint) WithinLine(line *geometry.Line) bool { return line.ContainsPoint(g.Point) }"),
  ("SimplePoint", "WithinPoint", "func (g *SimplePoint) WithinPoint(point geometry.Point) bool { return point.ContainsPoint(g.Point) }"),
  ("SimplePoint", "WithinPoly", "func (g *SimplePoint) WithinPoly(poly *geometry.Poly) bool { return poly.ContainsPoint(g.Point) }"),
  ("SimplePoint", "WithinRect", "func (g *SimplePoint) WithinRect(rect geometry.Rect) bool { return rect.ContainsPoint(g.Point) }"),
  ("collection", "Center", "func (g *collection) Center() geometry.Point { return g.Rect().Center() }"),
  ("collection", "Children", "func (g *collection) Children() []Object { return g.children }"),
  ("collection", "Contains", "func (g *collection) Contains(obj Object) bool { if g.Empty() { return false } var objContained bool obj.ForEach(func(geom Object) bool { if geom.Empty() { return true } var geomContained bool g.Search(geom.Rect(), func(child Object) bool { if child.Contains(geom) { geomContained = true return false } return true }) if !geomContained { objContained = false return false } objContained = true return true }) return objContained }"),
  ("collection", "Empty", "func (g *collection) Empty() bool { return g.pempty }"),
  ("collection", "ForEach", "func (g *collection) ForEach(iter func(geom Object) bool) bool { for _, child := range g.children { if !child.ForEach(iter) { return false } } return true }"),
  ("collection", "Intersects", "func (g *collection) Intersects(obj Object) bool { var intersects bool obj.ForEach(func(geom Object) bool { if geom.Empty() { return true } g.Search(geom.Rect(), func(child Object) bool { if child.Intersects(geom) { intersects = true return false } return true }) return !intersects }) return intersects }"),
  ("collection", "IntersectsLine", "func (g *collection) IntersectsLine(line *geometry.Line) bool { var intersects bool g.Search(line.Rect(), func(child Object) bool { if child.Spatial().IntersectsLine(line) { intersects = true return false } return true }) return intersects }"),
  ("collection", "IntersectsPoint", "func (g *collection) IntersectsPoint(point geometry.Point) bool { var intersects bool g.Search(point.Rect(), func(child Object) bool { if child.Spatial().IntersectsPoint(point) { intersects = true return false } return true }) return intersects }"),
  ("collection", "IntersectsPoly", "func (g *collection) IntersectsPoly(poly *geometry.Poly) bool { var intersects bool g.Search(poly.Rect(), func(child Object) bool { if child.Spatial().IntersectsPoly(poly) { intersects = true return false } return true }) return intersects }"),
  ("collection", "IntersectsRect", "func (g *collection) IntersectsRect(rect geometry.Rect) bool { var intersects bool g.Search(rect, func(child Object) bool { if child.Spatial().IntersectsRect(rect) { intersects = true return false } return true }) return intersects }"),
  ("collection", "JSON", "func (g *collection) JSON() string { return string(g.AppendJSON(nil)) }"),
  ("collection", "MarshalJSON", "func (g *collection) MarshalJSON() ([]byte, error) { return g.AppendJSON(nil), nil }"),
  ("collection", "NumPoints", "func (g *collection) NumPoints() int { var n int for _, child := range g.children { n += child.NumPoints() } return n }"),
  ("collection", "Rect", "func (g *collection) Rect() geometry.Rect { return g.prect }"),
  ("collection", "Search", "func (g *collection) Search(rect geometry.Rect, iter func(child Object) bool) { if g.tree != nil { g.tree.Search([2]float64{rect.Min.X, rect.Min.Y}, [2]float64{rect.Max.X, rect.Max.Y}, func(_, _ [2]float64, value interface{}) bool { return iter(value.(Object)) }) } else { for _, child := range g.children { if child.Empty() { continue } if child.Rect().IntersectsRect(rect) { if !iter(child) { break } } } } }"),
  ("collection", "Spatial", "func (g *collection) Spatial() Spatial { return g }"),
  ("collection", "String", "func (g *collection) String() string { return string(g.AppendJSON(nil)) }"),
  ("collection", "Valid", "func (g *collection) Valid() bool { return g.Rect().Valid() }"),
  ("collection", "Within", "func (g *collection) Within(obj Object) bool { return obj.Contains(g) }"),
  ("collection", "WithinLine", "func (g *collection) WithinLine(line *geometry.Line) bool { if g.Empty() { return false } var withinCount int g.Search(line.Rect(), func(child Object) bool { if child.Spatial().WithinLine(line) { withinCount++ return true } return false }) return withinCount == len(g.children) }"),
  ("collection", "WithinPoint", "func (g *collection) WithinPoint(point geometry.Point) bool { if g.Empty() { return false } var withinCount int g.Search(point.Rect(), func(child Object) bool { if child.Spatial().WithinPoint(point) { withinCount++ return true } return false }) return withinCount == len(g.children) }"),
  ("collection", "WithinPoly", "func (g *collection) WithinPoly(poly *geometry.Poly) bool { if g.Empty() { return false } var withinCount int g.Search(poly.Rect(), func(child Object) bool { if child.Spatial().WithinPoly(poly) { withinCount++ return true } return false }) return withinCount == len(g.children) }"),
  ("collection", "WithinRect", "func (g *collection) WithinRect(rect geometry.Rect) bool { if g.Empty() { return false } var withinCount int g.Search(rect, func(child Object) bool { if child.Spatial().WithinRect(rect) { withinCount++ return true } return false }) return withinCount == len(g.children) }")
]

def expected : List (String × String × String) := expected0 ++ expected1 ++ expected2 ++ expected3 ++ expected4 ++ expected5


theorem chunk0 : Geo.DispatchGen.table0 = expected0 := by decide +kernel
theorem chunk1 : Geo.DispatchGen.table1 = expected1 := by decide +kernel
theorem chunk2 : Geo.DispatchGen.table2 = expected2 := by decide +kernel
theorem chunk3 : Geo.DispatchGen.table3 = expected3 := by decide +kernel
theorem chunk4 : Geo.DispatchGen.table4 = expected4 := by decide +kernel
theorem chunk5 : Geo.DispatchGen.table5 = expected5 := by decide +kernel
theorem dispatch_table_pinned : Geo.DispatchGen.table = expected := by
  unfold Geo.DispatchGen.table expected
  rw [chunk0, chunk1, chunk2, chunk3, chunk4, chunk5]

def lookup (t m : String) : Option String :=
  (Geo.DispatchGen.table.find? (fun r => r.1 == t && r.2.1 == m)).map (·.2.2)

/-- every kind's `Within` is `obj.Contains(g)`: the code-side content of "A.Within(B) = B.Contains(A)" -/
theorem within_forwards_to_contains :
    ∀ t ∈ ["Point", "SimplePoint", "LineString", "Polygon", "Rect", "Feature", "Circle", "collection"],
      lookup t "Within" = some ("func (g *" ++ t ++ ") Within(obj Object) bool { return obj.Contains(g) }") := by decide

/-- JSON() and String() are AppendJSON(nil) converted to a string; MarshalJSON() returns the same bytes -/
theorem json_wrappers :
    ∀ t ∈ ["Point", "SimplePoint", "LineString", "Polygon", "Rect", "Feature", "Circle", "collection",
           "MultiPoint", "MultiLineString", "MultiPolygon", "GeometryCollection", "FeatureCollection"],
      lookup t "JSON" = some ("func (g *" ++ t ++ ") JSON() string { return string(g.AppendJSON(nil)) }") ∧
      lookup t "String" = some ("func (g *" ++ t ++ ") String() string { return string(g.AppendJSON(nil)) }") ∧
      lookup t "MarshalJSON" = some ("func (g *" ++ t ++ ") MarshalJSON() ([]byte, error) { return g.AppendJSON(nil), nil }") := by decide

/-- a Feature forwards every predicate to its base -/
theorem feature_forwards :
    lookup "Feature" "Contains" = some "func (g *Feature) Contains(obj Object) bool { return g.base.Contains(obj) }" ∧
    lookup "Feature" "Intersects" = some "func (g *Feature) Intersects(obj Object) bool { return g.base.Intersects(obj) }" ∧
    lookup "Feature" "WithinRect" = some "func (g *Feature) WithinRect(rect geometry.Rect) bool { return g.base.Spatial().WithinRect(rect) }" ∧
    lookup "Feature" "IntersectsPoly" = some "func (g *Feature) IntersectsPoly(poly *geometry.Poly) bool { return g.base.Spatial().IntersectsPoly(poly) }" := by decide

#print axioms dispatch_table_pinned
#print axioms within_forwards_to_contains
#print axioms json_wrappers
#print axioms feature_forwards

end Geo.DispatchFacts
