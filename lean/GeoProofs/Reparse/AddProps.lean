/-
  GeoProofs.Reparse.AddProps — C06: the normalisation `addProps` (a Feature without a
  `properties` member gains `"properties":{}`): it does not change the written text, and it
  changes nothing of an object except the `members`/`hasProps` of such Feature nodes.
-/
import GeoProofs.ReparseLemmas

namespace Geo

/-! ### equations -/

theorem addProps_feature (b : Obj) (ex : Option Extra) :
    addProps (.feature b ex) = .feature (addProps b) (addPropsEx ex) := by rw [addProps]

theorem addProps_coll (k : CollKind) (cs : List Obj) (ex : Option Extra) (idx : Bool) :
    addProps (.coll k cs ex idx) = .coll k (cs.map addProps) ex idx := by
  rw [addProps, addPropsL_eq_map]

theorem addProps_point (p : Pos) (ex : Option Extra) : addProps (.point p ex) = .point p ex := rfl
theorem addProps_spoint (p : Pos) : addProps (.spoint p) = .spoint p := rfl
theorem addProps_lineString (l : Line) (ps : List Pos) (ex : Option Extra) :
    addProps (.lineString l ps ex) = .lineString l ps ex := rfl
theorem addProps_polygon (p : Poly) (rings : List (List Pos)) (ex : Option Extra) :
    addProps (.polygon p rings ex) = .polygon p rings ex := rfl
theorem addProps_rectO (b : Box) (lo hi : Pos) : addProps (.rectO b lo hi) = .rectO b lo hi := rfl
theorem addProps_circle (c : Pos) (r : String) : addProps (.circle c r) = .circle c r := rfl

/-! ### `addPropsEx` -/

/-- a Feature that has a `properties` member is untouched -/
theorem addPropsEx_of_hasProps {ex : Option Extra} (h : needProps ex true = false) : addPropsEx ex = ex := by
  simp [addPropsEx, h]

/-- the z/m table is untouched -/
theorem extrasAt_addPropsEx (ex : Option Extra) (i : Nat) : extrasAt (addPropsEx ex) i = extrasAt ex i := by
  unfold addPropsEx
  split
  · cases ex with
    | none => rfl
    | some e => simp only; split <;> rfl
  · rfl

/-- after the normalisation there is a `properties` member -/
theorem needProps_addPropsEx (ex : Option Extra) : needProps (addPropsEx ex) true = false := by
  unfold addPropsEx
  split
  · cases ex with
    | none => decide
    | some e =>
      have hne : ∀ s : String, ("{" ++ s != "") = true := by
        intro s
        simp only [bne_iff_ne, ne_eq]
        intro h0
        have := congrArg String.toList h0
        simp at this
      simp only
      split
      · rfl
      · simp only [needProps, Bool.true_and, Bool.not_eq_false', Bool.and_eq_true, and_true]
        rw [String.append_assoc]
        exact hne _
  · rename_i h; simpa using h

/-- the members text after the normalisation: the old foreign members followed by
    `"properties":{}` -/
theorem addPropsEx_members {ex : Option Extra} (h : needProps ex true = true) :
    exMembers' (addPropsEx ex) =
      if exMembers' ex = "" then "{\"properties\":{}}"
      else "{" ++ (((exMembers' ex).drop 1).dropEnd 1).toString ++ ",\"properties\":{}}" := by
  unfold addPropsEx
  rw [if_pos h]
  cases ex with
  | none => rfl
  | some e =>
    by_cases hm : e.members = "" <;> simp [exMembers', hm]

theorem addPropsEx_idem (ex : Option Extra) : addPropsEx (addPropsEx ex) = addPropsEx ex :=
  addPropsEx_of_hasProps (needProps_addPropsEx ex)

/-! ### the written text does not change -/

theorem writeExtra_braces (d : Nat) (vals : List String) (body : String) :
    writeExtra (some ⟨d, vals, "{" ++ body ++ "}", true⟩) true = "," ++ body := by
  have hne : ("{" ++ body ++ "}" != "") = true := by
    simp only [bne_iff_ne, ne_eq]
    intro h0
    have := congrArg String.toList h0
    simp at this
  simp only [writeExtra, hne, if_true, strip_braces, Bool.not_true, Bool.and_false, Bool.false_eq_true,
    if_false, String.append_empty]

theorem writeExtra_addPropsEx (ex : Option Extra) : writeExtra (addPropsEx ex) true = writeExtra ex true := by
  unfold addPropsEx
  by_cases hn : needProps ex true = true
  · rw [if_pos hn]
    have e0 : "{\"properties\":{}}" = "{" ++ "\"properties\":{}" ++ "}" := by decide
    have e1 : "," ++ "\"properties\":{}" = ",\"properties\":{}" := by decide
    cases ex with
    | none =>
      simp only [e0, writeExtra_braces, e1]
      rfl
    | some e =>
      by_cases hm : e.members = ""
      · simp only [hm, if_true, e0, writeExtra_braces, e1]
        simp [writeExtra, hm]
      · have hm' : (e.members != "") = true := by simpa using hm
        have hp : e.hasProps = false := by
          simp only [needProps, hm', Bool.true_and] at hn
          simpa using hn
        have e2 : ∀ s : String, "{" ++ s ++ ",\"properties\":{}}" = "{" ++ (s ++ ",\"properties\":{}") ++ "}" := by
          intro s; str_eq
        simp only [hm, if_false, e2, writeExtra_braces]
        simp [writeExtra, hm, hp, String.append_assoc]
  · rw [if_neg hn]

theorem writeCoords_addProps : ∀ x : Obj, writeCoords (addProps x) = writeCoords x
  | .point _ _ => rfl
  | .spoint _ => rfl
  | .lineString _ _ _ => rfl
  | .polygon _ _ _ => rfl
  | .rectO _ _ _ => rfl
  | .circle _ _ => rfl
  | .feature _ _ => by rw [addProps_feature]; simp [writeCoords]
  | .coll _ _ _ _ => by rw [addProps_coll]; simp [writeCoords]

theorem writeAllCoords_addPropsL : ∀ cs : List Obj, writeAllCoords (addPropsL cs) = writeAllCoords cs
  | [] => rfl
  | c :: cs => by
    simp only [addPropsL, writeAllCoords, writeCoords_addProps c, writeAllCoords_addPropsL cs]

mutual
/-- writing is a fixpoint after one step: the normalised object is written as the same text -/
theorem write_addProps : ∀ x : Obj, write (addProps x) = write x
  | .point _ _ => rfl
  | .spoint _ => rfl
  | .lineString _ _ _ => rfl
  | .polygon _ _ _ => rfl
  | .rectO _ _ _ => rfl
  | .circle _ _ => rfl
  | .feature b ex => by
    rw [addProps, write_feature, write_feature, write_addProps b, writeExtra_addPropsEx]
  | .coll k cs ex idx => by
    rw [addProps, write_coll, write_coll]
    have : writeParts k (addPropsL cs) = writeParts k cs := by
      cases k <;> simp only [writeParts]
      · exact writeAllCoords_addPropsL cs
      · exact writeAllCoords_addPropsL cs
      · exact writeAllCoords_addPropsL cs
      · exact writeAll_addPropsL cs
      · exact writeAll_addPropsL cs
    rw [this]
theorem writeAll_addPropsL : ∀ cs : List Obj, writeAll (addPropsL cs) = writeAll cs
  | [] => rfl
  | c :: cs => by
    simp only [addPropsL, writeAll, write_addProps c, writeAll_addPropsL cs]
end

/-! ### what `addProps` leaves untouched -/

mutual
/-- the object with the `extra` of every Feature node erased: everything else — positions (exact
    values and canonical texts), series, rings, boxes, the `extra` (z/m table, foreign member text)
    of every geometry and collection node, kinds, child order, index flags, circles -/
def dropFeatEx : Obj → Obj
  | .feature b _ => .feature (dropFeatEx b) none
  | .coll k cs ex idx => .coll k (dropFeatExL cs) ex idx
  | o => o
def dropFeatExL : List Obj → List Obj
  | [] => []
  | c :: cs => dropFeatEx c :: dropFeatExL cs
end

mutual
/-- the `extra` of the Feature nodes, in document order (pre-order) -/
def featExs : Obj → List (Option Extra)
  | .feature b ex => ex :: featExs b
  | .coll _ cs _ _ => featExsL cs
  | _ => []
def featExsL : List Obj → List (Option Extra)
  | [] => []
  | c :: cs => featExs c ++ featExsL cs
end

mutual
/-- `addProps` changes nothing but the `extra` of Feature nodes … -/
theorem dropFeatEx_addProps : ∀ x : Obj, dropFeatEx (addProps x) = dropFeatEx x
  | .point _ _ => rfl
  | .spoint _ => rfl
  | .lineString _ _ _ => rfl
  | .polygon _ _ _ => rfl
  | .rectO _ _ _ => rfl
  | .circle _ _ => rfl
  | .feature b ex => by simp only [addProps, dropFeatEx, dropFeatEx_addProps b]
  | .coll k cs ex idx => by simp only [addProps, dropFeatEx, dropFeatExL_addPropsL cs]
theorem dropFeatExL_addPropsL : ∀ cs : List Obj, dropFeatExL (addPropsL cs) = dropFeatExL cs
  | [] => rfl
  | c :: cs => by simp only [addPropsL, dropFeatExL, dropFeatEx_addProps c, dropFeatExL_addPropsL cs]
end

mutual
/-- … and each of those becomes its `addPropsEx` normal form -/
theorem featExs_addProps : ∀ x : Obj, featExs (addProps x) = (featExs x).map addPropsEx
  | .point _ _ => rfl
  | .spoint _ => rfl
  | .lineString _ _ _ => rfl
  | .polygon _ _ _ => rfl
  | .rectO _ _ _ => rfl
  | .circle _ _ => rfl
  | .feature b ex => by simp only [addProps, featExs, featExs_addProps b, List.map_cons]
  | .coll k cs ex idx => by simp only [addProps, featExs, featExsL_addPropsL cs]
theorem featExsL_addPropsL : ∀ cs : List Obj, featExsL (addPropsL cs) = (featExsL cs).map addPropsEx
  | [] => rfl
  | c :: cs => by
    simp only [addPropsL, featExsL, featExs_addProps c, featExsL_addPropsL cs, List.map_append]
end

mutual
/-- if every Feature node has a `properties` member, the object is its own normal form -/
theorem addProps_eq_self : ∀ x : Obj, (∀ ex ∈ featExs x, needProps ex true = false) → addProps x = x
  | .point _ _, _ => rfl
  | .spoint _, _ => rfl
  | .lineString _ _ _, _ => rfl
  | .polygon _ _ _, _ => rfl
  | .rectO _ _ _, _ => rfl
  | .circle _ _, _ => rfl
  | .feature b ex, h => by
    simp only [featExs, List.mem_cons, forall_eq_or_imp] at h
    rw [addProps, addProps_eq_self b h.2, addPropsEx_of_hasProps h.1]
  | .coll k cs ex idx, h => by
    simp only [featExs] at h
    rw [addProps, addPropsL_eq_self cs h]
theorem addPropsL_eq_self : ∀ cs : List Obj, (∀ ex ∈ featExsL cs, needProps ex true = false) →
    addPropsL cs = cs
  | [], _ => rfl
  | c :: cs, h => by
    simp only [featExsL, List.mem_append] at h
    rw [addPropsL, addProps_eq_self c (fun ex hx => h ex (.inl hx)),
      addPropsL_eq_self cs (fun ex hx => h ex (.inr hx))]
end

/-- the normalisation is idempotent -/
theorem addProps_idem (x : Obj) : addProps (addProps x) = addProps x := by
  apply addProps_eq_self
  intro ex hex
  rw [featExs_addProps] at hex
  obtain ⟨ex0, _, rfl⟩ := List.mem_map.mp hex
  exact needProps_addPropsEx ex0

/-! ### derived attributes -/

mutual
theorem addProps_rect : ∀ x : Obj, (addProps x).rect = x.rect
  | .point _ _ => rfl
  | .spoint _ => rfl
  | .lineString _ _ _ => rfl
  | .polygon _ _ _ => rfl
  | .rectO _ _ _ => rfl
  | .circle _ _ => rfl
  | .feature b _ => by simp only [addProps, Obj.rect]; exact addProps_rect b
  | .coll _ cs _ _ => by
    have hl : (addPropsL cs).length = cs.length := by rw [addPropsL_eq_map]; simp
    simp only [addProps, Obj.rect, hl, addPropsL_collRect cs]
theorem addPropsL_collRect : ∀ (cs : List Obj) (s : Bool) (acc : Option Box),
    Obj.collRect (addPropsL cs) s acc = Obj.collRect cs s acc
  | [], _, _ => rfl
  | c :: cs, s, acc => by
    simp only [addPropsL, Obj.collRect, addProps_empty c, addProps_rect c]
    split
    · exact addPropsL_collRect cs s acc
    · cases acc <;> exact addPropsL_collRect cs s _
end

mutual
/-- validity (`requireValid`) is unchanged by the normalisation -/
theorem addProps_valid : ∀ x : Obj, (addProps x).valid = x.valid
  | .point _ _ => rfl
  | .spoint _ => rfl
  | .lineString _ _ _ => rfl
  | .polygon _ _ _ => rfl
  | .rectO _ _ _ => rfl
  | .circle _ _ => rfl
  | .feature b _ => by simp only [addProps, Obj.valid]; exact addProps_valid b
  | .coll k cs ex idx => by
    have hr := addProps_rect (.coll k cs ex idx)
    rw [addProps] at hr
    cases k <;> simp only [addProps, Obj.valid, hr, addPropsL_allValid cs]
theorem addPropsL_allValid : ∀ cs : List Obj, Obj.allValid (addPropsL cs) = Obj.allValid cs
  | [] => rfl
  | c :: cs => by simp only [addPropsL, Obj.allValid, addProps_valid c, addPropsL_allValid cs]
end

mutual
theorem addProps_numPoints : ∀ x : Obj, (addProps x).numPoints = x.numPoints
  | .point _ _ => rfl
  | .spoint _ => rfl
  | .lineString _ _ _ => rfl
  | .polygon _ _ _ => rfl
  | .rectO _ _ _ => rfl
  | .circle _ _ => rfl
  | .feature b _ => by simp only [addProps, Obj.numPoints]; exact addProps_numPoints b
  | .coll _ cs _ _ => by simp only [addProps, Obj.numPoints]; exact addPropsL_sumPoints cs
theorem addPropsL_sumPoints : ∀ cs : List Obj, Obj.sumPoints (addPropsL cs) = Obj.sumPoints cs
  | [] => rfl
  | c :: cs => by simp only [addPropsL, Obj.sumPoints, addProps_numPoints c, addPropsL_sumPoints cs]
end

end Geo
