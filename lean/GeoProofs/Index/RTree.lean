/-
  GeoProofs.Index.RTree — tree-level facts about the R-tree model (GeoModel.Index):
  search = fold over a visit list, visit list ~ filter of all items (under the cover
  invariant), split loses/duplicates nothing, insert/build preserve the invariant.

  Only the order laws of `LawfulCarrier` are used; nothing about `sub`/`mul`.
-/
import GeoProofs.Index.Order

namespace Geo

set_option linter.unusedSectionVars false

section
variable {α : Type} [Carrier α]
open Carrier

/-! ## order facts -/

/-- `meets` is symmetric — by definition, no order law needed. -/
theorem GBox.meets_comm (r o : GBox α) : r.meets o = o.meets r := by
  unfold GBox.meets
  cases lt o.maxy r.miny <;> cases lt r.maxy o.miny <;> cases lt o.maxx r.minx <;>
    cases lt r.maxx o.minx <;> rfl

theorem lt_irrefl' [LawfulCarrier α] (a : α) : lt a a = false := by
  cases h : lt a a
  · rfl
  · have := LawfulCarrier.asymm a a h
    rw [h] at this; cases this

theorem GBox.subset_refl [LawfulCarrier α] (b : GBox α) : b ⊆ b := by
  rw [GBox.subset_def]
  exact ⟨lt_irrefl' _, lt_irrefl' _, lt_irrefl' _, lt_irrefl' _⟩

theorem GBox.subset_trans [LawfulCarrier α] {a b c : GBox α} (h1 : a ⊆ b) (h2 : b ⊆ c) : a ⊆ c := by
  rw [GBox.subset_def] at *
  obtain ⟨a1, a2, a3, a4⟩ := h1
  obtain ⟨b1, b2, b3, b4⟩ := h2
  exact ⟨LawfulCarrier.le_trans _ _ _ b1 a1, LawfulCarrier.le_trans _ _ _ b2 a2,
    LawfulCarrier.le_trans _ _ _ a3 b3, LawfulCarrier.le_trans _ _ _ a4 b4⟩

theorem GBox.subset_expand_left [LawfulCarrier α] (r b : GBox α) : r ⊆ r.expand b := by
  rw [GBox.subset_def]
  unfold GBox.expand
  refine ⟨?_, ?_, ?_, ?_⟩ <;> dsimp only <;> split <;>
    first | exact lt_irrefl' _ | (apply LawfulCarrier.asymm; assumption)

theorem GBox.subset_expand_right [LawfulCarrier α] (r b : GBox α) : b ⊆ r.expand b := by
  rw [GBox.subset_def]
  unfold GBox.expand
  refine ⟨?_, ?_, ?_, ?_⟩ <;> dsimp only <;> split <;>
    first | exact lt_irrefl' _ | (simp only [Bool.not_eq_true] at *; assumption)

/-- `expand` is a least upper bound. -/
theorem GBox.expand_subset {r b x : GBox α} (h1 : r ⊆ x) (h2 : b ⊆ x) : r.expand b ⊆ x := by
  rw [GBox.subset_def] at *
  obtain ⟨a1, a2, a3, a4⟩ := h1
  obtain ⟨b1, b2, b3, b4⟩ := h2
  unfold GBox.expand
  refine ⟨?_, ?_, ?_, ?_⟩ <;> dsimp only <;> split <;> assumption

theorem foldl_expand_covers [LawfulCarrier α] (bs : List (GBox α)) (b0 : GBox α) :
    b0 ⊆ bs.foldl GBox.expand b0 ∧ ∀ b ∈ bs, b ⊆ bs.foldl GBox.expand b0 := by
  induction bs generalizing b0 with
  | nil => exact ⟨GBox.subset_refl _, by simp⟩
  | cons c rest ih =>
    obtain ⟨h0, hr⟩ := ih (b0.expand c)
    refine ⟨GBox.subset_trans (GBox.subset_expand_left _ _) h0, ?_⟩
    intro b hb
    rcases List.mem_cons.1 hb with rfl | hb
    · exact GBox.subset_trans (GBox.subset_expand_right _ _) h0
    · exact hr b hb

theorem foldl_expand_subset {bs : List (GBox α)} {b0 x : GBox α}
    (h0 : b0 ⊆ x) (h : ∀ b ∈ bs, b ⊆ x) : bs.foldl GBox.expand b0 ⊆ x := by
  induction bs generalizing b0 with
  | nil => exact h0
  | cons c rest ih =>
    exact ih (GBox.expand_subset h0 (h c (by simp))) (fun b hb => h b (by simp [hb]))

/-- every box of the list is covered by `recalcBoxes` (whatever the default). -/
theorem recalcBoxes_covers [LawfulCarrier α] (bs : List (GBox α)) (dflt : GBox α) :
    ∀ b ∈ bs, b ⊆ recalcBoxes bs dflt := by
  cases bs with
  | nil => simp
  | cons c rest =>
    intro b hb
    obtain ⟨h0, hr⟩ := foldl_expand_covers rest c
    rcases List.mem_cons.1 hb with rfl | hb
    · exact h0
    · exact hr b hb

/-- `recalcBoxes` is below any common upper bound of the boxes and the default. -/
theorem recalcBoxes_subset {bs : List (GBox α)} {dflt x : GBox α}
    (hd : dflt ⊆ x) (h : ∀ b ∈ bs, b ⊆ x) : recalcBoxes bs dflt ⊆ x := by
  cases bs with
  | nil => exact hd
  | cons c rest =>
    exact foldl_expand_subset (h c (by simp)) (fun b hb => h b (by simp [hb]))

/-! ## induction principle for the nested inductive `RNode` -/

theorem RNode.ind {motive : RNode α → Prop}
    (leaf : ∀ es, motive (.leaf es))
    (inner : ∀ es : List (GBox α × RNode α), (∀ e ∈ es, motive e.2) → motive (.inner es)) :
    ∀ n, motive n := by
  intro n
  refine RNode.rec (motive_1 := motive) (motive_2 := fun es => ∀ e ∈ es, motive e.2)
    (motive_3 := fun e => motive e.2) leaf inner ?_ ?_ ?_ n
  · intro e he; cases he
  · intro hd tl h1 h2 e he
    rcases List.mem_cons.1 he with rfl | he
    · exact h1
    · exact h2 e he
  · intro _ _ h; exact h

/-! ## items, visit order, invariants -/

mutual
/-- items in left-to-right order -/
def RNode.allItems : RNode α → List Nat
  | .leaf es => es.map (·.2)
  | .inner es => allItemsL es
def allItemsL : List (GBox α × RNode α) → List Nat
  | [] => []
  | (_, n) :: rest => n.allItems ++ allItemsL rest
end

theorem allItemsL_eq (es : List (GBox α × RNode α)) :
    allItemsL es = (es.map (fun e => e.2.allItems)).flatten := by
  induction es with
  | nil => simp [allItemsL]
  | cons e rest ih => obtain ⟨b, n⟩ := e; simp [allItemsL, ih]

theorem allItemsL_append (a b : List (GBox α × RNode α)) :
    allItemsL (a ++ b) = allItemsL a ++ allItemsL b := by
  simp [allItemsL_eq]

theorem allItemsL_perm {a b : List (GBox α × RNode α)} (h : a.Perm b) :
    (allItemsL a).Perm (allItemsL b) := by
  rw [allItemsL_eq, allItemsL_eq]
  exact (h.map _).flatten

mutual
/-- full visit order without early stop, mirroring `rSearchTree` -/
def rVisit (boxOf : Nat → GBox α) (q : GBox α) : GBox α → RNode α → List Nat
  | nb, .leaf es =>
    if q.meets nb then (es.map (·.2)).filter (fun i => (boxOf i).meets q) else []
  | nb, .inner es => if q.meets nb then rVisitL boxOf q es else []
def rVisitL (boxOf : Nat → GBox α) (q : GBox α) : List (GBox α × RNode α) → List Nat
  | [] => []
  | (cb, cn) :: rest => rVisit boxOf q cb cn ++ rVisitL boxOf q rest
end

theorem rVisitL_eq (boxOf : Nat → GBox α) (q : GBox α) (es : List (GBox α × RNode α)) :
    rVisitL boxOf q es = (es.map (fun e => rVisit boxOf q e.1 e.2)).flatten := by
  induction es with
  | nil => simp [rVisitL]
  | cons e rest ih => obtain ⟨b, n⟩ := e; simp [rVisitL, ih]

mutual
/-- cover invariant: a node's box covers each entry's box; leaf entry boxes are `boxOf item`. -/
def RInv (boxOf : Nat → GBox α) : GBox α → RNode α → Prop
  | nb, .leaf es => ∀ e ∈ es, e.1 ⊆ nb ∧ e.1 = boxOf e.2
  | nb, .inner es => RInvL boxOf nb es
def RInvL (boxOf : Nat → GBox α) : GBox α → List (GBox α × RNode α) → Prop
  | _, [] => True
  | nb, (cb, cn) :: rest => cb ⊆ nb ∧ RInv boxOf cb cn ∧ RInvL boxOf nb rest
end

theorem RInvL_iff (boxOf : Nat → GBox α) (nb : GBox α) (es : List (GBox α × RNode α)) :
    RInvL boxOf nb es ↔ ∀ e ∈ es, e.1 ⊆ nb ∧ RInv boxOf e.1 e.2 := by
  induction es with
  | nil => simp [RInvL]
  | cons e rest ih => obtain ⟨b, n⟩ := e; simp [RInvL, ih, and_assoc]

theorem RInv_inner (boxOf : Nat → GBox α) (nb : GBox α) (es : List (GBox α × RNode α)) :
    RInv boxOf nb (.inner es) ↔ ∀ e ∈ es, e.1 ⊆ nb ∧ RInv boxOf e.1 e.2 := by
  rw [RInv, RInvL_iff]

theorem RInv_leaf (boxOf : Nat → GBox α) (nb : GBox α) (es : List (GBox α × Nat)) :
    RInv boxOf nb (.leaf es) ↔ ∀ e ∈ es, e.1 ⊆ nb ∧ e.1 = boxOf e.2 := by
  rw [RInv]

mutual
/-- all leaves at depth `h` (a leaf has height 0) — what `rnSearchBytes` relies on. -/
def RNode.HasHeight : RNode α → Nat → Prop
  | .leaf _, h => h = 0
  | .inner es, h => h ≠ 0 ∧ HasHeightL es (h - 1)
def HasHeightL : List (GBox α × RNode α) → Nat → Prop
  | [], _ => True
  | (_, n) :: rest, h => n.HasHeight h ∧ HasHeightL rest h
end

theorem HasHeightL_iff (es : List (GBox α × RNode α)) (h : Nat) :
    HasHeightL es h ↔ ∀ e ∈ es, e.2.HasHeight h := by
  induction es with
  | nil => simp [HasHeightL]
  | cons e rest ih => obtain ⟨b, n⟩ := e; simp [HasHeightL, ih]

theorem HasHeight_inner (es : List (GBox α × RNode α)) (h : Nat) :
    (RNode.inner es).HasHeight h ↔ h ≠ 0 ∧ ∀ e ∈ es, e.2.HasHeight (h - 1) := by
  rw [RNode.HasHeight, HasHeightL_iff]

theorem HasHeight_leaf (es : List (GBox α × Nat)) (h : Nat) :
    (RNode.leaf es).HasHeight h ↔ h = 0 := by
  rw [RNode.HasHeight]

mutual
/-- no inner node is empty.  (An empty inner node makes `rInsertChild` drop the item; the Go
    code would dereference a nil child there.) -/
def RNode.NE : RNode α → Prop
  | .leaf _ => True
  | .inner es => es ≠ [] ∧ NEL es
def NEL : List (GBox α × RNode α) → Prop
  | [] => True
  | (_, n) :: rest => n.NE ∧ NEL rest
end

theorem NEL_iff (es : List (GBox α × RNode α)) : NEL es ↔ ∀ e ∈ es, e.2.NE := by
  induction es with
  | nil => simp [NEL]
  | cons e rest ih => obtain ⟨b, n⟩ := e; simp [NEL, ih]

theorem NE_inner (es : List (GBox α × RNode α)) :
    (RNode.inner es).NE ↔ es ≠ [] ∧ ∀ e ∈ es, e.2.NE := by
  rw [RNode.NE, NEL_iff]

/-! ## search = fold over the visit list -/

theorem foldUntil_cons_r {σ β : Type} (f : σ → β → σ × Bool) (s : σ) (x : β) (xs : List β) :
    foldUntil f s (x :: xs) =
      if (f s x).2 then foldUntil f (f s x).1 xs else ((f s x).1, false) := by
  rw [foldUntil]

theorem foldUntil_append_r {σ β : Type} (f : σ → β → σ × Bool) (s : σ) (a b : List β) :
    foldUntil f s (a ++ b) =
      if (foldUntil f s a).2 then foldUntil f (foldUntil f s a).1 b
      else ((foldUntil f s a).1, false) := by
  induction a generalizing s with
  | nil => simp [foldUntil]
  | cons x xs ih =>
    rw [List.cons_append, foldUntil_cons_r, foldUntil_cons_r]
    cases hc : (f s x).2
    · simp
    · simp [ih]

theorem foldUntil_snd_false {σ β : Type} (f : σ → β → σ × Bool) (s : σ) (a : List β)
    (h : (foldUntil f s a).2 = false) : foldUntil f s a = ((foldUntil f s a).1, false) := by
  rw [← h]

theorem visitItems_eq_foldUntil_r {σ : Type} (boxOf : Nat → GBox α) (q : GBox α)
    (f : σ → Nat → σ × Bool) (s : σ) (items : List Nat) :
    visitItems boxOf q f s items = foldUntil f s (items.filter (fun i => (boxOf i).meets q)) := by
  unfold visitItems
  induction items generalizing s with
  | nil => simp [foldUntil]
  | cons x xs ih =>
    simp only [foldUntil, List.filter_cons]
    cases h : (boxOf x).meets q
    · simp [ih]
    · simp [foldUntil, ih]

theorem rSearchTree_eq_foldUntil {σ : Type} (boxOf : Nat → GBox α) (q : GBox α)
    (f : σ → Nat → σ × Bool) (n : RNode α) :
    ∀ (nb : GBox α) (s : σ),
      rSearchTree boxOf q f nb n s = foldUntil f s (rVisit boxOf q nb n) := by
  induction n using RNode.ind with
  | leaf es =>
    intro nb s
    rw [rSearchTree, rVisit]
    cases h : q.meets nb
    · simp [foldUntil]
    · simp [visitItems_eq_foldUntil_r]
  | inner es ih =>
    intro nb s
    rw [rSearchTree, rVisit]
    cases h : q.meets nb
    · simp [foldUntil]
    · simp only [Bool.not_true, Bool.false_eq_true, ↓reduceIte]
      clear h
      induction es generalizing s with
      | nil => simp [rSearchTree.go, rVisitL, foldUntil]
      | cons e rest ihr =>
        obtain ⟨cb, cn⟩ := e
        rw [rSearchTree.go, rVisitL, foldUntil_append_r]
        rw [ih (cb, cn) (by simp) cb s]
        have ihr' := ihr (fun e he => ih e (by simp [he]))
        cases hc : (foldUntil f s (rVisit boxOf q cb cn)).2
        · simp [hc]
        · simp [hc, ihr']

/-! ## visit list = filter of all items, under the cover invariant -/

theorem mem_allItemsL {es : List (GBox α × RNode α)} {i : Nat} :
    i ∈ allItemsL es ↔ ∃ e ∈ es, i ∈ e.2.allItems := by
  induction es with
  | nil => simp [allItemsL]
  | cons e rest ih => obtain ⟨b, n⟩ := e; simp [allItemsL, ih]

/-- under the invariant every item's box lies in the node box -/
theorem RInv_items_subset [LawfulCarrier α] (boxOf : Nat → GBox α) (n : RNode α) :
    ∀ nb, RInv boxOf nb n → ∀ i ∈ n.allItems, boxOf i ⊆ nb := by
  induction n using RNode.ind with
  | leaf es =>
    intro nb h i hi
    rw [RInv_leaf] at h
    rw [RNode.allItems] at hi
    obtain ⟨e, he, rfl⟩ := List.mem_map.1 hi
    obtain ⟨h1, h2⟩ := h e he
    rw [← h2]; exact h1
  | inner es ih =>
    intro nb h i hi
    rw [RInv_inner] at h
    rw [RNode.allItems, mem_allItemsL] at hi
    obtain ⟨e, he, hie⟩ := hi
    obtain ⟨h1, h2⟩ := h e he
    exact GBox.subset_trans (ih e he e.1 h2 i hie) h1

theorem filter_meets_eq_nil [LawfulCarrier α] (boxOf : Nat → GBox α) (q nb : GBox α)
    (items : List Nat) (hsub : ∀ i ∈ items, boxOf i ⊆ nb) (hq : q.meets nb = false) :
    items.filter (fun i => (boxOf i).meets q) = [] := by
  rw [List.filter_eq_nil_iff]
  intro i hi hm
  have := GBox.meets_of_subset (hsub i hi) hm
  rw [GBox.meets_comm, hq] at this
  cases this

/-- the visit list is literally the filtered item list (same order). -/
theorem rVisit_eq_filter [LawfulCarrier α] (boxOf : Nat → GBox α) (q : GBox α) (n : RNode α) :
    ∀ nb, RInv boxOf nb n →
      rVisit boxOf q nb n = n.allItems.filter (fun i => (boxOf i).meets q) := by
  induction n using RNode.ind with
  | leaf es =>
    intro nb h
    rw [rVisit]
    cases hq : q.meets nb
    · have := filter_meets_eq_nil boxOf q nb _ (RInv_items_subset boxOf _ nb h) hq
      rw [this]; simp
    · simp [RNode.allItems]
  | inner es ih =>
    intro nb h
    rw [rVisit]
    cases hq : q.meets nb
    · have := filter_meets_eq_nil boxOf q nb _ (RInv_items_subset boxOf _ nb h) hq
      rw [this]; simp
    · simp only [↓reduceIte]
      rw [RInv_inner] at h
      rw [RNode.allItems]
      clear hq
      induction es with
      | nil => simp [rVisitL, allItemsL]
      | cons e rest ihr =>
        obtain ⟨cb, cn⟩ := e
        rw [rVisitL, allItemsL, List.filter_append]
        rw [ih (cb, cn) (by simp) cb (h (cb, cn) (by simp)).2]
        rw [ihr (fun e he => ih e (by simp [he])) (fun e he => h e (by simp [he]))]

theorem rVisit_perm_filter [LawfulCarrier α] (boxOf : Nat → GBox α) (q nb : GBox α) (n : RNode α)
    (h : RInv boxOf nb n) :
    List.Perm (rVisit boxOf q nb n) (n.allItems.filter (fun i => (boxOf i).meets q)) := by
  rw [rVisit_eq_filter boxOf q n nb h]

/-! ## the split loses and duplicates nothing (for ANY fuel) -/

theorem getLast_cons_dropLast_perm {β : Type} (t : List β) (h : t ≠ []) (d : β) :
    (t.getLast?.getD d :: t.dropLast).Perm t := by
  have h2 : t.getLast?.getD d = t.getLast h := by
    rw [List.getLast?_eq_some_getLast h]; rfl
  rw [h2]
  have := List.dropLast_concat_getLast h
  conv => rhs; rw [← this]
  exact (List.perm_append_singleton _ _).symm

/-- swap-remove: removing position `i` by overwriting it with the last element and dropping
    the last slot removes exactly `l[i]`. -/
theorem swapRemove_perm {β : Type} (l : List β) (i : Nat) (h : i < l.length) :
    (l[i] :: (l.set i (l.getLast?.getD l[i])).dropLast).Perm l := by
  induction l generalizing i with
  | nil => cases h
  | cons a t ih =>
    cases i with
    | zero =>
      cases t with
      | nil => simp
      | cons b t' =>
        simp only [List.getElem_cons_zero, List.set_cons_zero, List.getLast?_cons_cons]
        rw [List.dropLast_cons_of_ne_nil (by simp)]
        exact (getLast_cons_dropLast_perm (b :: t') (by simp) a).cons a
    | succ j =>
      have hj : j < t.length := by simpa using h
      have hne : t ≠ [] := by intro h0; rw [h0] at hj; cases hj
      obtain ⟨b, t', rfl⟩ := List.exists_cons_of_ne_nil hne
      simp only [List.getElem_cons_succ, List.set_cons_succ, List.getLast?_cons_cons]
      rw [List.dropLast_cons_of_ne_nil (by
        intro h0; have := congrArg List.length h0; simp at this)]
      exact (List.Perm.swap _ _ _).trans ((ih j hj).cons a)

theorem splitLoop_perm {β : Type} (cls : β → Nat) (fuel : Nat) :
    ∀ (left : List β) (i : Nat) (right equals : List β),
      ((splitLoop cls fuel left i right equals).1 ++ (splitLoop cls fuel left i right equals).2.1 ++
        (splitLoop cls fuel left i right equals).2.2).Perm (left ++ right ++ equals) := by
  induction fuel with
  | zero => intros; rw [splitLoop]
  | succ fuel ih =>
    intro left i right equals
    rw [splitLoop]
    split
    · rename_i h
      dsimp only
      split
      · exact ih _ _ _ _
      · rename_i c hc
        refine (ih _ _ _ _).trans ?_
        have hp := swapRemove_perm left i h
        cases hc1 : (cls left[i] == 1)
        · simp only [Bool.false_eq_true, ↓reduceIte]
          -- left' ++ right ++ (equals ++ [e])
          have : ((left.set i (left.getLast?.getD left[i])).dropLast ++ right ++ (equals ++ [left[i]])).Perm
              ((left[i] :: (left.set i (left.getLast?.getD left[i])).dropLast) ++ right ++ equals) := by
            rw [← List.append_assoc]
            refine (List.perm_append_singleton _ _).trans ?_
            simp
          exact this.trans ((hp.append_right right).append_right equals)
        · simp only [↓reduceIte]
          have : ((left.set i (left.getLast?.getD left[i])).dropLast ++ (right ++ [left[i]]) ++ equals).Perm
              ((left[i] :: (left.set i (left.getLast?.getD left[i])).dropLast) ++ right ++ equals) := by
            refine List.Perm.append_right equals ?_
            rw [← List.append_assoc]
            refine (List.perm_append_singleton _ _).trans ?_
            simp
          exact this.trans ((hp.append_right right).append_right equals)
    · exact List.Perm.refl _

theorem distributeEquals_perm {β : Type} (equals : List β) :
    ∀ (left right : List β),
      ((distributeEquals left right equals).1 ++ (distributeEquals left right equals).2).Perm
        (left ++ right ++ equals) := by
  induction equals with
  | nil => intros; simp [distributeEquals]
  | cons b rest ih =>
    intro left right
    rw [distributeEquals]
    split
    · refine (ih _ _).trans ?_
      simp only [List.append_assoc, List.singleton_append]
      refine List.Perm.append_left left ?_
      exact List.perm_middle.symm
    · refine (ih _ _).trans ?_
      simp

/-- the swap-remove loop and the equals distribution lose and duplicate nothing. -/
theorem splitEntries_perm {β : Type} (rectOf : β → GBox α) (box : GBox α) (es : List β) :
    ((splitEntries rectOf box es).1 ++ (splitEntries rectOf box es).2).Perm es := by
  unfold splitEntries
  dsimp only
  refine (distributeEquals_perm _ _ _).trans ?_
  refine (splitLoop_perm _ _ _ _ _ _).trans ?_
  simp

/-! ## `chooseLeast` returns a valid index (whatever `sub`/`mul` do) -/

theorem foldl_inv {β γ : Type} (f : β → γ → β) (Q : β → Nat → Prop)
    (hstep : ∀ acc n r, Q acc n → Q (f acc r) (n+1)) :
    ∀ (l : List γ) acc n, Q acc n → Q (l.foldl f acc) (n + l.length) := by
  intro l
  induction l with
  | nil => intro acc n h; simpa using h
  | cons x xs ih =>
    intro acc n h
    have := ih (f acc x) (n+1) (hstep acc n x h)
    simp only [List.foldl_cons, List.length_cons]
    rw [show n + (xs.length + 1) = n + 1 + xs.length by omega]
    exact this

theorem chooseLeast_aux {γ : Type} (f : Option (Nat × α × α) × Nat → γ → Option (Nat × α × α) × Nat)
    (hf : ∀ acc r, (f acc r).2 = acc.2 + 1 ∧
      ∃ j e a, (f acc r).1 = some (j, e, a) ∧ (j = acc.2 ∨ ∃ e' a', acc.1 = some (j, e', a')))
    (l : List γ) (h : l ≠ []) :
    (match (l.foldl f (none, 0)).1 with
      | some (j, _, _) => j
      | none => 0) < l.length := by
  let Q : (Option (Nat × α × α) × Nat) → Nat → Prop := fun acc n =>
    acc.2 = n ∧ match acc.1 with | none => n = 0 | some (j, _, _) => j < n
  have key := foldl_inv f Q ?_ l (none, 0) 0 ⟨rfl, rfl⟩
  · obtain ⟨h1, h2⟩ := key
    revert h2
    split
    · intro h0
      simp at h0
      exact absurd h0 h
    · rename_i heq
      rw [heq]; simp
  · intro acc n r hQ
    obtain ⟨h1, h2⟩ := hQ
    obtain ⟨g1, j, e, a, g2, g3⟩ := hf acc r
    refine ⟨by omega, ?_⟩
    rw [g2]
    rcases g3 with rfl | ⟨e', a', g3⟩
    · simp only; omega
    · rw [g3] at h2; simp only at h2 ⊢; omega

theorem ite_prop {β : Type} {P : β → Prop} (c : Prop) [Decidable c] (t e : β)
    (ht : P t) (he : P e) : P (if c then t else e) := by
  split <;> assumption

theorem chooseLeast_lt (rects : List (GBox α)) (b : GBox α) (h : rects ≠ []) :
    chooseLeast rects b < rects.length := by
  unfold chooseLeast
  refine chooseLeast_aux _ ?_ rects h
  intro acc r
  obtain ⟨o, k⟩ := acc
  cases o with
  | none => exact ⟨rfl, _, _, _, rfl, Or.inl rfl⟩
  | some t =>
    obtain ⟨j, je, ja⟩ := t
    dsimp only
    let P : Option (Nat × α × α) × Nat → Prop := fun x =>
      x.2 = k + 1 ∧ ∃ j' e a, x.1 = some (j', e, a) ∧ (j' = k ∨ ∃ e' a', some (j, je, ja) = some (j', e', a'))
    have h1 : ∀ e a, P (some (k, e, a), k + 1) := fun e a => ⟨rfl, _, _, _, rfl, Or.inl rfl⟩
    have h2 : P (some (j, je, ja), k + 1) := ⟨rfl, _, _, _, rfl, Or.inr ⟨_, _, rfl⟩⟩
    show P _
    exact ite_prop _ _ _ (h1 _ _) (ite_prop _ _ _ (ite_prop _ _ _ (h1 _ _) h2) h2)

/-! ## insertion -/

/-- the two halves a node with rect `cb'` is split into (with their recalculated rects). -/
def splitPair (cb' : GBox α) : RNode α → (GBox α × RNode α) × (GBox α × RNode α)
  | .leaf es =>
    ((recalcBoxes ((splitEntries (·.1) cb' es).1.map (·.1)) cb', .leaf (splitEntries (·.1) cb' es).1),
     (recalcBoxes ((splitEntries (·.1) cb' es).2.map (·.1)) cb', .leaf (splitEntries (·.1) cb' es).2))
  | .inner es =>
    ((recalcBoxes ((splitEntries (·.1) cb' es).1.map (·.1)) cb', .inner (splitEntries (·.1) cb' es).1),
     (recalcBoxes ((splitEntries (·.1) cb' es).2.map (·.1)) cb', .inner (splitEntries (·.1) cb' es).2))

theorem rInsertNode_inner (box : GBox α) (item : GBox α × Nat) (es : List (GBox α × RNode α)) :
    rInsertNode box item (.inner es) =
      (.inner (rInsertChild box item (chooseLeast (es.map (·.1)) item.1) es).1,
       (rInsertChild box item (chooseLeast (es.map (·.1)) item.1) es).2) := by
  rw [rInsertNode]

theorem rInsertChild_zero (box : GBox α) (item : GBox α × Nat) (cb : GBox α) (cn : RNode α)
    (post : List (GBox α × RNode α)) :
    rInsertChild box item 0 ((cb, cn) :: post) =
      (if (rInsertNode cb item cn).1.count == rMaxEntries + 1 then
        (splitPair (if (rInsertNode cb item cn).2 then cb.expand item.1 else cb) (rInsertNode cb item cn).1).1 ::
          post ++ [(splitPair (if (rInsertNode cb item cn).2 then cb.expand item.1 else cb) (rInsertNode cb item cn).1).2]
       else ((if (rInsertNode cb item cn).2 then cb.expand item.1 else cb), (rInsertNode cb item cn).1) :: post,
       if (rInsertNode cb item cn).2 then !(box.contains item.1) else false) := by
  rw [rInsertChild]
  rcases hr : rInsertNode cb item cn with ⟨cn', cg⟩
  cases cn' with
  | leaf es' =>
    simp only [RNode.count, splitPair]
    by_cases h : (es'.length == rMaxEntries + 1) = true <;> simp [h]
  | inner es' =>
    simp only [RNode.count, splitPair]
    by_cases h : (es'.length == rMaxEntries + 1) = true <;> simp [h]

/-- what child `(cb, cn)` is replaced by after inserting `item` below it:
    entries put in its place, and entries appended at the end of the parent. -/
def childRepl (item : GBox α × Nat) (cb : GBox α) (cn : RNode α) :
    List (GBox α × RNode α) × List (GBox α × RNode α) :=
  if (rInsertNode cb item cn).1.count == rMaxEntries + 1 then
    ([(splitPair (if (rInsertNode cb item cn).2 then cb.expand item.1 else cb) (rInsertNode cb item cn).1).1],
     [(splitPair (if (rInsertNode cb item cn).2 then cb.expand item.1 else cb) (rInsertNode cb item cn).1).2])
  else ([((if (rInsertNode cb item cn).2 then cb.expand item.1 else cb), (rInsertNode cb item cn).1)], [])

def childGrown (box : GBox α) (item : GBox α × Nat) (cb : GBox α) (cn : RNode α) : Bool :=
  if (rInsertNode cb item cn).2 then !(box.contains item.1) else false

theorem rInsertChild_eq (box : GBox α) (item : GBox α × Nat) :
    ∀ (es : List (GBox α × RNode α)) (idx : Nat), idx < es.length →
      ∃ pre cb cn post, es = pre ++ (cb, cn) :: post ∧
        rInsertChild box item idx es =
          (pre ++ (childRepl item cb cn).1 ++ post ++ (childRepl item cb cn).2,
           childGrown box item cb cn) := by
  intro es
  induction es with
  | nil => intro idx h; cases h
  | cons e rest ih =>
    intro idx h
    obtain ⟨cb, cn⟩ := e
    cases idx with
    | zero =>
      refine ⟨[], cb, cn, rest, rfl, ?_⟩
      rw [rInsertChild_zero, childRepl, childGrown]
      by_cases hc : ((rInsertNode cb item cn).1.count == rMaxEntries + 1) = true <;> simp [hc]
    | succ k =>
      obtain ⟨pre, cb', cn', post, h1, h2⟩ := ih k (by simpa using h)
      refine ⟨(cb, cn) :: pre, cb', cn', post, by simp [h1], ?_⟩
      rw [rInsertChild, h2]
      simp

theorem splitEntries_mem_left {β : Type} (rectOf : β → GBox α) (box : GBox α) (es : List β) :
    ∀ x ∈ (splitEntries rectOf box es).1, x ∈ es := fun _ hx =>
  (splitEntries_perm rectOf box es).mem_iff.1 (List.mem_append_left _ hx)

theorem splitEntries_mem_right {β : Type} (rectOf : β → GBox α) (box : GBox α) (es : List β) :
    ∀ x ∈ (splitEntries rectOf box es).2, x ∈ es := fun _ hx =>
  (splitEntries_perm rectOf box es).mem_iff.1 (List.mem_append_right _ hx)

theorem subLeaf_inv [LawfulCarrier α] (boxOf : Nat → GBox α) (cb' : GBox α)
    (es sub : List (GBox α × Nat)) (hi : RInv boxOf cb' (.leaf es)) (hsub : ∀ x ∈ sub, x ∈ es) :
    recalcBoxes (sub.map (·.1)) cb' ⊆ cb' ∧
      RInv boxOf (recalcBoxes (sub.map (·.1)) cb') (.leaf sub) := by
  rw [RInv_leaf] at hi
  refine ⟨recalcBoxes_subset (GBox.subset_refl _) ?_, ?_⟩
  · intro b hb
    obtain ⟨x, hx, rfl⟩ := List.mem_map.1 hb
    exact (hi x (hsub x hx)).1
  · rw [RInv_leaf]
    intro x hx
    exact ⟨recalcBoxes_covers _ _ _ (List.mem_map.2 ⟨x, hx, rfl⟩), (hi x (hsub x hx)).2⟩

theorem subInner_inv [LawfulCarrier α] (boxOf : Nat → GBox α) (cb' : GBox α)
    (es sub : List (GBox α × RNode α)) (hi : RInv boxOf cb' (.inner es)) (hsub : ∀ x ∈ sub, x ∈ es) :
    recalcBoxes (sub.map (·.1)) cb' ⊆ cb' ∧
      RInv boxOf (recalcBoxes (sub.map (·.1)) cb') (.inner sub) := by
  rw [RInv_inner] at hi
  refine ⟨recalcBoxes_subset (GBox.subset_refl _) ?_, ?_⟩
  · intro b hb
    obtain ⟨x, hx, rfl⟩ := List.mem_map.1 hb
    exact (hi x (hsub x hx)).1
  · rw [RInv_inner]
    intro x hx
    exact ⟨recalcBoxes_covers _ _ _ (List.mem_map.2 ⟨x, hx, rfl⟩), (hi x (hsub x hx)).2⟩

theorem subInner_height (es sub : List (GBox α × RNode α)) (h : Nat)
    (hh : (RNode.inner es).HasHeight h) (hsub : ∀ x ∈ sub, x ∈ es) :
    (RNode.inner sub).HasHeight h := by
  rw [HasHeight_inner] at *
  exact ⟨hh.1, fun x hx => hh.2 x (hsub x hx)⟩

theorem splitPair_inv [LawfulCarrier α] (boxOf : Nat → GBox α) (cb' : GBox α) (n : RNode α) (h : Nat)
    (hi : RInv boxOf cb' n) (hh : n.HasHeight h) :
    ((splitPair cb' n).1.1 ⊆ cb' ∧ RInv boxOf (splitPair cb' n).1.1 (splitPair cb' n).1.2 ∧
      (splitPair cb' n).1.2.HasHeight h) ∧
    ((splitPair cb' n).2.1 ⊆ cb' ∧ RInv boxOf (splitPair cb' n).2.1 (splitPair cb' n).2.2 ∧
      (splitPair cb' n).2.2.HasHeight h) := by
  cases n with
  | leaf es =>
    rw [HasHeight_leaf] at hh
    simp only [splitPair, HasHeight_leaf]
    have h1 := subLeaf_inv boxOf cb' es _ hi (splitEntries_mem_left (·.1) cb' es)
    have h2 := subLeaf_inv boxOf cb' es _ hi (splitEntries_mem_right (·.1) cb' es)
    exact ⟨⟨h1.1, h1.2, hh⟩, ⟨h2.1, h2.2, hh⟩⟩
  | inner es =>
    simp only [splitPair]
    have h1 := subInner_inv boxOf cb' es _ hi (splitEntries_mem_left (·.1) cb' es)
    have h2 := subInner_inv boxOf cb' es _ hi (splitEntries_mem_right (·.1) cb' es)
    exact ⟨⟨h1.1, h1.2, subInner_height es _ h hh (splitEntries_mem_left (·.1) cb' es)⟩,
      ⟨h2.1, h2.2, subInner_height es _ h hh (splitEntries_mem_right (·.1) cb' es)⟩⟩

theorem splitPair_items (cb' : GBox α) (n : RNode α) :
    ((splitPair cb' n).1.2.allItems ++ (splitPair cb' n).2.2.allItems).Perm n.allItems := by
  cases n with
  | leaf es =>
    simp only [splitPair, RNode.allItems]
    rw [← List.map_append]
    exact (splitEntries_perm _ _ _).map _
  | inner es =>
    simp only [splitPair, RNode.allItems]
    rw [← allItemsL_append]
    exact allItemsL_perm (splitEntries_perm _ _ _)

theorem splitPair_NE (cb' : GBox α) (n : RNode α) (hc : n.count ≠ 0)
    (h1 : (splitPair cb' n).1.2.NE) (h2 : (splitPair cb' n).2.2.NE) : n.NE := by
  cases n with
  | leaf es => simp [RNode.NE]
  | inner es =>
    simp only [splitPair] at h1 h2
    rw [NE_inner] at *
    refine ⟨by intro h0; simp [h0, RNode.count] at hc, ?_⟩
    intro e he
    have := (splitEntries_perm (fun p : GBox α × RNode α => p.1) cb' es).mem_iff.2 he
    rcases List.mem_append.1 this with h | h
    · exact h1.2 e h
    · exact h2.2 e h

theorem childRepl_inv [LawfulCarrier α] (boxOf : Nat → GBox α) (item : GBox α × Nat) (cb : GBox α)
    (cn : RNode α) (h : Nat)
    (hi : RInv boxOf (if (rInsertNode cb item cn).2 then cb.expand item.1 else cb) (rInsertNode cb item cn).1)
    (hh : (rInsertNode cb item cn).1.HasHeight h) :
    ∀ e ∈ (childRepl item cb cn).1 ++ (childRepl item cb cn).2,
      e.1 ⊆ (if (rInsertNode cb item cn).2 then cb.expand item.1 else cb) ∧
        RInv boxOf e.1 e.2 ∧ e.2.HasHeight h := by
  intro e he
  unfold childRepl at he
  split at he
  · have := splitPair_inv boxOf _ _ h hi hh
    simp only [List.cons_append, List.nil_append, List.mem_cons, List.not_mem_nil, or_false] at he
    rcases he with rfl | rfl
    · exact this.1
    · exact this.2
  · simp only [List.append_nil, List.mem_cons, List.not_mem_nil, or_false] at he
    subst he
    exact ⟨GBox.subset_refl _, hi, hh⟩

theorem childBox_subset [LawfulCarrier α] (box cb b : GBox α) (g : Bool) (hcb : cb ⊆ box) :
    (if g then cb.expand b else cb) ⊆
      (if (if g then !(box.contains b) else false) then box.expand b else box) := by
  cases g with
  | false => simpa using hcb
  | true =>
    simp only [↓reduceIte]
    cases hc : box.contains b
    · simp only [Bool.not_false, ↓reduceIte]
      exact GBox.expand_subset (GBox.subset_trans hcb (GBox.subset_expand_left _ _))
        (GBox.subset_expand_right _ _)
    · simp only [Bool.not_true, Bool.false_eq_true, ↓reduceIte]
      exact GBox.expand_subset hcb ((GBox.contains_iff _ _).1 hc)

theorem subset_grow [LawfulCarrier α] (box b : GBox α) (g : Bool) :
    box ⊆ (if g then box.expand b else box) := by
  cases g
  · exact GBox.subset_refl _
  · exact GBox.subset_expand_left _ _

/-- inserting `(boxOf i, i)` below a node preserves the cover invariant (with the node box
    grown as the caller grows it) and the uniform height. -/
theorem rInsertNode_inv [LawfulCarrier α] (boxOf : Nat → GBox α) (i : Nat) (n : RNode α) :
    ∀ box h, RInv boxOf box n → n.HasHeight h →
      RInv boxOf (if (rInsertNode box (boxOf i, i) n).2 then box.expand (boxOf i) else box)
        (rInsertNode box (boxOf i, i) n).1 ∧
      (rInsertNode box (boxOf i, i) n).1.HasHeight h := by
  induction n using RNode.ind with
  | leaf es =>
    intro box h hi hh
    rw [rInsertNode]
    rw [HasHeight_leaf] at *
    refine ⟨?_, hh⟩
    rw [RInv_leaf] at *
    intro e he
    rcases List.mem_append.1 he with he | he
    · exact ⟨GBox.subset_trans (hi e he).1 (subset_grow _ _ _), (hi e he).2⟩
    · simp only [List.mem_cons, List.not_mem_nil, or_false] at he
      subst he
      refine ⟨?_, rfl⟩
      simp only
      cases hc : box.contains (boxOf i)
      · exact GBox.subset_expand_right _ _
      · exact (GBox.contains_iff _ _).1 hc
  | inner es ih =>
    intro box h hi hh
    rw [rInsertNode_inner]
    by_cases hes : es = []
    · subst hes
      simp only [rInsertChild]
      exact ⟨by simpa using hi, hh⟩
    · have hidx := chooseLeast_lt (es.map (·.1)) (boxOf i) (by simpa using hes)
      rw [List.length_map] at hidx
      obtain ⟨pre, cb, cn, post, hes', heq⟩ := rInsertChild_eq box (boxOf i, i) es _ hidx
      simp only at heq hidx ⊢
      rw [heq]
      simp only
      rw [RInv_inner] at hi
      rw [HasHeight_inner] at hh
      have hmem : (cb, cn) ∈ es := by rw [hes']; simp
      obtain ⟨hcb, hcn⟩ := hi _ hmem
      obtain ⟨ih1, ih2⟩ := ih _ hmem cb (h - 1) hcn (hh.2 _ hmem)
      have hrepl := childRepl_inv boxOf (boxOf i, i) cb cn (h - 1) ih1 ih2
      have hsub := childBox_subset box cb (boxOf i) (rInsertNode cb (boxOf i, i) cn).2 hcb
      unfold childGrown
      simp only
      rw [RInv_inner, HasHeight_inner]
      have hold : ∀ e ∈ es, e.1 ⊆ (if (if (rInsertNode cb (boxOf i, i) cn).2 then !(box.contains (boxOf i)) else false)
          then box.expand (boxOf i) else box) ∧ RInv boxOf e.1 e.2 ∧ e.2.HasHeight (h - 1) := fun e he =>
        ⟨GBox.subset_trans (hi e he).1 (subset_grow _ _ _), (hi e he).2, hh.2 e he⟩
      have hall : ∀ e ∈ pre ++ (childRepl (boxOf i, i) cb cn).1 ++ post ++ (childRepl (boxOf i, i) cb cn).2,
          e.1 ⊆ (if (if (rInsertNode cb (boxOf i, i) cn).2 then !(box.contains (boxOf i)) else false)
          then box.expand (boxOf i) else box) ∧ RInv boxOf e.1 e.2 ∧ e.2.HasHeight (h - 1) := by
        intro e he
        simp only [List.mem_append] at he
        have hnew : e ∈ (childRepl (boxOf i, i) cb cn).1 ++ (childRepl (boxOf i, i) cb cn).2 →
            _ := fun he' =>
          (⟨GBox.subset_trans (hrepl e he').1 hsub, (hrepl e he').2⟩ :
            e.1 ⊆ _ ∧ RInv boxOf e.1 e.2 ∧ e.2.HasHeight (h - 1))
        rcases he with ((he | he) | he) | he
        · exact hold e (by rw [hes']; simp [he])
        · exact hnew (List.mem_append_left _ he)
        · exact hold e (by rw [hes']; simp [he])
        · exact hnew (List.mem_append_right _ he)
      exact ⟨fun e he => ⟨(hall e he).1, (hall e he).2.1⟩, hh.1, fun e he => (hall e he).2.2⟩

theorem childRepl_items (item : GBox α × Nat) (cb : GBox α) (cn : RNode α) :
    (allItemsL ((childRepl item cb cn).1 ++ (childRepl item cb cn).2)).Perm
      (rInsertNode cb item cn).1.allItems := by
  unfold childRepl
  split
  · simp only [List.cons_append, List.nil_append, allItemsL, List.append_nil]
    exact splitPair_items _ _
  · simp [allItemsL]

theorem childRepl_NE (item : GBox α × Nat) (cb : GBox α) (cn : RNode α)
    (h : ∀ e ∈ (childRepl item cb cn).1 ++ (childRepl item cb cn).2, e.2.NE) :
    (rInsertNode cb item cn).1.NE := by
  unfold childRepl at h
  split at h
  · rename_i hc
    simp only [List.cons_append, List.nil_append, List.mem_cons, List.not_mem_nil, or_false,
      forall_eq_or_imp, forall_eq] at h
    refine splitPair_NE _ _ ?_ h.1 h.2
    simp only [rMaxEntries, beq_iff_eq] at hc
    omega
  · simp only [List.append_nil, List.mem_cons, List.not_mem_nil, or_false, forall_eq] at h
    exact h

theorem perm_insert_aux {A F P B C : List Nat} {x : Nat} (h : (F ++ B).Perm (x :: C)) :
    (A ++ F ++ P ++ B).Perm (x :: (A ++ C ++ P)) := by
  rw [List.perm_iff_count]
  intro a
  have := h.count_eq a
  simp only [List.count_append, List.count_cons] at this ⊢
  omega

/-- below a tree without empty inner nodes, insertion adds exactly the item. -/
theorem rInsertNode_items (item : GBox α × Nat) (n : RNode α) :
    ∀ box, n.NE → (rInsertNode box item n).1.allItems.Perm (item.2 :: n.allItems) := by
  induction n using RNode.ind with
  | leaf es =>
    intro box _
    rw [rInsertNode]
    simp only [RNode.allItems, List.map_append, List.map_cons, List.map_nil]
    exact List.perm_append_singleton _ _
  | inner es ih =>
    intro box hne
    rw [NE_inner] at hne
    rw [rInsertNode_inner]
    have hidx := chooseLeast_lt (es.map (·.1)) item.1 (by simpa using hne.1)
    rw [List.length_map] at hidx
    obtain ⟨pre, cb, cn, post, hes', heq⟩ := rInsertChild_eq box item es _ hidx
    rw [heq]
    have hmem : (cb, cn) ∈ es := by rw [hes']; simp
    have h1 := (childRepl_items item cb cn).trans (ih _ hmem cb (hne.2 _ hmem))
    rw [allItemsL_append] at h1
    simp only [RNode.allItems]
    rw [hes']
    simp only [allItemsL_append, allItemsL]
    have := perm_insert_aux (A := allItemsL pre) (P := allItemsL post) h1
    simpa using this

theorem rInsertNode_NE_back (item : GBox α × Nat) (n : RNode α) :
    ∀ box, (rInsertNode box item n).1.NE → n.NE := by
  induction n using RNode.ind with
  | leaf es => intro _ _; simp [RNode.NE]
  | inner es ih =>
    intro box hne
    rw [rInsertNode_inner] at hne
    by_cases hes : es = []
    · subst hes
      simp [rInsertChild, RNode.NE] at hne
    · have hidx := chooseLeast_lt (es.map (·.1)) item.1 (by simpa using hes)
      rw [List.length_map] at hidx
      obtain ⟨pre, cb, cn, post, hes', heq⟩ := rInsertChild_eq box item es _ hidx
      rw [heq] at hne
      simp only at hne
      rw [NE_inner] at hne ⊢
      refine ⟨hes, ?_⟩
      have hcn : cn.NE := by
        refine ih (cb, cn) (by rw [hes']; simp) cb (childRepl_NE item cb cn ?_)
        intro e he
        apply hne.2
        simp only [List.mem_append] at he ⊢
        rcases he with he | he
        · exact Or.inl (Or.inl (Or.inr he))
        · exact Or.inr he
      intro e he
      rw [hes'] at he
      simp only [List.mem_append, List.mem_cons] at he
      rcases he with he | rfl | he
      · exact hne.2 e (by simp [he])
      · exact hcn
      · exact hne.2 e (by simp [he])

/-! ## the whole tree -/

def RTree.items (tr : RTree α) : List Nat :=
  match tr.root with
  | none => []
  | some (_, rn) => rn.allItems

/-- tree invariant: cover invariant at the root and all leaves at depth `height`. -/
def RTree.Inv (boxOf : Nat → GBox α) (tr : RTree α) : Prop :=
  match tr.root with
  | none => tr.height = 0
  | some (rb, rn) => RInv boxOf rb rn ∧ rn.HasHeight tr.height

def RTree.NE (tr : RTree α) : Prop :=
  match tr.root with
  | none => True
  | some (_, rn) => rn.NE

/-- tree-level search (what `rSearchBytes` computes on the compressed form). -/
def RTree.search {σ : Type} (boxOf : Nat → GBox α) (q : GBox α) (f : σ → Nat → σ × Bool)
    (tr : RTree α) (s : σ) : σ × Bool :=
  match tr.root with
  | none => (s, true)
  | some (rb, rn) => rSearchTree boxOf q f rb rn s

def RTree.rootOrNew (tr : RTree α) (item : GBox α × Nat) : GBox α × RNode α :=
  match tr.root with
  | none => (item.1, RNode.leaf [])
  | some r => r

theorem RTree.insert_eq (tr : RTree α) (item : GBox α × Nat) (rb : GBox α) (rn : RNode α)
    (hr : tr.rootOrNew item = (rb, rn)) (rn' : RNode α) (g : Bool)
    (hi : rInsertNode rb item rn = (rn', g)) :
    tr.insert item =
      if rn'.count == rMaxEntries + 1 then
        ⟨tr.height + 1,
          some (recalcBoxes [(splitPair (if g then rb.expand item.1 else rb) rn').1.1,
              (splitPair (if g then rb.expand item.1 else rb) rn').2.1]
              (if g then rb.expand item.1 else rb),
            .inner [(splitPair (if g then rb.expand item.1 else rb) rn').1,
              (splitPair (if g then rb.expand item.1 else rb) rn').2])⟩
      else ⟨tr.height, some ((if g then rb.expand item.1 else rb), rn')⟩ := by
  unfold RTree.insert
  unfold RTree.rootOrNew at hr
  cases htr : tr.root with
  | none =>
    rw [htr] at hr
    simp only at hr ⊢
    cases hr
    rw [hi]
    cases rn' with
    | leaf es' => simp only [splitPair]
    | inner es' => simp only [splitPair]
  | some r =>
    rw [htr] at hr
    simp only at hr ⊢
    subst hr
    rw [hi]
    cases rn' with
    | leaf es' => simp only [splitPair]
    | inner es' => simp only [splitPair]

theorem RTree.rootOrNew_inv [LawfulCarrier α] (boxOf : Nat → GBox α) (tr : RTree α) (i : Nat)
    (h : tr.Inv boxOf) :
    RInv boxOf (tr.rootOrNew (boxOf i, i)).1 (tr.rootOrNew (boxOf i, i)).2 ∧
      (tr.rootOrNew (boxOf i, i)).2.HasHeight tr.height := by
  unfold RTree.Inv at h
  unfold RTree.rootOrNew
  cases htr : tr.root with
  | none =>
    rw [htr] at h
    simp only at h ⊢
    exact ⟨by rw [RInv_leaf]; simp, by rw [HasHeight_leaf]; exact h⟩
  | some r =>
    rw [htr] at h
    exact h

/-- `RTree.insert` preserves the tree invariant. -/
theorem RTree.insert_inv [LawfulCarrier α] (boxOf : Nat → GBox α) (tr : RTree α) (i : Nat)
    (h : tr.Inv boxOf) : (tr.insert (boxOf i, i)).Inv boxOf := by
  obtain ⟨h1, h2⟩ := RTree.rootOrNew_inv boxOf tr i h
  rcases hr : tr.rootOrNew (boxOf i, i) with ⟨rb, rn⟩
  rw [hr] at h1 h2
  obtain ⟨g1, g2⟩ := rInsertNode_inv boxOf i rn rb tr.height h1 h2
  rcases hi : rInsertNode rb (boxOf i, i) rn with ⟨rn', g⟩
  rw [hi] at g1 g2
  simp only at g1 g2 h1 h2
  rw [RTree.insert_eq tr _ rb rn hr rn' g hi]
  split
  · unfold RTree.Inv
    simp only
    obtain ⟨⟨a1, a2, a3⟩, ⟨b1, b2, b3⟩⟩ := splitPair_inv boxOf _ rn' tr.height g1 g2
    rw [RInv_inner, HasHeight_inner]
    refine ⟨?_, by omega, ?_⟩
    · intro e he
      simp only [List.mem_cons, List.not_mem_nil, or_false] at he
      rcases he with rfl | rfl
      · exact ⟨recalcBoxes_covers _ _ _ (by simp), a2⟩
      · exact ⟨recalcBoxes_covers _ _ _ (by simp), b2⟩
    · intro e he
      simp only [List.mem_cons, List.not_mem_nil, or_false] at he
      rcases he with rfl | rfl
      · simpa using a3
      · simpa using b3
  · exact ⟨g1, g2⟩

theorem RTree.rootOrNew_items (tr : RTree α) (item : GBox α × Nat) :
    (tr.rootOrNew item).2.allItems = tr.items := by
  unfold RTree.rootOrNew RTree.items
  cases tr.root <;> simp [RNode.allItems]

theorem RTree.rootOrNew_NE (tr : RTree α) (item : GBox α × Nat) :
    (tr.rootOrNew item).2.NE ↔ tr.NE := by
  unfold RTree.rootOrNew RTree.NE
  cases tr.root <;> simp [RNode.NE]

/-- on a tree without empty inner nodes, `RTree.insert` adds exactly the item. -/
theorem RTree.insert_items (tr : RTree α) (item : GBox α × Nat) (hne : tr.NE) :
    (tr.insert item).items.Perm (item.2 :: tr.items) := by
  rcases hr : tr.rootOrNew item with ⟨rb, rn⟩
  have hne' := (RTree.rootOrNew_NE tr item).2 hne
  have hit := RTree.rootOrNew_items tr item
  rw [hr] at hne' hit
  simp only at hne' hit
  have hp := rInsertNode_items item rn rb hne'
  rcases hi : rInsertNode rb item rn with ⟨rn', g⟩
  rw [hi] at hp
  simp only at hp
  rw [RTree.insert_eq tr _ rb rn hr rn' g hi, ← hit]
  split
  · simp only [RTree.items, RNode.allItems, allItemsL, List.append_nil]
    exact (splitPair_items _ _).trans hp
  · exact hp

/-- empty inner nodes never disappear. -/
theorem RTree.insert_NE_back (tr : RTree α) (item : GBox α × Nat) (hne : (tr.insert item).NE) :
    tr.NE := by
  rcases hr : tr.rootOrNew item with ⟨rb, rn⟩
  rcases hi : rInsertNode rb item rn with ⟨rn', g⟩
  rw [RTree.insert_eq tr _ rb rn hr rn' g hi] at hne
  rw [← RTree.rootOrNew_NE tr item, hr]
  simp only
  have hb := rInsertNode_NE_back item rn rb
  rw [hi] at hb
  apply hb
  split at hne
  · rename_i hc
    simp only [RTree.NE, NE_inner, List.mem_cons, List.not_mem_nil, or_false,
      forall_eq_or_imp, forall_eq] at hne
    refine splitPair_NE _ _ ?_ hne.2.1 hne.2.2
    show rn'.count ≠ 0
    simp only [rMaxEntries, beq_iff_eq] at hc
    omega
  · exact hne

theorem rBuild_succ (boxOf : Nat → GBox α) (n : Nat) :
    rBuild boxOf (n + 1) = (rBuild boxOf n).insert (boxOf n, n) := by
  simp [rBuild, List.range_succ, List.foldl_append]

theorem rBuild_inv [LawfulCarrier α] (boxOf : Nat → GBox α) (n : Nat) :
    (rBuild boxOf n).Inv boxOf := by
  induction n with
  | zero => simp [rBuild, RTree.Inv, RTree.empty]
  | succ n ih => rw [rBuild_succ]; exact RTree.insert_inv boxOf _ n ih

theorem rBuild_NE_prefix (boxOf : Nat → GBox α) (n : Nat) (h : (rBuild boxOf n).NE) :
    ∀ k, k ≤ n → (rBuild boxOf k).NE := by
  induction n with
  | zero => intro k hk; have : k = 0 := by omega
            subst this; exact h
  | succ n ih =>
    intro k hk
    by_cases hk' : k = n + 1
    · subst hk'; exact h
    · rw [rBuild_succ] at h
      exact ih (RTree.insert_NE_back _ _ h) k (by omega)

theorem rBuild_items (boxOf : Nat → GBox α) (n : Nat) (h : (rBuild boxOf n).NE) :
    (rBuild boxOf n).items.Perm (List.range n) := by
  induction n with
  | zero => simp [rBuild, RTree.items, RTree.empty]
  | succ n ih =>
    have hn := rBuild_NE_prefix boxOf (n + 1) h n (by omega)
    rw [rBuild_succ, List.range_succ]
    refine (RTree.insert_items _ _ hn).trans ?_
    simp only
    exact ((ih hn).cons n).trans (List.perm_append_singleton _ _).symm

/-- build spec: the invariant (cover + uniform height) always holds; if the built tree has no
    empty inner node, its items are exactly `0 .. n-1`. -/
theorem rBuild_spec [LawfulCarrier α] (boxOf : Nat → GBox α) (n : Nat) :
    (rBuild boxOf n).Inv boxOf ∧
      ((rBuild boxOf n).NE → (rBuild boxOf n).items.Perm (List.range n)) :=
  ⟨rBuild_inv boxOf n, rBuild_items boxOf n⟩

theorem RTree.search_eq_foldUntil [LawfulCarrier α] {σ : Type} (boxOf : Nat → GBox α) (q : GBox α)
    (f : σ → Nat → σ × Bool) (tr : RTree α) (h : tr.Inv boxOf) (s : σ) :
    tr.search boxOf q f s = foldUntil f s (tr.items.filter (fun i => (boxOf i).meets q)) := by
  unfold RTree.search RTree.items
  unfold RTree.Inv at h
  cases htr : tr.root with
  | none => simp [foldUntil]
  | some r =>
    obtain ⟨rb, rn⟩ := r
    rw [htr] at h
    simp only at h ⊢
    rw [rSearchTree_eq_foldUntil, rVisit_eq_filter boxOf q rn rb h.1]

/-- tree-level exactness: the search of the built tree is a fold (with early stop) over a
    list that is a permutation of the matching items — each exactly once. -/
theorem rtree_tree_search_exact [LawfulCarrier α] (boxOf : Nat → GBox α) (q : GBox α) (n : Nat)
    (hne : (rBuild boxOf n).NE) :
    ∃ visit : List Nat,
      List.Perm visit ((List.range n).filter (fun i => (boxOf i).meets q)) ∧
      ∀ (σ : Type) (f : σ → Nat → σ × Bool) (s : σ),
        (rBuild boxOf n).search boxOf q f s = foldUntil f s visit :=
  ⟨(rBuild boxOf n).items.filter (fun i => (boxOf i).meets q),
    (rBuild_items boxOf n hne).filter _,
    fun _ f s => RTree.search_eq_foldUntil boxOf q f _ (rBuild_inv boxOf n) s⟩


/-! ## items are never invented (no hypothesis at all) -/

theorem rInsertNode_items_subset (item : GBox α × Nat) (n : RNode α) :
    ∀ box, ∀ i ∈ (rInsertNode box item n).1.allItems, i = item.2 ∨ i ∈ n.allItems := by
  induction n using RNode.ind with
  | leaf es =>
    intro box i hi
    rw [rInsertNode] at hi
    simp only [RNode.allItems, List.map_append, List.map_cons, List.map_nil, List.mem_append,
      List.mem_cons, List.not_mem_nil, or_false] at hi ⊢
    rcases hi with h | h
    · exact Or.inr h
    · exact Or.inl h
  | inner es ih =>
    intro box i hi
    rw [rInsertNode_inner] at hi
    by_cases hes : es = []
    · subst hes
      simp [rInsertChild, RNode.allItems, allItemsL] at hi
    · have hidx := chooseLeast_lt (es.map (·.1)) item.1 (by simpa using hes)
      rw [List.length_map] at hidx
      obtain ⟨pre, cb, cn, post, hes', heq⟩ := rInsertChild_eq box item es _ hidx
      rw [heq] at hi
      simp only [RNode.allItems] at hi ⊢
      rw [hes']
      have hrepl := (childRepl_items item cb cn).mem_iff (a := i)
      simp only [allItemsL_append, allItemsL, List.mem_append] at hi hrepl ⊢
      have hnew : i ∈ (rInsertNode cb item cn).1.allItems → i = item.2 ∨ i ∈ cn.allItems :=
        ih (cb, cn) (by rw [hes']; simp) cb i
      rcases hi with ((h | h) | h) | h
      · exact Or.inr (Or.inl h)
      · rcases hnew (hrepl.1 (Or.inl h)) with h' | h'
        · exact Or.inl h'
        · exact Or.inr (Or.inr (Or.inl h'))
      · exact Or.inr (Or.inr (Or.inr h))
      · rcases hnew (hrepl.1 (Or.inr h)) with h' | h'
        · exact Or.inl h'
        · exact Or.inr (Or.inr (Or.inl h'))

theorem RTree.insert_items_subset (tr : RTree α) (item : GBox α × Nat) :
    ∀ i ∈ (tr.insert item).items, i = item.2 ∨ i ∈ tr.items := by
  rcases hr : tr.rootOrNew item with ⟨rb, rn⟩
  have hit := RTree.rootOrNew_items tr item
  rw [hr] at hit
  simp only at hit
  have hp := rInsertNode_items_subset item rn rb
  rcases hi : rInsertNode rb item rn with ⟨rn', g⟩
  rw [hi] at hp
  simp only at hp
  rw [RTree.insert_eq tr _ rb rn hr rn' g hi, ← hit]
  split
  · intro i hi'
    simp only [RTree.items, RNode.allItems, allItemsL, List.append_nil] at hi'
    exact hp i ((splitPair_items _ _).mem_iff.1 hi')
  · exact hp

/-- whatever the carrier does, the built tree only holds item numbers `< n`. -/
theorem rBuild_items_lt (boxOf : Nat → GBox α) (n : Nat) :
    ∀ i ∈ (rBuild boxOf n).items, i < n := by
  induction n with
  | zero => simp [rBuild, RTree.items, RTree.empty]
  | succ n ih =>
    intro i hi
    rw [rBuild_succ] at hi
    rcases RTree.insert_items_subset _ _ i hi with h | h
    · simp only at h; omega
    · have := ih i h; omega

end

/-! ## FINDING: with an arbitrary `sub`, the model can lose items

`splitEntries` classifies entries with `sub`; nothing forces both halves to be non-empty.
An inner node split into (17 entries, 0 entries) leaves an EMPTY inner node in the tree; when
`chooseLeast` later descends into it, `rInsertChild _ _ _ [] = ([], false)` silently drops the
item (the Go code would index `rects[0]` of a node with `count = 0`, whose `data` is nil, and
panic).  So "insert adds exactly the item" needs the hypothesis `RTree.NE` (no empty inner
node), which does NOT follow from the order laws alone.  The witness below uses `Int` with
its usual order and `sub a b := a`. -/
namespace RCounter

/-- a carrier on `Int` with the usual (lawful) order but a "subtraction" that ignores its
    second argument — legal, since nothing is assumed about `sub`. -/
@[instance_reducible] def weird : Carrier Int where
  lt a b := decide (a < b)
  mid a b := (a + b) / 2
  sub a _ := a
  mul a b := a * b
  one := 1
  zero := 0

theorem weird_lawful : @LawfulCarrier Int weird := by
  letI := weird
  refine ⟨?_, ?_⟩
  · intro a b h
    simp only [Carrier.lt, decide_eq_true_eq, decide_eq_false_iff_not] at *
    omega
  · intro a b c h1 h2
    simp only [Carrier.lt, decide_eq_false_iff_not] at *
    omega

def pt (k : Int) : GBox Int := ⟨k, k, k, k⟩

/-- 31 points on the diagonal, one small square, a far point, then the point `(1,1)`. -/
def boxOf (i : Nat) : GBox Int :=
  if i < 31 then pt (2 * i + 2)
  else if i = 31 then ⟨63, 63, 64, 64⟩
  else if i = 32 then pt 80
  else pt 1

set_option maxRecDepth 100000 in
/-- after 34 insertions the tree holds only 33 items: item 33 was dropped. -/
theorem lost : (@rBuild Int weird boxOf 34).items.length = 33 := by decide +kernel

set_option maxRecDepth 100000 in
/-- and the tree-level search for the box of item 33 does not report it. -/
theorem lost_search :
    (@RTree.search Int weird (List Nat) boxOf (boxOf 33)
      (fun acc i => (acc ++ [i], true)) (@rBuild Int weird boxOf 34) []).1 = [] := by
  decide +kernel

end RCounter

/-- The unconditional statement "`rBuild` holds exactly the items `0..n-1`" is FALSE for a
    carrier satisfying only the order laws. -/
theorem rBuild_items_counterexample :
    ∃ (C : Carrier Int), @LawfulCarrier Int C ∧ ∃ boxOf : Nat → GBox Int,
      ¬ (@rBuild Int C boxOf 34).items.Perm (List.range 34) := by
  refine ⟨RCounter.weird, RCounter.weird_lawful, RCounter.boxOf, ?_⟩
  intro h
  have := h.length_eq
  rw [RCounter.lost] at this
  simp at this

#print axioms rSearchTree_eq_foldUntil
#print axioms rVisit_perm_filter
#print axioms splitEntries_perm
#print axioms recalcBoxes_covers
#print axioms rInsertNode_inv
#print axioms RTree.insert_inv
#print axioms RTree.insert_items
#print axioms RTree.insert_NE_back
#print axioms rBuild_spec
#print axioms rtree_tree_search_exact
#print axioms rBuild_items_lt
#print axioms rBuild_items_counterexample
#print axioms RCounter.lost_search

end Geo
