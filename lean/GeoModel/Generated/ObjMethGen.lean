/-
  GENERATED FILE — do not edit.  Regenerate with
      cd /verif/translate && go build -o bin/translate . && \
        ./bin/translate objmeth /repo > /verif/lean/GeoModel/Generated/ObjMethGen.lean

  Translation (translate/objmeth.go, go/ast + go/types) of the methods that the leaf and wrapper object
  kinds of the root package declare: *Point, *SimplePoint, *LineString, *Polygon, *Rect, *Feature, *Circle, *MultiPoint, *MultiLineString, *MultiPolygon, *GeometryCollection, *FeatureCollection.
  Not translated here: AppendJSON, JSON, MarshalJSON, String (writers translator), the parse functions (parsers translator), the methods
  of *collection (collection translator, CollGen.lean).

  Conventions:
    * the definitions are parametrised by `ops : Ops …`: one type parameter per Go type met in the source
      (root package T<Name>, package geometry G<Name>, another package X<Name>; T and *T share one
      parameter: &x ↦ x, *p ↦ p — no translated method writes to memory, a write is refused; an
      interface whose name collides with a struct's gets the suffix I: Collection ↦ TCollectionI;
      float64 ↦ F, int ↦ Int (unbounded), []T ↦ List T) and one field per distinct callee, field read,
      dynamic type test and interface conversion found in the source:
        method M called on a value of static type T ↦ <t>M (Object ↦ obj…, Spatial ↦ spatial…,
        geometry.Rect ↦ gRect…, *collection ↦ collection…), typed from the callee's signature; a call
        through an interface (Object, Spatial, Collection) is the DYNAMIC DISPATCH supplied by whoever
        instantiates ops — when the dynamic type is one of the types at hand it is the method
        translated here (recursion through the interface);
        field f of struct T ↦ <t>_f, every embedded field crossed by a selector made explicit
        (g.children on a *MultiLineString ↦ collection_children (multiLineString_collection g)); a
        pointer or interface field that some method at hand compares with nil is an Option (none =
        nil), one that is never compared with nil is taken to be non-nil;
        package-level function f ↦ fn_f (gfn_f: package geometry, fn_<pkg>_f: another package);
        x.(T) in `if v, ok := x.(T); ok` or in a type switch ↦ <x>As<T> : X → Option T;
        the implicit conversion of a T to an interface I ↦ <i>Of<T>;
        float64 arithmetic and comparisons ↦ fAdd, fLe, … (F is abstract).
      The callees are taken to be pure and the receiver to be non-nil;
    * `switch v := x.(type) { case A: …; case B: …; default: … }` ↦ a chain of matches, one link per case
      in source order, the default last:  match ops.<x>AsA x with | some v => … | none => match
      ops.<x>AsB x with …  (removing a case removes its link);
    * `if x.f != nil {A} else {B}` on a nilable field ↦ match ops.<t>_f x with | some f' => A | none => B (a
      && of such tests is split); elsewhere x.f != nil ↦ Option.isSome; a use of a nilable field that is
      not dominated by such a test is refused;
    * a statement list becomes one expression, continuation style; x := e, x = e, x += e, x++, var x T ↦
      let (one Lean name per Go variable: a second variable of the same name gets a suffix _1, …);
      the statements after an `if` / type switch are copied into every arm that falls through;
    * `for _, x := range xs { body }` ↦ forRange (fun x st' => body) xs st, st the tuple of the variables
      of the enclosing scopes that the body assigns: end of body / continue ↦ Flow.next, break ↦
      Flow.brk, return e ↦ Flow.ret e; ρ := Empty when the body does not return;
    * a method that TAKES an iterator func(x T) bool (ForEach) ↦ a definition polymorphic in the state σ
      of the iterator, (iter : T → σ → σ × Bool) (it' : σ) : σ × Bool; `return iter(x)` ↦ iter x it';
    * a direct call of a method translated here ↦ a call of its definition (callees first); a call
      that closes a cycle ↦ the Ops field rec_<name>.
  Anything outside the recognised subset appears below as  opaque <name>_unrecognised : Unit.

  Translated (177):
    pointForEach, pointEmpty, pointValid, pointRect, pointSpatial, pointCenter, pointBase,
    pointWithin, pointContains, pointIntersects, pointWithinRect, pointWithinPoint, pointWithinLine,
    pointWithinPoly, pointIntersectsPoint, pointIntersectsRect, pointIntersectsLine,
    pointIntersectsPoly, pointNumPoints, pointDistance, pointDistancePoint, pointDistanceRect,
    pointDistanceLine, pointDistancePoly, pointIsSimple, pointMembers, simplePointForEach,
    simplePointEmpty, simplePointValid, simplePointRect, simplePointSpatial, simplePointCenter,
    simplePointBase, simplePointWithin, simplePointContains, simplePointIntersects,
    simplePointWithinRect, simplePointWithinPoint, simplePointWithinLine, simplePointWithinPoly,
    simplePointIntersectsPoint, simplePointIntersectsRect, simplePointIntersectsLine,
    simplePointIntersectsPoly, simplePointNumPoints, simplePointDistance, simplePointDistancePoint,
    simplePointDistanceRect, simplePointDistanceLine, simplePointDistancePoly, simplePointMembers,
    lineStringEmpty, lineStringValid, lineStringRect, lineStringCenter, lineStringBase,
    lineStringSpatial, lineStringForEach, lineStringWithin, lineStringContains, lineStringIntersects,
    lineStringWithinRect, lineStringWithinPoint, lineStringWithinLine, lineStringWithinPoly,
    lineStringIntersectsPoint, lineStringIntersectsRect, lineStringIntersectsLine,
    lineStringIntersectsPoly, lineStringNumPoints, lineStringDistance, lineStringDistancePoint,
    lineStringDistanceRect, lineStringDistanceLine, lineStringDistancePoly, lineStringMembers,
    polygonEmpty, polygonValid, polygonRect, polygonCenter, polygonBase, polygonSpatial,
    polygonForEach, polygonWithin, polygonContains, polygonWithinRect, polygonWithinPoint,
    polygonWithinLine, polygonWithinPoly, polygonIntersects, polygonIntersectsPoint,
    polygonIntersectsRect, polygonIntersectsLine, polygonIntersectsPoly, polygonNumPoints,
    polygonDistance, polygonDistancePoint, polygonDistanceRect, polygonDistanceLine,
    polygonDistancePoly, polygonHasExtra, polygonMembers, rectForEach, rectEmpty, rectValid,
    rectRect, rectBase, rectCenter, rectContains, rectWithin, rectWithinRect, rectWithinPoint,
    rectWithinLine, rectWithinPoly, rectIntersects, rectIntersectsPoint, rectIntersectsRect,
    rectIntersectsLine, rectIntersectsPoly, rectNumPoints, rectSpatial, rectDistance,
    rectDistancePoint, rectDistanceRect, rectDistanceLine, rectDistancePoly, rectMembers,
    featureForEach, featureEmpty, featureValid, featureRect, featureCenter, featureBase,
    featureMembers, featureSpatial, featureWithin, featureContains, featureWithinRect,
    featureWithinPoint, featureWithinLine, featureWithinPoly, featureIntersects,
    featureIntersectsPoint, featureIntersectsRect, featureIntersectsLine, featureIntersectsPoly,
    featureNumPoints, featureDistance, featureDistancePoint, featureDistanceRect,
    featureDistanceLine, featureDistancePoly, circleMeters, circleCenter, circleHaversine,
    circleHaversineTo, circleWithin, circleContainsPoint, circleContains, circleIntersects,
    circleEmpty, circleValid, circleForEach, circleNumPoints, circleDistance, circleRect,
    circleSpatial, circlePolygon, circleGetObject, circleMembers, multiPointMembers,
    multiLineStringValid, multiLineStringMembers, multiPolygonValid, multiPolygonMembers,
    geometryCollectionMembers, featureCollectionMembers.
  Refused (2):
    pointZ, rectPolygon.
-/

set_option linter.unusedVariables false

namespace Geo.OGen

/-- how one pass through a loop body ends -/
inductive Flow (σ ρ : Type) where
  | next (s : σ) : Flow σ ρ
  | brk (s : σ) : Flow σ ρ
  | ret (r : ρ) : Flow σ ρ

/-- how a loop ends: normally (or by break) with the final state, or by `return r` -/
inductive Exit (σ ρ : Type) where
  | done (s : σ) : Exit σ ρ
  | ret (r : ρ) : Exit σ ρ

/-- a range loop over the list of the values of its variable -/
def forRange {ε σ ρ : Type} (body : ε → σ → Flow σ ρ) : List ε → σ → Exit σ ρ
  | [], s => Exit.done s
  | x :: xs, s =>
    match body x s with
    | Flow.next s' => forRange body xs s'
    | Flow.brk s' => Exit.done s'
    | Flow.ret r => Exit.ret r

/-- the callees of the methods at hand, one field per distinct callee / field read / type test /
    conversion found in the source.
    F = float64;
    GLine = the Go type geometry.Line and *geometry.Line (a pointer is taken to be non-nil unless it is read from a field that the methods at hand compare with nil, where it is an Option);
    GPoint = the Go type geometry.Point and *geometry.Point (a pointer is taken to be non-nil unless it is read from a field that the methods at hand compare with nil, where it is an Option);
    GPoly = the Go type geometry.Poly and *geometry.Poly (a pointer is taken to be non-nil unless it is read from a field that the methods at hand compare with nil, where it is an Option);
    GRect = the Go type geometry.Rect and *geometry.Rect (a pointer is taken to be non-nil unless it is read from a field that the methods at hand compare with nil, where it is an Option);
    GSeries = the Go interface type geometry.Series;
    TCircle = the Go type Circle and *Circle (a pointer is taken to be non-nil unless it is read from a field that the methods at hand compare with nil, where it is an Option);
    TCollection = the Go type collection and *collection (a pointer is taken to be non-nil unless it is read from a field that the methods at hand compare with nil, where it is an Option);
    TCollectionI = the Go interface type Collection;
    TExtra = the Go type extra and *extra (a pointer is taken to be non-nil unless it is read from a field that the methods at hand compare with nil, where it is an Option);
    TFeature = the Go type Feature and *Feature (a pointer is taken to be non-nil unless it is read from a field that the methods at hand compare with nil, where it is an Option);
    TFeatureCollection = the Go type FeatureCollection and *FeatureCollection (a pointer is taken to be non-nil unless it is read from a field that the methods at hand compare with nil, where it is an Option);
    TGeometryCollection = the Go type GeometryCollection and *GeometryCollection (a pointer is taken to be non-nil unless it is read from a field that the methods at hand compare with nil, where it is an Option);
    TLineString = the Go type LineString and *LineString (a pointer is taken to be non-nil unless it is read from a field that the methods at hand compare with nil, where it is an Option);
    TMultiLineString = the Go type MultiLineString and *MultiLineString (a pointer is taken to be non-nil unless it is read from a field that the methods at hand compare with nil, where it is an Option);
    TMultiPoint = the Go type MultiPoint and *MultiPoint (a pointer is taken to be non-nil unless it is read from a field that the methods at hand compare with nil, where it is an Option);
    TMultiPolygon = the Go type MultiPolygon and *MultiPolygon (a pointer is taken to be non-nil unless it is read from a field that the methods at hand compare with nil, where it is an Option);
    TObject = the Go interface type Object;
    TPoint = the Go type Point and *Point (a pointer is taken to be non-nil unless it is read from a field that the methods at hand compare with nil, where it is an Option);
    TPolygon = the Go type Polygon and *Polygon (a pointer is taken to be non-nil unless it is read from a field that the methods at hand compare with nil, where it is an Option);
    TRect = the Go type Rect and *Rect (a pointer is taken to be non-nil unless it is read from a field that the methods at hand compare with nil, where it is an Option);
    TSimplePoint = the Go type SimplePoint and *SimplePoint (a pointer is taken to be non-nil unless it is read from a field that the methods at hand compare with nil, where it is an Option);
    TSpatial = the Go interface type Spatial;
-/
structure Ops (F GLine GPoint GPoly GRect GSeries TCircle TCollection TCollectionI TExtra TFeature TFeatureCollection TGeometryCollection TLineString TMultiLineString TMultiPoint TMultiPolygon TObject TPoint TPolygon TRect TSimplePoint TSpatial : Type) where
  /-- field center of Circle — circle.go:12 -/
  circle_center : TCircle → GPoint
  /-- field haversine of Circle — circle.go:14 -/
  circle_haversine : TCircle → F
  /-- field meters of Circle — circle.go:13 -/
  circle_meters : TCircle → F
  /-- field object of Circle — circle.go:11 (none = nil) -/
  circle_object : TCircle → Option TObject
  /-- field steps of Circle — circle.go:15 -/
  circle_steps : TCircle → Int
  /-- Go: `Children() []Object` of interface Collection — object.go:59 -/
  collectionIChildren : TCollectionI → List TObject
  /-- field children of collection — collection.go:9 -/
  collection_children : TCollection → List TObject
  /-- field extra of collection — collection.go:10 (none = nil) -/
  collection_extra : TCollection → Option TExtra
  /-- field members of extra — object.go:74 -/
  extra_members : TExtra → String
  /-- float64 + -/
  fAdd : F → F → F
  /-- float64 <= (a >= b is b <= a) -/
  fLe : F → F → Bool
  /-- field collection of FeatureCollection — featurecollection.go:9 -/
  featureCollection_collection : TFeatureCollection → TCollection
  /-- field base of Feature — feature.go:13 (never compared with nil by the methods at hand: taken to be non-nil) -/
  feature_base : TFeature → TObject
  /-- field extra of Feature — feature.go:14 (none = nil) -/
  feature_extra : TFeature → Option TExtra
  /-- Go: `func geoDistancePoints(a geometry.Point, b geometry.Point) float64` — object.go:316 -/
  fn_geoDistancePoints : GPoint → GPoint → F
  /-- Go: `func Haversine(latA float64, lonA float64, latB float64, lonB float64) float64` — geo/geo.go:19 -/
  fn_geo_Haversine : F → F → F → F → F
  /-- Go: `func makeCircleObject(center geometry.Point, meters float64, steps int) Object` — circle.go:176 -/
  fn_makeCircleObject : GPoint → F → Int → TObject
  /-- Go: `func (line *Line) ContainsLine(other *Line) bool` — geometry/line.go:69 -/
  gLineContainsLine : GLine → GLine → Bool
  /-- Go: `func (line *Line) ContainsPoint(point Point) bool` — geometry/line.go:32 -/
  gLineContainsPoint : GLine → GPoint → Bool
  /-- Go: `func (line *Line) ContainsPoly(poly *Poly) bool` — geometry/line.go:147 -/
  gLineContainsPoly : GLine → GPoly → Bool
  /-- Go: `func (line *Line) ContainsRect(rect Rect) bool` — geometry/line.go:54 -/
  gLineContainsRect : GLine → GRect → Bool
  /-- Go: `func (series *baseSeries) Empty() bool` — geometry/series.go:126 -/
  gLineEmpty : GLine → Bool
  /-- Go: `func (line *Line) IntersectsLine(other *Line) bool` — geometry/line.go:119 -/
  gLineIntersectsLine : GLine → GLine → Bool
  /-- Go: `func (line *Line) IntersectsPoint(point Point) bool` — geometry/line.go:47 -/
  gLineIntersectsPoint : GLine → GPoint → Bool
  /-- Go: `func (line *Line) IntersectsPoly(poly *Poly) bool` — geometry/line.go:163 -/
  gLineIntersectsPoly : GLine → GPoly → Bool
  /-- Go: `func (line *Line) IntersectsRect(rect Rect) bool` — geometry/line.go:62 -/
  gLineIntersectsRect : GLine → GRect → Bool
  /-- Go: `func (series *baseSeries) NumPoints() int` — geometry/series.go:158 -/
  gLineNumPoints : GLine → Int
  /-- Go: `func (series *baseSeries) Rect() Rect` — geometry/series.go:143 -/
  gLineRect : GLine → GRect
  /-- Go: `func (line *Line) Valid() bool` — geometry/line.go:12 -/
  gLineValid : GLine → Bool
  /-- Go: `func (point Point) ContainsLine(line *Line) bool` — geometry/point.go:43 -/
  gPointContainsLine : GPoint → GLine → Bool
  /-- Go: `func (point Point) ContainsPoint(other Point) bool` — geometry/point.go:27 -/
  gPointContainsPoint : GPoint → GPoint → Bool
  /-- Go: `func (point Point) ContainsPoly(poly *Poly) bool` — geometry/point.go:57 -/
  gPointContainsPoly : GPoint → GPoly → Bool
  /-- Go: `func (point Point) ContainsRect(rect Rect) bool` — geometry/point.go:35 -/
  gPointContainsRect : GPoint → GRect → Bool
  /-- Go: `func (point Point) Empty() bool` — geometry/point.go:15 -/
  gPointEmpty : GPoint → Bool
  /-- Go: `func (point Point) IntersectsLine(line *Line) bool` — geometry/point.go:50 -/
  gPointIntersectsLine : GPoint → GLine → Bool
  /-- Go: `func (point Point) IntersectsPoint(other Point) bool` — geometry/point.go:31 -/
  gPointIntersectsPoint : GPoint → GPoint → Bool
  /-- Go: `func (point Point) IntersectsPoly(poly *Poly) bool` — geometry/point.go:64 -/
  gPointIntersectsPoly : GPoint → GPoly → Bool
  /-- Go: `func (point Point) IntersectsRect(rect Rect) bool` — geometry/point.go:39 -/
  gPointIntersectsRect : GPoint → GRect → Bool
  /-- Go: `func (point Point) Rect() Rect` — geometry/point.go:23 -/
  gPointRect : GPoint → GRect
  /-- Go: `func (point Point) Valid() bool` — geometry/point.go:19 -/
  gPointValid : GPoint → Bool
  /-- field X of geometry.Point — geometry/point.go:8 -/
  gPoint_X : GPoint → F
  /-- field Y of geometry.Point — geometry/point.go:8 -/
  gPoint_Y : GPoint → F
  /-- Go: `func (poly *Poly) ContainsLine(line *Line) bool` — geometry/poly.go:131 -/
  gPolyContainsLine : GPoly → GLine → Bool
  /-- Go: `func (poly *Poly) ContainsPoint(point Point) bool` — geometry/poly.go:91 -/
  gPolyContainsPoint : GPoly → GPoint → Bool
  /-- Go: `func (poly *Poly) ContainsPoly(other *Poly) bool` — geometry/poly.go:161 -/
  gPolyContainsPoly : GPoly → GPoly → Bool
  /-- Go: `func (poly *Poly) ContainsRect(rect Rect) bool` — geometry/poly.go:115 -/
  gPolyContainsRect : GPoly → GRect → Bool
  /-- Go: `func (poly *Poly) Empty() bool` — geometry/poly.go:31 -/
  gPolyEmpty : GPoly → Bool
  /-- Go: `func (poly *Poly) IntersectsLine(line *Line) bool` — geometry/poly.go:146 -/
  gPolyIntersectsLine : GPoly → GLine → Bool
  /-- Go: `func (poly *Poly) IntersectsPoint(point Point) bool` — geometry/poly.go:108 -/
  gPolyIntersectsPoint : GPoly → GPoint → Bool
  /-- Go: `func (poly *Poly) IntersectsPoly(other *Poly) bool` — geometry/poly.go:191 -/
  gPolyIntersectsPoly : GPoly → GPoly → Bool
  /-- Go: `func (poly *Poly) IntersectsRect(rect Rect) bool` — geometry/poly.go:123 -/
  gPolyIntersectsRect : GPoly → GRect → Bool
  /-- Go: `func (poly *Poly) Rect() Rect` — geometry/poly.go:53 -/
  gPolyRect : GPoly → GRect
  /-- Go: `func (poly *Poly) Valid() bool` — geometry/poly.go:38 -/
  gPolyValid : GPoly → Bool
  /-- field Exterior of geometry.Poly — geometry/poly.go:8 (none = nil) -/
  gPoly_Exterior : GPoly → Option GSeries
  /-- field Holes of geometry.Poly — geometry/poly.go:9 -/
  gPoly_Holes : GPoly → List GSeries
  /-- Go: `func (rect Rect) Center() Point` — geometry/rect.go:26 -/
  gRectCenter : GRect → GPoint
  /-- Go: `func (rect Rect) ContainsLine(line *Line) bool` — geometry/rect.go:145 -/
  gRectContainsLine : GRect → GLine → Bool
  /-- Go: `func (rect Rect) ContainsPoint(point Point) bool` — geometry/rect.go:116 -/
  gRectContainsPoint : GRect → GPoint → Bool
  /-- Go: `func (rect Rect) ContainsPoly(poly *Poly) bool` — geometry/rect.go:159 -/
  gRectContainsPoly : GRect → GPoly → Bool
  /-- Go: `func (rect Rect) ContainsRect(other Rect) bool` — geometry/rect.go:125 -/
  gRectContainsRect : GRect → GRect → Bool
  /-- Go: `func (rect Rect) Empty() bool` — geometry/rect.go:100 -/
  gRectEmpty : GRect → Bool
  /-- Go: `func (rect Rect) IntersectsLine(line *Line) bool` — geometry/rect.go:152 -/
  gRectIntersectsLine : GRect → GLine → Bool
  /-- Go: `func (rect Rect) IntersectsPoint(point Point) bool` — geometry/rect.go:121 -/
  gRectIntersectsPoint : GRect → GPoint → Bool
  /-- Go: `func (rect Rect) IntersectsPoly(poly *Poly) bool` — geometry/rect.go:166 -/
  gRectIntersectsPoly : GRect → GPoly → Bool
  /-- Go: `func (rect Rect) IntersectsRect(other Rect) bool` — geometry/rect.go:135 -/
  gRectIntersectsRect : GRect → GRect → Bool
  /-- Go: `func (rect Rect) Valid() bool` — geometry/rect.go:104 -/
  gRectValid : GRect → Bool
  /-- Go: `NumPoints() int` of interface geometry.Series — geometry/series.go:52 -/
  gSeriesNumPoints : GSeries → Int
  /-- field collection of GeometryCollection — geometrycollection.go:9 -/
  geometryCollection_collection : TGeometryCollection → TCollection
  /-- field base of LineString — linestring.go:9 -/
  lineString_base : TLineString → GLine
  /-- field extra of LineString — linestring.go:10 (none = nil) -/
  lineString_extra : TLineString → Option TExtra
  /-- field collection of MultiLineString — multilinestring.go:8 -/
  multiLineString_collection : TMultiLineString → TCollection
  /-- field collection of MultiPoint — multipoint.go:8 -/
  multiPoint_collection : TMultiPoint → TCollection
  /-- field collection of MultiPolygon — multipolygon.go:8 -/
  multiPolygon_collection : TMultiPolygon → TCollection
  /-- the dynamic type test `x.(*Circle)` on a Object: some v when it succeeds (v the value at that type), none otherwise -/
  objAsCircle : TObject → Option TCircle
  /-- the dynamic type test `x.(Collection)` on a Object: some v when it succeeds (v the value at that type), none otherwise -/
  objAsCollectionI : TObject → Option TCollectionI
  /-- the dynamic type test `x.(*Feature)` on a Object: some v when it succeeds (v the value at that type), none otherwise -/
  objAsFeature : TObject → Option TFeature
  /-- the dynamic type test `x.(*Point)` on a Object: some v when it succeeds (v the value at that type), none otherwise -/
  objAsPoint : TObject → Option TPoint
  /-- the dynamic type test `x.(*SimplePoint)` on a Object: some v when it succeeds (v the value at that type), none otherwise -/
  objAsSimplePoint : TObject → Option TSimplePoint
  /-- Go: `Contains(other Object) bool` of interface Object — object.go:36 -/
  objContains : TObject → TObject → Bool
  /-- Go: `Distance(obj Object) float64` of interface Object — object.go:42 -/
  objDistance : TObject → TObject → F
  /-- Go: `Empty() bool` of interface Object — object.go:32 -/
  objEmpty : TObject → Bool
  /-- Go: `Intersects(other Object) bool` of interface Object — object.go:38 -/
  objIntersects : TObject → TObject → Bool
  /-- Go: `NumPoints() int` of interface Object — object.go:43 -/
  objNumPoints : TObject → Int
  /-- the implicit conversion of a *Circle to the interface Object -/
  objOfCircle : TCircle → TObject
  /-- the implicit conversion of a *Feature to the interface Object -/
  objOfFeature : TFeature → TObject
  /-- the implicit conversion of a *LineString to the interface Object -/
  objOfLineString : TLineString → TObject
  /-- the implicit conversion of a *Point to the interface Object -/
  objOfPoint : TPoint → TObject
  /-- the implicit conversion of a *Polygon to the interface Object -/
  objOfPolygon : TPolygon → TObject
  /-- the implicit conversion of a *Rect to the interface Object -/
  objOfRect : TRect → TObject
  /-- the implicit conversion of a *SimplePoint to the interface Object -/
  objOfSimplePoint : TSimplePoint → TObject
  /-- Go: `Rect() geometry.Rect` of interface Object — object.go:34 -/
  objRect : TObject → GRect
  /-- Go: `Spatial() Spatial` of interface Object — object.go:45 -/
  objSpatial : TObject → TSpatial
  /-- Go: `Valid() bool` of interface Object — object.go:33 -/
  objValid : TObject → Bool
  /-- field base of Point — point.go:11 -/
  point_base : TPoint → GPoint
  /-- field extra of Point — point.go:12 (none = nil) -/
  point_extra : TPoint → Option TExtra
  /-- field base of Polygon — polygon.go:9 -/
  polygon_base : TPolygon → GPoly
  /-- field extra of Polygon — polygon.go:10 (none = nil) -/
  polygon_extra : TPolygon → Option TExtra
  /-- the recursive calls of circleContains (*Circle).Contains: whoever instantiates ops ties the knot -/
  rec_circleContains : TCircle → TObject → Bool
  /-- the recursive calls of circleIntersects (*Circle).Intersects: whoever instantiates ops ties the knot -/
  rec_circleIntersects : TCircle → TObject → Bool
  /-- field base of Rect — rect.go:8 -/
  rect_base : TRect → GRect
  /-- field Point of SimplePoint — simplepoint.go:6 -/
  simplePoint_Point : TSimplePoint → GPoint
  /-- Go: `DistanceLine(line *geometry.Line) float64` of interface Spatial — spatial.go:16 -/
  spatialDistanceLine : TSpatial → GLine → F
  /-- Go: `DistancePoint(point geometry.Point) float64` of interface Spatial — spatial.go:15 -/
  spatialDistancePoint : TSpatial → GPoint → F
  /-- Go: `DistancePoly(poly *geometry.Poly) float64` of interface Spatial — spatial.go:17 -/
  spatialDistancePoly : TSpatial → GPoly → F
  /-- Go: `DistanceRect(rect geometry.Rect) float64` of interface Spatial — spatial.go:14 -/
  spatialDistanceRect : TSpatial → GRect → F
  /-- Go: `IntersectsLine(line *geometry.Line) bool` of interface Spatial — spatial.go:12 -/
  spatialIntersectsLine : TSpatial → GLine → Bool
  /-- Go: `IntersectsPoint(point geometry.Point) bool` of interface Spatial — spatial.go:11 -/
  spatialIntersectsPoint : TSpatial → GPoint → Bool
  /-- Go: `IntersectsPoly(poly *geometry.Poly) bool` of interface Spatial — spatial.go:13 -/
  spatialIntersectsPoly : TSpatial → GPoly → Bool
  /-- Go: `IntersectsRect(rect geometry.Rect) bool` of interface Spatial — spatial.go:10 -/
  spatialIntersectsRect : TSpatial → GRect → Bool
  /-- the implicit conversion of a *Feature to the interface Spatial -/
  spatialOfFeature : TFeature → TSpatial
  /-- the implicit conversion of a *LineString to the interface Spatial -/
  spatialOfLineString : TLineString → TSpatial
  /-- the implicit conversion of a *Point to the interface Spatial -/
  spatialOfPoint : TPoint → TSpatial
  /-- the implicit conversion of a *Polygon to the interface Spatial -/
  spatialOfPolygon : TPolygon → TSpatial
  /-- the implicit conversion of a *Rect to the interface Spatial -/
  spatialOfRect : TRect → TSpatial
  /-- the implicit conversion of a *SimplePoint to the interface Spatial -/
  spatialOfSimplePoint : TSimplePoint → TSpatial
  /-- Go: `WithinLine(line *geometry.Line) bool` of interface Spatial — spatial.go:8 -/
  spatialWithinLine : TSpatial → GLine → Bool
  /-- Go: `WithinPoint(point geometry.Point) bool` of interface Spatial — spatial.go:7 -/
  spatialWithinPoint : TSpatial → GPoint → Bool
  /-- Go: `WithinPoly(poly *geometry.Poly) bool` of interface Spatial — spatial.go:9 -/
  spatialWithinPoly : TSpatial → GPoly → Bool
  /-- Go: `WithinRect(rect geometry.Rect) bool` of interface Spatial — spatial.go:6 -/
  spatialWithinRect : TSpatial → GRect → Bool

variable {F GLine GPoint GPoly GRect GSeries TCircle TCollection TCollectionI TExtra TFeature TFeatureCollection TGeometryCollection TLineString TMultiLineString TMultiPoint TMultiPolygon TObject TPoint TPolygon TRect TSimplePoint TSpatial : Type}

/-- Go: `func (g *Point) ForEach(iter func(geom Object) bool) bool` — point.go:26 -/
def pointForEach {σ : Type} (ops : Ops F GLine GPoint GPoly GRect GSeries TCircle TCollection TCollectionI TExtra TFeature TFeatureCollection TGeometryCollection TLineString TMultiLineString TMultiPoint TMultiPolygon TObject TPoint TPolygon TRect TSimplePoint TSpatial) (g : TPoint) (iter : TObject → σ → σ × Bool) (it' : σ) : σ × Bool :=
  iter (ops.objOfPoint g) it'

/-- Go: `func (g *Point) Empty() bool` — point.go:30 -/
def pointEmpty (ops : Ops F GLine GPoint GPoly GRect GSeries TCircle TCollection TCollectionI TExtra TFeature TFeatureCollection TGeometryCollection TLineString TMultiLineString TMultiPoint TMultiPolygon TObject TPoint TPolygon TRect TSimplePoint TSpatial) (g : TPoint) : Bool :=
  ops.gPointEmpty (ops.point_base g)

/-- Go: `func (g *Point) Valid() bool` — point.go:34 -/
def pointValid (ops : Ops F GLine GPoint GPoly GRect GSeries TCircle TCollection TCollectionI TExtra TFeature TFeatureCollection TGeometryCollection TLineString TMultiLineString TMultiPoint TMultiPolygon TObject TPoint TPolygon TRect TSimplePoint TSpatial) (g : TPoint) : Bool :=
  ops.gPointValid (ops.point_base g)

/-- Go: `func (g *Point) Rect() geometry.Rect` — point.go:38 -/
def pointRect (ops : Ops F GLine GPoint GPoly GRect GSeries TCircle TCollection TCollectionI TExtra TFeature TFeatureCollection TGeometryCollection TLineString TMultiLineString TMultiPoint TMultiPolygon TObject TPoint TPolygon TRect TSimplePoint TSpatial) (g : TPoint) : GRect :=
  ops.gPointRect (ops.point_base g)

/-- Go: `func (g *Point) Spatial() Spatial` — point.go:42 -/
def pointSpatial (ops : Ops F GLine GPoint GPoly GRect GSeries TCircle TCollection TCollectionI TExtra TFeature TFeatureCollection TGeometryCollection TLineString TMultiLineString TMultiPoint TMultiPolygon TObject TPoint TPolygon TRect TSimplePoint TSpatial) (g : TPoint) : TSpatial :=
  ops.spatialOfPoint g

/-- Go: `func (g *Point) Center() geometry.Point` — point.go:46 -/
def pointCenter (ops : Ops F GLine GPoint GPoly GRect GSeries TCircle TCollection TCollectionI TExtra TFeature TFeatureCollection TGeometryCollection TLineString TMultiLineString TMultiPoint TMultiPolygon TObject TPoint TPolygon TRect TSimplePoint TSpatial) (g : TPoint) : GPoint :=
  ops.point_base g

/-- Go: `func (g *Point) Base() geometry.Point` — point.go:50 -/
def pointBase (ops : Ops F GLine GPoint GPoly GRect GSeries TCircle TCollection TCollectionI TExtra TFeature TFeatureCollection TGeometryCollection TLineString TMultiLineString TMultiPoint TMultiPolygon TObject TPoint TPolygon TRect TSimplePoint TSpatial) (g : TPoint) : GPoint :=
  ops.point_base g

/-- Go: `func (g *Point) Within(obj Object) bool` — point.go:74 -/
def pointWithin (ops : Ops F GLine GPoint GPoly GRect GSeries TCircle TCollection TCollectionI TExtra TFeature TFeatureCollection TGeometryCollection TLineString TMultiLineString TMultiPoint TMultiPolygon TObject TPoint TPolygon TRect TSimplePoint TSpatial) (g : TPoint) (obj : TObject) : Bool :=
  ops.objContains obj (ops.objOfPoint g)

/-- Go: `func (g *Point) Contains(obj Object) bool` — point.go:78 -/
def pointContains (ops : Ops F GLine GPoint GPoly GRect GSeries TCircle TCollection TCollectionI TExtra TFeature TFeatureCollection TGeometryCollection TLineString TMultiLineString TMultiPoint TMultiPolygon TObject TPoint TPolygon TRect TSimplePoint TSpatial) (g : TPoint) (obj : TObject) : Bool :=
  ops.spatialWithinPoint (ops.objSpatial obj) (ops.point_base g)

/-- Go: `func (g *Circle) containsPoint(p geometry.Point) bool` — circle.go:84 -/
def circleContainsPoint (ops : Ops F GLine GPoint GPoly GRect GSeries TCircle TCollection TCollectionI TExtra TFeature TFeatureCollection TGeometryCollection TLineString TMultiLineString TMultiPoint TMultiPolygon TObject TPoint TPolygon TRect TSimplePoint TSpatial) (g : TCircle) (p : GPoint) : Bool :=
  let h : F := ops.fn_geo_Haversine (ops.gPoint_Y p) (ops.gPoint_X p) (ops.gPoint_Y (ops.circle_center g)) (ops.gPoint_X (ops.circle_center g))
  ops.fLe h (ops.circle_haversine g)

/-- Go: `func (g *SimplePoint) Center() geometry.Point` — simplepoint.go:34 -/
def simplePointCenter (ops : Ops F GLine GPoint GPoly GRect GSeries TCircle TCollection TCollectionI TExtra TFeature TFeatureCollection TGeometryCollection TLineString TMultiLineString TMultiPoint TMultiPolygon TObject TPoint TPolygon TRect TSimplePoint TSpatial) (g : TSimplePoint) : GPoint :=
  ops.simplePoint_Point g

/-- Go: `func (g *Circle) getObject() Object` — circle.go:169 -/
def circleGetObject (ops : Ops F GLine GPoint GPoly GRect GSeries TCircle TCollection TCollectionI TExtra TFeature TFeatureCollection TGeometryCollection TLineString TMultiLineString TMultiPoint TMultiPolygon TObject TPoint TPolygon TRect TSimplePoint TSpatial) (g : TCircle) : TObject :=
  (match ops.circle_object g with
  | some object' =>
    object'
  | none =>
    ops.fn_makeCircleObject (ops.circle_center g) (ops.circle_meters g) (ops.circle_steps g))

/-- Go: `func (g *Circle) Distance(other Object) float64` — circle.go:152 -/
def circleDistance (ops : Ops F GLine GPoint GPoly GRect GSeries TCircle TCollection TCollectionI TExtra TFeature TFeatureCollection TGeometryCollection TLineString TMultiLineString TMultiPoint TMultiPolygon TObject TPoint TPolygon TRect TSimplePoint TSpatial) (g : TCircle) (other : TObject) : F :=
  ops.objDistance (circleGetObject ops g) other

/-- Go: `func (g *Circle) Contains(obj Object) bool` — circle.go:90 -/
def circleContains (ops : Ops F GLine GPoint GPoly GRect GSeries TCircle TCollection TCollectionI TExtra TFeature TFeatureCollection TGeometryCollection TLineString TMultiLineString TMultiPoint TMultiPolygon TObject TPoint TPolygon TRect TSimplePoint TSpatial) (g : TCircle) (obj : TObject) : Bool :=
  (match ops.objAsPoint obj with
  | some other =>
    circleContainsPoint ops g (pointCenter ops other)
  | none =>
    (match ops.objAsSimplePoint obj with
    | some other_1 =>
      circleContainsPoint ops g (simplePointCenter ops other_1)
    | none =>
      (match ops.objAsCircle obj with
      | some other_2 =>
        ops.fLe (ops.fAdd (circleDistance ops other_2 (ops.objOfCircle g)) (ops.circle_meters other_2)) (ops.circle_meters g)
      | none =>
        (match ops.objAsCollectionI obj with
        | some other_3 =>
          (match forRange (σ := Unit) (ρ := Bool) (fun (p : TObject) (st' : Unit) =>
              if !(ops.rec_circleContains g p) then
                Flow.ret false
              else
                Flow.next ()) (ops.collectionIChildren other_3) () with
          | Exit.ret r' => r'
          | Exit.done st' =>
            true)
        | none =>
          let other_4 : TObject := obj
          ops.objContains (circleGetObject ops g) other_4))))

/-- Go: `func (g *Point) Intersects(obj Object) bool` — point.go:82 -/
def pointIntersects (ops : Ops F GLine GPoint GPoly GRect GSeries TCircle TCollection TCollectionI TExtra TFeature TFeatureCollection TGeometryCollection TLineString TMultiLineString TMultiPoint TMultiPolygon TObject TPoint TPolygon TRect TSimplePoint TSpatial) (g : TPoint) (obj : TObject) : Bool :=
  (match ops.objAsCircle obj with
  | some obj_1 =>
    circleContains ops obj_1 (ops.objOfPoint g)
  | none =>
    ops.spatialIntersectsPoint (ops.objSpatial obj) (ops.point_base g))

/-- Go: `func (g *Point) WithinRect(rect geometry.Rect) bool` — point.go:89 -/
def pointWithinRect (ops : Ops F GLine GPoint GPoly GRect GSeries TCircle TCollection TCollectionI TExtra TFeature TFeatureCollection TGeometryCollection TLineString TMultiLineString TMultiPoint TMultiPolygon TObject TPoint TPolygon TRect TSimplePoint TSpatial) (g : TPoint) (rect : GRect) : Bool :=
  ops.gRectContainsPoint rect (ops.point_base g)

/-- Go: `func (g *Point) WithinPoint(point geometry.Point) bool` — point.go:93 -/
def pointWithinPoint (ops : Ops F GLine GPoint GPoly GRect GSeries TCircle TCollection TCollectionI TExtra TFeature TFeatureCollection TGeometryCollection TLineString TMultiLineString TMultiPoint TMultiPolygon TObject TPoint TPolygon TRect TSimplePoint TSpatial) (g : TPoint) (point : GPoint) : Bool :=
  ops.gPointContainsPoint point (ops.point_base g)

/-- Go: `func (g *Point) WithinLine(line *geometry.Line) bool` — point.go:97 -/
def pointWithinLine (ops : Ops F GLine GPoint GPoly GRect GSeries TCircle TCollection TCollectionI TExtra TFeature TFeatureCollection TGeometryCollection TLineString TMultiLineString TMultiPoint TMultiPolygon TObject TPoint TPolygon TRect TSimplePoint TSpatial) (g : TPoint) (line : GLine) : Bool :=
  ops.gLineContainsPoint line (ops.point_base g)

/-- Go: `func (g *Point) WithinPoly(poly *geometry.Poly) bool` — point.go:101 -/
def pointWithinPoly (ops : Ops F GLine GPoint GPoly GRect GSeries TCircle TCollection TCollectionI TExtra TFeature TFeatureCollection TGeometryCollection TLineString TMultiLineString TMultiPoint TMultiPolygon TObject TPoint TPolygon TRect TSimplePoint TSpatial) (g : TPoint) (poly : GPoly) : Bool :=
  ops.gPolyContainsPoint poly (ops.point_base g)

/-- Go: `func (g *Point) IntersectsPoint(point geometry.Point) bool` — point.go:105 -/
def pointIntersectsPoint (ops : Ops F GLine GPoint GPoly GRect GSeries TCircle TCollection TCollectionI TExtra TFeature TFeatureCollection TGeometryCollection TLineString TMultiLineString TMultiPoint TMultiPolygon TObject TPoint TPolygon TRect TSimplePoint TSpatial) (g : TPoint) (point : GPoint) : Bool :=
  ops.gPointIntersectsPoint (ops.point_base g) point

/-- Go: `func (g *Point) IntersectsRect(rect geometry.Rect) bool` — point.go:109 -/
def pointIntersectsRect (ops : Ops F GLine GPoint GPoly GRect GSeries TCircle TCollection TCollectionI TExtra TFeature TFeatureCollection TGeometryCollection TLineString TMultiLineString TMultiPoint TMultiPolygon TObject TPoint TPolygon TRect TSimplePoint TSpatial) (g : TPoint) (rect : GRect) : Bool :=
  ops.gPointIntersectsRect (ops.point_base g) rect

/-- Go: `func (g *Point) IntersectsLine(line *geometry.Line) bool` — point.go:113 -/
def pointIntersectsLine (ops : Ops F GLine GPoint GPoly GRect GSeries TCircle TCollection TCollectionI TExtra TFeature TFeatureCollection TGeometryCollection TLineString TMultiLineString TMultiPoint TMultiPolygon TObject TPoint TPolygon TRect TSimplePoint TSpatial) (g : TPoint) (line : GLine) : Bool :=
  ops.gPointIntersectsLine (ops.point_base g) line

/-- Go: `func (g *Point) IntersectsPoly(poly *geometry.Poly) bool` — point.go:117 -/
def pointIntersectsPoly (ops : Ops F GLine GPoint GPoly GRect GSeries TCircle TCollection TCollectionI TExtra TFeature TFeatureCollection TGeometryCollection TLineString TMultiLineString TMultiPoint TMultiPolygon TObject TPoint TPolygon TRect TSimplePoint TSpatial) (g : TPoint) (poly : GPoly) : Bool :=
  ops.gPointIntersectsPoly (ops.point_base g) poly

/-- Go: `func (g *Point) NumPoints() int` — point.go:121 -/
def pointNumPoints (ops : Ops F GLine GPoint GPoly GRect GSeries TCircle TCollection TCollectionI TExtra TFeature TFeatureCollection TGeometryCollection TLineString TMultiLineString TMultiPoint TMultiPolygon TObject TPoint TPolygon TRect TSimplePoint TSpatial) (g : TPoint) : Int :=
  1

/-- Go: `func (g *Point) Z() float64` — point.go:125
    NOT TRANSLATED: expression *ast.IndexExpr is outside the subset (point.go:127) -/
opaque pointZ_unrecognised : Unit

/-- Go: `func (g *Point) Distance(obj Object) float64` — point.go:216 -/
def pointDistance (ops : Ops F GLine GPoint GPoly GRect GSeries TCircle TCollection TCollectionI TExtra TFeature TFeatureCollection TGeometryCollection TLineString TMultiLineString TMultiPoint TMultiPolygon TObject TPoint TPolygon TRect TSimplePoint TSpatial) (g : TPoint) (obj : TObject) : F :=
  ops.spatialDistancePoint (ops.objSpatial obj) (ops.point_base g)

/-- Go: `func (g *Point) DistancePoint(point geometry.Point) float64` — point.go:220 -/
def pointDistancePoint (ops : Ops F GLine GPoint GPoly GRect GSeries TCircle TCollection TCollectionI TExtra TFeature TFeatureCollection TGeometryCollection TLineString TMultiLineString TMultiPoint TMultiPolygon TObject TPoint TPolygon TRect TSimplePoint TSpatial) (g : TPoint) (point : GPoint) : F :=
  ops.fn_geoDistancePoints (pointCenter ops g) point

/-- Go: `func (g *Point) DistanceRect(rect geometry.Rect) float64` — point.go:224 -/
def pointDistanceRect (ops : Ops F GLine GPoint GPoly GRect GSeries TCircle TCollection TCollectionI TExtra TFeature TFeatureCollection TGeometryCollection TLineString TMultiLineString TMultiPoint TMultiPolygon TObject TPoint TPolygon TRect TSimplePoint TSpatial) (g : TPoint) (rect : GRect) : F :=
  ops.fn_geoDistancePoints (pointCenter ops g) (ops.gRectCenter rect)

/-- Go: `func (g *Point) DistanceLine(line *geometry.Line) float64` — point.go:228 -/
def pointDistanceLine (ops : Ops F GLine GPoint GPoly GRect GSeries TCircle TCollection TCollectionI TExtra TFeature TFeatureCollection TGeometryCollection TLineString TMultiLineString TMultiPoint TMultiPolygon TObject TPoint TPolygon TRect TSimplePoint TSpatial) (g : TPoint) (line : GLine) : F :=
  ops.fn_geoDistancePoints (pointCenter ops g) (ops.gRectCenter (ops.gLineRect line))

/-- Go: `func (g *Point) DistancePoly(poly *geometry.Poly) float64` — point.go:232 -/
def pointDistancePoly (ops : Ops F GLine GPoint GPoly GRect GSeries TCircle TCollection TCollectionI TExtra TFeature TFeatureCollection TGeometryCollection TLineString TMultiLineString TMultiPoint TMultiPolygon TObject TPoint TPolygon TRect TSimplePoint TSpatial) (g : TPoint) (poly : GPoly) : F :=
  ops.fn_geoDistancePoints (pointCenter ops g) (ops.gRectCenter (ops.gPolyRect poly))

/-- Go: `func (g *Point) IsSimple() bool` — point.go:237 -/
def pointIsSimple (ops : Ops F GLine GPoint GPoly GRect GSeries TCircle TCollection TCollectionI TExtra TFeature TFeatureCollection TGeometryCollection TLineString TMultiLineString TMultiPoint TMultiPolygon TObject TPoint TPolygon TRect TSimplePoint TSpatial) (g : TPoint) : Bool :=
  Option.isNone (ops.point_extra g)

/-- Go: `func (g *Point) Members() string` — point.go:252 -/
def pointMembers (ops : Ops F GLine GPoint GPoly GRect GSeries TCircle TCollection TCollectionI TExtra TFeature TFeatureCollection TGeometryCollection TLineString TMultiLineString TMultiPoint TMultiPolygon TObject TPoint TPolygon TRect TSimplePoint TSpatial) (g : TPoint) : String :=
  (match ops.point_extra g with
  | some extra' =>
    ops.extra_members extra'
  | none =>
    "")

/-- Go: `func (g *SimplePoint) ForEach(iter func(geom Object) bool) bool` — simplepoint.go:14 -/
def simplePointForEach {σ : Type} (ops : Ops F GLine GPoint GPoly GRect GSeries TCircle TCollection TCollectionI TExtra TFeature TFeatureCollection TGeometryCollection TLineString TMultiLineString TMultiPoint TMultiPolygon TObject TPoint TPolygon TRect TSimplePoint TSpatial) (g : TSimplePoint) (iter : TObject → σ → σ × Bool) (it' : σ) : σ × Bool :=
  iter (ops.objOfSimplePoint g) it'

/-- Go: `func (g *SimplePoint) Empty() bool` — simplepoint.go:18 -/
def simplePointEmpty (ops : Ops F GLine GPoint GPoly GRect GSeries TCircle TCollection TCollectionI TExtra TFeature TFeatureCollection TGeometryCollection TLineString TMultiLineString TMultiPoint TMultiPolygon TObject TPoint TPolygon TRect TSimplePoint TSpatial) (g : TSimplePoint) : Bool :=
  ops.gPointEmpty (ops.simplePoint_Point g)

/-- Go: `func (g *SimplePoint) Valid() bool` — simplepoint.go:22 -/
def simplePointValid (ops : Ops F GLine GPoint GPoly GRect GSeries TCircle TCollection TCollectionI TExtra TFeature TFeatureCollection TGeometryCollection TLineString TMultiLineString TMultiPoint TMultiPolygon TObject TPoint TPolygon TRect TSimplePoint TSpatial) (g : TSimplePoint) : Bool :=
  ops.gPointValid (ops.simplePoint_Point g)

/-- Go: `func (g *SimplePoint) Rect() geometry.Rect` — simplepoint.go:26 -/
def simplePointRect (ops : Ops F GLine GPoint GPoly GRect GSeries TCircle TCollection TCollectionI TExtra TFeature TFeatureCollection TGeometryCollection TLineString TMultiLineString TMultiPoint TMultiPolygon TObject TPoint TPolygon TRect TSimplePoint TSpatial) (g : TSimplePoint) : GRect :=
  ops.gPointRect (ops.simplePoint_Point g)

/-- Go: `func (g *SimplePoint) Spatial() Spatial` — simplepoint.go:30 -/
def simplePointSpatial (ops : Ops F GLine GPoint GPoly GRect GSeries TCircle TCollection TCollectionI TExtra TFeature TFeatureCollection TGeometryCollection TLineString TMultiLineString TMultiPoint TMultiPolygon TObject TPoint TPolygon TRect TSimplePoint TSpatial) (g : TSimplePoint) : TSpatial :=
  ops.spatialOfSimplePoint g

/-- Go: `func (g *SimplePoint) Base() geometry.Point` — simplepoint.go:38 -/
def simplePointBase (ops : Ops F GLine GPoint GPoly GRect GSeries TCircle TCollection TCollectionI TExtra TFeature TFeatureCollection TGeometryCollection TLineString TMultiLineString TMultiPoint TMultiPolygon TObject TPoint TPolygon TRect TSimplePoint TSpatial) (g : TSimplePoint) : GPoint :=
  ops.simplePoint_Point g

/-- Go: `func (g *SimplePoint) Within(obj Object) bool` — simplepoint.go:61 -/
def simplePointWithin (ops : Ops F GLine GPoint GPoly GRect GSeries TCircle TCollection TCollectionI TExtra TFeature TFeatureCollection TGeometryCollection TLineString TMultiLineString TMultiPoint TMultiPolygon TObject TPoint TPolygon TRect TSimplePoint TSpatial) (g : TSimplePoint) (obj : TObject) : Bool :=
  ops.objContains obj (ops.objOfSimplePoint g)

/-- Go: `func (g *SimplePoint) Contains(obj Object) bool` — simplepoint.go:65 -/
def simplePointContains (ops : Ops F GLine GPoint GPoly GRect GSeries TCircle TCollection TCollectionI TExtra TFeature TFeatureCollection TGeometryCollection TLineString TMultiLineString TMultiPoint TMultiPolygon TObject TPoint TPolygon TRect TSimplePoint TSpatial) (g : TSimplePoint) (obj : TObject) : Bool :=
  ops.spatialWithinPoint (ops.objSpatial obj) (ops.simplePoint_Point g)

/-- Go: `func (g *SimplePoint) Intersects(obj Object) bool` — simplepoint.go:69 -/
def simplePointIntersects (ops : Ops F GLine GPoint GPoly GRect GSeries TCircle TCollection TCollectionI TExtra TFeature TFeatureCollection TGeometryCollection TLineString TMultiLineString TMultiPoint TMultiPolygon TObject TPoint TPolygon TRect TSimplePoint TSpatial) (g : TSimplePoint) (obj : TObject) : Bool :=
  (match ops.objAsCircle obj with
  | some obj_1 =>
    circleContains ops obj_1 (ops.objOfSimplePoint g)
  | none =>
    ops.spatialIntersectsPoint (ops.objSpatial obj) (ops.simplePoint_Point g))

/-- Go: `func (g *SimplePoint) WithinRect(rect geometry.Rect) bool` — simplepoint.go:76 -/
def simplePointWithinRect (ops : Ops F GLine GPoint GPoly GRect GSeries TCircle TCollection TCollectionI TExtra TFeature TFeatureCollection TGeometryCollection TLineString TMultiLineString TMultiPoint TMultiPolygon TObject TPoint TPolygon TRect TSimplePoint TSpatial) (g : TSimplePoint) (rect : GRect) : Bool :=
  ops.gRectContainsPoint rect (ops.simplePoint_Point g)

/-- Go: `func (g *SimplePoint) WithinPoint(point geometry.Point) bool` — simplepoint.go:80 -/
def simplePointWithinPoint (ops : Ops F GLine GPoint GPoly GRect GSeries TCircle TCollection TCollectionI TExtra TFeature TFeatureCollection TGeometryCollection TLineString TMultiLineString TMultiPoint TMultiPolygon TObject TPoint TPolygon TRect TSimplePoint TSpatial) (g : TSimplePoint) (point : GPoint) : Bool :=
  ops.gPointContainsPoint point (ops.simplePoint_Point g)

/-- Go: `func (g *SimplePoint) WithinLine(line *geometry.Line) bool` — simplepoint.go:84 -/
def simplePointWithinLine (ops : Ops F GLine GPoint GPoly GRect GSeries TCircle TCollection TCollectionI TExtra TFeature TFeatureCollection TGeometryCollection TLineString TMultiLineString TMultiPoint TMultiPolygon TObject TPoint TPolygon TRect TSimplePoint TSpatial) (g : TSimplePoint) (line : GLine) : Bool :=
  ops.gLineContainsPoint line (ops.simplePoint_Point g)

/-- Go: `func (g *SimplePoint) WithinPoly(poly *geometry.Poly) bool` — simplepoint.go:88 -/
def simplePointWithinPoly (ops : Ops F GLine GPoint GPoly GRect GSeries TCircle TCollection TCollectionI TExtra TFeature TFeatureCollection TGeometryCollection TLineString TMultiLineString TMultiPoint TMultiPolygon TObject TPoint TPolygon TRect TSimplePoint TSpatial) (g : TSimplePoint) (poly : GPoly) : Bool :=
  ops.gPolyContainsPoint poly (ops.simplePoint_Point g)

/-- Go: `func (g *SimplePoint) IntersectsPoint(point geometry.Point) bool` — simplepoint.go:92 -/
def simplePointIntersectsPoint (ops : Ops F GLine GPoint GPoly GRect GSeries TCircle TCollection TCollectionI TExtra TFeature TFeatureCollection TGeometryCollection TLineString TMultiLineString TMultiPoint TMultiPolygon TObject TPoint TPolygon TRect TSimplePoint TSpatial) (g : TSimplePoint) (point : GPoint) : Bool :=
  ops.gPointIntersectsPoint (ops.simplePoint_Point g) point

/-- Go: `func (g *SimplePoint) IntersectsRect(rect geometry.Rect) bool` — simplepoint.go:96 -/
def simplePointIntersectsRect (ops : Ops F GLine GPoint GPoly GRect GSeries TCircle TCollection TCollectionI TExtra TFeature TFeatureCollection TGeometryCollection TLineString TMultiLineString TMultiPoint TMultiPolygon TObject TPoint TPolygon TRect TSimplePoint TSpatial) (g : TSimplePoint) (rect : GRect) : Bool :=
  ops.gPointIntersectsRect (ops.simplePoint_Point g) rect

/-- Go: `func (g *SimplePoint) IntersectsLine(line *geometry.Line) bool` — simplepoint.go:100 -/
def simplePointIntersectsLine (ops : Ops F GLine GPoint GPoly GRect GSeries TCircle TCollection TCollectionI TExtra TFeature TFeatureCollection TGeometryCollection TLineString TMultiLineString TMultiPoint TMultiPolygon TObject TPoint TPolygon TRect TSimplePoint TSpatial) (g : TSimplePoint) (line : GLine) : Bool :=
  ops.gPointIntersectsLine (ops.simplePoint_Point g) line

/-- Go: `func (g *SimplePoint) IntersectsPoly(poly *geometry.Poly) bool` — simplepoint.go:104 -/
def simplePointIntersectsPoly (ops : Ops F GLine GPoint GPoly GRect GSeries TCircle TCollection TCollectionI TExtra TFeature TFeatureCollection TGeometryCollection TLineString TMultiLineString TMultiPoint TMultiPolygon TObject TPoint TPolygon TRect TSimplePoint TSpatial) (g : TSimplePoint) (poly : GPoly) : Bool :=
  ops.gPointIntersectsPoly (ops.simplePoint_Point g) poly

/-- Go: `func (g *SimplePoint) NumPoints() int` — simplepoint.go:108 -/
def simplePointNumPoints (ops : Ops F GLine GPoint GPoly GRect GSeries TCircle TCollection TCollectionI TExtra TFeature TFeatureCollection TGeometryCollection TLineString TMultiLineString TMultiPoint TMultiPolygon TObject TPoint TPolygon TRect TSimplePoint TSpatial) (g : TSimplePoint) : Int :=
  1

/-- Go: `func (g *SimplePoint) Distance(obj Object) float64` — simplepoint.go:112 -/
def simplePointDistance (ops : Ops F GLine GPoint GPoly GRect GSeries TCircle TCollection TCollectionI TExtra TFeature TFeatureCollection TGeometryCollection TLineString TMultiLineString TMultiPoint TMultiPolygon TObject TPoint TPolygon TRect TSimplePoint TSpatial) (g : TSimplePoint) (obj : TObject) : F :=
  ops.spatialDistancePoint (ops.objSpatial obj) (ops.simplePoint_Point g)

/-- Go: `func (g *SimplePoint) DistancePoint(point geometry.Point) float64` — simplepoint.go:116 -/
def simplePointDistancePoint (ops : Ops F GLine GPoint GPoly GRect GSeries TCircle TCollection TCollectionI TExtra TFeature TFeatureCollection TGeometryCollection TLineString TMultiLineString TMultiPoint TMultiPolygon TObject TPoint TPolygon TRect TSimplePoint TSpatial) (g : TSimplePoint) (point : GPoint) : F :=
  ops.fn_geoDistancePoints (simplePointCenter ops g) point

/-- Go: `func (g *SimplePoint) DistanceRect(rect geometry.Rect) float64` — simplepoint.go:120 -/
def simplePointDistanceRect (ops : Ops F GLine GPoint GPoly GRect GSeries TCircle TCollection TCollectionI TExtra TFeature TFeatureCollection TGeometryCollection TLineString TMultiLineString TMultiPoint TMultiPolygon TObject TPoint TPolygon TRect TSimplePoint TSpatial) (g : TSimplePoint) (rect : GRect) : F :=
  ops.fn_geoDistancePoints (simplePointCenter ops g) (ops.gRectCenter rect)

/-- Go: `func (g *SimplePoint) DistanceLine(line *geometry.Line) float64` — simplepoint.go:124 -/
def simplePointDistanceLine (ops : Ops F GLine GPoint GPoly GRect GSeries TCircle TCollection TCollectionI TExtra TFeature TFeatureCollection TGeometryCollection TLineString TMultiLineString TMultiPoint TMultiPolygon TObject TPoint TPolygon TRect TSimplePoint TSpatial) (g : TSimplePoint) (line : GLine) : F :=
  ops.fn_geoDistancePoints (simplePointCenter ops g) (ops.gRectCenter (ops.gLineRect line))

/-- Go: `func (g *SimplePoint) DistancePoly(poly *geometry.Poly) float64` — simplepoint.go:128 -/
def simplePointDistancePoly (ops : Ops F GLine GPoint GPoly GRect GSeries TCircle TCollection TCollectionI TExtra TFeature TFeatureCollection TGeometryCollection TLineString TMultiLineString TMultiPoint TMultiPolygon TObject TPoint TPolygon TRect TSimplePoint TSpatial) (g : TSimplePoint) (poly : GPoly) : F :=
  ops.fn_geoDistancePoints (simplePointCenter ops g) (ops.gRectCenter (ops.gPolyRect poly))

/-- Go: `func (g *SimplePoint) Members() string` — simplepoint.go:132 -/
def simplePointMembers (ops : Ops F GLine GPoint GPoly GRect GSeries TCircle TCollection TCollectionI TExtra TFeature TFeatureCollection TGeometryCollection TLineString TMultiLineString TMultiPoint TMultiPolygon TObject TPoint TPolygon TRect TSimplePoint TSpatial) (g : TSimplePoint) : String :=
  ""

/-- Go: `func (g *LineString) Empty() bool` — linestring.go:17 -/
def lineStringEmpty (ops : Ops F GLine GPoint GPoly GRect GSeries TCircle TCollection TCollectionI TExtra TFeature TFeatureCollection TGeometryCollection TLineString TMultiLineString TMultiPoint TMultiPolygon TObject TPoint TPolygon TRect TSimplePoint TSpatial) (g : TLineString) : Bool :=
  ops.gLineEmpty (ops.lineString_base g)

/-- Go: `func (g *LineString) Valid() bool` — linestring.go:21 -/
def lineStringValid (ops : Ops F GLine GPoint GPoly GRect GSeries TCircle TCollection TCollectionI TExtra TFeature TFeatureCollection TGeometryCollection TLineString TMultiLineString TMultiPoint TMultiPolygon TObject TPoint TPolygon TRect TSimplePoint TSpatial) (g : TLineString) : Bool :=
  ops.gLineValid (ops.lineString_base g)

/-- Go: `func (g *LineString) Rect() geometry.Rect` — linestring.go:25 -/
def lineStringRect (ops : Ops F GLine GPoint GPoly GRect GSeries TCircle TCollection TCollectionI TExtra TFeature TFeatureCollection TGeometryCollection TLineString TMultiLineString TMultiPoint TMultiPolygon TObject TPoint TPolygon TRect TSimplePoint TSpatial) (g : TLineString) : GRect :=
  ops.gLineRect (ops.lineString_base g)

/-- Go: `func (g *LineString) Center() geometry.Point` — linestring.go:29 -/
def lineStringCenter (ops : Ops F GLine GPoint GPoly GRect GSeries TCircle TCollection TCollectionI TExtra TFeature TFeatureCollection TGeometryCollection TLineString TMultiLineString TMultiPoint TMultiPolygon TObject TPoint TPolygon TRect TSimplePoint TSpatial) (g : TLineString) : GPoint :=
  ops.gRectCenter (lineStringRect ops g)

/-- Go: `func (g *LineString) Base() *geometry.Line` — linestring.go:33 -/
def lineStringBase (ops : Ops F GLine GPoint GPoly GRect GSeries TCircle TCollection TCollectionI TExtra TFeature TFeatureCollection TGeometryCollection TLineString TMultiLineString TMultiPoint TMultiPolygon TObject TPoint TPolygon TRect TSimplePoint TSpatial) (g : TLineString) : GLine :=
  ops.lineString_base g

/-- Go: `func (g *LineString) Spatial() Spatial` — linestring.go:59 -/
def lineStringSpatial (ops : Ops F GLine GPoint GPoly GRect GSeries TCircle TCollection TCollectionI TExtra TFeature TFeatureCollection TGeometryCollection TLineString TMultiLineString TMultiPoint TMultiPolygon TObject TPoint TPolygon TRect TSimplePoint TSpatial) (g : TLineString) : TSpatial :=
  ops.spatialOfLineString g

/-- Go: `func (g *LineString) ForEach(iter func(geom Object) bool) bool` — linestring.go:63 -/
def lineStringForEach {σ : Type} (ops : Ops F GLine GPoint GPoly GRect GSeries TCircle TCollection TCollectionI TExtra TFeature TFeatureCollection TGeometryCollection TLineString TMultiLineString TMultiPoint TMultiPolygon TObject TPoint TPolygon TRect TSimplePoint TSpatial) (g : TLineString) (iter : TObject → σ → σ × Bool) (it' : σ) : σ × Bool :=
  iter (ops.objOfLineString g) it'

/-- Go: `func (g *LineString) Within(obj Object) bool` — linestring.go:67 -/
def lineStringWithin (ops : Ops F GLine GPoint GPoly GRect GSeries TCircle TCollection TCollectionI TExtra TFeature TFeatureCollection TGeometryCollection TLineString TMultiLineString TMultiPoint TMultiPolygon TObject TPoint TPolygon TRect TSimplePoint TSpatial) (g : TLineString) (obj : TObject) : Bool :=
  ops.objContains obj (ops.objOfLineString g)

/-- Go: `func (g *LineString) Contains(obj Object) bool` — linestring.go:71 -/
def lineStringContains (ops : Ops F GLine GPoint GPoly GRect GSeries TCircle TCollection TCollectionI TExtra TFeature TFeatureCollection TGeometryCollection TLineString TMultiLineString TMultiPoint TMultiPolygon TObject TPoint TPolygon TRect TSimplePoint TSpatial) (g : TLineString) (obj : TObject) : Bool :=
  ops.spatialWithinLine (ops.objSpatial obj) (ops.lineString_base g)

/-- Go: `func (g *LineString) Intersects(obj Object) bool` — linestring.go:75 -/
def lineStringIntersects (ops : Ops F GLine GPoint GPoly GRect GSeries TCircle TCollection TCollectionI TExtra TFeature TFeatureCollection TGeometryCollection TLineString TMultiLineString TMultiPoint TMultiPolygon TObject TPoint TPolygon TRect TSimplePoint TSpatial) (g : TLineString) (obj : TObject) : Bool :=
  ops.spatialIntersectsLine (ops.objSpatial obj) (ops.lineString_base g)

/-- Go: `func (g *LineString) WithinRect(rect geometry.Rect) bool` — linestring.go:79 -/
def lineStringWithinRect (ops : Ops F GLine GPoint GPoly GRect GSeries TCircle TCollection TCollectionI TExtra TFeature TFeatureCollection TGeometryCollection TLineString TMultiLineString TMultiPoint TMultiPolygon TObject TPoint TPolygon TRect TSimplePoint TSpatial) (g : TLineString) (rect : GRect) : Bool :=
  ops.gRectContainsLine rect (ops.lineString_base g)

/-- Go: `func (g *LineString) WithinPoint(point geometry.Point) bool` — linestring.go:83 -/
def lineStringWithinPoint (ops : Ops F GLine GPoint GPoly GRect GSeries TCircle TCollection TCollectionI TExtra TFeature TFeatureCollection TGeometryCollection TLineString TMultiLineString TMultiPoint TMultiPolygon TObject TPoint TPolygon TRect TSimplePoint TSpatial) (g : TLineString) (point : GPoint) : Bool :=
  ops.gPointContainsLine point (ops.lineString_base g)

/-- Go: `func (g *LineString) WithinLine(line *geometry.Line) bool` — linestring.go:87 -/
def lineStringWithinLine (ops : Ops F GLine GPoint GPoly GRect GSeries TCircle TCollection TCollectionI TExtra TFeature TFeatureCollection TGeometryCollection TLineString TMultiLineString TMultiPoint TMultiPolygon TObject TPoint TPolygon TRect TSimplePoint TSpatial) (g : TLineString) (line : GLine) : Bool :=
  ops.gLineContainsLine line (ops.lineString_base g)

/-- Go: `func (g *LineString) WithinPoly(poly *geometry.Poly) bool` — linestring.go:91 -/
def lineStringWithinPoly (ops : Ops F GLine GPoint GPoly GRect GSeries TCircle TCollection TCollectionI TExtra TFeature TFeatureCollection TGeometryCollection TLineString TMultiLineString TMultiPoint TMultiPolygon TObject TPoint TPolygon TRect TSimplePoint TSpatial) (g : TLineString) (poly : GPoly) : Bool :=
  ops.gPolyContainsLine poly (ops.lineString_base g)

/-- Go: `func (g *LineString) IntersectsPoint(point geometry.Point) bool` — linestring.go:95 -/
def lineStringIntersectsPoint (ops : Ops F GLine GPoint GPoly GRect GSeries TCircle TCollection TCollectionI TExtra TFeature TFeatureCollection TGeometryCollection TLineString TMultiLineString TMultiPoint TMultiPolygon TObject TPoint TPolygon TRect TSimplePoint TSpatial) (g : TLineString) (point : GPoint) : Bool :=
  ops.gLineIntersectsPoint (ops.lineString_base g) point

/-- Go: `func (g *LineString) IntersectsRect(rect geometry.Rect) bool` — linestring.go:99 -/
def lineStringIntersectsRect (ops : Ops F GLine GPoint GPoly GRect GSeries TCircle TCollection TCollectionI TExtra TFeature TFeatureCollection TGeometryCollection TLineString TMultiLineString TMultiPoint TMultiPolygon TObject TPoint TPolygon TRect TSimplePoint TSpatial) (g : TLineString) (rect : GRect) : Bool :=
  ops.gLineIntersectsRect (ops.lineString_base g) rect

/-- Go: `func (g *LineString) IntersectsLine(line *geometry.Line) bool` — linestring.go:103 -/
def lineStringIntersectsLine (ops : Ops F GLine GPoint GPoly GRect GSeries TCircle TCollection TCollectionI TExtra TFeature TFeatureCollection TGeometryCollection TLineString TMultiLineString TMultiPoint TMultiPolygon TObject TPoint TPolygon TRect TSimplePoint TSpatial) (g : TLineString) (line : GLine) : Bool :=
  ops.gLineIntersectsLine (ops.lineString_base g) line

/-- Go: `func (g *LineString) IntersectsPoly(poly *geometry.Poly) bool` — linestring.go:107 -/
def lineStringIntersectsPoly (ops : Ops F GLine GPoint GPoly GRect GSeries TCircle TCollection TCollectionI TExtra TFeature TFeatureCollection TGeometryCollection TLineString TMultiLineString TMultiPoint TMultiPolygon TObject TPoint TPolygon TRect TSimplePoint TSpatial) (g : TLineString) (poly : GPoly) : Bool :=
  ops.gLineIntersectsPoly (ops.lineString_base g) poly

/-- Go: `func (g *LineString) NumPoints() int` — linestring.go:111 -/
def lineStringNumPoints (ops : Ops F GLine GPoint GPoly GRect GSeries TCircle TCollection TCollectionI TExtra TFeature TFeatureCollection TGeometryCollection TLineString TMultiLineString TMultiPoint TMultiPolygon TObject TPoint TPolygon TRect TSimplePoint TSpatial) (g : TLineString) : Int :=
  ops.gLineNumPoints (ops.lineString_base g)

/-- Go: `func (g *LineString) Distance(obj Object) float64` — linestring.go:212 -/
def lineStringDistance (ops : Ops F GLine GPoint GPoly GRect GSeries TCircle TCollection TCollectionI TExtra TFeature TFeatureCollection TGeometryCollection TLineString TMultiLineString TMultiPoint TMultiPolygon TObject TPoint TPolygon TRect TSimplePoint TSpatial) (g : TLineString) (obj : TObject) : F :=
  ops.spatialDistanceLine (ops.objSpatial obj) (ops.lineString_base g)

/-- Go: `func (g *LineString) DistancePoint(point geometry.Point) float64` — linestring.go:216 -/
def lineStringDistancePoint (ops : Ops F GLine GPoint GPoly GRect GSeries TCircle TCollection TCollectionI TExtra TFeature TFeatureCollection TGeometryCollection TLineString TMultiLineString TMultiPoint TMultiPolygon TObject TPoint TPolygon TRect TSimplePoint TSpatial) (g : TLineString) (point : GPoint) : F :=
  ops.fn_geoDistancePoints (lineStringCenter ops g) point

/-- Go: `func (g *LineString) DistanceRect(rect geometry.Rect) float64` — linestring.go:221 -/
def lineStringDistanceRect (ops : Ops F GLine GPoint GPoly GRect GSeries TCircle TCollection TCollectionI TExtra TFeature TFeatureCollection TGeometryCollection TLineString TMultiLineString TMultiPoint TMultiPolygon TObject TPoint TPolygon TRect TSimplePoint TSpatial) (g : TLineString) (rect : GRect) : F :=
  ops.fn_geoDistancePoints (lineStringCenter ops g) (ops.gRectCenter rect)

/-- Go: `func (g *LineString) DistanceLine(line *geometry.Line) float64` — linestring.go:225 -/
def lineStringDistanceLine (ops : Ops F GLine GPoint GPoly GRect GSeries TCircle TCollection TCollectionI TExtra TFeature TFeatureCollection TGeometryCollection TLineString TMultiLineString TMultiPoint TMultiPolygon TObject TPoint TPolygon TRect TSimplePoint TSpatial) (g : TLineString) (line : GLine) : F :=
  ops.fn_geoDistancePoints (lineStringCenter ops g) (ops.gRectCenter (ops.gLineRect line))

/-- Go: `func (g *LineString) DistancePoly(poly *geometry.Poly) float64` — linestring.go:229 -/
def lineStringDistancePoly (ops : Ops F GLine GPoint GPoly GRect GSeries TCircle TCollection TCollectionI TExtra TFeature TFeatureCollection TGeometryCollection TLineString TMultiLineString TMultiPoint TMultiPolygon TObject TPoint TPolygon TRect TSimplePoint TSpatial) (g : TLineString) (poly : GPoly) : F :=
  ops.fn_geoDistancePoints (lineStringCenter ops g) (ops.gRectCenter (ops.gPolyRect poly))

/-- Go: `func (g *LineString) Members() string` — linestring.go:233 -/
def lineStringMembers (ops : Ops F GLine GPoint GPoly GRect GSeries TCircle TCollection TCollectionI TExtra TFeature TFeatureCollection TGeometryCollection TLineString TMultiLineString TMultiPoint TMultiPolygon TObject TPoint TPolygon TRect TSimplePoint TSpatial) (g : TLineString) : String :=
  (match ops.lineString_extra g with
  | some extra' =>
    ops.extra_members extra'
  | none =>
    "")

/-- Go: `func (g *Polygon) Empty() bool` — polygon.go:21 -/
def polygonEmpty (ops : Ops F GLine GPoint GPoly GRect GSeries TCircle TCollection TCollectionI TExtra TFeature TFeatureCollection TGeometryCollection TLineString TMultiLineString TMultiPoint TMultiPolygon TObject TPoint TPolygon TRect TSimplePoint TSpatial) (g : TPolygon) : Bool :=
  ops.gPolyEmpty (ops.polygon_base g)

/-- Go: `func (g *Polygon) Valid() bool` — polygon.go:25 -/
def polygonValid (ops : Ops F GLine GPoint GPoly GRect GSeries TCircle TCollection TCollectionI TExtra TFeature TFeatureCollection TGeometryCollection TLineString TMultiLineString TMultiPoint TMultiPolygon TObject TPoint TPolygon TRect TSimplePoint TSpatial) (g : TPolygon) : Bool :=
  ops.gPolyValid (ops.polygon_base g)

/-- Go: `func (g *Polygon) Rect() geometry.Rect` — polygon.go:29 -/
def polygonRect (ops : Ops F GLine GPoint GPoly GRect GSeries TCircle TCollection TCollectionI TExtra TFeature TFeatureCollection TGeometryCollection TLineString TMultiLineString TMultiPoint TMultiPolygon TObject TPoint TPolygon TRect TSimplePoint TSpatial) (g : TPolygon) : GRect :=
  ops.gPolyRect (ops.polygon_base g)

/-- Go: `func (g *Polygon) Center() geometry.Point` — polygon.go:33 -/
def polygonCenter (ops : Ops F GLine GPoint GPoly GRect GSeries TCircle TCollection TCollectionI TExtra TFeature TFeatureCollection TGeometryCollection TLineString TMultiLineString TMultiPoint TMultiPolygon TObject TPoint TPolygon TRect TSimplePoint TSpatial) (g : TPolygon) : GPoint :=
  ops.gRectCenter (polygonRect ops g)

/-- Go: `func (g *Polygon) Base() *geometry.Poly` — polygon.go:37 -/
def polygonBase (ops : Ops F GLine GPoint GPoly GRect GSeries TCircle TCollection TCollectionI TExtra TFeature TFeatureCollection TGeometryCollection TLineString TMultiLineString TMultiPoint TMultiPolygon TObject TPoint TPolygon TRect TSimplePoint TSpatial) (g : TPolygon) : GPoly :=
  ops.polygon_base g

/-- Go: `func (g *Polygon) Spatial() Spatial` — polygon.go:71 -/
def polygonSpatial (ops : Ops F GLine GPoint GPoly GRect GSeries TCircle TCollection TCollectionI TExtra TFeature TFeatureCollection TGeometryCollection TLineString TMultiLineString TMultiPoint TMultiPolygon TObject TPoint TPolygon TRect TSimplePoint TSpatial) (g : TPolygon) : TSpatial :=
  ops.spatialOfPolygon g

/-- Go: `func (g *Polygon) ForEach(iter func(geom Object) bool) bool` — polygon.go:75 -/
def polygonForEach {σ : Type} (ops : Ops F GLine GPoint GPoly GRect GSeries TCircle TCollection TCollectionI TExtra TFeature TFeatureCollection TGeometryCollection TLineString TMultiLineString TMultiPoint TMultiPolygon TObject TPoint TPolygon TRect TSimplePoint TSpatial) (g : TPolygon) (iter : TObject → σ → σ × Bool) (it' : σ) : σ × Bool :=
  iter (ops.objOfPolygon g) it'

/-- Go: `func (g *Polygon) Within(obj Object) bool` — polygon.go:79 -/
def polygonWithin (ops : Ops F GLine GPoint GPoly GRect GSeries TCircle TCollection TCollectionI TExtra TFeature TFeatureCollection TGeometryCollection TLineString TMultiLineString TMultiPoint TMultiPolygon TObject TPoint TPolygon TRect TSimplePoint TSpatial) (g : TPolygon) (obj : TObject) : Bool :=
  ops.objContains obj (ops.objOfPolygon g)

/-- Go: `func (g *Polygon) Contains(obj Object) bool` — polygon.go:83 -/
def polygonContains (ops : Ops F GLine GPoint GPoly GRect GSeries TCircle TCollection TCollectionI TExtra TFeature TFeatureCollection TGeometryCollection TLineString TMultiLineString TMultiPoint TMultiPolygon TObject TPoint TPolygon TRect TSimplePoint TSpatial) (g : TPolygon) (obj : TObject) : Bool :=
  ops.spatialWithinPoly (ops.objSpatial obj) (ops.polygon_base g)

/-- Go: `func (g *Polygon) WithinRect(rect geometry.Rect) bool` — polygon.go:87 -/
def polygonWithinRect (ops : Ops F GLine GPoint GPoly GRect GSeries TCircle TCollection TCollectionI TExtra TFeature TFeatureCollection TGeometryCollection TLineString TMultiLineString TMultiPoint TMultiPolygon TObject TPoint TPolygon TRect TSimplePoint TSpatial) (g : TPolygon) (rect : GRect) : Bool :=
  ops.gRectContainsPoly rect (ops.polygon_base g)

/-- Go: `func (g *Polygon) WithinPoint(point geometry.Point) bool` — polygon.go:91 -/
def polygonWithinPoint (ops : Ops F GLine GPoint GPoly GRect GSeries TCircle TCollection TCollectionI TExtra TFeature TFeatureCollection TGeometryCollection TLineString TMultiLineString TMultiPoint TMultiPolygon TObject TPoint TPolygon TRect TSimplePoint TSpatial) (g : TPolygon) (point : GPoint) : Bool :=
  ops.gPointContainsPoly point (ops.polygon_base g)

/-- Go: `func (g *Polygon) WithinLine(line *geometry.Line) bool` — polygon.go:95 -/
def polygonWithinLine (ops : Ops F GLine GPoint GPoly GRect GSeries TCircle TCollection TCollectionI TExtra TFeature TFeatureCollection TGeometryCollection TLineString TMultiLineString TMultiPoint TMultiPolygon TObject TPoint TPolygon TRect TSimplePoint TSpatial) (g : TPolygon) (line : GLine) : Bool :=
  ops.gLineContainsPoly line (ops.polygon_base g)

/-- Go: `func (g *Polygon) WithinPoly(poly *geometry.Poly) bool` — polygon.go:99 -/
def polygonWithinPoly (ops : Ops F GLine GPoint GPoly GRect GSeries TCircle TCollection TCollectionI TExtra TFeature TFeatureCollection TGeometryCollection TLineString TMultiLineString TMultiPoint TMultiPolygon TObject TPoint TPolygon TRect TSimplePoint TSpatial) (g : TPolygon) (poly : GPoly) : Bool :=
  ops.gPolyContainsPoly poly (ops.polygon_base g)

/-- Go: `func (g *Polygon) Intersects(obj Object) bool` — polygon.go:103 -/
def polygonIntersects (ops : Ops F GLine GPoint GPoly GRect GSeries TCircle TCollection TCollectionI TExtra TFeature TFeatureCollection TGeometryCollection TLineString TMultiLineString TMultiPoint TMultiPolygon TObject TPoint TPolygon TRect TSimplePoint TSpatial) (g : TPolygon) (obj : TObject) : Bool :=
  ops.spatialIntersectsPoly (ops.objSpatial obj) (ops.polygon_base g)

/-- Go: `func (g *Polygon) IntersectsPoint(point geometry.Point) bool` — polygon.go:107 -/
def polygonIntersectsPoint (ops : Ops F GLine GPoint GPoly GRect GSeries TCircle TCollection TCollectionI TExtra TFeature TFeatureCollection TGeometryCollection TLineString TMultiLineString TMultiPoint TMultiPolygon TObject TPoint TPolygon TRect TSimplePoint TSpatial) (g : TPolygon) (point : GPoint) : Bool :=
  ops.gPolyIntersectsPoint (ops.polygon_base g) point

/-- Go: `func (g *Polygon) IntersectsRect(rect geometry.Rect) bool` — polygon.go:111 -/
def polygonIntersectsRect (ops : Ops F GLine GPoint GPoly GRect GSeries TCircle TCollection TCollectionI TExtra TFeature TFeatureCollection TGeometryCollection TLineString TMultiLineString TMultiPoint TMultiPolygon TObject TPoint TPolygon TRect TSimplePoint TSpatial) (g : TPolygon) (rect : GRect) : Bool :=
  ops.gPolyIntersectsRect (ops.polygon_base g) rect

/-- Go: `func (g *Polygon) IntersectsLine(line *geometry.Line) bool` — polygon.go:115 -/
def polygonIntersectsLine (ops : Ops F GLine GPoint GPoly GRect GSeries TCircle TCollection TCollectionI TExtra TFeature TFeatureCollection TGeometryCollection TLineString TMultiLineString TMultiPoint TMultiPolygon TObject TPoint TPolygon TRect TSimplePoint TSpatial) (g : TPolygon) (line : GLine) : Bool :=
  ops.gPolyIntersectsLine (ops.polygon_base g) line

/-- Go: `func (g *Polygon) IntersectsPoly(poly *geometry.Poly) bool` — polygon.go:119 -/
def polygonIntersectsPoly (ops : Ops F GLine GPoint GPoly GRect GSeries TCircle TCollection TCollectionI TExtra TFeature TFeatureCollection TGeometryCollection TLineString TMultiLineString TMultiPoint TMultiPolygon TObject TPoint TPolygon TRect TSimplePoint TSpatial) (g : TPolygon) (poly : GPoly) : Bool :=
  ops.gPolyIntersectsPoly (ops.polygon_base g) poly

/-- Go: `func (g *Polygon) NumPoints() int` — polygon.go:123 -/
def polygonNumPoints (ops : Ops F GLine GPoint GPoly GRect GSeries TCircle TCollection TCollectionI TExtra TFeature TFeatureCollection TGeometryCollection TLineString TMultiLineString TMultiPoint TMultiPolygon TObject TPoint TPolygon TRect TSimplePoint TSpatial) (g : TPolygon) : Int :=
  (match ops.gPoly_Exterior (ops.polygon_base g) with
  | some Exterior' =>
    let n : Int := ops.gSeriesNumPoints Exterior'
    (match forRange (σ := Int) (ρ := Empty) (fun (hole : GSeries) (st' : Int) =>
        let n : Int := st'
        let n : Int := n + (ops.gSeriesNumPoints hole)
        Flow.next n) (ops.gPoly_Holes (ops.polygon_base g)) n with
    | Exit.ret r' => nomatch r'
    | Exit.done st' =>
      let n : Int := st'
      n)
  | none =>
    0)

/-- Go: `func (g *Polygon) Distance(obj Object) float64` — polygon.go:265 -/
def polygonDistance (ops : Ops F GLine GPoint GPoly GRect GSeries TCircle TCollection TCollectionI TExtra TFeature TFeatureCollection TGeometryCollection TLineString TMultiLineString TMultiPoint TMultiPolygon TObject TPoint TPolygon TRect TSimplePoint TSpatial) (g : TPolygon) (obj : TObject) : F :=
  ops.spatialDistancePoly (ops.objSpatial obj) (ops.polygon_base g)

/-- Go: `func (g *Polygon) DistancePoint(point geometry.Point) float64` — polygon.go:269 -/
def polygonDistancePoint (ops : Ops F GLine GPoint GPoly GRect GSeries TCircle TCollection TCollectionI TExtra TFeature TFeatureCollection TGeometryCollection TLineString TMultiLineString TMultiPoint TMultiPolygon TObject TPoint TPolygon TRect TSimplePoint TSpatial) (g : TPolygon) (point : GPoint) : F :=
  ops.fn_geoDistancePoints (polygonCenter ops g) point

/-- Go: `func (g *Polygon) DistanceRect(rect geometry.Rect) float64` — polygon.go:273 -/
def polygonDistanceRect (ops : Ops F GLine GPoint GPoly GRect GSeries TCircle TCollection TCollectionI TExtra TFeature TFeatureCollection TGeometryCollection TLineString TMultiLineString TMultiPoint TMultiPolygon TObject TPoint TPolygon TRect TSimplePoint TSpatial) (g : TPolygon) (rect : GRect) : F :=
  ops.fn_geoDistancePoints (polygonCenter ops g) (ops.gRectCenter rect)

/-- Go: `func (g *Polygon) DistanceLine(line *geometry.Line) float64` — polygon.go:277 -/
def polygonDistanceLine (ops : Ops F GLine GPoint GPoly GRect GSeries TCircle TCollection TCollectionI TExtra TFeature TFeatureCollection TGeometryCollection TLineString TMultiLineString TMultiPoint TMultiPolygon TObject TPoint TPolygon TRect TSimplePoint TSpatial) (g : TPolygon) (line : GLine) : F :=
  ops.fn_geoDistancePoints (polygonCenter ops g) (ops.gRectCenter (ops.gLineRect line))

/-- Go: `func (g *Polygon) DistancePoly(poly *geometry.Poly) float64` — polygon.go:281 -/
def polygonDistancePoly (ops : Ops F GLine GPoint GPoly GRect GSeries TCircle TCollection TCollectionI TExtra TFeature TFeatureCollection TGeometryCollection TLineString TMultiLineString TMultiPoint TMultiPolygon TObject TPoint TPolygon TRect TSimplePoint TSpatial) (g : TPolygon) (poly : GPoly) : F :=
  ops.fn_geoDistancePoints (polygonCenter ops g) (ops.gRectCenter (ops.gPolyRect poly))

/-- Go: `func (g *Polygon) HasExtra() bool` — polygon.go:285 -/
def polygonHasExtra (ops : Ops F GLine GPoint GPoly GRect GSeries TCircle TCollection TCollectionI TExtra TFeature TFeatureCollection TGeometryCollection TLineString TMultiLineString TMultiPoint TMultiPolygon TObject TPoint TPolygon TRect TSimplePoint TSpatial) (g : TPolygon) : Bool :=
  Option.isSome (ops.polygon_extra g)

/-- Go: `func (g *Polygon) Members() string` — polygon.go:289 -/
def polygonMembers (ops : Ops F GLine GPoint GPoly GRect GSeries TCircle TCollection TCollectionI TExtra TFeature TFeatureCollection TGeometryCollection TLineString TMultiLineString TMultiPoint TMultiPolygon TObject TPoint TPolygon TRect TSimplePoint TSpatial) (g : TPolygon) : String :=
  (match ops.polygon_extra g with
  | some extra' =>
    ops.extra_members extra'
  | none =>
    "")

/-- Go: `func (g *Rect) ForEach(iter func(geom Object) bool) bool` — rect.go:15 -/
def rectForEach {σ : Type} (ops : Ops F GLine GPoint GPoly GRect GSeries TCircle TCollection TCollectionI TExtra TFeature TFeatureCollection TGeometryCollection TLineString TMultiLineString TMultiPoint TMultiPolygon TObject TPoint TPolygon TRect TSimplePoint TSpatial) (g : TRect) (iter : TObject → σ → σ × Bool) (it' : σ) : σ × Bool :=
  iter (ops.objOfRect g) it'

/-- Go: `func (g *Rect) Empty() bool` — rect.go:19 -/
def rectEmpty (ops : Ops F GLine GPoint GPoly GRect GSeries TCircle TCollection TCollectionI TExtra TFeature TFeatureCollection TGeometryCollection TLineString TMultiLineString TMultiPoint TMultiPolygon TObject TPoint TPolygon TRect TSimplePoint TSpatial) (g : TRect) : Bool :=
  ops.gRectEmpty (ops.rect_base g)

/-- Go: `func (g *Rect) Valid() bool` — rect.go:23 -/
def rectValid (ops : Ops F GLine GPoint GPoly GRect GSeries TCircle TCollection TCollectionI TExtra TFeature TFeatureCollection TGeometryCollection TLineString TMultiLineString TMultiPoint TMultiPolygon TObject TPoint TPolygon TRect TSimplePoint TSpatial) (g : TRect) : Bool :=
  ops.gRectValid (ops.rect_base g)

/-- Go: `func (g *Rect) Rect() geometry.Rect` — rect.go:27 -/
def rectRect (ops : Ops F GLine GPoint GPoly GRect GSeries TCircle TCollection TCollectionI TExtra TFeature TFeatureCollection TGeometryCollection TLineString TMultiLineString TMultiPoint TMultiPolygon TObject TPoint TPolygon TRect TSimplePoint TSpatial) (g : TRect) : GRect :=
  ops.rect_base g

/-- Go: `func (g *Rect) Base() geometry.Rect` — rect.go:31 -/
def rectBase (ops : Ops F GLine GPoint GPoly GRect GSeries TCircle TCollection TCollectionI TExtra TFeature TFeatureCollection TGeometryCollection TLineString TMultiLineString TMultiPoint TMultiPolygon TObject TPoint TPolygon TRect TSimplePoint TSpatial) (g : TRect) : GRect :=
  ops.rect_base g

/-- Go: `func (g *Rect) Center() geometry.Point` — rect.go:35 -/
def rectCenter (ops : Ops F GLine GPoint GPoly GRect GSeries TCircle TCollection TCollectionI TExtra TFeature TFeatureCollection TGeometryCollection TLineString TMultiLineString TMultiPoint TMultiPolygon TObject TPoint TPolygon TRect TSimplePoint TSpatial) (g : TRect) : GPoint :=
  ops.gRectCenter (ops.rect_base g)

/-- Go: `func (g *Rect) Polygon() Object` — rect.go:40
    NOT TRANSLATED: the builtin new is outside the subset (rect.go:41) -/
opaque rectPolygon_unrecognised : Unit

/-- Go: `func (g *Rect) Contains(obj Object) bool` — rect.go:62 -/
def rectContains (ops : Ops F GLine GPoint GPoly GRect GSeries TCircle TCollection TCollectionI TExtra TFeature TFeatureCollection TGeometryCollection TLineString TMultiLineString TMultiPoint TMultiPolygon TObject TPoint TPolygon TRect TSimplePoint TSpatial) (g : TRect) (obj : TObject) : Bool :=
  ops.spatialWithinRect (ops.objSpatial obj) (ops.rect_base g)

/-- Go: `func (g *Rect) Within(obj Object) bool` — rect.go:66 -/
def rectWithin (ops : Ops F GLine GPoint GPoly GRect GSeries TCircle TCollection TCollectionI TExtra TFeature TFeatureCollection TGeometryCollection TLineString TMultiLineString TMultiPoint TMultiPolygon TObject TPoint TPolygon TRect TSimplePoint TSpatial) (g : TRect) (obj : TObject) : Bool :=
  ops.objContains obj (ops.objOfRect g)

/-- Go: `func (g *Rect) WithinRect(rect geometry.Rect) bool` — rect.go:70 -/
def rectWithinRect (ops : Ops F GLine GPoint GPoly GRect GSeries TCircle TCollection TCollectionI TExtra TFeature TFeatureCollection TGeometryCollection TLineString TMultiLineString TMultiPoint TMultiPolygon TObject TPoint TPolygon TRect TSimplePoint TSpatial) (g : TRect) (rect : GRect) : Bool :=
  ops.gRectContainsRect rect (ops.rect_base g)

/-- Go: `func (g *Rect) WithinPoint(point geometry.Point) bool` — rect.go:74 -/
def rectWithinPoint (ops : Ops F GLine GPoint GPoly GRect GSeries TCircle TCollection TCollectionI TExtra TFeature TFeatureCollection TGeometryCollection TLineString TMultiLineString TMultiPoint TMultiPolygon TObject TPoint TPolygon TRect TSimplePoint TSpatial) (g : TRect) (point : GPoint) : Bool :=
  ops.gPointContainsRect point (ops.rect_base g)

/-- Go: `func (g *Rect) WithinLine(line *geometry.Line) bool` — rect.go:78 -/
def rectWithinLine (ops : Ops F GLine GPoint GPoly GRect GSeries TCircle TCollection TCollectionI TExtra TFeature TFeatureCollection TGeometryCollection TLineString TMultiLineString TMultiPoint TMultiPolygon TObject TPoint TPolygon TRect TSimplePoint TSpatial) (g : TRect) (line : GLine) : Bool :=
  ops.gLineContainsRect line (ops.rect_base g)

/-- Go: `func (g *Rect) WithinPoly(poly *geometry.Poly) bool` — rect.go:82 -/
def rectWithinPoly (ops : Ops F GLine GPoint GPoly GRect GSeries TCircle TCollection TCollectionI TExtra TFeature TFeatureCollection TGeometryCollection TLineString TMultiLineString TMultiPoint TMultiPolygon TObject TPoint TPolygon TRect TSimplePoint TSpatial) (g : TRect) (poly : GPoly) : Bool :=
  ops.gPolyContainsRect poly (ops.rect_base g)

/-- Go: `func (g *Rect) Intersects(obj Object) bool` — rect.go:86 -/
def rectIntersects (ops : Ops F GLine GPoint GPoly GRect GSeries TCircle TCollection TCollectionI TExtra TFeature TFeatureCollection TGeometryCollection TLineString TMultiLineString TMultiPoint TMultiPolygon TObject TPoint TPolygon TRect TSimplePoint TSpatial) (g : TRect) (obj : TObject) : Bool :=
  ops.spatialIntersectsRect (ops.objSpatial obj) (ops.rect_base g)

/-- Go: `func (g *Rect) IntersectsPoint(point geometry.Point) bool` — rect.go:90 -/
def rectIntersectsPoint (ops : Ops F GLine GPoint GPoly GRect GSeries TCircle TCollection TCollectionI TExtra TFeature TFeatureCollection TGeometryCollection TLineString TMultiLineString TMultiPoint TMultiPolygon TObject TPoint TPolygon TRect TSimplePoint TSpatial) (g : TRect) (point : GPoint) : Bool :=
  ops.gRectIntersectsPoint (ops.rect_base g) point

/-- Go: `func (g *Rect) IntersectsRect(rect geometry.Rect) bool` — rect.go:94 -/
def rectIntersectsRect (ops : Ops F GLine GPoint GPoly GRect GSeries TCircle TCollection TCollectionI TExtra TFeature TFeatureCollection TGeometryCollection TLineString TMultiLineString TMultiPoint TMultiPolygon TObject TPoint TPolygon TRect TSimplePoint TSpatial) (g : TRect) (rect : GRect) : Bool :=
  ops.gRectIntersectsRect (ops.rect_base g) rect

/-- Go: `func (g *Rect) IntersectsLine(line *geometry.Line) bool` — rect.go:98 -/
def rectIntersectsLine (ops : Ops F GLine GPoint GPoly GRect GSeries TCircle TCollection TCollectionI TExtra TFeature TFeatureCollection TGeometryCollection TLineString TMultiLineString TMultiPoint TMultiPolygon TObject TPoint TPolygon TRect TSimplePoint TSpatial) (g : TRect) (line : GLine) : Bool :=
  ops.gRectIntersectsLine (ops.rect_base g) line

/-- Go: `func (g *Rect) IntersectsPoly(poly *geometry.Poly) bool` — rect.go:102 -/
def rectIntersectsPoly (ops : Ops F GLine GPoint GPoly GRect GSeries TCircle TCollection TCollectionI TExtra TFeature TFeatureCollection TGeometryCollection TLineString TMultiLineString TMultiPoint TMultiPolygon TObject TPoint TPolygon TRect TSimplePoint TSpatial) (g : TRect) (poly : GPoly) : Bool :=
  ops.gRectIntersectsPoly (ops.rect_base g) poly

/-- Go: `func (g *Rect) NumPoints() int` — rect.go:106 -/
def rectNumPoints (ops : Ops F GLine GPoint GPoly GRect GSeries TCircle TCollection TCollectionI TExtra TFeature TFeatureCollection TGeometryCollection TLineString TMultiLineString TMultiPoint TMultiPolygon TObject TPoint TPolygon TRect TSimplePoint TSpatial) (g : TRect) : Int :=
  2

/-- Go: `func (g *Rect) Spatial() Spatial` — rect.go:110 -/
def rectSpatial (ops : Ops F GLine GPoint GPoly GRect GSeries TCircle TCollection TCollectionI TExtra TFeature TFeatureCollection TGeometryCollection TLineString TMultiLineString TMultiPoint TMultiPolygon TObject TPoint TPolygon TRect TSimplePoint TSpatial) (g : TRect) : TSpatial :=
  ops.spatialOfRect g

/-- Go: `func (g *Rect) Distance(obj Object) float64` — rect.go:114 -/
def rectDistance (ops : Ops F GLine GPoint GPoly GRect GSeries TCircle TCollection TCollectionI TExtra TFeature TFeatureCollection TGeometryCollection TLineString TMultiLineString TMultiPoint TMultiPolygon TObject TPoint TPolygon TRect TSimplePoint TSpatial) (g : TRect) (obj : TObject) : F :=
  ops.spatialDistanceRect (ops.objSpatial obj) (ops.rect_base g)

/-- Go: `func (g *Rect) DistancePoint(point geometry.Point) float64` — rect.go:118 -/
def rectDistancePoint (ops : Ops F GLine GPoint GPoly GRect GSeries TCircle TCollection TCollectionI TExtra TFeature TFeatureCollection TGeometryCollection TLineString TMultiLineString TMultiPoint TMultiPolygon TObject TPoint TPolygon TRect TSimplePoint TSpatial) (g : TRect) (point : GPoint) : F :=
  ops.fn_geoDistancePoints (rectCenter ops g) point

/-- Go: `func (g *Rect) DistanceRect(rect geometry.Rect) float64` — rect.go:122 -/
def rectDistanceRect (ops : Ops F GLine GPoint GPoly GRect GSeries TCircle TCollection TCollectionI TExtra TFeature TFeatureCollection TGeometryCollection TLineString TMultiLineString TMultiPoint TMultiPolygon TObject TPoint TPolygon TRect TSimplePoint TSpatial) (g : TRect) (rect : GRect) : F :=
  ops.fn_geoDistancePoints (rectCenter ops g) (ops.gRectCenter rect)

/-- Go: `func (g *Rect) DistanceLine(line *geometry.Line) float64` — rect.go:126 -/
def rectDistanceLine (ops : Ops F GLine GPoint GPoly GRect GSeries TCircle TCollection TCollectionI TExtra TFeature TFeatureCollection TGeometryCollection TLineString TMultiLineString TMultiPoint TMultiPolygon TObject TPoint TPolygon TRect TSimplePoint TSpatial) (g : TRect) (line : GLine) : F :=
  ops.fn_geoDistancePoints (rectCenter ops g) (ops.gRectCenter (ops.gLineRect line))

/-- Go: `func (g *Rect) DistancePoly(poly *geometry.Poly) float64` — rect.go:130 -/
def rectDistancePoly (ops : Ops F GLine GPoint GPoly GRect GSeries TCircle TCollection TCollectionI TExtra TFeature TFeatureCollection TGeometryCollection TLineString TMultiLineString TMultiPoint TMultiPolygon TObject TPoint TPolygon TRect TSimplePoint TSpatial) (g : TRect) (poly : GPoly) : F :=
  ops.fn_geoDistancePoints (rectCenter ops g) (ops.gRectCenter (ops.gPolyRect poly))

/-- Go: `func (g *Rect) Members() string` — rect.go:134 -/
def rectMembers (ops : Ops F GLine GPoint GPoly GRect GSeries TCircle TCollection TCollectionI TExtra TFeature TFeatureCollection TGeometryCollection TLineString TMultiLineString TMultiPoint TMultiPolygon TObject TPoint TPolygon TRect TSimplePoint TSpatial) (g : TRect) : String :=
  ""

/-- Go: `func (g *Feature) ForEach(iter func(geom Object) bool) bool` — feature.go:40 -/
def featureForEach {σ : Type} (ops : Ops F GLine GPoint GPoly GRect GSeries TCircle TCollection TCollectionI TExtra TFeature TFeatureCollection TGeometryCollection TLineString TMultiLineString TMultiPoint TMultiPolygon TObject TPoint TPolygon TRect TSimplePoint TSpatial) (g : TFeature) (iter : TObject → σ → σ × Bool) (it' : σ) : σ × Bool :=
  iter (ops.objOfFeature g) it'

/-- Go: `func (g *Feature) Empty() bool` — feature.go:44 -/
def featureEmpty (ops : Ops F GLine GPoint GPoly GRect GSeries TCircle TCollection TCollectionI TExtra TFeature TFeatureCollection TGeometryCollection TLineString TMultiLineString TMultiPoint TMultiPolygon TObject TPoint TPolygon TRect TSimplePoint TSpatial) (g : TFeature) : Bool :=
  ops.objEmpty (ops.feature_base g)

/-- Go: `func (g *Feature) Valid() bool` — feature.go:48 -/
def featureValid (ops : Ops F GLine GPoint GPoly GRect GSeries TCircle TCollection TCollectionI TExtra TFeature TFeatureCollection TGeometryCollection TLineString TMultiLineString TMultiPoint TMultiPolygon TObject TPoint TPolygon TRect TSimplePoint TSpatial) (g : TFeature) : Bool :=
  ops.objValid (ops.feature_base g)

/-- Go: `func (g *Feature) Rect() geometry.Rect` — feature.go:52 -/
def featureRect (ops : Ops F GLine GPoint GPoly GRect GSeries TCircle TCollection TCollectionI TExtra TFeature TFeatureCollection TGeometryCollection TLineString TMultiLineString TMultiPoint TMultiPolygon TObject TPoint TPolygon TRect TSimplePoint TSpatial) (g : TFeature) : GRect :=
  ops.objRect (ops.feature_base g)

/-- Go: `func (g *Feature) Center() geometry.Point` — feature.go:56 -/
def featureCenter (ops : Ops F GLine GPoint GPoly GRect GSeries TCircle TCollection TCollectionI TExtra TFeature TFeatureCollection TGeometryCollection TLineString TMultiLineString TMultiPoint TMultiPolygon TObject TPoint TPolygon TRect TSimplePoint TSpatial) (g : TFeature) : GPoint :=
  ops.gRectCenter (featureRect ops g)

/-- Go: `func (g *Feature) Base() Object` — feature.go:60 -/
def featureBase (ops : Ops F GLine GPoint GPoly GRect GSeries TCircle TCollection TCollectionI TExtra TFeature TFeatureCollection TGeometryCollection TLineString TMultiLineString TMultiPoint TMultiPolygon TObject TPoint TPolygon TRect TSimplePoint TSpatial) (g : TFeature) : TObject :=
  ops.feature_base g

/-- Go: `func (g *Feature) Members() string` — feature.go:64 -/
def featureMembers (ops : Ops F GLine GPoint GPoly GRect GSeries TCircle TCollection TCollectionI TExtra TFeature TFeatureCollection TGeometryCollection TLineString TMultiLineString TMultiPoint TMultiPolygon TObject TPoint TPolygon TRect TSimplePoint TSpatial) (g : TFeature) : String :=
  (match ops.feature_extra g with
  | some extra' =>
    ops.extra_members extra'
  | none =>
    "")

/-- Go: `func (g *Feature) Spatial() Spatial` — feature.go:92 -/
def featureSpatial (ops : Ops F GLine GPoint GPoly GRect GSeries TCircle TCollection TCollectionI TExtra TFeature TFeatureCollection TGeometryCollection TLineString TMultiLineString TMultiPoint TMultiPolygon TObject TPoint TPolygon TRect TSimplePoint TSpatial) (g : TFeature) : TSpatial :=
  ops.spatialOfFeature g

/-- Go: `func (g *Feature) Within(obj Object) bool` — feature.go:96 -/
def featureWithin (ops : Ops F GLine GPoint GPoly GRect GSeries TCircle TCollection TCollectionI TExtra TFeature TFeatureCollection TGeometryCollection TLineString TMultiLineString TMultiPoint TMultiPolygon TObject TPoint TPolygon TRect TSimplePoint TSpatial) (g : TFeature) (obj : TObject) : Bool :=
  ops.objContains obj (ops.objOfFeature g)

/-- Go: `func (g *Feature) Contains(obj Object) bool` — feature.go:100 -/
def featureContains (ops : Ops F GLine GPoint GPoly GRect GSeries TCircle TCollection TCollectionI TExtra TFeature TFeatureCollection TGeometryCollection TLineString TMultiLineString TMultiPoint TMultiPolygon TObject TPoint TPolygon TRect TSimplePoint TSpatial) (g : TFeature) (obj : TObject) : Bool :=
  ops.objContains (ops.feature_base g) obj

/-- Go: `func (g *Feature) WithinRect(rect geometry.Rect) bool` — feature.go:104 -/
def featureWithinRect (ops : Ops F GLine GPoint GPoly GRect GSeries TCircle TCollection TCollectionI TExtra TFeature TFeatureCollection TGeometryCollection TLineString TMultiLineString TMultiPoint TMultiPolygon TObject TPoint TPolygon TRect TSimplePoint TSpatial) (g : TFeature) (rect : GRect) : Bool :=
  ops.spatialWithinRect (ops.objSpatial (ops.feature_base g)) rect

/-- Go: `func (g *Feature) WithinPoint(point geometry.Point) bool` — feature.go:108 -/
def featureWithinPoint (ops : Ops F GLine GPoint GPoly GRect GSeries TCircle TCollection TCollectionI TExtra TFeature TFeatureCollection TGeometryCollection TLineString TMultiLineString TMultiPoint TMultiPolygon TObject TPoint TPolygon TRect TSimplePoint TSpatial) (g : TFeature) (point : GPoint) : Bool :=
  ops.spatialWithinPoint (ops.objSpatial (ops.feature_base g)) point

/-- Go: `func (g *Feature) WithinLine(line *geometry.Line) bool` — feature.go:112 -/
def featureWithinLine (ops : Ops F GLine GPoint GPoly GRect GSeries TCircle TCollection TCollectionI TExtra TFeature TFeatureCollection TGeometryCollection TLineString TMultiLineString TMultiPoint TMultiPolygon TObject TPoint TPolygon TRect TSimplePoint TSpatial) (g : TFeature) (line : GLine) : Bool :=
  ops.spatialWithinLine (ops.objSpatial (ops.feature_base g)) line

/-- Go: `func (g *Feature) WithinPoly(poly *geometry.Poly) bool` — feature.go:116 -/
def featureWithinPoly (ops : Ops F GLine GPoint GPoly GRect GSeries TCircle TCollection TCollectionI TExtra TFeature TFeatureCollection TGeometryCollection TLineString TMultiLineString TMultiPoint TMultiPolygon TObject TPoint TPolygon TRect TSimplePoint TSpatial) (g : TFeature) (poly : GPoly) : Bool :=
  ops.spatialWithinPoly (ops.objSpatial (ops.feature_base g)) poly

/-- Go: `func (g *Feature) Intersects(obj Object) bool` — feature.go:120 -/
def featureIntersects (ops : Ops F GLine GPoint GPoly GRect GSeries TCircle TCollection TCollectionI TExtra TFeature TFeatureCollection TGeometryCollection TLineString TMultiLineString TMultiPoint TMultiPolygon TObject TPoint TPolygon TRect TSimplePoint TSpatial) (g : TFeature) (obj : TObject) : Bool :=
  ops.objIntersects (ops.feature_base g) obj

/-- Go: `func (g *Feature) IntersectsPoint(point geometry.Point) bool` — feature.go:124 -/
def featureIntersectsPoint (ops : Ops F GLine GPoint GPoly GRect GSeries TCircle TCollection TCollectionI TExtra TFeature TFeatureCollection TGeometryCollection TLineString TMultiLineString TMultiPoint TMultiPolygon TObject TPoint TPolygon TRect TSimplePoint TSpatial) (g : TFeature) (point : GPoint) : Bool :=
  ops.spatialIntersectsPoint (ops.objSpatial (ops.feature_base g)) point

/-- Go: `func (g *Feature) IntersectsRect(rect geometry.Rect) bool` — feature.go:128 -/
def featureIntersectsRect (ops : Ops F GLine GPoint GPoly GRect GSeries TCircle TCollection TCollectionI TExtra TFeature TFeatureCollection TGeometryCollection TLineString TMultiLineString TMultiPoint TMultiPolygon TObject TPoint TPolygon TRect TSimplePoint TSpatial) (g : TFeature) (rect : GRect) : Bool :=
  ops.spatialIntersectsRect (ops.objSpatial (ops.feature_base g)) rect

/-- Go: `func (g *Feature) IntersectsLine(line *geometry.Line) bool` — feature.go:132 -/
def featureIntersectsLine (ops : Ops F GLine GPoint GPoly GRect GSeries TCircle TCollection TCollectionI TExtra TFeature TFeatureCollection TGeometryCollection TLineString TMultiLineString TMultiPoint TMultiPolygon TObject TPoint TPolygon TRect TSimplePoint TSpatial) (g : TFeature) (line : GLine) : Bool :=
  ops.spatialIntersectsLine (ops.objSpatial (ops.feature_base g)) line

/-- Go: `func (g *Feature) IntersectsPoly(poly *geometry.Poly) bool` — feature.go:136 -/
def featureIntersectsPoly (ops : Ops F GLine GPoint GPoly GRect GSeries TCircle TCollection TCollectionI TExtra TFeature TFeatureCollection TGeometryCollection TLineString TMultiLineString TMultiPoint TMultiPolygon TObject TPoint TPolygon TRect TSimplePoint TSpatial) (g : TFeature) (poly : GPoly) : Bool :=
  ops.spatialIntersectsPoly (ops.objSpatial (ops.feature_base g)) poly

/-- Go: `func (g *Feature) NumPoints() int` — feature.go:140 -/
def featureNumPoints (ops : Ops F GLine GPoint GPoly GRect GSeries TCircle TCollection TCollectionI TExtra TFeature TFeatureCollection TGeometryCollection TLineString TMultiLineString TMultiPoint TMultiPolygon TObject TPoint TPolygon TRect TSimplePoint TSpatial) (g : TFeature) : Int :=
  ops.objNumPoints (ops.feature_base g)

/-- Go: `func (g *Feature) Distance(obj Object) float64` — feature.go:188 -/
def featureDistance (ops : Ops F GLine GPoint GPoly GRect GSeries TCircle TCollection TCollectionI TExtra TFeature TFeatureCollection TGeometryCollection TLineString TMultiLineString TMultiPoint TMultiPolygon TObject TPoint TPolygon TRect TSimplePoint TSpatial) (g : TFeature) (obj : TObject) : F :=
  ops.objDistance (ops.feature_base g) obj

/-- Go: `func (g *Feature) DistancePoint(point geometry.Point) float64` — feature.go:192 -/
def featureDistancePoint (ops : Ops F GLine GPoint GPoly GRect GSeries TCircle TCollection TCollectionI TExtra TFeature TFeatureCollection TGeometryCollection TLineString TMultiLineString TMultiPoint TMultiPolygon TObject TPoint TPolygon TRect TSimplePoint TSpatial) (g : TFeature) (point : GPoint) : F :=
  ops.spatialDistancePoint (ops.objSpatial (ops.feature_base g)) point

/-- Go: `func (g *Feature) DistanceRect(rect geometry.Rect) float64` — feature.go:196 -/
def featureDistanceRect (ops : Ops F GLine GPoint GPoly GRect GSeries TCircle TCollection TCollectionI TExtra TFeature TFeatureCollection TGeometryCollection TLineString TMultiLineString TMultiPoint TMultiPolygon TObject TPoint TPolygon TRect TSimplePoint TSpatial) (g : TFeature) (rect : GRect) : F :=
  ops.spatialDistanceRect (ops.objSpatial (ops.feature_base g)) rect

/-- Go: `func (g *Feature) DistanceLine(line *geometry.Line) float64` — feature.go:200 -/
def featureDistanceLine (ops : Ops F GLine GPoint GPoly GRect GSeries TCircle TCollection TCollectionI TExtra TFeature TFeatureCollection TGeometryCollection TLineString TMultiLineString TMultiPoint TMultiPolygon TObject TPoint TPolygon TRect TSimplePoint TSpatial) (g : TFeature) (line : GLine) : F :=
  ops.spatialDistanceLine (ops.objSpatial (ops.feature_base g)) line

/-- Go: `func (g *Feature) DistancePoly(poly *geometry.Poly) float64` — feature.go:204 -/
def featureDistancePoly (ops : Ops F GLine GPoint GPoly GRect GSeries TCircle TCollection TCollectionI TExtra TFeature TFeatureCollection TGeometryCollection TLineString TMultiLineString TMultiPoint TMultiPolygon TObject TPoint TPolygon TRect TSimplePoint TSpatial) (g : TFeature) (poly : GPoly) : F :=
  ops.spatialDistancePoly (ops.objSpatial (ops.feature_base g)) poly

/-- Go: `func (g *Circle) Meters() float64` — circle.go:59 -/
def circleMeters (ops : Ops F GLine GPoint GPoly GRect GSeries TCircle TCollection TCollectionI TExtra TFeature TFeatureCollection TGeometryCollection TLineString TMultiLineString TMultiPoint TMultiPolygon TObject TPoint TPolygon TRect TSimplePoint TSpatial) (g : TCircle) : F :=
  ops.circle_meters g

/-- Go: `func (g *Circle) Center() geometry.Point` — circle.go:64 -/
def circleCenter (ops : Ops F GLine GPoint GPoly GRect GSeries TCircle TCollection TCollectionI TExtra TFeature TFeatureCollection TGeometryCollection TLineString TMultiLineString TMultiPoint TMultiPolygon TObject TPoint TPolygon TRect TSimplePoint TSpatial) (g : TCircle) : GPoint :=
  ops.circle_center g

/-- Go: `func (g *Circle) Haversine() float64` — circle.go:69 -/
def circleHaversine (ops : Ops F GLine GPoint GPoly GRect GSeries TCircle TCollection TCollectionI TExtra TFeature TFeatureCollection TGeometryCollection TLineString TMultiLineString TMultiPoint TMultiPolygon TObject TPoint TPolygon TRect TSimplePoint TSpatial) (g : TCircle) : F :=
  ops.circle_haversine g

/-- Go: `func (g *Circle) HaversineTo(p geometry.Point) float64` — circle.go:74 -/
def circleHaversineTo (ops : Ops F GLine GPoint GPoly GRect GSeries TCircle TCollection TCollectionI TExtra TFeature TFeatureCollection TGeometryCollection TLineString TMultiLineString TMultiPoint TMultiPolygon TObject TPoint TPolygon TRect TSimplePoint TSpatial) (g : TCircle) (p : GPoint) : F :=
  ops.fn_geo_Haversine (ops.gPoint_Y p) (ops.gPoint_X p) (ops.gPoint_Y (ops.circle_center g)) (ops.gPoint_X (ops.circle_center g))

/-- Go: `func (g *Circle) Within(obj Object) bool` — circle.go:79 -/
def circleWithin (ops : Ops F GLine GPoint GPoly GRect GSeries TCircle TCollection TCollectionI TExtra TFeature TFeatureCollection TGeometryCollection TLineString TMultiLineString TMultiPoint TMultiPolygon TObject TPoint TPolygon TRect TSimplePoint TSpatial) (g : TCircle) (obj : TObject) : Bool :=
  ops.objContains obj (ops.objOfCircle g)

/-- Go: `func (g *Circle) Intersects(obj Object) bool` — circle.go:112 -/
def circleIntersects (ops : Ops F GLine GPoint GPoly GRect GSeries TCircle TCollection TCollectionI TExtra TFeature TFeatureCollection TGeometryCollection TLineString TMultiLineString TMultiPoint TMultiPolygon TObject TPoint TPolygon TRect TSimplePoint TSpatial) (g : TCircle) (obj : TObject) : Bool :=
  (match ops.objAsPoint obj with
  | some other =>
    circleContainsPoint ops g (pointCenter ops other)
  | none =>
    (match ops.objAsSimplePoint obj with
    | some other_1 =>
      circleContainsPoint ops g (simplePointCenter ops other_1)
    | none =>
      (match ops.objAsCircle obj with
      | some other_2 =>
        ops.fLe (circleDistance ops other_2 (ops.objOfCircle g)) (ops.fAdd (ops.circle_meters other_2) (ops.circle_meters g))
      | none =>
        (match ops.objAsCollectionI obj with
        | some other_3 =>
          (match forRange (σ := Unit) (ρ := Bool) (fun (p : TObject) (st' : Unit) =>
              if ops.rec_circleIntersects g p then
                Flow.ret true
              else
                Flow.next ()) (ops.collectionIChildren other_3) () with
          | Exit.ret r' => r'
          | Exit.done st' =>
            false)
        | none =>
          (match ops.objAsFeature obj with
          | some other_4 =>
            ops.rec_circleIntersects g (ops.feature_base other_4)
          | none =>
            let other_5 : TObject := obj
            ops.objIntersects (circleGetObject ops g) obj)))))

/-- Go: `func (g *Circle) Empty() bool` — circle.go:135 -/
def circleEmpty (ops : Ops F GLine GPoint GPoly GRect GSeries TCircle TCollection TCollectionI TExtra TFeature TFeatureCollection TGeometryCollection TLineString TMultiLineString TMultiPoint TMultiPolygon TObject TPoint TPolygon TRect TSimplePoint TSpatial) (g : TCircle) : Bool :=
  false

/-- Go: `func (g *Circle) Valid() bool` — circle.go:139 -/
def circleValid (ops : Ops F GLine GPoint GPoly GRect GSeries TCircle TCollection TCollectionI TExtra TFeature TFeatureCollection TGeometryCollection TLineString TMultiLineString TMultiPoint TMultiPolygon TObject TPoint TPolygon TRect TSimplePoint TSpatial) (g : TCircle) : Bool :=
  ops.objValid (circleGetObject ops g)

/-- Go: `func (g *Circle) ForEach(iter func(geom Object) bool) bool` — circle.go:143 -/
def circleForEach {σ : Type} (ops : Ops F GLine GPoint GPoly GRect GSeries TCircle TCollection TCollectionI TExtra TFeature TFeatureCollection TGeometryCollection TLineString TMultiLineString TMultiPoint TMultiPolygon TObject TPoint TPolygon TRect TSimplePoint TSpatial) (g : TCircle) (iter : TObject → σ → σ × Bool) (it' : σ) : σ × Bool :=
  iter (ops.objOfCircle g) it'

/-- Go: `func (g *Circle) NumPoints() int` — circle.go:147 -/
def circleNumPoints (ops : Ops F GLine GPoint GPoly GRect GSeries TCircle TCollection TCollectionI TExtra TFeature TFeatureCollection TGeometryCollection TLineString TMultiLineString TMultiPoint TMultiPolygon TObject TPoint TPolygon TRect TSimplePoint TSpatial) (g : TCircle) : Int :=
  1

/-- Go: `func (g *Circle) Rect() geometry.Rect` — circle.go:156 -/
def circleRect (ops : Ops F GLine GPoint GPoly GRect GSeries TCircle TCollection TCollectionI TExtra TFeature TFeatureCollection TGeometryCollection TLineString TMultiLineString TMultiPoint TMultiPolygon TObject TPoint TPolygon TRect TSimplePoint TSpatial) (g : TCircle) : GRect :=
  ops.objRect (circleGetObject ops g)

/-- Go: `func (g *Circle) Spatial() Spatial` — circle.go:160 -/
def circleSpatial (ops : Ops F GLine GPoint GPoly GRect GSeries TCircle TCollection TCollectionI TExtra TFeature TFeatureCollection TGeometryCollection TLineString TMultiLineString TMultiPoint TMultiPolygon TObject TPoint TPolygon TRect TSimplePoint TSpatial) (g : TCircle) : TSpatial :=
  ops.objSpatial (circleGetObject ops g)

/-- Go: `func (g *Circle) Polygon() Object` — circle.go:165 -/
def circlePolygon (ops : Ops F GLine GPoint GPoly GRect GSeries TCircle TCollection TCollectionI TExtra TFeature TFeatureCollection TGeometryCollection TLineString TMultiLineString TMultiPoint TMultiPolygon TObject TPoint TPolygon TRect TSimplePoint TSpatial) (g : TCircle) : TObject :=
  circleGetObject ops g

/-- Go: `func (g *Circle) Members() string` — circle.go:219 -/
def circleMembers (ops : Ops F GLine GPoint GPoly GRect GSeries TCircle TCollection TCollectionI TExtra TFeature TFeatureCollection TGeometryCollection TLineString TMultiLineString TMultiPoint TMultiPolygon TObject TPoint TPolygon TRect TSimplePoint TSpatial) (g : TCircle) : String :=
  ""

/-- Go: `func (g *MultiPoint) Members() string` — multipoint.go:84 -/
def multiPointMembers (ops : Ops F GLine GPoint GPoly GRect GSeries TCircle TCollection TCollectionI TExtra TFeature TFeatureCollection TGeometryCollection TLineString TMultiLineString TMultiPoint TMultiPolygon TObject TPoint TPolygon TRect TSimplePoint TSpatial) (g : TMultiPoint) : String :=
  (match ops.collection_extra (ops.multiPoint_collection g) with
  | some extra' =>
    ops.extra_members extra'
  | none =>
    "")

/-- Go: `func (g *MultiLineString) Valid() bool` — multilinestring.go:41 -/
def multiLineStringValid (ops : Ops F GLine GPoint GPoly GRect GSeries TCircle TCollection TCollectionI TExtra TFeature TFeatureCollection TGeometryCollection TLineString TMultiLineString TMultiPoint TMultiPolygon TObject TPoint TPolygon TRect TSimplePoint TSpatial) (g : TMultiLineString) : Bool :=
  let valid : Bool := true
  (match forRange (σ := Bool) (ρ := Empty) (fun (p : TObject) (st' : Bool) =>
      let valid : Bool := st'
      if !(ops.objValid p) then
        let valid : Bool := false
        Flow.next valid
      else
        Flow.next valid) (ops.collection_children (ops.multiLineString_collection g)) valid with
  | Exit.ret r' => nomatch r'
  | Exit.done st' =>
    let valid : Bool := st'
    valid)

/-- Go: `func (g *MultiLineString) Members() string` — multilinestring.go:101 -/
def multiLineStringMembers (ops : Ops F GLine GPoint GPoly GRect GSeries TCircle TCollection TCollectionI TExtra TFeature TFeatureCollection TGeometryCollection TLineString TMultiLineString TMultiPoint TMultiPolygon TObject TPoint TPolygon TRect TSimplePoint TSpatial) (g : TMultiLineString) : String :=
  (match ops.collection_extra (ops.multiLineString_collection g) with
  | some extra' =>
    ops.extra_members extra'
  | none =>
    "")

/-- Go: `func (g *MultiPolygon) Valid() bool` — multipolygon.go:40 -/
def multiPolygonValid (ops : Ops F GLine GPoint GPoly GRect GSeries TCircle TCollection TCollectionI TExtra TFeature TFeatureCollection TGeometryCollection TLineString TMultiLineString TMultiPoint TMultiPolygon TObject TPoint TPolygon TRect TSimplePoint TSpatial) (g : TMultiPolygon) : Bool :=
  let valid : Bool := true
  (match forRange (σ := Bool) (ρ := Empty) (fun (p : TObject) (st' : Bool) =>
      let valid : Bool := st'
      if !(ops.objValid p) then
        let valid : Bool := false
        Flow.next valid
      else
        Flow.next valid) (ops.collection_children (ops.multiPolygon_collection g)) valid with
  | Exit.ret r' => nomatch r'
  | Exit.done st' =>
    let valid : Bool := st'
    valid)

/-- Go: `func (g *MultiPolygon) Members() string` — multipolygon.go:111 -/
def multiPolygonMembers (ops : Ops F GLine GPoint GPoly GRect GSeries TCircle TCollection TCollectionI TExtra TFeature TFeatureCollection TGeometryCollection TLineString TMultiLineString TMultiPoint TMultiPolygon TObject TPoint TPolygon TRect TSimplePoint TSpatial) (g : TMultiPolygon) : String :=
  (match ops.collection_extra (ops.multiPolygon_collection g) with
  | some extra' =>
    ops.extra_members extra'
  | none =>
    "")

/-- Go: `func (g *GeometryCollection) Members() string` — geometrycollection.go:78 -/
def geometryCollectionMembers (ops : Ops F GLine GPoint GPoly GRect GSeries TCircle TCollection TCollectionI TExtra TFeature TFeatureCollection TGeometryCollection TLineString TMultiLineString TMultiPoint TMultiPolygon TObject TPoint TPolygon TRect TSimplePoint TSpatial) (g : TGeometryCollection) : String :=
  (match ops.collection_extra (ops.geometryCollection_collection g) with
  | some extra' =>
    ops.extra_members extra'
  | none =>
    "")

/-- Go: `func (g *FeatureCollection) Members() string` — featurecollection.go:78 -/
def featureCollectionMembers (ops : Ops F GLine GPoint GPoly GRect GSeries TCircle TCollection TCollectionI TExtra TFeature TFeatureCollection TGeometryCollection TLineString TMultiLineString TMultiPoint TMultiPolygon TObject TPoint TPolygon TRect TSimplePoint TSpatial) (g : TFeatureCollection) : String :=
  (match ops.collection_extra (ops.featureCollection_collection g) with
  | some extra' =>
    ops.extra_members extra'
  | none =>
    "")

end Geo.OGen
