def main : IO Unit := pure ()
