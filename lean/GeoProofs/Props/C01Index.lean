/-
  C01, all index kinds: the property theorems of Props/C01.lean together with the R-tree
  corollaries (GeoProofs/SeriesSearchR.lean), which need the float-codec round trip on the
  dyadic coordinates that occur.
-/
import GeoProofs.Props.C01
import GeoProofs.SeriesSearchR
