/-
  GeoProofs.Convex.Bridge — from the executable `Spec.simpleRing` and the convex flag of
  `processPoints` to the periodic vertex sequence of `GeoProofs.Convex.Ring0`, and LEMMA S in
  the executable form `SupportOK`.
-/
import GeoProofs.Convex.General
import GeoProofs.Props.C18

namespace Geo
namespace Cvx
open SeriesL

theorem pmod {P : Nat → Pt} {N : Nat} (per : ∀ i, P (i + N) = P i) (i : Nat) : P i = P (i % N) := by
  have hk : ∀ k, P (i % N + k * N) = P (i % N) := fun k => by
    induction k with
    | zero => simp
    | succ k ih => rw [show i % N + (k+1) * N = (i % N + k * N) + N from by ring, per, ih]
  conv_lhs => rw [← Nat.mod_add_div i N, mul_comm]
  exact hk _

theorem pmod_add {P : Nat → Pt} {N : Nat} (per : ∀ i, P (i + N) = P i) (i k : Nat) :
    P (i + k) = P (i % N + k) := by
  rw [pmod per (i + k), pmod per (i % N + k), Nat.add_mod i k N, Nat.add_mod (i % N) k N, Nat.mod_mod]

/-- the pairwise conditions of `simpleRing`, on the periodic vertex sequence -/
def PairOK (P : Nat → Pt) (N x y : Nat) : Bool :=
  if y ≤ x then true
  else if (y == x + 1 || x == 0 && y == N - 1) = true then
    if (y == x + 1) = true then
      !Spec.onSeg (P x) (P (x+1)) (P (y+1)) && !Spec.onSeg (P y) (P (y+1)) (P x)
    else !Spec.onSeg (P x) (P (x+1)) (P y) && !Spec.onSeg (P y) (P (y+1)) (P (x+1))
  else !Spec.segsMeet (P x) (P (x+1)) (P y) (P (y+1))

theorem pair_succ {P : Nat → Pt} {N x : Nat} (h : PairOK P N x (x+1) = true) :
    ¬ OnSeg (P x) (P (x+1)) (P (x+2)) ∧ ¬ OnSeg (P (x+1)) (P (x+2)) (P x) := by
  unfold PairOK at h
  simp only [show ¬ (x + 1 ≤ x) from by omega, if_false, beq_self_eq_true, Bool.true_or, if_true,
    Bool.and_eq_true, Bool.not_eq_true'] at h
  constructor
  · intro hh; rw [(spec_onSeg_iff _ _ _).2 hh] at h; exact Bool.noConfusion h.1
  · intro hh; rw [(spec_onSeg_iff _ _ _).2 hh] at h; exact Bool.noConfusion h.2

theorem pair_wrap {P : Nat → Pt} {N : Nat} (h3 : 3 ≤ N) (h : PairOK P N 0 (N-1) = true) :
    ¬ OnSeg (P 0) (P 1) (P (N-1)) ∧ ¬ OnSeg (P (N-1)) (P (N-1+1)) (P 1) := by
  unfold PairOK at h
  have e1 : (N - 1 == 0 + 1) = false := by simp; omega
  simp only [show ¬ (N - 1 ≤ 0) from by omega, if_false, e1, beq_self_eq_true, Bool.true_and,
    Bool.false_or, if_true, Bool.and_eq_true, Bool.not_eq_true', zero_add, Bool.false_eq_true] at h
  constructor
  · intro hh; rw [(spec_onSeg_iff _ _ _).2 hh] at h; exact Bool.noConfusion h.1
  · intro hh; rw [(spec_onSeg_iff _ _ _).2 hh] at h; exact Bool.noConfusion h.2

theorem pair_far {P : Nat → Pt} {N x y : Nat} (hxy : x < y) (h1 : y ≠ x + 1)
    (h2 : ¬ (x = 0 ∧ y = N - 1)) (h : PairOK P N x y = true) :
    ¬ SegsMeet (P x) (P (x+1)) (P y) (P (y+1)) := by
  unfold PairOK at h
  have e1 : (y == x + 1) = false := by simp; exact h1
  have e2 : (x == 0 && y == N - 1) = false := by
    rw [Bool.and_eq_false_iff]; simp only [beq_eq_false_iff_ne]
    by_cases hx : x = 0
    · right; exact fun hy => h2 ⟨hx, hy⟩
    · left; exact hx
  simp only [show ¬ (y ≤ x) from by omega, if_false, e1, e2, Bool.or_self, Bool.false_eq_true,
    Bool.not_eq_true'] at h
  intro hh
  rw [(spec_segsMeet_iff _ _ _ _).2 hh] at h
  exact Bool.noConfusion h

theorem simple0_of_pairs {P : Nat → Pt} {N : Nat} (h3 : 3 ≤ N) (per : ∀ i, P (i + N) = P i)
    (hall : ∀ x y, x < N → y < N → PairOK P N x y = true) : Simple0 P N := by
  have hN : 0 < N := by omega
  have adj : ∀ i, ¬ OnSeg (P i) (P (i+1)) (P (i+2)) ∧ ¬ OnSeg (P (i+1)) (P (i+2)) (P i) := by
    intro i
    have hi := Nat.mod_lt i hN
    rw [pmod per i, pmod_add per i 1, pmod_add per i 2]
    by_cases hc : i % N + 1 < N
    · exact pair_succ (hall _ _ hi hc)
    · have e : i % N = N - 1 := by omega
      obtain ⟨w1, w2⟩ := pair_wrap h3 (hall 0 (N-1) hN (by omega))
      have p0 : P (N - 1 + 1) = P 0 := by rw [show N - 1 + 1 = 0 + N from by omega, per]
      have p1 : P (N - 1 + 2) = P 1 := by rw [show N - 1 + 2 = 1 + N from by omega, per]
      rw [e, p0, p1]
      rw [p0] at w2
      exact ⟨w2, w1⟩
  refine ⟨h3, per, fun i => (adj i).1, fun i => (adj i).2, fun i d hd2 hdn => ?_⟩
  have hi := Nat.mod_lt i hN
  rw [pmod per i, pmod_add per i 1, show i + d + 1 = i + (d + 1) from by ring,
    pmod_add per i d, pmod_add per i (d+1)]
  generalize i % N = x at hi
  by_cases hc : x + d < N
  · rw [show x + (d + 1) = x + d + 1 from by ring]
    exact pair_far (by omega) (by omega) (by omega) (hall x (x+d) hi hc)
  · have q0 : P (x + d) = P (x + d - N) := by rw [← per (x + d - N)]; congr 1; omega
    have q1 : P (x + (d + 1)) = P (x + d - N + 1) := by rw [← per (x + d - N + 1)]; congr 1; omega
    rw [q0, q1]
    intro hm
    exact pair_far (x := x + d - N) (y := x) (by omega) (by omega) (by omega)
      (hall (x + d - N) x (by omega) hi) ((segsMeet_comm _ _ _ _).1 hm)

/-- the periodic vertex sequence of a point list -/
def cyc (L : List Pt) (k : Nat) : Pt := L[k % nptsL L]!

theorem cyc_per (L : List Pt) (i : Nat) : cyc L (i + nptsL L) = cyc L i := by
  unfold cyc; rw [Nat.add_mod_right]

theorem ring_data (L : List Pt) (hs : Spec.simpleRing L = true) :
    3 ≤ L.length ∧ 3 ≤ nptsL L ∧
    Spec.edges L true = (List.range (nptsL L)).map (fun i => (cyc L i, cyc L (i+1))) ∧
    Simple0 (cyc L) (nptsL L) := by
  unfold Spec.simpleRing at hs
  simp only [Bool.and_eq_true, decide_eq_true_eq, List.all_eq_true, List.mem_range] at hs
  obtain ⟨⟨h3, -⟩, hall⟩ := hs
  have hlen : 3 ≤ L.length := by
    by_contra hc
    have : Spec.edges L true = [] := by
      unfold Spec.edges; simp [show L.length < 3 by omega]
    rw [this] at h3
    simp at h3
  have hE : Spec.edges L true = (List.range (nptsL L)).map (fun i => (cyc L i, cyc L (i+1))) := by
    rw [edges_cyc L hlen]
    apply List.map_congr_left
    intro i hi
    have hi := List.mem_range.1 hi
    simp only [cyc, Nat.mod_eq_of_lt hi]
  generalize hEE : (Spec.edges L true).toArray = E at h3 hall
  have hsz : E.size = nptsL L := by rw [← hEE, hE]; simp
  have hget : ∀ x, x < nptsL L → E[x]! = (cyc L x, cyc L (x+1)) := fun x hx => by
    rw [← hEE, hE]; simp [hx]
  rw [hsz] at h3 hall
  refine ⟨hlen, h3, hE, simple0_of_pairs h3 (cyc_per L) (fun x y hx hy => ?_)⟩
  have := (hall x hx).2 y hy
  rw [hget x hx, hget y hy] at this
  exact this

theorem turn_eq_cross (a b c : Pt) : turn a b c = Spec.cross a b c := by
  simp only [turn, K.cross_def]; ring

theorem turnAt_cyc (L : List Pt) (i : Nat) (hi : i < nptsL L) :
    turnAt (fun j => L[j]!) (nptsL L) i = Spec.cross (cyc L i) (cyc L (i+1)) (cyc L (i+2)) := by
  simp only [turnAt, turn_eq_cross, cyc, Nat.mod_eq_of_lt hi]

/-- the convex flag: all turns of one orientation -/
theorem flag_turns (L : List Pt) (hlen : 3 ≤ L.length)
    (hc : (processPoints L.toArray true).convex = true) :
    (∀ i, 0 ≤ Spec.cross (cyc L i) (cyc L (i+1)) (cyc L (i+2))) ∨
    (∀ i, Spec.cross (cyc L i) (cyc L (i+1)) (cyc L (i+2)) ≤ 0) := by
  have hN : 0 < nptsL L := nptsL_pos L (by omega)
  rw [convex_iff L.toArray (by simpa using hlen)] at hc
  simp only [List.toList_toArray] at hc
  rw [convexSpec_cyc L (by omega)] at hc
  simp only [Bool.not_eq_true', Bool.and_eq_false_iff, List.any_eq_false, List.mem_map,
    List.mem_range, decide_eq_true_eq, forall_exists_index, and_imp] at hc
  have red : ∀ i, Spec.cross (cyc L i) (cyc L (i+1)) (cyc L (i+2)) =
      turnAt (fun j => L[j]!) (nptsL L) (i % nptsL L) := fun i => by
    rw [turnAt_cyc L _ (Nat.mod_lt _ hN), pmod (cyc_per L) i, pmod_add (cyc_per L) i 1,
      pmod_add (cyc_per L) i 2]
  rcases hc with h | h
  · right; intro i; rw [red]
    exact not_lt.1 (h _ (i % nptsL L) (Nat.mod_lt _ hN) rfl)
  · left; intro i; rw [red]
    exact not_lt.1 (h _ (i % nptsL L) (Nat.mod_lt _ hN) rfl)

theorem mem_cyc (L : List Pt) (hlen : 3 ≤ L.length) (v : Pt) (hv : v ∈ L) : ∃ j, v = cyc L j := by
  obtain ⟨j, hj, rfl⟩ := List.getElem_of_mem hv
  by_cases hjn : j < nptsL L
  · refine ⟨j, ?_⟩
    simp only [cyc, Nat.mod_eq_of_lt hjn]
    rw [getElem!_pos L j hj]
  · refine ⟨0, ?_⟩
    have hN : 0 < nptsL L := nptsL_pos L (by omega)
    simp only [cyc, Nat.zero_mod]
    unfold nptsL at hjn
    split_ifs at hjn with hcl
    · have e : j = L.length - 1 := by omega
      subst e
      rw [← hcl, getElem!_pos L _ hj]
    · omega

/-- LEMMA S, executable form -/
theorem supportOK_of_simple (L : List Pt) (hs : Spec.simpleRing L = true)
    (hc : (processPoints L.toArray true).convex = true) : SupportOK L = true := by
  obtain ⟨hlen, h3, hE, hS⟩ := ring_data L hs
  unfold SupportOK
  rw [List.all_eq_true]
  intro e he
  rw [hE, List.mem_map] at he
  obtain ⟨i, -, rfl⟩ := he
  simp only [Bool.and_eq_true, Bool.or_eq_true, decide_eq_true_eq, List.all_eq_true]
  refine ⟨hS.ne i, ?_⟩
  rcases flag_turns L hlen hc with ht | ht
  · left; intro v hv
    obtain ⟨j, rfl⟩ := mem_cyc L hlen v hv
    exact support_of_left hS ht i j
  · right; intro v hv
    obtain ⟨j, rfl⟩ := mem_cyc L hlen v hv
    exact support_of_right hS ht i j

end Cvx
end Geo
