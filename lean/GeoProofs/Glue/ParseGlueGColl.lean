/-
  GeoProofs.Glue.ParseGlueGColl — generated parseJSONGeometryCollection = the "GeometryCollection" arm of
  the model's parse, given that the recursion parameter rec_Parse agrees with the model one level down.
-/
import GeoProofs.Glue.ParseGlueOK

set_option linter.unusedSimpArgs false

namespace Geo.PGlue
open Geo Geo.PGen

/-- error component against a model error: `unmodelled` is not compared, the argument of the
    unknown-type error is not compared -/
def errU (x : Option (PGen.Err MStr)) (e : PErr) : Prop :=
  match e with
  | .unmodelled => True
  | .typeUnknown => ∃ s, x = some (.fmtErrTypeIsUnknown s)
  | e => x = some (errG e)

def AgreeU (g : Obj × Option (PGen.Err MStr)) (m : Except PErr Obj) : Prop :=
  match m with
  | .ok ob => g = (ob, none)
  | .error e => errU g.2 e

theorem Agree.toU {g : Obj × Option (PGen.Err MStr)} {m : Except PErr Obj} (h : Agree g m) : AgreeU g m := by
  cases m with
  | ok ob => exact h
  | error e => cases e <;> simp_all [Agree, AgreeU, errU, errG]

/-- the recursion parameter agrees with the model at `fuel`, on values without overflowing literals -/
def RecOK (rec : RecT) (o : POpts) (fuel : Nat) : Prop :=
  ∀ v : JVal, JOK v = true → AgreeU (rec [Piece.doc v] (some (optsG o))) (parse o fuel v)

abbrev GGC := PGen.GeometryCollection MF GRect Obj (List Obj) MStr

theorem gcoll_fold (rec : RecT) (o : POpts) (fuel : Nat) (hrec : RecOK rec o fuel) :
    ∀ (items : List JVal) (xs : List RPair), xs.map (·.2) = items.map some → (∀ v ∈ items, JOK v = true) → ∀ (g : GGC),
    match parseList o fuel items with
    | .ok children =>
      searchFold (PGen.parseJSONGeometryCollection_lit1 (mops rec) (some (optsG o))) xs (g, none) =
        ({ g with collection := { g.collection with children := g.collection.children ++ children } }, none)
    | .error e => errU (searchFold (PGen.parseJSONGeometryCollection_lit1 (mops rec) (some (optsG o))) xs (g, none)).2 e := by
  intro items
  induction items with
  | nil => intro xs h _ g; simp at h; subst h; simp [parseList, searchFold]
  | cons v vs ih =>
    intro xs h hJ g
    cases xs with
    | nil => simp at h
    | cons x xs =>
      simp only [List.map_cons, List.cons.injEq] at h
      obtain ⟨hx, hxs⟩ := h
      obtain ⟨k, x2⟩ := x
      simp only at hx; subst hx
      have hr := hrec v (hJ v (by simp))
      rw [parseList]
      have hstep : PGen.parseJSONGeometryCollection_lit1 (mops rec) (some (optsG o)) (k, some v) (g, none) =
          (if !(rec [Piece.doc v] (some (optsG o))).2.isNone then ((g, (rec [Piece.doc v] (some (optsG o))).2), false)
           else (({ g with collection := { g.collection with children := g.collection.children ++ [(rec [Piece.doc v] (some (optsG o))).1] } },
                  (rec [Piece.doc v] (some (optsG o))).2), true)) := by
        rfl
      cases hp : parse o fuel v with
      | error e =>
        rw [hp] at hr
        simp only
        cases hn : (rec [Piece.doc v] (some (optsG o))).2 with
        | none =>
          -- only possible when the model declined (unmodelled)
          cases e <;> simp [AgreeU, errU, hn] at hr ⊢
        | some ge =>
          rw [searchFold, hstep]; simp only [hn, Option.isNone_some, Bool.not_false, if_true]
          simpa [AgreeU, hn] using hr
      | ok c =>
        rw [hp] at hr
        simp only [AgreeU] at hr
        have hstep' : PGen.parseJSONGeometryCollection_lit1 (mops rec) (some (optsG o)) (k, some v) (g, none) =
            (({ g with collection := { g.collection with children := g.collection.children ++ [c] } }, none), true) := by
          rw [hstep, hr]; rfl
        rw [searchFold_cons_true _ _ _ _ _ hstep']
        have := ih xs hxs (fun v' h' => hJ v' (by simp [h'])) { g with collection := { g.collection with children := g.collection.children ++ [c] } }
        cases hl : parseList o fuel vs with
        | error e => rw [hl] at this; simpa using this
        | ok cs => rw [hl] at this; simp only at this ⊢; rw [this]; simp

/-- the "GeometryCollection" arm of the model's parse (fuel = the fuel of the recursive calls) -/
def mGColl (o : POpts) (fuel : Nat) (k : Keys) : Except PErr Obj :=
  match reqArray k.geometries .geometriesMissing .geometriesInvalid with
  | .error e => .error e
  | .ok (.arr items) =>
    match parseList o fuel items with
    | .error e => .error e
    | .ok children => .ok (mkColl o .geometryCollection children (withMembers none k))
  | .ok _ => .error .geometriesInvalid

theorem gcoll_eq (rec : RecT) (o : POpts) (fuel : Nat) (hrec : RecOK rec o fuel) (gk : GKeys) (k : Keys) (hk : KeysRel gk k)
    (hJ : ∀ items, k.geometries = some (.arr items) → ∀ v ∈ items, JOK v = true) :
    AgreeU (PGen.parseJSONGeometryCollection (mops rec) (some gk) (some (optsG o))) (mGColl o fuel k) := by
  unfold PGen.parseJSONGeometryCollection mGColl reqArray
  simp only [m_gjsonResultExists, m_gjsonResultIsArray, m_gjsonResultForEach, m_nilObject, m_objectOfGeometryCollection,
    deref_some, hk.geoms]
  cases hc : k.geometries with
  | none => simp [AgreeU, errU, errG]
  | some rc =>
    cases rc with
    | arr items =>
      have hf := gcoll_fold rec o fuel hrec items (forEach (some (.arr items))) (by simp [forEach]) (hJ items hc) (PGen.zeroGeometryCollection (mops rec))
      simp only [Option.isSome_some, Bool.not_true, Bool.false_eq_true, if_false, JVal.isArray, ↓reduceIte]
      cases hl : parseList o fuel items with
      | error e =>
        rw [hl] at hf
        simp only [AgreeU]
        generalize searchFold (PGen.parseJSONGeometryCollection_lit1 (mops rec) (some (optsG o))) (forEach (some (JVal.arr items)))
          (PGen.zeroGeometryCollection (mops rec), none) = R at hf ⊢
        cases hR : R.2 with
        | none => cases e <;> simp [errU, hR] at hf ⊢
        | some ge => simpa [hR] using hf
      | ok children =>
        rw [hl] at hf
        simp only at hf
        rw [hf]
        simp only [Option.isNone_none, Bool.not_true, Bool.false_eq_true, if_false]
        have hb := bbox_eq rec none gk (some (optsG o)) k hk
        have hz : (PGen.zeroGeometryCollection (mops rec)).collection.extra = none := rfl
        simp only [hz]
        generalize PGen.parseBBoxAndExtras (mops rec) none (some gk) (some (optsG o)) = B at hb ⊢
        obtain ⟨hb1, hb2⟩ := hb
        simp only [hb1, Option.isNone_none, Bool.not_true, Bool.false_eq_true, if_false, AgreeU]
        rw [initRect_obj rec .geometryCollection _ o rfl]
        simp [hb2, PGen.zeroGeometryCollection]
    | null => simp [AgreeU, errU, errG, JVal.isArray]
    | tru => simp [AgreeU, errU, errG, JVal.isArray]
    | fls => simp [AgreeU, errU, errG, JVal.isArray]
    | num _ _ _ _ _ => simp [AgreeU, errU, errG, JVal.isArray]
    | str _ _ => simp [AgreeU, errU, errG, JVal.isArray]
    | obj _ => simp [AgreeU, errU, errG, JVal.isArray]

#print axioms gcoll_eq

end Geo.PGlue
