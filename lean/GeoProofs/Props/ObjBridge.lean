/-
  GeoProofs.Props.ObjBridge — the methods of the LEAF and WRAPPER object kinds (*Point,
  *SimplePoint, *LineString, *Polygon, *Rect, *Feature, *Circle, and what *MultiLineString,
  *MultiPolygon, … declare themselves), REGENERATED from the current Go source
  (GeoModel/Generated/ObjMethGen.lean, `translate objmeth`) and instantiated with the hand model
  GeoModel/Object.lean (`OGlue.mopsO`, Glue/ObjGlue.lean), compute the model's functions on the
  corresponding `Obj` constructor.

  Per kind and method: `<kind>_<method>`.  Valid: the generated `Valid` is the geometry-level validity;
  the model's `Obj.valid` additionally demands that every ordinate is finite (`Pos.fin`: the model
  computes over Rat, NaN / ±Inf are carried by that flag), so `<kind>_valid` reads
  model = (finite ∧ generated).
  Circle: the hand model has no planar Circle (every planar method of `Obj.circle` is a placeholder,
  Object.lean), so only Empty / NumPoints / Center / ForEach / Within / Members are bridged; the
  arguments of Point.Intersects / SimplePoint.Intersects are taken not to be Circles
  (`point_intersects_circle` says what the generated code does on one).

  Recursion through the interfaces: `model_solves_all` = the model satisfies ALL generated dispatch
  equations (leaves, Feature, the five collection kinds through CollGen);
  `solves_all_unique` = any dispatch that satisfies them (and is the placeholder on Circles) IS the
  model — one statement for leaves + wrappers + collections.
-/
import GeoProofs.Glue.ObjGlue
import GeoProofs.Props.CollBridge

namespace Geo.ObjBridge
open Geo Geo.OGen Geo.CGlue Geo.OGlue Geo.Obj

variable (u : Unint)

/-- the generated methods with every interface call dispatched to the hand model -/
abbrev mops := mopsO Disp.model u

/-! ### *Point (point.go) ↔ `Obj.point pos ex` -/
section point
variable (g : MPoint)

theorem point_forEach {σ : Type} (iter : Obj → σ → σ × Bool) (s : σ) :
    pointForEach (mops u) g iter s = CGen.iterate iter g.obj.leaves s := by
  rw [atom_leaves (a := g.obj) rfl, iterate_single]; rfl
theorem point_empty : pointEmpty (mops u) g = g.obj.empty := by simp [MPoint.obj, Obj.empty]; rfl
theorem point_valid : g.obj.valid = (g.pos.fin && pointValid (mops u) g) := by
  simp [MPoint.obj, Obj.valid]; rfl
theorem point_rect : pointRect (mops u) g = g.obj.rect := by simp [MPoint.obj, Obj.rect]; rfl
theorem point_spatial : pointSpatial (mops u) g = g.obj := rfl
theorem point_center : pointCenter (mops u) g = g.obj.center := by simp [MPoint.obj, Obj.center]; rfl
theorem point_base : pointBase (mops u) g = g.pos.p := rfl
theorem point_within (x : Obj) : pointWithin (mops u) g x = g.obj.within x := rfl
theorem point_contains (x : Obj) : pointContains (mops u) g x = g.obj.contains x := by
  rw [MPoint.obj, Obj.contains]; rfl
theorem point_intersects (x : Obj) (hx : isCircle x = false) :
    pointIntersects (mops u) g x = g.obj.intersects x := by
  rw [MPoint.obj, Obj.intersects]
  cases x <;> first | rfl | simp [isCircle] at hx
/-- on a Circle argument Point.Intersects is the haversine test of circle.go (the model: false) -/
theorem point_intersects_circle (c : MCircle) :
    pointIntersects (mops u) g c.obj = circleContainsPoint (mops u) c g.pos.p := rfl
theorem point_withinRect (r : Box) : pointWithinRect (mops u) g r = g.obj.withinRect r := by
  rw [MPoint.obj, Obj.withinRect]; rfl
theorem point_withinPoint (q : Pt) : pointWithinPoint (mops u) g q = g.obj.withinPoint q := by
  rw [MPoint.obj, Obj.withinPoint]; rfl
theorem point_withinLine (l : Line) : pointWithinLine (mops u) g l = g.obj.withinLine l := by
  rw [MPoint.obj, Obj.withinLine]; rfl
theorem point_withinPoly (p : Poly) : pointWithinPoly (mops u) g p = g.obj.withinPoly p := by
  rw [MPoint.obj, Obj.withinPoly]; rfl
theorem point_intersectsPoint (q : Pt) : pointIntersectsPoint (mops u) g q = g.obj.intersectsPoint q := by
  rw [MPoint.obj, Obj.intersectsPoint]; rfl
theorem point_intersectsRect (r : Box) : pointIntersectsRect (mops u) g r = g.obj.intersectsRect r := by
  rw [MPoint.obj, Obj.intersectsRect]; rfl
theorem point_intersectsLine (l : Line) : pointIntersectsLine (mops u) g l = g.obj.intersectsLine l := by
  rw [MPoint.obj, Obj.intersectsLine]; rfl
theorem point_intersectsPoly (p : Poly) : pointIntersectsPoly (mops u) g p = g.obj.intersectsPoly p := by
  rw [MPoint.obj, Obj.intersectsPoly]; rfl
theorem point_numPoints : pointNumPoints (mops u) g = Int.ofNat g.obj.numPoints := by
  simp [MPoint.obj, Obj.numPoints]; rfl
theorem point_isSimple : pointIsSimple (mops u) g = g.ex.isNone := rfl
theorem point_members : pointMembers (mops u) g = (match g.ex with | some e => e.members | none => "") := by
  unfold pointMembers; simp only [mopsO]; cases g.ex <;> rfl
/-- the Distance* methods measure from the point (geo distance uninterpreted) -/
theorem point_distance (x : Obj) (q : Pt) (r : Box) (l : Line) (p : Poly) :
    pointDistance (mops u) g x = u.sdistPoint x g.pos.p ∧
    pointDistancePoint (mops u) g q = u.dist g.obj.center q ∧
    pointDistanceRect (mops u) g r = u.dist g.obj.center r.center ∧
    pointDistanceLine (mops u) g l = u.dist g.obj.center l.rect.center ∧
    pointDistancePoly (mops u) g p = u.dist g.obj.center p.rect.center := by
  simp only [MPoint.obj, Obj.center]; exact ⟨rfl, rfl, rfl, rfl, rfl⟩
end point

/-! ### *SimplePoint (simplepoint.go) ↔ `Obj.spoint pos` -/
section spoint
variable (g : Pos)

theorem spoint_forEach {σ : Type} (iter : Obj → σ → σ × Bool) (s : σ) :
    simplePointForEach (mops u) g iter s = CGen.iterate iter (Obj.spoint g).leaves s := by
  rw [atom_leaves (a := (Obj.spoint g)) rfl, iterate_single]; rfl
theorem spoint_empty : simplePointEmpty (mops u) g = (Obj.spoint g).empty := by simp [Obj.empty]; rfl
theorem spoint_valid : (Obj.spoint g).valid = (g.fin && simplePointValid (mops u) g) := by
  simp [Obj.valid]; rfl
theorem spoint_rect : simplePointRect (mops u) g = (Obj.spoint g).rect := by simp [Obj.rect]; rfl
theorem spoint_spatial : simplePointSpatial (mops u) g = (Obj.spoint g) := rfl
theorem spoint_center : simplePointCenter (mops u) g = (Obj.spoint g).center := by simp [Obj.center]; rfl
theorem spoint_base : simplePointBase (mops u) g = g.p := rfl
theorem spoint_within (x : Obj) : simplePointWithin (mops u) g x = (Obj.spoint g).within x := rfl
theorem spoint_contains (x : Obj) : simplePointContains (mops u) g x = (Obj.spoint g).contains x := by
  rw [Obj.contains]; rfl
theorem spoint_intersects (x : Obj) (hx : isCircle x = false) :
    simplePointIntersects (mops u) g x = (Obj.spoint g).intersects x := by
  rw [Obj.intersects]
  cases x <;> first | rfl | simp [isCircle] at hx
/-- on a Circle argument Intersects is the haversine test of circle.go (the model: false) -/
theorem spoint_intersects_circle (c : MCircle) :
    simplePointIntersects (mops u) g c.obj = circleContainsPoint (mops u) c g.p := rfl
theorem spoint_withinRect (r : Box) : simplePointWithinRect (mops u) g r = (Obj.spoint g).withinRect r := by
  rw [Obj.withinRect]; rfl
theorem spoint_withinPoint (q : Pt) : simplePointWithinPoint (mops u) g q = (Obj.spoint g).withinPoint q := by
  rw [Obj.withinPoint]; rfl
theorem spoint_withinLine (l : Line) : simplePointWithinLine (mops u) g l = (Obj.spoint g).withinLine l := by
  rw [Obj.withinLine]; rfl
theorem spoint_withinPoly (p : Poly) : simplePointWithinPoly (mops u) g p = (Obj.spoint g).withinPoly p := by
  rw [Obj.withinPoly]; rfl
theorem spoint_intersectsPoint (q : Pt) : simplePointIntersectsPoint (mops u) g q = (Obj.spoint g).intersectsPoint q := by
  rw [Obj.intersectsPoint]; rfl
theorem spoint_intersectsRect (r : Box) : simplePointIntersectsRect (mops u) g r = (Obj.spoint g).intersectsRect r := by
  rw [Obj.intersectsRect]; rfl
theorem spoint_intersectsLine (l : Line) : simplePointIntersectsLine (mops u) g l = (Obj.spoint g).intersectsLine l := by
  rw [Obj.intersectsLine]; rfl
theorem spoint_intersectsPoly (p : Poly) : simplePointIntersectsPoly (mops u) g p = (Obj.spoint g).intersectsPoly p := by
  rw [Obj.intersectsPoly]; rfl
theorem spoint_numPoints : simplePointNumPoints (mops u) g = Int.ofNat (Obj.spoint g).numPoints := by
  simp [Obj.numPoints]; rfl
theorem spoint_members : simplePointMembers (mops u) g = "" := rfl
/-- the Distance* methods measure from the centre (geo distance uninterpreted) -/
theorem spoint_distance (x : Obj) (q : Pt) (r : Box) (l : Line) (p : Poly) :
    simplePointDistance (mops u) g x = u.sdistPoint x g.p ∧
    simplePointDistancePoint (mops u) g q = u.dist (simplePointCenter (mops u) g) q ∧
    simplePointDistanceRect (mops u) g r = u.dist (simplePointCenter (mops u) g) r.center ∧
    simplePointDistanceLine (mops u) g l = u.dist (simplePointCenter (mops u) g) l.rect.center ∧
    simplePointDistancePoly (mops u) g p = u.dist (simplePointCenter (mops u) g) p.rect.center :=
  ⟨rfl, rfl, rfl, rfl, rfl⟩
end spoint

/-! ### *LineString (linestring.go) ↔ `Obj.lineString l poss ex` -/
section line
variable (g : MLine)

theorem line_forEach {σ : Type} (iter : Obj → σ → σ × Bool) (s : σ) :
    lineStringForEach (mops u) g iter s = CGen.iterate iter g.obj.leaves s := by
  rw [atom_leaves (a := g.obj) rfl, iterate_single]; rfl
theorem line_empty : lineStringEmpty (mops u) g = g.obj.empty := by simp [MLine.obj, Obj.empty]; rfl
theorem line_valid : g.obj.valid = (g.poss.all (·.fin) && lineStringValid (mops u) g) := by
  simp [MLine.obj, Obj.valid]; rfl
theorem line_rect : lineStringRect (mops u) g = g.obj.rect := by simp [MLine.obj, Obj.rect]; rfl
theorem line_spatial : lineStringSpatial (mops u) g = g.obj := rfl
theorem line_center : lineStringCenter (mops u) g = g.obj.center := by simp [MLine.obj, Obj.center]; rfl
theorem line_base : lineStringBase (mops u) g = g.l := rfl
theorem line_within (x : Obj) : lineStringWithin (mops u) g x = g.obj.within x := rfl
theorem line_contains (x : Obj) : lineStringContains (mops u) g x = g.obj.contains x := by
  rw [MLine.obj, Obj.contains]; rfl
theorem line_intersects (x : Obj) : lineStringIntersects (mops u) g x = g.obj.intersects x := by
  rw [MLine.obj, Obj.intersects]; rfl
theorem line_withinRect (r : Box) : lineStringWithinRect (mops u) g r = g.obj.withinRect r := by
  rw [MLine.obj, Obj.withinRect]; rfl
theorem line_withinPoint (q : Pt) : lineStringWithinPoint (mops u) g q = g.obj.withinPoint q := by
  rw [MLine.obj, Obj.withinPoint]; rfl
theorem line_withinLine (l : Line) : lineStringWithinLine (mops u) g l = g.obj.withinLine l := by
  rw [MLine.obj, Obj.withinLine]; rfl
theorem line_withinPoly (p : Poly) : lineStringWithinPoly (mops u) g p = g.obj.withinPoly p := by
  rw [MLine.obj, Obj.withinPoly]; rfl
theorem line_intersectsPoint (q : Pt) : lineStringIntersectsPoint (mops u) g q = g.obj.intersectsPoint q := by
  rw [MLine.obj, Obj.intersectsPoint]; rfl
theorem line_intersectsRect (r : Box) : lineStringIntersectsRect (mops u) g r = g.obj.intersectsRect r := by
  rw [MLine.obj, Obj.intersectsRect]; rfl
theorem line_intersectsLine (l : Line) : lineStringIntersectsLine (mops u) g l = g.obj.intersectsLine l := by
  rw [MLine.obj, Obj.intersectsLine]; rfl
theorem line_intersectsPoly (p : Poly) : lineStringIntersectsPoly (mops u) g p = g.obj.intersectsPoly p := by
  rw [MLine.obj, Obj.intersectsPoly]; rfl
theorem line_numPoints : lineStringNumPoints (mops u) g = Int.ofNat g.obj.numPoints := by
  simp [MLine.obj, Obj.numPoints]; rfl
theorem line_members : lineStringMembers (mops u) g = (match g.ex with | some e => e.members | none => "") := by
  unfold lineStringMembers; simp only [mopsO]; cases g.ex <;> rfl
/-- the Distance* methods measure from the centre (geo distance uninterpreted) -/
theorem line_distance (x : Obj) (q : Pt) (r : Box) (l : Line) (p : Poly) :
    lineStringDistance (mops u) g x = u.sdistLine x g.l ∧
    lineStringDistancePoint (mops u) g q = u.dist (lineStringCenter (mops u) g) q ∧
    lineStringDistanceRect (mops u) g r = u.dist (lineStringCenter (mops u) g) r.center ∧
    lineStringDistanceLine (mops u) g l = u.dist (lineStringCenter (mops u) g) l.rect.center ∧
    lineStringDistancePoly (mops u) g p = u.dist (lineStringCenter (mops u) g) p.rect.center :=
  ⟨rfl, rfl, rfl, rfl, rfl⟩
end line

/-! ### *Polygon (polygon.go) ↔ `Obj.polygon poly rings ex` -/
section poly
variable (g : MPoly)

theorem poly_forEach {σ : Type} (iter : Obj → σ → σ × Bool) (s : σ) :
    polygonForEach (mops u) g iter s = CGen.iterate iter g.obj.leaves s := by
  rw [atom_leaves (a := g.obj) rfl, iterate_single]; rfl
theorem poly_empty : polygonEmpty (mops u) g = g.obj.empty := by simp [MPoly.obj, Obj.empty]; rfl
theorem poly_valid : g.obj.valid = (g.rings.all (·.all (·.fin)) && polygonValid (mops u) g) := by
  simp [MPoly.obj, Obj.valid]; rfl
theorem poly_rect : polygonRect (mops u) g = g.obj.rect := by simp [MPoly.obj, Obj.rect]; rfl
theorem poly_spatial : polygonSpatial (mops u) g = g.obj := rfl
theorem poly_center : polygonCenter (mops u) g = g.obj.center := by simp [MPoly.obj, Obj.center]; rfl
theorem poly_base : polygonBase (mops u) g = g.poly := rfl
theorem poly_within (x : Obj) : polygonWithin (mops u) g x = g.obj.within x := rfl
theorem poly_contains (x : Obj) : polygonContains (mops u) g x = g.obj.contains x := by
  rw [MPoly.obj, Obj.contains]; rfl
theorem poly_intersects (x : Obj) : polygonIntersects (mops u) g x = g.obj.intersects x := by
  rw [MPoly.obj, Obj.intersects]; rfl
theorem poly_withinRect (r : Box) : polygonWithinRect (mops u) g r = g.obj.withinRect r := by
  rw [MPoly.obj, Obj.withinRect]; rfl
theorem poly_withinPoint (q : Pt) : polygonWithinPoint (mops u) g q = g.obj.withinPoint q := by
  rw [MPoly.obj, Obj.withinPoint]; rfl
theorem poly_withinLine (l : Line) : polygonWithinLine (mops u) g l = g.obj.withinLine l := by
  rw [MPoly.obj, Obj.withinLine]; rfl
theorem poly_withinPoly (p : Poly) : polygonWithinPoly (mops u) g p = g.obj.withinPoly p := by
  rw [MPoly.obj, Obj.withinPoly]; rfl
theorem poly_intersectsPoint (q : Pt) : polygonIntersectsPoint (mops u) g q = g.obj.intersectsPoint q := by
  rw [MPoly.obj, Obj.intersectsPoint]; rfl
theorem poly_intersectsRect (r : Box) : polygonIntersectsRect (mops u) g r = g.obj.intersectsRect r := by
  rw [MPoly.obj, Obj.intersectsRect]; rfl
theorem poly_intersectsLine (l : Line) : polygonIntersectsLine (mops u) g l = g.obj.intersectsLine l := by
  rw [MPoly.obj, Obj.intersectsLine]; rfl
theorem poly_intersectsPoly (p : Poly) : polygonIntersectsPoly (mops u) g p = g.obj.intersectsPoly p := by
  rw [MPoly.obj, Obj.intersectsPoly]; rfl
theorem poly_numPoints : polygonNumPoints (mops u) g = Int.ofNat g.obj.numPoints := by
  unfold polygonNumPoints
  simp only [mopsO, MPoly.obj, Obj.numPoints]
  cases g.poly.ext with
  | none => rfl
  | some e =>
    simp only []
    rw [forRange_sumInt _ Ring.numPoints (fun _ _ => rfl)]
    simp
theorem poly_hasExtra : polygonHasExtra (mops u) g = g.ex.isSome := rfl
theorem poly_members : polygonMembers (mops u) g = (match g.ex with | some e => e.members | none => "") := by
  unfold polygonMembers; simp only [mopsO]; cases g.ex <;> rfl
/-- the Distance* methods measure from the centre (geo distance uninterpreted) -/
theorem poly_distance (x : Obj) (q : Pt) (r : Box) (l : Line) (p : Poly) :
    polygonDistance (mops u) g x = u.sdistPoly x g.poly ∧
    polygonDistancePoint (mops u) g q = u.dist (polygonCenter (mops u) g) q ∧
    polygonDistanceRect (mops u) g r = u.dist (polygonCenter (mops u) g) r.center ∧
    polygonDistanceLine (mops u) g l = u.dist (polygonCenter (mops u) g) l.rect.center ∧
    polygonDistancePoly (mops u) g p = u.dist (polygonCenter (mops u) g) p.rect.center :=
  ⟨rfl, rfl, rfl, rfl, rfl⟩
end poly

/-! ### *Rect (rect.go) ↔ `Obj.rectO b lo hi` -/
section rect
variable (g : MRect)

theorem rect_forEach {σ : Type} (iter : Obj → σ → σ × Bool) (s : σ) :
    rectForEach (mops u) g iter s = CGen.iterate iter g.obj.leaves s := by
  rw [atom_leaves (a := g.obj) rfl, iterate_single]; rfl
theorem rect_empty : rectEmpty (mops u) g = g.obj.empty := by simp [MRect.obj, Obj.empty]; rfl
theorem rect_valid : g.obj.valid = ((g.lo.fin && g.hi.fin) && rectValid (mops u) g) := by
  simp [MRect.obj, Obj.valid]; rfl
theorem rect_rect : rectRect (mops u) g = g.obj.rect := by simp [MRect.obj, Obj.rect]; rfl
theorem rect_spatial : rectSpatial (mops u) g = g.obj := rfl
theorem rect_center : rectCenter (mops u) g = g.obj.center := by simp [MRect.obj, Obj.center]; rfl
theorem rect_base : rectBase (mops u) g = g.b := rfl
theorem rect_within (x : Obj) : rectWithin (mops u) g x = g.obj.within x := rfl
theorem rect_contains (x : Obj) : rectContains (mops u) g x = g.obj.contains x := by
  rw [MRect.obj, Obj.contains]; rfl
theorem rect_intersects (x : Obj) : rectIntersects (mops u) g x = g.obj.intersects x := by
  rw [MRect.obj, Obj.intersects]; rfl
theorem rect_withinRect (r : Box) : rectWithinRect (mops u) g r = g.obj.withinRect r := by
  rw [MRect.obj, Obj.withinRect]; rfl
theorem rect_withinPoint (q : Pt) : rectWithinPoint (mops u) g q = g.obj.withinPoint q := by
  rw [MRect.obj, Obj.withinPoint]; rfl
theorem rect_withinLine (l : Line) : rectWithinLine (mops u) g l = g.obj.withinLine l := by
  rw [MRect.obj, Obj.withinLine]; rfl
theorem rect_withinPoly (p : Poly) : rectWithinPoly (mops u) g p = g.obj.withinPoly p := by
  rw [MRect.obj, Obj.withinPoly]; rfl
theorem rect_intersectsPoint (q : Pt) : rectIntersectsPoint (mops u) g q = g.obj.intersectsPoint q := by
  rw [MRect.obj, Obj.intersectsPoint]; rfl
theorem rect_intersectsRect (r : Box) : rectIntersectsRect (mops u) g r = g.obj.intersectsRect r := by
  rw [MRect.obj, Obj.intersectsRect]; rfl
theorem rect_intersectsLine (l : Line) : rectIntersectsLine (mops u) g l = g.obj.intersectsLine l := by
  rw [MRect.obj, Obj.intersectsLine]; rfl
theorem rect_intersectsPoly (p : Poly) : rectIntersectsPoly (mops u) g p = g.obj.intersectsPoly p := by
  rw [MRect.obj, Obj.intersectsPoly]; rfl
theorem rect_numPoints : rectNumPoints (mops u) g = Int.ofNat g.obj.numPoints := by
  simp [MRect.obj, Obj.numPoints]; rfl
theorem rect_members : rectMembers (mops u) g = "" := rfl
/-- the Distance* methods measure from the centre (geo distance uninterpreted) -/
theorem rect_distance (x : Obj) (q : Pt) (r : Box) (l : Line) (p : Poly) :
    rectDistance (mops u) g x = u.sdistRect x g.b ∧
    rectDistancePoint (mops u) g q = u.dist (rectCenter (mops u) g) q ∧
    rectDistanceRect (mops u) g r = u.dist (rectCenter (mops u) g) r.center ∧
    rectDistanceLine (mops u) g l = u.dist (rectCenter (mops u) g) l.rect.center ∧
    rectDistancePoly (mops u) g p = u.dist (rectCenter (mops u) g) p.rect.center :=
  ⟨rfl, rfl, rfl, rfl, rfl⟩
end rect

/-! ### *Feature (feature.go) ↔ `Obj.feature base ex` -/
section feature
variable (g : MFeature)

theorem feature_forEach {σ : Type} (iter : Obj → σ → σ × Bool) (s : σ) :
    featureForEach (mops u) g iter s = CGen.iterate iter g.obj.leaves s := by
  rw [MFeature.obj, Obj.leaves, iterate_single]
  · rfl
  · intro k cs ex idx h; cases h
theorem feature_empty : featureEmpty (mops u) g = g.obj.empty := by rw [MFeature.obj, Obj.empty]; rfl
theorem feature_valid : featureValid (mops u) g = g.obj.valid := by rw [MFeature.obj, Obj.valid]; rfl
theorem feature_rect : featureRect (mops u) g = g.obj.rect := by rw [MFeature.obj, Obj.rect]; rfl
theorem feature_spatial : featureSpatial (mops u) g = g.obj := rfl
theorem feature_center : featureCenter (mops u) g = g.obj.center := by
  rw [MFeature.obj, Obj.center, Obj.rect]
  · rfl
  · intro pos ex h; cases h
  · intro pos h; cases h
theorem feature_base : featureBase (mops u) g = g.base := rfl
theorem feature_within (x : Obj) : featureWithin (mops u) g x = g.obj.within x := rfl
theorem feature_contains (x : Obj) : featureContains (mops u) g x = g.obj.contains x := by
  rw [MFeature.obj, Obj.contains]; rfl
theorem feature_intersects (x : Obj) : featureIntersects (mops u) g x = g.obj.intersects x := by
  rw [MFeature.obj, Obj.intersects]; rfl
theorem feature_withinRect (r : Box) : featureWithinRect (mops u) g r = g.obj.withinRect r := by
  rw [MFeature.obj, Obj.withinRect]; rfl
theorem feature_withinPoint (q : Pt) : featureWithinPoint (mops u) g q = g.obj.withinPoint q := by
  rw [MFeature.obj, Obj.withinPoint]; rfl
theorem feature_withinLine (l : Line) : featureWithinLine (mops u) g l = g.obj.withinLine l := by
  rw [MFeature.obj, Obj.withinLine]; rfl
theorem feature_withinPoly (p : Poly) : featureWithinPoly (mops u) g p = g.obj.withinPoly p := by
  rw [MFeature.obj, Obj.withinPoly]; rfl
theorem feature_intersectsPoint (q : Pt) : featureIntersectsPoint (mops u) g q = g.obj.intersectsPoint q := by
  rw [MFeature.obj, Obj.intersectsPoint]; rfl
theorem feature_intersectsRect (r : Box) : featureIntersectsRect (mops u) g r = g.obj.intersectsRect r := by
  rw [MFeature.obj, Obj.intersectsRect]; rfl
theorem feature_intersectsLine (l : Line) : featureIntersectsLine (mops u) g l = g.obj.intersectsLine l := by
  rw [MFeature.obj, Obj.intersectsLine]; rfl
theorem feature_intersectsPoly (p : Poly) : featureIntersectsPoly (mops u) g p = g.obj.intersectsPoly p := by
  rw [MFeature.obj, Obj.intersectsPoly]; rfl
theorem feature_numPoints : featureNumPoints (mops u) g = Int.ofNat g.obj.numPoints := by
  rw [MFeature.obj, Obj.numPoints]; rfl
theorem feature_members : featureMembers (mops u) g = (match g.ex with | some e => e.members | none => "") := by
  unfold featureMembers; simp only [mopsO]; cases g.ex <;> rfl
/-- the Distance* methods are those of the base -/
theorem feature_distance (x : Obj) (q : Pt) (r : Box) (l : Line) (p : Poly) :
    featureDistance (mops u) g x = u.odist g.base x ∧
    featureDistancePoint (mops u) g q = u.sdistPoint g.base q ∧
    featureDistanceRect (mops u) g r = u.sdistRect g.base r ∧
    featureDistanceLine (mops u) g l = u.sdistLine g.base l ∧
    featureDistancePoly (mops u) g p = u.sdistPoly g.base p :=
  ⟨rfl, rfl, rfl, rfl, rfl⟩
end feature

/-! ### *Circle (circle.go) ↔ `Obj.circle center radius`

  The hand model has no planar Circle: `Obj.contains/intersects/within*/intersects*` of `.circle` are
  the placeholder `false`, `Obj.rect` is the centre's box, `Obj.valid` the finiteness of the centre.
  Bridged to the model: ForEach, Empty, NumPoints, Center, Within, Members.  The other theorems say
  what the generated code computes over the uninterpreted geodesy (`Unint`). -/
section circle
variable (c : MCircle)

theorem circle_forEach {σ : Type} (iter : Obj → σ → σ × Bool) (s : σ) :
    circleForEach (mops u) c iter s = CGen.iterate iter c.obj.leaves s := by
  rw [atom_leaves (a := c.obj) rfl, iterate_single]; rfl
theorem circle_empty : circleEmpty (mops u) c = c.obj.empty := by simp [MCircle.obj, Obj.empty]; rfl
theorem circle_numPoints : circleNumPoints (mops u) c = Int.ofNat c.obj.numPoints := by
  simp [MCircle.obj, Obj.numPoints]; rfl
theorem circle_center : circleCenter (mops u) c = c.obj.center := by
  have h : ∀ p : Pt, p.box.center = p := by
    intro p
    cases p with
    | mk x y =>
      simp only [Pt.box, Box.center, Pt.mk.injEq]
      constructor <;> linarith
  simp [MCircle.obj, Obj.center, Obj.rect, h]; rfl
theorem circle_within (x : Obj) : circleWithin (mops u) c x = c.obj.within x := rfl
theorem circle_members : circleMembers (mops u) c = "" := rfl
theorem circle_meters : circleMeters (mops u) c = u.cMeters c := rfl
theorem circle_haversine : circleHaversine (mops u) c = u.cHaversine c := rfl

/-- getObject: the cached polygon approximation, else makeCircleObject(center, meters, steps) -/
theorem circle_getObject : circleGetObject (mops u) c =
    (match u.cObject c with | some o => o | none => u.makeCircle c.center.p (u.cMeters c) (u.cSteps c)) := by
  unfold circleGetObject; simp only [mopsO]; cases u.cObject c <;> rfl
theorem circle_polygon : circlePolygon (mops u) c = circleGetObject (mops u) c := rfl
/-- Valid / Rect / Spatial / Distance are those of the polygon approximation -/
theorem circle_viaObject (x : Obj) :
    circleValid (mops u) c = (circleGetObject (mops u) c).valid ∧
    circleRect (mops u) c = (circleGetObject (mops u) c).rect ∧
    circleSpatial (mops u) c = circleGetObject (mops u) c ∧
    circleDistance (mops u) c x = u.odist (circleGetObject (mops u) c) x := ⟨rfl, rfl, rfl, rfl⟩
/-- containsPoint: the haversine from the point to the centre against the radius' haversine -/
theorem circle_containsPoint (p : Pt) : circleContainsPoint (mops u) c p =
    decide (u.haversine p.y p.x c.center.p.y c.center.p.x ≤ u.cHaversine c) := rfl
theorem circle_haversineTo (p : Pt) : circleHaversineTo (mops u) c p =
    u.haversine p.y p.x c.center.p.y c.center.p.x := rfl

/-- Contains: the type switch of circle.go, case by case -/
theorem circle_contains_point (g : MPoint) :
    circleContains (mops u) c g.obj = circleContainsPoint (mops u) c g.pos.p := rfl
theorem circle_contains_spoint (g : Pos) :
    circleContains (mops u) c (.spoint g) = circleContainsPoint (mops u) c g.p := rfl
theorem circle_contains_circle (o : MCircle) : circleContains (mops u) c o.obj =
    decide (u.odist (circleGetObject (mops u) o) c.obj + u.cMeters o ≤ u.cMeters c) := rfl
theorem circle_contains_coll (k : CollKind) (cs : List Obj) (ex : Option Extra) (idx : Bool) :
    circleContains (mops u) c (.coll k cs ex idx) = cs.all (u.recContains c) := by
  unfold circleContains
  simp only [mopsO, asPoint, asSimplePoint, asCircle, asColl]
  rw [forRange_allRet _ (u.recContains c) (fun _ _ => rfl)]
  cases cs.all (u.recContains c) <;> rfl
theorem circle_contains_line (g : MLine) : circleContains (mops u) c g.obj =
    (circleGetObject (mops u) c).contains g.obj := rfl
theorem circle_contains_poly (g : MPoly) : circleContains (mops u) c g.obj =
    (circleGetObject (mops u) c).contains g.obj := rfl
theorem circle_contains_rect (g : MRect) : circleContains (mops u) c g.obj =
    (circleGetObject (mops u) c).contains g.obj := rfl
theorem circle_contains_feature (g : MFeature) : circleContains (mops u) c g.obj =
    (circleGetObject (mops u) c).contains g.obj := rfl

/-- Intersects: the type switch of circle.go, case by case (a Feature forwards to its base) -/
theorem circle_intersects_point (g : MPoint) :
    circleIntersects (mops u) c g.obj = circleContainsPoint (mops u) c g.pos.p := rfl
theorem circle_intersects_spoint (g : Pos) :
    circleIntersects (mops u) c (.spoint g) = circleContainsPoint (mops u) c g.p := rfl
theorem circle_intersects_circle (o : MCircle) : circleIntersects (mops u) c o.obj =
    decide (u.odist (circleGetObject (mops u) o) c.obj ≤ u.cMeters o + u.cMeters c) := rfl
theorem circle_intersects_coll (k : CollKind) (cs : List Obj) (ex : Option Extra) (idx : Bool) :
    circleIntersects (mops u) c (.coll k cs ex idx) = cs.any (u.recIntersects c) := by
  unfold circleIntersects
  simp only [mopsO, asPoint, asSimplePoint, asCircle, asColl]
  rw [forRange_anyRet _ (u.recIntersects c) (fun _ _ => rfl)]
  cases cs.any (u.recIntersects c) <;> rfl
theorem circle_intersects_feature (g : MFeature) :
    circleIntersects (mops u) c g.obj = u.recIntersects c g.base := rfl
theorem circle_intersects_line (g : MLine) : circleIntersects (mops u) c g.obj =
    (circleGetObject (mops u) c).intersects g.obj := rfl
theorem circle_intersects_poly (g : MPoly) : circleIntersects (mops u) c g.obj =
    (circleGetObject (mops u) c).intersects g.obj := rfl
theorem circle_intersects_rect (g : MRect) : circleIntersects (mops u) c g.obj =
    (circleGetObject (mops u) c).intersects g.obj := rfl
end circle

/-! ### the wrapper kinds: what they declare next to the embedded *collection -/
section wrappers
variable (c : MColl)

/-- MultiLineString.Valid / MultiPolygon.Valid OVERRIDE collection.Valid: every child valid -/
theorem multiLineString_valid (hk : c.kind = .multiLineString) :
    multiLineStringValid (mops u) c = c.obj.valid := by
  unfold multiLineStringValid
  simp only [mopsO, id]
  rw [forRange_flag _ Obj.valid (fun _ _ => rfl)]
  obtain ⟨k, cs, ex, idx, t⟩ := c
  simp only at hk; subst hk
  simp [MColl.obj, Obj.valid, allValid_eq_all]
theorem multiPolygon_valid (hk : c.kind = .multiPolygon) :
    multiPolygonValid (mops u) c = c.obj.valid := by
  unfold multiPolygonValid
  simp only [mopsO, id]
  rw [forRange_flag _ Obj.valid (fun _ _ => rfl)]
  obtain ⟨k, cs, ex, idx, t⟩ := c
  simp only at hk; subst hk
  simp [MColl.obj, Obj.valid, allValid_eq_all]
/-- Members of the five wrapper kinds: the foreign members of the embedded collection -/
theorem wrapper_members :
    multiPointMembers (mops u) c = (match c.ex with | some e => e.members | none => "") ∧
    multiLineStringMembers (mops u) c = (match c.ex with | some e => e.members | none => "") ∧
    multiPolygonMembers (mops u) c = (match c.ex with | some e => e.members | none => "") ∧
    geometryCollectionMembers (mops u) c = (match c.ex with | some e => e.members | none => "") ∧
    featureCollectionMembers (mops u) c = (match c.ex with | some e => e.members | none => "") := by
  unfold multiPointMembers multiLineStringMembers multiPolygonMembers geometryCollectionMembers
    featureCollectionMembers
  simp only [mopsO, id]
  cases c.ex <;> exact ⟨rfl, rfl, rfl, rfl, rfl⟩
end wrappers

/-! ### ALL generated dispatch equations determine the model -/

/-- the twelve dispatched methods of `d` on the object `o` are the given (generated) functions;
    `okI` delimits the arguments of Intersects the equation is demanded for -/
structure KindEqs (d : Disp) (o : Obj) (okI : Obj → Bool)
    (forEach : ∀ {σ : Type}, (Obj → σ → σ × Bool) → σ → σ × Bool) (numPoints : Int)
    (contains intersects : Obj → Bool) (withinRect : Box → Bool) (withinPoint : Pt → Bool)
    (withinLine : Line → Bool) (withinPoly : Poly → Bool) (intersectsRect : Box → Bool)
    (intersectsPoint : Pt → Bool) (intersectsLine : Line → Bool) (intersectsPoly : Poly → Bool) : Prop where
  forEach : ∀ {σ : Type} (iter : Obj → σ → σ × Bool) (s : σ),
    CGen.iterate iter (d.forEach o) s = forEach iter s
  numPoints : Int.ofNat (d.numPoints o) = numPoints
  contains : ∀ x, d.contains o x = contains x
  intersects : ∀ x, okI x = true → d.intersects o x = intersects x
  withinRect : ∀ r, d.withinRect o r = withinRect r
  withinPoint : ∀ q, d.withinPoint o q = withinPoint q
  withinLine : ∀ l, d.withinLine o l = withinLine l
  withinPoly : ∀ p, d.withinPoly o p = withinPoly p
  intersectsRect : ∀ r, d.intersectsRect o r = intersectsRect r
  intersectsPoint : ∀ q, d.intersectsPoint o q = intersectsPoint q
  intersectsLine : ∀ l, d.intersectsLine o l = intersectsLine l
  intersectsPoly : ∀ p, d.intersectsPoly o p = intersectsPoly p

/-- `d` solves ALL generated dispatch equations: on every value of every kind each dispatched method
    is the generated method of that kind with the interface calls dispatched through `d` itself
    (collections: CollGen, `TreeOK` = the R-tree contract; leaves and Feature: ObjMethGen).  Circles
    are outside the planar model: on them `d` is the model's placeholder, and the equations of
    Point.Intersects / SimplePoint.Intersects are demanded for non-Circle arguments only. -/
structure SolvesAll (d : Disp) : Prop where
  coll : ∀ g : MColl, TreeOK g → KindEqs d g.obj (fun _ => true)
    (CGen.collectionForEach (mopsD d u.dist u.sdistPoint) g) (CGen.collectionNumPoints (mopsD d u.dist u.sdistPoint) g)
    (CGen.collectionContains (mopsD d u.dist u.sdistPoint) g) (CGen.collectionIntersects (mopsD d u.dist u.sdistPoint) g)
    (CGen.collectionWithinRect (mopsD d u.dist u.sdistPoint) g) (CGen.collectionWithinPoint (mopsD d u.dist u.sdistPoint) g)
    (CGen.collectionWithinLine (mopsD d u.dist u.sdistPoint) g) (CGen.collectionWithinPoly (mopsD d u.dist u.sdistPoint) g)
    (CGen.collectionIntersectsRect (mopsD d u.dist u.sdistPoint) g) (CGen.collectionIntersectsPoint (mopsD d u.dist u.sdistPoint) g)
    (CGen.collectionIntersectsLine (mopsD d u.dist u.sdistPoint) g) (CGen.collectionIntersectsPoly (mopsD d u.dist u.sdistPoint) g)
  point : ∀ g : MPoint, KindEqs d g.obj (fun x => !isCircle x)
    (pointForEach (mopsO d u) g) (pointNumPoints (mopsO d u) g)
    (pointContains (mopsO d u) g) (pointIntersects (mopsO d u) g)
    (pointWithinRect (mopsO d u) g) (pointWithinPoint (mopsO d u) g)
    (pointWithinLine (mopsO d u) g) (pointWithinPoly (mopsO d u) g)
    (pointIntersectsRect (mopsO d u) g) (pointIntersectsPoint (mopsO d u) g)
    (pointIntersectsLine (mopsO d u) g) (pointIntersectsPoly (mopsO d u) g)
  spoint : ∀ g : Pos, KindEqs d (.spoint g) (fun x => !isCircle x)
    (simplePointForEach (mopsO d u) g) (simplePointNumPoints (mopsO d u) g)
    (simplePointContains (mopsO d u) g) (simplePointIntersects (mopsO d u) g)
    (simplePointWithinRect (mopsO d u) g) (simplePointWithinPoint (mopsO d u) g)
    (simplePointWithinLine (mopsO d u) g) (simplePointWithinPoly (mopsO d u) g)
    (simplePointIntersectsRect (mopsO d u) g) (simplePointIntersectsPoint (mopsO d u) g)
    (simplePointIntersectsLine (mopsO d u) g) (simplePointIntersectsPoly (mopsO d u) g)
  line : ∀ g : MLine, KindEqs d g.obj (fun _ => true)
    (lineStringForEach (mopsO d u) g) (lineStringNumPoints (mopsO d u) g)
    (lineStringContains (mopsO d u) g) (lineStringIntersects (mopsO d u) g)
    (lineStringWithinRect (mopsO d u) g) (lineStringWithinPoint (mopsO d u) g)
    (lineStringWithinLine (mopsO d u) g) (lineStringWithinPoly (mopsO d u) g)
    (lineStringIntersectsRect (mopsO d u) g) (lineStringIntersectsPoint (mopsO d u) g)
    (lineStringIntersectsLine (mopsO d u) g) (lineStringIntersectsPoly (mopsO d u) g)
  poly : ∀ g : MPoly, KindEqs d g.obj (fun _ => true)
    (polygonForEach (mopsO d u) g) (polygonNumPoints (mopsO d u) g)
    (polygonContains (mopsO d u) g) (polygonIntersects (mopsO d u) g)
    (polygonWithinRect (mopsO d u) g) (polygonWithinPoint (mopsO d u) g)
    (polygonWithinLine (mopsO d u) g) (polygonWithinPoly (mopsO d u) g)
    (polygonIntersectsRect (mopsO d u) g) (polygonIntersectsPoint (mopsO d u) g)
    (polygonIntersectsLine (mopsO d u) g) (polygonIntersectsPoly (mopsO d u) g)
  rect : ∀ g : MRect, KindEqs d g.obj (fun _ => true)
    (rectForEach (mopsO d u) g) (rectNumPoints (mopsO d u) g)
    (rectContains (mopsO d u) g) (rectIntersects (mopsO d u) g)
    (rectWithinRect (mopsO d u) g) (rectWithinPoint (mopsO d u) g)
    (rectWithinLine (mopsO d u) g) (rectWithinPoly (mopsO d u) g)
    (rectIntersectsRect (mopsO d u) g) (rectIntersectsPoint (mopsO d u) g)
    (rectIntersectsLine (mopsO d u) g) (rectIntersectsPoly (mopsO d u) g)
  feature : ∀ g : MFeature, KindEqs d g.obj (fun _ => true)
    (featureForEach (mopsO d u) g) (featureNumPoints (mopsO d u) g)
    (featureContains (mopsO d u) g) (featureIntersects (mopsO d u) g)
    (featureWithinRect (mopsO d u) g) (featureWithinPoint (mopsO d u) g)
    (featureWithinLine (mopsO d u) g) (featureWithinPoly (mopsO d u) g)
    (featureIntersectsRect (mopsO d u) g) (featureIntersectsPoint (mopsO d u) g)
    (featureIntersectsLine (mopsO d u) g) (featureIntersectsPoly (mopsO d u) g)
  circle : ∀ g : MCircle, KindEqs d g.obj (fun _ => true)
    (fun iter s => iter g.obj s) 1 (fun _ => false) (fun _ => false) (fun _ => false) (fun _ => false)
    (fun _ => false) (fun _ => false) (fun _ => false) (fun _ => false) (fun _ => false) (fun _ => false)
  circleArg : ∀ (pos : Pos) (ex : Option Extra) (c : MCircle),
    d.intersects (.point pos ex) c.obj = false ∧ d.intersects (.spoint pos) c.obj = false

variable {u}

/-- the model satisfies ALL generated dispatch equations -/
theorem model_solves_all : SolvesAll u Disp.model where
  coll := fun g hT =>
    ⟨fun iter s => (CollBridge.forEach_bridge u.dist u.sdistPoint g iter s).symm,
     (CollBridge.numPoints_bridge u.dist u.sdistPoint g).symm,
     fun x => (CollBridge.contains_bridge u.dist u.sdistPoint g hT x).symm,
     fun x _ => (CollBridge.intersects_bridge u.dist u.sdistPoint g hT x).symm,
     fun a => (CollBridge.withinRect_bridge u.dist u.sdistPoint g hT a).symm,
     fun a => (CollBridge.withinPoint_bridge u.dist u.sdistPoint g hT a).symm,
     fun a => (CollBridge.withinLine_bridge u.dist u.sdistPoint g hT a).symm,
     fun a => (CollBridge.withinPoly_bridge u.dist u.sdistPoint g hT a).symm,
     fun a => (CollBridge.intersectsRect_bridge u.dist u.sdistPoint g hT a).symm,
     fun a => (CollBridge.intersectsPoint_bridge u.dist u.sdistPoint g hT a).symm,
     fun a => (CollBridge.intersectsLine_bridge u.dist u.sdistPoint g hT a).symm,
     fun a => (CollBridge.intersectsPoly_bridge u.dist u.sdistPoint g hT a).symm⟩
  point := fun g =>
    ⟨fun iter s => by rw [point_forEach]; rfl, by rw [point_numPoints]; rfl, fun x => (point_contains u g x).symm,
     fun x hx => (point_intersects u g x (by simpa using hx)).symm,
     fun a => (point_withinRect u g a).symm, fun a => (point_withinPoint u g a).symm,
     fun a => (point_withinLine u g a).symm, fun a => (point_withinPoly u g a).symm,
     fun a => (point_intersectsRect u g a).symm, fun a => (point_intersectsPoint u g a).symm,
     fun a => (point_intersectsLine u g a).symm, fun a => (point_intersectsPoly u g a).symm⟩
  spoint := fun g =>
    ⟨fun iter s => by rw [spoint_forEach]; rfl, by rw [spoint_numPoints]; rfl, fun x => (spoint_contains u g x).symm,
     fun x hx => (spoint_intersects u g x (by simpa using hx)).symm,
     fun a => (spoint_withinRect u g a).symm, fun a => (spoint_withinPoint u g a).symm,
     fun a => (spoint_withinLine u g a).symm, fun a => (spoint_withinPoly u g a).symm,
     fun a => (spoint_intersectsRect u g a).symm, fun a => (spoint_intersectsPoint u g a).symm,
     fun a => (spoint_intersectsLine u g a).symm, fun a => (spoint_intersectsPoly u g a).symm⟩
  line := fun g =>
    ⟨fun iter s => by rw [line_forEach]; rfl, by rw [line_numPoints]; rfl, fun x => (line_contains u g x).symm,
     fun x _ => (line_intersects u g x).symm,
     fun a => (line_withinRect u g a).symm, fun a => (line_withinPoint u g a).symm,
     fun a => (line_withinLine u g a).symm, fun a => (line_withinPoly u g a).symm,
     fun a => (line_intersectsRect u g a).symm, fun a => (line_intersectsPoint u g a).symm,
     fun a => (line_intersectsLine u g a).symm, fun a => (line_intersectsPoly u g a).symm⟩
  poly := fun g =>
    ⟨fun iter s => by rw [poly_forEach]; rfl, by rw [poly_numPoints]; rfl, fun x => (poly_contains u g x).symm,
     fun x _ => (poly_intersects u g x).symm,
     fun a => (poly_withinRect u g a).symm, fun a => (poly_withinPoint u g a).symm,
     fun a => (poly_withinLine u g a).symm, fun a => (poly_withinPoly u g a).symm,
     fun a => (poly_intersectsRect u g a).symm, fun a => (poly_intersectsPoint u g a).symm,
     fun a => (poly_intersectsLine u g a).symm, fun a => (poly_intersectsPoly u g a).symm⟩
  rect := fun g =>
    ⟨fun iter s => by rw [rect_forEach]; rfl, by rw [rect_numPoints]; rfl, fun x => (rect_contains u g x).symm,
     fun x _ => (rect_intersects u g x).symm,
     fun a => (rect_withinRect u g a).symm, fun a => (rect_withinPoint u g a).symm,
     fun a => (rect_withinLine u g a).symm, fun a => (rect_withinPoly u g a).symm,
     fun a => (rect_intersectsRect u g a).symm, fun a => (rect_intersectsPoint u g a).symm,
     fun a => (rect_intersectsLine u g a).symm, fun a => (rect_intersectsPoly u g a).symm⟩
  feature := fun g =>
    ⟨fun iter s => by rw [feature_forEach]; rfl, by rw [feature_numPoints]; rfl, fun x => (feature_contains u g x).symm,
     fun x _ => (feature_intersects u g x).symm,
     fun a => (feature_withinRect u g a).symm, fun a => (feature_withinPoint u g a).symm,
     fun a => (feature_withinLine u g a).symm, fun a => (feature_withinPoly u g a).symm,
     fun a => (feature_intersectsRect u g a).symm, fun a => (feature_intersectsPoint u g a).symm,
     fun a => (feature_intersectsLine u g a).symm, fun a => (feature_intersectsPoly u g a).symm⟩
  circle := fun g =>
    ⟨fun iter s => by simp only [Disp.model]; rw [atom_leaves (a := g.obj) rfl, iterate_single],
     by simp [Disp.model, MCircle.obj, Obj.numPoints],
     fun x => by simp only [Disp.model, MCircle.obj]; rw [Obj.contains],
     fun x _ => by simp only [Disp.model, MCircle.obj]; rw [Obj.intersects],
     fun a => by simp only [Disp.model, MCircle.obj]; rw [Obj.withinRect],
     fun a => by simp only [Disp.model, MCircle.obj]; rw [Obj.withinPoint],
     fun a => by simp only [Disp.model, MCircle.obj]; rw [Obj.withinLine],
     fun a => by simp only [Disp.model, MCircle.obj]; rw [Obj.withinPoly],
     fun a => by simp only [Disp.model, MCircle.obj]; rw [Obj.intersectsRect],
     fun a => by simp only [Disp.model, MCircle.obj]; rw [Obj.intersectsPoint],
     fun a => by simp only [Disp.model, MCircle.obj]; rw [Obj.intersectsLine],
     fun a => by simp only [Disp.model, MCircle.obj]; rw [Obj.intersectsPoly]⟩
  circleArg := fun pos ex c =>
    ⟨by simp only [Disp.model, MCircle.obj]; rw [Obj.intersects, Obj.intersectsPoint],
     by simp only [Disp.model, MCircle.obj]; rw [Obj.intersects, Obj.intersectsPoint]⟩

/-- what a generated leaf method computes does not depend on the dispatch when the method does not
    go through an interface: `mopsO d u` and `mops u` agree definitionally there -/
theorem collOf_obj (k : CollKind) (cs : List Obj) (ex : Option Extra) (idx : Bool) :
    (CollBridge.collOf k cs ex idx).obj = .coll k cs ex idx := rfl

theorem solves_all_forEach {d : Disp} (h : SolvesAll u d) : ∀ o, d.forEach o = o.leaves := by
  have single : ∀ o : Obj, (∀ {σ : Type} (iter : Obj → σ → σ × Bool) (s : σ),
      CGen.iterate iter (d.forEach o) s = iter o s) → d.forEach o = [o] := fun o ho =>
    CollBridge.eq_of_iterate_eq (fun iter s => (ho iter s).trans (iterate_single iter o s).symm)
  intro o
  induction o using Obj.ind' with
  | hatom a ha =>
    rw [atom_leaves ha]
    cases a with
    | point pos ex => exact single _ (h.point ⟨pos, ex⟩).forEach
    | spoint pos => exact single _ (h.spoint pos).forEach
    | lineString l poss ex => exact single _ (h.line ⟨l, poss, ex⟩).forEach
    | polygon p rings ex => exact single _ (h.poly ⟨p, rings, ex⟩).forEach
    | rectO b lo hi => exact single _ (h.rect ⟨b, lo, hi⟩).forEach
    | circle c r => exact single _ (h.circle ⟨c, r⟩).forEach
    | coll => simp [Obj.isAtom] at ha
    | feature => simp [Obj.isAtom] at ha
  | hfeat b ex _ =>
    rw [Obj.leaves]
    · exact single _ (h.feature ⟨b, ex⟩).forEach
    · intro k cs ex' idx hh; cases hh
  | hcoll k cs ex idx ih =>
    apply CollBridge.eq_of_iterate_eq
    intro σ iter s
    have h1 := (h.coll (CollBridge.collOf k cs ex idx) (CollBridge.collOf_ok k cs ex idx)).forEach iter s
    have h2 := CGlue.forEach_eq d u.dist u.sdistPoint (CollBridge.collOf k cs ex idx) ih iter s
    exact h1.trans h2

theorem solves_all_numPoints {d : Disp} (h : SolvesAll u d) : ∀ o, d.numPoints o = o.numPoints := by
  have cast : ∀ {a b : Nat}, Int.ofNat a = Int.ofNat b → a = b := fun hh => by
    simpa using hh
  intro o
  induction o using Obj.ind' with
  | hatom a ha =>
    cases a with
    | point pos ex => exact cast ((h.point ⟨pos, ex⟩).numPoints.trans (point_numPoints u ⟨pos, ex⟩))
    | spoint pos => exact cast ((h.spoint pos).numPoints.trans (spoint_numPoints u pos))
    | lineString l poss ex => exact cast ((h.line ⟨l, poss, ex⟩).numPoints.trans (line_numPoints u ⟨l, poss, ex⟩))
    | polygon p rings ex => exact cast ((h.poly ⟨p, rings, ex⟩).numPoints.trans (poly_numPoints u ⟨p, rings, ex⟩))
    | rectO b lo hi => exact cast ((h.rect ⟨b, lo, hi⟩).numPoints.trans (rect_numPoints u ⟨b, lo, hi⟩))
    | circle c r => exact cast ((h.circle ⟨c, r⟩).numPoints.trans (by simp [Obj.numPoints]))
    | coll => simp [Obj.isAtom] at ha
    | feature => simp [Obj.isAtom] at ha
  | hfeat b ex ih =>
    have h1 : Int.ofNat (d.numPoints (.feature b ex)) = Int.ofNat (d.numPoints b) := (h.feature ⟨b, ex⟩).numPoints
    rw [cast h1, ih]; simp [Obj.numPoints]
  | hcoll k cs ex idx ih =>
    have h1 := (h.coll (CollBridge.collOf k cs ex idx) (CollBridge.collOf_ok k cs ex idx)).numPoints
    have h2 := CGlue.numPoints_eq d u.dist u.sdistPoint (CollBridge.collOf k cs ex idx) ih
    exact cast (h1.trans h2)

theorem solves_all_withinRect {d : Disp} (h : SolvesAll u d) : ∀ o (r : Box), d.withinRect o r = o.withinRect r :=
  CollBridge.unique_gen d.withinRect Obj.withinRect
    (fun k cs ex idx ih a =>
      ((h.coll (CollBridge.collOf k cs ex idx) (CollBridge.collOf_ok k cs ex idx)).withinRect a).trans
        (CGlue.withinRect_eq d u.dist u.sdistPoint (CollBridge.collOf k cs ex idx) (CollBridge.collOf_ok k cs ex idx) ih a))
    (fun b ex a => (h.feature ⟨b, ex⟩).withinRect a) (fun b ex a => by rw [Obj.withinRect])
    (fun o ho a => by
      cases o with
      | point pos ex => exact ((h.point ⟨pos, ex⟩).withinRect a).trans (point_withinRect u ⟨pos, ex⟩ a)
      | spoint pos => exact ((h.spoint pos).withinRect a).trans (spoint_withinRect u pos a)
      | lineString l poss ex => exact ((h.line ⟨l, poss, ex⟩).withinRect a).trans (line_withinRect u ⟨l, poss, ex⟩ a)
      | polygon p rings ex => exact ((h.poly ⟨p, rings, ex⟩).withinRect a).trans (poly_withinRect u ⟨p, rings, ex⟩ a)
      | rectO b lo hi => exact ((h.rect ⟨b, lo, hi⟩).withinRect a).trans (rect_withinRect u ⟨b, lo, hi⟩ a)
      | circle c r => exact ((h.circle ⟨c, r⟩).withinRect a).trans (by rw [Obj.withinRect])
      | coll => simp [Obj.isAtom] at ho
      | feature => simp [Obj.isAtom] at ho)

theorem solves_all_withinPoint {d : Disp} (h : SolvesAll u d) : ∀ o (q : Pt), d.withinPoint o q = o.withinPoint q :=
  CollBridge.unique_gen d.withinPoint Obj.withinPoint
    (fun k cs ex idx ih a =>
      ((h.coll (CollBridge.collOf k cs ex idx) (CollBridge.collOf_ok k cs ex idx)).withinPoint a).trans
        (CGlue.withinPoint_eq d u.dist u.sdistPoint (CollBridge.collOf k cs ex idx) (CollBridge.collOf_ok k cs ex idx) ih a))
    (fun b ex a => (h.feature ⟨b, ex⟩).withinPoint a) (fun b ex a => by rw [Obj.withinPoint])
    (fun o ho a => by
      cases o with
      | point pos ex => exact ((h.point ⟨pos, ex⟩).withinPoint a).trans (point_withinPoint u ⟨pos, ex⟩ a)
      | spoint pos => exact ((h.spoint pos).withinPoint a).trans (spoint_withinPoint u pos a)
      | lineString l poss ex => exact ((h.line ⟨l, poss, ex⟩).withinPoint a).trans (line_withinPoint u ⟨l, poss, ex⟩ a)
      | polygon p rings ex => exact ((h.poly ⟨p, rings, ex⟩).withinPoint a).trans (poly_withinPoint u ⟨p, rings, ex⟩ a)
      | rectO b lo hi => exact ((h.rect ⟨b, lo, hi⟩).withinPoint a).trans (rect_withinPoint u ⟨b, lo, hi⟩ a)
      | circle c r => exact ((h.circle ⟨c, r⟩).withinPoint a).trans (by rw [Obj.withinPoint])
      | coll => simp [Obj.isAtom] at ho
      | feature => simp [Obj.isAtom] at ho)

theorem solves_all_withinLine {d : Disp} (h : SolvesAll u d) : ∀ o (l : Line), d.withinLine o l = o.withinLine l :=
  CollBridge.unique_gen d.withinLine Obj.withinLine
    (fun k cs ex idx ih a =>
      ((h.coll (CollBridge.collOf k cs ex idx) (CollBridge.collOf_ok k cs ex idx)).withinLine a).trans
        (CGlue.withinLine_eq d u.dist u.sdistPoint (CollBridge.collOf k cs ex idx) (CollBridge.collOf_ok k cs ex idx) ih a))
    (fun b ex a => (h.feature ⟨b, ex⟩).withinLine a) (fun b ex a => by rw [Obj.withinLine])
    (fun o ho a => by
      cases o with
      | point pos ex => exact ((h.point ⟨pos, ex⟩).withinLine a).trans (point_withinLine u ⟨pos, ex⟩ a)
      | spoint pos => exact ((h.spoint pos).withinLine a).trans (spoint_withinLine u pos a)
      | lineString l poss ex => exact ((h.line ⟨l, poss, ex⟩).withinLine a).trans (line_withinLine u ⟨l, poss, ex⟩ a)
      | polygon p rings ex => exact ((h.poly ⟨p, rings, ex⟩).withinLine a).trans (poly_withinLine u ⟨p, rings, ex⟩ a)
      | rectO b lo hi => exact ((h.rect ⟨b, lo, hi⟩).withinLine a).trans (rect_withinLine u ⟨b, lo, hi⟩ a)
      | circle c r => exact ((h.circle ⟨c, r⟩).withinLine a).trans (by rw [Obj.withinLine])
      | coll => simp [Obj.isAtom] at ho
      | feature => simp [Obj.isAtom] at ho)

theorem solves_all_withinPoly {d : Disp} (h : SolvesAll u d) : ∀ o (p : Poly), d.withinPoly o p = o.withinPoly p :=
  CollBridge.unique_gen d.withinPoly Obj.withinPoly
    (fun k cs ex idx ih a =>
      ((h.coll (CollBridge.collOf k cs ex idx) (CollBridge.collOf_ok k cs ex idx)).withinPoly a).trans
        (CGlue.withinPoly_eq d u.dist u.sdistPoint (CollBridge.collOf k cs ex idx) (CollBridge.collOf_ok k cs ex idx) ih a))
    (fun b ex a => (h.feature ⟨b, ex⟩).withinPoly a) (fun b ex a => by rw [Obj.withinPoly])
    (fun o ho a => by
      cases o with
      | point pos ex => exact ((h.point ⟨pos, ex⟩).withinPoly a).trans (point_withinPoly u ⟨pos, ex⟩ a)
      | spoint pos => exact ((h.spoint pos).withinPoly a).trans (spoint_withinPoly u pos a)
      | lineString l poss ex => exact ((h.line ⟨l, poss, ex⟩).withinPoly a).trans (line_withinPoly u ⟨l, poss, ex⟩ a)
      | polygon p rings ex => exact ((h.poly ⟨p, rings, ex⟩).withinPoly a).trans (poly_withinPoly u ⟨p, rings, ex⟩ a)
      | rectO b lo hi => exact ((h.rect ⟨b, lo, hi⟩).withinPoly a).trans (rect_withinPoly u ⟨b, lo, hi⟩ a)
      | circle c r => exact ((h.circle ⟨c, r⟩).withinPoly a).trans (by rw [Obj.withinPoly])
      | coll => simp [Obj.isAtom] at ho
      | feature => simp [Obj.isAtom] at ho)

theorem solves_all_intersectsRect {d : Disp} (h : SolvesAll u d) : ∀ o (r : Box), d.intersectsRect o r = o.intersectsRect r :=
  CollBridge.unique_gen d.intersectsRect Obj.intersectsRect
    (fun k cs ex idx ih a =>
      ((h.coll (CollBridge.collOf k cs ex idx) (CollBridge.collOf_ok k cs ex idx)).intersectsRect a).trans
        (CGlue.intersectsRect_eq d u.dist u.sdistPoint (CollBridge.collOf k cs ex idx) (CollBridge.collOf_ok k cs ex idx) ih a))
    (fun b ex a => (h.feature ⟨b, ex⟩).intersectsRect a) (fun b ex a => by rw [Obj.intersectsRect])
    (fun o ho a => by
      cases o with
      | point pos ex => exact ((h.point ⟨pos, ex⟩).intersectsRect a).trans (point_intersectsRect u ⟨pos, ex⟩ a)
      | spoint pos => exact ((h.spoint pos).intersectsRect a).trans (spoint_intersectsRect u pos a)
      | lineString l poss ex => exact ((h.line ⟨l, poss, ex⟩).intersectsRect a).trans (line_intersectsRect u ⟨l, poss, ex⟩ a)
      | polygon p rings ex => exact ((h.poly ⟨p, rings, ex⟩).intersectsRect a).trans (poly_intersectsRect u ⟨p, rings, ex⟩ a)
      | rectO b lo hi => exact ((h.rect ⟨b, lo, hi⟩).intersectsRect a).trans (rect_intersectsRect u ⟨b, lo, hi⟩ a)
      | circle c r => exact ((h.circle ⟨c, r⟩).intersectsRect a).trans (by rw [Obj.intersectsRect])
      | coll => simp [Obj.isAtom] at ho
      | feature => simp [Obj.isAtom] at ho)

theorem solves_all_intersectsPoint {d : Disp} (h : SolvesAll u d) : ∀ o (q : Pt), d.intersectsPoint o q = o.intersectsPoint q :=
  CollBridge.unique_gen d.intersectsPoint Obj.intersectsPoint
    (fun k cs ex idx ih a =>
      ((h.coll (CollBridge.collOf k cs ex idx) (CollBridge.collOf_ok k cs ex idx)).intersectsPoint a).trans
        (CGlue.intersectsPoint_eq d u.dist u.sdistPoint (CollBridge.collOf k cs ex idx) (CollBridge.collOf_ok k cs ex idx) ih a))
    (fun b ex a => (h.feature ⟨b, ex⟩).intersectsPoint a) (fun b ex a => by rw [Obj.intersectsPoint])
    (fun o ho a => by
      cases o with
      | point pos ex => exact ((h.point ⟨pos, ex⟩).intersectsPoint a).trans (point_intersectsPoint u ⟨pos, ex⟩ a)
      | spoint pos => exact ((h.spoint pos).intersectsPoint a).trans (spoint_intersectsPoint u pos a)
      | lineString l poss ex => exact ((h.line ⟨l, poss, ex⟩).intersectsPoint a).trans (line_intersectsPoint u ⟨l, poss, ex⟩ a)
      | polygon p rings ex => exact ((h.poly ⟨p, rings, ex⟩).intersectsPoint a).trans (poly_intersectsPoint u ⟨p, rings, ex⟩ a)
      | rectO b lo hi => exact ((h.rect ⟨b, lo, hi⟩).intersectsPoint a).trans (rect_intersectsPoint u ⟨b, lo, hi⟩ a)
      | circle c r => exact ((h.circle ⟨c, r⟩).intersectsPoint a).trans (by rw [Obj.intersectsPoint])
      | coll => simp [Obj.isAtom] at ho
      | feature => simp [Obj.isAtom] at ho)

theorem solves_all_intersectsLine {d : Disp} (h : SolvesAll u d) : ∀ o (l : Line), d.intersectsLine o l = o.intersectsLine l :=
  CollBridge.unique_gen d.intersectsLine Obj.intersectsLine
    (fun k cs ex idx ih a =>
      ((h.coll (CollBridge.collOf k cs ex idx) (CollBridge.collOf_ok k cs ex idx)).intersectsLine a).trans
        (CGlue.intersectsLine_eq d u.dist u.sdistPoint (CollBridge.collOf k cs ex idx) (CollBridge.collOf_ok k cs ex idx) ih a))
    (fun b ex a => (h.feature ⟨b, ex⟩).intersectsLine a) (fun b ex a => by rw [Obj.intersectsLine])
    (fun o ho a => by
      cases o with
      | point pos ex => exact ((h.point ⟨pos, ex⟩).intersectsLine a).trans (point_intersectsLine u ⟨pos, ex⟩ a)
      | spoint pos => exact ((h.spoint pos).intersectsLine a).trans (spoint_intersectsLine u pos a)
      | lineString l poss ex => exact ((h.line ⟨l, poss, ex⟩).intersectsLine a).trans (line_intersectsLine u ⟨l, poss, ex⟩ a)
      | polygon p rings ex => exact ((h.poly ⟨p, rings, ex⟩).intersectsLine a).trans (poly_intersectsLine u ⟨p, rings, ex⟩ a)
      | rectO b lo hi => exact ((h.rect ⟨b, lo, hi⟩).intersectsLine a).trans (rect_intersectsLine u ⟨b, lo, hi⟩ a)
      | circle c r => exact ((h.circle ⟨c, r⟩).intersectsLine a).trans (by rw [Obj.intersectsLine])
      | coll => simp [Obj.isAtom] at ho
      | feature => simp [Obj.isAtom] at ho)

theorem solves_all_intersectsPoly {d : Disp} (h : SolvesAll u d) : ∀ o (p : Poly), d.intersectsPoly o p = o.intersectsPoly p :=
  CollBridge.unique_gen d.intersectsPoly Obj.intersectsPoly
    (fun k cs ex idx ih a =>
      ((h.coll (CollBridge.collOf k cs ex idx) (CollBridge.collOf_ok k cs ex idx)).intersectsPoly a).trans
        (CGlue.intersectsPoly_eq d u.dist u.sdistPoint (CollBridge.collOf k cs ex idx) (CollBridge.collOf_ok k cs ex idx) ih a))
    (fun b ex a => (h.feature ⟨b, ex⟩).intersectsPoly a) (fun b ex a => by rw [Obj.intersectsPoly])
    (fun o ho a => by
      cases o with
      | point pos ex => exact ((h.point ⟨pos, ex⟩).intersectsPoly a).trans (point_intersectsPoly u ⟨pos, ex⟩ a)
      | spoint pos => exact ((h.spoint pos).intersectsPoly a).trans (spoint_intersectsPoly u pos a)
      | lineString l poss ex => exact ((h.line ⟨l, poss, ex⟩).intersectsPoly a).trans (line_intersectsPoly u ⟨l, poss, ex⟩ a)
      | polygon p rings ex => exact ((h.poly ⟨p, rings, ex⟩).intersectsPoly a).trans (poly_intersectsPoly u ⟨p, rings, ex⟩ a)
      | rectO b lo hi => exact ((h.rect ⟨b, lo, hi⟩).intersectsPoly a).trans (rect_intersectsPoly u ⟨b, lo, hi⟩ a)
      | circle c r => exact ((h.circle ⟨c, r⟩).intersectsPoly a).trans (by rw [Obj.intersectsPoly])
      | coll => simp [Obj.isAtom] at ho
      | feature => simp [Obj.isAtom] at ho)

theorem solves_all_contains {d : Disp} (h : SolvesAll u d) : ∀ o x, d.contains o x = o.contains x := by
  have hfe := solves_all_forEach h
  have hwr := solves_all_withinRect h
  have hwp := solves_all_withinPoint h
  have hwl := solves_all_withinLine h
  have hwq := solves_all_withinPoly h
  exact CollBridge.unique_gen d.contains Obj.contains
    (fun k cs ex idx ih x =>
      ((h.coll (CollBridge.collOf k cs ex idx) (CollBridge.collOf_ok k cs ex idx)).contains x).trans
        (CGlue.contains_eq d u.dist u.sdistPoint (CollBridge.collOf k cs ex idx)
          (CollBridge.collOf_ok k cs ex idx) ih x (hfe x)))
    (fun b ex x => (h.feature ⟨b, ex⟩).contains x) (fun b ex x => by rw [Obj.contains])
    (fun o ho x => by
      cases o with
      | point pos ex =>
        exact ((h.point ⟨pos, ex⟩).contains x).trans ((hwp x pos.p).trans (by rw [Obj.contains]))
      | spoint pos =>
        exact ((h.spoint pos).contains x).trans ((hwp x pos.p).trans (by rw [Obj.contains]))
      | lineString l poss ex =>
        exact ((h.line ⟨l, poss, ex⟩).contains x).trans ((hwl x l).trans (by rw [Obj.contains]))
      | polygon p rings ex =>
        exact ((h.poly ⟨p, rings, ex⟩).contains x).trans ((hwq x p).trans (by rw [Obj.contains]))
      | rectO b lo hi =>
        exact ((h.rect ⟨b, lo, hi⟩).contains x).trans ((hwr x b).trans (by rw [Obj.contains]))
      | circle c r => exact ((h.circle ⟨c, r⟩).contains x).trans (by rw [Obj.contains])
      | coll => simp [Obj.isAtom] at ho
      | feature => simp [Obj.isAtom] at ho)

theorem solves_all_intersects {d : Disp} (h : SolvesAll u d) :
    ∀ o x, d.intersects o x = o.intersects x := by
  have hfe := solves_all_forEach h
  have hir := solves_all_intersectsRect h
  have hip := solves_all_intersectsPoint h
  have hil := solves_all_intersectsLine h
  have hiq := solves_all_intersectsPoly h
  have circ : ∀ x, isCircle x = true → ∃ c r, x = .circle c r := fun x hx => by
    cases x <;> simp [isCircle] at hx
    exact ⟨_, _, rfl⟩
  exact CollBridge.unique_gen d.intersects Obj.intersects
    (fun k cs ex idx ih x =>
      ((h.coll (CollBridge.collOf k cs ex idx) (CollBridge.collOf_ok k cs ex idx)).intersects x rfl).trans
        (CGlue.intersects_eq d u.dist u.sdistPoint (CollBridge.collOf k cs ex idx)
          (CollBridge.collOf_ok k cs ex idx) ih x (hfe x)))
    (fun b ex x => (h.feature ⟨b, ex⟩).intersects x rfl) (fun b ex x => by rw [Obj.intersects])
    (fun o ho x => by
      cases o with
      | point pos ex =>
        cases hx : isCircle x with
        | true =>
          obtain ⟨c, r, rfl⟩ := circ x hx
          exact ((h.circleArg pos ex ⟨c, r⟩).1).trans (atom_intersects_circle rfl c r).symm
        | false =>
          have h1 := (h.point ⟨pos, ex⟩).intersects x (by simp [hx])
          have h2 : pointIntersects (mopsO d u) ⟨pos, ex⟩ x = d.intersectsPoint x pos.p := by
            cases x <;> first | rfl | simp [isCircle] at hx
          exact h1.trans (h2.trans ((hip x pos.p).trans (by rw [Obj.intersects])))
      | spoint pos =>
        cases hx : isCircle x with
        | true =>
          obtain ⟨c, r, rfl⟩ := circ x hx
          exact ((h.circleArg pos none ⟨c, r⟩).2).trans (atom_intersects_circle rfl c r).symm
        | false =>
          have h1 := (h.spoint pos).intersects x (by simp [hx])
          have h2 : simplePointIntersects (mopsO d u) pos x = d.intersectsPoint x pos.p := by
            cases x <;> first | rfl | simp [isCircle] at hx
          exact h1.trans (h2.trans ((hip x pos.p).trans (by rw [Obj.intersects])))
      | lineString l poss ex =>
        exact ((h.line ⟨l, poss, ex⟩).intersects x rfl).trans ((hil x l).trans (by rw [Obj.intersects]))
      | polygon p rings ex =>
        exact ((h.poly ⟨p, rings, ex⟩).intersects x rfl).trans ((hiq x p).trans (by rw [Obj.intersects]))
      | rectO b lo hi =>
        exact ((h.rect ⟨b, lo, hi⟩).intersects x rfl).trans ((hir x b).trans (by rw [Obj.intersects]))
      | circle c r => exact ((h.circle ⟨c, r⟩).intersects x rfl).trans (by rw [Obj.intersects])
      | coll => simp [Obj.isAtom] at ho
      | feature => simp [Obj.isAtom] at ho)

/-- UNIQUENESS, leaves + wrappers + collections in one statement: a dispatch that satisfies ALL the
    generated equations (ObjMethGen for the leaf kinds and Feature, CollGen for the five collection
    kinds) is the hand model `Obj.contains / intersects / leaves / numPoints / within* / intersects*` -/
theorem solves_all_unique {d : Disp} (h : SolvesAll u d) : d = Disp.model := by
  have hco := solves_all_contains h
  have hin := solves_all_intersects h
  have hfe := solves_all_forEach h
  have hnp := solves_all_numPoints h
  have hwr := solves_all_withinRect h
  have hwp := solves_all_withinPoint h
  have hwl := solves_all_withinLine h
  have hwq := solves_all_withinPoly h
  have hir := solves_all_intersectsRect h
  have hip := solves_all_intersectsPoint h
  have hil := solves_all_intersectsLine h
  have hiq := solves_all_intersectsPoly h
  cases d
  simp only [Disp.model, Disp.mk.injEq]
  exact ⟨funext fun o => funext (hco o), funext fun o => funext (hin o), funext hfe, funext hnp,
    funext fun o => funext (hwr o), funext fun o => funext (hwp o), funext fun o => funext (hwl o),
    funext fun o => funext (hwq o), funext fun o => funext (hir o), funext fun o => funext (hip o),
    funext fun o => funext (hil o), funext fun o => funext (hiq o)⟩

/-- the model is THE solution: existence and uniqueness together -/
theorem model_is_the_solution (d : Disp) : SolvesAll u d ↔ d = Disp.model :=
  ⟨solves_all_unique, fun h => h ▸ model_solves_all⟩

/-- in particular the collection-only statement of CollBridge follows -/
theorem solves_all_to_coll {d : Disp} (h : SolvesAll u d) : CollBridge.Solves u.dist u.sdistPoint d := by
  rw [solves_all_unique h]; exact CollBridge.model_solves u.dist u.sdistPoint

end Geo.ObjBridge

#print axioms Geo.ObjBridge.point_forEach
#print axioms Geo.ObjBridge.point_empty
#print axioms Geo.ObjBridge.point_valid
#print axioms Geo.ObjBridge.point_rect
#print axioms Geo.ObjBridge.point_spatial
#print axioms Geo.ObjBridge.point_center
#print axioms Geo.ObjBridge.point_base
#print axioms Geo.ObjBridge.point_within
#print axioms Geo.ObjBridge.point_contains
#print axioms Geo.ObjBridge.point_intersects
#print axioms Geo.ObjBridge.point_intersects_circle
#print axioms Geo.ObjBridge.point_withinRect
#print axioms Geo.ObjBridge.point_withinPoint
#print axioms Geo.ObjBridge.point_withinLine
#print axioms Geo.ObjBridge.point_withinPoly
#print axioms Geo.ObjBridge.point_intersectsPoint
#print axioms Geo.ObjBridge.point_intersectsRect
#print axioms Geo.ObjBridge.point_intersectsLine
#print axioms Geo.ObjBridge.point_intersectsPoly
#print axioms Geo.ObjBridge.point_numPoints
#print axioms Geo.ObjBridge.point_isSimple
#print axioms Geo.ObjBridge.point_members
#print axioms Geo.ObjBridge.point_distance
#print axioms Geo.ObjBridge.spoint_forEach
#print axioms Geo.ObjBridge.spoint_empty
#print axioms Geo.ObjBridge.spoint_valid
#print axioms Geo.ObjBridge.spoint_rect
#print axioms Geo.ObjBridge.spoint_spatial
#print axioms Geo.ObjBridge.spoint_center
#print axioms Geo.ObjBridge.spoint_base
#print axioms Geo.ObjBridge.spoint_within
#print axioms Geo.ObjBridge.spoint_contains
#print axioms Geo.ObjBridge.spoint_intersects
#print axioms Geo.ObjBridge.spoint_intersects_circle
#print axioms Geo.ObjBridge.spoint_withinRect
#print axioms Geo.ObjBridge.spoint_withinPoint
#print axioms Geo.ObjBridge.spoint_withinLine
#print axioms Geo.ObjBridge.spoint_withinPoly
#print axioms Geo.ObjBridge.spoint_intersectsPoint
#print axioms Geo.ObjBridge.spoint_intersectsRect
#print axioms Geo.ObjBridge.spoint_intersectsLine
#print axioms Geo.ObjBridge.spoint_intersectsPoly
#print axioms Geo.ObjBridge.spoint_numPoints
#print axioms Geo.ObjBridge.spoint_members
#print axioms Geo.ObjBridge.spoint_distance
#print axioms Geo.ObjBridge.line_forEach
#print axioms Geo.ObjBridge.line_empty
#print axioms Geo.ObjBridge.line_valid
#print axioms Geo.ObjBridge.line_rect
#print axioms Geo.ObjBridge.line_spatial
#print axioms Geo.ObjBridge.line_center
#print axioms Geo.ObjBridge.line_base
#print axioms Geo.ObjBridge.line_within
#print axioms Geo.ObjBridge.line_contains
#print axioms Geo.ObjBridge.line_intersects
#print axioms Geo.ObjBridge.line_withinRect
#print axioms Geo.ObjBridge.line_withinPoint
#print axioms Geo.ObjBridge.line_withinLine
#print axioms Geo.ObjBridge.line_withinPoly
#print axioms Geo.ObjBridge.line_intersectsPoint
#print axioms Geo.ObjBridge.line_intersectsRect
#print axioms Geo.ObjBridge.line_intersectsLine
#print axioms Geo.ObjBridge.line_intersectsPoly
#print axioms Geo.ObjBridge.line_numPoints
#print axioms Geo.ObjBridge.line_members
#print axioms Geo.ObjBridge.line_distance
#print axioms Geo.ObjBridge.poly_forEach
#print axioms Geo.ObjBridge.poly_empty
#print axioms Geo.ObjBridge.poly_valid
#print axioms Geo.ObjBridge.poly_rect
#print axioms Geo.ObjBridge.poly_spatial
#print axioms Geo.ObjBridge.poly_center
#print axioms Geo.ObjBridge.poly_base
#print axioms Geo.ObjBridge.poly_within
#print axioms Geo.ObjBridge.poly_contains
#print axioms Geo.ObjBridge.poly_intersects
#print axioms Geo.ObjBridge.poly_withinRect
#print axioms Geo.ObjBridge.poly_withinPoint
#print axioms Geo.ObjBridge.poly_withinLine
#print axioms Geo.ObjBridge.poly_withinPoly
#print axioms Geo.ObjBridge.poly_intersectsPoint
#print axioms Geo.ObjBridge.poly_intersectsRect
#print axioms Geo.ObjBridge.poly_intersectsLine
#print axioms Geo.ObjBridge.poly_intersectsPoly
#print axioms Geo.ObjBridge.poly_numPoints
#print axioms Geo.ObjBridge.poly_hasExtra
#print axioms Geo.ObjBridge.poly_members
#print axioms Geo.ObjBridge.poly_distance
#print axioms Geo.ObjBridge.rect_forEach
#print axioms Geo.ObjBridge.rect_empty
#print axioms Geo.ObjBridge.rect_valid
#print axioms Geo.ObjBridge.rect_rect
#print axioms Geo.ObjBridge.rect_spatial
#print axioms Geo.ObjBridge.rect_center
#print axioms Geo.ObjBridge.rect_base
#print axioms Geo.ObjBridge.rect_within
#print axioms Geo.ObjBridge.rect_contains
#print axioms Geo.ObjBridge.rect_intersects
#print axioms Geo.ObjBridge.rect_withinRect
#print axioms Geo.ObjBridge.rect_withinPoint
#print axioms Geo.ObjBridge.rect_withinLine
#print axioms Geo.ObjBridge.rect_withinPoly
#print axioms Geo.ObjBridge.rect_intersectsPoint
#print axioms Geo.ObjBridge.rect_intersectsRect
#print axioms Geo.ObjBridge.rect_intersectsLine
#print axioms Geo.ObjBridge.rect_intersectsPoly
#print axioms Geo.ObjBridge.rect_numPoints
#print axioms Geo.ObjBridge.rect_members
#print axioms Geo.ObjBridge.rect_distance
#print axioms Geo.ObjBridge.feature_forEach
#print axioms Geo.ObjBridge.feature_empty
#print axioms Geo.ObjBridge.feature_valid
#print axioms Geo.ObjBridge.feature_rect
#print axioms Geo.ObjBridge.feature_spatial
#print axioms Geo.ObjBridge.feature_center
#print axioms Geo.ObjBridge.feature_base
#print axioms Geo.ObjBridge.feature_within
#print axioms Geo.ObjBridge.feature_contains
#print axioms Geo.ObjBridge.feature_intersects
#print axioms Geo.ObjBridge.feature_withinRect
#print axioms Geo.ObjBridge.feature_withinPoint
#print axioms Geo.ObjBridge.feature_withinLine
#print axioms Geo.ObjBridge.feature_withinPoly
#print axioms Geo.ObjBridge.feature_intersectsPoint
#print axioms Geo.ObjBridge.feature_intersectsRect
#print axioms Geo.ObjBridge.feature_intersectsLine
#print axioms Geo.ObjBridge.feature_intersectsPoly
#print axioms Geo.ObjBridge.feature_numPoints
#print axioms Geo.ObjBridge.feature_members
#print axioms Geo.ObjBridge.feature_distance
#print axioms Geo.ObjBridge.circle_forEach
#print axioms Geo.ObjBridge.circle_empty
#print axioms Geo.ObjBridge.circle_numPoints
#print axioms Geo.ObjBridge.circle_center
#print axioms Geo.ObjBridge.circle_within
#print axioms Geo.ObjBridge.circle_members
#print axioms Geo.ObjBridge.circle_meters
#print axioms Geo.ObjBridge.circle_haversine
#print axioms Geo.ObjBridge.circle_getObject
#print axioms Geo.ObjBridge.circle_polygon
#print axioms Geo.ObjBridge.circle_viaObject
#print axioms Geo.ObjBridge.circle_containsPoint
#print axioms Geo.ObjBridge.circle_haversineTo
#print axioms Geo.ObjBridge.circle_contains_point
#print axioms Geo.ObjBridge.circle_contains_spoint
#print axioms Geo.ObjBridge.circle_contains_circle
#print axioms Geo.ObjBridge.circle_contains_coll
#print axioms Geo.ObjBridge.circle_contains_line
#print axioms Geo.ObjBridge.circle_contains_poly
#print axioms Geo.ObjBridge.circle_contains_rect
#print axioms Geo.ObjBridge.circle_contains_feature
#print axioms Geo.ObjBridge.circle_intersects_point
#print axioms Geo.ObjBridge.circle_intersects_spoint
#print axioms Geo.ObjBridge.circle_intersects_circle
#print axioms Geo.ObjBridge.circle_intersects_coll
#print axioms Geo.ObjBridge.circle_intersects_feature
#print axioms Geo.ObjBridge.circle_intersects_line
#print axioms Geo.ObjBridge.circle_intersects_poly
#print axioms Geo.ObjBridge.circle_intersects_rect
#print axioms Geo.ObjBridge.multiLineString_valid
#print axioms Geo.ObjBridge.multiPolygon_valid
#print axioms Geo.ObjBridge.wrapper_members
#print axioms Geo.ObjBridge.model_solves_all
#print axioms Geo.ObjBridge.collOf_obj
#print axioms Geo.ObjBridge.solves_all_forEach
#print axioms Geo.ObjBridge.solves_all_numPoints
#print axioms Geo.ObjBridge.solves_all_withinRect
#print axioms Geo.ObjBridge.solves_all_withinPoint
#print axioms Geo.ObjBridge.solves_all_withinLine
#print axioms Geo.ObjBridge.solves_all_withinPoly
#print axioms Geo.ObjBridge.solves_all_intersectsRect
#print axioms Geo.ObjBridge.solves_all_intersectsPoint
#print axioms Geo.ObjBridge.solves_all_intersectsLine
#print axioms Geo.ObjBridge.solves_all_intersectsPoly
#print axioms Geo.ObjBridge.solves_all_contains
#print axioms Geo.ObjBridge.solves_all_intersects
#print axioms Geo.ObjBridge.solves_all_unique
#print axioms Geo.ObjBridge.model_is_the_solution
#print axioms Geo.ObjBridge.solves_all_to_coll
