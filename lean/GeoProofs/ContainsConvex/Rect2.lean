/-
  GeoProofs.ContainsConvex.Rect2 — `(build (.rect lo hi)).contains (build B) = Spec.covers …`
  for valid shapes.
-/
import GeoProofs.ContainsConvex.Rect

namespace Geo
namespace CC
open GL Jordan Contains

/-- the closed region of a closed chain whose vertices are in a box is in the box -/
theorem region_in_box (C : List Pt) (lo hi : Pt)
    (hC : ∀ v ∈ C, (Spec.Shape.rect lo hi).member v = true) (x : Pt)
    (hx : Spec.inRing (Spec.edges C true) x = true) : (Spec.Shape.rect lo hi).member x = true := by
  have hv := fun v hv => (rect_member_iff lo hi v).1 (hC v hv)
  rw [rect_member_iff]
  have ne1 : ∀ c : Rat, (⟨c, 0⟩ : Pt) ≠ ⟨c, 1⟩ := fun c h => by
    have := congrArg Pt.y h; simp at this
  have ne2 : ∀ c : Rat, (⟨0, c⟩ : Pt) ≠ ⟨1, c⟩ := fun c h => by
    have := congrArg Pt.x h; simp at this
  have h1 := region_in_halfplane C ⟨lo.x, 0⟩ ⟨lo.x, 1⟩ (ne1 _) (-1) (Or.inr rfl)
    (fun v hvv => by simp only [K.cross_def]; have := (hv v hvv).1; linarith) x hx
  have h2 := region_in_halfplane C ⟨hi.x, 0⟩ ⟨hi.x, 1⟩ (ne1 _) 1 (Or.inl rfl)
    (fun v hvv => by simp only [K.cross_def]; have := (hv v hvv).2.1; linarith) x hx
  have h3 := region_in_halfplane C ⟨0, lo.y⟩ ⟨1, lo.y⟩ (ne2 _) 1 (Or.inl rfl)
    (fun v hvv => by simp only [K.cross_def]; have := (hv v hvv).2.2.1; linarith) x hx
  have h4 := region_in_halfplane C ⟨0, hi.y⟩ ⟨1, hi.y⟩ (ne2 _) (-1) (Or.inr rfl)
    (fun v hvv => by simp only [K.cross_def]; have := (hv v hvv).2.2.2; linarith) x hx
  simp only [K.cross_def] at h1 h2 h3 h4
  exact ⟨by linarith, by linarith, by linarith, by linarith⟩

theorem isRegion_rect_iff (lo hi : Pt) :
    Spec.isRegion (.rect lo hi) = true ↔ lo.x < hi.x ∧ lo.y < hi.y := by
  simp [Spec.isRegion]

/-- Rect ⊇ Rect -/
theorem rect_contains_rect_exact (lo hi lo' hi' : Pt) (hB : (Spec.Shape.rect lo' hi').valid = true) :
    (build (.rect lo hi)).contains (build (.rect lo' hi')) =
      Spec.covers (.rect lo hi) (.rect lo' hi') := by
  simp only [Spec.Shape.valid, Bool.and_eq_true, decide_eq_true_eq] at hB
  rw [Bool.eq_iff_iff, covers_rect_eq lo hi _ (fun p h => by cases h)]
  show (⟨lo, hi⟩ : Box).containsBox ⟨lo', hi'⟩ = true ↔ _
  rw [containsBox_iff]
  show lo.x ≤ lo'.x ∧ hi'.x ≤ hi.x ∧ lo.y ≤ lo'.y ∧ hi'.y ≤ hi.y ↔ _
  have hedges : (Spec.Shape.rect lo' hi').edges = Spec.edges (Spec.rectPts lo' hi') true := rfl
  rw [hedges, rect_edges]
  simp only [Spec.Shape.nonEmpty, true_and, isRegion_rect_iff, List.mem_cons, List.not_mem_nil,
    or_false, forall_eq_or_imp, forall_eq, rect_member_iff]
  constructor
  · rintro ⟨a1, a2, a3, a4⟩
    refine ⟨fun h => ?_, ?_⟩
    · have hr : Spec.isRegion (.rect lo hi) = true :=
        (isRegion_rect_iff lo hi).2 ⟨by linarith [h.1.1], by linarith [h.1.2]⟩
      rw [hr] at h
      exact Bool.noConfusion h.2
    · repeat' constructor
      all_goals linarith [hB.1, hB.2]
  · rintro ⟨-, h0, -, h2, -⟩
    exact ⟨h0.1.1, h2.1.2.1, h0.1.2.2.1, h2.1.2.2.2⟩

/-- Rect ⊇ LineString -/
theorem rect_contains_line_exact (lo hi : Pt) (l : List Pt) :
    (build (.rect lo hi)).contains (build (.line l)) = Spec.covers (.rect lo hi) (.line l) := by
  rw [Bool.eq_iff_iff, covers_rect_eq lo hi _ (fun p h => by cases h)]
  show (⟨lo, hi⟩ : Box).containsLine (mkSeries l.toArray false .none 0) = true ↔ _
  have hreg : Spec.isRegion (.line l) = false := rfl
  have hedges : (Spec.Shape.line l).edges = Spec.edges l false := rfl
  simp only [hreg, hedges, Spec.Shape.nonEmpty, Bool.false_eq_true, false_and, not_false_eq_true,
    true_and, decide_eq_true_eq]
  by_cases h2 : 2 ≤ l.length
  · rw [rect_contains_line_iff _ l.toArray .none 0 (by simpa using h2)]
    have hne : ((false && decide (l.toArray.size < 3)) || decide (l.toArray.size < 2)) = false := by
      simp; omega
    have := edges_all_iff l.toArray false hne (fun p => (Spec.Shape.rect lo hi).member p = true)
    simp only at this ⊢
    rw [this]
    simp only [rect_member_box]
    exact ⟨fun h => ⟨h2, h⟩, fun h => h.2⟩
  · rw [rect_contains_line_empty _ l.toArray .none 0 (by simp; omega)]
    simp only [Bool.false_eq_true, false_iff, not_and]
    exact fun h => absurd h h2

/-- Rect ⊇ Polygon (valid rectangle, valid polygon, holes allowed) -/
theorem rect_contains_poly_exact (lo hi : Pt) (hA : (Spec.Shape.rect lo hi).valid = true)
    (oext : List Pt) (oholes : List (List Pt))
    (hB : (Spec.Shape.poly oext oholes).valid = true) :
    (build (.rect lo hi)).contains (build (.poly oext oholes)) =
      Spec.covers (.rect lo hi) (.poly oext oholes) := by
  obtain ⟨ho3, hholes⟩ := valid_poly_facts oext oholes hB
  have hs : Spec.simpleRing oext = true := by
    simp only [Spec.Shape.valid, Bool.and_eq_true] at hB
    exact hB.1.1.1
  simp only [Spec.Shape.valid, Bool.and_eq_true, decide_eq_true_eq] at hA
  rw [Bool.eq_iff_iff, covers_rect_eq lo hi _ (fun p h => by cases h)]
  show (⟨lo, hi⟩ : Box).containsPoly ⟨some (.ser (mkSeries oext.toArray true .none 0)), _⟩ = true ↔ _
  rw [rect_contains_poly_iff _ oext.toArray .none 0 _ (by simpa using ho3)]
  have hreg : Spec.isRegion (.poly oext oholes) = true := rfl
  have hne : ((true && decide (oext.toArray.size < 3)) || decide (oext.toArray.size < 2)) = false := by
    simp; omega
  simp only [hreg, Spec.Shape.nonEmpty, true_and, decide_eq_true_eq]
  constructor
  · intro h
    have hmem : ∀ v ∈ oext, (Spec.Shape.rect lo hi).member v = true := fun v hv => by
      rw [rect_member_box]; exact h v hv
    refine ⟨ho3, fun hr => ?_, fun e he => ?_⟩
    · rw [Bool.eq_false_iff, Ne, isRegion_rect_iff] at hr
      apply area2_zero_of_line oext hs
      by_cases hx : lo.x < hi.x
      · right
        have hy : lo.y = hi.y := le_antisymm hA.2 (not_lt.1 (fun hy => hr ⟨hx, hy⟩))
        refine ⟨lo.y, fun v hv => ?_⟩
        have := (rect_member_iff lo hi v).1 (hmem v hv)
        linarith [this.2.2.1, this.2.2.2]
      · left
        have hx' : lo.x = hi.x := le_antisymm hA.1 (not_lt.1 hx)
        refine ⟨lo.x, fun v hv => ?_⟩
        have := (rect_member_iff lo hi v).1 (hmem v hv)
        linarith [this.1, this.2.1]
    · rcases (poly_edges_mem oext oholes e).1 he with he | ⟨hl, hhl, he⟩
      · obtain ⟨h1, h2⟩ := Sym.edges_ends oext true e he
        exact ⟨hmem _ h1, hmem _ h2⟩
      · obtain ⟨h1, h2⟩ := Sym.edges_ends hl true e he
        exact ⟨region_in_box oext lo hi hmem _ (IX.strictIn_inRing (hholes hl hhl _ h1)),
          region_in_box oext lo hi hmem _ (IX.strictIn_inRing (hholes hl hhl _ h2))⟩
  · rintro ⟨-, -, h⟩ q hq
    rw [← rect_member_box]
    exact (edges_all_iff oext.toArray true hne
      (fun p => (Spec.Shape.rect lo hi).member p = true)).1
      (fun e he => h e ((poly_edges_mem oext oholes e).2 (Or.inl he))) q hq

/-- **the Rect receiver**: exact for valid shapes -/
theorem rect_contains_exact (lo hi : Pt) (B : Spec.Shape)
    (hA : (Spec.Shape.rect lo hi).valid = true) (hB : B.valid = true) :
    (build (.rect lo hi)).contains (build B) = Spec.covers (.rect lo hi) B := by
  cases B with
  | point p => exact rect_contains_point_spec ⟨lo, hi⟩ p
  | rect lo' hi' => exact rect_contains_rect_exact lo hi lo' hi' hB
  | line l => exact rect_contains_line_exact lo hi l
  | poly oext oholes => exact rect_contains_poly_exact lo hi hA oext oholes hB

end CC
end Geo
