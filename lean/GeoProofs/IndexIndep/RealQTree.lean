/-
  GeoProofs.IndexIndep.RealQTree — the order dependence of `ringContainsSegment` is also
  realised by the model's real QUADTREE (37 segments; the root node splits at the 33rd).

  Route: the byte-level search of a quadtree-indexed series is the early-exit fold over
  `qVisit … (qBuild …)` (`qSearchBytes_of_enc`, `qSearchTree_eq_foldUntil`); that list is
  computed by the kernel for each of the three queries issued by `ringContainsSegmentS`.
-/
import GeoProofs.IndexIndep.Counterexample
import GeoProofs.IndexIndep.Shapes

namespace Geo

/-- the visit list of the quadtree built for a series, for the query `q` -/
def qVisitOf (pts : Array Pt) (closed : Bool) (q : Box) : List Nat :=
  qVisit (fun i => (segmentAtOf pts i).box.g) q.g
    (qBuild (fun i => (segmentAtOf pts i).box.g) (processPoints pts closed).rect.g
      (numSegmentsOf pts closed)) (processPoints pts closed).rect.g

/-- a quadtree-indexed series (index really built): its search is the early-exit fold over
    `qVisitOf` -/
theorem qtree_series_foldOn (pts : Array Pt) (closed : Bool) (m : Nat)
    (hm : (m != 0 && decide (pts.size ≥ m)) = true)
    (hn : pts.size < 2 ^ 32) (hsz : (qBytesOf pts closed).size < 2 ^ 32) (q : Box) :
    (Ring.ser (mkSeries pts closed .quadtree m)).FoldOn q (qVisitOf pts closed q) := by
  have hns : numSegmentsOf pts closed < 2 ^ 32 := by
    have := numSegmentsOf_le pts closed; omega
  have hb : ∀ i, i < numSegmentsOf pts closed →
      (segmentAtOf pts i).box.g ⊆ (processPoints pts closed).rect.g :=
    fun i hi => segBox_inside_rect' pts closed i hi
  have hpermv := qBuild_search_exact (fun i => (segmentAtOf pts i).box.g) q.g
    (processPoints pts closed).rect.g (numSegmentsOf pts closed) hb
  refine ⟨fun i hi => ?_, fun f st => ?_⟩
  · exact List.mem_range.1 (List.mem_filter.1 (hpermv.mem_iff.1 hi)).1
  · have hidx : (mkSeries pts closed .quadtree m).index =
        some (putU32 (qBytesOf pts closed) 1 (qBytesOf pts closed).size) := by
      rw [mkSeries_index, if_pos hm]; rfl
    obtain ⟨h5, h0⟩ : 5 ≤ (qBytesOf pts closed).size ∧ (qBytesOf pts closed)[0]? = some 2 :=
      qCompress_header _ (qBuild_isNil _ _ _) hsz
    rw [ring_search_ser, search_setCompressed _ _ hidx h5 hsz, h0]
    simp only [mkSeries_segmentAt, mkSeries_rect]
    -- the body of `qtree_search_exact_patched`, with the witness kept explicit
    have hperm := (qBuild_spec (fun i => (segmentAtOf pts i).box.g)
      (processPoints pts closed).rect.g (numSegmentsOf pts closed) hb).2
    have hitems : ∀ i ∈ (qBuild (fun i => (segmentAtOf pts i).box.g)
        (processPoints pts closed).rect.g (numSegmentsOf pts closed)).allItems, i < 2 ^ 32 := by
      intro i hi
      have := List.mem_range.mp (hperm.mem_iff.mp hi)
      omega
    have hlen : (qBuild (fun i => (segmentAtOf pts i).box.g)
        (processPoints pts closed).rect.g (numSegmentsOf pts closed)).maxLen < 2 ^ 32 := by
      have h1 := QNode.maxLen_le_allItems (qBuild (fun i => (segmentAtOf pts i).box.g)
        (processPoints pts closed).rect.g (numSegmentsOf pts closed))
      have h2 := hperm.length_eq
      rw [List.length_range] at h2
      omega
    have hdepth : (qBuild (fun i => (segmentAtOf pts i).box.g)
        (processPoints pts closed).rect.g (numSegmentsOf pts closed)).depth ≤ qMaxDepth + 2 := by
      have := qBuild_depth (fun i => (segmentAtOf pts i).box.g)
        (processPoints pts closed).rect.g (numSegmentsOf pts closed)
      omega
    have hnil := qBuild_isNil (fun i => (segmentAtOf pts i).box.g)
      (processPoints pts closed).rect.g (numSegmentsOf pts closed)
    obtain ⟨_, _, henc⟩ := qCompress_spec (qBuild (fun i => (segmentAtOf pts i).box.g)
      (processPoints pts closed).rect.g (numSegmentsOf pts closed)) #[2, 0, 0, 0, 0] hnil hsz
    have henc' : Enc (putU32 (qBytesOf pts closed) 1 (qBytesOf pts closed).size) 5
        (qBytesOf pts closed).size 5
        (qBuild (fun i => (segmentAtOf pts i).box.g) (processPoints pts closed).rect.g
          (numSegmentsOf pts closed)) :=
      henc.imp (Nat.le_refl _) (Nat.le_refl _)
        (fun i h1 _ => getElem?_putU32_of_outside _ 1 _ i (by
          have : (#[2, 0, 0, 0, 0] : Array Nat).size = 5 := rfl
          omega))
    rw [qSearchBytes_of_enc _ _ _ _ _ _ _ (qMaxDepth + 2) 5 _ st henc' hnil hdepth hitems hlen,
      qSearchTree_eq_foldUntil]
    rfl

/-! ### the instance -/

/-- the pinched polygon `(0,0),(64,0),(64,64),(40,16),(16,0),(0,64)` with 31 extra collinear
    vertices; closed encoding (38 points, 37 segments).  Vertex 28 = (16,0) lies in the interior
    of edge 1 = (8,0)-(24,0). -/
def ring37 : Array Pt :=
  #[⟨0,0⟩, ⟨8,0⟩, ⟨24,0⟩, ⟨32,0⟩, ⟨48,0⟩, ⟨64,0⟩, ⟨64,8⟩, ⟨64,16⟩, ⟨64,24⟩, ⟨64,32⟩, ⟨64,40⟩,
    ⟨64,56⟩, ⟨64,64⟩, ⟨61,58⟩, ⟨58,52⟩, ⟨55,46⟩, ⟨52,40⟩, ⟨49,34⟩, ⟨46,28⟩, ⟨43,22⟩, ⟨40,16⟩,
    ⟨37,14⟩, ⟨34,12⟩, ⟨31,10⟩, ⟨28,8⟩, ⟨25,6⟩, ⟨22,4⟩, ⟨19,2⟩, ⟨16,0⟩,
    ⟨0,64⟩, ⟨0,56⟩, ⟨0,48⟩, ⟨0,40⟩, ⟨0,32⟩, ⟨0,24⟩, ⟨0,16⟩, ⟨0,8⟩, ⟨0,0⟩]

/-- from the touching vertex across the notch to the right side: NOT contained -/
def seg37 : Seg := ⟨⟨16,0⟩, ⟨64,48⟩⟩

theorem ring37_foldOn (q : Box) :
    (Ring.ser (mkSeries ring37 true .quadtree 1)).FoldOn q (qVisitOf ring37 true q) :=
  qtree_series_foldOn ring37 true 1 (by decide +kernel) (by decide +kernel) (by decide +kernel) q

/-- the quadtree visits edge 28 = (16,0)-(0,64) (a straddler kept in the root node; it has the
    query's end (16,0) as an END) before edge 1 = (8,0)-(24,0) (pushed down into a quadrant; it
    carries (16,0) in its interior) -/
theorem ring37_strip_order :
    qVisitOf ring37 true (stripBox (.ser (mkSeries ring37 true .quadtree 1)) ⟨16,0⟩) =
      [2, 28, 0, 1, 27, 36, 3, 4, 5] := by decide +kernel

/-- **realised by the quadtree** (kernel-checked, no hypothesis): `false` (site 9, the correct
    answer) without index, `true` (site 7) with the quadtree index -/
theorem ringContainsSegment_quadtree_vs_none :
    ringContainsSegmentS (.ser (mkSeries ring37 true .none 0)) seg37 true = ⟨false, 9⟩ ∧
    ringContainsSegmentS (.ser (mkSeries ring37 true .quadtree 1)) seg37 true = ⟨true, 7⟩ := by
  constructor
  · decide +kernel
  · rw [ringContainsSegmentS_eq_V _ _ ring37_foldOn]
    decide +kernel

end Geo
