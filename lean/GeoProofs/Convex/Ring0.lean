/-
  GeoProofs.Convex.Ring0 — periodic vertex sequences of simple closed chains and their images
  under invertible linear maps (shears, the mirror image, the half-turn).
-/
import GeoProofs.Jordan.Parity

namespace Geo
namespace Cvx
open Jordan

/-- `P` is the `n`-periodic vertex sequence of a simple closed chain -/
structure Simple0 (P : Nat → Pt) (n : Nat) : Prop where
  n3 : 3 ≤ n
  per : ∀ i, P (i + n) = P i
  adj1 : ∀ i, ¬ OnSeg (P i) (P (i+1)) (P (i+2))
  adj2 : ∀ i, ¬ OnSeg (P (i+1)) (P (i+2)) (P i)
  far : ∀ i d, 2 ≤ d → d + 2 ≤ n → ¬ SegsMeet (P i) (P (i+1)) (P (i+d)) (P (i+d+1))

/-- the linear map with matrix `(α β; γ δ)` -/
def lin (α β γ δ : Rat) (p : Pt) : Pt := ⟨α * p.x + β * p.y, γ * p.x + δ * p.y⟩

theorem lin_cross (α β γ δ : Rat) (a b c : Pt) :
    Spec.cross (lin α β γ δ a) (lin α β γ δ b) (lin α β γ δ c) =
      (α * δ - β * γ) * Spec.cross a b c := by
  simp only [K.cross_def, lin]; ring

theorem lin_onSeg (α β γ δ : Rat) (a b p : Pt) (h : OnSeg a b p) :
    OnSeg (lin α β γ δ a) (lin α β γ δ b) (lin α β γ δ p) := by
  obtain ⟨t, h0, h1, hx, hy⟩ := (K.onSeg_iff_param a b p).1 h
  refine (K.onSeg_iff_param _ _ _).2 ⟨t, h0, h1, ?_, ?_⟩
  · simp only [lin, hx, hy]; ring
  · simp only [lin, hx, hy]; ring

/-- an invertible map that scales `cross` and preserves segments -/
structure LinOK (T Ti : Pt → Pt) (k : Rat) : Prop where
  cross : ∀ a b c, Spec.cross (T a) (T b) (T c) = k * Spec.cross a b c
  on : ∀ a b p, OnSeg a b p → OnSeg (T a) (T b) (T p)
  oni : ∀ a b p, OnSeg a b p → OnSeg (Ti a) (Ti b) (Ti p)
  li : ∀ p, Ti (T p) = p

theorem LinOK.onSeg_iff {T Ti : Pt → Pt} {k : Rat} (hT : LinOK T Ti k) (a b p : Pt) :
    OnSeg (T a) (T b) (T p) ↔ OnSeg a b p := by
  refine ⟨fun h => ?_, hT.on a b p⟩
  have := hT.oni _ _ _ h
  rwa [hT.li, hT.li, hT.li] at this

theorem LinOK.segsMeet_imp {T Ti : Pt → Pt} {k : Rat} (hT : LinOK T Ti k) (a b c d : Pt)
    (h : SegsMeet (T a) (T b) (T c) (T d)) : SegsMeet a b c d := by
  obtain ⟨z, h1, h2⟩ := h
  refine ⟨Ti z, ?_, ?_⟩
  · have := hT.oni _ _ _ h1; rwa [hT.li, hT.li] at this
  · have := hT.oni _ _ _ h2; rwa [hT.li, hT.li] at this

theorem Simple0.map {P : Nat → Pt} {n : Nat} (h : Simple0 P n) {T Ti : Pt → Pt} {k : Rat}
    (hT : LinOK T Ti k) : Simple0 (fun i => T (P i)) n where
  n3 := h.n3
  per := fun i => by simp only [h.per]
  adj1 := fun i hh => h.adj1 i ((hT.onSeg_iff _ _ _).1 hh)
  adj2 := fun i hh => h.adj2 i ((hT.onSeg_iff _ _ _).1 hh)
  far := fun i d h2 hd hh => h.far i d h2 hd (hT.segsMeet_imp _ _ _ _ hh)

/-- the half-turn -/
def rot : Pt → Pt := lin (-1) 0 0 (-1)

/-- shear (slope `s`) composed with the mirror image when `σ = -1` -/
def shm (σ s : Rat) : Pt → Pt := lin σ 0 s 1

theorem rotOK : LinOK rot rot 1 where
  cross := fun a b c => by rw [rot, lin_cross]; ring
  on := fun a b p h => lin_onSeg _ _ _ _ a b p h
  oni := fun a b p h => lin_onSeg _ _ _ _ a b p h
  li := fun p => by cases p; simp [rot, lin]

theorem shmOK (σ s : Rat) (hσ : σ * σ = 1) : LinOK (shm σ s) (lin σ 0 (-s * σ) 1) σ where
  cross := fun a b c => by rw [shm, lin_cross]; ring
  on := fun a b p h => lin_onSeg _ _ _ _ a b p h
  oni := fun a b p h => lin_onSeg _ _ _ _ a b p h
  li := fun p => by
    cases p with
    | mk x y =>
      simp only [shm, lin, Pt.mk.injEq]
      constructor
      · linear_combination x * hσ
      · linear_combination (-s * x) * hσ

theorem rot_y (p : Pt) : (rot p).y = -p.y := by simp [rot, lin]
theorem shm_y (σ s : Rat) (p : Pt) : (shm σ s p).y = s * p.x + p.y := by simp [shm, lin]

end Cvx
end Geo
