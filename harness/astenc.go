package main

import (
	"bytes"
	"encoding/hex"
	"encoding/json"
	"fmt"
	"math"
	"math/big"
	"strconv"
	"strings"
)

// Text -> AST line encoding for the Lean driver. Validity is decided by encoding/json
// (json.Valid), strings are decoded by encoding/json, numbers by strconv.ParseFloat; the
// scanner below only slices an already-valid text into raw tokens, and the result is
// cross-checked against json.Compact (astSelfCheck).
//
// tokens:  z t f | n<fin>:<num>/<den>:<canonhex>:<canonKhex>:<rawhex> | s:<rawhex>:<dechex>
//          [ ... ] | { k:<rawhex>:<dechex> value ... }

func hx(s string) string {
	if s == "" {
		return "-"
	}
	return hex.EncodeToString([]byte(s))
}

type astScanner struct {
	s   string
	pos int
	out []string
	err error
}

func (a *astScanner) ws() {
	for a.pos < len(a.s) {
		switch a.s[a.pos] {
		case ' ', '\t', '\n', '\r':
			a.pos++
		default:
			return
		}
	}
}

func (a *astScanner) rawString() string {
	start := a.pos
	a.pos++ // opening quote
	for a.pos < len(a.s) {
		c := a.s[a.pos]
		if c == '\\' {
			a.pos += 2
			continue
		}
		a.pos++
		if c == '"' {
			break
		}
	}
	return a.s[start:a.pos]
}

func canonFloat(f float64) string {
	if math.IsNaN(f) || math.IsInf(f, 0) {
		return "null"
	}
	return strconv.FormatFloat(f, 'f', -1, 64)
}

func (a *astScanner) value() {
	a.ws()
	if a.pos >= len(a.s) {
		a.err = fmt.Errorf("eof")
		return
	}
	switch c := a.s[a.pos]; {
	case c == '{':
		a.pos++
		a.out = append(a.out, "{")
		for {
			a.ws()
			if a.s[a.pos] == '}' {
				a.pos++
				break
			}
			if a.s[a.pos] == ',' {
				a.pos++
				continue
			}
			raw := a.rawString()
			var dec string
			if err := json.Unmarshal([]byte(raw), &dec); err != nil {
				a.err = err
				return
			}
			a.out = append(a.out, "k:"+hx(raw)+":"+hx(dec))
			a.ws()
			a.pos++ // colon
			a.value()
			if a.err != nil {
				return
			}
		}
		a.out = append(a.out, "}")
	case c == '[':
		a.pos++
		a.out = append(a.out, "[")
		for {
			a.ws()
			if a.s[a.pos] == ']' {
				a.pos++
				break
			}
			if a.s[a.pos] == ',' {
				a.pos++
				continue
			}
			a.value()
			if a.err != nil {
				return
			}
		}
		a.out = append(a.out, "]")
	case c == '"':
		raw := a.rawString()
		var dec string
		if err := json.Unmarshal([]byte(raw), &dec); err != nil {
			a.err = err
			return
		}
		a.out = append(a.out, "s:"+hx(raw)+":"+hx(dec))
	case c == 't':
		a.pos += 4
		a.out = append(a.out, "t")
	case c == 'f':
		a.pos += 5
		a.out = append(a.out, "f")
	case c == 'n':
		a.pos += 4
		a.out = append(a.out, "z")
	default:
		start := a.pos
		for a.pos < len(a.s) && strings.IndexByte("+-0123456789.eE", a.s[a.pos]) >= 0 {
			a.pos++
		}
		raw := a.s[start:a.pos]
		f, _ := strconv.ParseFloat(raw, 64)
		fin := !(math.IsNaN(f) || math.IsInf(f, 0))
		rat := "0/1"
		finS := "0"
		if fin {
			r := new(big.Rat).SetFloat64(f)
			rat = r.Num().String() + "/" + r.Denom().String()
			finS = "1"
		}
		a.out = append(a.out, "n"+finS+":"+rat+":"+hx(canonFloat(f))+":"+hx(canonFloat(f*1000))+":"+hx(raw))
	}
}

// astOf returns the AST token string of a text, or "invalid" when Parse must reject it as
// not-one-valid-JSON-value (after optional leading whitespace).
func astOf(text string) string {
	if !json.Valid([]byte(text)) {
		return "invalid"
	}
	a := &astScanner{s: text}
	a.value()
	if a.err != nil {
		return "invalid"
	}
	return strings.Join(a.out, " ")
}

// renderAST re-renders the token string minified; used as a self check against json.Compact.
func astSelfCheck(text string) bool {
	ast := astOf(text)
	if ast == "invalid" {
		return true
	}
	var sb strings.Builder
	toks := strings.Fields(ast)
	needComma := []bool{false}
	unhx := func(h string) string {
		if h == "-" {
			return ""
		}
		b, _ := hex.DecodeString(h)
		return string(b)
	}
	for _, t := range toks {
		top := len(needComma) - 1
		if t == "}" || t == "]" {
			sb.WriteString(t)
			needComma = needComma[:top]
			needComma[len(needComma)-1] = true
			continue
		}
		if strings.HasPrefix(t, "k:") {
			if needComma[top] {
				sb.WriteByte(',')
			}
			sb.WriteString(unhx(strings.Split(t, ":")[1]))
			sb.WriteByte(':')
			needComma[top] = false
			continue
		}
		if needComma[top] {
			sb.WriteByte(',')
		}
		switch {
		case t == "{" || t == "[":
			sb.WriteString(t)
			needComma = append(needComma, false)
			continue
		case t == "z":
			sb.WriteString("null")
		case t == "t":
			sb.WriteString("true")
		case t == "f":
			sb.WriteString("false")
		case strings.HasPrefix(t, "s:"):
			sb.WriteString(unhx(strings.Split(t, ":")[1]))
		case strings.HasPrefix(t, "n"):
			sb.WriteString(unhx(strings.Split(t, ":")[4]))
		}
		needComma[top] = true
	}
	var cb bytes.Buffer
	if err := json.Compact(&cb, []byte(text)); err != nil {
		return false
	}
	return cb.String() == sb.String()
}
