/-
  GeoProofs.OptPred.Unary — the eight Spatial methods (`intersects{Point,Rect,Line,Poly}`,
  `within{Point,Rect,Line,Poly}`) of similar objects against similar arguments.
-/
import GeoProofs.OptPred.Sim

namespace Geo
open Obj

/-! ### intersects -/

mutual
theorem Obj.Sim.intersectsPoint : ∀ {x x' : Obj}, Obj.Sim x x' → ∀ q, x.intersectsPoint q = x'.intersectsPoint q
  | _, _, .point _ _, _ => rfl
  | _, _, .spoint _, _ => rfl
  | _, _, .lineString _ _ _ _ h, q => by simp only [Obj.intersectsPoint]; exact h.containsPoint q
  | _, _, .polygon _ _ _ _ h, q => by simp only [Obj.intersectsPoint]; exact h.containsPoint q
  | _, _, .rectO _ _ _, _ => rfl
  | _, _, .coll _ _ _ _ _ _ h, q => by simp only [Obj.intersectsPoint]; exact Obj.SimL.intersectsPointL h q
  | _, _, .feature _ _ _ h, q => by simp only [Obj.intersectsPoint]; exact Obj.Sim.intersectsPoint h q
  | _, _, .circle _ _, _ => rfl
theorem Obj.SimL.intersectsPointL : ∀ {cs cs' : List Obj}, Obj.SimL cs cs' → ∀ q,
    intersectsPointL cs q = intersectsPointL cs' q
  | _, _, .nil, _ => rfl
  | _, _, .cons _ _ _ _ h hs, q => by
    simp only [Obj.intersectsPointL, h.empty, h.rect, Obj.Sim.intersectsPoint h q,
      Obj.SimL.intersectsPointL hs q]
end

mutual
theorem Obj.Sim.intersectsRect : ∀ {x x' : Obj}, Obj.Sim x x' → ∀ r, x.intersectsRect r = x'.intersectsRect r
  | _, _, .point _ _, _ => rfl
  | _, _, .spoint _, _ => rfl
  | _, _, .lineString _ _ _ _ h, r => by
    simp only [Obj.intersectsRect, Line.intersectsRect]; exact Box.intersectsLine_congr h.same r
  | _, _, .polygon _ _ _ _ h, r => by simp only [Obj.intersectsRect]; exact h.intersectsRect r
  | _, _, .rectO _ _ _, _ => rfl
  | _, _, .coll _ _ _ _ _ _ h, r => by simp only [Obj.intersectsRect]; exact Obj.SimL.intersectsRectL h r
  | _, _, .feature _ _ _ h, r => by simp only [Obj.intersectsRect]; exact Obj.Sim.intersectsRect h r
  | _, _, .circle _ _, _ => rfl
theorem Obj.SimL.intersectsRectL : ∀ {cs cs' : List Obj}, Obj.SimL cs cs' → ∀ r,
    intersectsRectL cs r = intersectsRectL cs' r
  | _, _, .nil, _ => rfl
  | _, _, .cons _ _ _ _ h hs, r => by
    simp only [Obj.intersectsRectL, h.empty, h.rect, Obj.Sim.intersectsRect h r,
      Obj.SimL.intersectsRectL hs r]
end

mutual
theorem Obj.Sim.intersectsLine : ∀ {x x' : Obj}, Obj.Sim x x' → ∀ {l l' : Line}, Line.Sim l l' →
    x.intersectsLine l = x'.intersectsLine l'
  | _, _, .point _ _, _, _, hl => by
    simp only [Obj.intersectsLine, Pt.intersectsLine]; exact hl.containsPoint _
  | _, _, .spoint _, _, _, hl => by
    simp only [Obj.intersectsLine, Pt.intersectsLine]; exact hl.containsPoint _
  | _, _, .lineString _ _ _ _ h, _, _, hl => by simp only [Obj.intersectsLine]; exact h.intersectsLine hl
  | _, _, .polygon _ _ _ _ h, _, _, hl => by simp only [Obj.intersectsLine]; exact h.intersectsLine hl.same
  | _, _, .rectO b _ _, _, _, hl => by simp only [Obj.intersectsLine]; exact Box.intersectsLine_congr hl.same b
  | _, _, .coll _ _ _ _ _ _ h, _, _, hl => by
    simp only [Obj.intersectsLine]; exact Obj.SimL.intersectsLineL h hl
  | _, _, .feature _ _ _ h, _, _, hl => by simp only [Obj.intersectsLine]; exact Obj.Sim.intersectsLine h hl
  | _, _, .circle _ _, _, _, _ => rfl
theorem Obj.SimL.intersectsLineL : ∀ {cs cs' : List Obj}, Obj.SimL cs cs' → ∀ {l l' : Line}, Line.Sim l l' →
    intersectsLineL cs l = intersectsLineL cs' l'
  | _, _, .nil, _, _, _ => rfl
  | _, _, .cons _ _ _ _ h hs, _, _, hl => by
    simp only [Obj.intersectsLineL, h.empty, h.rect, hl.same.2.2.2.2, Obj.Sim.intersectsLine h hl,
      Obj.SimL.intersectsLineL hs hl]
end

mutual
theorem Obj.Sim.intersectsPoly : ∀ {x x' : Obj}, Obj.Sim x x' → ∀ {p p' : Poly}, Poly.Sim p p' →
    x.intersectsPoly p = x'.intersectsPoly p'
  | _, _, .point _ _, _, _, hp => by
    simp only [Obj.intersectsPoly, Pt.intersectsPoly]; exact hp.containsPoint _
  | _, _, .spoint _, _, _, hp => by
    simp only [Obj.intersectsPoly, Pt.intersectsPoly]; exact hp.containsPoint _
  | _, _, .lineString _ _ _ _ h, _, _, hp => by
    simp only [Obj.intersectsPoly, Line.intersectsPoly]; exact hp.intersectsLine h.same
  | _, _, .polygon _ _ _ _ h, _, _, hp => by simp only [Obj.intersectsPoly]; exact h.intersectsPoly hp
  | _, _, .rectO b _ _, _, _, hp => by
    simp only [Obj.intersectsPoly, Box.intersectsPoly]; exact hp.intersectsRect b
  | _, _, .coll _ _ _ _ _ _ h, _, _, hp => by
    simp only [Obj.intersectsPoly]; exact Obj.SimL.intersectsPolyL h hp
  | _, _, .feature _ _ _ h, _, _, hp => by simp only [Obj.intersectsPoly]; exact Obj.Sim.intersectsPoly h hp
  | _, _, .circle _ _, _, _, _ => rfl
theorem Obj.SimL.intersectsPolyL : ∀ {cs cs' : List Obj}, Obj.SimL cs cs' → ∀ {p p' : Poly}, Poly.Sim p p' →
    intersectsPolyL cs p = intersectsPolyL cs' p'
  | _, _, .nil, _, _, _ => rfl
  | _, _, .cons _ _ _ _ h hs, _, _, hp => by
    simp only [Obj.intersectsPolyL, h.empty, h.rect, hp.rect, Obj.Sim.intersectsPoly h hp,
      Obj.SimL.intersectsPolyL hs hp]
end

end Geo

namespace Geo
open Obj

/-! ### within -/

mutual
theorem Obj.Sim.withinRect : ∀ {x x' : Obj}, Obj.Sim x x' → ∀ r, x.withinRect r = x'.withinRect r
  | _, _, .point _ _, _ => rfl
  | _, _, .spoint _, _ => rfl
  | _, _, .lineString _ _ _ _ h, r => by simp only [Obj.withinRect]; exact Box.containsLine_congr h.same r
  | _, _, .polygon _ _ _ _ h, r => by simp only [Obj.withinRect]; exact Box.containsPoly_congr h r
  | _, _, .rectO _ _ _, _ => rfl
  | _, _, .coll k cs cs' ex i i' h, r => by
    have he := (Obj.Sim.coll k cs cs' ex i i' h).empty
    simp only [Obj.withinRect, he, h.length_eq, Obj.SimL.withinRectL h r r]
  | _, _, .feature _ _ _ h, r => by simp only [Obj.withinRect]; exact Obj.Sim.withinRect h r
  | _, _, .circle _ _, _ => rfl
theorem Obj.SimL.withinRectL : ∀ {cs cs' : List Obj}, Obj.SimL cs cs' → ∀ q r,
    withinRectL cs q r = withinRectL cs' q r
  | _, _, .nil, _, _ => rfl
  | _, _, .cons _ _ _ _ h hs, q, r => by
    simp only [Obj.withinRectL, h.empty, h.rect, Obj.Sim.withinRect h r, Obj.SimL.withinRectL hs q r]
end

mutual
theorem Obj.Sim.withinPoint : ∀ {x x' : Obj}, Obj.Sim x x' → ∀ q, x.withinPoint q = x'.withinPoint q
  | _, _, .point _ _, _ => rfl
  | _, _, .spoint _, _ => rfl
  | _, _, .lineString _ _ _ _ h, q => by simp only [Obj.withinPoint]; exact Pt.containsLine_congr h.same q
  | _, _, .polygon _ _ _ _ h, q => by simp only [Obj.withinPoint]; exact Pt.containsPoly_congr h q
  | _, _, .rectO _ _ _, _ => rfl
  | _, _, .coll k cs cs' ex i i' h, q => by
    have he := (Obj.Sim.coll k cs cs' ex i i' h).empty
    simp only [Obj.withinPoint, he, h.length_eq, Obj.SimL.withinPointL h q]
  | _, _, .feature _ _ _ h, q => by simp only [Obj.withinPoint]; exact Obj.Sim.withinPoint h q
  | _, _, .circle _ _, _ => rfl
theorem Obj.SimL.withinPointL : ∀ {cs cs' : List Obj}, Obj.SimL cs cs' → ∀ q,
    withinPointL cs q = withinPointL cs' q
  | _, _, .nil, _ => rfl
  | _, _, .cons _ _ _ _ h hs, q => by
    simp only [Obj.withinPointL, h.empty, h.rect, Obj.Sim.withinPoint h q, Obj.SimL.withinPointL hs q]
end

mutual
/-- `l.contains x`: `Line.containsLine` never searches, no side condition -/
theorem Obj.Sim.withinLine : ∀ {x x' : Obj}, Obj.Sim x x' → ∀ {l l' : Line}, Line.Sim l l' →
    x.withinLine l = x'.withinLine l'
  | _, _, .point _ _, _, _, hl => by simp only [Obj.withinLine]; exact hl.containsPoint _
  | _, _, .spoint _, _, _, hl => by simp only [Obj.withinLine]; exact hl.containsPoint _
  | _, _, .lineString _ _ _ _ h, _, _, hl => by
    simp only [Obj.withinLine]; exact Line.containsLine_congr hl.same h.same
  | _, _, .polygon _ _ _ _ h, _, _, hl => by
    simp only [Obj.withinLine]; exact Line.containsPoly_congr hl.same h
  | _, _, .rectO b _ _, _, _, hl => by simp only [Obj.withinLine]; exact Line.containsRect_congr hl.same b
  | _, _, .coll k cs cs' ex i i' h, _, _, hl => by
    have he := (Obj.Sim.coll k cs cs' ex i i' h).empty
    simp only [Obj.withinLine, he, h.length_eq, Obj.SimL.withinLineL h hl]
  | _, _, .feature _ _ _ h, _, _, hl => by simp only [Obj.withinLine]; exact Obj.Sim.withinLine h hl
  | _, _, .circle _ _, _, _, _ => rfl
theorem Obj.SimL.withinLineL : ∀ {cs cs' : List Obj}, Obj.SimL cs cs' → ∀ {l l' : Line}, Line.Sim l l' →
    withinLineL cs l = withinLineL cs' l'
  | _, _, .nil, _, _, _ => rfl
  | _, _, .cons _ _ _ _ h hs, _, _, hl => by
    simp only [Obj.withinLineL, h.empty, h.rect, hl.same.2.2.2.2, Obj.Sim.withinLine h hl,
      Obj.SimL.withinLineL hs hl]
end

mutual
/-- `p.contains x`: the exterior of `p` is a container in the inclusive reading (`ExtSafe`), and
    so are the holes of a polygon `x` (`HolesSafe`) -/
theorem Obj.Sim.withinPoly : ∀ {x x' : Obj}, Obj.Sim x x' → x.HolesSafe →
    ∀ {p p' : Poly}, Poly.Sim p p' → p.ExtSafe → x.withinPoly p = x'.withinPoly p'
  | _, _, .point _ _, _, _, _, hp, _ => by simp only [Obj.withinPoly]; exact hp.containsPoint _
  | _, _, .spoint _, _, _, _, hp, _ => by simp only [Obj.withinPoly]; exact hp.containsPoint _
  | _, _, .lineString _ _ _ _ h, _, _, _, hp, hs => by
    simp only [Obj.withinPoly]; exact hp.containsLine h.same hs
  | _, _, .polygon _ _ _ _ h, hx, _, _, hp, hs => by
    simp only [Obj.withinPoly]; exact hp.containsPoly h hs hx
  | _, _, .rectO b _ _, _, _, _, hp, hs => by simp only [Obj.withinPoly]; exact hp.containsRect b hs
  | _, _, .coll k cs cs' ex i i' h, hx, _, _, hp, hs => by
    have he := (Obj.Sim.coll k cs cs' ex i i' h).empty
    simp only [Obj.withinPoly, he, h.length_eq, Obj.SimL.withinPolyL h hx hp hs]
  | _, _, .feature _ _ _ h, hx, _, _, hp, hs => by
    simp only [Obj.withinPoly]; exact Obj.Sim.withinPoly h hx hp hs
  | _, _, .circle _ _, _, _, _, _, _ => rfl
theorem Obj.SimL.withinPolyL : ∀ {cs cs' : List Obj}, Obj.SimL cs cs' →
    Obj.AllLeafL (fun _ => True) Poly.HolesSafe cs →
    ∀ {p p' : Poly}, Poly.Sim p p' → p.ExtSafe → withinPolyL cs p = withinPolyL cs' p'
  | _, _, .nil, _, _, _, _, _ => rfl
  | _, _, .cons _ _ _ _ h hs, hx, _, _, hp, hsafe => by
    simp only [Obj.withinPolyL, h.empty, h.rect, hp.rect, Obj.Sim.withinPoly h hx.1 hp hsafe,
      Obj.SimL.withinPolyL hs hx.2 hp hsafe]
end

end Geo
