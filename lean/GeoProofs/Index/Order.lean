/-
  GeoProofs.Index.Order — the order laws assumed of a carrier, box inclusion, and the two
  tiny geometric facts used by the index proofs.  Nothing is assumed about `mid/sub/mul`.
-/
import GeoModel.Index

namespace Geo

/-- order laws: `lt` is asymmetric and `le a b := ¬ lt b a` is transitive (strict weak order).
    Nothing about `mid`/`sub`/`mul`. -/
class LawfulCarrier (α : Type) [Carrier α] : Prop where
  asymm : ∀ a b : α, Carrier.lt a b = true → Carrier.lt b a = false
  le_trans : ∀ a b c : α, Carrier.lt b a = false → Carrier.lt c b = false → Carrier.lt c a = false

section
variable {α : Type} [Carrier α]
open Carrier

/-- `r` lies inside `b` (non-strictly), phrased with `¬ lt` only. -/
def GBox.Inside (r b : GBox α) : Prop :=
  lt r.minx b.minx = false ∧ lt r.miny b.miny = false ∧
  lt b.maxx r.maxx = false ∧ lt b.maxy r.maxy = false

instance : HasSubset (GBox α) := ⟨GBox.Inside⟩

theorem GBox.subset_def (r b : GBox α) :
    r ⊆ b ↔ (lt r.minx b.minx = false ∧ lt r.miny b.miny = false ∧
      lt b.maxx r.maxx = false ∧ lt b.maxy r.maxy = false) := Iff.rfl

theorem GBox.meets_iff (r o : GBox α) :
    r.meets o = true ↔ (lt o.maxy r.miny = false ∧ lt r.maxy o.miny = false ∧
      lt o.maxx r.minx = false ∧ lt r.maxx o.minx = false) := by
  unfold GBox.meets
  cases lt o.maxy r.miny <;> cases lt r.maxy o.miny <;> cases lt o.maxx r.minx <;>
    cases lt r.maxx o.minx <;> simp

/-- `GBox.contains` is exactly box inclusion. -/
theorem GBox.contains_iff (r b : GBox α) : r.contains b = true ↔ b ⊆ r := by
  rw [GBox.subset_def]
  unfold GBox.contains
  cases lt b.minx r.minx <;> cases lt r.maxx b.maxx <;> cases lt b.miny r.miny <;>
    cases lt r.maxy b.maxy <;> simp

/-- key fact (2): a box inside `qb` that meets `q` forces `qb` to meet `q`. -/
theorem GBox.meets_of_subset [LawfulCarrier α] {box qb q : GBox α}
    (hsub : box ⊆ qb) (hm : box.meets q = true) : qb.meets q = true := by
  rw [GBox.subset_def] at hsub
  rw [GBox.meets_iff] at hm ⊢
  obtain ⟨h1, h2, h3, h4⟩ := hsub
  obtain ⟨m1, m2, m3, m4⟩ := hm
  refine ⟨?_, ?_, ?_, ?_⟩
  · exact LawfulCarrier.le_trans _ _ _ h2 m1
  · exact LawfulCarrier.le_trans _ _ _ m2 h4
  · exact LawfulCarrier.le_trans _ _ _ h1 m3
  · exact LawfulCarrier.le_trans _ _ _ m4 h3

theorem chooseQuad_lt_four {bounds rect : GBox α} {k : Nat}
    (h : chooseQuad bounds rect = some k) : k < 4 := by
  unfold chooseQuad at h
  simp only at h
  repeat' split at h
  all_goals first | (cases h; omega) | cases h

/-- key fact (1): `chooseQuad` and `quadBounds` use the same midpoints, so whatever `mid`
    returns, the chosen quad contains the rectangle. -/
theorem chooseQuad_subset [LawfulCarrier α] {bounds rect : GBox α} {k : Nat}
    (h : chooseQuad bounds rect = some k) (hsub : rect ⊆ bounds) :
    rect ⊆ quadBounds bounds k := by
  rw [GBox.subset_def] at hsub
  obtain ⟨h1, h2, h3, h4⟩ := hsub
  unfold chooseQuad at h
  simp only at h
  repeat' split at h
  all_goals first | cases h | skip
  all_goals
    try simp only [Bool.not_eq_true] at *
    rw [GBox.subset_def]
    simp only [quadBounds]
    refine ⟨?_, ?_, ?_, ?_⟩ <;>
      first | assumption | (apply LawfulCarrier.asymm; assumption)

end
end Geo
