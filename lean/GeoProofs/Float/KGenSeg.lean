/-
  GeoProofs.Float.KGenSeg — the kernels GENERATED from segment.go (`Geo.KGen.segmentIntersectsSegment`,
  `segmentContainsSegment`, `segmentCollinearPoint`) at the exact binary64 model `KNum FQ` equal
  the exact `Rat` model on the regime E (and therefore the hand transcription `segIntersectsF`).
-/
import GeoProofs.Float.KGenRay
set_option linter.auxLemma false
set_option linter.unusedSimpArgs false
namespace Geo.F
open Geo

theorem D1.abs_mul_le {x y : ℚ} (hx : D1 x) (hy : D1 y) : |x * y| ≤ 2 ^ (1023 : ℤ) := by
  have h1 := hx.abs_le; have h2 := hy.abs_le
  have h3 : (2 : ℚ) ^ (42 : ℤ) ≤ 2 ^ (1023 : ℤ) := two_zpow_le (by norm_num)
  refine le_trans ?_ h3
  rw [abs_mul]
  calc |x| * |y| ≤ 2 ^ 21 * 2 ^ 21 := mul_le_mul h1 h2 (abs_nonneg _) (by norm_num)
    _ = 2 ^ (42 : ℤ) := by norm_num

theorem kmul_D1 {x y : ℚ} (hx : D1 x) (hy : D1 y) :
    KNum.mul (FQ.fin x) (FQ.fin y) = .fin (x * y) := by
  rw [kmul_fin (hx.abs_mul_le hy), fmul_exact hx hy]

theorem ksub_D2 {x y : ℚ} (hx : D2 x) (hy : D2 y) :
    KNum.sub (FQ.fin x) (FQ.fin y) = .fin (x - y) := by
  have h := (hx.sub hy).abs_le
  have h3 : (2 : ℚ) ^ (43 : ℤ) ≤ 2 ^ (1023 : ℤ) := two_zpow_le (by norm_num)
  rw [ksub_fin (le_trans (by simpa using h) h3), fsub_exact2 hx hy]

theorem ksub_E {x y : ℚ} (hx : InE x) (hy : InE y) :
    KNum.sub (FQ.fin x) (FQ.fin y) = .fin (x - y) := by
  rw [ksub_small hx.abs_le21 hy.abs_le21, fsub_exact hx hy]

theorem D3.abs_ge {x : ℚ} (h : D3 x) (h0 : x ≠ 0) : 1 / 256 ≤ |x| := by
  obtain ⟨k, _, rfl⟩ := h
  have hk : k ≠ 0 := by rintro rfl; simp at h0
  have : (1 : ℚ) ≤ |(k : ℚ)| := by exact_mod_cast Int.one_le_abs hk
  rw [abs_div, abs_of_pos (by positivity : (0 : ℚ) < 2 ^ 8), le_div_iff₀ (by positivity)]
  linarith

theorem kt_fin {n d : ℚ} (hn : D3 n) (hd : D3 d) (hd0 : d ≠ 0) :
    KNum.mul (FQ.fin n) (KNum.div (FQ.fin 1) (FQ.fin d)) = .fin (fmul n (fdiv 1 d)) := by
  have hdge := hd.abs_ge hd0
  have hq : |1 / d| ≤ (2 : ℚ) ^ (8 : ℤ) := by
    rw [abs_div, abs_one, div_le_iff₀ (by linarith)]
    norm_num; linarith
  have h8 : (2 : ℚ) ^ (8 : ℤ) ≤ 2 ^ (1023 : ℤ) := two_zpow_le (by norm_num)
  rw [kdiv_fin (Or.inr (hq.trans h8)), fdivF_ne hd0]
  apply kmul_fin
  have hr : |fdiv 1 d| ≤ (2 : ℚ) ^ (8 : ℤ) := abs_rn_le_zpow (by norm_num) hq
  have hnle := hn.abs_le
  have h51 : (2 : ℚ) ^ (51 : ℤ) ≤ 2 ^ (1023 : ℤ) := two_zpow_le (by norm_num)
  refine le_trans ?_ h51
  rw [abs_mul]
  calc |n| * |fdiv 1 d| ≤ 2 ^ 43 * 2 ^ (8 : ℤ) := mul_le_mul hnle hr (abs_nonneg _) (by norm_num)
    _ = 2 ^ (51 : ℤ) := by norm_num

theorem match_getD_B (o : Option Bool) (e : Bool) :
    Geo.KGen.segmentIntersectsSegment.match_1 (fun _ => Bool) o (fun r => r) (fun _ => e)
      = o.getD e := by
  cases o <;> rfl

theorem val_ite (c : Prop) [Decidable c] (x y : BoolSite) :
    (if c then x else y).val = if c then x.val else y.val := by split_ifs <;> rfl

theorem eqz_iff (x : ℚ) : (!(decide (x < 0) || decide (x > 0))) = true ↔ x = 0 := by
  have := eqZeroF_eq x
  unfold eqZeroF at this
  rw [this]; simp

theorem toK_on (r : RayRes) : (toK r).on = r.on := rfl

theorem kgen_intersects_exact {a b c d : Pt} (ha : PtE a) (hb : PtE b) (hc : PtE c) (hd : PtE d) :
    KGen.segmentIntersectsSegment ⟨up a, up b⟩ ⟨up c, up d⟩
      = (segIntersectsS ⟨a, b⟩ ⟨c, d⟩).val := by
  have Dcmpx := hc.1.sub ha.1
  have Dcmpy := hc.2.sub ha.2
  have Drx := hb.1.sub ha.1
  have Dry := hb.2.sub ha.2
  have Dsx := hd.1.sub hc.1
  have Dsy := hd.2.sub hc.2
  unfold KGen.segmentIntersectsSegment KGen.eqZero
  simp only [kgen_raycast_exact ha hb hc, kgen_raycast_exact ha hb hd, kgen_raycast_exact hc hd ha]
  simp only [up, ksub_E hc.1 ha.1, ksub_E hc.2 ha.2, ksub_E hb.1 ha.1, ksub_E hb.2 ha.2,
    ksub_E hd.1 hc.1, ksub_E hd.2 hc.2, ksub_E hc.1 hb.1, ksub_E hc.2 hb.2,
    kmul_D1 Dcmpx Dry, kmul_D1 Dcmpy Drx, kmul_D1 Dcmpx Dsy, kmul_D1 Dcmpy Dsx, kmul_D1 Drx Dsy,
    kmul_D1 Dry Dsx, ksub_D2 (Dcmpx.mul Dry) (Dcmpy.mul Drx), ksub_D2 (Dcmpx.mul Dsy) (Dcmpy.mul Dsx),
    ksub_D2 (Drx.mul Dsy) (Dry.mul Dsx), kofNat_zero, kofNat_one,
    klt_fin, kgt_fin, kle_fin, KPoint.eq, keq_fin]
  have D3xs := (Dcmpx.mul Dsy).sub (Dcmpy.mul Dsx)
  have D3xr := (Dcmpx.mul Dry).sub (Dcmpy.mul Drx)
  have D3rxs := (Drx.mul Dsy).sub (Dry.mul Dsx)
  unfold segIntersectsS axisReject Seg.raycast
  by_cases hr : (b.x - a.x) * (d.y - c.y) - (b.y - a.y) * (d.x - c.x) = 0
  · clear D3xs D3xr D3rxs Dcmpx Dcmpy Drx Dry Dsx Dsy ha hb hc hd
    by_cases h1 : a.y > b.y <;> by_cases h2 : c.y > d.y <;> by_cases h3 : a.x > b.x <;>
      by_cases h4 : c.x > d.x <;>
    simp only [h1, h2, h3, h4, hr, if_true, if_false, decide_true, decide_false, match_getD_B, val_ite, ite_some_getD, ite_getD,
      Option.getD_some, Option.getD_none, eqz_iff, toK_on, Bool.or_eq_true, Bool.and_eq_true,
      decide_eq_true_eq, Pt.ext_iff', gt_iff_lt, Bool.false_eq_true]
  · obtain ⟨t1, t2⟩ := tcmp D3xs D3rxs hr
    obtain ⟨u1, u2⟩ := tcmp D3xr D3rxs hr
    simp only [kt_fin D3xs D3rxs hr, kt_fin D3xr D3rxs hr, kge_fin, kle_fin, ge_iff_le, t1, t2, u1, u2]
    clear t1 t2 u1 u2 D3xs D3xr D3rxs Dcmpx Dcmpy Drx Dry Dsx Dsy ha hb hc hd
    by_cases h1 : a.y > b.y <;> by_cases h2 : c.y > d.y <;> by_cases h3 : a.x > b.x <;>
      by_cases h4 : c.x > d.x <;>
    simp only [h1, h2, h3, h4, hr, if_true, if_false, decide_true, decide_false, match_getD_B, val_ite, ite_some_getD, ite_getD,
      Option.getD_some, Option.getD_none, eqz_iff, toK_on, Bool.or_eq_true, Bool.and_eq_true,
      decide_eq_true_eq, Pt.ext_iff', gt_iff_lt, Bool.false_eq_true]

/-- the generated kernel and the hand transcription agree on E -/
theorem kgen_intersects_handF {a b c d : Pt} (ha : PtE a) (hb : PtE b) (hc : PtE c) (hd : PtE d) :
    KGen.segmentIntersectsSegment ⟨up a, up b⟩ ⟨up c, up d⟩
      = (segIntersectsF ⟨a, b⟩ ⟨c, d⟩).val := by
  rw [kgen_intersects_exact ha hb hc hd, segIntersectsF_eq (s := ⟨a, b⟩) (o := ⟨c, d⟩) ha hb hc hd]

theorem kgen_containsSegment_exact {a b c d : Pt} (ha : PtE a) (hb : PtE b) (hc : PtE c)
    (hd : PtE d) :
    KGen.segmentContainsSegment ⟨up a, up b⟩ ⟨up c, up d⟩ = Seg.containsSeg ⟨a, b⟩ ⟨c, d⟩ := by
  unfold KGen.segmentContainsSegment
  simp only [kgen_raycast_exact ha hb hc, kgen_raycast_exact ha hb hd]
  rfl

theorem kgen_collinearPoint_exact {a b p : Pt} (ha : PtE a) (hb : PtE b) (hp : PtE p) :
    KGen.segmentCollinearPoint ⟨up a, up b⟩ (up p) = Seg.collinearPt ⟨a, b⟩ p := by
  have D1 := hp.1.sub ha.1
  have D2 := hp.2.sub ha.2
  have D3 := hb.1.sub ha.1
  have D4 := hb.2.sub ha.2
  unfold KGen.segmentCollinearPoint KGen.eqZero Seg.collinearPt
  simp only [up, ksub_E hp.1 ha.1, ksub_E hp.2 ha.2, ksub_E hb.1 ha.1, ksub_E hb.2 ha.2,
    kmul_D1 D1 D4, kmul_D1 D2 D3, ksub_D2 (D1.mul D4) (D2.mul D3), kofNat_zero, klt_fin, kgt_fin]
  rw [Bool.eq_iff_iff, eqz_iff]; simp

end Geo.F
