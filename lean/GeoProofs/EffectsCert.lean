/-
  GeoProofs.EffectsCert — the certificate of the generated effect table is re-checked by the
  kernel, and the checker is proved sound: whatever a function may write through — by its own
  instructions or through any chain of calls — is contained in its declared summary.
-/
import GeoModel.EffectsTypes
import GeoModel.Generated.Effects
namespace Geo.Effects

/-- `MayWrite fns f l`: function `f` may write through label `l` (in its own frame of
    reference), by itself or via a call chain. The least relation closed under the two rules. -/
inductive MayWrite (fns : Array Fn) : Nat → Lbl → Prop where
  | own {f : Nat} {fn : Fn} {l : Lbl} : fns[f]? = some fn → l ∈ fn.own → MayWrite fns f l
  | call {f g : Nat} {fn : Fn} {c : Call} {l l' : Lbl} :
      fns[f]? = some fn → c ∈ fn.calls → g ∈ c.callees → MayWrite fns g l' → l ∈ subst c.args l' →
      MayWrite fns f l

theorem cert_sound (fns : Array Fn) (h : certOk fns = true) :
    ∀ f l, MayWrite fns f l → ∃ fn, fns[f]? = some fn ∧ l ∈ fn.summary := by
  intro f l hw
  induction hw with
  | @own f fn l hf hl =>
    refine ⟨fn, hf, ?_⟩
    have hfn : fnOk fns fn = true := by
      have := Array.all_eq_true_iff_forall_mem.mp h fn (Array.mem_of_getElem? hf)
      exact this
    simp only [fnOk, Bool.and_eq_true, List.all_eq_true] at hfn
    have := hfn.1.2 l hl
    exact List.contains_iff_mem.mp this |> fun x => x
  | @call f g fn c l l' hf hc hg _ hl ih =>
    obtain ⟨gfn, hgf, hl'⟩ := ih
    refine ⟨fn, hf, ?_⟩
    have hfn : fnOk fns fn = true :=
      Array.all_eq_true_iff_forall_mem.mp h fn (Array.mem_of_getElem? hf)
    simp only [fnOk, Bool.and_eq_true, List.all_eq_true] at hfn
    have hcall := hfn.2 c hc
    simp only [callOk, List.all_eq_true] at hcall
    have := hcall g hg
    rw [hgf] at this
    simp only [List.all_eq_true] at this
    exact List.contains_iff_mem.mp (this l' hl' l hl)

/-- the generated table as an array -/
def table : Array Fn := Gen.fns.toArray

theorem table_cert_ok : certOk table = true := by decide +kernel
theorem table_roots_ok : rootsOk table Gen.roots = true := by decide +kernel

/-- no function reachable from a query / serialisation root writes through anything but the
    parameters that root is allowed to write through (for AppendJSON the destination buffer,
    for every other method nothing): no receiver, no argument object, no global, nothing the
    extractor could not classify. -/
theorem roots_write_nothing_shared :
    ∀ r ∈ Gen.roots, ∀ l, MayWrite table r.1 l → ∃ i, l = .param i ∧ i ∈ r.2 := by
  intro r hr l hw
  obtain ⟨fn, hf, hl⟩ := cert_sound table table_cert_ok r.1 l hw
  have hroot := List.all_eq_true.mp table_roots_ok r hr
  simp only [rootOk, hf, List.all_eq_true] at hroot
  have := hroot l hl
  cases l with
  | param i => exact ⟨i, rfl, List.contains_iff_mem.mp this⟩
  | loc => simp at this
  | global n => simp at this
  | unknown w => simp at this

#print axioms cert_sound
#print axioms table_cert_ok
#print axioms table_roots_ok
#print axioms roots_write_nothing_shared

end Geo.Effects
