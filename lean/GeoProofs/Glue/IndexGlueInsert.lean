/-
  GeoProofs.Glue.IndexGlueInsert — the generated `qNode_insert` (translation of
  geometry/qtree.go `(*qNode).insert`) computes the hand model's `Geo.qInsert`.

  `d` = levels remaining = qMaxDepth − depth is the model's fuel; the generated function
  needs two units of fuel per level (the descent, and the self-call after a split).
-/
import GeoProofs.Glue.IndexGlue

namespace Geo.IGlue
open Geo Geo.IGen
open scoped Geo.KNum

/-- every stored item is a uint32 -/
def Bounded : IGen.QNode → Prop
  | .nil => True
  | .mk _ items q0 q1 q2 q3 =>
    (∀ it ∈ items, it < 4294967296) ∧ Bounded q0 ∧ Bounded q1 ∧ Bounded q2 ∧ Bounded q3

/-! ## small facts about the helpers of the generated code -/

theorem ins_intToU32_ofNat (x : Nat) (hx : x < 4294967296) : intToU 32 (Int.ofNat x) = x := by
  unfold intToU
  have h : ((2 : Int) ^ 32) = 4294967296 := by decide
  rw [h]
  have : (Int.ofNat x) % 4294967296 = Int.ofNat x := by
    apply Int.emod_eq_of_lt
    · exact Int.natCast_nonneg x
    · show (x : Int) < 4294967296
      omega
  rw [this]
  rfl

theorem intRange_zero_succ (k : Nat) :
    intRange 0 (Int.ofNat (k + 1)) = 0 :: (intRange 0 (Int.ofNat k)).map (· + 1) := by
  unfold intRange
  simp only [Int.sub_zero, Int.ofNat_eq_natCast, Int.toNat_natCast]
  rw [List.range_succ_eq_map]
  simp only [List.map_cons, List.map_map]
  congr 1

theorem listAt_cons_succ {α : Type} (x : α) (xs : List α) (i : Int) (hi : 0 ≤ i) :
    listAt (x :: xs) (i + 1) = listAt xs i := by
  unfold listAt
  have h1 : ¬ (i + 1 < 0) := by omega
  have h2 : ¬ (i < 0) := by omega
  simp only [h1, h2, if_false]
  have : (i + 1).toNat = i.toNat + 1 := by omega
  rw [this]
  rfl

theorem intRange_nonneg (k : Nat) : ∀ i ∈ intRange 0 (Int.ofNat k), 0 ≤ i := by
  intro i hi
  unfold intRange at hi
  simp only [List.mem_map, List.mem_range] at hi
  obtain ⟨a, _, rfl⟩ := hi
  simp only [Int.ofNat_eq_natCast]
  omega

theorem loopM_congr {ε σ : Type} (l : List ε) (s : σ) (f g : ε → σ → Option σ)
    (h : ∀ i ∈ l, ∀ s, f i s = g i s) : loopM l s f = loopM l s g := by
  induction l generalizing s with
  | nil => rfl
  | cons x xs ih =>
    simp only [loopM]
    rw [h x (List.mem_cons_self ..) s]
    cases g x s with
    | none => rfl
    | some s' => exact ih s' (fun i hi s => h i (List.mem_cons_of_mem _ hi) s)

theorem loopM_map {ε ε' σ : Type} (l : List ε) (m : ε → ε') (s : σ) (f : ε' → σ → Option σ) :
    loopM (l.map m) s f = loopM l s (fun i s => f (m i) s) := by
  induction l generalizing s with
  | nil => rfl
  | cons x xs ih =>
    simp only [List.map_cons, loopM]
    cases f (m x) s with
    | none => rfl
    | some s' => exact ih s'

/-- a counted loop whose body starts by reading `xs[i]` is a loop over `xs` -/
theorem loopM_index {α σ : Type} (xs : List α) (s : σ) (body : Int → σ → Option σ)
    (g : α → σ → Option σ)
    (hbody : ∀ i s, body i s = (listAt xs i).bind (fun x => g x s)) :
    loopM (intRange 0 (Int.ofNat xs.length)) s body = loopM xs s g := by
  induction xs generalizing s body with
  | nil => rfl
  | cons x xs ih =>
    rw [List.length_cons, intRange_zero_succ]
    simp only [loopM]
    have h0 : body 0 s = g x s := by
      rw [hbody]; rfl
    rw [h0]
    cases g x s with
    | none => rfl
    | some s' =>
      simp only []
      rw [loopM_map]
      rw [loopM_congr _ s' _ (fun i s => (listAt xs i).bind (fun x => g x s))]
      · exact ih s' _ (fun _ _ => rfl)
      · intro i hi s
        rw [hbody, listAt_cons_succ _ _ _ (intRange_nonneg _ i hi)]

/-! ## the model side -/

section Model
variable {α : Type} [Carrier α]

/-- the model's local `intoQuad` (the `n.split` branch), as a definition of its own -/
def intoQuad (boxOfOps : Nat → GBox α) (d : Nat) (bounds : GBox α) (n : Geo.QNode) (rect : GBox α)
    (item : Nat) : Geo.QNode :=
  match Geo.chooseQuad bounds rect with
  | none => n.push item
  | some q => n.setQuad q (Geo.qInsert boxOfOps d (n.quad q) (Geo.quadBounds bounds q) rect item)

def setSplit : Geo.QNode → Geo.QNode
  | .nil => .nil
  | .node _ its a b c d => .node true its a b c d

theorem qInsert_zero (boxOfOps : Nat → GBox α) (n : Geo.QNode) (bounds rect : GBox α) (item : Nat) :
    Geo.qInsert boxOfOps 0 n bounds rect item = n.push item := by
  rfl

theorem qInsert_succ_node (boxOfOps : Nat → GBox α) (d : Nat) (split : Bool) (items : List Nat)
    (q0 q1 q2 q3 : Geo.QNode) (bounds rect : GBox α) (item : Nat) :
    Geo.qInsert boxOfOps (d + 1) (.node split items q0 q1 q2 q3) bounds rect item =
      if split then intoQuad boxOfOps d bounds (.node split items q0 q1 q2 q3) rect item
      else if items.length == Geo.qMaxItems then
        intoQuad boxOfOps d bounds
          (setSplit (items.foldl (fun acc it => intoQuad boxOfOps d bounds acc (boxOfOps it) it)
            (.node false [] q0 q1 q2 q3))) rect item
      else (Geo.QNode.node split items q0 q1 q2 q3).push item := by
  rfl

theorem qInsert_nil (boxOfOps : Nat → GBox α) (d : Nat) (bounds rect : GBox α) (item : Nat) :
    Geo.qInsert boxOfOps d .nil bounds rect item = Geo.qInsert boxOfOps d Geo.QNode.empty bounds rect item := by
  cases d with
  | zero => rfl
  | succ d => rfl

end Model

/-! ## the generated side: the function unfolded once, in a readable form -/

section Gen
variable {F S SR D : Type} [KNum F] [Carrier F] [Compat F]

/-- `if child == nil { child = new(qNode) }` -/
def orNew : IGen.QNode → IGen.QNode
  | .nil => .mk false [] .nil .nil .nil .nil
  | x => x

def sel4 (q0 q1 q2 q3 : IGen.QNode) : Nat → IGen.QNode
  | 0 => q0 | 1 => q1 | 2 => q2 | _ => q3

def set4 {β : Type} (k : IGen.QNode → IGen.QNode → IGen.QNode → IGen.QNode → β) (q0 q1 q2 q3 : IGen.QNode) (q : Nat) (v : IGen.QNode) : β :=
  match q with
  | 0 => k v q1 q2 q3 | 1 => k q0 v q2 q3 | 2 => k q0 q1 v q3 | _ => k q0 q1 q2 v

theorem chooseQuad_lt4 {α : Type} [Carrier α] (b r : GBox α) (q : Nat) (h : Geo.chooseQuad b r = some q) : q < 4 := by
  unfold Geo.chooseQuad at h
  simp only [] at h
  repeat' split at h
  all_goals (cases h <;> omega)

theorem insert_split_unfold (ops : Ops F S SR D) (series : SR) (fuel : Nat) (items : List Nat) (q0 q1 q2 q3 : IGen.QNode)
  (bounds rect : Rect F) (item depth : Int) (hdepth : (depth == IGen.qMaxDepth) = false) :
  qNode_insert ops (fuel+1) (.mk true items q0 q1 q2 q3) series bounds rect item depth =
   match Geo.chooseQuad (toGBox bounds) (toGBox rect) with
   | none => some (.mk true (items ++ [intToU 32 item]) q0 q1 q2 q3)
   | some q => (qNode_insert ops fuel (orNew (sel4 q0 q1 q2 q3 q)) series (IGen.quadBounds ops bounds (Int.ofNat q)) rect item (depth+1)).bind
       (fun nw => set4 (fun a b c d => some (.mk true items a b c d)) q0 q1 q2 q3 q nw) := by
  conv => lhs; unfold qNode_insert
  simp only [hdepth, chooseQuad_eq]
  cases h : Geo.chooseQuad (toGBox bounds) (toGBox rect) with
  | none => rfl
  | some q =>
    have hq := chooseQuad_lt4 _ _ _ h
    have : q = 0 ∨ q = 1 ∨ q = 2 ∨ q = 3 := by omega
    rcases this with rfl | rfl | rfl | rfl
    · cases q0 <;> rfl
    · cases q1 <;> rfl
    · cases q2 <;> rfl
    · cases q3 <;> rfl

def splitStep (ops : Ops F S SR D) (fuel : Nat) (series : SR) (bounds : Rect F) (depth : Int) :
    Nat → List Nat × IGen.QNode × IGen.QNode × IGen.QNode × IGen.QNode →
      Option (List Nat × IGen.QNode × IGen.QNode × IGen.QNode × IGen.QNode)
  | iitem, (nitems, q0, q1, q2, q3) =>
    let irect := ops.segRect (ops.seriesSegmentAt series (Int.ofNat iitem))
    match Geo.chooseQuad (toGBox bounds) (toGBox irect) with
    | none => some (nitems ++ [iitem], q0, q1, q2, q3)
    | some q =>
      (qNode_insert ops fuel (orNew (sel4 q0 q1 q2 q3 q)) series (IGen.quadBounds ops bounds (Int.ofNat q))
          irect (Int.ofNat iitem) (depth + 1)).bind
        (fun nw => set4 (fun a b c d => some (nitems, a, b, c, d)) q0 q1 q2 q3 q nw)

theorem insert_leaf_unfold (ops : Ops F S SR D) (series : SR) (fuel : Nat) (items : List Nat) (q0 q1 q2 q3 : IGen.QNode)
  (bounds rect : Rect F) (item depth : Int) (hdepth : (depth == IGen.qMaxDepth) = false)
  (hlen : items.length = 32) :
  qNode_insert ops (fuel+1) (.mk false items q0 q1 q2 q3) series bounds rect item depth =
    (loopM items ([], q0, q1, q2, q3) (splitStep ops fuel series bounds depth)).bind (fun st =>
      (qNode_insert ops fuel (.mk true st.1 st.2.1 st.2.2.1 st.2.2.2.1 st.2.2.2.2) series bounds rect item depth).bind
        (fun nw8 => match nw8 with
          | .mk s its a b c d => some (.mk s its a b c d)
          | _ => none)) := by
  conv => lhs; unfold qNode_insert
  have hl : (Int.ofNat items.length == IGen.qMaxItems) = true := by rw [hlen]; decide
  simp only [hdepth, hl]
  rw [loopM_index items _ _ (splitStep ops fuel series bounds depth)]
  · rfl
  · intro i ⟨nitems, a, b, c, d⟩
    cases listAt items i with
    | none => rfl
    | some x =>
      simp only [Option.bind_eq_bind, Option.bind_some, chooseQuad_eq, splitStep]
      cases h : Geo.chooseQuad (toGBox bounds) (toGBox (ops.segRect (ops.seriesSegmentAt series (Int.ofNat x)))) with
      | none => rfl
      | some q =>
        have hq := chooseQuad_lt4 _ _ _ h
        have : q = 0 ∨ q = 1 ∨ q = 2 ∨ q = 3 := by omega
        rcases this with rfl | rfl | rfl | rfl
        · cases a <;> rfl
        · cases b <;> rfl
        · cases c <;> rfl
        · cases d <;> rfl

omit [Carrier F] [Compat F] in
theorem insert_maxdepth_unfold (ops : Ops F S SR D) (series : SR) (fuel : Nat) (s : Bool) (items : List Nat)
    (q0 q1 q2 q3 : IGen.QNode) (bounds rect : Rect F) (item depth : Int)
    (hdepth : (depth == IGen.qMaxDepth) = true) :
    qNode_insert ops (fuel+1) (.mk s items q0 q1 q2 q3) series bounds rect item depth =
      some (.mk s (items ++ [intToU 32 item]) q0 q1 q2 q3) := by
  conv => lhs; unfold qNode_insert
  simp only [hdepth]
  rfl

omit [Carrier F] [Compat F] in
theorem insert_leaf_push_unfold (ops : Ops F S SR D) (series : SR) (fuel : Nat) (items : List Nat)
    (q0 q1 q2 q3 : IGen.QNode) (bounds rect : Rect F) (item depth : Int)
    (hdepth : (depth == IGen.qMaxDepth) = false) (hlen : items.length ≠ 32) :
    qNode_insert ops (fuel+1) (.mk false items q0 q1 q2 q3) series bounds rect item depth =
      some (.mk false (items ++ [intToU 32 item]) q0 q1 q2 q3) := by
  conv => lhs; unfold qNode_insert
  have hl : (Int.ofNat items.length == IGen.qMaxItems) = false := by
    simp only [IGen.qMaxItems, Int.ofNat_eq_natCast, beq_eq_false_iff_ne, ne_eq]
    omega
  simp only [hdepth, hl]
  rfl

/-! ## the correspondence -/

@[simp] theorem bounded_mk (s : Bool) (items : List Nat) (a b c d : IGen.QNode) :
    Bounded (.mk s items a b c d) ↔
      (∀ it ∈ items, it < 4294967296) ∧ Bounded a ∧ Bounded b ∧ Bounded c ∧ Bounded d := Iff.rfl

theorem orNew_ne_nil (c : IGen.QNode) : orNew c ≠ .nil := by
  cases c <;> simp [orNew]

theorem bounded_orNew (c : IGen.QNode) (h : Bounded c) : Bounded (orNew c) := by
  cases c with
  | nil => simp [orNew, Bounded]
  | mk => exact h

theorem bounded_sel4 (q0 q1 q2 q3 : IGen.QNode) (h0 : Bounded q0) (h1 : Bounded q1) (h2 : Bounded q2)
    (h3 : Bounded q3) (q : Nat) : Bounded (sel4 q0 q1 q2 q3 q) := by
  unfold sel4
  split <;> assumption

omit [KNum F] [Compat F] in
theorem qInsert_absQ_orNew (boxOfOps : Nat → GBox F) (d : Nat) (c : IGen.QNode) (b r : GBox F) (item : Nat) :
    Geo.qInsert boxOfOps d (absQ (orNew c)) b r item = Geo.qInsert boxOfOps d (absQ c) b r item := by
  cases c with
  | nil => exact (qInsert_nil boxOfOps d b r item).symm
  | mk => rfl

/-- the series as the model sees it -/
def boxOfOps (ops : Ops F S SR D) (series : SR) (i : Nat) : GBox F :=
  toGBox (ops.segRect (ops.seriesSegmentAt series (Int.ofNat i)))

/-- the statement proved by induction on the levels remaining -/
def InsOK (ops : Ops F S SR D) (series : SR) (d : Nat) : Prop :=
  ∀ fuel, 2 * d + 1 ≤ fuel → ∀ n, n ≠ IGen.QNode.nil → Bounded n →
    ∀ (bounds rect : Rect F) (item : Nat), item < 4294967296 →
    ∃ n', IGen.qNode_insert ops fuel n series bounds rect (Int.ofNat item) (Int.ofNat (16 - d)) = some n'
      ∧ n' ≠ .nil ∧ Bounded n'
      ∧ absQ n' = Geo.qInsert (boxOfOps ops series) d (absQ n) (toGBox bounds) (toGBox rect) item

theorem depth_succ (d : Nat) (hd : d + 1 ≤ 16) : Int.ofNat (16 - (d + 1)) + 1 = Int.ofNat (16 - d) := by
  simp only [Int.ofNat_eq_natCast]
  omega

theorem depth_ne (d : Nat) : (Int.ofNat (16 - (d + 1)) == IGen.qMaxDepth) = false := by
  simp only [IGen.qMaxDepth, Int.ofNat_eq_natCast, beq_eq_false_iff_ne, ne_eq]
  omega

omit [Compat F] in
/-- the recursive call on the chosen (possibly fresh) child -/
theorem route_ok (ops : Ops F S SR D) (series : SR) (d : Nat) (hd : d + 1 ≤ 16) (IH : InsOK ops series d)
    (fuel : Nat) (hf : 2 * d + 1 ≤ fuel) (c : IGen.QNode) (hc : Bounded c) (qb rect : Rect F)
    (item : Nat) (hi : item < 4294967296) :
    ∃ nw, IGen.qNode_insert ops fuel (orNew c) series qb rect (Int.ofNat item)
          (Int.ofNat (16 - (d + 1)) + 1) = some nw
      ∧ nw ≠ .nil ∧ Bounded nw
      ∧ absQ nw = Geo.qInsert (boxOfOps ops series) d (absQ c) (toGBox qb) (toGBox rect) item := by
  rw [depth_succ d hd]
  obtain ⟨nw, h1, h2, h3, h4⟩ := IH fuel hf (orNew c) (orNew_ne_nil c) (bounded_orNew c hc) qb rect item hi
  exact ⟨nw, h1, h2, h3, by rw [h4, qInsert_absQ_orNew]⟩

/-- storing the new child back: the model's `setQuad`, and the model's `quad` is the selection -/
theorem absQ_set4 (s : Bool) (items : List Nat) (q0 q1 q2 q3 : IGen.QNode) (q : Nat) (hq : q < 4)
    (nw : IGen.QNode) :
    set4 (fun a b c d => absQ (IGen.QNode.mk s items a b c d)) q0 q1 q2 q3 q nw =
      (absQ (IGen.QNode.mk s items q0 q1 q2 q3)).setQuad q (absQ nw)
    ∧ (absQ (IGen.QNode.mk s items q0 q1 q2 q3)).quad q = absQ (sel4 q0 q1 q2 q3 q) := by
  have : q = 0 ∨ q = 1 ∨ q = 2 ∨ q = 3 := by omega
  rcases this with rfl | rfl | rfl | rfl <;> exact ⟨rfl, rfl⟩

theorem bounded_set4 (s : Bool) (items : List Nat) (q0 q1 q2 q3 : IGen.QNode) (q : Nat)
    (hb : Bounded (.mk s items q0 q1 q2 q3)) (nw : IGen.QNode) (hnw : Bounded nw) :
    set4 (fun a b c d => Bounded (IGen.QNode.mk s items a b c d)) q0 q1 q2 q3 q nw := by
  obtain ⟨hi, h0, h1, h2, h3⟩ := hb
  unfold set4
  split
  · exact ⟨hi, hnw, h1, h2, h3⟩
  · exact ⟨hi, h0, hnw, h2, h3⟩
  · exact ⟨hi, h0, h1, hnw, h3⟩
  · exact ⟨hi, h0, h1, h2, hnw⟩

theorem set4_comp {β γ : Type} (f : β → γ) (k : IGen.QNode → IGen.QNode → IGen.QNode → IGen.QNode → β)
    (q0 q1 q2 q3 : IGen.QNode) (q : Nat) (nw : IGen.QNode) :
    f (set4 k q0 q1 q2 q3 q nw) = set4 (fun a b c d => f (k a b c d)) q0 q1 q2 q3 q nw := by
  unfold set4
  split <;> rfl

/-- `set4` with a continuation that builds a node, as that node -/
def put4 (q0 q1 q2 q3 : IGen.QNode) (q : Nat) (nw : IGen.QNode) :
    IGen.QNode × IGen.QNode × IGen.QNode × IGen.QNode :=
  set4 (fun a b c d => (a, b, c, d)) q0 q1 q2 q3 q nw

theorem set4_put4 {β : Type} (k : IGen.QNode → IGen.QNode → IGen.QNode → IGen.QNode → β)
    (q0 q1 q2 q3 : IGen.QNode) (q : Nat) (nw : IGen.QNode) :
    set4 k q0 q1 q2 q3 q nw =
      k (put4 q0 q1 q2 q3 q nw).1 (put4 q0 q1 q2 q3 q nw).2.1 (put4 q0 q1 q2 q3 q nw).2.2.1
        (put4 q0 q1 q2 q3 q nw).2.2.2 := by
  unfold put4 set4
  split <;> rfl

/-- the `n.split` branch of the generated code is the model's `intoQuad` (any `split` flag) -/
theorem into_ok (ops : Ops F S SR D) (series : SR) (d : Nat) (hd : d + 1 ≤ 16) (IH : InsOK ops series d)
    (fuel : Nat) (hf : 2 * d + 1 ≤ fuel) (s : Bool) (items : List Nat) (q0 q1 q2 q3 : IGen.QNode)
    (hb : Bounded (.mk s items q0 q1 q2 q3)) (bounds rect : Rect F) (item q : Nat)
    (hi : item < 4294967296) (h : Geo.chooseQuad (toGBox bounds) (toGBox rect) = some q) :
    ∃ nw, IGen.qNode_insert ops fuel (orNew (sel4 q0 q1 q2 q3 q)) series
          (IGen.quadBounds ops bounds (Int.ofNat q)) rect (Int.ofNat item)
          (Int.ofNat (16 - (d + 1)) + 1) = some nw
      ∧ Bounded (.mk s items (put4 q0 q1 q2 q3 q nw).1 (put4 q0 q1 q2 q3 q nw).2.1
          (put4 q0 q1 q2 q3 q nw).2.2.1 (put4 q0 q1 q2 q3 q nw).2.2.2)
      ∧ absQ (.mk s items (put4 q0 q1 q2 q3 q nw).1 (put4 q0 q1 q2 q3 q nw).2.1
          (put4 q0 q1 q2 q3 q nw).2.2.1 (put4 q0 q1 q2 q3 q nw).2.2.2) =
        intoQuad (boxOfOps ops series) d (toGBox bounds) (absQ (.mk s items q0 q1 q2 q3)) (toGBox rect) item := by
  have hq := chooseQuad_lt4 _ _ _ h
  obtain ⟨hbi, hb0, hb1, hb2, hb3⟩ := hb
  obtain ⟨nw, h1, _, h3, h4⟩ := route_ok ops series d hd IH fuel hf (sel4 q0 q1 q2 q3 q)
    (bounded_sel4 q0 q1 q2 q3 hb0 hb1 hb2 hb3 q) (IGen.quadBounds ops bounds (Int.ofNat q)) rect item hi
  refine ⟨nw, h1, ?_, ?_⟩
  · have := bounded_set4 s items q0 q1 q2 q3 q ⟨hbi, hb0, hb1, hb2, hb3⟩ nw h3
    rw [set4_put4] at this
    exact this
  · have h5 := absQ_set4 s items q0 q1 q2 q3 q hq nw
    rw [set4_put4] at h5
    unfold intoQuad
    rw [h, h5.1]
    simp only [h5.2, h4, quadBounds_eq ops bounds q hq]

theorem bounded_push (s : Bool) (items : List Nat) (q0 q1 q2 q3 : IGen.QNode)
    (hb : Bounded (.mk s items q0 q1 q2 q3)) (item : Nat) (hi : item < 4294967296) :
    Bounded (.mk s (items ++ [item]) q0 q1 q2 q3) := by
  obtain ⟨hbi, hb0, hb1, hb2, hb3⟩ := hb
  refine ⟨?_, hb0, hb1, hb2, hb3⟩
  intro it hit
  rcases List.mem_append.mp hit with h | h
  · exact hbi it h
  · rw [List.mem_singleton.mp h]; exact hi

/-- a split node one level above the bottom: the generated code computes `intoQuad` -/
theorem split_case (ops : Ops F S SR D) (series : SR) (d : Nat) (hd : d + 1 ≤ 16) (IH : InsOK ops series d)
    (fuel : Nat) (hf : 2 * d + 1 ≤ fuel) (items : List Nat) (q0 q1 q2 q3 : IGen.QNode)
    (hb : Bounded (.mk true items q0 q1 q2 q3)) (bounds rect : Rect F) (item : Nat)
    (hi : item < 4294967296) :
    ∃ n', IGen.qNode_insert ops (fuel + 1) (.mk true items q0 q1 q2 q3) series bounds rect (Int.ofNat item)
          (Int.ofNat (16 - (d + 1))) = some n'
      ∧ n' ≠ .nil ∧ Bounded n'
      ∧ absQ n' = intoQuad (boxOfOps ops series) d (toGBox bounds) (absQ (.mk true items q0 q1 q2 q3))
          (toGBox rect) item := by
  rw [insert_split_unfold ops series fuel items q0 q1 q2 q3 bounds rect _ _ (depth_ne d)]
  cases h : Geo.chooseQuad (toGBox bounds) (toGBox rect) with
  | none =>
    simp only [ins_intToU32_ofNat item hi]
    refine ⟨_, rfl, by simp, bounded_push _ _ _ _ _ _ hb item hi, ?_⟩
    unfold intoQuad
    rw [h]
    rfl
  | some q =>
    obtain ⟨nw, h1, h2, h3⟩ := into_ok ops series d hd IH fuel hf true items q0 q1 q2 q3 hb bounds rect item q hi h
    simp only [h1, Option.bind_some]
    rw [set4_put4]
    exact ⟨_, rfl, by simp, h2, h3⟩

/-- one pass through the redistribution loop of a split -/
theorem step_ok (ops : Ops F S SR D) (series : SR) (d : Nat) (hd : d + 1 ≤ 16) (IH : InsOK ops series d)
    (fuel : Nat) (hf : 2 * d + 1 ≤ fuel) (bounds : Rect F) (x : Nat) (hx : x < 4294967296)
    (nitems : List Nat) (q0 q1 q2 q3 : IGen.QNode) (hb : Bounded (.mk false nitems q0 q1 q2 q3)) :
    ∃ st, splitStep ops fuel series bounds (Int.ofNat (16 - (d + 1))) x (nitems, q0, q1, q2, q3) = some st
      ∧ Bounded (.mk false st.1 st.2.1 st.2.2.1 st.2.2.2.1 st.2.2.2.2)
      ∧ absQ (.mk false st.1 st.2.1 st.2.2.1 st.2.2.2.1 st.2.2.2.2) =
          intoQuad (boxOfOps ops series) d (toGBox bounds) (absQ (.mk false nitems q0 q1 q2 q3))
            (boxOfOps ops series x) x := by
  simp only [splitStep]
  cases h : Geo.chooseQuad (toGBox bounds)
      (toGBox (ops.segRect (ops.seriesSegmentAt series (Int.ofNat x)))) with
  | none =>
    refine ⟨_, rfl, bounded_push _ _ _ _ _ _ hb x hx, ?_⟩
    unfold intoQuad boxOfOps
    rw [h]
    rfl
  | some q =>
    obtain ⟨nw, h1, h2, h3⟩ := into_ok ops series d hd IH fuel hf false nitems q0 q1 q2 q3 hb bounds
      (ops.segRect (ops.seriesSegmentAt series (Int.ofNat x))) x q hx h
    simp only [h1, Option.bind_some]
    rw [set4_put4]
    exact ⟨_, rfl, h2, h3⟩

/-- the whole redistribution loop is the model's fold -/
theorem loop_ok (ops : Ops F S SR D) (series : SR) (d : Nat) (hd : d + 1 ≤ 16) (IH : InsOK ops series d)
    (fuel : Nat) (hf : 2 * d + 1 ≤ fuel) (bounds : Rect F) (xs : List Nat)
    (hxs : ∀ x ∈ xs, x < 4294967296)
    (nitems : List Nat) (q0 q1 q2 q3 : IGen.QNode) (hb : Bounded (.mk false nitems q0 q1 q2 q3)) :
    ∃ st, loopM xs (nitems, q0, q1, q2, q3) (splitStep ops fuel series bounds (Int.ofNat (16 - (d + 1)))) = some st
      ∧ Bounded (.mk false st.1 st.2.1 st.2.2.1 st.2.2.2.1 st.2.2.2.2)
      ∧ absQ (.mk false st.1 st.2.1 st.2.2.1 st.2.2.2.1 st.2.2.2.2) =
          xs.foldl (fun acc it => intoQuad (boxOfOps ops series) d (toGBox bounds) acc (boxOfOps ops series it) it)
            (absQ (.mk false nitems q0 q1 q2 q3)) := by
  induction xs generalizing nitems q0 q1 q2 q3 with
  | nil => exact ⟨_, rfl, hb, rfl⟩
  | cons x xs ih =>
    obtain ⟨⟨ni, a, b, c, e⟩, h1, h2, h3⟩ := step_ok ops series d hd IH fuel hf bounds x
      (hxs x (List.mem_cons_self ..)) nitems q0 q1 q2 q3 hb
    obtain ⟨st, h4, h5, h6⟩ := ih (fun y hy => hxs y (List.mem_cons_of_mem _ hy)) ni a b c e h2
    refine ⟨st, ?_, h5, ?_⟩
    · simp only [loopM, h1]
      exact h4
    · rw [h6, List.foldl_cons, ← h3]

theorem insOK_all (ops : Ops F S SR D) (series : SR) (d : Nat) (hd : d ≤ 16) : InsOK ops series d := by
  induction d with
  | zero =>
    intro fuel hf n hn hb bounds rect item hi
    obtain ⟨f, rfl⟩ : ∃ f, fuel = f + 1 := ⟨fuel - 1, by omega⟩
    cases n with
    | nil => exact absurd rfl hn
    | mk s items q0 q1 q2 q3 =>
      rw [insert_maxdepth_unfold ops series f s items q0 q1 q2 q3 bounds rect _ _ (by decide),
        ins_intToU32_ofNat item hi]
      exact ⟨_, rfl, by simp, bounded_push _ _ _ _ _ _ hb item hi, rfl⟩
  | succ d ih =>
    have IH : InsOK ops series d := ih (by omega)
    intro fuel hf n hn hb bounds rect item hi
    obtain ⟨f, rfl⟩ : ∃ f, fuel = f + 1 := ⟨fuel - 1, by omega⟩
    cases n with
    | nil => exact absurd rfl hn
    | mk s items q0 q1 q2 q3 =>
      rw [absQ_mk, qInsert_succ_node]
      cases s with
      | true =>
        exact split_case ops series d hd IH f (by omega) items q0 q1 q2 q3 hb bounds rect item hi
      | false =>
        by_cases hlen : items.length = 32
        · -- the node is full: redistribute, mark split, insert again
          rw [insert_leaf_unfold ops series f items q0 q1 q2 q3 bounds rect _ _ (depth_ne d) hlen]
          obtain ⟨hbi, hb0, hb1, hb2, hb3⟩ := hb
          obtain ⟨⟨ni, a, b, c, e⟩, h1, h2, h3⟩ := loop_ok ops series d hd IH f (by omega) bounds items hbi
            [] q0 q1 q2 q3 ⟨by simp, hb0, hb1, hb2, hb3⟩
          obtain ⟨f', rfl⟩ : ∃ f', f = f' + 1 := ⟨f - 1, by omega⟩
          obtain ⟨n', h4, h5, h6, h7⟩ := split_case ops series d hd IH f' (by omega) ni a b c e h2
            bounds rect item hi
          simp only [h1, Option.bind_some, h4]
          cases n' with
          | nil => exact absurd rfl h5
          | mk s' its' a' b' c' e' =>
            refine ⟨_, rfl, h5, h6, ?_⟩
            rw [h7]
            have hq : (items.length == Geo.qMaxItems) = true := by rw [hlen]; rfl
            simp only [hq, Bool.false_eq_true, if_false, if_true]
            simp only [absQ_mk] at h3
            rw [← h3]
            rfl
        · rw [insert_leaf_push_unfold ops series f items q0 q1 q2 q3 bounds rect _ _ (depth_ne d) hlen,
            ins_intToU32_ofNat item hi]
          refine ⟨_, rfl, by simp, bounded_push _ _ _ _ _ _ hb item hi, ?_⟩
          have hq : (items.length == Geo.qMaxItems) = false := by
            simp only [Geo.qMaxItems, beq_eq_false_iff_ne, ne_eq]; exact hlen
          simp only [hq, Bool.false_eq_true, if_false]
          rfl

/-- the generated `(*qNode).insert` computes the model's `qInsert`; `d` = levels remaining -/
theorem insert_eq (ops : Ops F S SR D) (series : SR) (d : Nat) (hd : d ≤ 16) (fuel : Nat)
    (hf : 2 * d + 1 ≤ fuel) (n : IGen.QNode) (hn : n ≠ .nil) (hb : Bounded n) (bounds rect : Rect F)
    (item : Nat) (hi : item < 4294967296) :
    ∃ n', IGen.qNode_insert ops fuel n series bounds rect (Int.ofNat item) (Int.ofNat (16 - d)) = some n'
      ∧ n' ≠ .nil ∧ Bounded n'
      ∧ absQ n' = Geo.qInsert (boxOfOps ops series) d (absQ n) (toGBox bounds) (toGBox rect) item :=
  insOK_all ops series d hd fuel hf n hn hb bounds rect item hi

/-- at the root: depth 0, fuel 33 (what the build loop passes) -/
theorem insert_root_eq (ops : Ops F S SR D) (series : SR) (n : IGen.QNode) (hn : n ≠ .nil) (hb : Bounded n)
    (bounds rect : Rect F) (item : Nat) (hi : item < 4294967296) :
    ∃ n', IGen.qNode_insert ops 33 n series bounds rect (Int.ofNat item) 0 = some n'
      ∧ n' ≠ .nil ∧ Bounded n'
      ∧ absQ n' = Geo.qInsert (boxOfOps ops series) 16 (absQ n) (toGBox bounds) (toGBox rect) item :=
  insert_eq ops series 16 (Nat.le_refl _) 33 (by decide) n hn hb bounds rect item hi

end Gen

end Geo.IGlue

#print axioms Geo.IGlue.insert_eq
#print axioms Geo.IGlue.insert_root_eq
