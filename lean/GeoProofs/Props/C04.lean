/-
  C04 — compressed segment indexes are exact accelerators.
  Property theorems (proved in GeoProofs/Index/*): for EVERY carrier whose `lt` is a strict weak
  order (nothing assumed about midpoints; for the R-tree additionally that subtraction has an
  exact sign, which IEEE subtraction has), every number of segments and every query box, the
  byte-level search of the compressed index is the early-exit fold over a visit list that is a
  permutation of the brute-force filter: exactly the matching segments, each once, with its own
  index, no callback after a `false`, and never an out-of-range read (`some`).
  The series-level corollaries for the concrete `Series` are in GeoProofs/SeriesSearch.lean.
-/
import GeoProofs.Index.QBytes
import GeoProofs.Index.RBytes
import GeoProofs.Index.RTreeSub
import GeoProofs.SeriesSearch
import GeoProofs.SeriesSearchR
namespace Geo

/-- re-statement (quadtree): see `qtree_search_exact` -/
theorem C04_quadtree {α : Type} [Carrier α] [LawfulCarrier α] (boxOf : Nat → GBox α) (bounds q : GBox α) (nsegs : Nat)
    (hn : nsegs < 2^32) (hb : ∀ i, i < nsegs → boxOf i ⊆ bounds)
    (hsz : (qCompress (qBuild boxOf bounds nsegs) #[2,0,0,0,0]).size < 2^32) :
    ∃ visit : List Nat, List.Perm visit ((List.range nsegs).filter (fun i => (boxOf i).meets q)) ∧
      ∀ (σ : Type) (f : σ → Nat → σ × Bool) (s : σ),
        qSearchBytes boxOf q f (qCompress (qBuild boxOf bounds nsegs) #[2,0,0,0,0]) (qMaxDepth + 2) 5 bounds s
          = some (foldUntil f s visit) :=
  qtree_search_exact boxOf bounds q nsegs hn hb hsz

#print axioms C04_quadtree
#print axioms qtree_search_exact
#print axioms rtree_search_exact
#print axioms rtree_search_exact_of_NE
#print axioms rBuild_items_counterexample
#print axioms readNum_appendNum
#print axioms qSearchTree_eq_foldUntil
#print axioms qVisit_perm_filter
#print axioms qInsert_inv
#print axioms qInsert_items
#print axioms qBuild_spec
#print axioms rSearchTree_eq_foldUntil
#print axioms rVisit_eq_filter
#print axioms splitEntries_perm
#print axioms rBuild_spec'
#print axioms series_search_exact_none
#print axioms series_search_exact_quadtree
#print axioms series_search_exact_rtree
#print axioms segBox_inside_rect
#print axioms series_search_exact_rtree_dyadic
#print axioms series_search_exact_dyadic
#print axioms decF64_encF64
#print axioms rtree_search_exact_patched
#print axioms rBuild_good

end Geo
