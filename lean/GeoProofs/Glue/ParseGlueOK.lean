/-
  GeoProofs.Glue.ParseGlueOK — the document predicate under which the bridge is stated:
  NoOverflowLit (every number literal is finite) and the text of a number is not the word Circle
  (JSON grammar); its closure under sub-values; finiteness of what the coordinate readers deliver.
-/
import GeoProofs.Glue.ParseGlueColl

set_option linter.unusedSimpArgs false

namespace Geo.PGlue
open Geo Geo.PGen

mutual
def JOK : JVal → Bool
  | .num fin _ _ _ raw => fin && raw != "Circle"
  | .arr items => JOKL items
  | .obj ms => JOKM ms
  | _ => true
def JOKL : List JVal → Bool
  | [] => true
  | v :: vs => JOK v && JOKL vs
def JOKM : List (String × String × JVal) → Bool
  | [] => true
  | (_, _, v) :: ms => JOK v && JOKM ms
end

theorem JOKL_mem : ∀ (items : List JVal), JOKL items = true → ∀ v ∈ items, JOK v = true := by
  intro items
  induction items with
  | nil => intro _ v hv; simp at hv
  | cons a t ih =>
    intro h v hv
    simp only [JOKL, Bool.and_eq_true] at h
    rcases List.mem_cons.mp hv with rfl | h'
    · exact h.1
    · exact ih h.2 v h'

theorem JOKM_mem : ∀ (ms : List (String × String × JVal)), JOKM ms = true → ∀ m ∈ ms, JOK m.2.2 = true := by
  intro ms
  induction ms with
  | nil => intro _ m hm; simp at hm
  | cons a t ih =>
    intro h m hm
    obtain ⟨k, d, v⟩ := a
    simp only [JOKM, Bool.and_eq_true] at h
    rcases List.mem_cons.mp hm with rfl | h'
    · exact h.1
    · exact ih h.2 m h'

theorem JOK_elems (v : JVal) (h : JOK v = true) : ∀ x ∈ v.elems, JOK x = true := by
  cases v with
  | arr items => simpa [JVal.elems] using JOKL_mem items (by simpa [JOK] using h)
  | obj ms =>
    intro x hx
    simp only [JVal.elems, List.mem_map] at hx
    obtain ⟨m, hm, rfl⟩ := hx
    exact JOKM_mem ms (by simpa [JOK] using h) m hm
  | null => intro x hx; simp [JVal.elems] at hx; subst hx; exact h
  | tru => intro x hx; simp [JVal.elems] at hx; subst hx; exact h
  | fls => intro x hx; simp [JVal.elems] at hx; subst hx; exact h
  | num _ _ _ _ _ => intro x hx; simp [JVal.elems] at hx; subst hx; exact h
  | str _ _ => intro x hx; simp [JVal.elems] at hx; subst hx; exact h

theorem JOK_get (v : JVal) (h : JOK v = true) (key : String) (x : JVal) (hg : v.get key = some x) : JOK x = true := by
  cases v with
  | obj ms =>
    simp only [JVal.get, Option.map_eq_some_iff] at hg
    obtain ⟨m, hm, rfl⟩ := hg
    exact JOKM_mem ms (by simpa [JOK] using h) m (List.mem_of_find?_eq_some hm)
  | _ => simp [JVal.get] at hg

end Geo.PGlue
