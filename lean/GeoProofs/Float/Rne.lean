/-
  GeoProofs.Float.Rne — round a rational to the nearest integer, ties to the even integer.
  This is the integer-grid rounding underlying IEEE-754 round-to-nearest-even (`Round.lean`).
-/
import Mathlib.Algebra.Order.Floor.Ring
import Mathlib.Data.Rat.Floor
import Mathlib.Tactic.Linarith
import Mathlib.Tactic.Ring
import Mathlib.Tactic.NormNum

namespace Geo.F

/-- nearest integer, ties to even -/
def rne (x : ℚ) : ℤ :=
  if x - ⌊x⌋ < 1 / 2 then ⌊x⌋
  else if 1 / 2 < x - ⌊x⌋ then ⌊x⌋ + 1
  else if ⌊x⌋ % 2 = 0 then ⌊x⌋ else ⌊x⌋ + 1

theorem rne_intCast (n : ℤ) : rne (n : ℚ) = n := by
  unfold rne
  simp

theorem rne_mono {x y : ℚ} (h : x ≤ y) : rne x ≤ rne y := by
  have hx1 := Int.floor_le x
  have hx2 := Int.lt_floor_add_one x
  have hy1 := Int.floor_le y
  have hy2 := Int.lt_floor_add_one y
  have hm : ⌊x⌋ ≤ ⌊y⌋ := Int.floor_mono h
  rcases hm.lt_or_eq with hlt | heq
  · unfold rne; split_ifs <;> omega
  · unfold rne
    rw [heq] at hx1 hx2 ⊢
    split_ifs <;> first | omega | (exfalso; linarith)

theorem le_rne {n : ℤ} {x : ℚ} (h : (n : ℚ) ≤ x) : n ≤ rne x := by
  have := rne_mono h; rwa [rne_intCast] at this

theorem rne_le {n : ℤ} {x : ℚ} (h : x ≤ (n : ℚ)) : rne x ≤ n := by
  have := rne_mono h; rwa [rne_intCast] at this

theorem abs_rne_sub_le (x : ℚ) : |(rne x : ℚ) - x| ≤ 1 / 2 := by
  have hx1 := Int.floor_le x
  have hx2 := Int.lt_floor_add_one x
  rw [abs_le]
  unfold rne
  split_ifs <;> push_cast <;> constructor <;> linarith

theorem rne_half_even (n : ℤ) (h : n % 2 = 0) : rne ((n : ℚ) + 1 / 2) = n := by
  have hf : ⌊(n : ℚ) + 1 / 2⌋ = n := by
    rw [Int.floor_eq_iff]; constructor <;> linarith
  unfold rne
  rw [hf]
  have : (n : ℚ) + 1 / 2 - n = 1 / 2 := by ring
  rw [this]
  simp [h]

theorem rne_neg (x : ℚ) : rne (-x) = -rne x := by
  have hx1 := Int.floor_le x
  have hx2 := Int.lt_floor_add_one x
  by_cases hi : x = ⌊x⌋
  · rw [hi, ← Int.cast_neg, rne_intCast, rne_intCast]
  · have hlt : (⌊x⌋ : ℚ) < x := lt_of_le_of_ne hx1 (Ne.symm hi)
    have hf : ⌊-x⌋ = -⌊x⌋ - 1 := by
      rw [Int.floor_eq_iff]; push_cast; constructor <;> linarith
    unfold rne
    rw [hf]
    push_cast
    split_ifs <;> first | omega | (exfalso; linarith)

end Geo.F
