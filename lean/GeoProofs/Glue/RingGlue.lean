/-
  GeoProofs.Glue.RingGlue — the hand model as an instance of the operations the generated
  ring-level predicates (GeoModel/Generated/RingGen.lean, `translate ring`) are parametrised by,
  and the generic lemmas that connect the generated control structures (searchFold, forRange,
  intRange) with the ones of the model (foldUntil, List.all / List.any over List.range).

  Instance `RGlue.mops`:
    R := Geo.Ring, L := BS := Geo.Series, S := Geo.Seg;
    N := ENum = ℚ ∪ {−∞, +∞} (the only non-finite numbers the source produces are math.Inf(±1)),
    P := EPt, B := EBox (points / rectangles over ENum); the kernel operations are those of
    GeoModel/Kernel.lean on the finite parts;
    ringSearch r q := the visit list RECORDED by the model's own `Ring.search r (q clamped to
    r.rect) …` with a callback that never stops, where an infinite bound of q is replaced by a
    bound one unit beyond r.rect (this is the model's `stripBox`, see `clamp_strip`).
-/
import GeoModel.Generated.RingGen
import GeoProofs.IndexIndep.Basic

namespace Geo.RGlue
open Geo

/-- a float64 that is either a rational or ±∞ -/
inductive ENum where
  | fin (q : Rat)
  | inf (neg : Bool)
deriving DecidableEq, Inhabited

def ENum.toRat : ENum → Rat
  | .fin q => q
  | .inf _ => 0

structure EPt where
  x : ENum
  y : ENum
deriving DecidableEq, Inhabited

structure EBox where
  min : EPt
  max : EPt
deriving DecidableEq, Inhabited

def EPt.ofPt (p : Pt) : EPt := ⟨.fin p.x, .fin p.y⟩
def EPt.toPt (p : EPt) : Pt := ⟨p.x.toRat, p.y.toRat⟩
def EBox.ofBox (b : Box) : EBox := ⟨.ofPt b.min, .ofPt b.max⟩
def EBox.toBox (b : EBox) : Box := ⟨b.min.toPt, b.max.toPt⟩

@[simp] theorem toPt_ofPt (p : Pt) : (EPt.ofPt p).toPt = p := rfl
@[simp] theorem toBox_ofBox (b : Box) : (EBox.ofBox b).toBox = b := rfl
@[simp] theorem ofPt_x (p : Pt) : (EPt.ofPt p).x = .fin p.x := rfl
@[simp] theorem ofPt_y (p : Pt) : (EPt.ofPt p).y = .fin p.y := rfl

theorem ofPt_inj {p q : Pt} : EPt.ofPt p = EPt.ofPt q ↔ p = q := by
  constructor
  · intro h
    have := congrArg EPt.toPt h
    simpa using this
  · intro h; rw [h]

/-- an infinite coordinate becomes a bound one unit beyond [lo, hi] -/
def ENum.clamp (lo hi : Rat) : ENum → Rat
  | .fin q => q
  | .inf true => lo - 1
  | .inf false => hi + 1

/-- the query rectangle with its infinite bounds cut one unit beyond the ring's rect -/
def EBox.clamp (q : EBox) (r : Box) : Box :=
  ⟨⟨q.min.x.clamp r.min.x r.max.x, q.min.y.clamp r.min.y r.max.y⟩,
   ⟨q.max.x.clamp r.min.x r.max.x, q.max.y.clamp r.min.y r.max.y⟩⟩

@[simp] theorem clamp_ofBox (q r : Box) : (EBox.ofBox q).clamp r = q := rfl

/-- the (segment, index) pairs the model's search offers to a callback that never stops -/
def visits (r : Ring) (q : Box) : List (Seg × Int) :=
  r.search q (fun (acc : List (Seg × Int)) seg i => (acc ++ [(seg, (i : Int))], true)) []

/-- the operations of the generated code, over the hand model; `f` stands for the recursive call
    of ringContainsRing -/
def mopsR (f : Ring → Ring → Bool → Bool) : RGen.Ops Ring Series Series ENum EPt Seg EBox where
  baseSeriesSearch s q := visits (.ser s) (q.clamp s.rect)
  f64Add a b := .fin (a.toRat + b.toRat)
  f64Gt a b := decide (a.toRat > b.toRat)
  f64Mul a b := .fin (a.toRat * b.toRat)
  f64OfInt k := .fin k
  f64Sub a b := .fin (a.toRat - b.toRat)
  lineBaseSeries l := l
  lineEmpty l := l.empty
  lineNumPoints l := l.numPoints
  lineNumSegments l := l.numSegments
  linePointAt l i := .ofPt l.pts[i.toNat]!
  lineRect l := .ofBox l.rect
  lineSegmentAt l i := l.segmentAt i.toNat
  mathInf k := .inf (decide (k < 0))
  mkPoint x y := ⟨x, y⟩
  mkRect a b := ⟨a, b⟩
  pointEq a b := decide (a = b)
  pointX p := p.x
  pointY p := p.y
  rec_ringContainsRing := f
  rectArea b := .fin b.toBox.area
  rectContainsPoint b p := b.toBox.containsPt p.toPt
  rectContainsRect a b := a.toBox.containsBox b.toBox
  rectIntersectsRect a b := a.toBox.intersects b.toBox
  ringAsBaseSeries r := match r with | .ser s => some s | .bx _ => none
  ringClockwise r := r.clockwise
  ringConvex r := r.convex
  ringEmpty r := r.empty
  ringNumPoints r := r.numPoints
  ringNumSegments r := r.numSegments
  ringOfBaseSeries s := .ser s
  ringOfRect b := .bx b.toBox
  ringPointAt r i := .ofPt (r.pointAt i.toNat)
  ringRect r := .ofBox r.rect
  ringSearch r q := visits r (q.clamp r.rect)
  ringSegmentAt r i := r.segmentAt i.toNat
  segmentA s := .ofPt s.a
  segmentB s := .ofPt s.b
  segmentCollinearPoint s p := s.collinearPt p.toPt
  segmentIntersectsSegment s o := s.intersects o
  segmentRaycast s p := ⟨(s.raycast p.toPt).inn, (s.raycast p.toPt).on⟩
  segmentRect s := .ofBox s.box

/-- the instance in which the recursive call is the model's ringContainsRing -/
def mops : RGen.Ops Ring Series Series ENum EPt Seg EBox := mopsR Geo.ringContainsRing

/-- the searches of ring `r` are early-exit folds over visit lists (no decoding panic): true of
    every Rect, of every series without index and of the series built by `mkSeries`
    (`Series.SearchExact`, GeoProofs/SeriesSearch*.lean) -/
def Exact (r : Ring) : Prop := ∀ q : Box, ∃ l, r.FoldOn q l

theorem exact_bx (b : Box) : Exact (.bx b) := fun q => by
  obtain ⟨l, _, _, h, _⟩ := (Ring.Sim.bx b).search q
  exact ⟨l, h⟩

theorem exact_ser {s : Series} (hs : s.SearchExact) : Exact (.ser s) := fun q => by
  obtain ⟨l, _, h⟩ := hs.foldOn q
  exact ⟨l, h⟩

theorem exact_of_index_none (s : Series) (h : s.index = none) : Exact (.ser s) :=
  exact_ser (searchExact_of_index_none s h)

end Geo.RGlue
