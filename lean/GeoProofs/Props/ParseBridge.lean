/-
  GeoProofs.Props.ParseBridge — final statements of the parser bridge: the definitions regenerated
  from /repo's parsers (GeoModel/Generated/ParseGen.lean), instantiated with the hand model's AST
  operations (GeoProofs/Glue/ParseGlue.lean: `PGlue.mops`), agree with the hand model
  (GeoModel/Json.lean).  DONE here: the position reader, parseBBoxAndExtras, toGeometryOpts, the line
  coordinates reader, and the leaf kinds Point and LineString (generated parseJSONPoint /
  parseJSONLineString = the "Point" / "LineString" arm of `parse`); round 2: parseJSONPolygonCoords,
  parseJSONPolygon (AllowRects, RequireValid; finite ring positions), parseInitRectIndex (children R-tree
  flag, pempty = allEmpty, prect = collRect), parseJSONGeometryCollection / parseJSONFeatureCollection
  (given the recursion parameter one level down), the member scan of parseJSON (= scanKeys: KeysRel is
  DISCHARGED from the source), the type checks and the dispatch of parseJSON, and Parse (nil options,
  leading-byte loop).  NOT proved: parseJSONMultiPoint / MultiLineString / MultiPolygon / Feature — they
  enter `parseJSON_bridge` / `Parse_level_bridge` as the explicit hypothesis `KindHyps`; the closing
  induction over the nesting depth (rec := the generated Parse one level down) and the derivation of
  `PolyFin` from NoOverflowLit are not done either: `Parse_level_bridge` is the induction step.
-/
import GeoProofs.Glue.ParseGlueTop

set_option linter.unusedSimpArgs false

namespace Geo.ParseBridge
open Geo Geo.PGen Geo.PGlue

/-- the "Point" arm of `parse` is `mPoint` -/
theorem parse_point (o : POpts) (fuel : Nat) (ms : List (String × String × JVal)) (raw : String)
    (h : (scanKeys ms).type = some (.str raw "Point")) :
    parse o (fuel + 1) (.obj ms) = mPoint o (scanKeys ms) := by
  rw [parse]
  simp only [h, mPoint]
  rfl

/-- the "LineString" arm of `parse` is `mLineString` -/
theorem parse_lineString (o : POpts) (fuel : Nat) (ms : List (String × String × JVal)) (raw : String)
    (h : (scanKeys ms).type = some (.str raw "LineString")) :
    parse o (fuel + 1) (.obj ms) = mLineString o (scanKeys ms) := by
  rw [parse]
  simp only [h, mLineString]
  rfl

/-- BRIDGE, Point: the regenerated parseJSONPoint, run on keys that carry what the model's scanKeys
    collected, returns the object / the error of the model's parse on a document of type "Point" -/
theorem parseJSONPoint_bridge (rec : RecT) (gk : GKeys) (o : POpts) (fuel : Nat) (ms : List (String × String × JVal))
    (raw : String) (ht : (scanKeys ms).type = some (.str raw "Point")) (hk : KeysRel gk (scanKeys ms)) :
    Agree (PGen.parseJSONPoint (mops rec) (some gk) (some (optsG o))) (parse o (fuel + 1) (.obj ms)) := by
  rw [parse_point o fuel ms raw ht]
  exact point_eq rec gk o _ hk

/-- BRIDGE, LineString -/
theorem parseJSONLineString_bridge (rec : RecT) (gk : GKeys) (o : POpts) (fuel : Nat) (ms : List (String × String × JVal))
    (raw : String) (ht : (scanKeys ms).type = some (.str raw "LineString")) (hk : KeysRel gk (scanKeys ms)) :
    Agree (PGen.parseJSONLineString (mops rec) (some gk) (some (optsG o))) (parse o (fuel + 1) (.obj ms)) := by
  rw [parse_lineString o fuel ms raw ht]
  exact lineString_eq rec gk o _ hk

/-- BRIDGE, position reader: generated parseJSONPointCoords on an existing rcoords = parsePointCoords -/
theorem parseJSONPointCoords_bridge (rec : RecT) (keys : Option GKeys) (opts : Option GOpts) (rc : JVal) :
    match parsePointCoords rc with
    | .ok (pos, ex) =>
      toPos (PGen.parseJSONPointCoords (mops rec) keys (some rc) opts).1 = pos ∧
      (PGen.parseJSONPointCoords (mops rec) keys (some rc) opts).2.1.map exM = ex ∧
      (PGen.parseJSONPointCoords (mops rec) keys (some rc) opts).2.2 = none
    | .error e => e = .coordsInvalid ∧
      (PGen.parseJSONPointCoords (mops rec) keys (some rc) opts).2.2 = some .errCoordinatesInvalid :=
  pointCoords_some rec keys opts rc

/-- BRIDGE, line coordinates reader: generated parseJSONLineStringCoords = parseLineCoords -/
theorem parseJSONLineStringCoords_bridge (rec : RecT) (keys : Option GKeys) (opts : Option GOpts) (rc : JVal) :
    match parseLineCoords rc with
    | .ok (ps, ex) =>
      (PGen.parseJSONLineStringCoords (mops rec) keys (some rc) opts).1.map toPos = ps ∧
      (PGen.parseJSONLineStringCoords (mops rec) keys (some rc) opts).2.1.map exM = ex ∧
      (PGen.parseJSONLineStringCoords (mops rec) keys (some rc) opts).2.2 = none
    | .error e => e = .coordsInvalid ∧
      (PGen.parseJSONLineStringCoords (mops rec) keys (some rc) opts).2.2 = some .errCoordinatesInvalid :=
  lineCoords_some rec keys opts rc

/-- BRIDGE, parseBBoxAndExtras = withMembers -/
theorem parseBBoxAndExtras_bridge (rec : RecT) (ex : Option GExtra) (gk : GKeys) (opts : Option GOpts) (k : Keys)
    (hk : KeysRel gk k) :
    (PGen.parseBBoxAndExtras (mops rec) ex (some gk) opts).1 = none ∧
    (PGen.parseBBoxAndExtras (mops rec) ex (some gk) opts).2.map exM = withMembers (ex.map exM) k :=
  bbox_eq rec ex gk opts k hk

/-- BRIDGE, toGeometryOpts -/
theorem toGeometryOpts_bridge (rec : RecT) (o : POpts) :
    PGen.toGeometryOpts (mops rec) (some (optsG o)) = (o.indexKind, (o.indexGeometry : Int)) :=
  toGeometryOpts_eq rec o

/-- BRIDGE, polygon coordinates reader -/
theorem parseJSONPolygonCoords_bridge (rec : RecT) (keys : Option GKeys) (opts : Option GOpts) (rc : JVal) :
    match parsePolyCoords rc with
    | .ok (rings, ex) =>
      (PGen.parseJSONPolygonCoords (mops rec) keys (some rc) opts).1.map (·.map toPos) = rings ∧
      (PGen.parseJSONPolygonCoords (mops rec) keys (some rc) opts).2.1.map exM = ex ∧
      (PGen.parseJSONPolygonCoords (mops rec) keys (some rc) opts).2.2 = none
    | .error e => e = .coordsInvalid ∧
      (PGen.parseJSONPolygonCoords (mops rec) keys (some rc) opts).2.2 = some .errCoordinatesInvalid :=
  polyCoords_some rec keys opts rc

/-- BRIDGE, Polygon (linear-ring test, AllowRects substitution, RequireValid), ring positions finite -/
theorem parseJSONPolygon_bridge (rec : RecT) (gk : GKeys) (o : POpts) (fuel : Nat) (ms : List Mem)
    (raw : String) (ht : (scanKeys ms).type = some (.str raw "Polygon")) (hk : KeysRel gk (scanKeys ms)) (hfin : PolyFin ms) :
    Agree (PGen.parseJSONPolygon (mops rec) (some gk) (some (optsG o))) (parse o (fuel + 1) (.obj ms)) := by
  rw [(parse_arm o fuel ms raw "Polygon" ht).2.2.1 rfl]
  exact polygon_eq rec gk o _ hk hfin

/-- BRIDGE, parseInitRectIndex: tree flag, pempty = allEmpty, prect = collRect; hence the model's mkColl -/
theorem parseInitRectIndex_bridge (rec : RecT) (kind : CollKind) (c : GColl) (o : POpts) (ht : c.tree = none) :
    collObj kind (PGen.parseInitRectIndex (mops rec) c (some (optsG o))) = mkColl o kind c.children (c.extra.map exM) ∧
    (PGen.parseInitRectIndex (mops rec) c (some (optsG o))).pempty = Obj.allEmpty c.children ∧
    (Obj.collRect c.children (c.children.length == 1) none =
      if nonEmptyCount c.children = 0 then none
      else some (boxOf (PGen.parseInitRectIndex (mops rec) c (some (optsG o))).prect)) :=
  ⟨initRect_obj rec kind c o ht, (initRect_eq rec c o ht).2.2.2.1, (initRect_eq rec c o ht).2.2.2.2⟩

/-- BRIDGE, GeometryCollection / FeatureCollection (recursion parameter right one level down) -/
theorem parseJSONGeometryCollection_bridge (rec : RecT) (o : POpts) (fuel : Nat) (hrec : RecOK rec o fuel) (gk : GKeys)
    (ms : List Mem) (raw : String) (ht : (scanKeys ms).type = some (.str raw "GeometryCollection")) (hk : KeysRel gk (scanKeys ms)) :
    AgreeU (PGen.parseJSONGeometryCollection (mops rec) (some gk) (some (optsG o))) (parse o (fuel + 1) (.obj ms)) := by
  rw [(parse_arm o fuel ms raw "GeometryCollection" ht).2.2.2.1 rfl]
  exact gcoll_eq rec o fuel hrec gk _ hk

theorem parseJSONFeatureCollection_bridge (rec : RecT) (o : POpts) (fuel : Nat) (hrec : RecOK rec o fuel) (gk : GKeys)
    (ms : List Mem) (raw : String) (ht : (scanKeys ms).type = some (.str raw "FeatureCollection")) (hk : KeysRel gk (scanKeys ms)) :
    AgreeU (PGen.parseJSONFeatureCollection (mops rec) (some gk) (some (optsG o))) (parse o (fuel + 1) (.obj ms)) := by
  rw [(parse_arm o fuel ms raw "FeatureCollection" ht).2.2.2.2 rfl]
  exact fcoll_eq rec o fuel hrec gk _ hk

/-- BRIDGE, the member scan of parseJSON = scanKeys (KeysRel discharged from the source) -/
theorem scan_bridge (rec : RecT) (ms : List Mem) :
    ∃ gk fm rT, searchFold (PGen.parseJSON_lit1 (mops rec)) (ms.map memPair) (⟨none, none, none, none, []⟩, [], none) = (gk, fm, rT) ∧
      rT = (scanKeys ms).type ∧
      KeysRel (if (flat fm).length > 0 then { gk with members := fm ++ [Piece.ch '}'] } else gk) (scanKeys ms) :=
  scan_keys rec ms

/-- BRIDGE, parseJSON (scan, type checks, dispatch) = parse on an object -/
theorem parseJSON_bridge (rec : RecT) (o : POpts) (fuel : Nat) (hrec : RecOK rec o fuel) (hk : KindHyps rec o fuel)
    (ms : List Mem) (hfin : PolyFin ms) :
    AgreeU (PGen.parseJSON (mops rec) [Piece.doc (.obj ms)] (some (optsG o))) (parse o (fuel + 1) (.obj ms)) :=
  parseJSON_eq rec o fuel hrec hk ms hfin

/-- BRIDGE, Parse: nil options are the defaults -/
theorem defaultOptions_bridge (rec : RecT) : PGen.DefaultParseOptions (mops rec) = some (optsG {}) := rfl

/-- BRIDGE, Parse (leading-byte loop; fuel ≥ number of leading whitespace bytes + 1): the induction step
    of `generated Parse = parse` over the nesting depth -/
theorem Parse_level_bridge (rec : RecT) (o : POpts) (fuel : Nat) (hrec : RecOK rec o fuel) (hk : KindHyps rec o fuel)
    (ws : List Char) (hws : ∀ c ∈ ws, isWs c = true) (v : JVal) (hfin : ∀ ms, v = .obj ms → PolyFin ms) (n : Nat) :
    ∃ g, PGen.Parse (mops rec) (ws.length + 1 + n) (ws.map Piece.ch ++ [Piece.doc v]) (some (optsG o)) = some g ∧
      AgreeU g (parse o (fuel + 1) v) :=
  Parse_level rec o fuel hrec hk ws hws v hfin n

#print axioms parseJSONPolygonCoords_bridge
#print axioms parseJSONPolygon_bridge
#print axioms parseInitRectIndex_bridge
#print axioms parseJSONGeometryCollection_bridge
#print axioms parseJSONFeatureCollection_bridge
#print axioms scan_bridge
#print axioms parseJSON_bridge
#print axioms defaultOptions_bridge
#print axioms Parse_level_bridge
#print axioms parseJSONPoint_bridge
#print axioms parseJSONLineString_bridge
#print axioms parseJSONPointCoords_bridge
#print axioms parseJSONLineStringCoords_bridge
#print axioms parseBBoxAndExtras_bridge
#print axioms toGeometryOpts_bridge

end Geo.ParseBridge
