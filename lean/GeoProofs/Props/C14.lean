/-
  C14 — RectFromCenter (geo/geo.go) over ℝ, partial.

  Statements are about `Gen.rectFromCenter` (generated from the Go source) at the exact
  instance `GeoNum ℝ`; the result is (minLat, minLon, maxLat, maxLon) in degrees.
  `R` = 6371000, `rad` = π/180; `rectThr` = 0.999999999999999 is the tiny-radius threshold and
  `rectLonDelta φ r` the tangent-longitude half-width used by the code (GeoProofs/GeoLemmas).

  Proved: range of the result (unconditional), pole widening, wrap-around widening, the
  degenerate tiny-radius rectangle, latitude coverage outside the tiny-radius branch.

  Finding (`rect_lat_cover_counterexample`): in the tiny-radius branch (cos(m/R) >
  0.999999999999999, i.e. radii below ≈ 0.28 m) the rectangle is the centre POINT, so it does not
  cover points that are within distance m of the centre; coverage holds only outside that
  branch (`rect_lat_cover_partial`).

  NOT expected / not attempted here:
    * longitude coverage by the tangent-longitude formula (`rectLonDelta`);
    * NaN-freedom — not expressible over ℝ, where arcsin/arccos are clamped and x/0 = 0
      (in float64 `latSin / rCos`, `… / (latTCos * latCos)` can produce NaN/±Inf near the
      poles; the comparisons that follow are then false).
-/
import GeoProofs.GeoLemmas
import GeoProofs.Props.C15

namespace Geo.C14
open Geo GeoReal Real Geo.C15

local notation "R" => (6371000 : ℝ)
local notation "rad" => (π / 180)
local notation "deg" => (180 / π)

private theorem neg_ninety_rad : (-90 : ℝ) * rad = -π / 2 := by ring
private theorem ninety_rad : (90 : ℝ) * rad = π / 2 := by ring
private theorem pi_deg : π * deg = 180 := by have := pi_ne_zero; field_simp
private theorem neg_pi_deg : -π * deg = -180 := by have := pi_ne_zero; field_simp

/-! ### ranges (hold for ALL inputs: the adjustments clamp) -/

theorem rect_lat_bounds (lat lon m : ℝ) :
    -90 ≤ (Gen.rectFromCenter lat lon m).1 ∧ (Gen.rectFromCenter lat lon m).2.2.1 ≤ 90 := by
  rw [rectFromCenter_eq]
  simp only [rectRad]
  constructor
  · apply le_mul_deg
    rw [neg_ninety_rad, rectS4_fst]
    exact rectS3_fst_ge _
  · apply mul_deg_le
    rw [ninety_rad, rectS4_maxLat, rectS3_maxLat]
    exact rectS2_maxLat_le _

theorem rect_lon_bounds (lat lon m : ℝ) :
    -180 ≤ (Gen.rectFromCenter lat lon m).2.1 ∧ (Gen.rectFromCenter lat lon m).2.2.2 ≤ 180 := by
  rw [rectFromCenter_eq]
  simp only [rectRad]
  obtain ⟨h1, h2⟩ := rectS4_lon (rectS3 (rectS2 (rectS1 (lat * rad) (lon * rad) (m / R))))
  constructor
  · apply le_mul_deg
    rw [show (-180 : ℝ) * rad = -π by ring]; exact h1
  · apply mul_deg_le
    rw [show (180 : ℝ) * rad = π by ring]; exact h2

/-! ### widening -/

/-- If (outside the tiny-radius branch) the circle reaches over a pole — `lat + m/R` above 90° or
    `lat − m/R` below −90°, written in radians — the longitudes are the full range. -/
theorem rect_pole_widens (lat lon m : ℝ) (hbig : cos (m / R) ≤ rectThr)
    (h : π / 2 < lat * rad + m / R ∨ lat * rad - m / R < -π / 2) :
    (Gen.rectFromCenter lat lon m).2.1 = -180 ∧ (Gen.rectFromCenter lat lon m).2.2.2 = 180 := by
  rw [rectFromCenter_eq]
  simp only [rectRad]
  have hs : rectS1 (lat * rad) (lon * rad) (m / R) =
      (lat * rad - m / R, lon * rad - rectLonDelta (lat * rad) (m / R), lat * rad + m / R,
        lon * rad + rectLonDelta (lat * rad) (m / R)) := by
    rw [rectS1, if_neg (not_lt.2 hbig)]
  obtain ⟨h1, h2⟩ := rectAdj_full_of_pole (rectS1 (lat * rad) (lon * rad) (m / R))
    (by rw [hs]; exact h)
  rw [h1, h2, pi_deg, neg_pi_deg]
  exact ⟨rfl, rfl⟩

/-- general form: whenever the unadjusted longitude interval (after the tiny-radius test) leaves
    [−π, π], the result has the full longitude range -/
theorem rect_wrap_widens_general (lat lon m : ℝ)
    (h : (rectS1 (lat * rad) (lon * rad) (m / R)).2.1 < -π
          ∨ π < (rectS1 (lat * rad) (lon * rad) (m / R)).2.2.2) :
    (Gen.rectFromCenter lat lon m).2.1 = -180 ∧ (Gen.rectFromCenter lat lon m).2.2.2 = 180 := by
  rw [rectFromCenter_eq]
  simp only [rectRad]
  obtain ⟨h1, h2⟩ := rectAdj_full_of_wrap _ h
  rw [h1, h2, pi_deg, neg_pi_deg]
  exact ⟨rfl, rfl⟩

/-- outside the tiny-radius branch the unadjusted interval is `lon ± rectLonDelta` -/
theorem rect_wrap_widens (lat lon m : ℝ) (hbig : cos (m / R) ≤ rectThr)
    (h : lon * rad - rectLonDelta (lat * rad) (m / R) < -π
          ∨ π < lon * rad + rectLonDelta (lat * rad) (m / R)) :
    (Gen.rectFromCenter lat lon m).2.1 = -180 ∧ (Gen.rectFromCenter lat lon m).2.2.2 = 180 := by
  apply rect_wrap_widens_general
  rw [rectS1, if_neg (not_lt.2 hbig)]
  exact h

/-! ### tiny radius -/

theorem rect_tiny_radius_degenerate (lat lon m : ℝ) (hlat : -90 ≤ lat ∧ lat ≤ 90)
    (hlon : -180 ≤ lon ∧ lon ≤ 180) (htiny : rectThr < cos (m / R)) :
    Gen.rectFromCenter lat lon m = (lat, lon, lat, lon) := by
  rw [rectFromCenter_eq]
  simp only [rectRad]
  have hs : rectS1 (lat * rad) (lon * rad) (m / R) = (lat * rad, lon * rad, lat * rad, lon * rad) := by
    rw [rectS1, if_pos htiny]
  have h1 := mul_rad_le hlat.1
  have h2 := mul_rad_le hlat.2
  have h3 := mul_rad_le hlon.1
  have h4 := mul_rad_le hlon.2
  rw [hs, rectAdj_id _ (by simp only; linarith) (by simp only; linarith) (by simp only; linarith)
    (by simp only; linarith)]
  simp only [mul_rad_mul_deg]

/-! ### latitude coverage -/

/-- the great-circle distance dominates the latitude difference: `R·|Δφ| ≤ distance` -/
theorem lat_diff_le_distance (lat lon plat plon : ℝ) (hlat : -90 ≤ lat ∧ lat ≤ 90)
    (hplat : -90 ≤ plat ∧ plat ≤ 90) :
    R * |plat * rad - lat * rad| ≤ Gen.distanceTo lat lon plat plon := by
  rw [distanceTo_eq, distanceFromHaversine_eq, haversine_eq]
  have h1 := mul_rad_le hlat.1
  have h2 := mul_rad_le hlat.2
  have h3 := mul_rad_le hplat.1
  have h4 := mul_rad_le hplat.2
  have hx : |(plat * rad - lat * rad) / 2| ≤ π / 2 := by
    rw [abs_le]; constructor <;> linarith
  have hh : sin ((plat * rad - lat * rad) / 2) ^ 2 ≤
      sin ((plat * rad - lat * rad) / 2) ^ 2
        + cos (lat * rad) * cos (plat * rad) * sin ((plon * rad - lon * rad) / 2) ^ 2 :=
    le_add_of_nonneg_right
      (mul_nonneg (mul_nonneg (cos_lat_nonneg hlat) (cos_lat_nonneg hplat)) (sq_nonneg _))
  have := abs_le_two_arcsin_sqrt hx hh
  rw [abs_div, abs_of_pos (by norm_num : (0 : ℝ) < 2)] at this
  linarith

/-- Outside the tiny-radius branch, every point within distance `m` of the centre has its
    latitude inside [minLat, maxLat]. -/
theorem rect_lat_cover_partial (lat lon m plat plon : ℝ) (hlat : -90 ≤ lat ∧ lat ≤ 90)
    (hplat : -90 ≤ plat ∧ plat ≤ 90) (hbig : cos (m / R) ≤ rectThr)
    (hd : Gen.distanceTo lat lon plat plon ≤ m) :
    (Gen.rectFromCenter lat lon m).1 ≤ plat ∧ plat ≤ (Gen.rectFromCenter lat lon m).2.2.1 := by
  have hdist := lat_diff_le_distance lat lon plat plon hlat hplat
  have habs : |plat * rad - lat * rad| ≤ m / R := by
    rw [le_div_iff₀ (by norm_num : (0 : ℝ) < R)]; linarith
  rw [abs_le] at habs
  have h3 := mul_rad_le hplat.1
  have h4 := mul_rad_le hplat.2
  rw [rectFromCenter_eq]
  simp only [rectRad]
  have hs : rectS1 (lat * rad) (lon * rad) (m / R) =
      (lat * rad - m / R, lon * rad - rectLonDelta (lat * rad) (m / R), lat * rad + m / R,
        lon * rad + rectLonDelta (lat * rad) (m / R)) := by
    rw [rectS1, if_neg (not_lt.2 hbig)]
  constructor
  · apply mul_deg_le
    rw [rectAdj_fst, hs]
    exact max_le (by simp only; linarith) (by linarith)
  · apply le_mul_deg
    rw [rectAdj_maxLat, hs]
    exact le_min (by simp only; linarith) (by linarith)

/-- In the tiny-radius branch coverage FAILS: centre (0,0), radius m = R·10⁻⁸ ≈ 6.4 cm; the point
    at latitude 10⁻⁸ rad on the same meridian is at distance exactly m, but the rectangle is
    the single point (0,0). -/
theorem rect_lat_cover_counterexample :
    ¬ ∀ lat lon m plat plon : ℝ, (-90 ≤ lat ∧ lat ≤ 90) → (-90 ≤ plat ∧ plat ≤ 90) →
        (0 ≤ m ∧ m ≤ π * R) → Gen.distanceTo lat lon plat plon ≤ m →
        (Gen.rectFromCenter lat lon m).1 ≤ plat ∧ plat ≤ (Gen.rectFromCenter lat lon m).2.2.1 := by
  intro h
  have hp := pi_pos
  have hp3 := pi_le_four
  have hp2 := two_le_pi
  -- the witness
  have hplat : (-90 : ℝ) ≤ 1e-8 * deg ∧ (1e-8 : ℝ) * deg ≤ 90 := by
    constructor
    · have : (0 : ℝ) ≤ 1e-8 * deg := by positivity
      linarith
    · rw [mul_div_assoc', div_le_iff₀ hp]; norm_num; nlinarith
  have hm : (0 : ℝ) ≤ R * 1e-8 ∧ R * 1e-8 ≤ π * R := by
    constructor
    · norm_num
    · nlinarith
  have hmr : R * 1e-8 / R = (1e-8 : ℝ) := by norm_num
  have htiny : rectThr < cos (R * 1e-8 / R) := by
    rw [hmr]
    have := one_sub_sq_div_two_le_cos (x := (1e-8 : ℝ))
    unfold rectThr
    have : (0.999999999999999 : ℝ) < 1 - (1e-8 : ℝ) ^ 2 / 2 := by norm_num
    linarith
  have hrect := rect_tiny_radius_degenerate 0 0 (R * 1e-8) ⟨by norm_num, by norm_num⟩
    ⟨by norm_num, by norm_num⟩ htiny
  have hd : Gen.distanceTo 0 0 (1e-8 * deg) 0 ≤ R * 1e-8 := by
    rw [distanceTo_eq, distanceFromHaversine_eq, haversine_eq]
    have e : (1e-8 * deg * rad - 0 * rad) / 2 = (1e-8 : ℝ) / 2 := by field_simp; ring
    rw [e]
    simp only [zero_mul, sub_self, zero_div, sin_zero]
    have hs : 0 ≤ sin ((1e-8 : ℝ) / 2) := sin_nonneg_of_nonneg_of_le_pi (by norm_num) (by linarith)
    have : sin ((1e-8 : ℝ) / 2) ^ 2 + cos 0 * cos (1e-8 * deg * rad) * 0 ^ 2
        = sin ((1e-8 : ℝ) / 2) ^ 2 := by ring
    rw [this, sqrt_sq hs, arcsin_sin (by linarith) (by linarith)]
    norm_num
  have := (h 0 0 (R * 1e-8) (1e-8 * deg) 0 ⟨by norm_num, by norm_num⟩ hplat hm hd).2
  rw [hrect] at this
  simp only at this
  have : (0 : ℝ) < 1e-8 * deg := by positivity
  linarith

/-! ### non-vacuity -/

/-- the pole-widening hypotheses are satisfiable: centre at latitude 80°, radius a quarter of the
    circumference (`m/R = π/2`, `cos = 0 ≤ rectThr`) -/
example : (Gen.rectFromCenter 80 0 (π / 2 * R)).2.1 = -180 ∧
    (Gen.rectFromCenter 80 0 (π / 2 * R)).2.2.2 = 180 := by
  have hp := pi_pos
  have e : π / 2 * R / R = π / 2 := by field_simp
  apply rect_pole_widens
  · rw [e, cos_pi_div_two]; unfold rectThr; norm_num
  · left; rw [e]; nlinarith

/-- the tiny-radius hypothesis is satisfiable (m = 0) -/
example : Gen.rectFromCenter (10 : ℝ) 20 0 = (10, 20, 10, 20) := by
  apply rect_tiny_radius_degenerate 10 20 0 ⟨by norm_num, by norm_num⟩ ⟨by norm_num, by norm_num⟩
  rw [zero_div, cos_zero]; unfold rectThr; norm_num

end Geo.C14

#print axioms Geo.C14.rect_lat_bounds
#print axioms Geo.C14.rect_lon_bounds
#print axioms Geo.C14.rect_pole_widens
#print axioms Geo.C14.rect_wrap_widens_general
#print axioms Geo.C14.rect_wrap_widens
#print axioms Geo.C14.rect_tiny_radius_degenerate
#print axioms Geo.C14.lat_diff_le_distance
#print axioms Geo.C14.rect_lat_cover_partial
#print axioms Geo.C14.rect_lat_cover_counterexample
