/-
  GeoProofs.Convex.General — LEMMA S for periodic vertex sequences: a simple closed chain whose
  turns all have the same orientation has every vertex on one closed side of every edge line.
  Horizontal edges are removed by a generic shear, the clockwise case by the mirror image.
-/
import GeoProofs.Convex.Monotone
import Mathlib.Order.Interval.Set.Infinite
import Mathlib.Data.Set.Finite.Basic

namespace Geo
namespace Cvx

theorem Simple0.ne {P : Nat → Pt} {n : Nat} (h : Simple0 P n) (i : Nat) : P i ≠ P (i+1) := by
  intro e
  refine h.adj2 i ?_
  rw [e]
  exact K.onSeg_left _ _

/-- a shear slope that makes no edge horizontal -/
theorem exists_slope {P : Nat → Pt} {n : Nat} (h : Simple0 P n) :
    ∃ s : Rat, ∀ i, s * (P i).x + (P i).y ≠ s * (P (i+1)).x + (P (i+1)).y := by
  let bad : Finset Rat := ((List.range n).map
    (fun i => -((P (i+1)).y - (P i).y) / ((P (i+1)).x - (P i).x))).toFinset
  obtain ⟨s, -, hs⟩ := (Set.Ioi_infinite (0 : Rat)).exists_notMem_finset bad
  refine ⟨s, fun i he => ?_⟩
  have hn : 0 < n := by have := h.n3; omega
  obtain ⟨e1, e2⟩ := h.congr (x := i) (x' := i % n) (Nat.mod_mod _ _)
  rw [← e1, ← e2] at he
  have hne := h.ne (i % n)
  by_cases hx : (P (i % n + 1)).x - (P (i % n)).x = 0
  · have hx' : (P (i % n + 1)).x = (P (i % n)).x := by linarith
    rw [hx'] at he
    exact hne ((K.pt_eq_iff _ _).2 ⟨hx'.symm, by linarith⟩)
  · apply hs
    rw [List.mem_toFinset, List.mem_map]
    refine ⟨i % n, List.mem_range.2 (Nat.mod_lt _ hn), ?_⟩
    field_simp
    linarith

/-- LEMMA S, counter-clockwise -/
theorem support_of_left {P : Nat → Pt} {n : Nat} (h : Simple0 P n)
    (turn : ∀ i, 0 ≤ Spec.cross (P i) (P (i+1)) (P (i+2))) (i j : Nat) :
    0 ≤ Spec.cross (P i) (P (i+1)) (P j) := by
  obtain ⟨s, hs⟩ := exists_slope h
  have hT := shmOK 1 s (by norm_num)
  have hQ : LT (fun i => shm 1 s (P i)) n :=
    { toSimple0 := h.map hT
      turn := fun i => by rw [hT.cross, one_mul]; exact turn i
      nh := fun i => by simp only [shm_y]; exact hs i }
  have := hQ.support i j
  rwa [hT.cross, one_mul] at this

/-- LEMMA S, clockwise -/
theorem support_of_right {P : Nat → Pt} {n : Nat} (h : Simple0 P n)
    (turn : ∀ i, Spec.cross (P i) (P (i+1)) (P (i+2)) ≤ 0) (i j : Nat) :
    Spec.cross (P i) (P (i+1)) (P j) ≤ 0 := by
  have hT := shmOK (-1) 0 (by norm_num)
  have := support_of_left (P := fun i => shm (-1) 0 (P i)) (h.map hT)
    (fun i => by rw [hT.cross]; have := turn i; linarith) i j
  rw [hT.cross] at this
  linarith

end Cvx
end Geo
