/-
  GeoProofs.Glue.ParseGlueJSON — generated parseJSON (member scan, type checks, dispatch) = the model's
  parse on an object, given the per-kind statements.
-/
import GeoProofs.Glue.ParseGlueScan2

set_option linter.unusedSimpArgs false

namespace Geo.PGlue
open Geo Geo.PGen

/-- the keys record parseJSON hands to the per-kind parsers -/
theorem scan_keys (rec : RecT) (ms : List Mem) :
    ∃ gk fm rT, searchFold (PGen.parseJSON_lit1 (mops rec)) (ms.map memPair) (⟨none, none, none, none, []⟩, [], none) = (gk, fm, rT) ∧
      rT = (scanKeys ms).type ∧
      KeysRel (if (flat fm).length > 0 then { gk with members := fm ++ [Piece.ch '}'] } else gk) (scanKeys ms) := by
  obtain ⟨gk, fm, rT, hf, h⟩ := scan_fold rec ms ⟨none, none, none, none, []⟩ [] none {} ⟨rfl, rfl, rfl, rfl, rfl, rfl, rfl⟩
  rw [← scanKeys_eq] at h
  refine ⟨gk, fm, rT, hf, h.ty, ?_⟩
  by_cases hz : (scanKeys ms).foreign = []
  · have : (flat fm).length = 0 := by rw [h.fm_eq]; exact (flat_piecesOpen_len _).mpr hz
    simp only [this, gt_iff_lt, Nat.lt_irrefl, if_false]
    exact ⟨h.coords, h.geoms, h.geom, h.feats, by simp [h.mem, flat, Keys.members, hz],
      by simp [h.mem, hasPropsOf, decodeObj, Keys.hasProps, hz], fun hne => absurd hz hne, fun _ => h.mem⟩
  · have : (flat fm).length > 0 := by
      rw [h.fm_eq]; exact Nat.pos_of_ne_zero (fun e => hz ((flat_piecesOpen_len _).mp e))
    simp only [this, if_true]
    refine ⟨h.coords, h.geoms, h.geom, h.feats, ?_, ?_, ?_, fun h0 => absurd h0 hz⟩
    · simp only [h.fm_eq, members_text _ hz, Keys.members]
      simp [hz]
    · simp only [h.fm_eq, hasPropsOf, decode_members _ hz, Keys.hasProps]
    · intro _; simp only [h.fm_eq]; exact decode_members _ hz

/-- what is assumed about the kinds whose bridge is not proved here -/
structure KindHyps (rec : RecT) (o : POpts) (fuel : Nat) (ms : List Mem) : Prop where
  multiPoint : ∀ gk raw, (scanKeys ms).type = some (.str raw "MultiPoint") → KeysRel gk (scanKeys ms) →
    AgreeU (PGen.parseJSONMultiPoint (mops rec) (some gk) (some (optsG o))) (parse o (fuel + 1) (.obj ms))
  multiLineString : ∀ gk raw, (scanKeys ms).type = some (.str raw "MultiLineString") → KeysRel gk (scanKeys ms) →
    AgreeU (PGen.parseJSONMultiLineString (mops rec) (some gk) (some (optsG o))) (parse o (fuel + 1) (.obj ms))
  multiPolygon : ∀ gk raw, (scanKeys ms).type = some (.str raw "MultiPolygon") → KeysRel gk (scanKeys ms) →
    AgreeU (PGen.parseJSONMultiPolygon (mops rec) (some gk) (some (optsG o))) (parse o (fuel + 1) (.obj ms))
  feature : ∀ gk raw, (scanKeys ms).type = some (.str raw "Feature") → KeysRel gk (scanKeys ms) →
    AgreeU (PGen.parseJSONFeature (mops rec) (some gk) (some (optsG o))) (parse o (fuel + 1) (.obj ms))

/-- finiteness of the ring positions of a Polygon document (follows from NoOverflowLit) -/
def PolyFin (ms : List Mem) : Prop :=
  ∀ rc rings ex, (scanKeys ms).coordinates = some rc → parsePolyCoords rc = .ok (rings, ex) → ∀ r ∈ rings, ∀ p ∈ r, p.fin = true

theorem parse_arm (o : POpts) (fuel : Nat) (ms : List Mem) (raw ty : String) (h : (scanKeys ms).type = some (.str raw ty)) :
    (ty = "Point" → parse o (fuel + 1) (.obj ms) = mPoint o (scanKeys ms)) ∧
    (ty = "LineString" → parse o (fuel + 1) (.obj ms) = mLineString o (scanKeys ms)) ∧
    (ty = "Polygon" → parse o (fuel + 1) (.obj ms) = mPolygon o (scanKeys ms)) ∧
    (ty = "GeometryCollection" → parse o (fuel + 1) (.obj ms) = mGColl o fuel (scanKeys ms)) ∧
    (ty = "FeatureCollection" → parse o (fuel + 1) (.obj ms) = mFColl o fuel (scanKeys ms)) := by
  refine ⟨?_, ?_, ?_, ?_, ?_⟩ <;> intro e <;> subst e <;> rw [parse] <;> simp only [h]
  · simp only [mPoint]; rfl
  · simp only [mLineString]; rfl
  · simp only [mPolygon]; rfl
  · simp only [mGColl]; rfl
  · simp only [mFColl]; rfl

theorem parseJSON_eq (rec : RecT) (o : POpts) (fuel : Nat) (hrec : RecOK rec o fuel)
    (ms : List Mem) (hk : KindHyps rec o fuel ms) (hfin : PolyFin ms)
    (hJg : ∀ items, (scanKeys ms).geometries = some (.arr items) → ∀ v ∈ items, JOK v = true)
    (hJf : ∀ items, (scanKeys ms).features = some (.arr items) → ∀ v ∈ items, JOK v = true) :
    AgreeU (PGen.parseJSON (mops rec) [Piece.doc (.obj ms)] (some (optsG o))) (parse o (fuel + 1) (.obj ms)) := by
  obtain ⟨gk, fm, rT, hf, hty, hrel⟩ := scan_keys rec ms
  unfold PGen.parseJSON
  have hfe : forEach (decodeObj [Piece.doc (JVal.obj ms)]) = ms.map memPair := rfl
  simp only [m_gjsonValid, m_gjsonParse, m_gjsonResultForEach, m_zeroParseKeys, m_nilBytes, m_zeroGjsonResult, m_bytesLen,
    m_bytesPush, m_strOfBytes, m_gjsonResultExists, m_gjsonResultType, m_gjsonString, m_gjsonTypeEq, m_gjsonResultString,
    m_strEq, m_strLit, m_nilObject, id, hfe, hf]
  have hdec : (decodeObj [Piece.doc (JVal.obj ms)]).isSome = true := rfl
  simp only [hdec, Bool.not_true, Bool.false_eq_true, if_false]
  have e125 : Char.ofNat (125 : UInt8).toNat = '}' := by decide
  -- the keys record after closing the members text
  have hkeys : (if decide (Int.ofNat (flat fm).length > 0) = true then
        (({ gk with members := fm ++ [Piece.ch (Char.ofNat (125 : UInt8).toNat)] } : GKeys), fm ++ [Piece.ch (Char.ofNat (125 : UInt8).toNat)])
      else (gk, fm)).1 = (if (flat fm).length > 0 then { gk with members := fm ++ [Piece.ch '}'] } else gk) := by
    by_cases h0 : (flat fm).length > 0
    · have : (Int.ofNat (flat fm).length > 0) := by rw [Int.ofNat_eq_natCast]; omega
      simp [h0, this, e125]
    · have : ¬ (Int.ofNat (flat fm).length > 0) := by rw [Int.ofNat_eq_natCast]; omega
      simp [h0, this]
  rw [hkeys]
  generalize (if (flat fm).length > 0 then ({ gk with members := fm ++ [Piece.ch '}'] } : GKeys) else gk) = K at hrel
  subst hty
  cases ht : (scanKeys ms).type with
  | none => rw [parse]; simp [ht, AgreeU, errU, errG]
  | some tv =>
    cases tv with
    | str raw ty =>
      have harm := parse_arm o fuel ms raw ty ht
      simp only [Option.isSome_some, Bool.not_true, Bool.false_eq_true, if_false, typeOf, decide_true, resString, strEq_lit]
      by_cases c1 : ty = "Point"
      · simp only [c1, decide_true, if_true]; rw [harm.1 c1]; exact (point_eq rec K o _ hrel).toU
      by_cases c2 : ty = "LineString"
      · simp only [c2, decide_true, if_true]; simp; rw [harm.2.1 c2]; exact (lineString_eq rec K o _ hrel).toU
      by_cases c3 : ty = "Polygon"
      · simp only [c3, decide_true, if_true]; simp; rw [harm.2.2.1 c3]; exact (polygon_eq rec K o _ hrel hfin).toU
      by_cases c4 : ty = "Feature"
      · subst c4; simp; exact hk.feature K raw ht hrel
      by_cases c5 : ty = "MultiPoint"
      · subst c5; simp; exact hk.multiPoint K raw ht hrel
      by_cases c6 : ty = "MultiLineString"
      · subst c6; simp; exact hk.multiLineString K raw ht hrel
      by_cases c7 : ty = "MultiPolygon"
      · subst c7; simp; exact hk.multiPolygon K raw ht hrel
      by_cases c8 : ty = "GeometryCollection"
      · simp only [c8, decide_true, if_true]; simp; rw [harm.2.2.2.1 c8]; exact gcoll_eq rec o fuel hrec K _ hrel hJg
      by_cases c9 : ty = "FeatureCollection"
      · simp only [c9, decide_true, if_true]; simp; rw [harm.2.2.2.2 c9]; exact fcoll_eq rec o fuel hrec K _ hrel hJf
      · have : parse o (fuel + 1) (.obj ms) = .error .typeUnknown := by
          rw [parse]; simp only [ht]
          all_goals (split <;> simp_all)
        rw [this]
        simp [c1, c2, c3, c4, c5, c6, c7, c8, c9, AgreeU, errU]
    | null => rw [parse]; simp [ht, AgreeU, errU, errG, typeOf]
    | tru => rw [parse]; simp [ht, AgreeU, errU, errG, typeOf]
    | fls => rw [parse]; simp [ht, AgreeU, errU, errG, typeOf]
    | num _ _ _ _ _ => rw [parse]; simp [ht, AgreeU, errU, errG, typeOf]
    | arr _ => rw [parse]; simp [ht, AgreeU, errU, errG, typeOf]
    | obj _ => rw [parse]; simp [ht, AgreeU, errU, errG, typeOf]

#print axioms parseJSON_eq

end Geo.PGlue
