/-
  The float bridge for `processPoints` (geometry/series.go).

  `Geo.SGen.processPoints` is GENERATED from the Go source by `translate series`
  (GeoModel/Generated/SeriesGen.lean, polymorphic in `KNum α`).  Evaluated at the exact binary64
  model `instKNumFQ : KNum FQ` (Float/KNumQ.lean) it is compared with the hand model
  `Geo.processPoints` (GeoModel/Series.lean; specified in Props/C18.lean).

  RESULTS (P = pts.map up, the points as finite doubles; pr = Geo.processPoints pts closed)
  * `sgen_processPoints_noPanic`   any `KNum α` (hardware `Float` included), any input: no index
                                   expression of processPoints is out of range.
  * `sgen_processPoints_rect`      ALL finite inputs: rect = pr.rect (comparisons only).
  * `sgen_processPoints_convex`    coordinates in E (k/16, |k| ≤ 2^24), ANY length: convex = pr.convex
                                   (the cross product is exact on E).
  * `sgen_processPoints_exact`     E and every exact partial sum of the clockwise accumulator
                                   below 2^45 in magnitude: all three results agree.
  * `sgen_processPoints_exact_of_bound`  coordinates k/16 with |k| ≤ B ≤ 2^24 and
                                   4·n·B² < 2^53 (n = number of points): all three results agree.
                                   E.g. geographic coordinates with 4 fractional bits
                                   (B = 2880): any ring of fewer than 2.7·10^8 points.
  All products and two-term sums being exact on E, a fused multiply-add for
  `cwc += (b.X-a.X)*(b.Y+a.Y)` (arm64, ppc64, s390x) gives the same values under the hypothesis
  of `sgen_processPoints_exact`.

  THE SIZE HYPOTHESIS IS NEEDED.  `cwc` is a running sum of terms up to 2^42; beyond 2^45 the
  partial sums are rounded to multiples of 2^-7 or coarser and the errors do not cancel.  Two
  rings of 40 vertices in E (self-overlapping: five clockwise turns around the square of side
  2^21, then five turns back; coordinates are the listed integers divided by 16) on which the
  binary64 sign test `cwc > 0` is wrong — replayed on the Go code and on the generated code at
  hardware floats:
    R1: exact sum +1/256 (clockwise), binary64 sum -1/256 (Go answers clockwise = false)
    R2: exact sum -1/256 (counter-clockwise), binary64 sum +1/256 (Go answers clockwise = true)
  (the vertex lists are in `ringR1`, `ringR2` below; `ringR1_sum`, `ringR2_sum` check the exact
  sums, `ringR1_partial` that the hypothesis of `sgen_processPoints_exact` indeed fails).
-/
import GeoProofs.Float.SGenProc

namespace Geo
open Geo.F Geo.F.SG

/-- Go's processPoints never indexes out of range — for every number model. -/
theorem sgen_processPoints_noPanic {α : Type} [KNum α] (P : Array (KPoint α)) (closed : Bool) :
    SGen.processPointsPanics P closed = false := noPanic P closed

private theorem zero_rect : ({ min := zpt FQ, max := zpt FQ } : KRect FQ) = upB ⟨⟨0, 0⟩, ⟨0, 0⟩⟩ := by
  simp [zpt, upB, up, kofNat_zero]

/-- the rectangle: every finite input -/
theorem sgen_processPoints_rect (pts : Array Pt) (closed : Bool) :
    (SGen.processPoints (pts.map up) closed).2.1 = upB (processPoints pts closed).rect := by
  unfold SGen.processPoints
  cases h : earlyH pts closed
  · obtain ⟨hn, hP⟩ := nverts_bounds pts closed h
    rw [gen_loop pts closed h, hand_loop pts closed h]
    exact gen_rect pts _ hn hP _ (le_refl _)
  · rw [aux_early (by rw [early_up]; exact h), hand_early pts closed h]
    exact zero_rect

/-- the convexity flag: coordinates in E, rings of any length -/
theorem sgen_processPoints_convex (pts : Array Pt) (closed : Bool)
    (hE : ∀ j, j < pts.size → PtE pts[j]!) :
    (SGen.processPoints (pts.map up) closed).1 = (processPoints pts closed).convex := by
  unfold SGen.processPoints
  cases h : earlyH pts closed
  · obtain ⟨hn, hP⟩ := nverts_bounds pts closed h
    rw [gen_loop pts closed h, hand_loop pts closed h]
    show (!_) = (!_)
    rw [(gen_dc pts _ hn hP (fun j hj => hE j (by omega)) _ (le_refl _)).1]
  · rw [aux_early (by rw [early_up]; exact h), hand_early pts closed h]

/-- all three results, when every exact partial sum of `cwc` stays below 2^45 -/
theorem sgen_processPoints_exact (pts : Array Pt) (closed : Bool)
    (hE : ∀ j, j < pts.size → PtE pts[j]!)
    (hS : ∀ m, m ≤ nverts pts closed → |csum pts (nverts pts closed) m| < 2 ^ 45) :
    SGen.processPoints (pts.map up) closed
      = ((processPoints pts closed).convex, upB (processPoints pts closed).rect,
          (processPoints pts closed).clockwise) := by
  unfold SGen.processPoints
  cases h : earlyH pts closed
  · obtain ⟨hn, hP⟩ := nverts_bounds pts closed h
    have hE' : ∀ j, j < nverts pts closed → PtE pts[j]! := fun j hj => hE j (by omega)
    rw [gen_loop pts closed h, hand_loop pts closed h]
    show (_, _, _) = (_, _, _)
    rw [(gen_dc pts _ hn hP hE' _ (le_refl _)).1, gen_rect pts _ hn hP _ (le_refl _),
      gen_cwc pts _ hn hP hE' _ (le_refl _) hS, hand_cwc, kofNat_zero, kgt_fin]
  · rw [aux_early (by rw [early_up]; exact h), hand_early pts closed h, zero_rect]

/-- all three results under an explicit bound: coordinates k/16 with |k| ≤ B ≤ 2^24 and
    4·(number of points)·B² < 2^53 -/
theorem sgen_processPoints_exact_of_bound (pts : Array Pt) (closed : Bool) (B : ℤ)
    (hB : B ≤ 2 ^ 24)
    (hD : ∀ j, j < pts.size → Dy 4 B pts[j]!.x ∧ Dy 4 B pts[j]!.y)
    (hN : 4 * (pts.size : ℤ) * B ^ 2 < 2 ^ 53) :
    SGen.processPoints (pts.map up) closed
      = ((processPoints pts closed).convex, upB (processPoints pts closed).rect,
          (processPoints pts closed).clockwise) := by
  have hE : ∀ j, j < pts.size → PtE pts[j]! :=
    fun j hj => ⟨(hD j hj).1.mono hB, (hD j hj).2.mono hB⟩
  cases h : earlyH pts closed
  · obtain ⟨hn, hP⟩ := nverts_bounds pts closed h
    exact sgen_processPoints_exact pts closed hE
      (fun m hm => csum_bound pts _ hn hP B hD hN m hm)
  · unfold SGen.processPoints
    rw [aux_early (by rw [early_up]; exact h), hand_early pts closed h, zero_rect]

/-! ### the size hypothesis is needed: two rings in E with the wrong binary64 sign -/

/-- vertex list in units of 1/16 -/
def ringOf (l : List (Int × Int)) : Array Pt :=
  (l.map fun p => (⟨(p.1 : ℚ) / 16, (p.2 : ℚ) / 16⟩ : Pt)).toArray

/-- the same vertices as hardware doubles -/
def ringOfFloat (l : List (Int × Int)) : Array (KPoint Float) :=
  (l.map fun p => (⟨Float.ofInt p.1 / 16, Float.ofInt p.2 / 16⟩ : KPoint Float)).toArray

def ringR1 : List (Int × Int) :=
  [
    (-16777215, 16777216), (16777216, 16777214), (16777214, -16777214), (-16777216, -16777216),
    (-16777214, 16777215), (16777214, 16777215), (16777214, -16777214), (-16777215, -16777215),
    (-16777214, 16777214), (16777216, 16777214), (16777214, -16777216), (-16777214, -16777216),
    (-16777214, 16777216), (16777216, 16777214), (16777214, -16777215), (-16777215, -16777216),
    (-16777215, 16777215), (16777215, 16777215), (16777214, -16777216), (-16777216, -16777214),
    (-16777215, -16777214), (16777215, -16777214), (16777216, 16777216), (-16777216, 16777215),
    (-16777216, -16777214), (16777216, -16777214), (16777214, 16777214), (-16777214, 16777214),
    (-16777215, -16777215), (16777215, -16777214), (16777214, 16777215), (-16777214, 16777215),
    (-16777216, -16777215), (16777214, -16777216), (16777216, 16777216), (-16777214, 16777215),
    (-16777214, -16777214), (16777214, -16777215), (16777215, 16777216), (-16777214, 16777215) ]

def ringR2 : List (Int × Int) :=
  [
    (-16777214, 16777215), (16777216, 16777214), (16777215, -16777216), (-16777216, -16777216),
    (-16777216, 16777215), (16777215, 16777214), (16777216, -16777215), (-16777216, -16777214),
    (-16777216, 16777215), (16777215, 16777216), (16777215, -16777216), (-16777214, -16777216),
    (-16777214, 16777215), (16777215, 16777214), (16777214, -16777214), (-16777216, -16777216),
    (-16777214, 16777214), (16777214, 16777214), (16777216, -16777215), (-16777214, -16777216),
    (-16777216, -16777216), (16777215, -16777215), (16777216, 16777214), (-16777215, 16777216),
    (-16777216, -16777215), (16777214, -16777215), (16777215, 16777214), (-16777216, 16777215),
    (-16777216, -16777215), (16777214, -16777215), (16777215, 16777214), (-16777215, 16777214),
    (-16777216, -16777215), (16777214, -16777216), (16777216, 16777215), (-16777216, 16777214),
    (-16777214, -16777215), (16777215, -16777216), (16777215, 16777215), (-16777216, 16777216) ]

/-- in E -/
theorem ringR1_E : ∀ p ∈ ringR1 ++ ringR2, p.1.natAbs ≤ 2 ^ 24 ∧ p.2.natAbs ≤ 2 ^ 24 := by decide

/-- the exact model: R1 is clockwise (sum +1/256), R2 is not (sum -1/256) -/
theorem ringR1_sum : csum (ringOf ringR1) 40 40 = 1 / 256
    ∧ (processPoints (ringOf ringR1) true).clockwise = true := by decide +kernel
theorem ringR2_sum : csum (ringOf ringR2) 40 40 = -1 / 256
    ∧ (processPoints (ringOf ringR2) true).clockwise = false := by decide +kernel

/-- the hypothesis of `sgen_processPoints_exact` fails on them: after 20 iterations the partial
    sum is about 1.25·2^45 -/
theorem ringR1_partial : ¬ |csum (ringOf ringR1) 40 20| < 2 ^ 45 := by decide +kernel
theorem ringR2_partial : ¬ |csum (ringOf ringR2) 40 20| < 2 ^ 45 := by decide +kernel

-- the generated code on hardware binary64 gives the opposite answers (so does the Go code)
#guard (SGen.processPoints (ringOfFloat ringR1) true).2.2 == false
#guard (SGen.processPoints (ringOfFloat ringR2) true).2.2 == true

end Geo

#print axioms Geo.sgen_processPoints_noPanic
#print axioms Geo.sgen_processPoints_rect
#print axioms Geo.sgen_processPoints_convex
#print axioms Geo.sgen_processPoints_exact
#print axioms Geo.sgen_processPoints_exact_of_bound
#print axioms Geo.ringR1_sum
#print axioms Geo.ringR2_sum
#print axioms Geo.ringR1_partial
#print axioms Geo.ringR2_partial
