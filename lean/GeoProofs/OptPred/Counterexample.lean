/-
  GeoProofs.OptPred.Counterexample — the ring side condition of `parse_index_opts_contains`
  cannot be dropped: the pinched polygon `ring17` of IndexIndep/RealRTree.lean as a DOCUMENT,
  parsed without index and with `IndexGeometryKind = RTree, IndexGeometry = 1`, against the
  line string `[[32,0],[64,48]]`: `contains` answers `false` resp. `true`.
-/
import GeoProofs.OptPred.Examples

namespace Geo

/-- `{"type":"Polygon","coordinates":[[[0,0],[8,0],[16,0],[24,0],[64,0],[64,64],[62,58],[60,52],
    [58,46],[54,34],[48,16],[32,0],[28,8],[24,16],[20,24],[12,40],[0,64],[0,0]]]}` -/
def docPoly17 : JVal :=
  .obj [jmem "type" (jstr "Polygon"),
    jmem "coordinates" (.arr [.arr [
      .arr [jnum (0) "0", jnum (0) "0"], .arr [jnum (8) "8", jnum (0) "0"],
      .arr [jnum (16) "16", jnum (0) "0"], .arr [jnum (24) "24", jnum (0) "0"],
      .arr [jnum (64) "64", jnum (0) "0"], .arr [jnum (64) "64", jnum (64) "64"],
      .arr [jnum (62) "62", jnum (58) "58"], .arr [jnum (60) "60", jnum (52) "52"],
      .arr [jnum (58) "58", jnum (46) "46"], .arr [jnum (54) "54", jnum (34) "34"],
      .arr [jnum (48) "48", jnum (16) "16"], .arr [jnum (32) "32", jnum (0) "0"],
      .arr [jnum (28) "28", jnum (8) "8"], .arr [jnum (24) "24", jnum (16) "16"],
      .arr [jnum (20) "20", jnum (24) "24"], .arr [jnum (12) "12", jnum (40) "40"],
      .arr [jnum (0) "0", jnum (64) "64"], .arr [jnum (0) "0", jnum (0) "0"]]])]

def ring17pos : List Pos := [
    pz (0) (0) "0" "0", pz (8) (0) "8" "0", pz (16) (0) "16" "0",
    pz (24) (0) "24" "0", pz (64) (0) "64" "0", pz (64) (64) "64" "64",
    pz (62) (58) "62" "58", pz (60) (52) "60" "52", pz (58) (46) "58" "46",
    pz (54) (34) "54" "34", pz (48) (16) "48" "16", pz (32) (0) "32" "0",
    pz (28) (8) "28" "8", pz (24) (16) "24" "16", pz (20) (24) "20" "24",
    pz (12) (40) "12" "40", pz (0) (64) "0" "64", pz (0) (0) "0" "0"]

/-- `{"type":"LineString","coordinates":[[32,0],[64,48]]}` -/
def docLine17 : JVal :=
  .obj [jmem "type" (jstr "LineString"),
    jmem "coordinates" (.arr [.arr [jnum (32) "32", jnum (0) "0"], .arr [jnum (64) "64", jnum (48) "48"]])]

def line17pos : List Pos := [pz (32) (0) "32" "0", pz (64) (48) "64" "48"]

theorem parse_docPoly17 (o : POpts) (ho : o.requireValid = false) (hr : o.allowRects = false) :
    parseTop o docPoly17 = .ok (.polygon (mkPoly o [ring17pos]) [ring17pos] none) := by
  obtain ⟨ic, ig, ik, rv, sp, dc, ar⟩ := o
  simp only at ho hr
  subst ho hr
  show parse _ (4+1) (.obj _) = _
  rw [parse_succ_obj]
  rfl

theorem parse_docLine17 (o : POpts) (ho : o.requireValid = false) :
    parseTop o docLine17 = .ok (.lineString (mkLine o line17pos) line17pos none) := by
  obtain ⟨ic, ig, ik, rv, sp, dc, ar⟩ := o
  simp only at ho
  subst ho
  show parse _ (3+1) (.obj _) = _
  rw [parse_succ_obj]
  rfl

theorem ptsOf_ring17pos : ptsOf ring17pos = ring17 := by decide +kernel
theorem ptsOf_line17pos : ptsOf line17pos = #[seg17.a, seg17.b] := by decide +kernel

end Geo

namespace Geo

def optsNone : POpts := { indexKind := .none, indexGeometry := 0 }
def optsRTree1 : POpts := { indexKind := .rtree, indexGeometry := 1 }

/-- the parsed polygon against the parsed line is `poly17 … .contains line17` of RealRTree.lean -/
theorem obj17_contains (o : POpts) :
    (Obj.polygon (mkPoly o [ring17pos]) [ring17pos] none).contains
      (.lineString (mkLine optsNone line17pos) line17pos none) =
    (poly17 o.indexKind o.indexGeometry).contains line17 := by
  simp only [Obj.contains, Obj.withinPoly]
  unfold mkPoly mkLine poly17 line17
  simp only [ptsOf_ring17pos, ptsOf_line17pos, List.map_nil]
  rfl

theorem poly17_dyadicSized (o : POpts) :
    (Obj.polygon (mkPoly o [ring17pos]) [ring17pos] none).DyadicSized := by
  constructor
  · intro e he; cases he
    show (mkSeries (ptsOf ring17pos) true _ _).DyadicSized
    rw [ptsOf_ring17pos]
    exact ⟨(by decide +kernel : ring17.size < 2 ^ 32),
      (by decide +kernel : (qBytesOf ring17 true).size < 2 ^ 32),
      (by decide +kernel : (rBytesOf ring17 true).size < 2 ^ 32), ring17_dyadic⟩
  · intro r hr; cases hr

theorem line17_dyadicSized (o : POpts) :
    (Obj.lineString (mkLine o line17pos) line17pos none).DyadicSized :=
  ⟨(by decide +kernel : (ptsOf line17pos).size < 2 ^ 32),
    (by decide +kernel : (qBytesOf (ptsOf line17pos) false).size < 2 ^ 32),
    (by decide +kernel : (rBytesOf (ptsOf line17pos) false).size < 2 ^ 32),
    dyadic_of_int_pts (ptsOf line17pos) (by decide +kernel)⟩

/-- **FINDING (Parse level)**: `IndexGeometryKind`/`IndexGeometry` DO change a `contains` answer.
    Document `docPoly17` (a polygon whose vertex (32,0) touches the interior of its own edge
    (24,0)-(64,0)) parsed with `{IndexGeometryKind: None}` does not contain the line string
    `[[32,0],[64,48]]` (correct: the line crosses the notch at (48,16)); parsed with
    `{IndexGeometryKind: RTree, IndexGeometry: 1}` it does.  All coordinates are small integers,
    both parses succeed, the objects are `ObsEq`, all searches are exact; only `ExtSafe` fails. -/
theorem parse_contains_rtree_vs_none :
    ∃ a a' b, parseTop optsNone docPoly17 = .ok a ∧ parseTop optsRTree1 docPoly17 = .ok a' ∧
      parseTop optsNone docLine17 = .ok b ∧ SameButIndex optsNone optsRTree1 ∧ ObsEq a a' ∧
      a.DyadicSized ∧ b.DyadicSized ∧ a.SearchOK ∧ a'.SearchOK ∧ b.SearchOK ∧
      a.contains b = false ∧ a'.contains b = true ∧ b.within a = false ∧ b.within a' = true := by
  have h : SameButIndex optsNone optsRTree1 := ⟨rfl, rfl, rfl, rfl⟩
  have pa := parse_docPoly17 optsNone rfl rfl
  have pa' := parse_docPoly17 optsRTree1 rfl rfl
  have pb := parse_docLine17 optsNone rfl
  have e := index_opts_obsEq _ _ h _ _ _ _ pa pa'
  have c1 : (Obj.polygon (mkPoly optsNone [ring17pos]) [ring17pos] none).contains
      (.lineString (mkLine optsNone line17pos) line17pos none) = false := by
    rw [obj17_contains]; exact geom_contains_rtree_vs_none.1
  have c2 : (Obj.polygon (mkPoly optsRTree1 [ring17pos]) [ring17pos] none).contains
      (.lineString (mkLine optsNone line17pos) line17pos none) = true := by
    rw [obj17_contains]; exact geom_contains_rtree_vs_none.2
  exact ⟨_, _, _, pa, pa', pb, h, e, poly17_dyadicSized _, line17_dyadicSized _,
    Obj.Dyadic.searchOK ⟨parse_built pa, poly17_dyadicSized _⟩,
    Obj.Dyadic.searchOK ⟨parse_built pa', poly17_dyadicSized _⟩,
    Obj.Dyadic.searchOK ⟨parse_built pb, line17_dyadicSized _⟩, c1, c2, c1, c2⟩

end Geo
