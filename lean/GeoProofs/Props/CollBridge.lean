/-
  GeoProofs.Props.CollBridge — the methods of `*collection` (collection.go: Indexed, Children,
  ForEach, Base, Search, Empty, Valid, Rect, Center, Within, Contains, Spatial, Within{Rect,Point,
  Line,Poly}, Intersects, Intersects{Point,Rect,Line,Poly}, NumPoints, Distance*, Members),
  REGENERATED from the current Go source (GeoModel/Generated/CollGen.lean, `translate collection`)
  and instantiated with the hand model GeoModel/Object.lean (`CGlue.mops`, Glue/CollGlue.lean),
  compute the model's functions on `Obj.coll kind children ex indexed`.

  Instantiation: Object := Spatial := Obj, the interface methods := the model's `Obj.*` functions,
  geometry.Rect/Point/*Line/*Poly := Box/Pt/Line/Poly; *collection := `MColl` (the arguments of
  `Obj.coll` + the child R-tree); the fields `pempty` / `prect` := the model's `empty` / `rect`
  (parseInitRectIndex writes them; bridged by the parsers translator).
  ASSUMED (`TreeOK c`, only used when `c.indexed`): `g.tree.Search(min, max, iter)` offers the
  iterator, in SOME order, a permutation of `searchChildren c.children q` — the contract of
  tidwall/rtree (an external library) together with the inserts of parseInitRectIndex.
  Also assumed by the translation (see the header of CollGen.lean): `obj.ForEach(iter)` offers a
  fixed list and answers false iff the iterator stopped it; callees are pure.

  `Valid`: collection.go's `Valid` is `Rect().Valid()`; MultiLineString and MultiPolygon OVERRIDE it
  (multilinestring.go, multipolygon.go — not part of collection.go), which is why the model's
  `Obj.valid` differs from `boxValid rect` on those two kinds (`valid_bridge` is stated for the
  other three).

  Recursion through the interfaces (children's Contains / Intersects / ForEach / NumPoints /
  Spatial methods): `model_solves` = the model satisfies the generated equations;
  `solves_unique` = any dispatch that satisfies them (and is the model on the atoms, forwards on
  Features) IS the model.
-/
import GeoProofs.Glue.CollGlue

namespace Geo.CollBridge
open Geo Geo.CGen Geo.CGlue Geo.Obj

variable (dist : Pt → Pt → Rat) (sdist : Obj → Pt → Rat)

/-- the generated methods with every interface call dispatched to the hand model -/
abbrev mops := mopsD Disp.model dist sdist

variable (c : MColl)

theorem indexed_bridge : collectionIndexed (mops dist sdist) c = c.indexed := indexed_eq _ _ _ c
theorem children_bridge : collectionChildren (mops dist sdist) c = c.children := rfl
theorem base_bridge : collectionBase (mops dist sdist) c = c.children := rfl
theorem empty_bridge : collectionEmpty (mops dist sdist) c = c.obj.empty := rfl
theorem rect_bridge : collectionRect (mops dist sdist) c = c.obj.rect := rfl
theorem center_bridge : collectionCenter (mops dist sdist) c = c.obj.center := center_eq _ _ _ c
theorem spatial_bridge : collectionSpatial (mops dist sdist) c = c.obj := rfl
theorem members_bridge : collectionMembers (mops dist sdist) c
    = (match c.ex with | some e => e.members | none => "") := members_eq _ _ _ c

/-- `Valid` of collection.go is the validity of the rectangle; it is the model's `valid` for the
    kinds that do not override it -/
theorem valid_bridge (hk : c.kind ≠ .multiLineString ∧ c.kind ≠ .multiPolygon) :
    collectionValid (mops dist sdist) c = c.obj.valid := by
  rw [valid_eq]
  obtain ⟨k, cs, ex, idx, t⟩ := c
  cases k <;> simp_all [MColl.obj, Obj.valid]

/-- `ForEach` = `iterate` over the model's leaves (document order), result = not stopped -/
theorem forEach_bridge {σ : Type} (iter : Obj → σ → σ × Bool) (s : σ) :
    collectionForEach (mops dist sdist) c iter s = iterate iter c.obj.leaves s :=
  forEach_eq _ _ _ c (fun _ _ => rfl) iter s

/-- `Search` = `iterate` over the model's `searchChildren` (in child order when not indexed, in
    the R-tree's order — a permutation — when indexed) -/
theorem search_bridge (hT : TreeOK c) (q : Box) {σ : Type} (iter : Obj → σ → σ × Bool) (s : σ) :
    ∃ l : List Obj, l.Perm (searchChildren c.children q) ∧
      (c.indexed = false → l = searchChildren c.children q) ∧
      collectionSearch (mops dist sdist) c q iter s = (iterate iter l s).1 :=
  search_eq _ _ _ c hT q iter s

theorem numPoints_bridge : collectionNumPoints (mops dist sdist) c = Int.ofNat c.obj.numPoints :=
  numPoints_eq _ _ _ c (fun _ _ => rfl)

theorem within_bridge (x : Obj) : collectionWithin (mops dist sdist) c x = c.obj.within x :=
  within_eq _ _ _ c x rfl

theorem contains_bridge (hT : TreeOK c) (x : Obj) :
    collectionContains (mops dist sdist) c x = c.obj.contains x :=
  contains_eq _ _ _ c hT (fun _ _ _ => rfl) x rfl

theorem intersects_bridge (hT : TreeOK c) (x : Obj) :
    collectionIntersects (mops dist sdist) c x = c.obj.intersects x :=
  intersects_eq _ _ _ c hT (fun _ _ _ => rfl) x rfl

theorem withinRect_bridge (hT : TreeOK c) (r : Box) :
    collectionWithinRect (mops dist sdist) c r = c.obj.withinRect r :=
  withinRect_eq _ _ _ c hT (fun _ _ _ => rfl) r
theorem withinPoint_bridge (hT : TreeOK c) (q : Pt) :
    collectionWithinPoint (mops dist sdist) c q = c.obj.withinPoint q :=
  withinPoint_eq _ _ _ c hT (fun _ _ _ => rfl) q
theorem withinLine_bridge (hT : TreeOK c) (l : Line) :
    collectionWithinLine (mops dist sdist) c l = c.obj.withinLine l :=
  withinLine_eq _ _ _ c hT (fun _ _ _ => rfl) l
theorem withinPoly_bridge (hT : TreeOK c) (p : Poly) :
    collectionWithinPoly (mops dist sdist) c p = c.obj.withinPoly p :=
  withinPoly_eq _ _ _ c hT (fun _ _ _ => rfl) p
theorem intersectsRect_bridge (hT : TreeOK c) (r : Box) :
    collectionIntersectsRect (mops dist sdist) c r = c.obj.intersectsRect r :=
  intersectsRect_eq _ _ _ c hT (fun _ _ _ => rfl) r
theorem intersectsPoint_bridge (hT : TreeOK c) (q : Pt) :
    collectionIntersectsPoint (mops dist sdist) c q = c.obj.intersectsPoint q :=
  intersectsPoint_eq _ _ _ c hT (fun _ _ _ => rfl) q
theorem intersectsLine_bridge (hT : TreeOK c) (l : Line) :
    collectionIntersectsLine (mops dist sdist) c l = c.obj.intersectsLine l :=
  intersectsLine_eq _ _ _ c hT (fun _ _ _ => rfl) l
theorem intersectsPoly_bridge (hT : TreeOK c) (p : Poly) :
    collectionIntersectsPoly (mops dist sdist) c p = c.obj.intersectsPoly p :=
  intersectsPoly_eq _ _ _ c hT (fun _ _ _ => rfl) p

/-- the Distance* methods measure from the centre of the rectangle (geo distance uninterpreted) -/
theorem distance_bridge (x : Obj) (q : Pt) (r : Box) (l : Line) (p : Poly) :
    collectionDistance (mops dist sdist) c x = sdist x c.obj.center ∧
    collectionDistancePoint (mops dist sdist) c q = dist c.obj.center q ∧
    collectionDistanceRect (mops dist sdist) c r = dist c.obj.center r.center ∧
    collectionDistanceLine (mops dist sdist) c l = dist c.obj.center l.rect.center ∧
    collectionDistancePoly (mops dist sdist) c p = dist c.obj.center p.rect.center :=
  ⟨distance_eq _ _ _ c x, distancePoint_eq _ _ _ c q, distanceRect_eq _ _ _ c r,
    distanceLine_eq _ _ _ c l, distancePoly_eq _ _ _ c p⟩

/-- an indexed and a non-indexed collection with the same children: every predicate agrees (the
    index is invisible), given the R-tree contract -/
theorem indexed_invisible (c' : MColl) (hT : TreeOK c) (hT' : TreeOK c')
    (hk : c'.kind = c.kind) (hc : c'.children = c.children) (he : c'.ex = c.ex) (x : Obj) (r : Box) :
    collectionContains (mops dist sdist) c' x = collectionContains (mops dist sdist) c x ∧
    collectionIntersects (mops dist sdist) c' x = collectionIntersects (mops dist sdist) c x ∧
    collectionWithinRect (mops dist sdist) c' r = collectionWithinRect (mops dist sdist) c r ∧
    collectionIntersectsRect (mops dist sdist) c' r = collectionIntersectsRect (mops dist sdist) c r := by
  rw [contains_bridge _ _ c' hT', contains_bridge _ _ c hT, intersects_bridge _ _ c' hT',
    intersects_bridge _ _ c hT, withinRect_bridge _ _ c' hT', withinRect_bridge _ _ c hT,
    intersectsRect_bridge _ _ c' hT', intersectsRect_bridge _ _ c hT]
  obtain ⟨k, cs, ex, idx, t⟩ := c
  obtain ⟨k', cs', ex', idx', t'⟩ := c'
  simp only at hk hc he
  subst hk hc he
  simp [MColl.obj, Obj.contains, Obj.intersects, Obj.withinRect, Obj.intersectsRect, Obj.empty]
  exact ⟨rfl, rfl⟩

/-! ### the generated recursion equations determine the model -/

/-- the collection value behind `Obj.coll …`, with the model's filter as its R-tree -/
def collOf (k : CollKind) (cs : List Obj) (ex : Option Extra) (idx : Bool) : MColl :=
  ⟨k, cs, ex, idx, fun q => searchChildren cs q⟩

theorem collOf_ok (k : CollKind) (cs : List Obj) (ex : Option Extra) (idx : Bool) :
    TreeOK (collOf k cs ex idx) := fun _ _ => List.Perm.refl _

/-- `d` solves the generated equations: on every collection value each dispatched method is the
    generated method with the children dispatched through `d` itself; on a Feature it forwards to
    the base (ForEach offers the Feature itself), on the atoms it is the model -/
structure Solves (d : Disp) : Prop where
  coll : ∀ c : MColl, TreeOK c →
    (∀ {σ : Type} (iter : Obj → σ → σ × Bool) (s : σ),
      iterate iter (d.forEach c.obj) s = collectionForEach (mopsD d dist sdist) c iter s) ∧
    (Int.ofNat (d.numPoints c.obj) = collectionNumPoints (mopsD d dist sdist) c) ∧
    (∀ x, d.contains c.obj x = collectionContains (mopsD d dist sdist) c x) ∧
    (∀ x, d.intersects c.obj x = collectionIntersects (mopsD d dist sdist) c x) ∧
    (∀ r, d.withinRect c.obj r = collectionWithinRect (mopsD d dist sdist) c r) ∧
    (∀ q, d.withinPoint c.obj q = collectionWithinPoint (mopsD d dist sdist) c q) ∧
    (∀ l, d.withinLine c.obj l = collectionWithinLine (mopsD d dist sdist) c l) ∧
    (∀ p, d.withinPoly c.obj p = collectionWithinPoly (mopsD d dist sdist) c p) ∧
    (∀ r, d.intersectsRect c.obj r = collectionIntersectsRect (mopsD d dist sdist) c r) ∧
    (∀ q, d.intersectsPoint c.obj q = collectionIntersectsPoint (mopsD d dist sdist) c q) ∧
    (∀ l, d.intersectsLine c.obj l = collectionIntersectsLine (mopsD d dist sdist) c l) ∧
    (∀ p, d.intersectsPoly c.obj p = collectionIntersectsPoly (mopsD d dist sdist) c p)
  feature : ∀ b ex,
    d.forEach (.feature b ex) = [.feature b ex] ∧
    d.numPoints (.feature b ex) = d.numPoints b ∧
    (∀ x, d.contains (.feature b ex) x = d.contains b x) ∧
    (∀ x, d.intersects (.feature b ex) x = d.intersects b x) ∧
    (∀ r, d.withinRect (.feature b ex) r = d.withinRect b r) ∧
    (∀ q, d.withinPoint (.feature b ex) q = d.withinPoint b q) ∧
    (∀ l, d.withinLine (.feature b ex) l = d.withinLine b l) ∧
    (∀ p, d.withinPoly (.feature b ex) p = d.withinPoly b p) ∧
    (∀ r, d.intersectsRect (.feature b ex) r = d.intersectsRect b r) ∧
    (∀ q, d.intersectsPoint (.feature b ex) q = d.intersectsPoint b q) ∧
    (∀ l, d.intersectsLine (.feature b ex) l = d.intersectsLine b l) ∧
    (∀ p, d.intersectsPoly (.feature b ex) p = d.intersectsPoly b p)
  atom : ∀ a, a.isAtom = true →
    d.forEach a = [a] ∧
    d.numPoints a = a.numPoints ∧
    (∀ x, d.contains a x = a.contains x) ∧
    (∀ x, d.intersects a x = a.intersects x) ∧
    (∀ r, d.withinRect a r = a.withinRect r) ∧
    (∀ q, d.withinPoint a q = a.withinPoint q) ∧
    (∀ l, d.withinLine a l = a.withinLine l) ∧
    (∀ p, d.withinPoly a p = a.withinPoly p) ∧
    (∀ r, d.intersectsRect a r = a.intersectsRect r) ∧
    (∀ q, d.intersectsPoint a q = a.intersectsPoint q) ∧
    (∀ l, d.intersectsLine a l = a.intersectsLine l) ∧
    (∀ p, d.intersectsPoly a p = a.intersectsPoly p)

/-- the model satisfies the recursion equations of the generated methods -/
theorem model_solves : Solves dist sdist Disp.model where
  coll := fun c hT =>
    ⟨fun iter s => (forEach_bridge dist sdist c iter s).symm, (numPoints_bridge dist sdist c).symm,
     fun x => (contains_bridge dist sdist c hT x).symm, fun x => (intersects_bridge dist sdist c hT x).symm,
     fun r => (withinRect_bridge dist sdist c hT r).symm, fun q => (withinPoint_bridge dist sdist c hT q).symm,
     fun l => (withinLine_bridge dist sdist c hT l).symm, fun p => (withinPoly_bridge dist sdist c hT p).symm,
     fun r => (intersectsRect_bridge dist sdist c hT r).symm, fun q => (intersectsPoint_bridge dist sdist c hT q).symm,
     fun l => (intersectsLine_bridge dist sdist c hT l).symm, fun p => (intersectsPoly_bridge dist sdist c hT p).symm⟩
  feature := fun b ex =>
    ⟨by simp [Disp.model, Obj.leaves], by simp [Disp.model, Obj.numPoints],
     fun x => by simp only [Disp.model]; rw [Obj.contains], fun x => by simp only [Disp.model]; rw [Obj.intersects],
     fun r => by simp only [Disp.model]; rw [Obj.withinRect], fun q => by simp only [Disp.model]; rw [Obj.withinPoint],
     fun l => by simp only [Disp.model]; rw [Obj.withinLine], fun p => by simp only [Disp.model]; rw [Obj.withinPoly],
     fun r => by simp only [Disp.model]; rw [Obj.intersectsRect],
     fun q => by simp only [Disp.model]; rw [Obj.intersectsPoint],
     fun l => by simp only [Disp.model]; rw [Obj.intersectsLine],
     fun p => by simp only [Disp.model]; rw [Obj.intersectsPoly]⟩
  atom := fun a ha =>
    ⟨atom_leaves ha, rfl, fun _ => rfl, fun _ => rfl, fun _ => rfl, fun _ => rfl, fun _ => rfl, fun _ => rfl,
     fun _ => rfl, fun _ => rfl, fun _ => rfl, fun _ => rfl⟩

theorem iterate_collect (l acc : List Obj) :
    iterate (fun x (acc : List Obj) => (acc ++ [x], true)) l acc = (acc ++ l, true) := by
  induction l generalizing acc with
  | nil => simp [iterate_nil]
  | cons x xs ih => rw [iterate_cons]; simp [ih]

/-- a list is determined by what `iterate` does over it -/
theorem eq_of_iterate_eq {l l' : List Obj}
    (h : ∀ {σ : Type} (iter : Obj → σ → σ × Bool) (s : σ), iterate iter l s = iterate iter l' s) : l = l' := by
  have := h (fun x (acc : List Obj) => (acc ++ [x], true)) []
  rw [iterate_collect, iterate_collect] at this
  simpa using congrArg Prod.fst this

/-- a predicate method is determined by its three kinds of equations -/
theorem unique_gen {α : Type} (m M : Obj → α → Bool)
    (hcoll : ∀ k cs ex idx, (∀ ch ∈ cs, ∀ a, m ch a = M ch a) →
      ∀ a, m (.coll k cs ex idx) a = M (.coll k cs ex idx) a)
    (hfeat : ∀ b ex a, m (.feature b ex) a = m b a) (hfeatM : ∀ b ex a, M (.feature b ex) a = M b a)
    (hatom : ∀ o, o.isAtom = true → ∀ a, m o a = M o a) : ∀ o a, m o a = M o a := by
  intro o
  induction o using Obj.ind' with
  | hatom a ha => exact hatom a ha
  | hfeat b ex ih => intro a; rw [hfeat, hfeatM, ih]
  | hcoll k cs ex idx ih => exact hcoll k cs ex idx ih

variable {dist sdist}

theorem solves_forEach {d : Disp} (h : Solves dist sdist d) : ∀ o, d.forEach o = o.leaves := by
  intro o
  induction o using Obj.ind' with
  | hatom a ha => rw [(h.atom a ha).1, atom_leaves ha]
  | hfeat b ex _ => rw [(h.feature b ex).1]; simp [Obj.leaves]
  | hcoll k cs ex idx ih =>
    apply eq_of_iterate_eq
    intro σ iter s
    have h1 := (h.coll (collOf k cs ex idx) (collOf_ok k cs ex idx)).1 iter s
    have h2 := forEach_eq d dist sdist (collOf k cs ex idx) ih iter s
    exact h1.trans h2

theorem solves_numPoints {d : Disp} (h : Solves dist sdist d) : ∀ o, d.numPoints o = o.numPoints := by
  intro o
  induction o using Obj.ind' with
  | hatom a ha => exact (h.atom a ha).2.1
  | hfeat b ex ih => rw [(h.feature b ex).2.1, ih]; simp [Obj.numPoints]
  | hcoll k cs ex idx ih =>
    have h1 := (h.coll (collOf k cs ex idx) (collOf_ok k cs ex idx)).2.1
    have h2 := numPoints_eq d dist sdist (collOf k cs ex idx) ih
    have := h1.trans h2
    simp only [Int.ofNat_eq_natCast, Int.natCast_inj] at this
    exact this

/-- UNIQUENESS: a dispatch that satisfies the generated equations is the model -/
theorem solves_unique {d : Disp} (h : Solves dist sdist d) : d = Disp.model := by
  have hfe := solves_forEach h
  have hnp := solves_numPoints h
  have C := fun k cs ex idx => h.coll (collOf k cs ex idx) (collOf_ok k cs ex idx)
  have ok := collOf_ok
  have hco : ∀ o x, d.contains o x = o.contains x :=
    unique_gen d.contains Obj.contains
      (fun k cs ex idx ih x => ((C k cs ex idx).2.2.1 x).trans
        (contains_eq d dist sdist (collOf k cs ex idx) (ok k cs ex idx) ih x (hfe x)))
      (fun b ex => (h.feature b ex).2.2.1) (fun b ex x => by rw [Obj.contains])
      (fun a ha => (h.atom a ha).2.2.1)
  have hin : ∀ o x, d.intersects o x = o.intersects x :=
    unique_gen d.intersects Obj.intersects
      (fun k cs ex idx ih x => ((C k cs ex idx).2.2.2.1 x).trans
        (intersects_eq d dist sdist (collOf k cs ex idx) (ok k cs ex idx) ih x (hfe x)))
      (fun b ex => (h.feature b ex).2.2.2.1) (fun b ex x => by rw [Obj.intersects])
      (fun a ha => (h.atom a ha).2.2.2.1)
  have hwr : ∀ o r, d.withinRect o r = o.withinRect r :=
    unique_gen d.withinRect Obj.withinRect
      (fun k cs ex idx ih r => ((C k cs ex idx).2.2.2.2.1 r).trans
        (withinRect_eq d dist sdist (collOf k cs ex idx) (ok k cs ex idx) ih r))
      (fun b ex => (h.feature b ex).2.2.2.2.1) (fun b ex x => by rw [Obj.withinRect])
      (fun a ha => (h.atom a ha).2.2.2.2.1)
  have hwp : ∀ o q, d.withinPoint o q = o.withinPoint q :=
    unique_gen d.withinPoint Obj.withinPoint
      (fun k cs ex idx ih q => ((C k cs ex idx).2.2.2.2.2.1 q).trans
        (withinPoint_eq d dist sdist (collOf k cs ex idx) (ok k cs ex idx) ih q))
      (fun b ex => (h.feature b ex).2.2.2.2.2.1) (fun b ex x => by rw [Obj.withinPoint])
      (fun a ha => (h.atom a ha).2.2.2.2.2.1)
  have hwl : ∀ o l, d.withinLine o l = o.withinLine l :=
    unique_gen d.withinLine Obj.withinLine
      (fun k cs ex idx ih l => ((C k cs ex idx).2.2.2.2.2.2.1 l).trans
        (withinLine_eq d dist sdist (collOf k cs ex idx) (ok k cs ex idx) ih l))
      (fun b ex => (h.feature b ex).2.2.2.2.2.2.1) (fun b ex x => by rw [Obj.withinLine])
      (fun a ha => (h.atom a ha).2.2.2.2.2.2.1)
  have hwq : ∀ o p, d.withinPoly o p = o.withinPoly p :=
    unique_gen d.withinPoly Obj.withinPoly
      (fun k cs ex idx ih p => ((C k cs ex idx).2.2.2.2.2.2.2.1 p).trans
        (withinPoly_eq d dist sdist (collOf k cs ex idx) (ok k cs ex idx) ih p))
      (fun b ex => (h.feature b ex).2.2.2.2.2.2.2.1) (fun b ex x => by rw [Obj.withinPoly])
      (fun a ha => (h.atom a ha).2.2.2.2.2.2.2.1)
  have hir : ∀ o r, d.intersectsRect o r = o.intersectsRect r :=
    unique_gen d.intersectsRect Obj.intersectsRect
      (fun k cs ex idx ih r => ((C k cs ex idx).2.2.2.2.2.2.2.2.1 r).trans
        (intersectsRect_eq d dist sdist (collOf k cs ex idx) (ok k cs ex idx) ih r))
      (fun b ex => (h.feature b ex).2.2.2.2.2.2.2.2.1) (fun b ex x => by rw [Obj.intersectsRect])
      (fun a ha => (h.atom a ha).2.2.2.2.2.2.2.2.1)
  have hip : ∀ o q, d.intersectsPoint o q = o.intersectsPoint q :=
    unique_gen d.intersectsPoint Obj.intersectsPoint
      (fun k cs ex idx ih q => ((C k cs ex idx).2.2.2.2.2.2.2.2.2.1 q).trans
        (intersectsPoint_eq d dist sdist (collOf k cs ex idx) (ok k cs ex idx) ih q))
      (fun b ex => (h.feature b ex).2.2.2.2.2.2.2.2.2.1) (fun b ex x => by rw [Obj.intersectsPoint])
      (fun a ha => (h.atom a ha).2.2.2.2.2.2.2.2.2.1)
  have hil : ∀ o l, d.intersectsLine o l = o.intersectsLine l :=
    unique_gen d.intersectsLine Obj.intersectsLine
      (fun k cs ex idx ih l => ((C k cs ex idx).2.2.2.2.2.2.2.2.2.2.1 l).trans
        (intersectsLine_eq d dist sdist (collOf k cs ex idx) (ok k cs ex idx) ih l))
      (fun b ex => (h.feature b ex).2.2.2.2.2.2.2.2.2.2.1) (fun b ex x => by rw [Obj.intersectsLine])
      (fun a ha => (h.atom a ha).2.2.2.2.2.2.2.2.2.2.1)
  have hiq : ∀ o p, d.intersectsPoly o p = o.intersectsPoly p :=
    unique_gen d.intersectsPoly Obj.intersectsPoly
      (fun k cs ex idx ih p => ((C k cs ex idx).2.2.2.2.2.2.2.2.2.2.2 p).trans
        (intersectsPoly_eq d dist sdist (collOf k cs ex idx) (ok k cs ex idx) ih p))
      (fun b ex => (h.feature b ex).2.2.2.2.2.2.2.2.2.2.2) (fun b ex x => by rw [Obj.intersectsPoly])
      (fun a ha => (h.atom a ha).2.2.2.2.2.2.2.2.2.2.2)
  cases d
  simp only [Disp.model, Disp.mk.injEq]
  exact ⟨funext fun o => funext (hco o), funext fun o => funext (hin o), funext hfe, funext hnp,
    funext fun o => funext (hwr o), funext fun o => funext (hwp o), funext fun o => funext (hwl o),
    funext fun o => funext (hwq o), funext fun o => funext (hir o), funext fun o => funext (hip o),
    funext fun o => funext (hil o), funext fun o => funext (hiq o)⟩

end Geo.CollBridge

#print axioms Geo.CollBridge.indexed_bridge
#print axioms Geo.CollBridge.children_bridge
#print axioms Geo.CollBridge.base_bridge
#print axioms Geo.CollBridge.empty_bridge
#print axioms Geo.CollBridge.rect_bridge
#print axioms Geo.CollBridge.center_bridge
#print axioms Geo.CollBridge.spatial_bridge
#print axioms Geo.CollBridge.members_bridge
#print axioms Geo.CollBridge.valid_bridge
#print axioms Geo.CollBridge.forEach_bridge
#print axioms Geo.CollBridge.search_bridge
#print axioms Geo.CollBridge.numPoints_bridge
#print axioms Geo.CollBridge.within_bridge
#print axioms Geo.CollBridge.contains_bridge
#print axioms Geo.CollBridge.intersects_bridge
#print axioms Geo.CollBridge.withinRect_bridge
#print axioms Geo.CollBridge.withinPoint_bridge
#print axioms Geo.CollBridge.withinLine_bridge
#print axioms Geo.CollBridge.withinPoly_bridge
#print axioms Geo.CollBridge.intersectsRect_bridge
#print axioms Geo.CollBridge.intersectsPoint_bridge
#print axioms Geo.CollBridge.intersectsLine_bridge
#print axioms Geo.CollBridge.intersectsPoly_bridge
#print axioms Geo.CollBridge.distance_bridge
#print axioms Geo.CollBridge.indexed_invisible
#print axioms Geo.CollBridge.collOf_ok
#print axioms Geo.CollBridge.model_solves
#print axioms Geo.CollBridge.iterate_collect
#print axioms Geo.CollBridge.eq_of_iterate_eq
#print axioms Geo.CollBridge.unique_gen
#print axioms Geo.CollBridge.solves_forEach
#print axioms Geo.CollBridge.solves_numPoints
#print axioms Geo.CollBridge.solves_unique
