/-
  Property C01 — point membership.  `ringContainsPoint`, `Poly.containsPoint`,
  `Line.containsPoint`, `Box.containsPt` of GeoModel.Geom answer exactly the planar
  specification of GeoModel.Spec (boundary test + half-open crossing parity), for EVERY vertex
  list (open or closed encoding, self-intersecting, repeated vertices, fewer than 3 points),
  every `allowOnEdge`, and every index kind / threshold.

  The index enters only through `Series.SearchExact` (GeoProofs/SeriesSearch.lean): proved
  there for un-indexed and quadtree-indexed series, and for R-tree-indexed series from the
  byte-level R-tree theorem.  Helper lemmas: GeoProofs/MemberLemmas.lean.
-/
import GeoProofs.MemberLemmas

namespace Geo

/-! ### the early-exit toggle fold -/

/-- the answer of the early-exit toggle fold depends only on the multiset of visited segments
    (the reported index may differ: it is the first visited segment that carries the point) -/
theorem containsPoint_fold_perm (segAt : Nat → Seg) (p : Pt) (allowOnEdge : Bool) (v1 v2 : List Nat)
    (h : List.Perm v1 v2) (b0 : Bool) (o1 o2 : Option Nat) :
    (foldUntil (fun (st : Bool × Option Nat) i =>
        let res := (segAt i).raycast p
        if res.on then ((allowOnEdge, some i), false)
        else if res.inn then ((!st.1, st.2), true)
        else (st, true)) (b0, o1) v1).1.1 =
    (foldUntil (fun (st : Bool × Option Nat) i =>
        let res := (segAt i).raycast p
        if res.on then ((allowOnEdge, some i), false)
        else if res.inn then ((!st.1, st.2), true)
        else (st, true)) (b0, o2) v2).1.1 :=
  cpFold_hit_perm segAt p allowOnEdge v1 v2 h b0 o1 o2

/-- closed form of the fold: `allowOnEdge` if some visited segment carries the point, otherwise
    the parity of the number of visited segments crossed by the ray -/
theorem containsPoint_fold_eq (segAt : Nat → Seg) (p : Pt) (allowOnEdge : Bool) (visit : List Nat) :
    (foldUntil (fun (st : Bool × Option Nat) i =>
        let res := (segAt i).raycast p
        if res.on then ((allowOnEdge, some i), false)
        else if res.inn then ((!st.1, st.2), true)
        else (st, true)) (false, none) visit).1.1 =
      if visit.any (fun i => ((segAt i).raycast p).on) then allowOnEdge
      else decide ((visit.filter (fun i => ((segAt i).raycast p).inn)).length % 2 = 1) := by
  have := cpFold_hit segAt p allowOnEdge visit false none
  simp only [Bool.false_bne] at this
  exact this

/-! ### rings given by a series -/

theorem mkSeries_segmentAt_fn (pts : Array Pt) (closed : Bool) (kind : IndexKind) (m : Nat) :
    (mkSeries pts closed kind m).segmentAt = segmentAtOf pts := rfl

/-- a ring given by a series: exact membership for EVERY vertex list (open or closed encoding,
    self-intersecting, repeated vertices, fewer than 3 points), under any index for which the
    search is exact. -/
theorem ringContainsPoint_hit_iff (pts : Array Pt) (kind : IndexKind) (minPoints : Nat)
    (hvis : (mkSeries pts true kind minPoints).SearchExact) (p : Pt) (allowOnEdge : Bool) :
    (ringContainsPoint (.ser (mkSeries pts true kind minPoints)) p allowOnEdge).hit =
      (if Spec.onBoundary (Spec.edges pts.toList true) p then allowOnEdge
       else (Spec.parity (Spec.edges pts.toList true) p == 1)) := by
  by_cases hc : (processPoints pts true).rect.containsPt p = true
  · rw [(ser_ringContainsPoint _ hvis (mkSeries_hbox pts true kind minPoints) p allowOnEdge hc).1]
    rw [mkSeries_numSegments, mkSeries_segmentAt_fn, ← onBoundary_eq_any]
    by_cases hon : Spec.onBoundary (Spec.edges pts.toList true) p = true
    · simp only [hon, if_true]
    · have hon' : Spec.onBoundary (Spec.edges pts.toList true) p = false := by simpa using hon
      rw [hon', parity_eq_count pts true p hon', Bool.eq_iff_iff]
      simp
  · have hc' : (processPoints pts true).rect.containsPt p = false := by simpa using hc
    rw [ringContainsPoint_outside _ _ _ (by exact hc')]
    obtain ⟨h1, h2⟩ := outside_rect pts p hc'
    rw [h1, h2]
    rfl

/-- the same as two implications -/
theorem ringContainsPoint_hit_cases (pts : Array Pt) (kind : IndexKind) (minPoints : Nat)
    (hvis : (mkSeries pts true kind minPoints).SearchExact) (p : Pt) (allowOnEdge : Bool) :
    (ringContainsPoint (.ser (mkSeries pts true kind minPoints)) p allowOnEdge).hit = true ↔
      ((Spec.onBoundary (Spec.edges pts.toList true) p = true ∧ allowOnEdge = true) ∨
       (Spec.onBoundary (Spec.edges pts.toList true) p = false ∧
        Spec.parity (Spec.edges pts.toList true) p = 1)) := by
  rw [ringContainsPoint_hit_iff pts kind minPoints hvis]
  cases Spec.onBoundary (Spec.edges pts.toList true) p <;> simp

/-- inclusive / exclusive membership in terms of the specification's `inRing` / `strictIn` -/
theorem ringContainsPoint_inclusive (pts : Array Pt) (kind : IndexKind) (minPoints : Nat)
    (hvis : (mkSeries pts true kind minPoints).SearchExact) (p : Pt) :
    (ringContainsPoint (.ser (mkSeries pts true kind minPoints)) p true).hit =
      Spec.inRing (Spec.edges pts.toList true) p := by
  rw [ringContainsPoint_hit_iff pts kind minPoints hvis]
  unfold Spec.inRing
  cases Spec.onBoundary (Spec.edges pts.toList true) p <;> simp

theorem ringContainsPoint_exclusive (pts : Array Pt) (kind : IndexKind) (minPoints : Nat)
    (hvis : (mkSeries pts true kind minPoints).SearchExact) (p : Pt) :
    (ringContainsPoint (.ser (mkSeries pts true kind minPoints)) p false).hit =
      Spec.strictIn (Spec.edges pts.toList true) p := by
  rw [ringContainsPoint_hit_iff pts kind minPoints hvis]
  unfold Spec.strictIn
  cases Spec.onBoundary (Spec.edges pts.toList true) p <;> simp

/-- the reported index, when present, is a segment of the ring that carries the point -/
theorem ringContainsPoint_idx_on (pts : Array Pt) (kind : IndexKind) (minPoints : Nat)
    (hvis : (mkSeries pts true kind minPoints).SearchExact) (p : Pt) (allowOnEdge : Bool) (i : Nat)
    (h : (ringContainsPoint (.ser (mkSeries pts true kind minPoints)) p allowOnEdge).idx = some i) :
    i < numSegmentsOf pts true ∧ OnSeg (segmentAtOf pts i).a (segmentAtOf pts i).b p := by
  by_cases hc : (processPoints pts true).rect.containsPt p = true
  · obtain ⟨h1, h2⟩ :=
      (ser_ringContainsPoint _ hvis (mkSeries_hbox pts true kind minPoints) p allowOnEdge hc).2.1 i h
    exact ⟨h1, (raycast_on_iff _ _ _).1 h2⟩
  · have hc' : (processPoints pts true).rect.containsPt p = false := by simpa using hc
    rw [ringContainsPoint_outside _ _ _ (by exact hc')] at h
    cases h

/-- an index is reported exactly when the point lies on the boundary -/
theorem ringContainsPoint_idx_isSome (pts : Array Pt) (kind : IndexKind) (minPoints : Nat)
    (hvis : (mkSeries pts true kind minPoints).SearchExact) (p : Pt) (allowOnEdge : Bool) :
    (ringContainsPoint (.ser (mkSeries pts true kind minPoints)) p allowOnEdge).idx.isSome =
      Spec.onBoundary (Spec.edges pts.toList true) p := by
  by_cases hc : (processPoints pts true).rect.containsPt p = true
  · rw [(ser_ringContainsPoint _ hvis (mkSeries_hbox pts true kind minPoints) p allowOnEdge hc).2.2,
      mkSeries_numSegments, mkSeries_segmentAt_fn, ← onBoundary_eq_any]
  · have hc' : (processPoints pts true).rect.containsPt p = false := by simpa using hc
    rw [ringContainsPoint_outside _ _ _ (by exact hc'), (outside_rect pts p hc').1]
    rfl

/-- index independence: the same answer under every index kind and threshold -/
theorem ringContainsPoint_index_indep (pts : Array Pt) (k1 k2 : IndexKind) (m1 m2 : Nat)
    (h1 : (mkSeries pts true k1 m1).SearchExact) (h2 : (mkSeries pts true k2 m2).SearchExact)
    (p : Pt) (allowOnEdge : Bool) :
    (ringContainsPoint (.ser (mkSeries pts true k1 m1)) p allowOnEdge).hit =
      (ringContainsPoint (.ser (mkSeries pts true k2 m2)) p allowOnEdge).hit ∧
    (ringContainsPoint (.ser (mkSeries pts true k1 m1)) p allowOnEdge).idx.isSome =
      (ringContainsPoint (.ser (mkSeries pts true k2 m2)) p allowOnEdge).idx.isSome := by
  rw [ringContainsPoint_hit_iff pts k1 m1 h1, ringContainsPoint_hit_iff pts k2 m2 h2,
    ringContainsPoint_idx_isSome pts k1 m1 h1, ringContainsPoint_idx_isSome pts k2 m2 h2]
  exact ⟨rfl, rfl⟩

/-- hypothesis-free instances: no index, and quadtree index under the format's size bounds -/
theorem ringContainsPoint_hit_iff_none (pts : Array Pt) (minPoints : Nat) (p : Pt) (allowOnEdge : Bool) :
    (ringContainsPoint (.ser (mkSeries pts true .none minPoints)) p allowOnEdge).hit =
      (if Spec.onBoundary (Spec.edges pts.toList true) p then allowOnEdge
       else (Spec.parity (Spec.edges pts.toList true) p == 1)) :=
  ringContainsPoint_hit_iff pts .none minPoints (series_search_exact_kind_none pts true minPoints) p
    allowOnEdge

theorem ringContainsPoint_hit_iff_quadtree (pts : Array Pt) (minPoints : Nat)
    (hn : pts.size < 2 ^ 32) (hsz : (qBytesOf pts true).size < 2 ^ 32) (p : Pt) (allowOnEdge : Bool) :
    (ringContainsPoint (.ser (mkSeries pts true .quadtree minPoints)) p allowOnEdge).hit =
      (if Spec.onBoundary (Spec.edges pts.toList true) p then allowOnEdge
       else (Spec.parity (Spec.edges pts.toList true) p == 1)) :=
  ringContainsPoint_hit_iff pts .quadtree minPoints
    (series_search_exact_quadtree pts true minPoints hn hsz) p allowOnEdge

/-- quadtree-indexed and un-indexed rings answer alike -/
theorem ringContainsPoint_quadtree_eq_none (pts : Array Pt) (m1 m2 : Nat)
    (hn : pts.size < 2 ^ 32) (hsz : (qBytesOf pts true).size < 2 ^ 32) (p : Pt) (allowOnEdge : Bool) :
    (ringContainsPoint (.ser (mkSeries pts true .quadtree m1)) p allowOnEdge).hit =
      (ringContainsPoint (.ser (mkSeries pts true .none m2)) p allowOnEdge).hit :=
  (ringContainsPoint_index_indep pts .quadtree .none m1 m2
    (series_search_exact_quadtree pts true m1 hn hsz) (series_search_exact_kind_none pts true m2)
    p allowOnEdge).1

/-! ### a rectangle used as a ring; Rect -/

theorem rectContainsPoint_iff (b : Box) (p : Pt) :
    b.containsPt p = true ↔ b.min.x ≤ p.x ∧ p.x ≤ b.max.x ∧ b.min.y ≤ p.y ∧ p.y ≤ b.max.y := by
  unfold Box.containsPt
  simp only [Bool.and_eq_true, decide_eq_true_eq, ge_iff_le, and_assoc]

theorem rectContainsPoint_spec (lo hi p : Pt) :
    (⟨lo, hi⟩ : Box).containsPt p = Spec.Shape.member (.rect lo hi) p := by
  unfold Box.containsPt Spec.Shape.member
  simp only [ge_iff_le]

/-- a Rect used as a ring (inclusive): exactly the closed rectangle.  No hypothesis on `b` is
    needed: an inverted box contains no point under either reading. -/
theorem rectRing_containsPoint_iff (b : Box) (p : Pt) :
    (ringContainsPoint (.bx b) p true).hit = b.containsPt p := by
  by_cases hc : b.containsPt p = true
  · rw [bx_ringContainsPoint b p true hc, hc]
    simp
  · have hc' : b.containsPt p = false := by simpa using hc
    rw [ringContainsPoint_outside _ _ _ (by exact hc'), hc']

/-- a Rect used as a ring (exclusive): the closed rectangle minus its four sides -/
theorem rectRing_containsPoint_strict (b : Box) (p : Pt) :
    (ringContainsPoint (.bx b) p false).hit =
      (b.containsPt p && !([0, 1, 2, 3].any (fun i => ((b.segmentAt i).raycast p).on))) := by
  by_cases hc : b.containsPt p = true
  · rw [bx_ringContainsPoint b p false hc, hc]
    change _ = (true && !([0, 1, 2, 3].any (onAt b.segmentAt p)))
    cases [0, 1, 2, 3].any (onAt b.segmentAt p) <;> rfl
  · have hc' : b.containsPt p = false := by simpa using hc
    rw [ringContainsPoint_outside _ _ _ (by exact hc'), hc']
    rfl

/-! ### polygons and lines -/

theorem not_any_eq_all_not {α : Type} (l : List α) (f : α → Bool) (g : α → Bool)
    (h : ∀ x ∈ l, f x = g x) : (!(l.any f)) = l.all (fun x => !g x) := by
  induction l with
  | nil => rfl
  | cons x xs ih =>
    simp only [List.any_cons, List.all_cons, Bool.not_or]
    rw [ih (fun y hy => h y (by simp [hy])), h x (by simp)]

/-- polygon membership: exterior inclusive, holes exclusive — every ring may carry its own
    index kind and threshold -/
theorem polyContainsPoint_iff (ext : Array Pt) (ek : IndexKind) (em : Nat)
    (holes : List (Array Pt × IndexKind × Nat))
    (hext : (mkSeries ext true ek em).SearchExact)
    (hholes : ∀ h ∈ holes, (mkSeries h.1 true h.2.1 h.2.2).SearchExact) (p : Pt) :
    Poly.containsPoint
        ⟨some (.ser (mkSeries ext true ek em)),
         holes.map (fun h => Ring.ser (mkSeries h.1 true h.2.1 h.2.2))⟩ p =
      Spec.Shape.member (.poly ext.toList (holes.map (fun h => h.1.toList))) p := by
  unfold Poly.containsPoint Spec.Shape.member
  simp only
  rw [ringContainsPoint_inclusive ext ek em hext, List.any_map, List.all_map]
  simp only [Function.comp_def]
  rw [not_any_eq_all_not holes _ (fun h => Spec.strictIn (Spec.edges h.1.toList true) p)
    (fun h hh => ringContainsPoint_exclusive h.1 h.2.1 h.2.2 (hholes h hh) p)]
  cases Spec.inRing (Spec.edges ext.toList true) p <;> rfl

/-- a polygon without exterior (`NewPolygon(nil)`) contains nothing -/
theorem polyContainsPoint_nil (holes : List Ring) (p : Pt) :
    Poly.containsPoint ⟨none, holes⟩ p = false := rfl

/-- line-string membership: the point lies on one of the segments -/
theorem lineContainsPoint_iff (pts : Array Pt) (kind : IndexKind) (minPoints : Nat)
    (hvis : (mkSeries pts false kind minPoints).SearchExact) (p : Pt) :
    Line.containsPoint (mkSeries pts false kind minPoints) p =
      Spec.onBoundary (Spec.edges pts.toList false) p := by
  rw [line_containsPoint_any _ hvis, mkSeries_numSegments, mkSeries_segmentAt_fn, onBoundary_eq_any]

theorem lineContainsPoint_spec (pts : Array Pt) (kind : IndexKind) (minPoints : Nat)
    (hvis : (mkSeries pts false kind minPoints).SearchExact) (p : Pt) :
    Line.containsPoint (mkSeries pts false kind minPoints) p =
      Spec.Shape.member (.line pts.toList) p :=
  lineContainsPoint_iff pts kind minPoints hvis p

theorem lineContainsPoint_index_indep (pts : Array Pt) (k1 k2 : IndexKind) (m1 m2 : Nat)
    (h1 : (mkSeries pts false k1 m1).SearchExact) (h2 : (mkSeries pts false k2 m2).SearchExact)
    (p : Pt) :
    Line.containsPoint (mkSeries pts false k1 m1) p = Line.containsPoint (mkSeries pts false k2 m2) p := by
  rw [lineContainsPoint_iff pts k1 m1 h1, lineContainsPoint_iff pts k2 m2 h2]

/-- Prop-level reading of the boundary test: some edge of the chain carries the point -/
theorem onBoundary_iff (es : List (Pt × Pt)) (p : Pt) :
    Spec.onBoundary es p = true ↔ ∃ e ∈ es, OnSeg e.1 e.2 p := by
  unfold Spec.onBoundary
  rw [List.any_eq_true]
  constructor
  · rintro ⟨e, he, h⟩; exact ⟨e, he, (spec_onSeg_iff _ _ _).1 h⟩
  · rintro ⟨e, he, h⟩; exact ⟨e, he, (spec_onSeg_iff _ _ _).2 h⟩

/-! ### non-vacuity: concrete rings, kernel evaluation -/

/-- a concave ring (reflex vertex (2,1)), closed encoding -/
def c01Concave : Array Pt := #[⟨0,0⟩, ⟨4,0⟩, ⟨4,4⟩, ⟨2,1⟩, ⟨0,4⟩, ⟨0,0⟩]
/-- a self-intersecting "bow-tie", open encoding (closing edge added by the segment rule) -/
def c01Bowtie : Array Pt := #[⟨0,0⟩, ⟨4,4⟩, ⟨4,0⟩, ⟨0,4⟩]

-- inside, in the notch (outside), on an edge (both readings), on a vertex
example : (ringContainsPoint (.ser (mkSeries c01Concave true .none 0)) ⟨1,1⟩ false).hit = true := by
  decide +kernel
example : (ringContainsPoint (.ser (mkSeries c01Concave true .none 0)) ⟨2,3⟩ true).hit = false := by
  decide +kernel
example : (ringContainsPoint (.ser (mkSeries c01Concave true .none 0)) ⟨4,2⟩ true).hit = true := by
  decide +kernel
example : (ringContainsPoint (.ser (mkSeries c01Concave true .none 0)) ⟨4,2⟩ false).hit = false := by
  decide +kernel
example : (ringContainsPoint (.ser (mkSeries c01Concave true .none 0)) ⟨2,1⟩ true).idx = some 2 := by
  decide +kernel
-- the specification side of the same facts
example : Spec.onBoundary (Spec.edges c01Concave.toList true) ⟨4,2⟩ = true := by decide +kernel
example : Spec.onBoundary (Spec.edges c01Concave.toList true) ⟨1,1⟩ = false ∧
    Spec.parity (Spec.edges c01Concave.toList true) ⟨1,1⟩ = 1 := by decide +kernel
example : Spec.parity (Spec.edges c01Concave.toList true) ⟨2,3⟩ = 0 := by decide +kernel
-- the bow-tie: the two lobes are inside, the crossing point is on the boundary
example : (ringContainsPoint (.ser (mkSeries c01Bowtie true .none 0)) ⟨3,2⟩ false).hit = true := by
  decide +kernel
example : (ringContainsPoint (.ser (mkSeries c01Bowtie true .none 0)) ⟨2,3⟩ false).hit = false := by
  decide +kernel
example : (ringContainsPoint (.ser (mkSeries c01Bowtie true .none 0)) ⟨2,2⟩ false).hit = false ∧
    (ringContainsPoint (.ser (mkSeries c01Bowtie true .none 0)) ⟨2,2⟩ true).hit = true := by
  decide +kernel
-- fewer than 3 points: no edge, nothing is contained (even the origin of the zero rect)
example : (ringContainsPoint (.ser (mkSeries #[⟨0,0⟩, ⟨0,0⟩] true .none 0)) ⟨0,0⟩ true).hit = false := by
  decide +kernel
-- the theorem instantiated on a really indexed ring (40 vertices ≥ threshold 16)
example (p : Pt) (allow : Bool) :
    (ringContainsPoint (.ser (mkSeries exRing40 true .quadtree 16)) p allow).hit =
      (if Spec.onBoundary (Spec.edges exRing40.toList true) p then allow
       else (Spec.parity (Spec.edges exRing40.toList true) p == 1)) :=
  ringContainsPoint_hit_iff_quadtree exRing40 16 (by decide +kernel) (by decide +kernel) p allow
-- ... which turns membership questions on the indexed ring into evaluations of the specification
example : (ringContainsPoint (.ser (mkSeries exRing40 true .quadtree 16)) ⟨5,2⟩ false).hit = true := by
  rw [ringContainsPoint_hit_iff_quadtree exRing40 16 (by decide +kernel) (by decide +kernel)]
  decide +kernel
example : (ringContainsPoint (.ser (mkSeries exRing40 true .quadtree 16)) ⟨5,(1:Rat)/2⟩ false).hit = false := by
  rw [ringContainsPoint_hit_iff_quadtree exRing40 16 (by decide +kernel) (by decide +kernel)]
  decide +kernel
-- rectangle ring, line
example : (ringContainsPoint (.bx ⟨⟨0,0⟩,⟨2,2⟩⟩) ⟨2,1⟩ true).hit = true := by decide +kernel
example : (ringContainsPoint (.bx ⟨⟨0,0⟩,⟨2,2⟩⟩) ⟨2,1⟩ false).hit = false := by decide +kernel
example : Line.containsPoint (mkSeries #[⟨0,0⟩, ⟨2,2⟩, ⟨4,0⟩] false .none 0) ⟨3,1⟩ = true := by
  decide +kernel
example : Line.containsPoint (mkSeries #[⟨0,0⟩, ⟨2,2⟩, ⟨4,0⟩] false .none 0) ⟨2,0⟩ = false := by
  decide +kernel
-- polygon with a hole: the hole's boundary belongs to the polygon, its interior does not
example : Poly.containsPoint ⟨some (.ser (mkSeries #[⟨0,0⟩,⟨6,0⟩,⟨6,6⟩,⟨0,6⟩,⟨0,0⟩] true .none 0)),
    [.ser (mkSeries #[⟨2,2⟩,⟨4,2⟩,⟨4,4⟩,⟨2,4⟩,⟨2,2⟩] true .none 0)]⟩ ⟨2,3⟩ = true := by decide +kernel
example : Poly.containsPoint ⟨some (.ser (mkSeries #[⟨0,0⟩,⟨6,0⟩,⟨6,6⟩,⟨0,6⟩,⟨0,0⟩] true .none 0)),
    [.ser (mkSeries #[⟨2,2⟩,⟨4,2⟩,⟨4,4⟩,⟨2,4⟩,⟨2,2⟩] true .none 0)]⟩ ⟨3,3⟩ = false := by decide +kernel

end Geo

#print axioms Geo.containsPoint_fold_perm
#print axioms Geo.containsPoint_fold_eq
#print axioms Geo.ringContainsPoint_hit_iff
#print axioms Geo.ringContainsPoint_hit_cases
#print axioms Geo.ringContainsPoint_inclusive
#print axioms Geo.ringContainsPoint_exclusive
#print axioms Geo.ringContainsPoint_idx_on
#print axioms Geo.ringContainsPoint_idx_isSome
#print axioms Geo.ringContainsPoint_index_indep
#print axioms Geo.ringContainsPoint_hit_iff_none
#print axioms Geo.ringContainsPoint_hit_iff_quadtree
#print axioms Geo.ringContainsPoint_quadtree_eq_none
#print axioms Geo.rectContainsPoint_iff
#print axioms Geo.rectContainsPoint_spec
#print axioms Geo.rectRing_containsPoint_iff
#print axioms Geo.rectRing_containsPoint_strict
#print axioms Geo.polyContainsPoint_iff
#print axioms Geo.lineContainsPoint_iff
#print axioms Geo.lineContainsPoint_index_indep
