package main

import (
	"fmt"
	"strconv"
	"sync"

	"github.com/tidwall/geojson"
	"github.com/tidwall/geojson/geometry"
)

// xconc seed: many goroutines call every query / serialisation method on a shared pool of
// objects (all kinds, with and without geometry and child indexes); every answer must equal
// the answer computed alone beforehand. Built with -race the same op is the data-race search.

func concPool(r *rng) []geojson.Object {
	rp := func() geometry.Point {
		return geometry.Point{X: float64(r.rangeI(-40, 40)) / 4, Y: float64(r.rangeI(-40, 40)) / 4}
	}
	pts := func(n int) []geometry.Point {
		out := make([]geometry.Point, n)
		for i := range out {
			out[i] = rp()
		}
		return out
	}
	ring := func(n int) []geometry.Point {
		p := pts(n)
		return append(p, p[0])
	}
	kinds := []geometry.IndexKind{geometry.None, geometry.RTree, geometry.QuadTree}
	var pool []geojson.Object
	for i := 0; i < 3; i++ {
		opts := &geometry.IndexOptions{Kind: kinds[i], MinPoints: 1}
		pool = append(pool,
			geojson.NewPoint(rp()), geojson.NewSimplePoint(rp()), geojson.NewPointZ(rp(), 3),
			geojson.NewLineString(geometry.NewLine(pts(r.rangeI(2, 80)), opts)),
			geojson.NewPolygon(geometry.NewPoly(ring(r.rangeI(3, 90)), [][]geometry.Point{ring(3)}, opts)),
			geojson.NewRect(geometry.Rect{Min: geometry.Point{X: -3, Y: -2}, Max: geometry.Point{X: 4, Y: 5}}),
			geojson.NewCircle(rp(), float64(r.rangeI(1, 500000)), 32),
			geojson.NewMultiPoint(pts(r.pick([]int{0, 3, 70}))),
			geojson.NewMultiLineString([]*geometry.Line{geometry.NewLine(pts(3), opts), geometry.NewLine(pts(5), opts)}),
			geojson.NewMultiPolygon([]*geometry.Poly{geometry.NewPoly(ring(5), nil, opts)}),
		)
	}
	// a polygon with several holes and a point strictly inside each of them (a query must not
	// reorder or otherwise touch what the object owns)
	sq := func(x0, y0, x1, y1 float64) []geometry.Point {
		return []geometry.Point{{X: x0, Y: y0}, {X: x1, Y: y0}, {X: x1, Y: y1}, {X: x0, Y: y1}, {X: x0, Y: y0}}
	}
	for i := 0; i < 2; i++ {
		opts := &geometry.IndexOptions{Kind: kinds[i], MinPoints: 1}
		pool = append(pool, geojson.NewPolygon(geometry.NewPoly(sq(0, 0, 30, 10),
			[][]geometry.Point{sq(2, 2, 8, 8), sq(12, 2, 18, 8), sq(22, 2, 28, 8)}, opts)))
	}
	for _, x := range []float64{5, 15, 25, 10} {
		pool = append(pool, geojson.NewPoint(geometry.Point{X: x, Y: 5}), geojson.NewSimplePoint(geometry.Point{X: x, Y: 5}))
	}
	if o, err := geojson.Parse(`{"type":"Polygon","coordinates":[[[0,0,1],[30,0,2],[30,10,3],[0,10,4],[0,0,1]],[[2,2,5],[8,2,6],[8,8,7],[2,8,8],[2,2,5]],[[12,2,9],[18,2,10],[18,8,11],[12,8,12],[12,2,9]],[[22,2,13],[28,2,14],[28,8,15],[22,8,16],[22,2,13]]]}`, nil); err == nil {
		pool = append(pool, o)
	}
	n := len(pool)
	pool = append(pool, geojson.NewFeature(pool[r.intn(n)], `{"id":1,"properties":{"a":[1,2]}}`))
	pool = append(pool, geojson.NewGeometryCollection([]geojson.Object{pool[0], pool[3], pool[4], pool[r.intn(n)]}))
	var many []geojson.Object
	for i := 0; i < 70; i++ {
		many = append(many, geojson.NewFeature(geojson.NewPoint(rp()), ""))
	}
	pool = append(pool, geojson.NewFeatureCollection(many))
	for _, txt := range []string{
		`{"type":"FeatureCollection","features":[{"type":"Feature","geometry":{"type":"Polygon","coordinates":[[[0,0],[4,0],[4,4],[0,4],[0,0]]]},"properties":{"n":1}},{"type":"Point","coordinates":[1,2,3]}],"bbox":[0,0,4,4]}`,
		`{"type":"Feature","geometry":{"type":"Point","coordinates":[1,2]},"properties":{"type":"Circle","radius":5000}}`,
	} {
		if o, err := geojson.Parse(txt, &geojson.ParseOptions{IndexChildren: 1, IndexGeometry: 1, IndexGeometryKind: geometry.RTree}); err == nil {
			pool = append(pool, o)
		}
	}
	return pool
}

func concTask(a, b geojson.Object, k int) string {
	switch k % 12 {
	case 0:
		return b2s(a.Contains(b))
	case 1:
		return b2s(a.Within(b))
	case 2:
		return b2s(a.Intersects(b))
	case 3:
		return a.JSON()
	case 4:
		return string(a.AppendJSON(make([]byte, 0, 8)))
	case 5:
		return fmt.Sprint(a.Rect(), a.Center(), a.Empty(), a.Valid(), a.NumPoints())
	case 6:
		return fmt.Sprint(a.Distance(b))
	case 7:
		n := 0
		a.ForEach(func(geojson.Object) bool { n++; return true })
		return strconv.Itoa(n)
	case 8:
		n := 0
		if c, ok := a.(geojson.Collection); ok {
			c.Search(b.Rect(), func(geojson.Object) bool { n++; return true })
		}
		return strconv.Itoa(n)
	case 9:
		sp := a.Spatial()
		r := b.Rect()
		return b2s(sp.WithinRect(r)) + b2s(sp.IntersectsRect(r)) + b2s(sp.IntersectsPoint(r.Min)) + fmt.Sprint(sp.DistancePoint(r.Max))
	case 10:
		return a.String() + a.Members()
	default:
		m, _ := a.MarshalJSON()
		return string(m)
	}
}

func xconc(seed uint64) string {
	r := &rng{s: seed}
	pool := concPool(r)
	type task struct{ a, b, k int }
	var tasks []task
	for i := 0; i < 400; i++ {
		tasks = append(tasks, task{r.intn(len(pool)), r.intn(len(pool)), r.intn(12)})
	}
	before := make([]string, len(pool))
	for i, o := range pool {
		before[i] = o.JSON()
	}
	solo := make([]string, len(tasks))
	for i, t := range tasks {
		solo[i] = concTask(pool[t.a], pool[t.b], t.k)
	}
	// every pair once more, predicates only: a query must leave both objects as they were
	for _, a := range pool {
		for _, b := range pool {
			a.Contains(b)
			a.Intersects(b)
		}
	}
	for i, o := range pool {
		if o.JSON() != before[i] {
			return fmt.Sprintf("FAIL object changed by queries: %s now serialises differently", kindName(o))
		}
	}
	// the concurrent phase runs on a second, identical pool, so that the first use of every
	// object (where a lazily filled cache would be written) happens concurrently
	pool = concPool(&rng{s: seed})
	var wg sync.WaitGroup
	var mu sync.Mutex
	fail := ""
	for g := 0; g < 8; g++ {
		wg.Add(1)
		go func(g int) {
			defer wg.Done()
			rr := &rng{s: seed + uint64(g)*7919}
			for n := 0; n < len(tasks); n++ {
				i := rr.intn(len(tasks))
				t := tasks[i]
				if got := concTask(pool[t.a], pool[t.b], t.k); got != solo[i] {
					mu.Lock()
					fail = fmt.Sprintf("FAIL concurrent answer differs from solo answer: method %d on %s / %s", t.k%12, kindName(pool[t.a]), kindName(pool[t.b]))
					mu.Unlock()
					return
				}
			}
		}(g)
	}
	wg.Wait()
	if fail != "" {
		return fail
	}
	return "ok"
}
