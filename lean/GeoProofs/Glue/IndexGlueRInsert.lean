/-
  GeoProofs.Glue.IndexGlueRInsert — groundwork for the insertion half of the R-tree bridge:
  the well-formedness predicate `RWFI` of a generated node, a TOTAL abstraction `absT` that agrees
  with `absNode` on well-formed nodes, list lemmas for the slot array, and the model-side lemmas
  (`rInsertChild` at an index, naturality of `splitEntries`) used by IndexGlueRInsert2/3.
-/
import GeoProofs.Glue.IndexGlueRBasic
import GeoProofs.Glue.IndexGlueRSplit
import GeoProofs.Index.RTreeSub

set_option linter.unusedVariables false
set_option linter.unusedSectionVars false

namespace Geo.IGlue
open Geo Geo.IGen
open scoped Geo.KNum

variable {F : Type}

/-- a well-formed generated node of height `h` (for insertion): `data` holds a `*rNode` with its 17
    slots and `0 ≤ count ≤ 17`; the used slots of a leaf hold non-negative `int` items, the used
    slots of an inner node are well-formed nodes one level down -/
def RWFI : Nat → IGen.RRect F → Prop
  | 0, r => ∃ nd, r.data = .rNode nd ∧ SlotsOK nd ∧ ∀ e ∈ usedSlots nd, ∃ v, e.data = .int v ∧ 0 ≤ v
  | h+1, r => ∃ nd, r.data = .rNode nd ∧ SlotsOK nd ∧ ∀ e ∈ usedSlots nd, RWFI h e

end Geo.IGlue

namespace Geo.IGlue.RIns
open Geo Geo.IGen Geo.IGlue.RSplit
open scoped Geo.KNum

variable {F : Type}

/-! ## well-formedness depends on `data` only -/

theorem RWFI_data (h : Nat) (x y : IGen.RRect F) (hd : y.data = x.data) (hx : RWFI h x) : RWFI h y := by
  cases h with
  | zero =>
    obtain ⟨nd, h1, h2, h3⟩ := hx
    exact ⟨nd, hd.trans h1, h2, h3⟩
  | succ h =>
    obtain ⟨nd, h1, h2, h3⟩ := hx
    exact ⟨nd, hd.trans h1, h2, h3⟩

theorem RWFI_node (h : Nat) (x : IGen.RRect F) (hx : RWFI h x) :
    ∃ nd, x.data = .rNode nd ∧ SlotsOK nd := by
  cases h with
  | zero => obtain ⟨nd, h1, h2, _⟩ := hx; exact ⟨nd, h1, h2⟩
  | succ h => obtain ⟨nd, h1, h2, _⟩ := hx; exact ⟨nd, h1, h2⟩

/-! ## the total abstraction -/

/-- a leaf slot as the model's entry (total: a slot that holds no int is item 0) -/
def leafT (e : IGen.RRect F) : GBox F × Nat :=
  (rbox e, match e.data with | .int v => v.toNat | _ => 0)

/-- the total version of `absNode` (agrees with it on well-formed nodes: `absNode_eq_absT`) -/
def absT : Nat → IGen.RRect F → GBox F × Geo.RNode F
  | 0, r => (rbox r, .leaf ((usedSlots (nodeOf r.data)).map leafT))
  | h+1, r => (rbox r, .inner ((usedSlots (nodeOf r.data)).map (absT h)))

theorem absT_fst (h : Nat) (r : IGen.RRect F) : (absT h r).1 = rbox r := by
  cases h <;> rfl

theorem leafT_fst (e : IGen.RRect F) : (leafT e).1 = rbox e := rfl

theorem absT_snd_data (h : Nat) (x y : IGen.RRect F) (hd : y.data = x.data) :
    (absT h y).2 = (absT h x).2 := by
  cases h <;> simp only [absT, hd]

theorem absT_eq (h : Nat) (r : IGen.RRect F) : absT h r = (rbox r, (absT h r).2) := by
  cases h <;> rfl

theorem mapM_some_map {α β : Type} (g : α → Option β) (g' : α → β) (xs : List α)
    (h : ∀ e ∈ xs, g e = some (g' e)) : xs.mapM g = some (xs.map g') := by
  induction xs with
  | nil => rfl
  | cons x xs ih =>
    rw [List.mapM_cons, h x (by simp), ih (fun e he => h e (by simp [he]))]
    rfl

theorem absLeafEntry_leafT (e : IGen.RRect F) (v : Int) (hv : e.data = .int v) (h0 : 0 ≤ v) :
    absLeafEntry e = some (leafT e) := by
  simp [absLeafEntry, leafT, hv, h0]

theorem absNode_eq_absT : ∀ (h : Nat) (r : IGen.RRect F), RWFI h r → absNode h r = some (absT h r) := by
  intro h
  induction h with
  | zero =>
    intro r hw
    obtain ⟨nd, hd, hs, hl⟩ := hw
    unfold absNode absT
    simp only [hd, nodeOf]
    rw [mapM_some_map absLeafEntry leafT _ (fun e he => by
      obtain ⟨v, hv, h0⟩ := hl e he
      exact absLeafEntry_leafT e v hv h0)]
    rfl
  | succ h ih =>
    intro r hw
    obtain ⟨nd, hd, hs, hl⟩ := hw
    unfold absNode absT
    simp only [hd, nodeOf]
    rw [mapM_some_map (absNode h) (absT h) _ (fun e he => ih e (hl e he))]
    rfl

section ModelSide
variable [Carrier F]

/-- every node in the image of `absT h` has its leaves at depth `h` -/
theorem absT_hasHeight : ∀ (h : Nat) (r : IGen.RRect F), (absT h r).2.HasHeight h := by
  intro h
  induction h with
  | zero => intro r; simp only [absT]; rw [HasHeight_leaf]
  | succ h ih =>
    intro r
    simp only [absT]
    rw [HasHeight_inner]
    refine ⟨by omega, ?_⟩
    intro e he
    obtain ⟨x, _, rfl⟩ := List.mem_map.1 he
    exact ih x

/-- the boxes of a model node's entries -/
def entryBoxes : Geo.RNode F → List (GBox F)
  | .leaf es => es.map (·.1)
  | .inner es => es.map (·.1)

theorem entryBoxes_absT (h : Nat) (r : IGen.RRect F) :
    entryBoxes (absT h r).2 = (usedSlots (nodeOf r.data)).map rbox := by
  cases h with
  | zero =>
    simp only [absT, entryBoxes, List.map_map]
    rfl
  | succ h =>
    simp only [absT, entryBoxes, List.map_map]
    apply List.map_congr_left
    intro x _
    exact absT_fst h x

theorem count_entryBoxes (n : Geo.RNode F) : n.count = (entryBoxes n).length := by
  cases n <;> simp [Geo.RNode.count, entryBoxes]

theorem RT_tight (nb : GBox F) (n : Geo.RNode F) (h : RT nb n) : Tight nb (entryBoxes n) := by
  cases n with
  | leaf es => rw [RT_leaf] at h; exact h
  | inner es => rw [RT_inner] at h; exact h.1

theorem RInv_cover (boxOf : Nat → GBox F) (nb : GBox F) (n : Geo.RNode F) (h : RInv boxOf nb n) :
    ∀ b ∈ entryBoxes n, b ⊆ nb := by
  cases n with
  | leaf es =>
    rw [RInv_leaf] at h
    intro b hb
    obtain ⟨e, he, rfl⟩ := List.mem_map.1 hb
    exact (h e he).1
  | inner es =>
    rw [RInv_inner] at h
    intro b hb
    obtain ⟨e, he, rfl⟩ := List.mem_map.1 hb
    exact (h e he).1

theorem RSmall_count (n : Geo.RNode F) (h : RSmall n) : n.count ≤ 16 := by
  cases n with
  | leaf es => simpa [RSmall, Geo.RNode.count, rMaxEntries] using h
  | inner es => rw [RSmall_inner] at h; simpa [Geo.RNode.count, rMaxEntries] using h.1

/-! ## the model's `rInsertChild` at an index -/

theorem rInsertChild_at (box : GBox F) (item : GBox F × Nat) :
    ∀ (es : List (GBox F × Geo.RNode F)) (idx : Nat) (hi : idx < es.length),
      rInsertChild box item idx es =
        (es.take idx ++ (childRepl item es[idx].1 es[idx].2).1 ++ es.drop (idx + 1)
            ++ (childRepl item es[idx].1 es[idx].2).2,
          childGrown box item es[idx].1 es[idx].2) := by
  intro es
  induction es with
  | nil => intro idx h; cases h
  | cons e rest ih =>
    intro idx h
    obtain ⟨cb, cn⟩ := e
    cases idx with
    | zero =>
      rw [rInsertChild_zero, childRepl, childGrown]
      by_cases hc : ((rInsertNode cb item cn).1.count == rMaxEntries + 1) = true <;> simp [hc]
    | succ k =>
      rw [rInsertChild, ih k (by simpa using h)]
      simp

/-! ## naturality of the model's split -/

theorem splitStep_map {β γ : Type} (f : β → γ) (cls : γ → Nat) (left right eqs : List β) (i : Nat) :
    splitStep cls (left.map f, i, right.map f, eqs.map f) =
      ((splitStep (cls ∘ f) (left, i, right, eqs)).1.map f,
        (splitStep (cls ∘ f) (left, i, right, eqs)).2.1,
        (splitStep (cls ∘ f) (left, i, right, eqs)).2.2.1.map f,
        (splitStep (cls ∘ f) (left, i, right, eqs)).2.2.2.map f) := by
  simp only [splitStep, List.getElem?_map]
  cases h : left[i]? with
  | none => rfl
  | some e =>
    simp only [Option.map_some, Function.comp]
    cases hc : cls (f e) with
    | zero => rfl
    | succ n =>
      simp only [List.getLast?_map, List.map_set, List.map_dropLast]
      cases hl : left.getLast? with
      | none =>
        simp only [Option.map_none, Option.getD_none]
        by_cases h1 : (n + 1 == 1) = true <;> simp [h1]
      | some z =>
        simp only [Option.map_some, Option.getD_some]
        by_cases h1 : (n + 1 == 1) = true <;> simp [h1]

theorem splitLoop_map {β γ : Type} (f : β → γ) (cls : γ → Nat) : ∀ (m : Nat) (left : List β) (i : Nat)
    (right eqs : List β),
    splitLoop cls m (left.map f) i (right.map f) (eqs.map f) =
      ((splitLoop (cls ∘ f) m left i right eqs).1.map f,
        (splitLoop (cls ∘ f) m left i right eqs).2.1.map f,
        (splitLoop (cls ∘ f) m left i right eqs).2.2.map f) := by
  intro m
  induction m with
  | zero => intros; rfl
  | succ m ih =>
    intro left i right eqs
    by_cases hi : i < left.length
    · rw [splitLoop_succ _ _ _ _ _ _ (by simpa using hi), splitLoop_succ _ _ _ _ _ _ hi,
        splitStep_map]
      exact ih _ _ _ _
    · rw [splitLoop_done _ _ _ _ _ _ (by simpa using hi), splitLoop_done _ _ _ _ _ _ hi]

theorem distributeEquals_map {β γ : Type} (f : β → γ) : ∀ (eqs left right : List β),
    distributeEquals (left.map f) (right.map f) (eqs.map f) =
      ((distributeEquals left right eqs).1.map f, (distributeEquals left right eqs).2.map f) := by
  intro eqs
  induction eqs with
  | nil => intros; rfl
  | cons b rest ih =>
    intro left right
    simp only [List.map_cons, distributeEquals, List.length_map]
    by_cases hlt : left.length < right.length
    · simp only [hlt, if_true]
      have := ih (left ++ [b]) right
      simp only [List.map_append, List.map_cons, List.map_nil] at this
      exact this
    · simp only [hlt, if_false]
      have := ih left (right ++ [b])
      simp only [List.map_append, List.map_cons, List.map_nil] at this
      exact this

theorem splitEntries_map {β γ : Type} (f : β → γ) (rectOf : γ → GBox F) (box : GBox F) (xs : List β) :
    splitEntries rectOf box (xs.map f) =
      ((splitEntries (rectOf ∘ f) box xs).1.map f, (splitEntries (rectOf ∘ f) box xs).2.map f) := by
  rw [splitEntries_eq, splitEntries_eq]
  have hcls : splitCls (rectOf ∘ f) box = splitCls rectOf box ∘ f := rfl
  rw [hcls]
  have h := splitLoop_map f (splitCls rectOf box) (2 * xs.length + 2) xs 0 [] []
  simp only [List.map_nil] at h
  rw [List.length_map, h]
  exact distributeEquals_map f _ _ _

/-- the model's `splitPair` of an abstracted node from the generated split of its used slots -/
theorem splitPair_absT (h : Nat) (x l r : IGen.RRect F) (nd ln rn : IGen.RNode F)
    (hx : x.data = .rNode nd) (hl : l.data = .rNode ln) (hr : r.data = .rNode rn)
    (hs : (usedSlots ln, usedSlots rn) = splitEntries rbox (rbox x) (usedSlots nd))
    (hlb : rbox l = recalcBoxes ((usedSlots ln).map rbox) (rbox x))
    (hrb : rbox r = recalcBoxes ((usedSlots rn).map rbox) (rbox x)) :
    splitPair (rbox x) (absT h x).2 = (absT h l, absT h r) := by
  have h1 : (splitEntries rbox (rbox x) (usedSlots nd)).1 = usedSlots ln := by rw [← hs]
  have h2 : (splitEntries rbox (rbox x) (usedSlots nd)).2 = usedSlots rn := by rw [← hs]
  cases h with
  | zero =>
    simp only [absT, hx, hl, hr, nodeOf, splitPair]
    have hf : ((fun p : GBox F × Nat => p.1) ∘ leafT) = (rbox : IGen.RRect F → GBox F) := rfl
    rw [splitEntries_map leafT (fun p : GBox F × Nat => p.1), hf, h1, h2, List.map_map, List.map_map,
      hf, ← hlb, ← hrb]
  | succ h =>
    simp only [absT, hx, hl, hr, nodeOf, splitPair]
    have hf : ((fun p : GBox F × Geo.RNode F => p.1) ∘ absT h) = (rbox : IGen.RRect F → GBox F) :=
      funext (absT_fst h)
    rw [splitEntries_map (absT h) (fun p : GBox F × Geo.RNode F => p.1), hf, h1, h2, List.map_map,
      List.map_map, hf, ← hlb, ← hrb]

end ModelSide

/-! ## the used prefix of the slot array under the two updates of `insert` -/

theorem used_set (c : Int) (rects : List (IGen.RRect F)) (i : Nat) (x : IGen.RRect F) :
    usedSlots (IGen.RNode.mk c (rects.set i x)) = (usedSlots (IGen.RNode.mk c rects)).set i x := by
  simp only [usedSlots, rects_mk, count_mk, List.take_set]

theorem used_append (c : Int) (rects : List (IGen.RRect F)) (x : IGen.RRect F) (h0 : 0 ≤ c)
    (hc : c.toNat < rects.length) :
    usedSlots (IGen.RNode.mk (c + 1) (rects.set c.toNat x)) = usedSlots (IGen.RNode.mk c rects) ++ [x] := by
  simp only [usedSlots, rects_mk, count_mk]
  rw [show (c + 1).toNat = c.toNat + 1 by omega]
  exact take_set_append rects c.toNat _ hc

theorem used_getElem (c : Int) (rects : List (IGen.RRect F)) (i : Nat) (hi : i < c.toNat)
    (hl : c.toNat ≤ rects.length) :
    ∃ h1 : i < (usedSlots (IGen.RNode.mk c rects)).length, ∃ h2 : i < rects.length,
      (usedSlots (IGen.RNode.mk c rects))[i] = rects[i] := by
  have h1 : i < (usedSlots (IGen.RNode.mk c rects)).length := by
    simp only [usedSlots, rects_mk, count_mk, List.length_take]; omega
  refine ⟨h1, by omega, ?_⟩
  simp only [usedSlots, rects_mk, count_mk, List.getElem_take]

theorem mem_set_of {α : Type} (l : List α) (i : Nat) (x y : α) (h : y ∈ l.set i x) : y = x ∨ y ∈ l := by
  rcases List.mem_or_eq_of_mem_set h with h | h
  · exact Or.inr h
  · exact Or.inl h

end Geo.IGlue.RIns

#print axioms Geo.IGlue.RIns.absNode_eq_absT
#print axioms Geo.IGlue.RIns.splitPair_absT
#print axioms Geo.IGlue.RIns.rInsertChild_at
