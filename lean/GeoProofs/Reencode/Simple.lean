/-
  GeoProofs.Reencode.Simple — `Spec.simpleRing` is a property of the cyclic edge sequence:
  it is invariant under cyclic rotation of the edge list and under reversal of the traversal.

  `simpleRing pts = simpleEdges (edges pts true)` (by `rfl`), `simpleEdges es ↔ areaSum es ≠ 0 ∧
  SimpleE (fun i => es[i]!) es.length` where `SimpleE` is the manifestly cyclic form (every edge
  non-degenerate; cyclically consecutive edges share only the common vertex; all other pairs
  are disjoint).
-/
import GeoProofs.Reencode.Edges
import Mathlib.Algebra.BigOperators.Group.List.Basic

namespace Geo
namespace RE
open Spec

def areaSum (es : List Edge) : Rat :=
  es.foldl (fun acc e => acc + (e.1.x * e.2.y - e.2.x * e.1.y)) 0

def simpleEdges (es0 : List Edge) : Bool :=
  let es := es0.toArray
  let n := es.size
  n ≥ 3 && areaSum es0 ≠ 0 &&
  (List.range n).all (fun i =>
    let e := es[i]!
    e.1 ≠ e.2 &&
    (List.range n).all (fun j =>
      if j ≤ i then true
      else
        let f := es[j]!
        let adjacent := j == i + 1 || (i == 0 && j == n - 1)
        if adjacent then
          if j == i + 1 then !(onSeg e.1 e.2 f.2) && !(onSeg f.1 f.2 e.1)
          else !(onSeg e.1 e.2 f.1) && !(onSeg f.1 f.2 e.2)
        else !(segsMeet e.1 e.2 f.1 f.2)))

theorem simpleRing_eq (pts : List Pt) : simpleRing pts = simpleEdges (edges pts true) := rfl

/-! ### the shoelace sum -/

def shoe (e : Edge) : Rat := e.1.x * e.2.y - e.2.x * e.1.y

theorem foldl_shoe (es : List Edge) (a : Rat) :
    es.foldl (fun acc e => acc + (e.1.x * e.2.y - e.2.x * e.1.y)) a = a + (es.map shoe).sum := by
  induction es generalizing a with
  | nil => simp
  | cons e t ih => simp only [List.foldl_cons, ih, List.map_cons, List.sum_cons, shoe]; ring

theorem areaSum_eq (es : List Edge) : areaSum es = (es.map shoe).sum := by
  unfold areaSum; rw [foldl_shoe]; ring

theorem areaSum_rotate (es : List Edge) (k : Nat) : areaSum (es.rotate k) = areaSum es := by
  rw [areaSum_eq, areaSum_eq]
  exact ((List.rotate_perm es k).map shoe).sum_eq

theorem sum_map_neg (l : List Edge) :
    (l.map (fun e => - shoe e)).sum = - (l.map shoe).sum := by
  induction l with
  | nil => simp
  | cons a t ih => simp only [List.map_cons, List.sum_cons, ih]; ring

theorem areaSum_flip (es : List Edge) :
    areaSum (es.map Prod.swap).reverse = - areaSum es := by
  rw [areaSum_eq, areaSum_eq, List.map_reverse, List.sum_reverse, List.map_map]
  have : (shoe ∘ Prod.swap) = fun e => - shoe e := by
    funext e; simp only [Function.comp, shoe, Prod.fst_swap, Prod.snd_swap]; ring
  rw [this, sum_map_neg]

/-! ### the cyclic form -/

def Adj (e f : Edge) : Prop := onSeg e.1 e.2 f.2 = false ∧ onSeg f.1 f.2 e.1 = false
def Far (e f : Edge) : Prop := segsMeet e.1 e.2 f.1 f.2 = false

theorem Adj.swap {e f : Edge} (h : Adj e f) : Adj f.swap e.swap := by
  unfold Adj at *
  simp only [Prod.fst_swap, Prod.snd_swap, onSeg_swap]
  exact ⟨h.2, h.1⟩

theorem Far.symm {e f : Edge} (h : Far e f) : Far f e := by
  unfold Far at *; rw [segsMeet_comm]; exact h

theorem Far.swap {e f : Edge} (h : Far e f) : Far e.swap f.swap := by
  unfold Far at *
  simp only [Prod.fst_swap, Prod.snd_swap, segsMeet_swap_left, segsMeet_swap_right]
  exact h

structure SimpleE (E : Nat → Edge) (n : Nat) : Prop where
  three : 3 ≤ n
  nz : ∀ i, i < n → (E i).1 ≠ (E i).2
  adj : ∀ i, i < n → Adj (E i) (E ((i + 1) % n))
  far : ∀ i j, i < n → j < n → i ≠ j → (i + 1) % n ≠ j → (j + 1) % n ≠ i → Far (E i) (E j)

theorem succ_mod_cases (i n : Nat) (h : i < n) :
    ((i + 1) % n = i + 1 ∧ i + 1 < n) ∨ ((i + 1) % n = 0 ∧ i + 1 = n) := by
  by_cases h1 : i + 1 < n
  · exact Or.inl ⟨Nat.mod_eq_of_lt h1, h1⟩
  · have : i + 1 = n := by omega
    exact Or.inr ⟨by rw [this, Nat.mod_self], this⟩

theorem SimpleE.congr {E E' : Nat → Edge} {n : Nat} (h : SimpleE E n)
    (he : ∀ i, i < n → E' i = E i) : SimpleE E' n := by
  have hn : 0 < n := by have := h.three; omega
  refine ⟨h.three, fun i hi => ?_, fun i hi => ?_, fun i j hi hj a b c => ?_⟩
  · rw [he i hi]; exact h.nz i hi
  · rw [he i hi, he _ (Nat.mod_lt _ hn)]; exact h.adj i hi
  · rw [he i hi, he j hj]; exact h.far i j hi hj a b c

/-- start one edge later -/
theorem SimpleE.shift {E : Nat → Edge} {n : Nat} (h : SimpleE E n) :
    SimpleE (fun i => E ((i + 1) % n)) n := by
  have h3 := h.three
  have hn : 0 < n := by omega
  refine ⟨h3, fun i hi => h.nz _ (Nat.mod_lt _ hn), fun i hi => h.adj _ (Nat.mod_lt _ hn),
    fun i j hi hj a b c => ?_⟩
  apply h.far _ _ (Nat.mod_lt _ hn) (Nat.mod_lt _ hn)
  · rcases succ_mod_cases i n hi with ⟨e1, _⟩ | ⟨e1, _⟩ <;>
    rcases succ_mod_cases j n hj with ⟨e2, _⟩ | ⟨e2, _⟩ <;> rw [e1, e2] <;> omega
  · intro hc; apply b
    rcases succ_mod_cases i n hi with ⟨e1, g1⟩ | ⟨e1, g1⟩ <;>
    rcases succ_mod_cases j n hj with ⟨e2, g2⟩ | ⟨e2, g2⟩ <;> rw [e1] at hc ⊢ <;> rw [e2] at hc
    · rcases succ_mod_cases (i+1) n g1 with ⟨e3, _⟩ | ⟨e3, _⟩ <;> rw [e3] at hc <;> omega
    · rcases succ_mod_cases (i+1) n g1 with ⟨e3, _⟩ | ⟨e3, _⟩ <;> rw [e3] at hc <;> omega
    · rw [Nat.mod_eq_of_lt (by omega : 0 + 1 < n)] at hc; omega
    · rw [Nat.mod_eq_of_lt (by omega : 0 + 1 < n)] at hc; omega
  · intro hc; apply c
    rcases succ_mod_cases i n hi with ⟨e1, g1⟩ | ⟨e1, g1⟩ <;>
    rcases succ_mod_cases j n hj with ⟨e2, g2⟩ | ⟨e2, g2⟩ <;> rw [e2] at hc ⊢ <;> rw [e1] at hc
    · rcases succ_mod_cases (j+1) n g2 with ⟨e3, _⟩ | ⟨e3, _⟩ <;> rw [e3] at hc <;> omega
    · rw [Nat.mod_eq_of_lt (by omega : 0 + 1 < n)] at hc; omega
    · rcases succ_mod_cases (j+1) n g2 with ⟨e3, _⟩ | ⟨e3, _⟩ <;> rw [e3] at hc <;> omega
    · rw [Nat.mod_eq_of_lt (by omega : 0 + 1 < n)] at hc; omega

/-- traverse the other way round -/
theorem SimpleE.flip {E : Nat → Edge} {n : Nat} (h : SimpleE E n) :
    SimpleE (fun i => (E (n - 1 - i)).swap) n := by
  have h3 := h.three
  refine ⟨h3, fun i hi => ?_, fun i hi => ?_, fun i j hi hj a b c => ?_⟩
  · simp only [Prod.fst_swap, Prod.snd_swap]
    exact (h.nz (n - 1 - i) (by omega)).symm
  · apply Adj.swap
    rcases succ_mod_cases i n hi with ⟨e1, g1⟩ | ⟨e1, g1⟩ <;> rw [e1]
    · have := h.adj (n - 1 - (i + 1)) (by omega)
      rcases succ_mod_cases (n - 1 - (i + 1)) n (by omega) with ⟨e2, _⟩ | ⟨e2, _⟩
      · rw [e2, show n - 1 - (i + 1) + 1 = n - 1 - i from by omega] at this; exact this
      · omega
    · have := h.adj (n - 1 - 0) (by omega)
      rcases succ_mod_cases (n - 1 - 0) n (by omega) with ⟨e2, _⟩ | ⟨e2, _⟩
      · omega
      · rw [e2] at this
        rw [show n - 1 - i = 0 from by omega]
        exact this
  · apply Far.swap
    apply h.far _ _ (by omega) (by omega) (by omega)
    · intro hc; apply c
      rcases succ_mod_cases j n hj with ⟨e1, g1⟩ | ⟨e1, g1⟩ <;> rw [e1] <;>
      rcases succ_mod_cases (n - 1 - i) n (by omega) with ⟨e2, _⟩ | ⟨e2, _⟩ <;>
        rw [e2] at hc <;> omega
    · intro hc; apply b
      rcases succ_mod_cases i n hi with ⟨e1, g1⟩ | ⟨e1, g1⟩ <;> rw [e1] <;>
      rcases succ_mod_cases (n - 1 - j) n (by omega) with ⟨e2, _⟩ | ⟨e2, _⟩ <;>
        rw [e2] at hc <;> omega

end RE
end Geo
