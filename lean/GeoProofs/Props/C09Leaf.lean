/-
  Property C09, leaf level: the leaf hypotheses of the reductions in Props/C09.lean, discharged
  for ALL five kinds of geometry leaves (Point, SimplePoint, LineString, Polygon, Rect), and the
  resulting object-level laws.

  WELL-FORMEDNESS.  `Obj.LeafWF` (GeoProofs/Algebra/LeafWF.lean) is purely structural: the `rect`
  field of a LineString's series / a Polygon's exterior series is the rectangle `processPoints`
  computes from its points, and its search is exact (no index, or a built index).  It holds for
  everything `mkSeries` makes; it says nothing about validity, simplicity, closed / convex /
  clockwise flags, holes.  It cannot be dropped: the model's `Series` is a raw structure
  (`leaf_rects_meet_rawseries_counterexample`).  Z/M values, foreign members, ordinate texts,
  `fin` flags, the `poss`/`rings` position lists and the `indexed` flag of collections do not
  occur in any statement: the predicates on leaves factor through `Obj.geom`
  (`leaf_intersects_geom`, `leaf_contains_geom`).
-/
import GeoProofs.Props.C09
import GeoProofs.Algebra.GeomLaws
import GeoProofs.Algebra.Lift2
import GeoProofs.Algebra.LeafOK
import GeoProofs.Algebra.ContIntGeom
import GeoProofs.Algebra.LeafOKx

namespace Geo
open Obj

/-! ## 1. Intersects ⇒ the rectangles meet -/

theorem leaf_intersects_rects_meet (a b : Obj) (ha : a.isLeaf = true) (hb : b.isLeaf = true)
    (wa : a.LeafWF) (wb : b.LeafWF) (h : a.intersects b = true) :
    a.rect.intersects b.rect = true := by
  rw [leaf_intersects_geom a b ha hb] at h
  rw [leaf_rect_geom a ha, leaf_rect_geom b hb, Box.intersects_comm]
  exact geom_intersects_rects_meet _ _ wb wa h

/-- for ALL objects with structurally well-formed leaves -/
theorem intersects_implies_rects_meet (a b : Obj) (wa : a.AllLeaves Obj.LeafWF)
    (wb : b.AllLeaves Obj.LeafWF) (h : a.intersects b = true) : a.rect.intersects b.rect = true :=
  intersects_rects_meet_lift_on (C := Obj.LeafWF)
    (fun a b ha hb ca cb => leaf_intersects_rects_meet a b ha hb ca cb) a b wa wb h

section raw
private def rp : Obj := .spoint ⟨⟨1, 0⟩, true, "1", "0"⟩
/-- a LineString whose `rect` FIELD is not the rectangle of its points -/
private def rl : Obj :=
  .lineString ⟨#[⟨0, 0⟩, ⟨2, 0⟩], false, false, false, ⟨⟨5, 5⟩, ⟨6, 6⟩⟩, none⟩ [] none

/-- without `LeafWF` the law fails in the MODEL (not replayable on the Go code, where the
    rectangle is always computed): Point × LineString never looks at the line's rectangle -/
theorem leaf_rects_meet_rawseries_counterexample :
    rp.intersects rl = true ∧ rp.rect.intersects rl.rect = false := by
  constructor
  · rw [leaf_intersects_geom rp rl rfl rfl]; decide +kernel
  · decide +kernel
end raw

/-! ## 2. Contains ⇒ the receiver's rectangle covers the argument's -/

def Obj.isLineString : Obj → Bool
  | .lineString _ _ _ => true
  | _ => false

/-- every pair of leaf kinds except LineString ⊇ LineString -/
theorem leaf_contains_rect_covers (a b : Obj) (ha : a.isLeaf = true) (hb : b.isLeaf = true)
    (wa : a.LeafWF) (hLL : ¬ (a.isLineString = true ∧ b.isLineString = true))
    (h : a.contains b = true) : a.rect.containsBox b.rect = true := by
  rw [leaf_contains_geom a b ha hb] at h
  rw [leaf_rect_geom a ha, leaf_rect_geom b hb]
  refine geom_contains_rect_covers _ _ wa ?_ h
  rintro ⟨h1, h2⟩
  apply hLL
  cases a <;> cases b <;> simp_all [Obj.geom, Geom.isLine, Obj.isLineString]

section d4
private def l1 : Obj := .lineString (mkSeries #[⟨0, 0⟩, ⟨2, 0⟩] false .none 0) [] none
private def l2 : Obj := .lineString (mkSeries #[⟨0, 0⟩, ⟨1, 0⟩, ⟨1, 2⟩] false .none 0) [] none

/-- LineString ⊇ LineString (finding D4, the segment walk of `Line.ContainsLine` skips an
    argument segment that starts strictly inside the current receiver segment):
    `[(0,0),(2,0)]` "contains" `[(0,0),(1,0),(1,2)]`, whose rectangle sticks out. -/
theorem leaf_contains_rect_covers_line_line_counterexample :
    l1.contains l2 = true ∧ l1.rect.containsBox l2.rect = false ∧
    l1.LeafWF ∧ l2.LeafWF := by
  refine ⟨?_, by decide +kernel, mkSeries_WF_none _ _ _, mkSeries_WF_none _ _ _⟩
  rw [leaf_contains_geom l1 l2 rfl rfl]; decide +kernel
end d4

/-- no LineString among the geometry atoms -/
def Obj.NoLineString (x : Obj) : Prop := Obj.AllLeaves (fun g => g.isLineString = false) x

/-- for ALL objects with well-formed receiver leaves, provided one side has no LineString atom -/
theorem contains_implies_rect_covers (a b : Obj) (wa : a.AllLeaves Obj.LeafWF)
    (hLL : a.NoLineString ∨ b.NoLineString) (h : a.contains b = true) :
    a.rect.containsBox b.rect = true := by
  rcases hLL with hn | hn
  · refine contains_rect_covers_lift_on2 (CA := fun g => g.LeafWF ∧ g.isLineString = false)
      (CB := fun _ => True) (fun a b ha hb ca _ => leaf_contains_rect_covers a b ha hb ca.1
        (fun hh => by rw [ca.2] at hh; cases hh.1)) a b
      (fun g hg hl => ⟨wa g hg hl, hn g hg hl⟩) (allLeaves_true b) h
  · refine contains_rect_covers_lift_on2 (CA := Obj.LeafWF)
      (CB := fun g => g.isLineString = false) (fun a b ha hb ca cb => leaf_contains_rect_covers a b ha hb ca
        (fun hh => by rw [cb] at hh; cases hh.2)) a b wa hn h

/-! ## 3. an empty object intersects nothing -/

theorem leaf_empty_intersects_false (a b : Obj) (ha : a.isLeaf = true) (hb : b.isLeaf = true)
    (wa : a.LeafWF) (wb : b.LeafWF) (h : a.empty = true ∨ b.empty = true) :
    a.intersects b = false := by
  rw [leaf_intersects_geom a b ha hb]
  rw [leaf_empty_geom a ha, leaf_empty_geom b hb] at h
  exact geom_intersects_empty _ _ wb wa h.symm

theorem intersects_empty_false_all (a b : Obj) (wa : a.AllLeaves Obj.LeafWF)
    (wb : b.AllLeaves Obj.LeafWF) (h : a.empty = true ∨ b.empty = true) : a.intersects b = false :=
  intersects_of_empty_lift_on (C := Obj.LeafWF)
    (fun a b ha hb ca cb => leaf_empty_intersects_false a b ha hb ca cb) a b wa wb h

/-- the rectangle prefilters of `collection.Search` and the Feature boundary are invisible to
    Intersects: it holds iff some geometry atom of `a` intersects some geometry atom of `b` -/
theorem intersects_iff_atoms_all (a b : Obj) (wa : a.AllLeaves Obj.LeafWF)
    (wb : b.AllLeaves Obj.LeafWF) :
    a.intersects b = true ↔ ∃ la ∈ a.geoLeaves, ∃ lb ∈ b.geoLeaves, la.intersects lb = true :=
  intersects_iff_geoLeaves_on (C := Obj.LeafWF)
    (fun a b ha hb ca cb => leaf_intersects_rects_meet a b ha hb ca cb)
    (fun a b ha hb ca cb => leaf_empty_intersects_false a b ha hb ca cb) a b wa wb

/-- a Feature ARGUMENT is transparent for Intersects, for every receiver (unlike Contains, D16) -/
theorem feature_argument_transparent_intersects_all (a base : Obj) (ex : Option Extra)
    (wa : a.AllLeaves Obj.LeafWF) (wb : base.AllLeaves Obj.LeafWF) :
    a.intersects (Obj.feature base ex) = a.intersects base := by
  have wf : (Obj.feature base ex).AllLeaves Obj.LeafWF := by
    intro g hg; rw [Obj.geoLeaves] at hg; exact wb g hg
  rw [Bool.eq_iff_iff, intersects_iff_atoms_all a _ wa wf, intersects_iff_atoms_all a base wa wb,
    Obj.geoLeaves]

/-! ## 4. symmetry of Intersects

`Obj.LeafSymOK` is STRUCTURAL (no validity, no simplicity, holes arbitrary): a LineString's
series is well-formed (`Series.WF`), a Polygon's exterior ring is `mkSeries pts true kind m` with
an exact search.  Point, SimplePoint, Rect: no condition (inverted rectangles included). -/

theorem leaf_intersects_symm (a b : Obj) (ha : a.isLeaf = true) (hb : b.isLeaf = true)
    (sa : a.LeafSymOK) (sb : b.LeafSymOK) : a.intersects b = b.intersects a := by
  rw [leaf_intersects_geom a b ha hb, leaf_intersects_geom b a hb ha]
  exact geom_intersects_symm _ _ sb sa

/-- symmetry on ALL objects (collections, features, nesting, circles) with structurally
    well-made leaves -/
theorem intersects_symm_made (a b : Obj) (sa : a.AllLeaves Obj.LeafSymOK)
    (sb : b.AllLeaves Obj.LeafSymOK) : a.intersects b = b.intersects a :=
  intersects_symm_lift_on (C := Obj.LeafSymOK)
    (fun a b ha hb ca cb => leaf_empty_intersects_false a b ha hb ca.wf cb.wf)
    (fun a b ha hb ca cb => leaf_intersects_symm a b ha hb ca cb) a b sa sb

/-- in particular for objects whose leaves are valid shapes -/
theorem intersects_symm_valid (a b : Obj) (oa : a.AllLeaves Obj.LeafOK) (ob : b.AllLeaves Obj.LeafOK) :
    a.intersects b = b.intersects a :=
  intersects_symm_made a b (allLeaves_mono (fun _ h => h.symOK) oa) (allLeaves_mono (fun _ h => h.symOK) ob)

/-! ## 5. Contains ⇒ Intersects -/

def Obj.isPolygon : Obj → Bool
  | .polygon _ _ _ => true
  | _ => false

/-- below the ≥ 16-point rectangle shortcut of `ringContainsRing`: the LineString / the Polygon's
    exterior ring has fewer than 16 points (Point, Rect: always) -/
def Obj.Small (b : Obj) : Prop := b.shape.numPts < complexRingMinPoints

/-- leaves that are valid shapes (hence non-empty); when the receiver is a Polygon the argument
    must be `Small` (finding D19, `leaf_contains_intersects_shortcut_counterexample`).
    LineString ⊇ LineString is included: D4 accepts too much, but the first segment of the
    argument does lie on the receiver. -/
theorem leaf_contains_intersects (a b : Obj) (ha : a.isLeaf = true) (hb : b.isLeaf = true)
    (oa : a.LeafOK) (ob : b.LeafOK) (hsmall : a.isPolygon = true → b.Small)
    (h : a.contains b = true) : a.intersects b = true := by
  rw [leaf_intersects_symm a b ha hb oa.symOK ob.symOK, leaf_intersects_geom b a hb ha]
  rw [leaf_contains_geom a b ha hb] at h
  have key := build_contains_intersects a.geom.shape b.geom.shape oa.1 ob.1 oa.2.1 ob.2.1
    (fun hp => hsmall (by
      cases a <;> simp_all [Obj.geom, Geom.shape, Spec.Shape.isPolyS, Obj.isPolygon]))
  rw [← oa.2.2, ← ob.2.2] at key
  exact key h

section d19
/-- a simple concave ring: the square `[0,20]²` minus a four-pointed star with a channel to the
    outside (the shapes of finding D19, Props/C03General.lean) -/
private def ringStar : List Pt :=
  [⟨0,0⟩,⟨20,0⟩,⟨20,8⟩,⟨12,8⟩,⟨10,2⟩,⟨8,8⟩,⟨2,10⟩,⟨8,12⟩,⟨10,18⟩,⟨12,12⟩,⟨20,12⟩,⟨20,20⟩,⟨0,20⟩,⟨0,0⟩]
/-- a 16-vertex diamond inside the star, i.e. OUTSIDE the ring -/
private def diamond16 : List Pt :=
  [⟨10,8⟩,⟨21/2,17/2⟩,⟨11,9⟩,⟨23/2,19/2⟩,⟨12,10⟩,⟨23/2,21/2⟩,⟨11,11⟩,⟨21/2,23/2⟩,⟨10,12⟩,
   ⟨19/2,23/2⟩,⟨9,11⟩,⟨17/2,21/2⟩,⟨8,10⟩,⟨17/2,19/2⟩,⟨9,9⟩,⟨19/2,17/2⟩,⟨10,8⟩]
private def starO : Obj := .polygon ⟨some (.ser (mkSeries ringStar.toArray true .none 0)), []⟩ [] none
private def diaO : Obj := .polygon ⟨some (.ser (mkSeries diamond16.toArray true .none 0)), []⟩ [] none
private def diaL : Obj := .lineString (mkSeries diamond16.toArray false .none 0) [] none

private theorem ok_of_noholes (S : Spec.Shape) (hv : S.valid = true) (hn : S.holes = []) : (build S).OK :=
  Geom.OK.of_build S hv (fun h hh => by rw [hn] at hh; cases hh)

/-- Contains ⇒ Intersects FAILS on valid shapes above the shortcut threshold: the star-notched
    square "contains" (D19) the 16-vertex diamond — Polygon or LineString — that lies entirely
    in its notch, and (correctly) does not intersect it. -/
theorem leaf_contains_intersects_shortcut_counterexample :
    (starO.contains diaO = true ∧ starO.intersects diaO = false) ∧
    (starO.contains diaL = true ∧ starO.intersects diaL = false) ∧
    starO.LeafOK ∧ diaO.LeafOK ∧ diaL.LeafOK := by
  refine ⟨⟨?_, ?_⟩, ⟨?_, ?_⟩, ?_, ?_, ?_⟩
  · rw [leaf_contains_geom starO diaO rfl rfl]; decide +kernel
  · rw [leaf_intersects_geom starO diaO rfl rfl]; decide +kernel
  · rw [leaf_contains_geom starO diaL rfl rfl]; decide +kernel
  · rw [leaf_intersects_geom starO diaL rfl rfl]; decide +kernel
  · exact ok_of_noholes (.poly ringStar []) (by decide +kernel) rfl
  · exact ok_of_noholes (.poly diamond16 []) (by decide +kernel) rfl
  · exact ok_of_noholes (.line diamond16) (by decide +kernel) rfl
end d19

/-- no Polygon among the geometry atoms -/
def Obj.NoPolygon (x : Obj) : Prop := Obj.AllLeaves (fun g => g.isPolygon = false) x

/-- object level: leaves valid shapes; either the receiver has no Polygon atom or every atom of
    the argument is `Small` -/
theorem contains_implies_intersects_valid (a b : Obj) (oa : a.AllLeaves Obj.LeafOK)
    (ob : b.AllLeaves Obj.LeafOK) (hsmall : a.NoPolygon ∨ b.AllLeaves Obj.Small)
    (h : a.contains b = true) : a.intersects b = true := by
  rcases hsmall with hn | hs
  · exact contains_intersects_lift_on2 (CA := fun g => g.LeafOK ∧ g.isPolygon = false)
      (CB := Obj.LeafOK) (fun a b ha hb ca cb => leaf_contains_intersects a b ha hb ca.1 cb
        (fun hp => by rw [ca.2] at hp; cases hp)) a b
      (fun g hg hl => ⟨oa g hg hl, hn g hg hl⟩) ob h
  · exact contains_intersects_lift_on2 (CA := Obj.LeafOK)
      (CB := fun g => g.LeafOK ∧ g.Small) (fun a b ha hb ca cb => leaf_contains_intersects a b ha hb ca cb.1
        (fun _ => cb.2)) a b oa (fun g hg hl => ⟨ob g hg hl, hs g hg hl⟩) h

/-! ## 6. exactness of Intersects against the specification -/

/-- on leaves that are valid shapes, Intersects IS `Spec.meets` of the shapes -/
theorem leaf_intersects_exact (a b : Obj) (ha : a.isLeaf = true) (hb : b.isLeaf = true)
    (oa : a.LeafOK) (ob : b.LeafOK) : a.intersects b = Spec.meets a.shape b.shape := by
  rw [leaf_intersects_geom a b ha hb, Geom.OK.intersects_eq ob oa]
  exact spec_meets_comm _ _ ob.1 oa.1

/-- object-level exactness: `a.Intersects(b)` iff some geometry leaf of `a` and some geometry leaf
    of `b` (through collections and features) share a point according to the specification -/
theorem intersects_exact (a b : Obj) (oa : a.AllLeaves Obj.LeafOK) (ob : b.AllLeaves Obj.LeafOK) :
    a.intersects b = true ↔
      ∃ la ∈ a.geoLeaves, ∃ lb ∈ b.geoLeaves, la.isLeaf = true ∧ lb.isLeaf = true ∧
        Spec.meets la.shape lb.shape = true := by
  rw [intersects_iff_atoms_all a b (allLeaves_mono (fun _ h => h.wf) oa) (allLeaves_mono (fun _ h => h.wf) ob)]
  constructor
  · rintro ⟨la, hla, lb, hlb, h⟩
    have aa := geoLeaves_atom a la hla
    have ab := geoLeaves_atom b lb hlb
    rcases isLeaf_or_circle aa with la' | ⟨c, r, rfl⟩
    · rcases isLeaf_or_circle ab with lb' | ⟨c, r, rfl⟩
      · refine ⟨la, hla, lb, hlb, la', lb', ?_⟩
        rw [← leaf_intersects_exact la lb la' lb' (oa la hla la') (ob lb hlb lb')]; exact h
      · rw [atom_intersects_circle aa] at h; cases h
    · rw [circle_intersects] at h; cases h
  · rintro ⟨la, hla, lb, hlb, la', lb', h⟩
    refine ⟨la, hla, lb, hlb, ?_⟩
    rw [leaf_intersects_exact la lb la' lb' (oa la hla la') (ob lb hlb lb')]; exact h

/-! ### … and with indexes

`Obj.LeafOKx`: the leaf's geometry is `g.build` for a build configuration `g : GCfg` (vertex
arrays, index kind and threshold per series) whose searches are exact (`GCfg.Exact`; from size
bounds: `GCfg.Sized.exact`), and the index-free `g.plain` is a valid shape.  `LeafOK ⇒ LeafOKx`. -/

theorem leaf_intersects_exact_indexed (a b : Obj) (ha : a.isLeaf = true) (hb : b.isLeaf = true)
    (oa : a.LeafOKx) (ob : b.LeafOKx) : a.intersects b = Spec.meets a.shape b.shape := by
  rw [leaf_intersects_geom a b ha hb, Geom.OKx.intersects_eq ob oa]
  exact spec_meets_comm _ _ (Geom.OKx.valid ob) (Geom.OKx.valid oa)

theorem intersects_exact_indexed (a b : Obj) (oa : a.AllLeaves Obj.LeafOKx) (ob : b.AllLeaves Obj.LeafOKx) :
    a.intersects b = true ↔
      ∃ la ∈ a.geoLeaves, ∃ lb ∈ b.geoLeaves, la.isLeaf = true ∧ lb.isLeaf = true ∧
        Spec.meets la.shape lb.shape = true := by
  rw [intersects_iff_atoms_all a b (allLeaves_mono (fun _ h => h.wf) oa) (allLeaves_mono (fun _ h => h.wf) ob)]
  constructor
  · rintro ⟨la, hla, lb, hlb, h⟩
    have aa := geoLeaves_atom a la hla
    have ab := geoLeaves_atom b lb hlb
    rcases isLeaf_or_circle aa with la' | ⟨c, r, rfl⟩
    · rcases isLeaf_or_circle ab with lb' | ⟨c, r, rfl⟩
      · refine ⟨la, hla, lb, hlb, la', lb', ?_⟩
        rw [← leaf_intersects_exact_indexed la lb la' lb' (oa la hla la') (ob lb hlb lb')]; exact h
      · rw [atom_intersects_circle aa] at h; cases h
    · rw [circle_intersects] at h; cases h
  · rintro ⟨la, hla, lb, hlb, la', lb', h⟩
    refine ⟨la, hla, lb, hlb, ?_⟩
    rw [leaf_intersects_exact_indexed la lb la' lb' (oa la hla la') (ob lb hlb lb')]; exact h

/-! ## the hypotheses are what the constructors produce -/

/-- below the index threshold (or with threshold 0, or kind `none`) `mkSeries` builds no index:
    the series IS the plain one used by `build` -/
theorem mkSeries_eq_plain (pts : Array Pt) (closed : Bool) (kind : IndexKind) (m : Nat)
    (h : m = 0 ∨ pts.size < m ∨ kind = .none) : mkSeries pts closed kind m = mkSeries pts closed .none 0 := by
  unfold mkSeries
  simp only [Series.mk.injEq, true_and]
  rcases h with h | h | h
  · subst h; simp
  · have : ¬ pts.size ≥ m := by omega
    simp [this]
  · subst h; simp [buildIndexBytes]

theorem leafWF_lineString (pts : Array Pt) (kind : IndexKind) (m : Nat) (poss : List Pos)
    (ex : Option Extra) (h : (mkSeries pts false kind m).SearchExact) :
    (Obj.lineString (mkSeries pts false kind m) poss ex).LeafWF := mkSeries_WF pts false kind m h

theorem leafSymOK_lineString (pts : Array Pt) (kind : IndexKind) (m : Nat) (poss : List Pos)
    (ex : Option Extra) (h : (mkSeries pts false kind m).SearchExact) :
    (Obj.lineString (mkSeries pts false kind m) poss ex).LeafSymOK := mkSeries_WF pts false kind m h

/-- any holes -/
theorem leafSymOK_polygon (ext : Array Pt) (kind : IndexKind) (m : Nat) (holes : List Ring)
    (rings : List (List Pos)) (ex : Option Extra) (h : (mkSeries ext true kind m).SearchExact) :
    (Obj.polygon ⟨some (.ser (mkSeries ext true kind m)), holes⟩ rings ex).LeafSymOK := by
  intro e he
  simp only [Option.some.injEq] at he
  subst he
  exact ⟨ext, kind, m, rfl, h⟩

theorem leafWF_polygon (ext : Array Pt) (kind : IndexKind) (m : Nat) (holes : List Ring)
    (rings : List (List Pos)) (ex : Option Extra) (h : (mkSeries ext true kind m).SearchExact) :
    (Obj.polygon ⟨some (.ser (mkSeries ext true kind m)), holes⟩ rings ex).LeafWF :=
  (leafSymOK_polygon ext kind m holes rings ex h).wf

/-- Point, SimplePoint, Rect: no structural condition; valid as shapes iff (Rect) min ≤ max -/
theorem leafSymOK_point_rect (a : Obj) (h : a.isPointOrRect = true) : a.LeafSymOK := by
  cases a <;> simp_all [Obj.isPointOrRect, Obj.LeafSymOK, Obj.geom, Geom.SymOK]

theorem leafOK_point (pos : Pos) (ex : Option Extra) :
    (Obj.point pos ex).LeafOK ∧ (Obj.spoint pos).LeafOK :=
  ⟨Geom.OK.of_build (.point pos.p) rfl (fun h hh => by cases hh),
   Geom.OK.of_build (.point pos.p) rfl (fun h hh => by cases hh)⟩

theorem leafOK_rect (b : Box) (lo hi : Pos) (hb : b.min.x ≤ b.max.x ∧ b.min.y ≤ b.max.y) :
    (Obj.rectO b lo hi).LeafOK :=
  Geom.OK.of_build (.rect b.min b.max) (by simp [Spec.Shape.valid, hb.1, hb.2]) (fun h hh => by cases hh)

/-- a LineString built from a valid vertex list (no index: kind `none`, threshold 0, or fewer
    points than the threshold) -/
theorem leafOK_lineString (pts : List Pt) (kind : IndexKind) (m : Nat) (poss : List Pos)
    (ex : Option Extra) (hv : (Spec.Shape.line pts).valid = true)
    (hidx : m = 0 ∨ pts.length < m ∨ kind = .none) :
    (Obj.lineString (mkSeries pts.toArray false kind m) poss ex).LeafOK := by
  rw [mkSeries_eq_plain _ _ _ _ (by simpa using hidx)]
  exact Geom.OK.of_build (.line pts) hv (fun h hh => by cases hh)

/-- a Polygon built from valid vertex lists, no index on any ring -/
theorem leafOK_polygon (ext : List Pt) (holes : List (List Pt)) (rings : List (List Pos))
    (ex : Option Extra) (hv : (Spec.Shape.poly ext holes).valid = true)
    (hc : IX.HolesConvexOK (.poly ext holes)) :
    (Obj.polygon ⟨some (.ser (mkSeries ext.toArray true .none 0)),
      holes.map (fun h => Ring.ser (mkSeries h.toArray true .none 0))⟩ rings ex).LeafOK :=
  Geom.OK.of_build (.poly ext holes) hv hc

end Geo

#print axioms Geo.leaf_intersects_rects_meet
#print axioms Geo.intersects_implies_rects_meet
#print axioms Geo.leaf_rects_meet_rawseries_counterexample
#print axioms Geo.leaf_contains_rect_covers
#print axioms Geo.leaf_contains_rect_covers_line_line_counterexample
#print axioms Geo.contains_implies_rect_covers
#print axioms Geo.leaf_empty_intersects_false
#print axioms Geo.intersects_empty_false_all
#print axioms Geo.intersects_iff_atoms_all
#print axioms Geo.feature_argument_transparent_intersects_all
#print axioms Geo.leaf_intersects_symm
#print axioms Geo.intersects_symm_made
#print axioms Geo.intersects_symm_valid
#print axioms Geo.leaf_intersects_exact
#print axioms Geo.intersects_exact
#print axioms Geo.leaf_contains_intersects
#print axioms Geo.leaf_contains_intersects_shortcut_counterexample
#print axioms Geo.contains_implies_intersects_valid
#print axioms Geo.mkSeries_eq_plain
#print axioms Geo.leafWF_lineString
#print axioms Geo.leafWF_polygon
#print axioms Geo.leafSymOK_polygon
#print axioms Geo.leafOK_point
#print axioms Geo.leafOK_rect
#print axioms Geo.leafOK_lineString
#print axioms Geo.leafOK_polygon
#print axioms Geo.leaf_intersects_exact_indexed
#print axioms Geo.intersects_exact_indexed
