/-
  GeoProofs.CoversSpec.Reach — K3: every point off a simple chain reaches a point seeing an open edge point
-/
import GeoProofs.CoversSpec.Corner

namespace Geo
namespace CS
open Jordan Cvx

variable {es : List (Pt × Pt)} {P : Nat → Pt} {n : Nat}

/-- two collinear rays from `v` pointing the same way share a point other than `v` -/
theorem ray_overlap {v a q : Pt} (hva : v ≠ a) (hq : v ≠ q) (hc : Spec.cross v a q = 0)
    (hd : 0 < (q.x - v.x) * (a.x - v.x) + (q.y - v.y) * (a.y - v.y)) :
    ∃ m, m ≠ v ∧ OnSeg v a m ∧ OnSeg v q m := by
  have L := len2_pos hq
  have D := len2_pos hva
  have hLD : 0 < len2 v q + len2 v a := by linarith
  have t0 : 0 < len2 v q / (len2 v q + len2 v a) := div_pos L hLD
  have t1 : len2 v q / (len2 v q + len2 v a) < 1 := by rw [div_lt_one hLD]; linarith
  refine ⟨lerp v a (len2 v q / (len2 v q + len2 v a)), (openOn_of_lerp hva t0 t1).2.1,
    onSeg_lerp v a t0.le t1.le, ?_⟩
  apply onSeg_of_collinear_dot hq
  · rw [cross_lerp, cross_self_fst]
    have : Spec.cross v q a = - Spec.cross v a q := by simp only [K.cross_def]; ring
    rw [this, hc]; ring
  · simp only [lerp]
    have : (v.x + len2 v q / (len2 v q + len2 v a) * (a.x - v.x) - v.x) * (q.x - v.x) +
        (v.y + len2 v q / (len2 v q + len2 v a) * (a.y - v.y) - v.y) * (q.y - v.y) =
        len2 v q / (len2 v q + len2 v a) *
          ((q.x - v.x) * (a.x - v.x) + (q.y - v.y) * (a.y - v.y)) := by ring
    rw [this]; exact (mul_pos t0 hd).le
  · simp only [lerp]
    have : (v.x + len2 v q / (len2 v q + len2 v a) * (a.x - v.x) - v.x) * (q.x - v.x) +
        (v.y + len2 v q / (len2 v q + len2 v a) * (a.y - v.y) - v.y) * (q.y - v.y) =
        len2 v q * ((q.x - v.x) * (a.x - v.x) + (q.y - v.y) * (a.y - v.y)) /
          (len2 v q + len2 v a) := by ring
    rw [this, div_le_iff₀ hLD]
    have am : (q.x - v.x) * (a.x - v.x) + (q.y - v.y) * (a.y - v.y) ≤ len2 v q + len2 v a := by
      unfold len2
      nlinarith [mul_self_nonneg ((q.x - v.x) - (a.x - v.x)), mul_self_nonneg ((q.y - v.y) - (a.y - v.y)),
        mul_self_nonneg (q.x - v.x), mul_self_nonneg (a.x - v.x), mul_self_nonneg (q.y - v.y),
        mul_self_nonneg (a.y - v.y)]
    exact mul_le_mul_of_nonneg_left am L.le

/-- a point `q ≠ v` from which `v` is seen is not on the lines of both edges at `v` -/
theorem RingD.not_both_collinear (R : RingD es P n) (k : Nat) {q : Pt} (hq : P (k+1) ≠ q)
    (hs : Sees es q (P (k+1))) :
    ¬ (Spec.cross (P k) (P (k+1)) q = 0 ∧ Spec.cross (P (k+1)) (P (k+2)) q = 0) := by
  rintro ⟨h1, h2⟩
  have h1' : Spec.cross (P (k+1)) (P k) q = 0 := by rw [K.cross_swap, h1]; simp
  by_cases d1 : 0 < (q.x - (P (k+1)).x) * ((P k).x - (P (k+1)).x) +
      (q.y - (P (k+1)).y) * ((P k).y - (P (k+1)).y)
  · obtain ⟨m, hm, hm1, hm2⟩ := ray_overlap (R.ne_succ k).symm hq h1' d1
    exact hm (hs _ (R.edge_mem k) m ((K.onSeg_symm _ _ _).1 hm2) ((K.onSeg_symm _ _ _).1 hm1))
  by_cases d2 : 0 < (q.x - (P (k+1)).x) * ((P (k+2)).x - (P (k+1)).x) +
      (q.y - (P (k+1)).y) * ((P (k+2)).y - (P (k+1)).y)
  · obtain ⟨m, hm, hm1, hm2⟩ := ray_overlap (R.ne_succ (k+1)) hq h2 d2
    exact hm (hs _ (R.edge_mem (k+1)) m ((K.onSeg_symm _ _ _).1 hm2) hm1)
  rw [not_lt] at d1 d2
  have L := len2_pos hq
  unfold len2 at L
  rw [K.cross_def] at h1 h2
  -- d1 ∥ d2 hence the corner is straight
  have hX : Spec.cross (P k) (P (k+1)) (P (k+2)) = 0 := by
    rw [K.cross_def]
    by_contra hne
    have e1 : (q.x - (P (k+1)).x) * (((P (k+1)).x - (P k).x) * ((P (k+2)).y - (P k).y) -
        ((P (k+1)).y - (P k).y) * ((P (k+2)).x - (P k).x)) = 0 := by
      linear_combination ((P (k+2)).x - (P (k+1)).x) * h1 - ((P (k+1)).x - (P k).x) * h2
    have e2 : (q.y - (P (k+1)).y) * (((P (k+1)).x - (P k).x) * ((P (k+2)).y - (P k).y) -
        ((P (k+1)).y - (P k).y) * ((P (k+2)).x - (P k).x)) = 0 := by
      linear_combination ((P (k+2)).y - (P (k+1)).y) * h1 - ((P (k+1)).y - (P k).y) * h2
    have x0 : q.x - (P (k+1)).x = 0 := (mul_eq_zero.1 e1).resolve_right hne
    have y0 : q.y - (P (k+1)).y = 0 := (mul_eq_zero.1 e2).resolve_right hne
    exact hq ((K.pt_eq_iff _ _).2 ⟨by linarith, by linarith⟩)
  have hdot := dot_pos_of_straight hX (R.simple.adj1 k) (R.simple.adj2 k)
  -- (u·d1)(u·d2) = |u|² (d1·d2) + (u×d1)(u×d2)
  nlinarith [mul_pos L hdot, mul_nonneg (neg_nonneg.2 d2) (neg_nonneg.2 d1), h1, h2,
    mul_nonneg (neg_nonneg.2 d1) (neg_nonneg.2 d2)]

end CS
end Geo

namespace Geo
namespace CS
open Jordan Cvx

variable {es : List (Pt × Pt)} {P : Nat → Pt} {n : Nat}

theorem lerp_ne {v p : Pt} (h : v ≠ p) {τ : Rat} (hτ : τ ≠ 0) : lerp v p τ ≠ v := by
  intro he
  apply h
  have hx := congrArg Pt.x he; have hy := congrArg Pt.y he
  simp only [lerp] at hx hy
  refine (K.pt_eq_iff _ _).2 ⟨?_, ?_⟩
  · have : τ * (p.x - v.x) = 0 := by linarith
    have := (mul_eq_zero.1 this).resolve_left hτ; linarith
  · have : τ * (p.y - v.y) = 0 := by linarith
    have := (mul_eq_zero.1 this).resolve_left hτ; linarith

theorem not_off_iff {x : Pt} : ¬ Off es x ↔ ∃ e ∈ es, OnSeg e.1 e.2 x := by
  unfold Off
  constructor
  · intro h
    by_contra hc
    exact h (fun e he hx => hc ⟨e, he, hx⟩)
  · rintro ⟨e, he, hx⟩ h; exact h e he hx

/-- inside the zone of the vertex `P (k+1)`: a first hit that is not the vertex is an open
    point of one of its two edges -/
theorem RingD.reach_in_zone (R : RingD es P n) (k : Nat) {ε : Rat}
    (hzone : ∀ w z, Near ε w (P (k+1)) → Near ε z (P (k+1)) → ∀ e ∈ es, ∀ x,
      OnSeg w z x → OnSeg e.1 e.2 x → e = (P k, P (k+1)) ∨ e = (P (k+1), P (k+2)))
    {q t : Pt} (hq : Off es q) (hn1 : Near ε q (P (k+1))) (hn2 : Near ε t (P (k+1)))
    (ht : ¬ Off es t) (hv : ¬ OnSeg q t (P (k+1))) :
    ∃ i z, OpenOn (P i) (P (i+1)) z ∧ Sees es q z ∧ q ≠ z := by
  obtain ⟨z, hz1, hz2, hz3⟩ := first_hit es q t hq ht
  have hqz : q ≠ z := by rintro rfl; exact hz2 hq
  obtain ⟨e, he, hez⟩ := not_off_iff.1 hz2
  have hn := R.npos
  have per := R.simple.per
  have zv : z ≠ P (k+1) := by rintro rfl; exact hv hz1
  have zk : z ≠ P k := by
    rintro rfl
    have pk : P (k + n - 1 + 1) = P k := by rw [show k + n - 1 + 1 = k + n from by omega, per]
    have hon : OnSeg (P (k + n - 1)) (P (k + n - 1 + 1)) (P k) := by rw [pk]; exact K.onSeg_right _ _
    rcases hzone q t hn1 hn2 _ (R.edge_mem (k + n - 1)) _ hz1 hon with h | h
    · have := (Prod.mk.inj h).2
      rw [pk] at this
      exact R.ne_succ k this
    · have := (Prod.mk.inj h).2
      rw [pk] at this
      exact R.simple.adj1 k (by rw [← this]; exact K.onSeg_left _ _)
  have zk2 : z ≠ P (k+2) := by
    rintro rfl
    rcases hzone q t hn1 hn2 _ (R.edge_mem (k + 2)) _ hz1 (K.onSeg_left _ _) with h | h
    · have := (Prod.mk.inj h).1
      exact R.simple.adj1 k (by rw [this]; exact K.onSeg_left _ _)
    · have := (Prod.mk.inj h).1
      exact R.ne_succ (k+1) this.symm
  rcases hzone q t hn1 hn2 e he z hz1 hez with rfl | rfl
  · exact ⟨k, z, ⟨hez, zk, zv⟩, hz3, hqz⟩
  · exact ⟨k+1, z, ⟨hez, zv, zk2⟩, hz3, hqz⟩

end CS
end Geo

namespace Geo
namespace CS
open Jordan Cvx

variable {es : List (Pt × Pt)} {P : Nat → Pt} {n : Nat}

theorem half_near {ε : Rat} {v a : Pt} {τ : Rat} (τ0 : 0 < τ) (τ1 : τ ≤ 1)
    (h : Near ε (lerp v a τ) v) (hva : v ≠ a) :
    Near ε (lerp v a (τ / 2)) v ∧ OpenOn v a (lerp v a (τ / 2)) :=
  ⟨near_lerp_mono h (by linarith) (by linarith),
    openOn_of_lerp hva (by linarith) (by linarith)⟩

/-- from a point that sees a vertex one reaches a point that sees an open edge point -/
theorem RingD.reach_vertex (R : RingD es P n) (k : Nat) {p : Pt} (hp : Off es p)
    (hs : Sees es p (P (k+1))) :
    ∃ q i z, Avoid es p q ∧ OpenOn (P i) (P (i+1)) z ∧ Sees es q z ∧ q ≠ z := by
  have hvp : P (k+1) ≠ p := by
    rintro h; exact hp _ (R.edge_mem k) (by rw [← h]; exact K.onSeg_right _ _)
  obtain ⟨ε, hε, hzone⟩ := R.vertex_zone k
  obtain ⟨τ, τ0, τ1, hn⟩ := exists_near_on_seg p (P (k+1)) ε hε
  change Near ε (lerp (P (k+1)) p τ) (P (k+1)) at hn
  have hq1v : lerp (P (k+1)) p τ ≠ P (k+1) := lerp_ne hvp τ0.ne'
  have hav : Avoid es p (lerp (P (k+1)) p τ) := avoid_towards hs hvp.symm τ0 τ1
  have hon : OnSeg p (P (k+1)) (lerp (P (k+1)) p τ) :=
    (K.onSeg_symm _ _ _).1 (onSeg_lerp _ _ τ0.le τ1)
  have hs1 : Sees es (lerp (P (k+1)) p τ) (P (k+1)) := fun e he x hx hex =>
    hs e he x (K.onSeg_convex hon (K.onSeg_right _ _) hx) hex
  have hoff : Off es (lerp (P (k+1)) p τ) := fun e he hx =>
    hq1v (hs e he _ hon hx)
  have hnb := R.not_both_collinear k hq1v.symm hs1
  obtain ⟨τa, a0, a1, hna⟩ := exists_near_on_seg (P k) (P (k+1)) ε hε
  obtain ⟨τc, c0, c1, hnc⟩ := exists_near_on_seg (P (k+2)) (P (k+1)) ε hε
  change Near ε (lerp (P (k+1)) (P k) τa) (P (k+1)) at hna
  change Near ε (lerp (P (k+1)) (P (k+2)) τc) (P (k+1)) at hnc
  obtain ⟨hna', hoa⟩ := half_near a0 a1 hna (R.ne_succ k).symm
  obtain ⟨hnc', hoc⟩ := half_near c0 c1 hnc (R.ne_succ (k+1))
  by_cases hc1 : Spec.cross (P k) (P (k+1)) (lerp (P (k+1)) p τ) = 0
  · have hc2 : Spec.cross (P (k+1)) (P (k+2)) (lerp (P (k+1)) p τ) ≠ 0 := fun h => hnb ⟨hc1, h⟩
    obtain ⟨i, z, h1, h2, h3⟩ := R.reach_in_zone k hzone hoff hn hnc'
      (not_off_iff.2 ⟨_, R.edge_mem (k+1), hoc.1⟩) (by
        intro hv
        obtain ⟨σ, s0, s1, hσ⟩ := (onSeg_iff_lerp _ _ _).1 hv
        have := congrArg (Spec.cross (P (k+1)) (P (k+2))) hσ
        rw [cross_lerp, cross_self_fst, hoc.1.1] at this
        have : 1 - σ = 0 := by
          rcases mul_eq_zero.1 (by linarith : (1 - σ) *
            Spec.cross (P (k+1)) (P (k+2)) (lerp (P (k+1)) p τ) = 0) with h | h
          · exact h
          · exact absurd h hc2
        have : σ = 1 := by linarith
        rw [this, lerp_one] at hσ
        exact hoc.2.1 hσ.symm)
    exact ⟨_, i, z, hav, h1, h2, h3⟩
  · obtain ⟨i, z, h1, h2, h3⟩ := R.reach_in_zone k hzone hoff hn hna'
      (not_off_iff.2 ⟨_, R.edge_mem k, (K.onSeg_symm _ _ _).1 hoa.1⟩) (by
        intro hv
        obtain ⟨σ, s0, s1, hσ⟩ := (onSeg_iff_lerp _ _ _).1 hv
        have := congrArg (Spec.cross (P k) (P (k+1))) hσ
        have hz : Spec.cross (P k) (P (k+1)) (lerp (P (k+1)) (P k) (τa / 2)) = 0 := by
          rw [cross_lerp, cross_self_mid, cross_self_fst]; ring
        rw [cross_lerp, cross_self_mid, hz] at this
        have : 1 - σ = 0 := by
          rcases mul_eq_zero.1 (by linarith : (1 - σ) *
            Spec.cross (P k) (P (k+1)) (lerp (P (k+1)) p τ) = 0) with h | h
          · exact h
          · exact absurd h hc1
        have : σ = 1 := by linarith
        rw [this, lerp_one] at hσ
        exact hoa.2.1 hσ.symm)
    exact ⟨_, i, z, hav, h1, h2, h3⟩

/-- K3: every point off the chain reaches (by at most one avoiding segment) a point that sees
    an open edge point -/
theorem RingD.reach (R : RingD es P n) {p : Pt} (hp : Off es p) :
    ∃ q i z, (q = p ∨ Avoid es p q) ∧ OpenOn (P i) (P (i+1)) z ∧ Sees es q z ∧ q ≠ z := by
  have ht : ¬ Off es (P 0) := fun h => h _ (R.edge_mem 0) (K.onSeg_left _ _)
  obtain ⟨z0, hz1, hz2, hz3⟩ := first_hit es p (P 0) hp ht
  have hpz : p ≠ z0 := by rintro rfl; exact hz2 hp
  obtain ⟨e, he, hez⟩ := not_off_iff.1 hz2
  obtain ⟨j, hj, rfl⟩ := (R.mem_iff e).1 he
  have hn := R.npos
  by_cases h1 : z0 = P j
  · have : z0 = P (j + n - 1 + 1) := by
      rw [show j + n - 1 + 1 = j + n from by omega, R.simple.per]; exact h1
    rw [this] at hz3
    obtain ⟨q, i, z, h⟩ := R.reach_vertex (j + n - 1) hp hz3
    exact ⟨q, i, z, Or.inr h.1, h.2⟩
  by_cases h2 : z0 = P (j+1)
  · rw [h2] at hz3
    obtain ⟨q, i, z, h⟩ := R.reach_vertex j hp hz3
    exact ⟨q, i, z, Or.inr h.1, h.2⟩
  · exact ⟨p, j, z0, Or.inl rfl, ⟨hez, h1, h2⟩, hz3, hpz⟩

end CS
end Geo
