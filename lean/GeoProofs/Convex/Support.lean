/-
  GeoProofs.Convex.Support — step 1: a closed chain all of whose vertices lie on one closed side
  of every edge line (`SupportOK`) has a convex strict interior (crossing-parity formulation).
  Route: a point on the closed outer side of a supporting line that is not on the boundary has
  even parity (Jordan lemma along a segment to a far point of the open outer half-plane); hence
  strictly interior points are strictly inside every edge half-plane, a segment between two of
  them avoids every edge, and `segment_inside_of_avoids` concludes.
-/
import GeoProofs.Intersects.HolesModel
import GeoProofs.Symmetry.Parity

namespace Geo
namespace Cvx
open Jordan

/-- a far point (strictly above or strictly below every vertex) in the open half-plane
    `cross a b · < 0` -/
theorem exists_far_halfplane (pts : List Pt) (a b : Pt) (hab : a ≠ b) :
    ∃ q : Pt, Spec.cross a b q < 0 ∧ ((∀ v ∈ pts, v.y < q.y) ∨ (∀ v ∈ pts, q.y < v.y)) := by
  obtain ⟨Y, hY⟩ := Sym.exists_bound (a.y :: pts.map (·.y))
  obtain ⟨Z, hZ⟩ := Sym.exists_bound ((-a.y) :: pts.map (fun v => -v.y))
  have hYa : a.y < Y := hY _ (by simp)
  have hYv : ∀ v ∈ pts, v.y < Y := fun v hv => hY _ (by
    simp only [List.mem_cons, List.mem_map]; exact Or.inr ⟨v, hv, rfl⟩)
  have hZa : -a.y < Z := hZ _ (by simp)
  have hZv : ∀ v ∈ pts, -Z < v.y := fun v hv => by
    have := hZ (-v.y) (by simp only [List.mem_cons, List.mem_map]; exact Or.inr ⟨v, hv, rfl⟩)
    linarith
  rcases lt_trichotomy (b.x - a.x) 0 with hd | hd | hd
  · refine ⟨⟨a.x, Y⟩, ?_, Or.inl hYv⟩
    rw [K.cross_def]; simp only [sub_self, mul_zero, sub_zero]
    exact mul_neg_of_neg_of_pos hd (by linarith)
  · have hy : b.y - a.y ≠ 0 := by
      intro hy
      exact hab ((K.pt_eq_iff a b).2 ⟨by linarith, by linarith⟩)
    refine ⟨⟨a.x + (b.y - a.y), Y⟩, ?_, Or.inl hYv⟩
    rw [K.cross_def, hd]; simp only [zero_mul, zero_sub, add_sub_cancel_left]
    have := mul_self_pos.2 hy
    linarith
  · refine ⟨⟨a.x, -Z⟩, ?_, Or.inr hZv⟩
    rw [K.cross_def]; simp only [sub_self, mul_zero, sub_zero]
    exact mul_neg_of_pos_of_neg hd (by linarith)

/-- `cross a b ·` is affine along a segment -/
theorem cross_param (a b p q z : Pt) (t : Rat) (hx : z.x = p.x + t * (q.x - p.x))
    (hy : z.y = p.y + t * (q.y - p.y)) :
    Spec.cross a b z = (1 - t) * Spec.cross a b p + t * Spec.cross a b q := by
  simp only [K.cross_def, hx, hy]; ring

theorem cross_nonneg_onSeg {a b p q z : Pt} (hz : OnSeg p q z) (hp : 0 ≤ Spec.cross a b p)
    (hq : 0 ≤ Spec.cross a b q) : 0 ≤ Spec.cross a b z := by
  obtain ⟨t, h0, h1, hx, hy⟩ := (K.onSeg_iff_param p q z).1 hz
  rw [cross_param a b p q z t hx hy]
  have := mul_nonneg (sub_nonneg.2 h1) hp
  have := mul_nonneg h0 hq
  linarith

theorem cross_pos_onSeg {a b p q z : Pt} (hz : OnSeg p q z) (hp : 0 < Spec.cross a b p)
    (hq : 0 < Spec.cross a b q) : 0 < Spec.cross a b z := by
  obtain ⟨t, h0, h1, hx, hy⟩ := (K.onSeg_iff_param p q z).1 hz
  rw [cross_param a b p q z t hx hy]
  rcases eq_or_lt_of_le h0 with h | h
  · rw [← h]; simpa using hp
  · have := mul_nonneg (sub_nonneg.2 h1) hp.le
    have := mul_pos h hq
    linarith

/-- Lemma H: a point on the closed outer side of a supporting line, not on the boundary, has
    even crossing parity -/
theorem parity_zero_of_halfplane (pts : List Pt) (a b : Pt) (hab : a ≠ b)
    (hall : ∀ v ∈ pts, 0 ≤ Spec.cross a b v) (x : Pt) (hx : Spec.cross a b x ≤ 0)
    (hb : Spec.onBoundary (Spec.edges pts true) x = false) :
    Spec.parity (Spec.edges pts true) x = 0 := by
  obtain ⟨q, hq, hfar⟩ := exists_far_halfplane pts a b hab
  have hav : ∀ e ∈ Spec.edges pts true, Spec.segsMeet e.1 e.2 x q = false := by
    intro e he
    rw [segsMeet_eq_false_iff]
    rintro ⟨z, hz1, hz2⟩
    obtain ⟨h1, h2⟩ := Sym.edges_ends pts true e he
    have hz0 := cross_nonneg_onSeg hz1 (hall _ h1) (hall _ h2)
    obtain ⟨t, h0, h1', hzx, hzy⟩ := (K.onSeg_iff_param x q z).1 hz2
    rw [cross_param a b x q z t hzx hzy] at hz0
    have ht : t = 0 := by
      rcases eq_or_lt_of_le h0 with h | h
      · exact h.symm
      · have := mul_nonpos_of_nonneg_of_nonpos (sub_nonneg.2 h1') hx
        have := mul_neg_of_pos_of_neg h hq
        linarith
    have hzx' : z = x := (K.pt_eq_iff z x).2 ⟨by rw [hzx, ht]; ring, by rw [hzy, ht]; ring⟩
    rw [hzx'] at hz1
    have : Spec.onBoundary (Spec.edges pts true) x = true := by
      unfold Spec.onBoundary
      rw [List.any_eq_true]
      exact ⟨e, he, (spec_onSeg_iff _ _ _).2 hz1⟩
    rw [hb] at this; cases this
  rw [parity_const_of_avoids pts x q hav]
  exact (Sym.parity_far pts true q hfar).1

/-- every edge is non-degenerate and has all vertices on one closed side of its line -/
def SupportOK (pts : List Pt) : Bool :=
  (Spec.edges pts true).all (fun e => decide (e.1 ≠ e.2) &&
    (pts.all (fun v => decide (0 ≤ Spec.cross e.1 e.2 v)) ||
     pts.all (fun v => decide (Spec.cross e.1 e.2 v ≤ 0))))

/-- a strictly interior point is strictly inside the half-plane of a supporting line -/
theorem cross_pos_of_strictIn (pts : List Pt) (a b : Pt) (hab : a ≠ b)
    (hall : ∀ v ∈ pts, 0 ≤ Spec.cross a b v) (x : Pt)
    (hs : Spec.strictIn (Spec.edges pts true) x = true) : 0 < Spec.cross a b x := by
  by_contra hc
  obtain ⟨h1, h2⟩ := (IX.strictIn_iff _ _).1 hs
  rw [parity_zero_of_halfplane pts a b hab hall x (not_lt.1 hc) h1] at h2
  cases h2

/-- no point of the segment `ab` is a point of a segment between two strictly interior points,
    when `ab` lies on a supporting line -/
theorem avoids_of_support (pts : List Pt) (a b : Pt) (hab : a ≠ b)
    (hall : ∀ v ∈ pts, 0 ≤ Spec.cross a b v) (p q : Pt)
    (hp : Spec.strictIn (Spec.edges pts true) p = true)
    (hq : Spec.strictIn (Spec.edges pts true) q = true) (z : Pt)
    (hz : Spec.cross a b z = 0) : ¬ OnSeg p q z := by
  intro hon
  have := cross_pos_onSeg hon (cross_pos_of_strictIn pts a b hab hall p hp)
    (cross_pos_of_strictIn pts a b hab hall q hq)
  linarith

/-- STEP 1: under `SupportOK` the strict interior (crossing parity) is convex -/
theorem convex_of_support (pts : List Pt) (h : SupportOK pts = true) (p q : Pt)
    (hp : Spec.strictIn (Spec.edges pts true) p = true)
    (hq : Spec.strictIn (Spec.edges pts true) q = true) (x : Pt) (hx : OnSeg p q x) :
    Spec.strictIn (Spec.edges pts true) x = true := by
  refine segment_inside_of_avoids pts p q ?_ (IX.strictIn_inRing hp) x hx
  intro e he
  rw [segsMeet_eq_false_iff]
  rintro ⟨z, hz1, hz2⟩
  unfold SupportOK at h
  rw [List.all_eq_true] at h
  have := h e he
  simp only [Bool.and_eq_true, Bool.or_eq_true, decide_eq_true_eq, List.all_eq_true] at this
  obtain ⟨hne, hside | hside⟩ := this
  · exact avoids_of_support pts e.1 e.2 hne hside p q hp hq z hz1.1 hz2
  · refine avoids_of_support pts e.2 e.1 (Ne.symm hne) ?_ p q hp hq z ?_ hz2
    · intro v hv
      rw [K.cross_swap]
      have := hside v hv
      linarith
    · rw [K.cross_swap, hz1.1]; simp

theorem convexOK_of_support (r : Ring) (pts : List Pt) (h : SupportOK pts = true) :
    IX.ConvexOK r pts :=
  fun _ p q hp hq x hx => convex_of_support pts h p q hp hq x hx

end Cvx
end Geo
