/-
  GeoProofs.ContainsConvex.Turn — a simple closed chain whose turns all have one orientation has
  a STRICT turn (it is not contained in a line); small facts of plane algebra.
-/
import GeoProofs.ContainsConvex.Simple

namespace Geo
namespace CC
open Cvx

theorem LT.exists_strict {P : Nat → Pt} {n : Nat} (h : LT P n) :
    ∃ i, 0 < Spec.cross (P i) (P (i+1)) (P (i+2)) := by
  obtain ⟨b, r, hbr, hrn, hA, hD⟩ := monotone_period h
  obtain ⟨r', rfl⟩ : ∃ r', r = r' + 1 := ⟨r - 1, by omega⟩
  refine ⟨r', h.turn_pos r' (Or.inr ⟨hA r' (by omega) (by omega), ?_⟩)⟩
  exact hD (r' + 1) (le_refl _) hrn

theorem exists_strict_left {P : Nat → Pt} {n : Nat} (h : Simple0 P n)
    (turn : ∀ i, 0 ≤ Spec.cross (P i) (P (i+1)) (P (i+2))) :
    ∃ i, 0 < Spec.cross (P i) (P (i+1)) (P (i+2)) := by
  obtain ⟨s, hs⟩ := exists_slope h
  have hT := shmOK 1 s (by norm_num)
  have hQ : LT (fun i => shm 1 s (P i)) n :=
    { toSimple0 := h.map hT
      turn := fun i => by rw [hT.cross, one_mul]; exact turn i
      nh := fun i => by simp only [shm_y]; exact hs i }
  obtain ⟨i, hi⟩ := LT.exists_strict hQ
  refine ⟨i, ?_⟩
  simp only [hT.cross, one_mul] at hi
  exact hi

theorem exists_strict_right {P : Nat → Pt} {n : Nat} (h : Simple0 P n)
    (turn : ∀ i, Spec.cross (P i) (P (i+1)) (P (i+2)) ≤ 0) :
    ∃ i, Spec.cross (P i) (P (i+1)) (P (i+2)) < 0 := by
  have hT := shmOK (-1) 0 (by norm_num)
  obtain ⟨i, hi⟩ := exists_strict_left (P := fun i => shm (-1) 0 (P i)) (h.map hT)
    (fun i => by rw [hT.cross]; have := turn i; linarith)
  refine ⟨i, ?_⟩
  simp only [hT.cross] at hi
  linarith

/-! ### plane algebra -/

/-- two lines through `b` with independent directions meet only in `b` -/
theorem lines_meet {a b c x : Pt} (h1 : Spec.cross a b x = 0) (h2 : Spec.cross b c x = 0)
    (hne : Spec.cross a b c ≠ 0) : x = b := by
  rw [K.cross_def] at h1 h2 hne
  have ex : ((b.x - a.x) * (c.y - a.y) - (b.y - a.y) * (c.x - a.x)) * (x.x - b.x) = 0 := by
    linear_combination (-(b.x - a.x)) * h2 + (c.x - b.x) * h1
  have ey : ((b.x - a.x) * (c.y - a.y) - (b.y - a.y) * (c.x - a.x)) * (x.y - b.y) = 0 := by
    linear_combination (-(b.y - a.y)) * h2 + (c.y - b.y) * h1
  rcases mul_eq_zero.1 ex with h | hx
  · exact absurd h hne
  rcases mul_eq_zero.1 ey with h | hy
  · exact absurd h hne
  exact (K.pt_eq_iff x b).2 ⟨by linarith, by linarith⟩

/-- three points on the line `cd` are collinear -/
theorem collinear3 {c d a b x : Pt} (hcd : c ≠ d) (ha : Spec.cross c d a = 0)
    (hb : Spec.cross c d b = 0) (hx : Spec.cross c d x = 0) : Spec.cross a b x = 0 := by
  rw [K.cross_def] at ha hb hx ⊢
  have e1 : (d.x - c.x) * ((b.x - a.x) * (x.y - a.y) - (b.y - a.y) * (x.x - a.x)) = 0 := by
    linear_combination (b.x - a.x) * hx + (a.x - x.x) * hb + (x.x - b.x) * ha
  have e2 : (d.y - c.y) * ((b.x - a.x) * (x.y - a.y) - (b.y - a.y) * (x.x - a.x)) = 0 := by
    linear_combination (b.y - a.y) * hx + (a.y - x.y) * hb + (x.y - b.y) * ha
  rcases mul_eq_zero.1 e1 with h1 | h
  · rcases mul_eq_zero.1 e2 with h2 | h
    · exact absurd ((K.pt_eq_iff c d).2 ⟨by linarith, by linarith⟩) hcd
    · exact h
  · exact h

/-- `σ * cross a b ·` is affine along a segment: closed side -/
theorem scross_nonneg_onSeg {a b p q z : Pt} (σ : Rat) (hz : OnSeg p q z)
    (hp : 0 ≤ σ * Spec.cross a b p) (hq : 0 ≤ σ * Spec.cross a b q) :
    0 ≤ σ * Spec.cross a b z := by
  obtain ⟨t, h0, h1, hx, hy⟩ := (K.onSeg_iff_param p q z).1 hz
  rw [cross_param a b p q z t hx hy]
  have := mul_nonneg (sub_nonneg.2 h1) hp
  have := mul_nonneg h0 hq
  nlinarith

end CC
end Geo
