/-
  GeoProofs.CoversSpec.Region — a region argument inside a region receiver: if the boundary of
  `b` consists of members of `a`, then `b ⊆ a` iff no hole of `a` lies inside `b`.  The two
  topological steps (a point outside the exterior ring escapes to infinity; a point inside a
  hole reaches the hole's sample point) come from the connection theorem.
-/
import GeoProofs.CoversSpec.Conn
import GeoProofs.CoversSpec.Shapes
import GeoProofs.CoversSpec.Interior
import GeoProofs.CoversSpec.Cuts
import GeoProofs.Symmetry.Parity

namespace Geo
namespace CS
open Spec Jordan Cvx

/-- what the argument shape has to provide -/
structure ArgOK (b : Shape) : Prop where
  edge_mem : ∀ e ∈ b.edges, ∀ x, OnSeg e.1 e.2 x → b.member x = true
  const : ∀ x y, Avoid b.edges x y → b.member x = b.member y
  far : ∃ Y : Rat, ∀ y : Pt, (Y < y.y ∨ y.y < -Y) → b.member y = false

theorem bound_two (l : List Rat) : ∃ Y : Rat, ∀ y ∈ l, y < Y ∧ -Y < y := by
  obtain ⟨Y, hY⟩ := Sym.exists_bound (l ++ l.map (fun y => -y))
  refine ⟨Y, fun y hy => ⟨hY y (List.mem_append_left _ hy), ?_⟩⟩
  have := hY (-y) (List.mem_append_right _ (List.mem_map.2 ⟨y, hy, rfl⟩))
  linarith

/-- far above or far below a chain: outside -/
theorem inRing_far (L : List Pt) : ∃ Y : Rat, ∀ y : Pt, (Y < y.y ∨ y.y < -Y) →
    Spec.inRing (Spec.edges L true) y = false := by
  obtain ⟨Y, hY⟩ := bound_two (L.map (·.y))
  refine ⟨Y, fun y hy => ?_⟩
  have hfar : (∀ v ∈ L, v.y < y.y) ∨ (∀ v ∈ L, y.y < v.y) := by
    rcases hy with h | h
    · left; intro v hv
      have := (hY v.y (List.mem_map.2 ⟨v, hv, rfl⟩)).1; linarith
    · right; intro v hv
      have := (hY v.y (List.mem_map.2 ⟨v, hv, rfl⟩)).2; linarith
  obtain ⟨h1, h2⟩ := Sym.parity_far L true y hfar
  unfold Spec.inRing
  rw [h1, h2]; rfl

theorem argOK_poly (ext : List Pt) (holes : List (List Pt))
    (hv : (Shape.poly ext holes).valid = true) : ArgOK (Shape.poly ext holes) where
  edge_mem := edge_points_member _ hv
  const := fun x y h => (Contains.poly_member_const ext holes x y h y (K.onSeg_right x y)).symm
  far := by
    obtain ⟨Y, hY⟩ := inRing_far ext
    refine ⟨Y, fun y hy => ?_⟩
    rw [Contains.poly_member_eq, hY y hy]; rfl

theorem argOK_rect (lo hi : Pt) (hv : (Shape.rect lo hi).valid = true) :
    ArgOK (Shape.rect lo hi) where
  edge_mem := edge_points_member _ hv
  const := by
    intro x y h
    have hb : lo.x ≤ hi.x ∧ lo.y ≤ hi.y := by
      simpa [Shape.valid] using hv
    have e : ∀ p, (Shape.rect lo hi).member p =
        Spec.inRing (Spec.edges (Spec.rectPts lo hi) true) p := by
      intro p
      rw [IX.inRing_rect ⟨lo, hi⟩ hb p]
      simp [Shape.member, Box.containsPt]
    rw [e, e]
    exact (inRing_const_of_avoids (Spec.rectPts lo hi) x y h).1
  far := by
    obtain ⟨Y, hY⟩ := bound_two [lo.y, hi.y]
    refine ⟨Y, fun y hy => ?_⟩
    have h1 := hY lo.y (by simp)
    have h2 := hY hi.y (by simp)
    cases hm : (Shape.rect lo hi).member y with
    | false => rfl
    | true =>
      rw [rect_member_iff] at hm
      rcases hy with h | h <;> linarith [hm.2.2.1, hm.2.2.2]

/-- a segment on which no point is a member of `a` avoids the edges of `b`, when those are
    members of `a` -/
theorem avoid_of_nonmember {a b : Shape}
    (hedges : ∀ e ∈ b.edges, ∀ x, OnSeg e.1 e.2 x → a.member x = true) {x y : Pt}
    (hout : ∀ w, OnSeg x y w → a.member w = false) : Avoid b.edges x y := by
  rw [avoid_iff]
  intro e he w hw hew
  have := hedges e he w hew
  rw [hout w hw] at this
  cases this

/-- receiver a rectangle: the boundary of `b` inside the rectangle forces `b` inside -/
theorem rect_covers_of_edges (lo hi : Pt) (b : Shape) (hB : ArgOK b)
    (hedges : ∀ e ∈ b.edges, ∀ x, OnSeg e.1 e.2 x → (Shape.rect lo hi).member x = true) :
    ∀ x, b.member x = true → (Shape.rect lo hi).member x = true := by
  intro x hx
  by_contra hnm
  obtain ⟨Y, hY⟩ := hB.far
  have hnm' : ¬ (lo.x ≤ x.x ∧ x.x ≤ hi.x ∧ lo.y ≤ x.y ∧ x.y ≤ hi.y) := fun h =>
    hnm ((rect_member_iff lo hi x).2 h)
  -- the escape point: straight down if x is below the rectangle, straight up otherwise
  have key : ∀ f : Pt, f.x = x.x → (Y < f.y ∨ f.y < -Y) →
      ((x.y < lo.y ∧ f.y ≤ x.y) ∨ (¬ x.y < lo.y ∧ x.y ≤ f.y)) → False := by
    intro f hfx hfar hdir
    have hout : ∀ w, OnSeg x f w → (Shape.rect lo hi).member w = false := by
      intro w hw
      cases hm : (Shape.rect lo hi).member w with
      | false => rfl
      | true =>
        exfalso
        rw [rect_member_iff] at hm
        obtain ⟨-, h1, h2, h3, h4⟩ := hw
        rw [hfx, min_self] at h1
        rw [hfx, max_self] at h2
        have hwx : w.x = x.x := le_antisymm h2 h1
        rcases hdir with ⟨hlow, hle⟩ | ⟨hnlow, hle⟩
        · rw [max_eq_left hle] at h4; linarith [hm.2.2.1]
        · rw [min_eq_left hle] at h3
          apply hnm'
          rw [not_lt] at hnlow
          by_contra hc
          exact hnm' ⟨by linarith [hm.1], by linarith [hm.2.1], hnlow, by
            by_contra h5; rw [not_le] at h5
            linarith [hm.2.2.2]⟩
    have hav := avoid_of_nonmember (a := Shape.rect lo hi) (b := b) hedges hout
    have := hB.const x f hav
    rw [hx, hY f hfar] at this
    cases this
  by_cases hlow : x.y < lo.y
  · exact key ⟨x.x, min x.y (-Y) - 1⟩ rfl (Or.inr (by
      show min x.y (-Y) - 1 < -Y
      have := min_le_right x.y (-Y); linarith)) (Or.inl ⟨hlow, by
      show min x.y (-Y) - 1 ≤ x.y
      have := min_le_left x.y (-Y); linarith⟩)
  · exact key ⟨x.x, max x.y Y + 1⟩ rfl (Or.inl (by
      show Y < max x.y Y + 1
      have := le_max_right x.y Y; linarith)) (Or.inr ⟨hlow, by
      show x.y ≤ max x.y Y + 1
      have := le_max_left x.y Y; linarith⟩)

theorem poly_valid_simple {ext : List Pt} {holes : List (List Pt)}
    (hv : (Shape.poly ext holes).valid = true) :
    Spec.simpleRing ext = true ∧ ∀ h ∈ holes, Spec.simpleRing h = true := by
  simp only [Shape.valid, Bool.and_eq_true, List.all_eq_true] at hv
  exact ⟨hv.1.1.1, hv.1.1.2⟩

theorem poly_member_iff (ext : List Pt) (holes : List (List Pt)) (x : Pt) :
    (Shape.poly ext holes).member x = true ↔ Spec.inRing (Spec.edges ext true) x = true ∧
      ∀ h ∈ holes, Spec.strictIn (Spec.edges h true) x = false :=
  IX.pmem_iff ext holes x

/-- step 1: a point of `b` outside the exterior ring of `a` is impossible when the boundary of
    `b` consists of members of `a` -/
theorem not_outside_ext (ext : List Pt) (holes : List (List Pt))
    (hv : (Shape.poly ext holes).valid = true) (b : Shape) (hB : ArgOK b)
    (hedges : ∀ e ∈ b.edges, ∀ x, OnSeg e.1 e.2 x → (Shape.poly ext holes).member x = true)
    (x : Pt) (hx : b.member x = true) : Spec.inRing (Spec.edges ext true) x = true := by
  by_contra hout
  rw [Bool.not_eq_true] at hout
  obtain ⟨Yb, hYb⟩ := hB.far
  obtain ⟨Ya, hYa⟩ := inRing_far ext
  -- a far point
  have hf1 : Yb < (⟨x.x, max Yb Ya + 1⟩ : Pt).y := by
    show Yb < max Yb Ya + 1; have := le_max_left Yb Ya; linarith
  have hf2 : Ya < (⟨x.x, max Yb Ya + 1⟩ : Pt).y := by
    show Ya < max Yb Ya + 1; have := le_max_right Yb Ya; linarith
  have hfa := hYa _ (Or.inl hf2)
  have hfb := hYb _ (Or.inl hf1)
  obtain ⟨ox, px⟩ := (IX.inRing_false_iff _ _).1 hout
  obtain ⟨of, pf⟩ := (IX.inRing_false_iff _ _).1 hfa
  have hconn := conn_of_parity_eq ext (poly_valid_simple hv).1 ox of (by
    have h1 := Nat.mod_two_eq_zero_or_one ((Spec.edges ext true).filter (fun e => Spec.crosses e.1 e.2 x)).length
    have h2 := Nat.mod_two_eq_zero_or_one ((Spec.edges ext true).filter
      (fun e => Spec.crosses e.1 e.2 (⟨x.x, max Yb Ya + 1⟩ : Pt))).length
    unfold Spec.parity at px pf ⊢
    omega)
  have := Conn.carry (es := Spec.edges ext true)
    (fun y => Spec.inRing (Spec.edges ext true) y = false ∧ b.member y = true)
    (fun y y' hav hy => by
      refine ⟨by rw [← (inRing_const_of_avoids ext y y' hav).1]; exact hy.1, ?_⟩
      have hav' : Avoid b.edges y y' := avoid_of_nonmember (a := Shape.poly ext holes) hedges (by
        intro w hw
        cases hm : (Shape.poly ext holes).member w with
        | false => rfl
        | true =>
          have := segment_outside_of_avoids ext y y' hav hy.1 w hw
          rw [((poly_member_iff ext holes w).1 hm).1] at this
          cases this)
      rw [← hB.const y y' hav']; exact hy.2) hconn ⟨hout, hx⟩
  rw [hfb] at this
  exact Bool.noConfusion this.2

/-- step 2: a point of `b` strictly inside a hole `h` of `a` drags the sample point of `h`
    into `b`, when the boundary of `b` consists of members of `a` -/
theorem hole_sample_in (ext : List Pt) (holes : List (List Pt))
    (hv : (Shape.poly ext holes).valid = true) (b : Shape) (hB : ArgOK b)
    (hedges : ∀ e ∈ b.edges, ∀ x, OnSeg e.1 e.2 x → (Shape.poly ext holes).member x = true)
    (h : List Pt) (hh : h ∈ holes) (x : Pt) (hx : b.member x = true)
    (hin : Spec.strictIn (Spec.edges h true) x = true) :
    ∃ ip, Spec.interiorPoint h = some ip ∧ b.member ip = true := by
  obtain ⟨ip, hip, hs⟩ := interiorPoint_spec h ((poly_valid_simple hv).2 h hh)
  refine ⟨ip, hip, ?_⟩
  obtain ⟨ox, px⟩ := (IX.strictIn_iff _ _).1 hin
  obtain ⟨oi, pi⟩ := (IX.strictIn_iff _ _).1 hs
  have hconn := conn_of_parity_eq h ((poly_valid_simple hv).2 h hh) ox oi (by rw [px, pi])
  have := Conn.carry (es := Spec.edges h true)
    (fun y => Spec.strictIn (Spec.edges h true) y = true ∧ b.member y = true)
    (fun y y' hav hy => by
      refine ⟨by rw [← (inRing_const_of_avoids h y y' hav).2]; exact hy.1, ?_⟩
      have hav' : Avoid b.edges y y' := avoid_of_nonmember (a := Shape.poly ext holes) hedges (by
        intro w hw
        cases hm : (Shape.poly ext holes).member w with
        | false => rfl
        | true =>
          have := segment_inside_of_avoids h y y' hav (IX.strictIn_inRing hy.1) w hw
          rw [((poly_member_iff ext holes w).1 hm).2 h hh] at this
          cases this)
      rw [← hB.const y y' hav']; exact hy.2) hconn ⟨hin, hx⟩
  exact this.2

/-- receiver a valid polygon: with the boundary of `b` inside `a`, `b ⊆ a` iff no hole sample
    point of `a` is a point of `b` -/
theorem poly_covers_iff (ext : List Pt) (holes : List (List Pt))
    (hv : (Shape.poly ext holes).valid = true) (b : Shape) (hB : ArgOK b)
    (hedges : ∀ e ∈ b.edges, ∀ x, OnSeg e.1 e.2 x → (Shape.poly ext holes).member x = true) :
    (∀ x, b.member x = true → (Shape.poly ext holes).member x = true) ↔
      ∀ h ∈ holes, ∀ ip, Spec.interiorPoint h = some ip → b.member ip = false := by
  constructor
  · intro hcov h hh ip hip
    obtain ⟨ip', hip', hs⟩ := interiorPoint_spec h ((poly_valid_simple hv).2 h hh)
    rw [hip] at hip'
    cases hip'
    cases hm : b.member ip with
    | false => rfl
    | true =>
      have := ((poly_member_iff ext holes ip).1 (hcov ip hm)).2 h hh
      rw [hs] at this
      cases this
  · intro htest x hx
    rw [poly_member_iff]
    refine ⟨not_outside_ext ext holes hv b hB hedges x hx, fun h hh => ?_⟩
    cases hin : Spec.strictIn (Spec.edges h true) x with
    | false => rfl
    | true =>
      obtain ⟨ip, hip, hm⟩ := hole_sample_in ext holes hv b hB hedges h hh x hx hin
      rw [htest h hh ip hip] at hm
      cases hm

/-- `segInside` is adequate for every valid receiver that is not a point -/
theorem segInsideOK_shape (a : Shape) (ha : a.valid = true) (hpa : ∀ q, a ≠ .point q) :
    SegInsideOK a.member a.edges := by
  cases a with
  | point q => exact absurd rfl (hpa q)
  | rect lo hi => exact segInsideOK_rect lo hi
  | line pts => exact segInsideOK_of_pieceConst (pieceConst_line pts)
  | poly ext holes => exact segInsideOK_of_pieceConst (pieceConst_poly ext holes ha)

theorem edges_all_iff (a b : Shape) (hseg : SegInsideOK a.member a.edges) :
    b.edges.all (fun e => segInside a.member a.edges e.1 e.2) = true ↔
      ∀ e ∈ b.edges, ∀ x, OnSeg e.1 e.2 x → a.member x = true := by
  rw [List.all_eq_true]
  constructor
  · intro h e he; exact (hseg e.1 e.2).1 (h e he)
  · intro h e he; exact (hseg e.1 e.2).2 (h e he)

theorem holes_all_iff (holes : List (List Pt)) (b : Shape) :
    holes.all (fun h => match interiorPoint h with | some x => !(b.member x) | none => true) = true ↔
      ∀ h ∈ holes, ∀ ip, Spec.interiorPoint h = some ip → b.member ip = false := by
  rw [List.all_eq_true]
  constructor
  · intro H h hh ip hip
    have := H h hh
    rw [hip] at this
    simpa using this
  · intro H h hh
    cases hip : interiorPoint h with
    | none => rfl
    | some ip => simp [H h hh ip hip]

theorem argOK_of_region (b : Shape) (hb : b.valid = true) (hrb : isRegion b = true) : ArgOK b := by
  cases b with
  | point p => simp [isRegion] at hrb
  | line pts => simp [isRegion] at hrb
  | rect lo hi => exact argOK_rect lo hi hb
  | poly ext holes => exact argOK_poly ext holes hb

/-- region argument, region receiver -/
theorem covers_region (a b : Shape) (ha : a.valid = true) (hb : b.valid = true)
    (hra : isRegion a = true) (hrb : isRegion b = true) : covers a b = true ↔ Covers a b := by
  have hpa := not_point_of_region a hra
  have hB := argOK_of_region b hb hrb
  rw [covers_region_unfold a b hpa ha hb hrb hra, edges_all_iff a b (segInsideOK_shape a ha hpa)]
  unfold Covers
  have hne := exists_member_of_valid b hb
  have hE := edge_points_member b hb
  cases a with
  | point q => exact absurd rfl (hpa q)
  | line pts => simp [isRegion] at hra
  | rect lo hi =>
    constructor
    · rintro ⟨h1, -⟩
      exact ⟨hne, rect_covers_of_edges lo hi b hB h1⟩
    · rintro ⟨-, h2⟩
      exact ⟨fun e he x hx => h2 x (hE e he x hx), by simp [Shape.holes]⟩
  | poly ext holes =>
    constructor
    · rintro ⟨h1, h2⟩
      refine ⟨hne, (poly_covers_iff ext holes ha b hB h1).2 ?_⟩
      intro h hh ip hip
      have := List.all_eq_true.1 h2 h hh
      rw [hip] at this
      simpa using this
    · rintro ⟨-, h2⟩
      have h1 : ∀ e ∈ b.edges, ∀ x, OnSeg e.1 e.2 x → (Shape.poly ext holes).member x = true :=
        fun e he x hx => h2 x (hE e he x hx)
      refine ⟨h1, List.all_eq_true.2 ?_⟩
      intro h hh
      have H := (poly_covers_iff ext holes ha b hB h1).1 h2 h hh
      cases hip : interiorPoint h with
      | none => rfl
      | some ip => simp [H ip hip]

end CS
end Geo
