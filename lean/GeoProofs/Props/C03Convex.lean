/-
  Property C03 (contains), CONVEX receivers: for a simple ring with the convex flag the code's
  early exit "the ring is convex so the segment must be contained" is exactly right — contact or
  not, ≥ 16-point bounding-rectangle shortcut included.  No general-position hypothesis.

  * `closedRegion_convex`               the CLOSED region of a simple convex-flagged ring is convex
  * `closedRegion_iff_halfplanes`       … it is the intersection of the closed inner half-planes
  * `ringContainsSegment_convex_flag`   the code on ANY convex-flagged ring, any index kind:
                                         "both end points are members" (simplicity not needed)
  * `ringContainsSegment_convex_exact`  … ⇔ every point of the segment is a member (simple ring)
  * `ringContainsRing_convex_exact`     ring ⊇ ring/line series, any number of points: the argument
                                         is not empty and every vertex / every point of every edge /
                                         (closed argument) every point of its closed region is a member
  * `ringContainsLine_convex_exact`
  * `poly_contains_exact_convex`        (build A).contains (build B) = Spec.covers A B for a valid
                                         polygon A without holes whose exterior has the convex flag
                                         and ANY valid B (point, rectangle, line string, polygon
                                         with or without holes)
  * `rect_contains_exact_valid`         the Rect receiver: (build A).contains (build B) = Spec.covers A B
                                         for a valid rectangle A (degenerate ones included) and any valid B
  * `contains_exact_convex_receivers`   the two in one statement (`ConvexReceiver`)
  * `geom_contains_reflX_convex`, `…_reflY_convex`, `…_transpose_convex`
                                         `contains` with a convex polygon receiver is invariant under the
                                         orientation-reversing lattice symmetries (C12 for contains)
  * `ringContainsRing_vertices_sound`   soundness fragment for ARBITRARY rings (concave, any index):
                                         a `true` answer on an argument with < 16 points has every
                                         vertex of the argument in the ring (false for ≥ 16: D19)
  * `convex_flag_nonsimple_counterexample`  simplicity is needed: on the pentagram (convex flag
                                         raised, not simple, not valid) the code answers `true` for a
                                         segment whose midpoint is not a member
  * `simpleRing_imp_ringSimple`         `Spec.simpleRing` ⇒ `RingSimple`
  * `geom_contains_index_indep_valid`   `Geom.contains` of VALID shapes is independent of the
                                         index configuration (no `ExtSafe` / `HolesSafe` side condition)
-/
import GeoProofs.ContainsConvex.Poly2
import GeoProofs.ContainsConvex.Index
import GeoProofs.ContainsConvex.Points
import GeoProofs.ContainsConvex.Symmetry
import GeoProofs.ContainsConvex.Rect2
import GeoProofs.ContainsConvex.Sound

namespace Geo
open GL Jordan Contains CC

/-- the closed region of a simple ring with the convex flag is convex -/
theorem closedRegion_convex (L : List Pt) (hs : Spec.simpleRing L = true)
    (hc : (processPoints L.toArray true).convex = true) (p q x : Pt)
    (hp : Spec.inRing (Spec.edges L true) p = true)
    (hq : Spec.inRing (Spec.edges L true) q = true) (hx : OnSeg p q x) :
    Spec.inRing (Spec.edges L true) x = true :=
  closed_convex_of_simple L hs hc p q x hp hq hx

/-- … it is the intersection of the closed inner half-planes of its edges (`σ` = orientation) -/
theorem closedRegion_iff_halfplanes (L : List Pt) (hs : Spec.simpleRing L = true)
    (hc : (processPoints L.toArray true).convex = true) :
    ∃ σ : Rat, (σ = 1 ∨ σ = -1) ∧ ∀ x, Spec.inRing (Spec.edges L true) x = true ↔
      ∀ e ∈ Spec.edges L true, 0 ≤ σ * Spec.cross e.1 e.2 x := by
  obtain ⟨σ, R⟩ := cvxRing_of_simple L hs hc
  exact ⟨σ, R.sig, fun x => R.inRing_iff x⟩

/-- the code on a convex-flagged ring (sites 1–5), every index kind, simple or not -/
theorem ringContainsSegment_convex_flag (pts : Array Pt) (kind : IndexKind) (m : Nat)
    (hvis : (mkSeries pts true kind m).SearchExact)
    (hcv : (processPoints pts true).convex = true) (seg : Seg) :
    ringContainsSegment (.ser (mkSeries pts true kind m)) seg true =
      (Spec.inRing (Spec.edges pts.toList true) seg.a &&
       Spec.inRing (Spec.edges pts.toList true) seg.b) :=
  ringContainsSegment_convex pts kind m hvis hcv seg

/-- **ring ⊇ segment, convex simple ring, inclusive reading** -/
theorem ringContainsSegment_convex_exact (pts : Array Pt) (kind : IndexKind) (m : Nat)
    (hvis : (mkSeries pts true kind m).SearchExact)
    (hs : Spec.simpleRing pts.toList = true)
    (hcv : (processPoints pts true).convex = true) (seg : Seg) :
    (ringContainsSegment (.ser (mkSeries pts true kind m)) seg true = true ↔
      (Spec.inRing (Spec.edges pts.toList true) seg.a = true ∧
       Spec.inRing (Spec.edges pts.toList true) seg.b = true)) ∧
    ((Spec.inRing (Spec.edges pts.toList true) seg.a = true ∧
       Spec.inRing (Spec.edges pts.toList true) seg.b = true) ↔
      ∀ x, OnSeg seg.a seg.b x → Spec.inRing (Spec.edges pts.toList true) x = true) := by
  have h1 := ringContainsSegment_convex pts kind m hvis hcv seg
  have h2 := ringContainsSegment_convex_all pts kind m hvis hs hcv seg
  rw [h1, Bool.and_eq_true] at h2
  rw [h1, Bool.and_eq_true]
  exact ⟨Iff.rfl, h2⟩

/-- **ring ⊇ ring / line series, convex simple ring, inclusive reading, any number of points**
    (the ≥ 16-point rectangle shortcut is sound here: a convex region that has the corners of the
    bounding rectangle has the rectangle).  `o` is any series carrying its `processPoints`
    rectangle (closed or open, any index). -/
theorem ringContainsRing_convex_exact (pts : Array Pt) (kind : IndexKind) (m : Nat)
    (hvis : (mkSeries pts true kind m).SearchExact)
    (hs : Spec.simpleRing pts.toList = true)
    (hcv : (processPoints pts true).convex = true) (o : Series)
    (hrect : o.rect = (processPoints o.pts o.closed).rect) :
    (ringContainsRing (.ser (mkSeries pts true kind m)) (.ser o) true = true ↔
      (o.empty = false ∧ ∀ p ∈ o.pts.toList, Spec.inRing (Spec.edges pts.toList true) p = true)) ∧
    (o.empty = false →
      ((∀ p ∈ o.pts.toList, Spec.inRing (Spec.edges pts.toList true) p = true) ↔
        ∀ e ∈ Spec.edges o.pts.toList o.closed, ∀ x, OnSeg e.1 e.2 x →
          Spec.inRing (Spec.edges pts.toList true) x = true)) ∧
    (3 ≤ o.pts.size →
      ((∀ p ∈ o.pts.toList, Spec.inRing (Spec.edges pts.toList true) p = true) ↔
        ∀ x, Spec.inRing (Spec.edges o.pts.toList true) x = true →
          Spec.inRing (Spec.edges pts.toList true) x = true)) := by
  refine ⟨ringContainsRing_convex pts kind m hvis hcv hs o hrect, fun he => ?_, fun h3 => ?_⟩
  · exact verts_iff_edge_points (closedConvex_of_simple pts hs hcv) o.pts o.closed he
  · obtain ⟨σ, R⟩ := cvxRing_of_simple pts.toList hs (by rw [Array.toArray_toList]; exact hcv)
    exact verts_iff_region R o.pts h3

/-- **ring ⊇ line string** -/
theorem ringContainsLine_convex_exact (pts : Array Pt) (kind : IndexKind) (m : Nat)
    (hvis : (mkSeries pts true kind m).SearchExact)
    (hs : Spec.simpleRing pts.toList = true)
    (hcv : (processPoints pts true).convex = true) (lpts : Array Pt) (lk : IndexKind) (lm : Nat) :
    ringContainsLine (.ser (mkSeries pts true kind m)) (mkSeries lpts false lk lm) true = true ↔
      (2 ≤ lpts.size ∧ ∀ e ∈ Spec.edges lpts.toList false, ∀ x, OnSeg e.1 e.2 x →
        Spec.inRing (Spec.edges pts.toList true) x = true) := by
  obtain ⟨h1, h2, -⟩ := ringContainsRing_convex_exact pts kind m hvis hs hcv
    (mkSeries lpts false lk lm) rfl
  unfold ringContainsLine
  rw [h1]
  have hemp : (mkSeries lpts false lk lm).empty = decide (lpts.size < 2) := by
    show ((false && decide (lpts.size < 3)) || decide (lpts.size < 2)) = _
    simp
  constructor
  · rintro ⟨he, hv⟩
    refine ⟨?_, (h2 he).1 hv⟩
    rw [hemp] at he
    simpa using he
  · rintro ⟨h2', hv⟩
    have he : (mkSeries lpts false lk lm).empty = false := by
      rw [hemp]; simp; omega
    exact ⟨he, (h2 he).2 hv⟩

/-- **the property for convex receivers**: a valid polygon without holes whose exterior ring has
    the convex flag, any valid argument, no general-position hypothesis -/
theorem poly_contains_exact_convex (ext : List Pt) (B : Spec.Shape)
    (hA : (Spec.Shape.poly ext []).valid = true)
    (hcv : (processPoints ext.toArray true).convex = true) (hB : B.valid = true) :
    (build (.poly ext [])).contains (build B) = Spec.covers (.poly ext []) B := by
  have hs : Spec.simpleRing ext = true := by
    simp only [Spec.Shape.valid, Bool.and_eq_true] at hA
    exact hA.1.1.1
  cases B with
  | point p => exact convex_contains_point ext hs p
  | rect lo hi => exact convex_contains_rect ext hs hcv lo hi
  | line l => exact convex_contains_line ext hs hcv l
  | poly oext oholes => exact convex_contains_poly ext hs hcv oext oholes hB

/-- the two notions of simplicity -/
theorem simpleRing_imp_ringSimple (pts : Array Pt) (hs : Spec.simpleRing pts.toList = true) :
    RingSimple pts := ringSimple_of_simpleRing pts hs

/-- **`Geom.contains` of valid shapes is independent of the index configuration** -/
theorem geom_contains_index_indep_valid (a b : GCfg) (ha : a.Exact) (hb : b.Exact)
    (hva : (shapeOf a).valid = true) (hvb : (shapeOf b).valid = true) :
    a.build.contains b.build = a.plain.contains b.plain :=
  geom_contains_index_indep a b ha hb (extSafe_of_valid a hva) (holesSafe_of_valid b hvb)

/-- … hypothesis-free on the searches (every index kind and threshold, sizes within the byte
    formats, binary64 coordinates for the R-tree) -/
theorem geom_contains_index_indep_valid_sized (a b : GCfg) (ha : a.Sized) (hb : b.Sized)
    (hva : (shapeOf a).valid = true) (hvb : (shapeOf b).valid = true) :
    a.build.contains b.build = a.plain.contains b.plain :=
  geom_contains_index_indep_valid a b ha.exact hb.exact hva hvb

/-- the un-indexed geometry of a configuration is the `build` of its specification shape -/
theorem plain_eq_build (g : GCfg) : g.plain = build (shapeOf g) := by
  cases g with
  | point p => rfl
  | rect r => rfl
  | line c => rfl
  | poly e hs =>
    show Geom.poly ⟨some (.ser (mkSeries e.pts true .none 0)), hs.map (fun h => Ring.ser h.ring0)⟩ =
      Geom.poly ⟨some (.ser (mkSeries e.pts.toList.toArray true .none 0)),
        (hs.map (fun h => h.pts.toList)).map (fun h => Ring.ser (mkSeries h.toArray true .none 0))⟩
    rw [List.map_map]
    rfl

/-- **convex receivers, every index configuration**: exact against the specification -/
theorem geom_contains_exact_convex_indexed (e : SerCfg) (b : GCfg)
    (ha : (GCfg.poly e []).Exact) (hb : b.Exact)
    (hva : (shapeOf (.poly e [])).valid = true) (hvb : (shapeOf b).valid = true)
    (hcv : (processPoints e.pts true).convex = true) :
    (GCfg.poly e []).build.contains b.build = Spec.covers (shapeOf (.poly e [])) (shapeOf b) := by
  rw [geom_contains_index_indep_valid _ b ha hb hva hvb, plain_eq_build, plain_eq_build]
  exact poly_contains_exact_convex e.pts.toList (shapeOf b) hva
    (by rw [Array.toArray_toList]; exact hcv) hvb

/-- **the Rect receiver**, valid shapes (a degenerate rectangle never contains a polygon: a simple
    ring does not fit in a line, `CC.area2_zero_of_line`) -/
theorem rect_contains_exact_valid (lo hi : Pt) (B : Spec.Shape)
    (hA : (Spec.Shape.rect lo hi).valid = true) (hB : B.valid = true) :
    (build (.rect lo hi)).contains (build B) = Spec.covers (.rect lo hi) B :=
  rect_contains_exact lo hi B hA hB

/-- receivers whose closed region is convex by construction -/
def ConvexReceiver : Spec.Shape → Prop
  | .rect _ _ => True
  | .poly ext holes => holes = [] ∧ (processPoints ext.toArray true).convex = true
  | _ => False

theorem contains_exact_convex_receivers (A B : Spec.Shape) (hA : A.valid = true) (hB : B.valid = true)
    (hc : ConvexReceiver A) : (build A).contains (build B) = Spec.covers A B := by
  cases A with
  | point p => exact absurd hc id
  | line l => exact absurd hc id
  | rect lo hi => exact rect_contains_exact lo hi B hA hB
  | poly ext holes =>
    obtain ⟨rfl, hcv⟩ := hc
    exact poly_contains_exact_convex ext B hA hcv hB

/-! ### C12 for `contains`, convex receivers -/

theorem geom_contains_reflX_convex (ext : List Pt) (B : Spec.Shape)
    (hA : (Spec.Shape.poly ext []).valid = true)
    (hcv : (processPoints ext.toArray true).convex = true) (hB : B.valid = true) :
    (build ((Spec.Shape.poly ext []).mapPts Pt.reflX)).contains (build (B.mapPts Pt.reflX)) =
      (build (.poly ext [])).contains (build B) :=
  CC.geom_contains_reflX_convex ext B hA hcv hB

theorem geom_contains_reflY_convex (ext : List Pt) (B : Spec.Shape)
    (hA : (Spec.Shape.poly ext []).valid = true)
    (hcv : (processPoints ext.toArray true).convex = true) (hB : B.valid = true) :
    (build ((Spec.Shape.poly ext []).mapPts Pt.reflY)).contains (build (B.mapPts Pt.reflY)) =
      (build (.poly ext [])).contains (build B) :=
  CC.geom_contains_reflY_convex ext B hA hcv hB

theorem geom_contains_transpose_convex (ext : List Pt) (B : Spec.Shape)
    (hA : (Spec.Shape.poly ext []).valid = true)
    (hcv : (processPoints ext.toArray true).convex = true) (hB : B.valid = true) :
    (build ((Spec.Shape.poly ext []).mapPts Pt.transpose)).contains
        (build (B.mapPts Pt.transpose)) =
      (build (.poly ext [])).contains (build B) :=
  CC.geom_contains_transpose_convex ext B hA hcv hB

/-- soundness fragment for arbitrary rings -/
theorem ringContainsRing_vertices_sound (pts : Array Pt) (kind : IndexKind) (m : Nat)
    (hvis : (mkSeries pts true kind m).SearchExact) (o : Series) (h16 : o.numPoints < 16)
    (h : ringContainsRing (.ser (mkSeries pts true kind m)) (.ser o) true = true) :
    ∀ p ∈ o.pts.toList, Spec.inRing (Spec.edges pts.toList true) p = true :=
  CC.ringContainsRing_vertices_sound pts kind m hvis o h16 h

/-- a pentagram: every turn of one orientation (convex flag raised) but not simple -/
def pentagramCC : List Pt := [⟨0,3⟩, ⟨4,0⟩, ⟨2,5⟩, ⟨0,0⟩, ⟨4,3⟩]

/-- `Spec.simpleRing` is needed in `ringContainsSegment_convex_exact`: the flag alone does not make
    the closed region convex (such a ring is not a valid polygon) -/
theorem convex_flag_nonsimple_counterexample :
    (processPoints pentagramCC.toArray true).convex = true ∧
    Spec.simpleRing pentagramCC = false ∧
    ringContainsSegment (.ser (mkSeries pentagramCC.toArray true .none 0))
      ⟨⟨1/2, 1/2⟩, ⟨7/2, 1/2⟩⟩ true = true ∧
    Spec.onSeg ⟨1/2, 1/2⟩ ⟨7/2, 1/2⟩ ⟨2, 1/2⟩ = true ∧
    Spec.inRing (Spec.edges pentagramCC true) ⟨2, 1/2⟩ = false := by
  decide +kernel

/-! ### non-vacuity: contact configurations, the ≥ 16-point path -/

def cvxSq : List Pt := [⟨0,0⟩,⟨10,0⟩,⟨10,10⟩,⟨0,10⟩,⟨0,0⟩]

/-- a triangle sharing an edge piece and a vertex with the square -/
example : (build (.poly cvxSq [])).contains (build (.poly [⟨0,0⟩,⟨5,0⟩,⟨10,10⟩] [])) =
    Spec.covers (.poly cvxSq []) (.poly [⟨0,0⟩,⟨5,0⟩,⟨10,10⟩] []) :=
  poly_contains_exact_convex cvxSq _ (by decide +kernel) (by decide +kernel) (by decide +kernel)

/-- a line string running along the boundary and through the interior, 17 points -/
def zig17 : List Pt :=
  [⟨0,0⟩,⟨10,0⟩,⟨5,5⟩,⟨10,0⟩,⟨0,0⟩,⟨10,0⟩,⟨5,5⟩,⟨10,0⟩,⟨0,0⟩,⟨10,0⟩,⟨5,5⟩,⟨10,0⟩,⟨0,0⟩,⟨10,0⟩,
   ⟨5,5⟩,⟨10,0⟩,⟨0,0⟩]

example : (build (.poly cvxSq [])).contains (build (.line zig17)) = true ∧
    Spec.covers (.poly cvxSq []) (.line zig17) = true := by
  have h := poly_contains_exact_convex cvxSq (.line zig17) (by decide +kernel) (by decide +kernel)
    (by decide +kernel)
  have h2 : Spec.covers (.poly cvxSq []) (.line zig17) = true := by decide +kernel
  exact ⟨h.trans h2, h2⟩

/-- the square itself (boundary = boundary) and the rectangle `[0,10] × [0,10]` -/
example : (build (.poly cvxSq [])).contains (build (.poly cvxSq [])) =
    Spec.covers (.poly cvxSq []) (.poly cvxSq []) :=
  poly_contains_exact_convex cvxSq _ (by decide +kernel) (by decide +kernel) (by decide +kernel)

example : (build (.poly cvxSq [])).contains (build (.rect ⟨0,0⟩ ⟨10,10⟩)) =
    Spec.covers (.poly cvxSq []) (.rect ⟨0,0⟩ ⟨10,10⟩) :=
  poly_contains_exact_convex cvxSq _ (by decide +kernel) (by decide +kernel) (by decide +kernel)

end Geo

#print axioms Geo.closedRegion_convex
#print axioms Geo.closedRegion_iff_halfplanes
#print axioms Geo.ringContainsSegment_convex_flag
#print axioms Geo.ringContainsSegment_convex_exact
#print axioms Geo.ringContainsRing_convex_exact
#print axioms Geo.ringContainsLine_convex_exact
#print axioms Geo.poly_contains_exact_convex
#print axioms Geo.simpleRing_imp_ringSimple
#print axioms Geo.geom_contains_index_indep_valid
#print axioms Geo.geom_contains_index_indep_valid_sized
#print axioms Geo.plain_eq_build
#print axioms Geo.geom_contains_exact_convex_indexed
#print axioms Geo.rect_contains_exact_valid
#print axioms Geo.contains_exact_convex_receivers
#print axioms Geo.geom_contains_reflX_convex
#print axioms Geo.geom_contains_reflY_convex
#print axioms Geo.geom_contains_transpose_convex
#print axioms Geo.ringContainsRing_vertices_sound
#print axioms Geo.convex_flag_nonsimple_counterexample
