/-
  GeoProofs.Glue.ParseGlueNums — the up-to-four-numbers iteration that every generated position
  reader contains (a searchFold over value.ForEach with state (err, count, nums)) is the model's
  `takeNums`.
-/
import GeoProofs.Glue.ParseGlue

namespace Geo.PGlue
open Geo Geo.PGen

abbrev NumSt := Option (PGen.Err MStr) × Int × List MF
abbrev RPair := Option JVal × Option JVal

/-- one step of the iteration, as the generated code performs it -/
def numStep (allowNull : Bool) (x : RPair) (st : NumSt) : NumSt × Bool :=
  if st.2.1 == 4 then (st, false)
  else if !(decide (typeOf x.2 = JType.num)) then
    if allowNull && decide (typeOf x.2 = JType.null) then ((st.1, st.2.1 + 1, arrSet st.2.2 st.2.1 mfNaN), true)
    else ((some PGen.Err.errCoordinatesInvalid, st.2.1, st.2.2), false)
  else ((st.1, st.2.1 + 1, arrSet st.2.2 st.2.1 (mfFloat x.2)), true)

/-- the model's takeNums over MF -/
def takeMF (allowNull : Bool) : List RPair → Nat → Option (List MF)
  | [], _ => some []
  | x :: xs, count =>
    if count == 4 then some []
    else if typeOf x.2 = JType.num then (takeMF allowNull xs (count + 1)).map (mfFloat x.2 :: ·)
    else if allowNull && decide (typeOf x.2 = JType.null) then (takeMF allowNull xs (count + 1)).map (mfNaN :: ·)
    else none

def zf : MF := mfInt 0

def pad (pre : List MF) : List MF := pre ++ List.replicate (4 - pre.length) zf

theorem takeMF_len (a : Bool) : ∀ (xs : List RPair) (c : Nat) (os : List MF), c ≤ 4 → takeMF a xs c = some os → c + os.length ≤ 4 := by
  intro xs
  induction xs with
  | nil => intro c os h h2; simp [takeMF] at h2; subst h2; simpa using h
  | cons x xs ih =>
    intro c os h h2
    rw [takeMF] at h2
    by_cases h4 : c = 4
    · simp [h4] at h2; subst h2; simp [h4]
    · have hc : c + 1 ≤ 4 := by omega
      have hne : (c == 4) = false := by simpa using h4
      rw [hne] at h2
      simp only [Bool.false_eq_true, if_false] at h2
      by_cases hn : typeOf x.2 = JType.num
      · rw [if_pos hn] at h2
        cases hr : takeMF a xs (c + 1) with
        | none => rw [hr] at h2; simp at h2
        | some r => rw [hr] at h2; simp at h2; subst h2; have := ih (c+1) r hc hr; simp; omega
      · rw [if_neg hn] at h2
        by_cases hz : (a && decide (typeOf x.2 = JType.null)) = true
        · rw [if_pos hz] at h2
          cases hr : takeMF a xs (c + 1) with
          | none => rw [hr] at h2; simp at h2
          | some r => rw [hr] at h2; simp at h2; subst h2; have := ih (c+1) r hc hr; simp; omega
        · rw [if_neg hz] at h2; simp at h2

theorem arrSet_pad (pre : List MF) (v : MF) (h : pre.length < 4) :
    arrSet (pad pre) (pre.length : Int) v = pad (pre ++ [v]) := by
  unfold arrSet pad
  have h0 : ¬ ((pre.length : Int) < 0) := by omega
  rw [if_neg h0]
  have h1 : 4 - pre.length = (4 - (pre ++ [v]).length) + 1 := by simp; omega
  rw [h1, List.replicate_succ]
  simp

theorem searchFold_cons_true {ε σ : Type} (f : ε → σ → σ × Bool) (x : ε) (xs : List ε) (s s' : σ)
    (h : f x s = (s', true)) : searchFold f (x :: xs) s = searchFold f xs s' := by
  rw [searchFold, h]

theorem searchFold_cons_false {ε σ : Type} (f : ε → σ → σ × Bool) (x : ε) (xs : List ε) (s s' : σ)
    (h : f x s = (s', false)) : searchFold f (x :: xs) s = s' := by
  rw [searchFold, h]

/-- the fold over the elements, started after `pre` -/
theorem numFold (a : Bool) (f : RPair → NumSt → NumSt × Bool) (hf : ∀ x st, f x st = numStep a x st) :
    ∀ (xs : List RPair) (pre : List MF), pre.length ≤ 4 →
      match takeMF a xs pre.length with
      | some os => searchFold f xs (none, (pre.length : Int), pad pre) = (none, ((pre ++ os).length : Int), pad (pre ++ os))
      | none => (searchFold f xs (none, (pre.length : Int), pad pre)).1 = some PGen.Err.errCoordinatesInvalid := by
  intro xs
  induction xs with
  | nil => intro pre _; simp [takeMF, searchFold]
  | cons x xs ih =>
    intro pre hp
    rw [takeMF]
    by_cases h4 : pre.length = 4
    · have hs : f x (none, (pre.length : Int), pad pre) = ((none, (pre.length : Int), pad pre), false) := by
        rw [hf]; simp [numStep, h4]
      simp only [h4, beq_self_eq_true, if_true]
      rw [searchFold_cons_false _ _ _ _ _ (by rw [← h4]; exact hs)]
      simp [h4]
    · have hlt : pre.length < 4 := by omega
      have hne : (pre.length == 4) = false := by simpa using h4
      have hne' : (((pre.length : Nat) : Int) == (4 : Int)) = false := by
        simp; omega
      rw [hne]
      simp only [Bool.false_eq_true, if_false]
      have key : ∀ v : MF, f x (none, (pre.length : Int), pad pre) = ((none, ((pre ++ [v]).length : Int), pad (pre ++ [v])), true) →
          match (takeMF a xs (pre.length + 1)).map (v :: ·) with
          | some os => searchFold f (x :: xs) (none, (pre.length : Int), pad pre) = (none, ((pre ++ os).length : Int), pad (pre ++ os))
          | none => (searchFold f (x :: xs) (none, (pre.length : Int), pad pre)).1 = some PGen.Err.errCoordinatesInvalid := by
        intro v step
        rw [searchFold_cons_true _ _ _ _ _ step]
        have := ih (pre ++ [v]) (by simp; omega)
        simp only [List.length_append, List.length_singleton] at this
        cases hr : takeMF a xs (pre.length + 1) with
        | none => rw [hr] at this; simpa using this
        | some r =>
          rw [hr] at this; simp only [Option.map_some]
          have e : (((pre ++ v :: r).length : Nat) : Int) = ((pre.length + 1 + r.length : Nat) : Int) := by simp; omega
          rw [e]; simpa using this
      by_cases hn : typeOf x.2 = JType.num
      · rw [if_pos hn]
        apply key
        rw [hf]; unfold numStep; simp only [hne', hn]
        simp [arrSet_pad pre _ hlt]
      · rw [if_neg hn]
        by_cases hz : (a && decide (typeOf x.2 = JType.null)) = true
        · rw [if_pos hz]
          apply key
          rw [hf]; unfold numStep; simp only [hne', hn, hz]
          simp [arrSet_pad pre _ hlt]
        · rw [if_neg hz]
          have hz' : (a && decide (typeOf x.2 = JType.null)) = false := by simpa using hz
          have step : f x (none, (pre.length : Int), pad pre) = ((some PGen.Err.errCoordinatesInvalid, (pre.length : Int), pad pre), false) := by
            rw [hf]; unfold numStep; simp only [hne', hn, hz']; simp
          rw [searchFold_cons_false _ _ _ _ _ step]

/-- the form used in the per-function proofs: F is the (generalised) fold term -/
theorem numFold0 (a : Bool) (f : RPair → NumSt → NumSt × Bool) (xs : List RPair) (F : NumSt)
    (hF : searchFold f xs (none, 0, List.replicate 4 (mfInt 0)) = F) (hf : ∀ x st, f x st = numStep a x st) :
    match takeMF a xs 0 with
    | some os => F = (none, (os.length : Int), pad os) ∧ os.length ≤ 4
    | none => F.1 = some PGen.Err.errCoordinatesInvalid := by
  have h := numFold a f hf xs [] (by simp)
  have hl := takeMF_len a xs 0
  simp only [List.length_nil, List.nil_append] at h
  cases hr : takeMF a xs 0 with
  | none => rw [hr] at h; simp only; rw [← hF]; exact h
  | some os =>
    rw [hr] at h; simp only
    refine ⟨?_, by simpa using hl os (by omega) hr⟩
    rw [← hF]; exact h

end Geo.PGlue
