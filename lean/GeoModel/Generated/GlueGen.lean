/-
  GENERATED FILE — do not edit.  Regenerate with
      cd /verif/translate && go build -o bin/translate . && \
        ./bin/translate glue /repo > /verif/lean/GeoModel/Generated/GlueGen.lean

  Syntactic translation (translate/glue.go) of the glue above the ring level of package
  geometry: the methods of *Poly (poly.go: hole loops), the Rect methods that forward to rings
  and polygons (rect.go) and the simple forwards of *Line (line.go).

  Conventions:
    * the definitions are parametrised by `ops : RingOps R L B P`: one field per distinct callee
      that is not itself translated here (package functions under their own name, method T.M
      as tM, `f(…).fld` as f_fld), found in the source; R = non-nil Ring, L = non-nil *Line,
      B = Rect, P = Point; ringOfRect is the implicit conversion Rect → Ring, rectZero is Rect{};
      the callees are taken to be pure (statements that could mutate are not recognised);
    * *Poly ↦ Option (GPoly R), *Line ↦ Option L, Ring ↦ Option R (none = nil), []Ring ↦ List R
      (the elements of Holes are taken to be non-nil); `x == nil` in a condition ↦ match on the
      Option, the some arm rebinds the non-nil value (variable: same name; field path
      poly.Exterior: poly_Exterior); a RingOps field or a field access is only ever applied
      to a value proved non-nil that way (otherwise the function is not recognised);
    * method T.M ↦ def tM (receiver first); x := e, x = e ↦ let;
    * a statement list becomes one expression, continuation style; the statements after an
      `if` are copied into every arm that falls through; a condition that contains nil tests
      is split along ||, && and ! (short-circuit order);
    * `for _, h := range xs { body }` ↦ forRange (fun h state => body) xs state, where state is
      the tuple of the outer variables assigned in body; end of body / continue ↦ Flow.next,
      break ↦ Flow.brk, return e ↦ Flow.ret e; the statements after the loop are the
      Exit.done arm of the match on the result.
  Anything outside the recognised subset appears below as  opaque <name>_unrecognised : Unit.
-/

set_option linter.unusedVariables false

namespace Geo.GGen

/-- `Poly{Exterior Ring; Holes []Ring}` over an abstract type of non-nil rings. -/
structure GPoly (R : Type) where
  ext : Option R
  holes : List R

/-- how one pass through a loop body ends -/
inductive Flow (σ ρ : Type) where
  | next (s : σ) : Flow σ ρ
  | brk (s : σ) : Flow σ ρ
  | ret (r : ρ) : Flow σ ρ

/-- how a loop ends: normally (or by break) with the final state, or by `return r` -/
inductive Exit (σ ρ : Type) where
  | done (s : σ) : Exit σ ρ
  | ret (r : ρ) : Exit σ ρ

/-- `for _, x := range xs { body }`: structural recursion over the list. -/
def forRange {ε σ ρ : Type} (body : ε → σ → Flow σ ρ) : List ε → σ → Exit σ ρ
  | [], s => Exit.done s
  | x :: xs, s =>
    match body x s with
    | Flow.next s' => forRange body xs s'
    | Flow.brk s' => Exit.done s'
    | Flow.ret r => Exit.ret r

/-- the callees of the glue, one field per distinct callee found in the source -/
structure RingOps (R L B P : Type) where
  /-- Go: `func (line *Line) ContainsPoint(point Point) bool` — geometry/line.go:32 -/
  lineContainsPoint : L → P → Bool
  /-- Go: `func (line *Line) ContainsPoly(poly *Poly) bool` — geometry/line.go:147 -/
  lineContainsPoly : L → (GPoly R) → Bool
  /-- Go: `func (series *baseSeries) Empty() bool` — geometry/series.go:126 -/
  lineEmpty : L → Bool
  /-- Go: `func (series *baseSeries) Rect() Rect` — geometry/series.go:143 -/
  lineRect : L → B
  /-- Go: `func (rect Rect) ContainsRect(other Rect) bool` — geometry/rect.go:125 -/
  rectContainsRect : B → B → Bool
  /-- the zero value `Rect{}` -/
  rectZero : B
  /-- Go: `func ringContainsLine(ring Ring, line *Line, allowOnEdge bool) bool` — geometry/ring.go:355 -/
  ringContainsLine : R → L → Bool → Bool
  /-- Go: `func ringContainsPoint(ring Ring, point Point, allowOnEdge bool) ringResult` (field .hit of the result) — geometry/ring.go:25 -/
  ringContainsPoint_hit : R → P → Bool → Bool
  /-- Go: `func ringContainsRing(ring, other Ring, allowOnEdge bool) bool` — geometry/ring.go:292 -/
  ringContainsRing : R → R → Bool → Bool
  /-- Go: `Empty() bool` — geometry/series.go:49 -/
  ringEmpty : R → Bool
  /-- Go: `func ringIntersectsLine(ring Ring, line *Line, allowOnEdge bool) bool` — geometry/ring.go:360 -/
  ringIntersectsLine : R → L → Bool → Bool
  /-- Go: `func ringIntersectsRing(ring, other Ring, allowOnEdge bool) bool` — geometry/ring.go:333 -/
  ringIntersectsRing : R → R → Bool → Bool
  /-- the implicit conversion of a Rect to the interface Ring (= Series) -/
  ringOfRect : B → R
  /-- Go: `Rect() Rect` — geometry/series.go:48 -/
  ringRect : R → B

/-- Go: `func (poly *Poly) Empty() bool` — geometry/poly.go:31 -/
def polyEmpty {R L B P : Type} (ops : RingOps R L B P) (poly : Option (GPoly R)) : Bool :=
  (match poly with
  | none =>
    true
  | some poly =>
    (match poly.ext with
    | none =>
      true
    | some poly_Exterior =>
      ops.ringEmpty poly_Exterior))

/-- Go: `func (poly *Poly) Rect() Rect` — geometry/poly.go:53 -/
def polyRect {R L B P : Type} (ops : RingOps R L B P) (poly : Option (GPoly R)) : B :=
  (match poly with
  | none =>
    ops.rectZero
  | some poly =>
    (match poly.ext with
    | none =>
      ops.rectZero
    | some poly_Exterior =>
      ops.ringRect poly_Exterior))

/-- Go: `func (poly *Poly) ContainsPoint(point Point) bool` — geometry/poly.go:91 -/
def polyContainsPoint {R L B P : Type} (ops : RingOps R L B P) (poly : Option (GPoly R)) (point : P) : Bool :=
  (match poly with
  | none =>
    false
  | some poly =>
    (match poly.ext with
    | none =>
      false
    | some poly_Exterior =>
      if !(ops.ringContainsPoint_hit poly_Exterior point true) then
        false
      else
        let contains : Bool := true
        (match forRange (fun hole contains =>
            if ops.ringContainsPoint_hit hole point false then
              let contains : Bool := false
              Flow.brk contains
            else
              Flow.next contains) poly.holes contains with
        | Exit.ret r' =>
          r'
        | Exit.done contains =>
          contains)))

/-- Go: `func (poly *Poly) IntersectsPoint(point Point) bool` — geometry/poly.go:108 -/
def polyIntersectsPoint {R L B P : Type} (ops : RingOps R L B P) (poly : Option (GPoly R)) (point : P) : Bool :=
  (match poly with
  | none =>
    false
  | some poly =>
    polyContainsPoint ops (some poly) point)

/-- Go: `func (poly *Poly) ContainsLine(line *Line) bool` — geometry/poly.go:131 -/
def polyContainsLine {R L B P : Type} (ops : RingOps R L B P) (poly : Option (GPoly R)) (line : Option L) : Bool :=
  (match poly with
  | none =>
    false
  | some poly =>
    (match poly.ext with
    | none =>
      false
    | some poly_Exterior =>
      (match line with
      | none =>
        false
      | some line =>
        if !(ops.ringContainsLine poly_Exterior line true) then
          false
        else
          (match forRange (fun polyHole () =>
              if ops.ringIntersectsLine polyHole line false then
                Flow.ret false
              else
                Flow.next ()) poly.holes () with
          | Exit.ret r' =>
            r'
          | Exit.done () =>
            true))))

/-- Go: `func (poly *Poly) IntersectsLine(line *Line) bool` — geometry/poly.go:146 -/
def polyIntersectsLine {R L B P : Type} (ops : RingOps R L B P) (poly : Option (GPoly R)) (line : Option L) : Bool :=
  (match poly with
  | none =>
    false
  | some poly =>
    (match poly.ext with
    | none =>
      false
    | some poly_Exterior =>
      (match line with
      | none =>
        false
      | some line =>
        if !(ops.ringIntersectsLine poly_Exterior line true) then
          false
        else
          (match forRange (fun hole () =>
              if ops.ringContainsLine hole line false then
                Flow.ret false
              else
                Flow.next ()) poly.holes () with
          | Exit.ret r' =>
            r'
          | Exit.done () =>
            true))))

/-- Go: `func (poly *Poly) ContainsPoly(other *Poly) bool` — geometry/poly.go:161 -/
def polyContainsPoly {R L B P : Type} (ops : RingOps R L B P) (poly : Option (GPoly R)) (other : Option (GPoly R)) : Bool :=
  (match poly with
  | none =>
    false
  | some poly =>
    (match poly.ext with
    | none =>
      false
    | some poly_Exterior =>
      (match other with
      | none =>
        false
      | some other =>
        (match other.ext with
        | none =>
          false
        | some other_Exterior =>
          if !(ops.ringContainsRing poly_Exterior other_Exterior true) then
            false
          else
            let contains : Bool := true
            (match forRange (fun polyHole contains =>
                if ops.ringIntersectsRing polyHole other_Exterior false then
                  let contains : Bool := false
                  (match forRange (fun otherHole contains =>
                      if ops.ringContainsRing otherHole polyHole true then
                        let contains : Bool := true
                        Flow.brk contains
                      else
                        Flow.next contains) other.holes contains with
                  | Exit.ret r' =>
                    Flow.ret r'
                  | Exit.done contains =>
                    if !contains then
                      Flow.brk contains
                    else
                      Flow.next contains)
                else
                  Flow.next contains) poly.holes contains with
            | Exit.ret r' =>
              r'
            | Exit.done contains =>
              contains)))))

/-- Go: `func (poly *Poly) IntersectsPoly(other *Poly) bool` — geometry/poly.go:191 -/
def polyIntersectsPoly {R L B P : Type} (ops : RingOps R L B P) (poly : Option (GPoly R)) (other : Option (GPoly R)) : Bool :=
  (match poly with
  | none =>
    false
  | some poly =>
    (match poly.ext with
    | none =>
      false
    | some poly_Exterior =>
      (match other with
      | none =>
        false
      | some other =>
        (match other.ext with
        | none =>
          false
        | some other_Exterior =>
          if !(ops.ringIntersectsRing other_Exterior poly_Exterior true) then
            false
          else
            (match forRange (fun hole () =>
                if ops.ringContainsRing hole other_Exterior false then
                  Flow.ret false
                else
                  Flow.next ()) poly.holes () with
            | Exit.ret r' =>
              r'
            | Exit.done () =>
              (match forRange (fun hole () =>
                  if ops.ringContainsRing hole poly_Exterior false then
                    Flow.ret false
                  else
                    Flow.next ()) other.holes () with
              | Exit.ret r' =>
                r'
              | Exit.done () =>
                true))))))

/-- Go: `func (poly *Poly) ContainsRect(rect Rect) bool` — geometry/poly.go:115 -/
def polyContainsRect {R L B P : Type} (ops : RingOps R L B P) (poly : Option (GPoly R)) (rect : B) : Bool :=
  (match poly with
  | none =>
    false
  | some poly =>
    polyContainsPoly ops (some poly) (some { ext := some (ops.ringOfRect rect), holes := [] : GPoly R }))

/-- Go: `func (poly *Poly) IntersectsRect(rect Rect) bool` — geometry/poly.go:123 -/
def polyIntersectsRect {R L B P : Type} (ops : RingOps R L B P) (poly : Option (GPoly R)) (rect : B) : Bool :=
  (match poly with
  | none =>
    false
  | some poly =>
    polyIntersectsPoly ops (some poly) (some { ext := some (ops.ringOfRect rect), holes := [] : GPoly R }))

/-- Go: `func (rect Rect) ContainsLine(line *Line) bool` — geometry/rect.go:145 -/
def rectContainsLine {R L B P : Type} (ops : RingOps R L B P) (rect : B) (line : Option L) : Bool :=
  (match line with
  | none =>
    false
  | some line =>
    (!(ops.lineEmpty line)) && (ops.rectContainsRect rect (ops.lineRect line)))

/-- Go: `func (rect Rect) IntersectsLine(line *Line) bool` — geometry/rect.go:152 -/
def rectIntersectsLine {R L B P : Type} (ops : RingOps R L B P) (rect : B) (line : Option L) : Bool :=
  (match line with
  | none =>
    false
  | some line =>
    ops.ringIntersectsLine (ops.ringOfRect rect) line true)

/-- Go: `func (rect Rect) ContainsPoly(poly *Poly) bool` — geometry/rect.go:159 -/
def rectContainsPoly {R L B P : Type} (ops : RingOps R L B P) (rect : B) (poly : Option (GPoly R)) : Bool :=
  (match poly with
  | none =>
    false
  | some poly =>
    (!(polyEmpty ops (some poly))) && (ops.rectContainsRect rect (polyRect ops (some poly))))

/-- Go: `func (rect Rect) IntersectsPoly(poly *Poly) bool` — geometry/rect.go:166 -/
def rectIntersectsPoly {R L B P : Type} (ops : RingOps R L B P) (rect : B) (poly : Option (GPoly R)) : Bool :=
  (match poly with
  | none =>
    false
  | some poly =>
    polyIntersectsRect ops (some poly) rect)

/-- Go: `func (line *Line) IntersectsPoint(point Point) bool` — geometry/line.go:47 -/
def lineIntersectsPoint {R L B P : Type} (ops : RingOps R L B P) (line : Option L) (point : P) : Bool :=
  (match line with
  | none =>
    false
  | some line =>
    ops.lineContainsPoint line point)

/-- Go: `func (line *Line) ContainsRect(rect Rect) bool` — geometry/line.go:54 -/
def lineContainsRect {R L B P : Type} (ops : RingOps R L B P) (line : Option L) (rect : B) : Bool :=
  (match line with
  | none =>
    false
  | some line =>
    ops.lineContainsPoly line { ext := some (ops.ringOfRect rect), holes := [] : GPoly R })

/-- Go: `func (line *Line) IntersectsRect(rect Rect) bool` — geometry/line.go:62 -/
def lineIntersectsRect {R L B P : Type} (ops : RingOps R L B P) (line : Option L) (rect : B) : Bool :=
  (match line with
  | none =>
    false
  | some line =>
    rectIntersectsLine ops rect (some line))

/-- Go: `func (line *Line) IntersectsPoly(poly *Poly) bool` — geometry/line.go:163 -/
def lineIntersectsPoly {R L B P : Type} (ops : RingOps R L B P) (line : Option L) (poly : Option (GPoly R)) : Bool :=
  polyIntersectsLine ops poly line

end Geo.GGen
