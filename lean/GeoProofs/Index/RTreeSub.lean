/-
  GeoProofs.Index.RTreeSub — what the R-tree needs beyond the order laws.

  With an arbitrary `sub` the split of an inner node may leave an empty half and items get lost
  (`rBuild_items_counterexample` in RTree.lean).  One extra law — the SIGN of `sub a b` is
  exact (`SignExactSub`; true of IEEE-754 subtraction on finite doubles) — excludes that:
  node boxes are tight (every bound is reached by an entry), so the entry reaching the max
  bound of the split axis is never classified "left" and the one reaching the min bound never
  "right"; both halves of every split are non-empty, hence `RTree.NE` for every built tree.
  Magnitudes of `sub`/`mul` results (rounding of areas, enlargements) remain arbitrary.
-/
import GeoProofs.Index.RTree

namespace Geo
set_option linter.unusedSectionVars false

/-- sign-exact subtraction (separate from the order laws): the sign of `sub a b` is the order
    of `a` and `b`.  IEEE-754 subtraction of finite doubles satisfies this (the exact
    difference is nonzero iff the operands differ, and rounding never crosses zero). -/
class SignExactSub (α : Type) [Carrier α] : Prop where
  sub_neg : ∀ a b : α, Carrier.lt (Carrier.sub a b) Carrier.zero = Carrier.lt a b
  sub_pos : ∀ a b : α, Carrier.lt Carrier.zero (Carrier.sub a b) = Carrier.lt b a

section
variable {α : Type} [Carrier α]
open Carrier

/-! ## the partition loop really classifies (the fuel `2*len+2` suffices) -/

theorem take_swapRemove {β : Type} (l : List β) (i : Nat) (x : β) (h : i < l.length) :
    ((l.set i x).dropLast).take i = l.take i := by
  rw [List.dropLast_eq_take, List.take_take, List.length_set]
  rw [show min i (l.length - 1) = i by omega]
  exact List.take_set_of_le (Nat.le_refl i)

theorem splitLoop_classes {β : Type} (cls : β → Nat) (fuel : Nat) :
    ∀ (left : List β) (i : Nat) (right equals : List β),
      left.length - i ≤ fuel → (∀ x ∈ left.take i, cls x = 0) → (∀ x ∈ right, cls x = 1) →
      (∀ x ∈ (splitLoop cls fuel left i right equals).1, cls x = 0) ∧
      (∀ x ∈ (splitLoop cls fuel left i right equals).2.1, cls x = 1) := by
  induction fuel with
  | zero =>
    intro left i right equals hf hl hr
    rw [splitLoop]
    rw [List.take_of_length_le (by omega)] at hl
    exact ⟨hl, hr⟩
  | succ fuel ih =>
    intro left i right equals hf hl hr
    rw [splitLoop]
    split
    · rename_i h
      dsimp only
      split
      · rename_i hc
        refine ih _ _ _ _ (by omega) ?_ hr
        intro x hx
        rw [List.take_succ_eq_append_getElem h] at hx
        rcases List.mem_append.1 hx with hx | hx
        · exact hl x hx
        · simp only [List.mem_cons, List.not_mem_nil, or_false] at hx
          rw [hx]; exact hc
      · refine ih _ _ _ _ (by simp; omega) ?_ ?_
        · rw [take_swapRemove left i _ h]; exact hl
        · intro x hx
          split at hx
          · rename_i hc1
            rcases List.mem_append.1 hx with hx | hx
            · exact hr x hx
            · simp only [List.mem_cons, List.not_mem_nil, or_false] at hx
              rw [hx]; simpa using hc1
          · exact hr x hx
    · rename_i h
      rw [List.take_of_length_le (by omega)] at hl
      exact ⟨hl, hr⟩

theorem distributeEquals_nonempty {β : Type} (equals : List β) :
    ∀ (left right : List β), (left ≠ [] ∨ equals ≠ []) → (right ≠ [] ∨ equals ≠ []) →
      2 ≤ left.length + right.length + equals.length →
      (distributeEquals left right equals).1 ≠ [] ∧ (distributeEquals left right equals).2 ≠ [] := by
  induction equals with
  | nil =>
    intro left right h1 h2 _
    rw [distributeEquals]
    exact ⟨by simpa using h1, by simpa using h2⟩
  | cons b rest ih =>
    intro left right h1 h2 h3
    rw [distributeEquals]
    split
    · rename_i hlt
      refine ih _ _ (Or.inl (by simp)) (Or.inl ?_) (by simp at h3 ⊢; omega)
      intro h0; rw [h0] at hlt; simp at hlt
    · rename_i hlt
      refine ih _ _ ?_ (Or.inl (by simp)) (by simp at h3 ⊢; omega)
      by_cases hl : left = []
      · right
        intro hr0
        subst hl hr0
        have hr : right.length = 0 := by
          simp only [List.length_nil, Nat.not_lt, Nat.le_zero_eq] at hlt; exact hlt
        simp only [List.length_nil, List.length_cons] at h3
        omega
      · exact Or.inl hl

/-- if some entry is not "left" and some entry is not "right", both halves are non-empty. -/
theorem split_core_nonempty {β : Type} (cls : β → Nat) (es : List β) (fuel : Nat)
    (hfuel : es.length ≤ fuel) (h2 : 2 ≤ es.length)
    (h1 : ∃ e ∈ es, cls e ≠ 0) (h1' : ∃ e ∈ es, cls e ≠ 1) :
    (distributeEquals (splitLoop cls fuel es 0 [] []).1 (splitLoop cls fuel es 0 [] []).2.1
        (splitLoop cls fuel es 0 [] []).2.2).1 ≠ [] ∧
    (distributeEquals (splitLoop cls fuel es 0 [] []).1 (splitLoop cls fuel es 0 [] []).2.1
        (splitLoop cls fuel es 0 [] []).2.2).2 ≠ [] := by
  have hp := splitLoop_perm cls fuel es 0 [] []
  obtain ⟨c1, c2⟩ := splitLoop_classes cls fuel es 0 [] [] (by omega) (by simp) (by simp)
  generalize splitLoop cls fuel es 0 [] [] = r at hp c1 c2
  obtain ⟨l, r, e⟩ := r
  simp only [List.append_nil] at hp c1 c2 ⊢
  refine distributeEquals_nonempty e l r ?_ ?_ ?_
  · obtain ⟨x, hx, hc⟩ := h1'
    have := hp.mem_iff.2 hx
    simp only [List.mem_append] at this
    rcases this with (h | h) | h
    · exact Or.inl (List.ne_nil_of_mem h)
    · exact absurd (c2 x h) hc
    · exact Or.inr (List.ne_nil_of_mem h)
  · obtain ⟨x, hx, hc⟩ := h1
    have := hp.mem_iff.2 hx
    simp only [List.mem_append] at this
    rcases this with (h | h) | h
    · exact absurd (c1 x h) hc
    · exact Or.inl (List.ne_nil_of_mem h)
    · exact Or.inr (List.ne_nil_of_mem h)
  · have := hp.length_eq
    simp only [List.length_append] at this
    omega

/-! ## tight boxes -/

/-- every bound of `nb` is reached (or exceeded) by some box of the list. -/
def Tight (nb : GBox α) (bs : List (GBox α)) : Prop :=
  (∃ b ∈ bs, lt nb.minx b.minx = false) ∧ (∃ b ∈ bs, lt nb.miny b.miny = false) ∧
  (∃ b ∈ bs, lt b.maxx nb.maxx = false) ∧ (∃ b ∈ bs, lt b.maxy nb.maxy = false)

theorem Tight.ne_nil {nb : GBox α} {bs : List (GBox α)} (h : Tight nb bs) : bs ≠ [] := by
  obtain ⟨⟨b, hb, _⟩, _⟩ := h
  exact List.ne_nil_of_mem hb

theorem Tight.mono {nb : GBox α} {bs bs' : List (GBox α)} (h : Tight nb bs)
    (hsub : ∀ b ∈ bs, b ∈ bs') : Tight nb bs' := by
  obtain ⟨⟨b1, m1, h1⟩, ⟨b2, m2, h2⟩, ⟨b3, m3, h3⟩, ⟨b4, m4, h4⟩⟩ := h
  exact ⟨⟨b1, hsub _ m1, h1⟩, ⟨b2, hsub _ m2, h2⟩, ⟨b3, hsub _ m3, h3⟩, ⟨b4, hsub _ m4, h4⟩⟩

theorem Tight.trans [LawfulCarrier α] {nb : GBox α} {bs bs' : List (GBox α)} (h : Tight nb bs)
    (hdom : ∀ b ∈ bs, Tight b bs') : Tight nb bs' := by
  obtain ⟨⟨b1, m1, h1⟩, ⟨b2, m2, h2⟩, ⟨b3, m3, h3⟩, ⟨b4, m4, h4⟩⟩ := h
  obtain ⟨⟨c1, n1, g1⟩, _, _, _⟩ := hdom b1 m1
  obtain ⟨_, ⟨c2, n2, g2⟩, _, _⟩ := hdom b2 m2
  obtain ⟨_, _, ⟨c3, n3, g3⟩, _⟩ := hdom b3 m3
  obtain ⟨_, _, _, ⟨c4, n4, g4⟩⟩ := hdom b4 m4
  exact ⟨⟨c1, n1, LawfulCarrier.le_trans _ _ _ g1 h1⟩, ⟨c2, n2, LawfulCarrier.le_trans _ _ _ g2 h2⟩,
    ⟨c3, n3, LawfulCarrier.le_trans _ _ _ h3 g3⟩, ⟨c4, n4, LawfulCarrier.le_trans _ _ _ h4 g4⟩⟩

theorem Tight.of_subset_mem {b b' : GBox α} {bs : List (GBox α)} (hs : b ⊆ b') (hm : b' ∈ bs) :
    Tight b bs := by
  rw [GBox.subset_def] at hs
  obtain ⟨h1, h2, h3, h4⟩ := hs
  exact ⟨⟨b', hm, h1⟩, ⟨b', hm, h2⟩, ⟨b', hm, h3⟩, ⟨b', hm, h4⟩⟩

theorem Tight.of_mem [LawfulCarrier α] {b : GBox α} {bs : List (GBox α)} (hm : b ∈ bs) :
    Tight b bs := Tight.of_subset_mem (GBox.subset_refl b) hm

theorem Tight.expand {nb x : GBox α} {bs : List (GBox α)} (h1 : Tight nb bs) (h2 : Tight x bs) :
    Tight (nb.expand x) bs := by
  obtain ⟨a1, a2, a3, a4⟩ := h1
  obtain ⟨b1, b2, b3, b4⟩ := h2
  unfold GBox.expand
  refine ⟨?_, ?_, ?_, ?_⟩ <;> dsimp only <;> split <;> assumption

theorem Tight.foldl_expand [LawfulCarrier α] {bs' : List (GBox α)} (rest : List (GBox α)) :
    ∀ b0, Tight b0 bs' → (∀ b ∈ rest, b ∈ bs') → Tight (rest.foldl GBox.expand b0) bs' := by
  induction rest with
  | nil => intro b0 h _; exact h
  | cons c rest ih =>
    intro b0 h hsub
    exact ih _ (h.expand (Tight.of_mem (hsub c (by simp)))) (fun b hb => hsub b (by simp [hb]))

theorem Tight.recalc [LawfulCarrier α] (bs : List (GBox α)) (d : GBox α) (h : bs ≠ []) :
    Tight (recalcBoxes bs d) bs := by
  cases bs with
  | nil => exact absurd rfl h
  | cons c rest =>
    exact Tight.foldl_expand rest c (Tight.of_mem (by simp)) (fun b hb => by simp [hb])

/-! ## with a sign-exact `sub`, a tight covering box splits into two non-empty halves -/

theorem cls_ne_zero (c1 c2 : Bool) (h : c1 = false) :
    (if c1 = true then 0 else if c2 = true then 1 else 2) ≠ 0 := by
  subst h; cases c2 <;> simp

theorem cls_ne_one (c1 c2 : Bool) (h : c2 = false) :
    (if c1 = true then 0 else if c2 = true then 1 else 2) ≠ 1 := by
  subst h; cases c1 <;> simp

/-- the classifier of `splitEntries` (0 = stays left, 1 = right, 2 = equal distances) -/
def splitCls {β : Type} (rectOf : β → GBox α) (box : GBox α) (e : β) : Nat :=
  if lt (if lt (sub box.maxx box.minx) (sub box.maxy box.miny) then sub (rectOf e).miny box.miny
        else sub (rectOf e).minx box.minx)
      (if lt (sub box.maxx box.minx) (sub box.maxy box.miny) then sub box.maxy (rectOf e).maxy
        else sub box.maxx (rectOf e).maxx) then 0
  else if lt (if lt (sub box.maxx box.minx) (sub box.maxy box.miny) then sub box.maxy (rectOf e).maxy
        else sub box.maxx (rectOf e).maxx)
      (if lt (sub box.maxx box.minx) (sub box.maxy box.miny) then sub (rectOf e).miny box.miny
        else sub (rectOf e).minx box.minx) then 1
  else 2

theorem splitEntries_eq {β : Type} (rectOf : β → GBox α) (box : GBox α) (es : List β) :
    splitEntries rectOf box es =
      distributeEquals (splitLoop (splitCls rectOf box) (2 * es.length + 2) es 0 [] []).1
        (splitLoop (splitCls rectOf box) (2 * es.length + 2) es 0 [] []).2.1
        (splitLoop (splitCls rectOf box) (2 * es.length + 2) es 0 [] []).2.2 := by
  rfl

theorem splitEntries_nonempty [LawfulCarrier α] [SignExactSub α] {β : Type} (rectOf : β → GBox α)
    (box : GBox α) (es : List β) (h2 : 2 ≤ es.length) (hcov : ∀ e ∈ es, rectOf e ⊆ box)
    (ht : Tight box (es.map rectOf)) :
    (splitEntries rectOf box es).1 ≠ [] ∧ (splitEntries rectOf box es).2 ≠ [] := by
  rw [splitEntries_eq]
  obtain ⟨⟨b1, m1, t1⟩, ⟨b2, m2, t2⟩, ⟨b3, m3, t3⟩, ⟨b4, m4, t4⟩⟩ := ht
  obtain ⟨e1, me1, rfl⟩ := List.mem_map.1 m1
  obtain ⟨e2, me2, rfl⟩ := List.mem_map.1 m2
  obtain ⟨e3, me3, rfl⟩ := List.mem_map.1 m3
  obtain ⟨e4, me4, rfl⟩ := List.mem_map.1 m4
  have c1 := (GBox.subset_def _ _).1 (hcov e1 me1)
  have c2 := (GBox.subset_def _ _).1 (hcov e2 me2)
  have c3 := (GBox.subset_def _ _).1 (hcov e3 me3)
  have c4 := (GBox.subset_def _ _).1 (hcov e4 me4)
  refine split_core_nonempty (splitCls rectOf box) es (2 * es.length + 2) (by omega) h2 ?_ ?_
  · -- an entry reaching the max bound of the split axis is not "left"
    cases hax : lt (sub box.maxx box.minx) (sub box.maxy box.miny)
    · refine ⟨e3, me3, ?_⟩
      have hz1 : lt zero (sub box.maxx (rectOf e3).maxx) = false := by
        rw [SignExactSub.sub_pos]; exact t3
      have hz2 : lt (sub (rectOf e3).minx box.minx) zero = false := by
        rw [SignExactSub.sub_neg]; exact c3.1
      have := LawfulCarrier.le_trans _ _ _ hz1 hz2
      unfold splitCls
      simp only [hax, Bool.false_eq_true, ↓reduceIte]
      exact cls_ne_zero _ _ this
    · refine ⟨e4, me4, ?_⟩
      have hz1 : lt zero (sub box.maxy (rectOf e4).maxy) = false := by
        rw [SignExactSub.sub_pos]; exact t4
      have hz2 : lt (sub (rectOf e4).miny box.miny) zero = false := by
        rw [SignExactSub.sub_neg]; exact c4.2.1
      have := LawfulCarrier.le_trans _ _ _ hz1 hz2
      unfold splitCls
      simp only [hax, ↓reduceIte]
      exact cls_ne_zero _ _ this
  · -- an entry reaching the min bound of the split axis is not "right"
    cases hax : lt (sub box.maxx box.minx) (sub box.maxy box.miny)
    · refine ⟨e1, me1, ?_⟩
      have hz1 : lt zero (sub (rectOf e1).minx box.minx) = false := by
        rw [SignExactSub.sub_pos]; exact t1
      have hz2 : lt (sub box.maxx (rectOf e1).maxx) zero = false := by
        rw [SignExactSub.sub_neg]; exact c1.2.2.1
      have := LawfulCarrier.le_trans _ _ _ hz1 hz2
      unfold splitCls
      simp only [hax, Bool.false_eq_true, ↓reduceIte]
      exact cls_ne_one _ _ this
    · refine ⟨e2, me2, ?_⟩
      have hz1 : lt zero (sub (rectOf e2).miny box.miny) = false := by
        rw [SignExactSub.sub_pos]; exact t2
      have hz2 : lt (sub box.maxy (rectOf e2).maxy) zero = false := by
        rw [SignExactSub.sub_neg]; exact c2.2.2.2
      have := LawfulCarrier.le_trans _ _ _ hz1 hz2
      unfold splitCls
      simp only [hax, ↓reduceIte]
      exact cls_ne_one _ _ this

/-! ## the tightness invariant -/

mutual
/-- every node is non-empty and its box is tight for its entries' boxes. -/
def RT : GBox α → RNode α → Prop
  | nb, .leaf es => Tight nb (es.map (·.1))
  | nb, .inner es => Tight nb (es.map (·.1)) ∧ RTL es
def RTL : List (GBox α × RNode α) → Prop
  | [] => True
  | (cb, cn) :: rest => RT cb cn ∧ RTL rest
end

theorem RTL_iff (es : List (GBox α × RNode α)) : RTL es ↔ ∀ e ∈ es, RT e.1 e.2 := by
  induction es with
  | nil => simp [RTL]
  | cons e rest ih => obtain ⟨b, n⟩ := e; simp [RTL, ih]

theorem RT_inner (nb : GBox α) (es : List (GBox α × RNode α)) :
    RT nb (.inner es) ↔ Tight nb (es.map (·.1)) ∧ ∀ e ∈ es, RT e.1 e.2 := by
  rw [RT, RTL_iff]

theorem RT_leaf (nb : GBox α) (es : List (GBox α × Nat)) :
    RT nb (.leaf es) ↔ Tight nb (es.map (·.1)) := by
  rw [RT]

theorem RT.count_ne_zero {nb : GBox α} {n : RNode α} (h : RT nb n) : n.count ≠ 0 := by
  cases n with
  | leaf es =>
    rw [RT_leaf] at h
    have := h.ne_nil
    simp only [RNode.count]
    intro h0; exact this (by simp [List.length_eq_zero_iff.1 h0])
  | inner es =>
    rw [RT_inner] at h
    have := h.1.ne_nil
    simp only [RNode.count]
    intro h0; exact this (by simp [List.length_eq_zero_iff.1 h0])

theorem RT.NE (n : RNode α) : ∀ nb, RT nb n → n.NE := by
  induction n using RNode.ind with
  | leaf es => intro _ _; simp [RNode.NE]
  | inner es ih =>
    intro nb h
    rw [RT_inner] at h
    rw [NE_inner]
    refine ⟨?_, fun e he => ih e he e.1 (h.2 e he)⟩
    intro h0; exact h.1.ne_nil (by simp [h0])

theorem subLeaf_tight [LawfulCarrier α] (cb' : GBox α) (sub : List (GBox α × Nat)) (h : sub ≠ []) :
    RT (recalcBoxes (sub.map (·.1)) cb') (.leaf sub) := by
  rw [RT_leaf]
  exact Tight.recalc _ _ (by simpa using h)

theorem subInner_tight [LawfulCarrier α] (cb' : GBox α) (es sub : List (GBox α × RNode α))
    (h : sub ≠ []) (hsub : ∀ x ∈ sub, x ∈ es) (hes : ∀ e ∈ es, RT e.1 e.2) :
    RT (recalcBoxes (sub.map (·.1)) cb') (.inner sub) := by
  rw [RT_inner]
  exact ⟨Tight.recalc _ _ (by simpa using h), fun e he => hes e (hsub e he)⟩

/-- both halves of a split of a tight, covered node with ≥ 2 entries are tight (so non-empty),
    and the old box is tight for the two new boxes. -/
theorem splitPair_tight [LawfulCarrier α] [SignExactSub α] (boxOf : Nat → GBox α) (cb' : GBox α)
    (n : RNode α) (hi : RInv boxOf cb' n) (ht : RT cb' n) (hc : 2 ≤ n.count) :
    RT (splitPair cb' n).1.1 (splitPair cb' n).1.2 ∧ RT (splitPair cb' n).2.1 (splitPair cb' n).2.2 ∧
      Tight cb' [(splitPair cb' n).1.1, (splitPair cb' n).2.1] := by
  cases n with
  | leaf es =>
    rw [RT_leaf] at ht
    rw [RInv_leaf] at hi
    simp only [RNode.count] at hc
    obtain ⟨n1, n2⟩ := splitEntries_nonempty (fun p : GBox α × Nat => p.1) cb' es hc
      (fun e he => (hi e he).1) ht
    simp only [splitPair]
    refine ⟨subLeaf_tight cb' _ n1, subLeaf_tight cb' _ n2, ?_⟩
    refine ht.trans ?_
    intro b hb
    obtain ⟨x, hx, rfl⟩ := List.mem_map.1 hb
    have := (splitEntries_perm (fun p : GBox α × Nat => p.1) cb' es).mem_iff.2 hx
    rcases List.mem_append.1 this with h | h
    · exact Tight.of_subset_mem (recalcBoxes_covers _ cb' _ (List.mem_map.2 ⟨x, h, rfl⟩)) (by simp)
    · exact Tight.of_subset_mem (recalcBoxes_covers _ cb' _ (List.mem_map.2 ⟨x, h, rfl⟩)) (by simp)
  | inner es =>
    rw [RT_inner] at ht
    rw [RInv_inner] at hi
    simp only [RNode.count] at hc
    obtain ⟨n1, n2⟩ := splitEntries_nonempty (fun p : GBox α × RNode α => p.1) cb' es hc
      (fun e he => (hi e he).1) ht.1
    simp only [splitPair]
    refine ⟨subInner_tight cb' es _ n1 (splitEntries_mem_left _ cb' es) ht.2,
      subInner_tight cb' es _ n2 (splitEntries_mem_right _ cb' es) ht.2, ?_⟩
    refine ht.1.trans ?_
    intro b hb
    obtain ⟨x, hx, rfl⟩ := List.mem_map.1 hb
    have := (splitEntries_perm (fun p : GBox α × RNode α => p.1) cb' es).mem_iff.2 hx
    rcases List.mem_append.1 this with h | h
    · exact Tight.of_subset_mem (recalcBoxes_covers _ cb' _ (List.mem_map.2 ⟨x, h, rfl⟩)) (by simp)
    · exact Tight.of_subset_mem (recalcBoxes_covers _ cb' _ (List.mem_map.2 ⟨x, h, rfl⟩)) (by simp)

/-- the entries replacing a child are tight, and the grown child box is tight for them. -/
theorem childRepl_tight [LawfulCarrier α] [SignExactSub α] (boxOf : Nat → GBox α)
    (item : GBox α × Nat) (cb : GBox α) (cn : RNode α)
    (hi : RInv boxOf (if (rInsertNode cb item cn).2 then cb.expand item.1 else cb) (rInsertNode cb item cn).1)
    (ht : RT (if (rInsertNode cb item cn).2 then cb.expand item.1 else cb) (rInsertNode cb item cn).1) :
    (∀ e ∈ (childRepl item cb cn).1 ++ (childRepl item cb cn).2, RT e.1 e.2) ∧
      Tight (if (rInsertNode cb item cn).2 then cb.expand item.1 else cb)
        (((childRepl item cb cn).1 ++ (childRepl item cb cn).2).map (·.1)) := by
  unfold childRepl
  split
  · rename_i hc
    simp only [rMaxEntries, beq_iff_eq] at hc
    obtain ⟨t1, t2, t3⟩ := splitPair_tight boxOf _ _ hi ht (by omega)
    refine ⟨?_, by simpa using t3⟩
    intro e he
    simp only [List.cons_append, List.nil_append, List.mem_cons, List.not_mem_nil, or_false] at he
    rcases he with rfl | rfl
    · exact t1
    · exact t2
  · refine ⟨?_, ?_⟩
    · intro e he
      simp only [List.append_nil, List.mem_cons, List.not_mem_nil, or_false] at he
      subst he; exact ht
    · exact Tight.of_mem (by simp)

/-- insertion preserves tightness (hence non-emptiness of every node). -/
theorem rInsertNode_tight [LawfulCarrier α] [SignExactSub α] (boxOf : Nat → GBox α) (i : Nat)
    (n : RNode α) :
    ∀ box h, RInv boxOf box n → n.HasHeight h → RT box n →
      RT (if (rInsertNode box (boxOf i, i) n).2 then box.expand (boxOf i) else box)
        (rInsertNode box (boxOf i, i) n).1 := by
  induction n using RNode.ind with
  | leaf es =>
    intro box h _ _ ht
    rw [rInsertNode]
    rw [RT_leaf] at *
    simp only [List.map_append, List.map_cons, List.map_nil]
    have h1 : Tight box (es.map (·.1) ++ [boxOf i]) := ht.mono (fun b hb => by simp [hb])
    cases hc : box.contains (boxOf i)
    · simp only [Bool.not_false, ↓reduceIte]
      exact h1.expand (Tight.of_mem (by simp))
    · simpa using h1
  | inner es ih =>
    intro box h hi hh ht
    rw [rInsertNode_inner]
    rw [RT_inner] at ht
    have hes : es ≠ [] := by intro h0; exact ht.1.ne_nil (by simp [h0])
    have hidx := chooseLeast_lt (es.map (·.1)) (boxOf i) (by simpa using hes)
    rw [List.length_map] at hidx
    obtain ⟨pre, cb, cn, post, hes', heq⟩ := rInsertChild_eq box (boxOf i, i) es _ hidx
    simp only at heq hidx ⊢
    rw [heq]
    simp only
    rw [RInv_inner] at hi
    rw [HasHeight_inner] at hh
    have hmem : (cb, cn) ∈ es := by rw [hes']; simp
    obtain ⟨hcb, hcn⟩ := hi _ hmem
    obtain ⟨ih1, _⟩ := rInsertNode_inv boxOf i cn cb (h - 1) hcn (hh.2 _ hmem)
    have ih3 := ih _ hmem cb (h - 1) hcn (hh.2 _ hmem) (ht.2 _ hmem)
    obtain ⟨r1, r2⟩ := childRepl_tight boxOf (boxOf i, i) cb cn ih1 ih3
    unfold childGrown
    simp only
    rw [RT_inner]
    -- abbreviations
    generalize hF : (childRepl (boxOf i, i) cb cn).1 = F at r1 r2 ⊢
    generalize hB : (childRepl (boxOf i, i) cb cn).2 = B at r1 r2 ⊢
    generalize hg : (rInsertNode cb (boxOf i, i) cn).2 = g at r1 r2 ih1 ih3 ⊢
    have hL : ∀ b ∈ (F ++ B).map (·.1), b ∈ (pre ++ F ++ post ++ B).map (·.1) := by
      intro b hb
      simp only [List.map_append, List.mem_append] at hb ⊢
      rcases hb with hb | hb
      · exact Or.inl (Or.inl (Or.inr hb))
      · exact Or.inr hb
    have hcb' : Tight (if g then cb.expand (boxOf i) else cb) ((pre ++ F ++ post ++ B).map (·.1)) :=
      r2.mono hL
    have hcbT : Tight cb ((pre ++ F ++ post ++ B).map (·.1)) := by
      refine Tight.trans (bs := [if g then cb.expand (boxOf i) else cb]) ?_ ?_
      · exact Tight.of_subset_mem (subset_grow cb (boxOf i) g) (by simp)
      · intro b hb
        simp only [List.mem_cons, List.not_mem_nil, or_false] at hb
        subst hb; exact hcb'
    have hold : Tight box ((pre ++ F ++ post ++ B).map (·.1)) := by
      refine ht.1.trans ?_
      intro b hb
      rw [hes'] at hb
      simp only [List.map_append, List.map_cons, List.mem_append, List.mem_cons] at hb
      rcases hb with hb | rfl | hb
      · exact Tight.of_mem (by simp only [List.map_append, List.mem_append]; exact Or.inl (Or.inl (Or.inl hb)))
      · exact hcbT
      · exact Tight.of_mem (by simp only [List.map_append, List.mem_append]; exact Or.inl (Or.inr hb))
    refine ⟨?_, ?_⟩
    · cases g with
      | false => simpa using hold
      | true =>
        simp only [↓reduceIte] at hcb' ⊢
        cases hc : box.contains (boxOf i)
        · simp only [Bool.not_false, ↓reduceIte]
          refine hold.expand ?_
          refine Tight.trans (bs := [cb.expand (boxOf i)])
            (Tight.of_subset_mem (GBox.subset_expand_right cb (boxOf i)) (by simp)) ?_
          intro b hb
          simp only [List.mem_cons, List.not_mem_nil, or_false] at hb
          subst hb; exact hcb'
        · simpa using hold
    · intro e he
      simp only [List.mem_append] at he
      rcases he with ((he | he) | he) | he
      · exact ht.2 e (by rw [hes']; simp [he])
      · exact r1 e (List.mem_append_left _ he)
      · exact ht.2 e (by rw [hes']; simp [he])
      · exact r1 e (List.mem_append_right _ he)

/-! ## the whole tree -/

def RTree.Tight (tr : RTree α) : Prop :=
  match tr.root with
  | none => True
  | some (rb, rn) => RT rb rn

theorem RTree.Tight.NE {tr : RTree α} (h : tr.Tight) : tr.NE := by
  unfold RTree.Tight at h
  unfold RTree.NE
  cases htr : tr.root with
  | none => trivial
  | some r => obtain ⟨rb, rn⟩ := r; rw [htr] at h; exact RT.NE rn rb h

theorem RTree.insert_tight [LawfulCarrier α] [SignExactSub α] (boxOf : Nat → GBox α) (tr : RTree α)
    (i : Nat) (hinv : tr.Inv boxOf) (ht : tr.Tight) : (tr.insert (boxOf i, i)).Tight := by
  obtain ⟨h1, h2⟩ := RTree.rootOrNew_inv boxOf tr i hinv
  rcases hr : tr.rootOrNew (boxOf i, i) with ⟨rb, rn⟩
  rw [hr] at h1 h2
  simp only at h1 h2
  obtain ⟨g1, g2⟩ := rInsertNode_inv boxOf i rn rb tr.height h1 h2
  -- tightness after the node-level insertion
  have g3 : RT (if (rInsertNode rb (boxOf i, i) rn).2 then rb.expand (boxOf i) else rb)
      (rInsertNode rb (boxOf i, i) rn).1 := by
    unfold RTree.rootOrNew at hr
    unfold RTree.Tight at ht
    cases htr : tr.root with
    | none =>
      rw [htr] at hr
      simp only at hr
      cases hr
      rw [rInsertNode]
      have : (boxOf i).contains (boxOf i) = true := (GBox.contains_iff _ _).2 (GBox.subset_refl _)
      simp only [this, Bool.not_true, Bool.false_eq_true, ↓reduceIte, List.nil_append]
      rw [RT_leaf]
      exact Tight.of_mem (by simp)
    | some r =>
      rw [htr] at hr ht
      simp only at hr ht
      subst hr
      exact rInsertNode_tight boxOf i _ _ tr.height h1 h2 ht
  rcases hi : rInsertNode rb (boxOf i, i) rn with ⟨rn', g⟩
  rw [hi] at g1 g2 g3
  simp only at g1 g2 g3
  rw [RTree.insert_eq tr _ rb rn hr rn' g hi]
  split
  · rename_i hc
    simp only [rMaxEntries, beq_iff_eq] at hc
    obtain ⟨t1, t2, _⟩ := splitPair_tight boxOf _ rn' g1 g3 (by omega)
    unfold RTree.Tight
    simp only
    rw [RT_inner]
    refine ⟨Tight.recalc _ _ (by simp), ?_⟩
    intro e he
    simp only [List.mem_cons, List.not_mem_nil, or_false] at he
    rcases he with rfl | rfl
    · exact t1
    · exact t2
  · exact g3

theorem rBuild_tight [LawfulCarrier α] [SignExactSub α] (boxOf : Nat → GBox α) (n : Nat) :
    (rBuild boxOf n).Tight := by
  induction n with
  | zero => simp [rBuild, RTree.Tight, RTree.empty]
  | succ n ih => rw [rBuild_succ]; exact RTree.insert_tight boxOf _ n (rBuild_inv boxOf n) ih

/-- with a sign-exact `sub`, a built tree never contains an empty (inner) node. -/
theorem rBuild_NE [LawfulCarrier α] [SignExactSub α] (boxOf : Nat → GBox α) (n : Nat) :
    (rBuild boxOf n).NE := (rBuild_tight boxOf n).NE

/-- build spec, unconditional form: invariant and exactly the items `0..n-1`. -/
theorem rBuild_spec' [LawfulCarrier α] [SignExactSub α] (boxOf : Nat → GBox α) (n : Nat) :
    (rBuild boxOf n).Inv boxOf ∧ (rBuild boxOf n).items.Perm (List.range n) :=
  ⟨rBuild_inv boxOf n, rBuild_items boxOf n (rBuild_NE boxOf n)⟩

end

section
variable {α : Type} [Carrier α]
open Carrier

/-! ## fan-out bound: at most `rMaxEntries` entries per node at rest -/

mutual
/-- every node of the subtree has at most `rMaxEntries` (= 16) entries. -/
def RSmall : RNode α → Prop
  | .leaf es => es.length ≤ rMaxEntries
  | .inner es => es.length ≤ rMaxEntries ∧ RSmallL es
def RSmallL : List (GBox α × RNode α) → Prop
  | [] => True
  | (_, cn) :: rest => RSmall cn ∧ RSmallL rest
end

theorem RSmallL_iff (es : List (GBox α × RNode α)) : RSmallL es ↔ ∀ e ∈ es, RSmall e.2 := by
  induction es with
  | nil => simp [RSmallL]
  | cons e rest ih => obtain ⟨b, n⟩ := e; simp [RSmallL, ih]

theorem RSmall_inner (es : List (GBox α × RNode α)) :
    RSmall (.inner es) ↔ es.length ≤ rMaxEntries ∧ ∀ e ∈ es, RSmall e.2 := by
  rw [RSmall, RSmallL_iff]

/-- the node itself may have one entry too many (state right after an insertion below it). -/
def RSmall1 : RNode α → Prop
  | .leaf es => es.length ≤ rMaxEntries + 1
  | .inner es => es.length ≤ rMaxEntries + 1 ∧ ∀ e ∈ es, RSmall e.2

theorem RSmall1.small {n : RNode α} (h : RSmall1 n) (hc : n.count ≠ rMaxEntries + 1) : RSmall n := by
  cases n with
  | leaf es => simp only [RSmall1, RNode.count, RSmall] at *; omega
  | inner es =>
    simp only [RSmall1, RNode.count] at *
    rw [RSmall_inner]; exact ⟨by omega, h.2⟩

theorem splitPair_small (cb' : GBox α) (n : RNode α) (h : RSmall1 n)
    (h1 : (splitPair cb' n).1.2.count ≠ 0) (h2 : (splitPair cb' n).2.2.count ≠ 0) :
    RSmall (splitPair cb' n).1.2 ∧ RSmall (splitPair cb' n).2.2 := by
  cases n with
  | leaf es =>
    simp only [splitPair, RNode.count, RSmall, RSmall1] at *
    have := (splitEntries_perm (fun p : GBox α × Nat => p.1) cb' es).length_eq
    simp only [List.length_append] at this
    omega
  | inner es =>
    simp only [splitPair, RNode.count, RSmall1] at *
    have := (splitEntries_perm (fun p : GBox α × RNode α => p.1) cb' es).length_eq
    simp only [List.length_append] at this
    rw [RSmall_inner, RSmall_inner]
    exact ⟨⟨by omega, fun e he => h.2 e (splitEntries_mem_left _ cb' es e he)⟩,
      ⟨by omega, fun e he => h.2 e (splitEntries_mem_right _ cb' es e he)⟩⟩

theorem rInsertNode_small [LawfulCarrier α] [SignExactSub α] (boxOf : Nat → GBox α) (i : Nat)
    (n : RNode α) :
    ∀ box h, RInv boxOf box n → n.HasHeight h → RT box n → RSmall n →
      RSmall1 (rInsertNode box (boxOf i, i) n).1 := by
  induction n using RNode.ind with
  | leaf es =>
    intro box h _ _ _ hs
    rw [rInsertNode]
    simp only [RSmall, RSmall1, List.length_append, List.length_cons, List.length_nil] at *
    omega
  | inner es ih =>
    intro box h hi hh ht hs
    rw [rInsertNode_inner]
    rw [RT_inner] at ht
    rw [RSmall_inner] at hs
    have hes : es ≠ [] := by intro h0; exact ht.1.ne_nil (by simp [h0])
    have hidx := chooseLeast_lt (es.map (·.1)) (boxOf i) (by simpa using hes)
    rw [List.length_map] at hidx
    obtain ⟨pre, cb, cn, post, hes', heq⟩ := rInsertChild_eq box (boxOf i, i) es _ hidx
    simp only at heq ⊢
    rw [heq]
    simp only
    rw [RInv_inner] at hi
    rw [HasHeight_inner] at hh
    have hmem : (cb, cn) ∈ es := by rw [hes']; simp
    obtain ⟨hcb, hcn⟩ := hi _ hmem
    obtain ⟨ih1, _⟩ := rInsertNode_inv boxOf i cn cb (h - 1) hcn (hh.2 _ hmem)
    have ih3 := rInsertNode_tight boxOf i cn cb (h - 1) hcn (hh.2 _ hmem) (ht.2 _ hmem)
    have ih4 := ih _ hmem cb (h - 1) hcn (hh.2 _ hmem) (ht.2 _ hmem) (hs.2 _ hmem)
    -- the replacement entries
    have hrepl : ((childRepl (boxOf i, i) cb cn).1.length = 1 ∧ (childRepl (boxOf i, i) cb cn).2.length ≤ 1) ∧
        ∀ e ∈ (childRepl (boxOf i, i) cb cn).1 ++ (childRepl (boxOf i, i) cb cn).2, RSmall e.2 := by
      unfold childRepl
      split
      · rename_i hc
        simp only [rMaxEntries, beq_iff_eq] at hc
        obtain ⟨t1, t2, _⟩ := splitPair_tight boxOf _ _ ih1 ih3 (by omega)
        obtain ⟨s1, s2⟩ := splitPair_small _ _ ih4 t1.count_ne_zero t2.count_ne_zero
        refine ⟨by simp, ?_⟩
        intro e he
        simp only [List.cons_append, List.nil_append, List.mem_cons, List.not_mem_nil, or_false] at he
        rcases he with rfl | rfl
        · exact s1
        · exact s2
      · rename_i hc
        refine ⟨by simp, ?_⟩
        intro e he
        simp only [List.append_nil, List.mem_cons, List.not_mem_nil, or_false] at he
        subst he
        exact ih4.small (by simpa using hc)
    obtain ⟨⟨l1, l2⟩, hsm⟩ := hrepl
    simp only [RSmall1]
    refine ⟨?_, ?_⟩
    · have := hs.1
      rw [hes'] at this
      simp only [List.length_append, List.length_cons] at this ⊢
      omega
    · intro e he
      simp only [List.mem_append] at he
      rcases he with ((he | he) | he) | he
      · exact hs.2 e (by rw [hes']; simp [he])
      · exact hsm e (List.mem_append_left _ he)
      · exact hs.2 e (by rw [hes']; simp [he])
      · exact hsm e (List.mem_append_right _ he)

def RTree.Small (tr : RTree α) : Prop :=
  match tr.root with
  | none => True
  | some (_, rn) => RSmall rn

theorem RTree.insert_small [LawfulCarrier α] [SignExactSub α] (boxOf : Nat → GBox α) (tr : RTree α)
    (i : Nat) (hinv : tr.Inv boxOf) (ht : tr.Tight) (hs : tr.Small) :
    (tr.insert (boxOf i, i)).Small := by
  obtain ⟨h1, h2⟩ := RTree.rootOrNew_inv boxOf tr i hinv
  rcases hr : tr.rootOrNew (boxOf i, i) with ⟨rb, rn⟩
  rw [hr] at h1 h2
  simp only at h1 h2
  obtain ⟨g1, g2⟩ := rInsertNode_inv boxOf i rn rb tr.height h1 h2
  have g34 : RT (if (rInsertNode rb (boxOf i, i) rn).2 then rb.expand (boxOf i) else rb)
      (rInsertNode rb (boxOf i, i) rn).1 ∧ RSmall1 (rInsertNode rb (boxOf i, i) rn).1 := by
    unfold RTree.rootOrNew at hr
    unfold RTree.Tight at ht
    unfold RTree.Small at hs
    cases htr : tr.root with
    | none =>
      rw [htr] at hr
      simp only at hr
      cases hr
      rw [rInsertNode]
      have : (boxOf i).contains (boxOf i) = true := (GBox.contains_iff _ _).2 (GBox.subset_refl _)
      simp only [this, Bool.not_true, Bool.false_eq_true, ↓reduceIte, List.nil_append]
      rw [RT_leaf]
      exact ⟨Tight.of_mem (by simp), by simp [RSmall1]⟩
    | some r =>
      rw [htr] at hr ht hs
      simp only at hr ht hs
      subst hr
      exact ⟨rInsertNode_tight boxOf i _ _ tr.height h1 h2 ht,
        rInsertNode_small boxOf i _ _ tr.height h1 h2 ht hs⟩
  obtain ⟨g3, g4⟩ := g34
  rcases hi : rInsertNode rb (boxOf i, i) rn with ⟨rn', g⟩
  rw [hi] at g1 g2 g3 g4
  simp only at g1 g2 g3 g4
  rw [RTree.insert_eq tr _ rb rn hr rn' g hi]
  split
  · rename_i hc
    simp only [rMaxEntries, beq_iff_eq] at hc
    obtain ⟨t1, t2, _⟩ := splitPair_tight boxOf _ rn' g1 g3 (by omega)
    obtain ⟨s1, s2⟩ := splitPair_small _ _ g4 t1.count_ne_zero t2.count_ne_zero
    unfold RTree.Small
    simp only
    rw [RSmall_inner]
    refine ⟨by simp [rMaxEntries], ?_⟩
    intro e he
    simp only [List.mem_cons, List.not_mem_nil, or_false] at he
    rcases he with rfl | rfl
    · exact s1
    · exact s2
  · rename_i hc
    exact g4.small (by simpa using hc)

/-- with a sign-exact `sub`, every node of a built tree has between 1 and 16 entries — so the
    one-byte count cell of the Go encoding (and its fixed `[17]` arrays) never overflow. -/
theorem rBuild_small [LawfulCarrier α] [SignExactSub α] (boxOf : Nat → GBox α) (n : Nat) :
    (rBuild boxOf n).Small := by
  induction n with
  | zero => simp [rBuild, RTree.Small, RTree.empty]
  | succ n ih =>
    rw [rBuild_succ]
    exact RTree.insert_small boxOf _ n (rBuild_inv boxOf n) (rBuild_tight boxOf n) ih

end

/-! ## sanity: the laws are satisfiable (exact integer arithmetic) -/
namespace RSane

@[instance_reducible] def intCarrier : Carrier Int where
  lt a b := decide (a < b)
  mid a b := (a + b) / 2
  sub a b := a - b
  mul a b := a * b
  one := 1
  zero := 0

theorem intCarrier_lawful : @LawfulCarrier Int intCarrier := by
  letI := intCarrier
  refine ⟨?_, ?_⟩
  · intro a b h
    simp only [Carrier.lt, decide_eq_true_eq, decide_eq_false_iff_not] at *
    omega
  · intro a b c h1 h2
    simp only [Carrier.lt, decide_eq_false_iff_not] at *
    omega

theorem intCarrier_signExact : @SignExactSub Int intCarrier := by
  letI := intCarrier
  refine ⟨?_, ?_⟩
  · intro a b
    simp only [Carrier.lt, Carrier.sub, Carrier.zero, decide_eq_decide]
    omega
  · intro a b
    simp only [Carrier.lt, Carrier.sub, Carrier.zero, decide_eq_decide]
    omega

end RSane

#print axioms splitEntries_nonempty
#print axioms rInsertNode_tight
#print axioms rBuild_NE
#print axioms rBuild_spec'
#print axioms rBuild_small

end Geo
