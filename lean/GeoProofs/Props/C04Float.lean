/-
  C04 at binary64 — the compressed segment indexes are exact accelerators ON WHAT THE GO CODE
  COMPUTES for arbitrary finite doubles (not only for exact rationals / dyadic inputs).

  Carrier: `Geo.DF.Dbl` (IndexFloat/Dbl.lean), all finite binary64 values; `lt` the IEEE
  comparison, `sub`/`mul` correctly rounded (round-to-nearest-even, gradual underflow),
  `mid a b = RN(RN(a+b)/2)` as in qtree.go.  Overflow: a result that IEEE delivers as ±Inf is
  delivered as ±maxF (saturation), see the header of IndexFloat/Dbl.lean.

  * `LawfulCarrier Dbl`, `SignExactSub Dbl` (IndexFloat/Laws.lean): NO magnitude hypothesis.
    `Geo.DF.ieee_sub_neg/pos` (IndexFloat/IEEE.lean) is the same sign law in the model with
    real infinities (`FQ`), so saturation is invisible to what the proofs use.
  * `decD (encD a) = a` for every finite double (IndexFloat/Codec.lean): true IEEE bit patterns,
    subnormals included.
  * tree level: `qtree_search_exact_dbl`, `rtree_search_exact_dbl` below.
  * series level: `series_search_exact_dbl` (IndexFloat/SeriesD.lean), re-exported below.
-/
import GeoProofs.Props.C04
import GeoProofs.IndexFloat.IEEE
import GeoProofs.IndexFloat.Codec
import GeoProofs.IndexFloat.SeriesD

namespace Geo.DF
open Geo Geo.F

/-- **C04, quadtree, binary64.**  `qtree_search_exact` at `α := Dbl`: for all finite doubles,
    whatever the two roundings of `(min+max)/2` produce. -/
theorem qtree_search_exact_dbl (boxOf : Nat → GBox Dbl) (bounds q : GBox Dbl) (nsegs : Nat)
    (hn : nsegs < 2 ^ 32) (hb : ∀ i, i < nsegs → boxOf i ⊆ bounds)
    (hsz : (qCompress (qBuild boxOf bounds nsegs) #[2, 0, 0, 0, 0]).size < 2 ^ 32) :
    ∃ visit : List Nat,
      List.Perm visit ((List.range nsegs).filter (fun i => (boxOf i).meets q)) ∧
      ∀ (σ : Type) (f : σ → Nat → σ × Bool) (s : σ),
        qSearchBytes boxOf q f (qCompress (qBuild boxOf bounds nsegs) #[2, 0, 0, 0, 0])
          (qMaxDepth + 2) 5 bounds s = some (foldUntil f s visit) :=
  qtree_search_exact boxOf bounds q nsegs hn hb hsz

/-- **C04, R-tree, binary64.**  `rtree_search_exact` at `α := Dbl` with the IEEE codec
    `encD`/`decD`: no hypothesis on the coordinates (any finite doubles, subnormals included),
    whatever the rounded areas/enlargements make `chooseLeast` and `splitEntries` decide. -/
theorem rtree_search_exact_dbl (boxOf : Nat → GBox Dbl) (q : GBox Dbl) (nsegs : Nat)
    (hn : nsegs < 2 ^ 32)
    (hsz : ((rBuild boxOf nsegs).compress encD #[1, 0, 0, 0, 0]).size < 2 ^ 32) :
    ∃ visit : List Nat,
      List.Perm visit ((List.range nsegs).filter (fun i => (boxOf i).meets q)) ∧
      ∀ (σ : Type) (f : σ → Nat → σ × Bool) (s : σ),
        rSearchBytes decD boxOf q f ((rBuild boxOf nsegs).compress encD #[1, 0, 0, 0, 0]) 5 s =
          some (foldUntil f s visit) :=
  rtree_search_exact encD decD boxOf q nsegs hn decD_encD encD_length hsz

/-- the same for the bytes as stored by `setCompressed` (length patched into the header) -/
theorem rtree_search_exact_patched_dbl (boxOf : Nat → GBox Dbl) (q : GBox Dbl) (nsegs : Nat)
    (hn : nsegs < 2 ^ 32)
    (hsz : ((rBuild boxOf nsegs).compress encD #[1, 0, 0, 0, 0]).size < 2 ^ 32) :
    ∃ visit : List Nat,
      List.Perm visit ((List.range nsegs).filter (fun i => (boxOf i).meets q)) ∧
      ∀ (σ : Type) (f : σ → Nat → σ × Bool) (s : σ),
        rSearchBytes decD boxOf q f
          (putU32 ((rBuild boxOf nsegs).compress encD #[1, 0, 0, 0, 0]) 1
            ((rBuild boxOf nsegs).compress encD #[1, 0, 0, 0, 0]).size) 5 s =
          some (foldUntil f s visit) :=
  rtree_search_exact_patched_total encD decD boxOf q nsegs hn decD_encD encD_length hsz

/-- **C04, series level, binary64** (all three index kinds): re-statement of
    `series_search_exact_dbl` (IndexFloat/SeriesD.lean). -/
theorem C04_series_dbl (dpts : Array (Dbl × Dbl)) (closed : Bool) (kind : IndexKind)
    (minPoints : Nat) (hn : dpts.size < 2 ^ 32)
    (hq : kind = .quadtree → (qBytesD dpts closed).size < 2 ^ 32)
    (hr : kind = .rtree → (rBytesD dpts closed).size < 2 ^ 32) (q : GBox Dbl) :
    ∃ visit : List Nat,
      List.Perm visit ((List.range (numSegmentsOf (toPts dpts) closed)).filter
        (fun i => (segmentAtOf (toPts dpts) i).box.intersects (toBox q))) ∧
      ∀ {σ : Type} (f : σ → Nat → σ × Bool) (st : σ),
        (mkSeriesD dpts closed kind minPoints).search decD q f st =
          .ok (foldUntil f st visit).1 :=
  series_search_exact_dbl dpts closed kind minPoints hn hq hr q

/-! ### non-vacuity: doubles outside every dyadic regime -/

/-- a 40-vertex zig-zag ring with abscissas RN(i/10) and ordinates RN(1/3), 2^-1074 (the
    smallest subnormal), 2^1000, RN(5.3): coordinate differences underflow-adjacent and area
    products overflow (saturate) -/
def exD40 : Array (Dbl × Dbl) :=
  ((List.range 20).map (fun (i : Nat) =>
      (Dbl.round ((i : ℚ) / 10),
        if i % 2 = 0 then Dbl.round (1 / 3) else Dbl.round (1 / 2 ^ 1074))) ++
   (List.range 20).map (fun (i : Nat) =>
      (Dbl.round ((19 - (i : ℚ)) / 10),
        if i % 2 = 0 then Dbl.round (2 ^ 1000) else Dbl.round (53 / 10)))).toArray

/-- the values really are the IEEE doubles, not the rationals -/
example : (Dbl.round (1 / 10)).val = 3602879701896397 / 2 ^ 55 := by decide +kernel
example : (Dbl.round (1 / 3)).val = 6004799503160661 / 2 ^ 54 := by decide +kernel
example : (Dbl.round (1 / 2 ^ 1074)).val = 1 / 2 ^ 1074 := by decide +kernel
example : bitsD (Dbl.round (1 / 10)) = 0x3FB999999999999A ∧ bitsD (Dbl.round (1 / 2 ^ 1074)) = 1 ∧
    bitsD (Dbl.round (-2)) = 0xC000000000000000 ∧ bitsD (Dbl.round (1 / 2 ^ 1022)) = 2 ^ 52 := by
  decide +kernel
/-- the midpoint of qtree.go is NOT the exact midpoint (so `Carrier Rat` does not describe it) -/
example : (Carrier.mid (Dbl.round (1 / 10)) (Dbl.round (1 / 3))).val ≠
    ((Dbl.round (1 / 10)).val + (Dbl.round (1 / 3)).val) / 2 := by decide +kernel
/-- an overflowing difference (+Inf in Go, maxF here) and an underflow-adjacent one keep their sign -/
example : Carrier.lt Carrier.zero
    (Carrier.sub (Dbl.round (2 ^ 1023)) (Dbl.round (-(2 ^ 1023)))) = true := by decide +kernel
example : Carrier.lt (Carrier.sub (Dbl.round (1 / 2 ^ 1074)) (Dbl.round (2 / 2 ^ 1074)))
    (Carrier.zero : Dbl) = true := by decide +kernel

/-- both indexes are really built on `exD40` (40 ≥ threshold 16; root nodes split) … -/
example : (mkSeriesD exD40 true .quadtree 16).index.isSome = true ∧
    (mkSeriesD exD40 true .rtree 16).index.isSome = true := by decide +kernel

/-- … and the hypotheses of the series-level theorem hold, for the three kinds -/
example (kind : IndexKind) (q : GBox Dbl) :
    ∃ visit : List Nat,
      List.Perm visit ((List.range (numSegmentsOf (toPts exD40) true)).filter
        (fun i => (segmentAtOf (toPts exD40) i).box.intersects (toBox q))) ∧
      ∀ {σ : Type} (f : σ → Nat → σ × Bool) (st : σ),
        (mkSeriesD exD40 true kind 16).search decD q f st = .ok (foldUntil f st visit).1 :=
  C04_series_dbl exD40 true kind 16 (by decide +kernel) (fun _ => by decide +kernel)
    (fun _ => by decide +kernel) q

/-- tree level, on the same boxes -/
example (q : GBox Dbl) := rtree_search_exact_dbl (segBoxD exD40) q 40 (by norm_num)
  (by decide +kernel)

end Geo.DF

#print axioms Geo.DF.instLawfulCarrierDbl
#print axioms Geo.DF.instSignExactSubDbl
#print axioms Geo.DF.ieee_sub_neg
#print axioms Geo.DF.ieee_sub_pos
#print axioms Geo.DF.decD_encD
#print axioms Geo.DF.qtree_search_exact_dbl
#print axioms Geo.DF.rtree_search_exact_dbl
#print axioms Geo.DF.rtree_search_exact_patched_dbl
#print axioms Geo.DF.gseries_search_exact
#print axioms Geo.DF.series_search_exact_dbl
#print axioms Geo.DF.C04_series_dbl
#print axioms Geo.DF.toFQ_sub
#print axioms Geo.DF.toFQ_mul
#print axioms Geo.DF.toFQ_mid
