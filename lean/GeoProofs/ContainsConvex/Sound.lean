/-
  GeoProofs.ContainsConvex.Sound — a soundness fragment for ARBITRARY rings (concave,
  self-intersecting, any index): a `true` answer of `ringContainsSegment` has both end points in
  the ring, hence a `true` answer of `ringContainsRing` on an argument with fewer than 16 points
  has every vertex of the argument in the ring.  (With ≥ 16 points this is false: finding D19.)
-/
import GeoProofs.ContainsConvex.Verts

namespace Geo
namespace CC
open GL Jordan Contains

theorem ringContainsSegment_ends (R : Ring) (seg : Seg) (allow : Bool)
    (h : ringContainsSegment R seg allow = true) :
    (ringContainsPoint R seg.a allow).hit = true ∧ (ringContainsPoint R seg.b allow).hit = true := by
  unfold ringContainsSegment ringContainsSegmentS at h
  by_cases h1 : (!R.rect.containsPt seg.a || !R.rect.containsPt seg.b) = true
  · rw [if_pos h1] at h; cases h
  rw [if_neg h1] at h
  simp only at h
  by_cases h2 : (!(ringContainsPoint R seg.a allow).hit) = true
  · rw [if_pos h2] at h; cases h
  rw [if_neg h2] at h
  have ha : (ringContainsPoint R seg.a allow).hit = true := by simpa using h2
  by_cases h3 : seg.b = seg.a
  · rw [h3]; exact ⟨ha, ha⟩
  rw [if_neg h3] at h
  by_cases h4 : (!(ringContainsPoint R seg.b allow).hit) = true
  · rw [if_pos h4] at h; cases h
  exact ⟨ha, by simpa using h4⟩

/-- any ring, any index kind, inclusive reading, argument with fewer than 16 points -/
theorem ringContainsRing_vertices_sound (pts : Array Pt) (kind : IndexKind) (m : Nat)
    (hvis : (mkSeries pts true kind m).SearchExact) (o : Series) (h16 : o.numPoints < 16)
    (h : ringContainsRing (.ser (mkSeries pts true kind m)) (.ser o) true = true) :
    ∀ p ∈ o.pts.toList, Spec.inRing (Spec.edges pts.toList true) p = true := by
  unfold ringContainsRing at h
  have hsc : decide ((Ring.ser o).numPoints ≥ complexRingMinPoints) = false := by
    show decide (o.numPoints ≥ 16) = false
    simp; omega
  by_cases he : ((Ring.ser (mkSeries pts true kind m)).empty || (Ring.ser o).empty) = true
  · rw [if_pos he] at h; cases h
  rw [if_neg he, hsc, Bool.false_and] at h
  simp only [Bool.false_eq_true, if_false] at h
  have hoe : o.empty = false := by
    simp only [Bool.or_eq_true, not_or, Bool.not_eq_true] at he
    exact he.2
  unfold ringContainsRingBody at h
  split_ifs at h with hb hc
  · -- convex flag: the point tests
    rw [List.all_eq_true] at h
    intro p hp
    obtain ⟨i, hi, rfl⟩ := List.getElem_of_mem hp
    have hi' : i < o.pts.size := by simpa using hi
    have := h i (List.mem_range.2 hi')
    rw [ringContainsPoint_inclusive pts kind m hvis] at this
    show Spec.inRing _ o.pts.toList[i] = true
    have e : (Ring.ser o).pointAt i = o.pts[i] := by
      show o.pts[i]! = _
      rw [getElem!_pos o.pts i hi']
    rw [e] at this
    simpa using this
  · -- the segment tests
    rw [List.all_eq_true] at h
    intro p hp
    obtain ⟨e, hee, h1⟩ := vertex_on_edge o.pts o.closed hoe p hp
    obtain ⟨i, hi, rfl⟩ := edges_mem_segmentAt o.pts o.closed e hee
    have := ringContainsSegment_ends _ _ _ (h i (List.mem_range.2 hi))
    rw [ringContainsPoint_inclusive pts kind m hvis, ringContainsPoint_inclusive pts kind m hvis] at this
    rcases h1 with h1 | h1
    · rw [← h1]; exact this.1
    · rw [← h1]; exact this.2

end CC
end Geo
