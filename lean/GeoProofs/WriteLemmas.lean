/-
  GeoProofs.WriteLemmas — helper definitions and lemmas for C17 (the writers produce JSON) and
  C06 (Parse → JSON → Parse is a fixpoint).

  Part 1: RFC 8259 (without insignificant whitespace) as inductive predicates on character
          lists; token-well-formed ASTs; `render` of such an AST is JSON and conversely.
  Part 2: `Written x v`: "v is a token-well-formed AST of the document `write x`".
-/
import GeoModel.Write
import GeoModel.ObjDriver

namespace Geo

/-! ## Part 1: the JSON grammar -/

/-- a non-empty run of decimal digits -/
def IsDigits (l : List Char) : Prop := l ≠ [] ∧ ∀ c ∈ l, c.isDigit = true

/-- int part: `0` or a digit run without leading zero -/
def IsIntPart (l : List Char) : Prop := l = ['0'] ∨ (IsDigits l ∧ l.head? ≠ some '0')

/-- optional fraction -/
def IsFracPart (l : List Char) : Prop := l = [] ∨ ∃ ds, l = '.' :: ds ∧ IsDigits ds

/-- optional exponent -/
def IsExpPart (l : List Char) : Prop :=
  l = [] ∨ ∃ e sg ds, l = e :: (sg ++ ds) ∧ (e = 'e' ∨ e = 'E') ∧
    (sg = [] ∨ sg = ['+'] ∨ sg = ['-']) ∧ IsDigits ds

/-- RFC 8259 `number` -/
def IsNumTok (l : List Char) : Prop :=
  ∃ sg i f e, l = sg ++ (i ++ (f ++ e)) ∧ (sg = [] ∨ sg = ['-']) ∧
    IsIntPart i ∧ IsFracPart f ∧ IsExpPart e

def isHex (c : Char) : Bool :=
  c.isDigit || ('a' ≤ c && c ≤ 'f') || ('A' ≤ c && c ≤ 'F')

/-- the characters between the quotes of a JSON string -/
inductive IsStrBody : List Char → Prop
  | nil : IsStrBody []
  | plain {c : Char} {l} : 0x20 ≤ c.toNat → c ≠ '"' → c ≠ '\\' → IsStrBody l → IsStrBody (c :: l)
  | esc {c : Char} {l} : c ∈ ['"', '\\', '/', 'b', 'f', 'n', 'r', 't'] → IsStrBody l →
      IsStrBody ('\\' :: c :: l)
  | uni {a b c d : Char} {l} : isHex a = true → isHex b = true → isHex c = true → isHex d = true →
      IsStrBody l → IsStrBody ('\\' :: 'u' :: a :: b :: c :: d :: l)

/-- RFC 8259 `string` -/
def IsStrTok (l : List Char) : Prop := ∃ body, l = '"' :: (body ++ ['"']) ∧ IsStrBody body

/-- the three syntactic categories of the grammar -/
inductive JSort where
  | value | items | members

/-- RFC 8259 without insignificant whitespace (the writers emit none, foreign members are
    minified): values, non-empty comma separated value lists, non-empty member lists -/
inductive IsJSON : JSort → List Char → Prop
  | null : IsJSON .value ['n', 'u', 'l', 'l']
  | tru : IsJSON .value ['t', 'r', 'u', 'e']
  | fls : IsJSON .value ['f', 'a', 'l', 's', 'e']
  | num {l} : IsNumTok l → IsJSON .value l
  | str {l} : IsStrTok l → IsJSON .value l
  | arrNil : IsJSON .value ['[', ']']
  | arr {l} : IsJSON .items l → IsJSON .value ('[' :: (l ++ [']']))
  | objNil : IsJSON .value ['{', '}']
  | obj {l} : IsJSON .members l → IsJSON .value ('{' :: (l ++ ['}']))
  | item1 {l} : IsJSON .value l → IsJSON .items l
  | itemS {l r} : IsJSON .value l → IsJSON .items r → IsJSON .items (l ++ ',' :: r)
  | mem1 {k v} : IsStrTok k → IsJSON .value v → IsJSON .members (k ++ ':' :: v)
  | memS {k v r} : IsStrTok k → IsJSON .value v → IsJSON .members r →
      IsJSON .members (k ++ ':' :: (v ++ ',' :: r))

abbrev IsJSONValue (l : List Char) : Prop := IsJSON .value l
abbrev IsJSONMembers (l : List Char) : Prop := IsJSON .members l

/-- an object production -/
def IsJSONObject (l : List Char) : Prop :=
  l = ['{', '}'] ∨ ∃ body, l = '{' :: (body ++ ['}']) ∧ IsJSONMembers body

theorem IsJSONObject.isValue {l} (h : IsJSONObject l) : IsJSONValue l := by
  rcases h with rfl | ⟨b, rfl, hb⟩
  · exact .objNil
  · exact .obj hb

/-! ### executable token checkers (sound; used for the concrete examples) -/

def digitsB (l : List Char) : Bool := !l.isEmpty && l.all Char.isDigit

theorem digitsB_sound {l} (h : digitsB l = true) : IsDigits l := by
  simp only [digitsB, Bool.and_eq_true, Bool.not_eq_true', List.isEmpty_eq_false_iff,
    List.all_eq_true] at h
  exact ⟨h.1, h.2⟩

def intB (l : List Char) : Bool := l == ['0'] || (digitsB l && l.head? != some '0')

theorem intB_sound {l} (h : intB l = true) : IsIntPart l := by
  simp only [intB, Bool.or_eq_true, beq_iff_eq, Bool.and_eq_true, bne_iff_ne] at h
  rcases h with h | ⟨h1, h2⟩
  · exact .inl h
  · exact .inr ⟨digitsB_sound h1, h2⟩

def expB : List Char → Bool
  | [] => true
  | e :: rest => (e == 'e' || e == 'E') &&
    (match rest with
     | '+' :: ds => digitsB ds
     | '-' :: ds => digitsB ds
     | ds => digitsB ds)

theorem expB_sound {l} (h : expB l = true) : IsExpPart l := by
  match l, h with
  | [], _ => exact .inl rfl
  | e :: rest, h =>
    simp only [expB, Bool.and_eq_true, Bool.or_eq_true, beq_iff_eq] at h
    obtain ⟨he, hr⟩ := h
    right
    split at hr
    · exact ⟨e, ['+'], _, rfl, he, .inr (.inl rfl), digitsB_sound hr⟩
    · exact ⟨e, ['-'], _, rfl, he, .inr (.inr rfl), digitsB_sound hr⟩
    · exact ⟨e, [], _, rfl, he, .inl rfl, digitsB_sound hr⟩

def fracExpB (l : List Char) : Bool :=
  match l with
  | '.' :: rest =>
    let ds := rest.takeWhile Char.isDigit
    digitsB ds && expB (rest.dropWhile Char.isDigit)
  | _ => expB l

def numTokB (l : List Char) : Bool :=
  let body := match l with
    | '-' :: r => r
    | r => r
  let i := body.takeWhile Char.isDigit
  intB i && fracExpB (body.dropWhile Char.isDigit)

theorem fracExpB_sound {l} (h : fracExpB l = true) :
    ∃ f e, l = f ++ e ∧ IsFracPart f ∧ IsExpPart e := by
  unfold fracExpB at h
  split at h
  · rename_i rest
    simp only [Bool.and_eq_true] at h
    refine ⟨'.' :: rest.takeWhile Char.isDigit, rest.dropWhile Char.isDigit, ?_, ?_, expB_sound h.2⟩
    · simp [List.takeWhile_append_dropWhile]
    · exact .inr ⟨_, rfl, digitsB_sound h.1⟩
  · exact ⟨[], l, rfl, .inl rfl, expB_sound h⟩

theorem numTokB_sound {l} (h : numTokB l = true) : IsNumTok l := by
  unfold numTokB at h
  simp only [Bool.and_eq_true] at h
  obtain ⟨hi, hfe⟩ := h
  obtain ⟨f, e, hfe, hf, he⟩ := fracExpB_sound hfe
  split at hi
  · rename_i r
    refine ⟨['-'], _, f, e, ?_, .inr rfl, intB_sound hi, hf, he⟩
    rw [← hfe]; simp [List.takeWhile_append_dropWhile]
  · rename_i r _
    refine ⟨[], _, f, e, ?_, .inl rfl, intB_sound hi, hf, he⟩
    rw [← hfe]; simp [List.takeWhile_append_dropWhile]

def strBodyB : List Char → Bool
  | [] => true
  | '\\' :: 'u' :: a :: b :: c :: d :: l => isHex a && isHex b && isHex c && isHex d && strBodyB l
  | '\\' :: c :: l => ['"', '\\', '/', 'b', 'f', 'n', 'r', 't'].contains c && strBodyB l
  | c :: l => decide (0x20 ≤ c.toNat) && c != '"' && c != '\\' && strBodyB l

theorem strBodyB_sound : ∀ {l}, strBodyB l = true → IsStrBody l := by
  intro l
  induction l using strBodyB.induct with
  | case1 => intro _; exact .nil
  | case2 a b c d l ih =>
    intro h
    simp only [strBodyB, Bool.and_eq_true] at h
    exact .uni h.1.1.1.1 h.1.1.1.2 h.1.1.2 h.1.2 (ih h.2)
  | case3 c l hne ih =>
    intro h
    rw [strBodyB] at h
    · simp only [Bool.and_eq_true, List.contains_eq_mem, decide_eq_true_eq] at h
      exact .esc h.1 (ih h.2)
    · exact hne
  | case4 c l h1 h2 ih =>
    intro h
    rw [strBodyB] at h
    · simp only [Bool.and_eq_true, decide_eq_true_eq, bne_iff_ne, ne_eq] at h
      exact .plain h.1.1.1 h.1.1.2 h.1.2 (ih h.2)
    · exact h1
    · exact h2

def strTokB (l : List Char) : Bool :=
  match l with
  | '"' :: rest => !rest.isEmpty && rest.getLast? == some '"' && strBodyB rest.dropLast
  | _ => false

theorem strTokB_sound {l} (h : strTokB l = true) : IsStrTok l := by
  unfold strTokB at h
  split at h
  · rename_i rest
    simp only [Bool.and_eq_true, Bool.not_eq_true', List.isEmpty_eq_false_iff, beq_iff_eq] at h
    obtain ⟨ys, rfl⟩ := List.getLast?_eq_some_iff.mp h.1.2
    refine ⟨ys, rfl, ?_⟩
    have := strBodyB_sound h.2
    simpa using this
  · cases h

end Geo

namespace Geo

/-! ### token-well-formed ASTs -/

mutual
/-- every raw leaf is a token: `raw` of a number is a number token, `raw` of a string and of
    every member key is a string token -/
def JVal.TokOK : JVal → Prop
  | .num _ _ _ _ raw => IsNumTok raw.toList
  | .str raw _ => IsStrTok raw.toList
  | .arr items => TokOKL items
  | .obj ms => TokOKM ms
  | _ => True
def TokOKL : List JVal → Prop
  | [] => True
  | v :: vs => v.TokOK ∧ TokOKL vs
def TokOKM : List (String × String × JVal) → Prop
  | [] => True
  | (k, _, v) :: ms => IsStrTok k.toList ∧ v.TokOK ∧ TokOKM ms
end

theorem renderItems_cons_cons (v w : JVal) (vs : List JVal) :
    JVal.renderItems (v :: w :: vs) = v.render ++ "," ++ JVal.renderItems (w :: vs) := by
  rw [JVal.renderItems]
  intro h; cases h

theorem renderMembers_cons_cons (m m' : String × String × JVal) (ms) :
    JVal.renderMembers (m :: m' :: ms) =
      m.1 ++ ":" ++ m.2.2.render ++ "," ++ JVal.renderMembers (m' :: ms) := by
  obtain ⟨k, d, v⟩ := m
  rw [JVal.renderMembers]
  intro h; cases h

theorem renderMembers_singleton (m : String × String × JVal) :
    JVal.renderMembers [m] = m.1 ++ ":" ++ m.2.2.render := by
  obtain ⟨k, d, v⟩ := m
  rw [JVal.renderMembers]

mutual
theorem render_json : ∀ v : JVal, v.TokOK → IsJSON .value v.render.toList
  | .null, _ => by simpa [JVal.render] using IsJSON.null
  | .tru, _ => by simpa [JVal.render] using IsJSON.tru
  | .fls, _ => by simpa [JVal.render] using IsJSON.fls
  | .num _ _ _ _ raw, h => by
    simp only [JVal.TokOK] at h
    simpa [JVal.render] using IsJSON.num h
  | .str raw _, h => by
    simp only [JVal.TokOK] at h
    simpa [JVal.render] using IsJSON.str h
  | .arr [], _ => by simpa [JVal.render, JVal.renderItems] using IsJSON.arrNil
  | .arr (v :: vs), h => by
    simp only [JVal.TokOK] at h
    have := renderItems_json (v :: vs) (by simp) h
    simpa [JVal.render] using IsJSON.arr this
  | .obj [], _ => by simpa [JVal.render, JVal.renderMembers] using IsJSON.objNil
  | .obj (m :: ms), h => by
    simp only [JVal.TokOK] at h
    have := renderMembers_json (m :: ms) (by simp) h
    simpa [JVal.render] using IsJSON.obj this
theorem renderItems_json : ∀ (vs : List JVal), vs ≠ [] → TokOKL vs →
    IsJSON .items (JVal.renderItems vs).toList
  | [], hne, _ => absurd rfl hne
  | [v], _, h => by
    simp only [TokOKL] at h
    simpa [JVal.renderItems] using IsJSON.item1 (render_json v h.1)
  | v :: w :: vs, _, h => by
    rw [TokOKL] at h
    rw [renderItems_cons_cons]
    simpa using IsJSON.itemS (render_json v h.1) (renderItems_json (w :: vs) (by simp) h.2)
theorem renderMembers_json : ∀ (ms : List (String × String × JVal)), ms ≠ [] →
    TokOKM ms → IsJSON .members (JVal.renderMembers ms).toList
  | [], hne, _ => absurd rfl hne
  | [(k, d, v)], _, h => by
    simp only [TokOKM] at h
    simpa [JVal.renderMembers] using IsJSON.mem1 h.1 (render_json v h.2.1)
  | (k, d, v) :: m' :: ms, _, h => by
    rw [TokOKM] at h
    rw [renderMembers_cons_cons]
    simpa using IsJSON.memS h.1 (render_json v h.2.1) (renderMembers_json (m' :: ms) (by simp) h.2.2)
end

end Geo

namespace Geo

/-- what `json_has_ast` produces for each sort -/
def HasAST : JSort → List Char → Prop
  | .value, l => ∃ v : JVal, v.TokOK ∧ v.render.toList = l
  | .items, l => ∃ vs : List JVal, vs ≠ [] ∧ TokOKL vs ∧ (JVal.renderItems vs).toList = l
  | .members, l => ∃ ms : List (String × String × JVal), ms ≠ [] ∧ TokOKM ms ∧
      (JVal.renderMembers ms).toList = l

/-- completeness of `render`: every text of the grammar is the rendering of a token-well-formed
    AST (the converse of `render_json`) -/
theorem json_has_ast {s l} (h : IsJSON s l) : HasAST s l := by
  induction h with
  | null => exact ⟨.null, trivial, by simp [JVal.render]⟩
  | tru => exact ⟨.tru, trivial, by simp [JVal.render]⟩
  | fls => exact ⟨.fls, trivial, by simp [JVal.render]⟩
  | @num l h => exact ⟨.num true 0 (String.ofList l) "" (String.ofList l), by simpa [JVal.TokOK] using h,
      by simp [JVal.render]⟩
  | @str l h => exact ⟨.str (String.ofList l) "", by simpa [JVal.TokOK] using h, by simp [JVal.render]⟩
  | arrNil => exact ⟨.arr [], by simp [JVal.TokOK, TokOKL], by simp [JVal.render, JVal.renderItems]⟩
  | arr _ ih =>
    obtain ⟨vs, _, hok, hr⟩ := ih
    exact ⟨.arr vs, by simpa [JVal.TokOK] using hok, by simp [JVal.render, hr]⟩
  | objNil => exact ⟨.obj [], by simp [JVal.TokOK, TokOKM], by simp [JVal.render, JVal.renderMembers]⟩
  | obj _ ih =>
    obtain ⟨ms, _, hok, hr⟩ := ih
    exact ⟨.obj ms, by simpa [JVal.TokOK] using hok, by simp [JVal.render, hr]⟩
  | item1 _ ih =>
    obtain ⟨v, hok, hr⟩ := ih
    exact ⟨[v], by simp, by simpa [TokOKL] using hok, by simpa [JVal.renderItems] using hr⟩
  | itemS _ _ ih1 ih2 =>
    obtain ⟨v, hok, hr⟩ := ih1
    obtain ⟨vs, hne, hoks, hrs⟩ := ih2
    obtain ⟨w, vs, rfl⟩ := List.exists_cons_of_ne_nil hne
    refine ⟨v :: w :: vs, by simp, ?_, ?_⟩
    · rw [TokOKL]; exact ⟨hok, hoks⟩
    · rw [renderItems_cons_cons]; simp [hr, hrs]
  | @mem1 k v hk _ ih =>
    obtain ⟨v, hok, hr⟩ := ih
    exact ⟨[(String.ofList k, "", v)], by simp, by simpa [TokOKM] using ⟨hk, hok⟩,
      by simp [JVal.renderMembers, hr]⟩
  | @memS k v r hk _ _ ih1 ih2 =>
    obtain ⟨v, hok, hr⟩ := ih1
    obtain ⟨ms, hne, hoks, hrs⟩ := ih2
    obtain ⟨m, ms, rfl⟩ := List.exists_cons_of_ne_nil hne
    refine ⟨(String.ofList k, "", v) :: m :: ms, by simp, ?_, ?_⟩
    · rw [TokOKM]; exact ⟨by simpa using hk, hok, hoks⟩
    · rw [renderMembers_cons_cons]; simp [hr, hrs]

end Geo

namespace Geo

/-! ## Part 2: the AST of a written document -/

/-! ### comma-joined texts -/

/-- `a,b,c` -/
def cj : List String → String
  | [] => ""
  | [a] => a
  | a :: b :: r => a ++ "," ++ cj (b :: r)

theorem cj_cons_cons (a b : String) (r) : cj (a :: b :: r) = a ++ "," ++ cj (b :: r) := rfl

theorem intercalate_eq_cj : ∀ l : List String, ",".intercalate l = cj l
  | [] => rfl
  | [a] => by simp [cj]
  | a :: b :: r => by rw [String.intercalate_cons_cons, cj_cons_cons, intercalate_eq_cj (b :: r)]

/-- `,a,b,c` -/
def cjTail (l : List String) : String := String.join (l.map (fun v => "," ++ v))

theorem cjTail_nil : cjTail [] = "" := rfl
theorem cjTail_cons (a : String) (l) : cjTail (a :: l) = "," ++ a ++ cjTail l := by
  simp [cjTail, String.join_cons, String.append_assoc]

theorem cj_cons (a : String) : ∀ r, cj (a :: r) = a ++ cjTail r
  | [] => by simp [cj, cjTail_nil]
  | b :: r => by rw [cj_cons_cons, cj_cons b r, cjTail_cons]; simp [String.append_assoc]

theorem cjTail_append (l r : List String) : cjTail (l ++ r) = cjTail l ++ cjTail r := by
  induction l with
  | nil => simp [cjTail_nil]
  | cons a l ih => simp [cjTail_cons, ih, String.append_assoc]

theorem renderItems_eq_cj : ∀ vs : List JVal, JVal.renderItems vs = cj (vs.map JVal.render)
  | [] => rfl
  | [v] => by simp [JVal.renderItems, cj]
  | v :: w :: vs => by
    rw [renderItems_cons_cons, renderItems_eq_cj (w :: vs)]; rfl

/-- text of one member -/
def memText (m : String × String × JVal) : String := m.1 ++ ":" ++ m.2.2.render

theorem renderMembers_eq_cj : ∀ ms : List (String × String × JVal),
    JVal.renderMembers ms = cj (ms.map memText)
  | [] => rfl
  | [m] => by simp [renderMembers_singleton, cj, memText]
  | m :: m' :: ms => by
    rw [renderMembers_cons_cons, renderMembers_eq_cj (m' :: ms)]; rfl

theorem render_arr (ns : List JVal) : (JVal.arr ns).render = "[" ++ cj (ns.map JVal.render) ++ "]" := by
  rw [JVal.render, renderItems_eq_cj]

theorem render_obj (ms : List (String × String × JVal)) :
    (JVal.obj ms).render = "{" ++ cj (ms.map memText) ++ "}" := by
  rw [JVal.render, renderMembers_eq_cj]

theorem strip_toList (s : String) :
    ((s.drop 1).dropEnd 1).toString.toList = (s.toList.drop 1).dropLast := by
  simp only [String.Slice.toString, String.Slice.toList_copy_dropEnd, String.toList_copy_drop,
    List.dropLast_eq_take]

theorem strip_braces (body : String) : (("{" ++ body ++ "}").drop 1 |>.dropEnd 1).toString = body := by
  apply String.ext
  rw [strip_toList]
  simp

/-! ### token lemmas -/

theorem not_numTok_null : ¬ IsNumTok "null".toList := by
  rintro ⟨sg, i, f, e, h, hsg, hi, _, _⟩
  have hi' : ∃ c r, i = c :: r ∧ c.isDigit = true := by
    rcases hi with rfl | ⟨⟨hne, hd⟩, _⟩
    · exact ⟨'0', [], rfl, by decide⟩
    · obtain ⟨c, r, rfl⟩ := List.exists_cons_of_ne_nil hne
      exact ⟨c, r, rfl, hd c (by simp)⟩
  obtain ⟨c, r, rfl, hc⟩ := hi'
  rcases hsg with rfl | rfl
  · simp at h
    rw [← h.1] at hc
    exact absurd hc (by decide)
  · simp at h

/-- every character of a number token is one of `0-9 + - . e E` -/
theorem numTok_chars {l} (h : IsNumTok l) :
    ∀ c ∈ l, c.isDigit = true ∨ c = '-' ∨ c = '+' ∨ c = '.' ∨ c = 'e' ∨ c = 'E' := by
  obtain ⟨sg, i, f, e, rfl, hsg, hi, hf, he⟩ := h
  have hd : ∀ {ds}, IsDigits ds → ∀ c ∈ ds, c.isDigit = true := fun h => h.2
  intro c hc
  simp only [List.mem_append] at hc
  rcases hc with hc | hc | hc | hc
  · rcases hsg with rfl | rfl
    · cases hc
    · simp at hc; simp [hc]
  · rcases hi with rfl | ⟨hi, _⟩
    · simp at hc; subst hc; left; decide
    · exact .inl (hd hi c hc)
  · rcases hf with rfl | ⟨ds, rfl, hds⟩
    · cases hc
    · simp at hc
      rcases hc with rfl | hc
      · simp
      · exact .inl (hd hds c hc)
  · rcases he with rfl | ⟨e, sg, ds, rfl, he, hsg, hds⟩
    · cases hc
    · simp at hc
      rcases hc with rfl | hc | hc
      · rcases he with rfl | rfl <;> simp
      · rcases hsg with rfl | rfl | rfl <;> simp at hc <;> simp [hc]
      · exact .inl (hd hds c hc)

/-- pointwise relation of two lists (core-only replacement of `List.Forall₂`) -/
inductive All2 {α β} (R : α → β → Prop) : List α → List β → Prop
  | nil : All2 R [] []
  | cons {a b l r} : R a b → All2 R l r → All2 R (a :: l) (b :: r)

/-! ### leaves -/

/-- node of an ordinate / extra / radius text: `null`, or a number whose raw text is the
    canonical text (value and ×1000 text free) -/
def NumV (t : String) (n : JVal) : Prop :=
  (t = "null" ∧ n = .null) ∨ (IsNumTok t.toList ∧ ∃ v k, n = .num true v t k t)

/-- same with the exact value fixed -/
def OrdV (val : Rat) (t : String) (n : JVal) : Prop :=
  (t = "null" ∧ n = .null) ∨ (IsNumTok t.toList ∧ ∃ k, n = .num true val t k t)

theorem OrdV.numV {val t n} (h : OrdV val t n) : NumV t n := by
  rcases h with h | ⟨h, k, rfl⟩
  · exact .inl h
  · exact .inr ⟨h, val, k, rfl⟩

theorem NumV.render {t n} (h : NumV t n) : n.render = t := by
  rcases h with ⟨rfl, rfl⟩ | ⟨_, v, k, rfl⟩ <;> rfl

theorem NumV.tokOK {t n} (h : NumV t n) : n.TokOK := by
  rcases h with ⟨rfl, rfl⟩ | ⟨h, v, k, rfl⟩
  · trivial
  · simpa [JVal.TokOK] using h

theorem forall₂_numV {ts ns} (h : All2 NumV ts ns) :
    ns.map JVal.render = ts ∧ TokOKL ns := by
  induction h with
  | nil => exact ⟨rfl, trivial⟩
  | cons h _ ih => exact ⟨by simp [h.render, ih.1], by rw [TokOKL]; exact ⟨h.tokOK, ih.2⟩⟩

/-- which texts can be written: `null` or a number token -/
def NumText (t : String) : Prop := t = "null" ∨ IsNumTok t.toList

theorem NumText.ordV {t} (h : NumText t) (val : Rat) : ∃ n, OrdV val t n := by
  rcases h with rfl | h
  · exact ⟨.null, .inl ⟨rfl, rfl⟩⟩
  · exact ⟨.num true val t "" t, .inr ⟨h, "", rfl⟩⟩

theorem NumText.numV {t} (h : NumText t) : ∃ n, NumV t n :=
  let ⟨n, hn⟩ := h.ordV 0; ⟨n, hn.numV⟩

theorem numText_forall₂ {ts : List String} (h : ∀ t ∈ ts, NumText t) :
    ∃ ns, All2 NumV ts ns := by
  induction ts with
  | nil => exact ⟨[], .nil⟩
  | cons t ts ih =>
    obtain ⟨n, hn⟩ := (h t (by simp)).numV
    obtain ⟨ns, hns⟩ := ih (fun t ht => h t (by simp [ht]))
    exact ⟨n :: ns, .cons hn hns⟩

/-! ### positions, series, rings -/

/-- the z/m texts written for the position with index `idx` -/
def extrasAt (ex : Option Extra) (idx : Nat) : Option (List String) :=
  match ex with
  | none => some []
  | some e => (List.range e.dims).mapM (fun i => e.values[idx * e.dims + i]?)

theorem writePos_eq (pos : Pos) (ex : Option Extra) (idx : Nat) :
    writePos pos ex idx = (extrasAt ex idx).map (fun ts => "[" ++ cj (pos.xs :: pos.ys :: ts) ++ "]") := by
  cases ex with
  | none => simp [writePos, extrasAt, cj, String.append_assoc]
  | some e =>
    simp only [writePos, extrasAt]
    cases (List.range e.dims).mapM (fun i => e.values[idx * e.dims + i]?) with
    | none => rfl
    | some ts =>
      simp only [Option.bind_eq_bind, Option.bind_some, Option.pure_def, Option.map_some, Option.some.injEq]
      rw [cj_cons_cons, cj_cons]
      simp [cjTail, String.append_assoc]

/-- AST of one written position -/
def PosV (pos : Pos) (ex : Option Extra) (idx : Nat) (n : JVal) : Prop :=
  ∃ nx ny ts es, OrdV pos.p.x pos.xs nx ∧ OrdV pos.p.y pos.ys ny ∧ extrasAt ex idx = some ts ∧
    All2 NumV ts es ∧ n = .arr (nx :: ny :: es)

theorem PosV.render {pos ex idx n} (h : PosV pos ex idx n) :
    writePos pos ex idx = some n.render ∧ n.TokOK := by
  obtain ⟨nx, ny, ts, es, hx, hy, hts, hes, rfl⟩ := h
  have := forall₂_numV hes
  refine ⟨?_, ?_⟩
  · rw [writePos_eq, hts, render_arr]
    simp [hx.numV.render, hy.numV.render, this.1]
  · simp only [JVal.TokOK, TokOKL]
    exact ⟨hx.numV.tokOK, hy.numV.tokOK, this.2⟩

def SeriesV (ex : Option Extra) : List Pos → Nat → List JVal → Prop
  | [], _, ns => ns = []
  | p :: ps, i, ns => ∃ n ns', ns = n :: ns' ∧ PosV p ex i n ∧ SeriesV ex ps (i + 1) ns'

theorem SeriesV.go {ex} : ∀ {ps i ns}, SeriesV ex ps i ns →
    writeSeries.go ex ps i = some (ns.map JVal.render) ∧ TokOKL ns
  | [], _, _, h => by cases h; exact ⟨rfl, trivial⟩
  | p :: ps, i, _, ⟨n, ns', rfl, hp, hs⟩ => by
    have ih := SeriesV.go hs
    refine ⟨?_, ?_⟩
    · simp [writeSeries.go, hp.render.1, ih.1]
    · rw [TokOKL]; exact ⟨hp.render.2, ih.2⟩

theorem SeriesV.length {ex} : ∀ {ps i ns}, SeriesV ex ps i ns → ns.length = ps.length
  | [], _, _, h => by cases h; rfl
  | p :: ps, i, _, ⟨n, ns', rfl, _, hs⟩ => by simp [SeriesV.length hs]

theorem SeriesV.render {ex ps i ns} (h : SeriesV ex ps i ns) :
    writeSeries ps ex i = some ((JVal.arr ns).render, i + ps.length) ∧ TokOKL ns := by
  have := h.go
  refine ⟨?_, this.2⟩
  simp [writeSeries, this.1, intercalate_eq_cj, render_arr]

def RingsV (ex : Option Extra) : List (List Pos) → Nat → List JVal → Prop
  | [], _, ns => ns = []
  | r :: rs, i, ns => ∃ rn ns', ns = .arr rn :: ns' ∧ SeriesV ex r i rn ∧ RingsV ex rs (i + r.length) ns'

theorem RingsV.go {ex} : ∀ {rs i ns}, RingsV ex rs i ns →
    writeRings.go ex rs i = some (ns.map JVal.render) ∧ TokOKL ns
  | [], _, _, h => by cases h; exact ⟨rfl, trivial⟩
  | r :: rs, i, _, ⟨rn, ns', rfl, hr, hs⟩ => by
    have ih := RingsV.go hs
    refine ⟨?_, ?_⟩
    · simp [writeRings.go, hr.render.1, ih.1]
    · rw [TokOKL]; exact ⟨by simpa [JVal.TokOK] using hr.render.2, ih.2⟩

theorem RingsV.render {ex rs ns} (h : RingsV ex rs 0 ns) :
    writeRings rs ex = some (JVal.arr ns).render ∧ TokOKL ns := by
  have := h.go
  refine ⟨?_, this.2⟩
  simp [writeRings, this.1, intercalate_eq_cj, render_arr]

end Geo

namespace Geo

/-! ### coordinates of the geometry kinds -/

/-- AST of the `"coordinates"` value (`writeCoords`) -/
def CoordsV : Obj → JVal → Prop
  | .point pos ex, n => PosV pos ex 0 n
  | .spoint pos, n => PosV pos none 0 n
  | .lineString _ poss ex, n => ∃ ns, SeriesV ex poss 0 ns ∧ n = .arr ns
  | .polygon poly rings ex, n =>
    if poly.empty then n = .arr [] else ∃ ns, RingsV ex rings 0 ns ∧ n = .arr ns
  | .rectO _ lo hi, n => ∃ ns, RingsV none [rectRing lo hi] 0 ns ∧ n = .arr ns
  | _, _ => False

theorem CoordsV.render : ∀ {x n}, CoordsV x n → writeCoords x = some n.render ∧ n.TokOK
  | .point _ _, _, h => by simpa [writeCoords] using PosV.render h
  | .spoint _, _, h => by simpa [writeCoords] using PosV.render h
  | .lineString _ _ _, _, ⟨ns, h, rfl⟩ => by
    have := h.render
    exact ⟨by simp [writeCoords, this.1], by simpa [JVal.TokOK] using this.2⟩
  | .polygon poly _ _, n, h => by
    simp only [CoordsV] at h
    by_cases he : poly.empty = true
    · rw [if_pos he] at h; subst h
      exact ⟨by simp [writeCoords, he, JVal.render, JVal.renderItems], by simp [JVal.TokOK, TokOKL]⟩
    · rw [if_neg he] at h
      obtain ⟨ns, h, rfl⟩ := h
      have := h.render
      exact ⟨by simp [writeCoords, he, this.1], by simpa [JVal.TokOK] using this.2⟩
  | .rectO _ _ _, _, ⟨ns, h, rfl⟩ => by
    have := h.render
    exact ⟨by simp [writeCoords, this.1], by simpa [JVal.TokOK] using this.2⟩
  | .coll _ _ _ _, _, h => by cases h
  | .feature _ _, _, h => by cases h
  | .circle _ _, _, h => by cases h

theorem all2_coordsV {cs ns} (h : All2 CoordsV cs ns) :
    writeAllCoords cs = some (ns.map JVal.render) ∧ TokOKL ns := by
  induction h with
  | nil => exact ⟨by simp [writeAllCoords], trivial⟩
  | cons h _ ih =>
    exact ⟨by simp [writeAllCoords, h.render.1, ih.1], by rw [TokOKL]; exact ⟨h.render.2, ih.2⟩⟩

/-! ### foreign members -/

abbrev Member := String × String × JVal

/-- a string value / a member with a plain (escape-free) key -/
def strV (s : String) : JVal := .str ("\"" ++ s ++ "\"") s
def mem (key : String) (v : JVal) : Member := ("\"" ++ key ++ "\"", key, v)

/-- the member `"properties":{}` appended by the Feature writer -/
def propsM : Member := mem "properties" (.obj [])

/-- does `appendJSONExtra` append `"properties":{}` -/
def needProps (ex : Option Extra) (req : Bool) : Bool :=
  req && !(match ex with
    | some e => e.members != "" && e.hasProps
    | none => false)

/-- `fm` are the members written after the standard ones: the foreign members (an AST `fm0` of
    the stored minified text) and possibly `"properties":{}` -/
def MembersV (ex : Option Extra) (req : Bool) (fm : List Member) : Prop :=
  ∃ fm0, TokOKM fm0 ∧
    (match ex with
     | some e => if e.members = "" then fm0 = []
                 else fm0 ≠ [] ∧ e.members = "{" ++ JVal.renderMembers fm0 ++ "}"
     | none => fm0 = []) ∧
    fm = fm0 ++ (if needProps ex req then [propsM] else [])

theorem tokOKM_append : ∀ {a b : List Member}, TokOKM a → TokOKM b → TokOKM (a ++ b)
  | [], _, _, hb => hb
  | (k, d, v) :: a, b, ha, hb => by
    rw [TokOKM] at ha
    rw [List.cons_append, TokOKM]
    exact ⟨ha.1, ha.2.1, tokOKM_append ha.2.2 hb⟩

theorem strTok_quote {s : String} (h : strBodyB s.toList = true) : IsStrTok ("\"" ++ s ++ "\"").toList :=
  ⟨s.toList, by simp, strBodyB_sound h⟩

theorem tokOK_strV {s : String} (h : strBodyB s.toList = true) : (strV s).TokOK := by
  simpa [strV, JVal.TokOK] using strTok_quote h

theorem tokOKM_propsM : TokOKM [propsM] := by
  simp only [propsM, mem, TokOKM, JVal.TokOK, and_true]
  exact strTok_quote (by decide)

theorem MembersV.render {ex req fm} (h : MembersV ex req fm) :
    writeExtra ex req = cjTail (fm.map memText) ∧ TokOKM fm := by
  obtain ⟨fm0, hok, h0, rfl⟩ := h
  refine ⟨?_, tokOKM_append hok (by split; exact tokOKM_propsM; exact trivial)⟩
  have hp : cjTail [memText propsM] = ",\"properties\":{}" := by decide
  cases ex with
  | none =>
    subst h0
    cases req <;> simp [writeExtra, needProps, cjTail_nil, hp]
  | some e =>
    simp only at h0
    by_cases hm : e.members = ""
    · rw [if_pos hm] at h0; subst h0
      cases req <;> simp [writeExtra, needProps, hm, cjTail_nil, hp]
    · rw [if_neg hm] at h0
      obtain ⟨hne, hmem⟩ := h0
      obtain ⟨m, fm0, rfl⟩ := List.exists_cons_of_ne_nil hne
      have hstrip : ((e.members.drop 1).dropEnd 1).toString = cj ((m :: fm0).map memText) := by
        rw [hmem, strip_braces, renderMembers_eq_cj]
      rw [List.map_append, cjTail_append]
      simp only [writeExtra, bne_iff_ne, ne_eq, hm, not_false_eq_true, if_true, hstrip]
      rw [List.map_cons, cj_cons, cjTail_cons]
      have hm' : (e.members != "") = true := by simpa using hm
      simp only [needProps, hm', Bool.true_and, String.append_assoc]
      cases req <;> cases hhp : e.hasProps <;> simp [cjTail_nil, hp]

/-! ### objects -/

def mkObj (ty key : String) (c : JVal) (fm : List Member) : JVal :=
  .obj (mem "type" (strV ty) :: mem key c :: fm)

theorem render_mkObj (ty key : String) (c : JVal) (fm : List Member) :
    (mkObj ty key c fm).render =
      "{\"type\":\"" ++ ty ++ "\",\"" ++ key ++ "\":" ++ c.render ++ cjTail (fm.map memText) ++ "}" := by
  rw [mkObj, render_obj, List.map_cons, List.map_cons, cj_cons_cons, cj_cons]
  apply String.ext
  simp [memText, mem, strV, JVal.render]

theorem tokOK_mkObj {ty key : String} {c : JVal} {fm : List Member}
    (hty : strBodyB ty.toList = true) (hkey : strBodyB key.toList = true)
    (hc : c.TokOK) (hfm : TokOKM fm) : (mkObj ty key c fm).TokOK := by
  simp only [mkObj, mem, JVal.TokOK, TokOKM]
  exact ⟨strTok_quote (by decide), tokOK_strV hty, strTok_quote hkey, hc, hfm⟩

/-- GeoJSON type name of a geometry kind / its `extra` -/
def geomType : Obj → String
  | .point _ _ => "Point"
  | .spoint _ => "Point"
  | .lineString _ _ _ => "LineString"
  | .polygon _ _ _ => "Polygon"
  | .rectO _ _ _ => "Polygon"
  | .coll k _ _ _ => k.typeName
  | .feature _ _ => "Feature"
  | .circle _ _ => "Feature"

def collKey : CollKind → String
  | .geometryCollection => "geometries"
  | .featureCollection => "features"
  | _ => "coordinates"

mutual
/-- `Written x v`: `v` is a token-well-formed AST of the document `write x`: the standard
    members in writer order, every number as `.num true val canon canonK canon` (`.null` for a
    non-finite one; `val`/`canonK` are free where the object does not determine them), then the
    foreign members as an AST `fm0` whose minified text is the stored `members` text, then
    `"properties":{}` where the Feature writer appends it.  (A relation rather than a function
    because `Extra.members`/`Extra.values` are texts: the ASTs they denote are chosen
    existentially; `reparse_ok` constructs the witness from the parsed document.) -/
def Written : Obj → JVal → Prop
  | .point pos ex, v => ∃ c fm, CoordsV (.point pos ex) c ∧ MembersV ex false fm ∧
      v = mkObj "Point" "coordinates" c fm
  | .spoint pos, v => ∃ c, CoordsV (.spoint pos) c ∧ v = mkObj "Point" "coordinates" c []
  | .lineString l poss ex, v => ∃ c fm, CoordsV (.lineString l poss ex) c ∧ MembersV ex false fm ∧
      v = mkObj "LineString" "coordinates" c fm
  | .polygon p rings ex, v => ∃ c fm, CoordsV (.polygon p rings ex) c ∧ MembersV ex false fm ∧
      v = mkObj "Polygon" "coordinates" c fm
  | .rectO b lo hi, v => ∃ c, CoordsV (.rectO b lo hi) c ∧ v = mkObj "Polygon" "coordinates" c []
  | .coll kind cs ex _, v => ∃ ns fm,
      (match kind with
       | .geometryCollection => WrittenL cs ns
       | .featureCollection => WrittenL cs ns
       | _ => All2 CoordsV cs ns) ∧
      MembersV ex false fm ∧ v = mkObj kind.typeName (collKey kind) (.arr ns) fm
  | .feature b ex, v => ∃ vb fm, Written b vb ∧ MembersV ex true fm ∧
      v = mkObj "Feature" "geometry" vb fm
  | .circle c r, v => ∃ cn rn, PosV c none 0 cn ∧ NumV r rn ∧
      v = mkObj "Feature" "geometry" (mkObj "Point" "coordinates" cn [])
        [mem "properties" (.obj [mem "type" (strV "Circle"), mem "radius" rn,
          mem "radius_units" (strV "m")])]
def WrittenL : List Obj → List JVal → Prop
  | [], ns => ns = []
  | c :: cs, ns => ∃ n ns', ns = n :: ns' ∧ Written c n ∧ WrittenL cs ns'
end

/-- equality of two concatenations of literals and atoms -/
macro "str_eq" : tactic =>
  `(tactic| (apply String.ext; simp only [String.toList_append, String.reduceToList, List.cons_append,
      List.nil_append, List.append_assoc, List.append_nil]))

/-- text of a written object: `{"type":"<ty>","<key>":<c><tail>}` -/
def objText (ty key c tail : String) : String :=
  "{\"type\":\"" ++ ty ++ "\",\"" ++ key ++ "\":" ++ c ++ tail ++ "}"

theorem write_point (pos ex) : write (.point pos ex) =
    (writeCoords (.point pos ex)).map (fun c => objText "Point" "coordinates" c (writeExtra ex false)) := by
  rw [write, writeCoords]
  cases writePos pos ex 0 with
  | none => rfl
  | some c => simp only [Option.bind_eq_bind, Option.bind_some, Option.pure_def, Option.map_some, Option.some.injEq, objText]; str_eq

theorem write_spoint (pos) : write (.spoint pos) =
    (writeCoords (.spoint pos)).map (fun c => objText "Point" "coordinates" c "") := by
  rw [write, writeCoords]
  cases writePos pos none 0 with
  | none => rfl
  | some c => simp only [Option.bind_eq_bind, Option.bind_some, Option.pure_def, Option.map_some, Option.some.injEq, objText]; str_eq

theorem write_lineString (l poss ex) : write (.lineString l poss ex) =
    (writeCoords (.lineString l poss ex)).map (fun c => objText "LineString" "coordinates" c (writeExtra ex false)) := by
  rw [write, writeCoords]
  cases writeSeries poss ex 0 with
  | none => rfl
  | some c => simp only [Option.bind_eq_bind, Option.bind_some, Option.pure_def, Option.map_some, Option.some.injEq, objText]; str_eq

theorem write_polygon (p rings ex) : write (.polygon p rings ex) =
    (writeCoords (.polygon p rings ex)).map (fun c => objText "Polygon" "coordinates" c (writeExtra ex false)) := by
  rw [write, writeCoords]
  cases p.empty with
  | true => simp only [if_true, Option.bind_eq_bind, Option.bind_some, Option.pure_def, Option.map_some, Option.some.injEq, objText]; str_eq
  | false =>
    simp only [Bool.false_eq_true, if_false]
    cases writeRings rings ex with
    | none => rfl
    | some c => simp only [Option.bind_eq_bind, Option.bind_some, Option.pure_def, Option.map_some, Option.some.injEq, objText]; str_eq

theorem write_rectO (b lo hi) : write (.rectO b lo hi) =
    (writeCoords (.rectO b lo hi)).map (fun c => objText "Polygon" "coordinates" c "") := by
  rw [write, writeCoords]
  cases writeRings [rectRing lo hi] none with
  | none => rfl
  | some c => simp only [Option.bind_eq_bind, Option.bind_some, Option.pure_def, Option.map_some, Option.some.injEq, objText]; str_eq

theorem write_feature (b ex) : write (.feature b ex) =
    (write b).map (fun c => objText "Feature" "geometry" c (writeExtra ex true)) := by
  rw [write]
  cases write b with
  | none => rfl
  | some c => simp only [Option.bind_eq_bind, Option.bind_some, Option.pure_def, Option.map_some, Option.some.injEq, objText]; str_eq

/-- the parts of a collection -/
def writeParts (kind : CollKind) (cs : List Obj) : Option (List String) :=
  match kind with
  | .geometryCollection => writeAll cs
  | .featureCollection => writeAll cs
  | _ => writeAllCoords cs

theorem write_coll (kind cs ex idx) : write (.coll kind cs ex idx) =
    (writeParts kind cs).map (fun parts =>
      objText kind.typeName (collKey kind) ("[" ++ cj parts ++ "]") (writeExtra ex false)) := by
  cases kind <;> simp only [write, writeParts]
  · cases writeAllCoords cs with
    | none => rfl
    | some c => simp only [Option.bind_eq_bind, Option.bind_some, Option.pure_def, Option.map_some, Option.some.injEq, objText, intercalate_eq_cj, collKey]; str_eq
  · cases writeAllCoords cs with
    | none => rfl
    | some c => simp only [Option.bind_eq_bind, Option.bind_some, Option.pure_def, Option.map_some, Option.some.injEq, objText, intercalate_eq_cj, collKey]; str_eq
  · cases writeAllCoords cs with
    | none => rfl
    | some c => simp only [Option.bind_eq_bind, Option.bind_some, Option.pure_def, Option.map_some, Option.some.injEq, objText, intercalate_eq_cj, collKey]; str_eq
  · cases writeAll cs with
    | none => rfl
    | some c => simp only [Option.bind_eq_bind, Option.bind_some, Option.pure_def, Option.map_some, Option.some.injEq, objText, intercalate_eq_cj, collKey]; str_eq
  · cases writeAll cs with
    | none => rfl
    | some c => simp only [Option.bind_eq_bind, Option.bind_some, Option.pure_def, Option.map_some, Option.some.injEq, objText, intercalate_eq_cj, collKey]; str_eq

theorem render_mkObj' (ty key : String) (c : JVal) (fm : List Member) :
    (mkObj ty key c fm).render = objText ty key c.render (cjTail (fm.map memText)) := by
  rw [render_mkObj, objText]
theorem write_circle_render (c : Pos) (r : String) (nx ny rn : JVal)
    (hx : nx.render = c.xs) (hy : ny.render = c.ys) (hr : rn.render = r) :
    write (.circle c r) = some (mkObj "Feature" "geometry" (mkObj "Point" "coordinates" (.arr [nx, ny]) [])
        [mem "properties" (.obj [mem "type" (strV "Circle"), mem "radius" rn,
          mem "radius_units" (strV "m")])]).render := by
  simp only [write, render_mkObj, render_arr, render_obj, List.map_cons, List.map_nil,
        cj_cons_cons, cj, cjTail_cons, cjTail_nil, memText, mem, strV,
        hx, hy, hr, Option.some.injEq]
  simp only [JVal.render]
  str_eq

theorem typeName_body (k : CollKind) : strBodyB k.typeName.toList = true := by
  cases k <;> decide

theorem collKey_body (k : CollKind) : strBodyB (collKey k).toList = true := by
  cases k <;> decide

mutual
/-- the text `write x` is the rendering of any AST `Written` for `x`, and that AST is
    token-well-formed -/
theorem Written.render : ∀ {x v}, Written x v → write x = some v.render ∧ v.TokOK
  | .point pos ex, _, ⟨c, fm, hc, hm, rfl⟩ => by
    have hc' := hc.render
    exact ⟨by rw [write_point, hc'.1, render_mkObj', hm.render.1]; rfl,
      tokOK_mkObj (by decide) (by decide) hc'.2 hm.render.2⟩
  | .spoint pos, _, ⟨c, hc, rfl⟩ => by
    have hc' := hc.render
    exact ⟨by rw [write_spoint, hc'.1, render_mkObj']; rfl,
      tokOK_mkObj (by decide) (by decide) hc'.2 trivial⟩
  | .lineString l poss ex, _, ⟨c, fm, hc, hm, rfl⟩ => by
    have hc' := hc.render
    exact ⟨by rw [write_lineString, hc'.1, render_mkObj', hm.render.1]; rfl,
      tokOK_mkObj (by decide) (by decide) hc'.2 hm.render.2⟩
  | .polygon p rings ex, _, ⟨c, fm, hc, hm, rfl⟩ => by
    have hc' := hc.render
    exact ⟨by rw [write_polygon, hc'.1, render_mkObj', hm.render.1]; rfl,
      tokOK_mkObj (by decide) (by decide) hc'.2 hm.render.2⟩
  | .rectO b lo hi, _, ⟨c, hc, rfl⟩ => by
    have hc' := hc.render
    exact ⟨by rw [write_rectO, hc'.1, render_mkObj']; rfl,
      tokOK_mkObj (by decide) (by decide) hc'.2 trivial⟩
  | .coll kind cs ex _, _, ⟨ns, fm, hns, hm, rfl⟩ => by
    have hparts : writeParts kind cs = some (ns.map JVal.render) ∧ TokOKL ns := by
      cases kind
      · exact all2_coordsV hns
      · exact all2_coordsV hns
      · exact all2_coordsV hns
      · exact WrittenL.render hns
      · exact WrittenL.render hns
    refine ⟨?_, tokOK_mkObj (typeName_body kind) (collKey_body kind)
      (by simpa [JVal.TokOK] using hparts.2) hm.render.2⟩
    rw [write_coll, hparts.1, render_mkObj', hm.render.1, render_arr]; rfl
  | .feature b ex, _, ⟨vb, fm, hb, hm, rfl⟩ => by
    have ih := Written.render hb
    exact ⟨by rw [write_feature, ih.1, render_mkObj', hm.render.1]; rfl,
      tokOK_mkObj (by decide) (by decide) ih.2 hm.render.2⟩
  | .circle c r, _, ⟨cn, rn, hc, hr, rfl⟩ => by
    obtain ⟨nx, ny, ts, es, hx, hy, hts, hes, rfl⟩ := hc
    simp only [extrasAt, Option.some.injEq] at hts
    subst hts
    cases hes
    refine ⟨write_circle_render c r nx ny rn hx.numV.render hy.numV.render hr.render, ?_⟩
    · refine tokOK_mkObj (by decide) (by decide) (tokOK_mkObj (by decide) (by decide) ?_ trivial) ?_
      · simp only [JVal.TokOK, TokOKL]
        exact ⟨hx.numV.tokOK, hy.numV.tokOK, trivial⟩
      · simp only [mem, TokOKM, JVal.TokOK, and_true]
        exact ⟨strTok_quote (by decide), strTok_quote (by decide), tokOK_strV (by decide),
          strTok_quote (by decide), hr.tokOK, strTok_quote (by decide), tokOK_strV (by decide)⟩
theorem WrittenL.render : ∀ {cs ns}, WrittenL cs ns → writeAll cs = some (ns.map JVal.render) ∧ TokOKL ns
  | [], _, h => by cases h; exact ⟨by simp [writeAll], trivial⟩
  | c :: cs, _, ⟨n, ns', rfl, hc, hcs⟩ => by
    have h1 := Written.render hc
    have h2 := WrittenL.render hcs
    exact ⟨by simp [writeAll, h1.1, h2.1], by rw [TokOKL]; exact ⟨h1.2, h2.2⟩⟩
end

end Geo

namespace Geo

/-! ## Part 3: what the writer needs from an object (`WriteOK`) -/

def PosOK (p : Pos) : Prop := NumText p.xs ∧ NumText p.ys

/-- every z/m text is `null` or a number token -/
def ValuesOK : Option Extra → Prop
  | none => True
  | some e => ∀ t ∈ e.values, NumText t

/-- the extras table has `dims` values for each of the first `npos` positions (so that
    `appendJSONPoint` does not index out of range) -/
def TableOK : Option Extra → Nat → Prop
  | none, _ => True
  | some e, npos => npos * e.dims ≤ e.values.length

/-- a JSON object text with at least one member -/
def IsJSONObject1 (l : List Char) : Prop := ∃ body, l = '{' :: (body ++ ['}']) ∧ IsJSONMembers body

/-- `members` is "" or a minified JSON object text with at least one member -/
def MembersOK : Option Extra → Prop
  | none => True
  | some e => e.members = "" ∨ IsJSONObject1 e.members.toList

/-- the `"coordinates"` value of a geometry kind can be written -/
def CoordsOK : Obj → Prop
  | .point pos ex => PosOK pos ∧ ValuesOK ex ∧ TableOK ex 1
  | .spoint pos => PosOK pos
  | .lineString _ poss ex => (∀ p ∈ poss, PosOK p) ∧ ValuesOK ex ∧ TableOK ex poss.length
  | .polygon poly rings ex => poly.empty = true ∨
      ((∀ r ∈ rings, ∀ p ∈ r, PosOK p) ∧ ValuesOK ex ∧ TableOK ex (rings.map List.length).sum)
  | .rectO _ lo hi => PosOK lo ∧ PosOK hi
  | _ => False

mutual
/-- what the writer needs from an object to produce JSON: each ordinate text is `"null"` or a
    number token, each extra value likewise, `members` is "" or a minified JSON object text with
    at least one member, the extras table is complete, the radius text of a circle is `"null"`
    or a number token.  (Children of a Multi* collection only need `CoordsOK`: their members are
    not written.) -/
def WriteOK : Obj → Prop
  | .point pos ex => CoordsOK (.point pos ex) ∧ MembersOK ex
  | .spoint pos => CoordsOK (.spoint pos)
  | .lineString l poss ex => CoordsOK (.lineString l poss ex) ∧ MembersOK ex
  | .polygon p rings ex => CoordsOK (.polygon p rings ex) ∧ MembersOK ex
  | .rectO b lo hi => CoordsOK (.rectO b lo hi)
  | .coll kind cs ex _ => MembersOK ex ∧
      (match kind with
       | .geometryCollection => WriteOKL cs
       | .featureCollection => WriteOKL cs
       | _ => ∀ c ∈ cs, CoordsOK c)
  | .feature b ex => WriteOK b ∧ MembersOK ex
  | .circle c r => PosOK c ∧ NumText r
def WriteOKL : List Obj → Prop
  | [] => True
  | c :: cs => WriteOK c ∧ WriteOKL cs
end

theorem mapM_option_some {α β} (f : α → Option β) (P : β → Prop) :
    ∀ l : List α, (∀ i ∈ l, ∃ v, f i = some v ∧ P v) → ∃ ts, l.mapM f = some ts ∧ ∀ t ∈ ts, P t
  | [], _ => ⟨[], by simp, by simp⟩
  | a :: l, h => by
    obtain ⟨v, hv, hp⟩ := h a (by simp)
    obtain ⟨ts, hts, hps⟩ := mapM_option_some f P l (fun i hi => h i (by simp [hi]))
    exact ⟨v :: ts, by simp [List.mapM_cons, hv, hts], by
      intro t ht
      rcases List.mem_cons.mp ht with rfl | ht
      · exact hp
      · exact hps t ht⟩

theorem extrasAt_ok {ex : Option Extra} {npos idx : Nat} (hv : ValuesOK ex) (ht : TableOK ex npos)
    (hi : idx < npos) : ∃ ts, extrasAt ex idx = some ts ∧ ∀ t ∈ ts, NumText t := by
  cases ex with
  | none => exact ⟨[], rfl, by simp⟩
  | some e =>
    simp only [TableOK] at ht
    simp only [ValuesOK] at hv
    apply mapM_option_some
    intro i hi'
    have hi' : i < e.dims := by simpa using hi'
    have hlt : idx * e.dims + i < e.values.length := by
      have : (idx + 1) * e.dims ≤ npos * e.dims := Nat.mul_le_mul_right _ hi
      rw [Nat.add_mul, Nat.one_mul] at this
      omega
    exact ⟨e.values[idx * e.dims + i], by simp [hlt], hv _ (List.getElem_mem _)⟩

theorem posV_exists {p : Pos} {ex : Option Extra} {npos idx : Nat} (hp : PosOK p) (hv : ValuesOK ex)
    (ht : TableOK ex npos) (hi : idx < npos) : ∃ n, PosV p ex idx n := by
  obtain ⟨ts, hts, hnum⟩ := extrasAt_ok hv ht hi
  obtain ⟨nx, hx⟩ := hp.1.ordV p.p.x
  obtain ⟨ny, hy⟩ := hp.2.ordV p.p.y
  obtain ⟨es, hes⟩ := numText_forall₂ hnum
  exact ⟨_, nx, ny, ts, es, hx, hy, hts, hes, rfl⟩

theorem seriesV_exists {ex : Option Extra} {npos : Nat} (hv : ValuesOK ex) (ht : TableOK ex npos) :
    ∀ (ps : List Pos) (i : Nat), (∀ p ∈ ps, PosOK p) → i + ps.length ≤ npos → ∃ ns, SeriesV ex ps i ns
  | [], _, _, _ => ⟨[], rfl⟩
  | p :: ps, i, hp, hi => by
    obtain ⟨n, hn⟩ := posV_exists (idx := i) (hp p (by simp)) hv ht (by simp at hi; omega)
    obtain ⟨ns, hns⟩ := seriesV_exists hv ht ps (i + 1) (fun q hq => hp q (by simp [hq]))
      (by simp at hi; omega)
    exact ⟨n :: ns, n, ns, rfl, hn, hns⟩

theorem ringsV_exists {ex : Option Extra} {npos : Nat} (hv : ValuesOK ex) (ht : TableOK ex npos) :
    ∀ (rs : List (List Pos)) (i : Nat), (∀ r ∈ rs, ∀ p ∈ r, PosOK p) →
      i + (rs.map List.length).sum ≤ npos → ∃ ns, RingsV ex rs i ns
  | [], _, _, _ => ⟨[], rfl⟩
  | r :: rs, i, hp, hi => by
    simp only [List.map_cons, List.sum_cons] at hi
    obtain ⟨rn, hrn⟩ := seriesV_exists hv ht r i (hp r (by simp)) (by omega)
    obtain ⟨ns, hns⟩ := ringsV_exists hv ht rs (i + r.length) (fun q hq => hp q (by simp [hq]))
      (by omega)
    exact ⟨.arr rn :: ns, rn, ns, rfl, hrn, hns⟩

theorem CoordsOK.coordsV : ∀ {x}, CoordsOK x → ∃ c, CoordsV x c
  | .point pos ex, ⟨hp, hv, ht⟩ => posV_exists (npos := 1) hp hv ht (by omega)
  | .spoint pos, hp => posV_exists (ex := none) (npos := 1) hp trivial trivial (by omega)
  | .lineString _ poss ex, ⟨hp, hv, ht⟩ => by
    obtain ⟨ns, hns⟩ := seriesV_exists hv ht poss 0 hp (by omega)
    exact ⟨.arr ns, ns, hns, rfl⟩
  | .polygon poly rings ex, h => by
    by_cases he : poly.empty = true
    · exact ⟨.arr [], by simp [CoordsV, he]⟩
    · rcases h with h | ⟨hp, hv, ht⟩
      · exact absurd h he
      · obtain ⟨ns, hns⟩ := ringsV_exists hv ht rings 0 hp (by omega)
        exact ⟨.arr ns, by simp only [CoordsV, if_neg he]; exact ⟨ns, hns, rfl⟩⟩
  | .rectO _ lo hi, ⟨hlo, hhi⟩ => by
    obtain ⟨ns, hns⟩ := ringsV_exists (ex := none) (npos := 5) trivial trivial [rectRing lo hi] 0
      (by
        intro r hr p hp
        simp only [List.mem_singleton] at hr
        subst hr
        simp only [rectRing, List.mem_cons, List.not_mem_nil, or_false] at hp
        rcases hp with rfl | rfl | rfl | rfl | rfl <;>
          first | exact ⟨hlo.1, hlo.2⟩ | exact ⟨hhi.1, hlo.2⟩ | exact ⟨hhi.1, hhi.2⟩ | exact ⟨hlo.1, hhi.2⟩)
      (by simp [rectRing])
    exact ⟨.arr ns, ns, hns, rfl⟩

theorem all2_coordsV_exists : ∀ {cs : List Obj}, (∀ c ∈ cs, CoordsOK c) → ∃ ns, All2 CoordsV cs ns
  | [], _ => ⟨[], .nil⟩
  | c :: cs, h => by
    obtain ⟨n, hn⟩ := (h c (by simp)).coordsV
    obtain ⟨ns, hns⟩ := all2_coordsV_exists (cs := cs) (fun d hd => h d (by simp [hd]))
    exact ⟨n :: ns, .cons hn hns⟩

theorem MembersOK.membersV {ex : Option Extra} (h : MembersOK ex) (req : Bool) :
    ∃ fm, MembersV ex req fm := by
  cases ex with
  | none => exact ⟨_, [], trivial, rfl, rfl⟩
  | some e =>
    by_cases hm : e.members = ""
    · exact ⟨_, [], trivial, by simp [hm], rfl⟩
    · rcases h with h | ⟨body, hb, hmem⟩
      · exact absurd h hm
      · obtain ⟨ms, hne, hok, hr⟩ := json_has_ast hmem
        refine ⟨_, ms, hok, ?_, rfl⟩
        simp only [if_neg hm]
        refine ⟨hne, ?_⟩
        apply String.ext
        rw [hb, ← hr]
        simp

mutual
/-- under `WriteOK` the document has an AST -/
theorem WriteOK.written : ∀ {x}, WriteOK x → ∃ v, Written x v
  | .point pos ex, ⟨hc, hm⟩ => by
    obtain ⟨c, hc⟩ := hc.coordsV
    obtain ⟨fm, hfm⟩ := hm.membersV false
    exact ⟨_, c, fm, hc, hfm, rfl⟩
  | .spoint pos, hc => by
    obtain ⟨c, hc⟩ := CoordsOK.coordsV hc
    exact ⟨_, c, hc, rfl⟩
  | .lineString l poss ex, ⟨hc, hm⟩ => by
    obtain ⟨c, hc⟩ := hc.coordsV
    obtain ⟨fm, hfm⟩ := hm.membersV false
    exact ⟨_, c, fm, hc, hfm, rfl⟩
  | .polygon p rings ex, ⟨hc, hm⟩ => by
    obtain ⟨c, hc⟩ := hc.coordsV
    obtain ⟨fm, hfm⟩ := hm.membersV false
    exact ⟨_, c, fm, hc, hfm, rfl⟩
  | .rectO b lo hi, hc => by
    obtain ⟨c, hc⟩ := CoordsOK.coordsV hc
    exact ⟨_, c, hc, rfl⟩
  | .coll kind cs ex _, ⟨hm, hcs⟩ => by
    obtain ⟨fm, hfm⟩ := hm.membersV false
    cases kind with
    | multiPoint =>
      obtain ⟨ns, hns⟩ := all2_coordsV_exists hcs
      exact ⟨_, ns, fm, hns, hfm, rfl⟩
    | multiLineString =>
      obtain ⟨ns, hns⟩ := all2_coordsV_exists hcs
      exact ⟨_, ns, fm, hns, hfm, rfl⟩
    | multiPolygon =>
      obtain ⟨ns, hns⟩ := all2_coordsV_exists hcs
      exact ⟨_, ns, fm, hns, hfm, rfl⟩
    | geometryCollection =>
      obtain ⟨ns, hns⟩ := WriteOKL.written hcs
      exact ⟨_, ns, fm, hns, hfm, rfl⟩
    | featureCollection =>
      obtain ⟨ns, hns⟩ := WriteOKL.written hcs
      exact ⟨_, ns, fm, hns, hfm, rfl⟩
  | .feature b ex, ⟨hb, hm⟩ => by
    obtain ⟨vb, hvb⟩ := WriteOK.written hb
    obtain ⟨fm, hfm⟩ := hm.membersV true
    exact ⟨_, vb, fm, hvb, hfm, rfl⟩
  | .circle c r, ⟨hc, hr⟩ => by
    obtain ⟨cn, hcn⟩ := posV_exists (ex := none) (npos := 1) (idx := 0) hc trivial trivial (by omega)
    obtain ⟨rn, hrn⟩ := hr.numV
    exact ⟨_, cn, rn, hcn, hrn, rfl⟩
theorem WriteOKL.written : ∀ {cs}, WriteOKL cs → ∃ ns, WrittenL cs ns
  | [], _ => ⟨[], rfl⟩
  | c :: cs, ⟨hc, hcs⟩ => by
    obtain ⟨n, hn⟩ := WriteOK.written hc
    obtain ⟨ns, hns⟩ := WriteOKL.written hcs
    exact ⟨n :: ns, n, ns, rfl, hn, hns⟩
end

theorem Written.isObj : ∀ {x v}, Written x v → ∃ ty key c fm, v = mkObj ty key c fm
  | .point _ _, _, ⟨_, _, _, _, h⟩ => ⟨_, _, _, _, h⟩
  | .spoint _, _, ⟨_, _, h⟩ => ⟨_, _, _, _, h⟩
  | .lineString _ _ _, _, ⟨_, _, _, _, h⟩ => ⟨_, _, _, _, h⟩
  | .polygon _ _ _, _, ⟨_, _, _, _, h⟩ => ⟨_, _, _, _, h⟩
  | .rectO _ _ _, _, ⟨_, _, h⟩ => ⟨_, _, _, _, h⟩
  | .coll _ _ _ _, _, ⟨_, _, _, _, h⟩ => ⟨_, _, _, _, h⟩
  | .feature _ _, _, ⟨_, _, _, _, h⟩ => ⟨_, _, _, _, h⟩
  | .circle _ _, _, ⟨_, _, _, _, h⟩ => ⟨_, _, _, _, h⟩

/-- the rendering of a token-well-formed object AST with at least one member is an object
    production -/
theorem render_obj_isObject1 {ms : List Member} (hne : ms ≠ []) (h : TokOKM ms) :
    IsJSONObject1 (JVal.obj ms).render.toList :=
  ⟨(JVal.renderMembers ms).toList, by simp [JVal.render], renderMembers_json ms hne h⟩

end Geo
