/-
  GeoProofs.Contains.PolyLine — Polygon ⊇ LineString is exact in general position.
-/
import GeoProofs.Contains.Covers

namespace Geo
open GL Jordan Contains

/-- the un-indexed `Geom` of a specification shape -/
def build : Spec.Shape → Geom
  | .point p => .point p
  | .rect lo hi => .rect ⟨lo, hi⟩
  | .line pts => .line (mkSeries pts.toArray false .none 0)
  | .poly ext holes => .poly ⟨some (.ser (mkSeries ext.toArray true .none 0)),
      holes.map (fun h => .ser (mkSeries h.toArray true .none 0))⟩

/-- bounding rectangle computed by the code for a vertex list -/
def rectOf (pts : List Pt) (closed : Bool) : Box := (processPoints pts.toArray closed).rect

/-- treatment of the ≥ 16-point rectangle shortcut (finding D19): either the argument has fewer
    than 16 points, or the ring's edges also avoid the four sides of its bounding rectangle -/
def RectClear (ring : List Pt) (pts : List Pt) (closed : Bool) : Prop :=
  16 ≤ pts.length → NoContact (Spec.edges ring true)
    (Spec.edges (Spec.rectPts (rectOf pts closed).min (rectOf pts closed).max) true)

namespace Contains

theorem covers_poly_line_eq (ext : List Pt) (holes : List (List Pt)) (l : List Pt) :
    Spec.covers (.poly ext holes) (.line l) =
      (decide (ext.length ≥ 3) && decide (l.length ≥ 2) &&
        ((Spec.edges l false).all (fun e => Spec.segInside (Spec.Shape.poly ext holes).member
          (Spec.Shape.poly ext holes).edges e.1 e.2) && true)) := rfl

/-- membership in a polygon is the same at all vertices of a non-empty series none of whose edges
    meets an edge of the polygon -/
theorem poly_member_chain (ext : List Pt) (holes : List (List Pt)) (opts : Array Pt) (closed : Bool)
    (hne : ((closed && opts.size < 3) || opts.size < 2) = false)
    (hgp : NoContact (Spec.Shape.poly ext holes).edges (Spec.edges opts.toList closed)) :
    ∀ i, i < opts.size →
      (Spec.Shape.poly ext holes).member opts[i]! = (Spec.Shape.poly ext holes).member opts[0]! := by
  intro i hi
  have h2 := (numSegmentsOf_ge opts closed hne).2
  rw [poly_member_eq, poly_member_eq]
  have hE : NoContact (Spec.edges ext true) (Spec.edges opts.toList closed) :=
    fun e he => hgp e ((poly_edges_mem ext holes e).2 (Or.inl he))
  rw [(chain_const ext opts closed hne hE i hi).2]
  congr 1
  apply all_congr_mem
  intro g hg
  have hG : NoContact (Spec.edges g true) (Spec.edges opts.toList closed) :=
    fun e he => hgp e ((poly_edges_mem ext holes e).2 (Or.inr ⟨g, hg, he⟩))
  have c1 := chain_const g opts closed hne hG i hi
  have c0 := chain_const g opts closed hne hG 0 (by omega)
  rw [← inRing_eq_strictIn_of_off c1.1, ← inRing_eq_strictIn_of_off c0.1, c1.2]

/-- the edge loop of `covers`: all edges of a non-empty series lie in the polygon iff its first
    vertex does -/
theorem edges_all_segInside (ext : List Pt) (holes : List (List Pt)) (opts : Array Pt) (closed : Bool)
    (hne : ((closed && opts.size < 3) || opts.size < 2) = false)
    (hgp : NoContact (Spec.Shape.poly ext holes).edges (Spec.edges opts.toList closed)) :
    (Spec.edges opts.toList closed).all (fun e => Spec.segInside (Spec.Shape.poly ext holes).member
        (Spec.Shape.poly ext holes).edges e.1 e.2) = (Spec.Shape.poly ext holes).member opts[0]! := by
  obtain ⟨hns, h2⟩ := numSegmentsOf_ge opts closed hne
  have hle := numSegmentsOf_le opts closed
  have hpos : 0 < numSegmentsOf opts closed :=
    Nat.lt_of_lt_of_le (by omega : 0 < opts.size - 1) hns
  have h1 : (Spec.edges opts.toList closed).all (fun e => Spec.segInside
        (Spec.Shape.poly ext holes).member (Spec.Shape.poly ext holes).edges e.1 e.2) =
      (Spec.edges opts.toList closed).all (fun e => (Spec.Shape.poly ext holes).member e.1) := by
    apply all_congr_mem
    intro e he
    exact poly_segInside ext holes e.1 e.2 (fun f hf => hgp f hf e he)
  rw [h1, edges_eq_map, List.all_map]
  have h3 : ∀ i, i < numSegmentsOf opts closed →
      ((fun e : Pt × Pt => (Spec.Shape.poly ext holes).member e.1) ∘
        (fun i => ((segmentAtOf opts i).a, (segmentAtOf opts i).b))) i =
      (Spec.Shape.poly ext holes).member opts[0]! := by
    intro i hi
    exact poly_member_chain ext holes opts closed hne hgp i (Nat.lt_of_lt_of_le hi hle)
  exact all_range_const _ _ _ hpos h3

end Contains

/-- **Polygon ⊇ LineString, general position**: exact for EVERY polygon value (the rings need
    not be simple, the holes need not lie inside the exterior), every line string. -/
theorem poly_contains_line_of_no_contact (ext : List Pt) (holes : List (List Pt)) (l : List Pt)
    (hgp : NoContact (Spec.Shape.poly ext holes).edges (Spec.Shape.line l).edges)
    (hsmall : RectClear ext l false) :
    (build (.poly ext holes)).contains (build (.line l)) =
      Spec.covers (.poly ext holes) (.line l) := by
  rw [covers_poly_line_eq]
  show Poly.containsLine ⟨some (ringOf ext.toArray), holes.map (fun h => ringOf h.toArray)⟩
    (mkSeries l.toArray false .none 0) = _
  unfold Poly.containsLine
  simp only
  have hE : NoContact (Spec.edges ext true) (Spec.edges l false) :=
    fun e he => hgp e ((poly_edges_mem ext holes e).2 (Or.inl he))
  have hc : ringContainsLine (ringOf ext.toArray) (mkSeries l.toArray false .none 0) true =
      (!(mkSeries l.toArray false .none 0).empty &&
        Spec.inRing (Spec.edges ext true) l.toArray[0]!) :=
    ringContainsRing_of_avoids_rect ext.toArray (mkSeries l.toArray false .none 0) true rfl hE
      (fun h16 => hsmall (by simpa [Series.numPoints, mkSeries] using h16))
  rw [hc, List.any_map]
  have hh : holes.any ((fun h => ringIntersectsLine h (mkSeries l.toArray false .none 0) false) ∘
        (fun h => ringOf h.toArray)) =
      holes.any (fun h => !(mkSeries l.toArray false .none 0).empty &&
        Spec.strictIn (Spec.edges h true) l.toArray[0]!) := by
    apply any_congr_mem
    intro g hg
    exact ringIntersectsLine_strict_of_avoids g.toArray (mkSeries l.toArray false .none 0) false rfl
      (fun e he => hgp e ((poly_edges_mem ext holes e).2 (Or.inr ⟨g, hg, he⟩)))
  rw [hh]
  have hem : (mkSeries l.toArray false .none 0).empty = decide (l.length < 2) := by
    show ((false && decide (l.toArray.size < 3)) || decide (l.toArray.size < 2)) = _
    simp
  rw [hem]
  by_cases h2 : l.length < 2
  · have : decide (l.length ≥ 2) = false := by simp; omega
    simp [h2, this]
  · have hne : ((false && decide (l.toArray.size < 3)) || decide (l.toArray.size < 2)) = false := by
      simpa using h2
    have hall := edges_all_segInside ext holes l.toArray false hne hgp
    rw [show l.toArray.toList = l from rfl] at hall
    rw [hall, poly_member_eq]
    have h2' : decide (l.length < 2) = false := by simpa using h2
    have h2'' : decide (l.length ≥ 2) = true := by simp; omega
    rw [h2', h2'']
    simp only [Bool.not_false, Bool.true_and, Bool.and_true]
    rw [not_any_eq_all_not holes _ (fun h => Spec.strictIn (Spec.edges h true) l.toArray[0]!)
      (fun _ _ => rfl)]
    by_cases h3 : ext.length < 3
    · rw [edges_nil_of_short ext h3]
      simp [inRing_nil]
    · have : decide (ext.length ≥ 3) = true := by simp; omega
      rw [this]
      cases Spec.inRing (Spec.edges ext true) l.toArray[0]! <;> simp

end Geo
