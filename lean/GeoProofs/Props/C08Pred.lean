/-
  Property C08, last clause: the index options (`indexKind`, `indexGeometry`, `indexChildren`)
  change NO PREDICATE ANSWER — object level and `Parse` level.

  RESULT.
  * `obsEq_sim`: objects equal up to index bytes (`ObsEq`, C08) whose series all search exactly
    (`Obj.SearchOK`) are similar objects (`Obj.Sim`: leaves related by `Line.Sim` / `Poly.Sim`,
    collections child-wise, the child-index flag free).
  * `obsEq_intersects` (ALL objects, no side condition), `obsEq_contains` / `obsEq_within`
    (under `Obj.ExtSafe` of the container and `Obj.HolesSafe` of the contained object: the
    side conditions of `Geom.Sim.contains` on every polygon leaf; they cannot be dropped:
    `parse_index_opts_contains_counterexample` (exterior of the receiver) and
    `parse_index_opts_contains_holes_counterexample` (hole of the argument), instances of
    finding D20 at Parse level), the eight Spatial methods (`obsEq_spatial`).
  * `dyadic_searchOK`: `SearchOK` holds for objects built by `mkSeries` (ANY index kind and
    threshold) from binary64 coordinates within the 32-bit size bounds of the byte formats.
  * `parse_index_opts_intersects`, `parse_index_opts_contains`: the `Parse`-level corollaries.
  Proofs: GeoProofs/OptPred/*.lean.
-/
import GeoProofs.OptPred.Examples
import GeoProofs.OptPred.Counterexample
import GeoProofs.OptPred.CounterexampleHoles

namespace Geo

/-! ### object level -/

/-- **target 1** -/
theorem obsEq_sim {x x' : Obj} (h : ObsEq x x') (hx : x.SearchOK) (hx' : x'.SearchOK) : Obj.Sim x x' :=
  h.sim hx hx'

/-- **`intersects` of objects equal up to index bytes**: all object kinds, no side condition -/
theorem obsEq_intersects {a a' b b' : Obj} (ha : ObsEq a a') (hb : ObsEq b b')
    (sa : a.SearchOK) (sa' : a'.SearchOK) (sb : b.SearchOK) (sb' : b'.SearchOK) :
    a.intersects b = a'.intersects b' :=
  (ha.sim sa sa').intersects (hb.sim sb sb')

/-- **`contains`**: polygon exteriors of `a` and polygon holes of `b` index safe (convex, or edges
    meeting only at shared vertices) -/
theorem obsEq_contains {a a' b b' : Obj} (ha : ObsEq a a') (hb : ObsEq b b')
    (sa : a.SearchOK) (sa' : a'.SearchOK) (sb : b.SearchOK) (sb' : b'.SearchOK)
    (hsa : a.ExtSafe) (hsb : b.HolesSafe) :
    a.contains b = a'.contains b' :=
  (ha.sim sa sa').contains hsa (hb.sim sb sb') hsb

/-- **`within`** (`a.within b = b.contains a`) -/
theorem obsEq_within {a a' b b' : Obj} (ha : ObsEq a a') (hb : ObsEq b b')
    (sa : a.SearchOK) (sa' : a'.SearchOK) (sb : b.SearchOK) (sb' : b'.SearchOK)
    (hsa : a.HolesSafe) (hsb : b.ExtSafe) :
    a.within b = a'.within b' :=
  (ha.sim sa sa').within (hb.sim sb sb') hsa hsb

/-- in particular under `RingsSafe` of both -/
theorem obsEq_contains_ringsSafe {a a' b b' : Obj} (ha : ObsEq a a') (hb : ObsEq b b')
    (sa : a.SearchOK) (sa' : a'.SearchOK) (sb : b.SearchOK) (sb' : b'.SearchOK)
    (hsa : a.RingsSafe) (hsb : b.RingsSafe) :
    a.contains b = a'.contains b' ∧ a.within b = a'.within b' :=
  ⟨obsEq_contains ha hb sa sa' sb sb' hsa.1 hsb.2, obsEq_within ha hb sa sa' sb sb' hsa.2 hsb.1⟩

/-- the eight Spatial methods against fixed geometries (only `withinPoly` has side conditions) -/
theorem obsEq_spatial {x x' : Obj} (h : ObsEq x x') (sx : x.SearchOK) (sx' : x'.SearchOK) :
    (∀ q, x.intersectsPoint q = x'.intersectsPoint q) ∧
    (∀ r, x.intersectsRect r = x'.intersectsRect r) ∧
    (∀ l l', Line.Sim l l' → x.intersectsLine l = x'.intersectsLine l') ∧
    (∀ p p', Poly.Sim p p' → x.intersectsPoly p = x'.intersectsPoly p') ∧
    (∀ q, x.withinPoint q = x'.withinPoint q) ∧
    (∀ r, x.withinRect r = x'.withinRect r) ∧
    (∀ l l', Line.Sim l l' → x.withinLine l = x'.withinLine l') ∧
    (∀ p p', Poly.Sim p p' → p.ExtSafe → x.HolesSafe → x.withinPoly p = x'.withinPoly p') :=
  have s := h.sim sx sx'
  ⟨s.intersectsPoint, s.intersectsRect, fun _ _ hl => s.intersectsLine hl,
    fun _ _ hp => s.intersectsPoly hp, s.withinPoint, s.withinRect, fun _ _ hl => s.withinLine hl,
    fun _ _ hp he hx => s.withinPoly hx hp he⟩

/-- **target 3**: every index kind, every threshold -/
theorem dyadic_searchOK {x : Obj} (h : x.Dyadic) : x.SearchOK := h.searchOK

/-- on objects built by `mkSeries` from binary64 coordinates: no hypothesis on the searches left -/
theorem obsEq_intersects_dyadic {a a' b b' : Obj} (ha : ObsEq a a') (hb : ObsEq b b')
    (da : a.Dyadic) (da' : a'.Built) (db : b.Dyadic) (db' : b'.Built) :
    a.intersects b = a'.intersects b' :=
  obsEq_intersects ha hb da.searchOK (Obj.Dyadic.searchOK ⟨da', ha.dyadicSized da.2⟩)
    db.searchOK (Obj.Dyadic.searchOK ⟨db', hb.dyadicSized db.2⟩)

theorem obsEq_contains_dyadic {a a' b b' : Obj} (ha : ObsEq a a') (hb : ObsEq b b')
    (da : a.Dyadic) (da' : a'.Built) (db : b.Dyadic) (db' : b'.Built)
    (hsa : a.ExtSafe) (hsb : b.HolesSafe) :
    a.contains b = a'.contains b' :=
  obsEq_contains ha hb da.searchOK (Obj.Dyadic.searchOK ⟨da', ha.dyadicSized da.2⟩)
    db.searchOK (Obj.Dyadic.searchOK ⟨db', hb.dyadicSized db.2⟩) hsa hsb

end Geo

namespace Geo

/-! ### `Parse` level -/

/-- the other option set accepts the same document, with an object equal up to index bytes,
    built by `mkSeries` -/
theorem parseTop_index_opts {o o' : POpts} (h : SameButIndex o o') {d : JVal} {a : Obj}
    (ha : parseTop o d = .ok a) : ∃ a', parseTop o' d = .ok a' ∧ ObsEq a a' ∧ a.Built ∧ a'.Built := by
  obtain ⟨a', ha'⟩ := (index_opts_accept_same o o' h (d.depth + 1) d).1 ⟨a, ha⟩
  exact ⟨a', ha', index_opts_obsEq o o' h _ d a a' ha ha', parse_built ha, parse_built ha'⟩

/-- **target 4, intersects**: two documents, each parsed under two option sets that differ only
    in the index options (kind, geometry threshold, children threshold — independently for the
    two documents): the second pair of parses succeeds too, and on binary64 coordinates within
    the size bounds the `intersects` answers agree. -/
theorem parse_index_opts_intersects {o₁ o₂ o₁' o₂' : POpts} (h : SameButIndex o₁ o₂)
    (h' : SameButIndex o₁' o₂') {d e : JVal} {a b : Obj}
    (ha : parseTop o₁ d = .ok a) (hb : parseTop o₁' e = .ok b) :
    ∃ a' b', parseTop o₂ d = .ok a' ∧ parseTop o₂' e = .ok b' ∧ ObsEq a a' ∧ ObsEq b b' ∧
      (a.DyadicSized → b.DyadicSized → a.intersects b = a'.intersects b') := by
  obtain ⟨a', ha', ea, ba, ba'⟩ := parseTop_index_opts h ha
  obtain ⟨b', hb', eb, bb, bb'⟩ := parseTop_index_opts h' hb
  exact ⟨a', b', ha', hb', ea, eb, fun da db => obsEq_intersects_dyadic ea eb ⟨ba, da⟩ ba' ⟨bb, db⟩ bb'⟩

/-- **target 4, contains / within** under the ring side conditions -/
theorem parse_index_opts_contains {o₁ o₂ o₁' o₂' : POpts} (h : SameButIndex o₁ o₂)
    (h' : SameButIndex o₁' o₂') {d e : JVal} {a b : Obj}
    (ha : parseTop o₁ d = .ok a) (hb : parseTop o₁' e = .ok b) :
    ∃ a' b', parseTop o₂ d = .ok a' ∧ parseTop o₂' e = .ok b' ∧ ObsEq a a' ∧ ObsEq b b' ∧
      (a.DyadicSized → b.DyadicSized → a.ExtSafe → b.HolesSafe →
        a.contains b = a'.contains b' ∧ b.within a = b'.within a') := by
  obtain ⟨a', ha', ea, ba, ba'⟩ := parseTop_index_opts h ha
  obtain ⟨b', hb', eb, bb, bb'⟩ := parseTop_index_opts h' hb
  refine ⟨a', b', ha', hb', ea, eb, fun da db sa sb => ?_⟩
  have := obsEq_contains_dyadic ea eb ⟨ba, da⟩ ba' ⟨bb, db⟩ bb' sa sb
  exact ⟨this, this⟩

/-- the functional form: whatever the two other parses return -/
theorem parse_index_opts_intersects' {o₁ o₂ o₁' o₂' : POpts} (h : SameButIndex o₁ o₂)
    (h' : SameButIndex o₁' o₂') {d e : JVal} {a a' b b' : Obj}
    (ha : parseTop o₁ d = .ok a) (hb : parseTop o₁' e = .ok b)
    (ha' : parseTop o₂ d = .ok a') (hb' : parseTop o₂' e = .ok b')
    (da : a.DyadicSized) (db : b.DyadicSized) : a.intersects b = a'.intersects b' := by
  obtain ⟨a'', b'', ha'', hb'', _, _, hi⟩ := parse_index_opts_intersects h h' ha hb
  rw [ha'] at ha''; rw [hb'] at hb''
  cases ha''; cases hb''
  exact hi da db

theorem parse_index_opts_contains' {o₁ o₂ o₁' o₂' : POpts} (h : SameButIndex o₁ o₂)
    (h' : SameButIndex o₁' o₂') {d e : JVal} {a a' b b' : Obj}
    (ha : parseTop o₁ d = .ok a) (hb : parseTop o₁' e = .ok b)
    (ha' : parseTop o₂ d = .ok a') (hb' : parseTop o₂' e = .ok b')
    (da : a.DyadicSized) (db : b.DyadicSized) (sa : a.ExtSafe) (sb : b.HolesSafe) :
    a.contains b = a'.contains b' := by
  obtain ⟨a'', b'', ha'', hb'', _, _, hi⟩ := parse_index_opts_contains h h' ha hb
  rw [ha'] at ha''; rw [hb'] at hb''
  cases ha''; cases hb''
  exact (hi da db sa sb).1

end Geo

namespace Geo

/-! ### the ring side condition cannot be dropped -/

/-- **FALSE without `ExtSafe`** (kernel-checked): the same document under two index option sets,
    every other hypothesis of `parse_index_opts_contains'` holding, different `contains` answers
    (polygon `docPoly17`, line `[[32,0],[64,48]]`: `false` with `IndexGeometryKind=None`, `true`
    with `IndexGeometryKind=RTree, IndexGeometry=1`) -/
theorem parse_index_opts_contains_counterexample :
    ∃ (o₁ o₂ o' : POpts) (d e : JVal) (a a' b : Obj), SameButIndex o₁ o₂ ∧
      parseTop o₁ d = .ok a ∧ parseTop o₂ d = .ok a' ∧ parseTop o' e = .ok b ∧
      a.DyadicSized ∧ b.DyadicSized ∧ b.HolesSafe ∧ a.contains b ≠ a'.contains b := by
  obtain ⟨a, a', b, pa, pa', pb, h, _, da, db, _, _, _, c1, c2, _, _⟩ := parse_contains_rtree_vs_none
  refine ⟨_, _, _, _, _, a, a', b, h, pa, pa', pb, da, db, ?_, by rw [c1, c2]; decide⟩
  rw [parse_docLine17 optsNone rfl] at pb
  cases pb
  trivial

/-- **FALSE without `HolesSafe`** (kernel-checked): the ARGUMENT document under two index option
    sets (`docHoleB`: a square with the pinched hole `ring17`; `None` vs `RTree, IndexGeometry=6`),
    the receiver `docHoleA` (a square with the triangular hole `[[32,0],[64,48],[60,10],[32,0]]`)
    fixed and `ExtSafe`: `false` resp. `true` -/
theorem parse_index_opts_contains_holes_counterexample :
    ∃ (o o₁ o₂ : POpts) (d e : JVal) (a b b' : Obj), SameButIndex o₁ o₂ ∧
      parseTop o d = .ok a ∧ parseTop o₁ e = .ok b ∧ parseTop o₂ e = .ok b' ∧
      a.ExtSafe ∧ a.contains b ≠ a.contains b' := by
  obtain ⟨a, b, b', pa, pb, pb', h, _, sa, c1, c2, _, _⟩ := parse_contains_holes_rtree_vs_none
  exact ⟨_, _, _, _, _, a, b, b', h, pa, pb, pb', sa, by rw [c1, c2]; decide⟩

/-! ### non-vacuity: a 20-vertex polygon and a line under none / R-tree / quadtree -/

section examples
private def oN : POpts := { indexKind := .none }
private def oR : POpts := { indexKind := .rtree, indexGeometry := 4, indexChildren := 1 }
private def oQ : POpts := { indexKind := .quadtree, indexGeometry := 4 }

/-- all hypotheses of `parse_index_opts_intersects'` / `…contains'` hold; the three polygons
    (no index; a real R-tree; a real quadtree — `poly20_indexed`) answer alike -/
example :
    ∃ aN aR aQ b, parseTop oN docPoly20 = .ok aN ∧ parseTop oR docPoly20 = .ok aR ∧
      parseTop oQ docPoly20 = .ok aQ ∧ parseTop oN docLine2 = .ok b ∧
      aN.intersects b = aR.intersects b ∧ aN.intersects b = aQ.intersects b ∧
      aN.contains b = aR.contains b ∧ aN.contains b = aQ.contains b ∧
      b.intersects aN = b.intersects aQ ∧ b.within aN = b.within aR := by
  have pN := parse_docPoly20 oN rfl rfl
  have pR := parse_docPoly20 oR rfl rfl
  have pQ := parse_docPoly20 oQ rfl rfl
  have pb := parse_docLine2 oN rfl
  have hR : SameButIndex oN oR := ⟨rfl, rfl, rfl, rfl⟩
  have hQ : SameButIndex oN oQ := ⟨rfl, rfl, rfl, rfl⟩
  have h0 : SameButIndex oN oN := ⟨rfl, rfl, rfl, rfl⟩
  have dN := poly20_dyadicSized oN
  have db := line2_dyadicSized oN
  refine ⟨_, _, _, _, pN, pR, pQ, pb,
    parse_index_opts_intersects' hR h0 pN pb pR pb dN db,
    parse_index_opts_intersects' hQ h0 pN pb pQ pb dN db,
    parse_index_opts_contains' hR h0 pN pb pR pb dN db (poly20_ringsSafe oN).1 (line2_ringsSafe oN).2,
    parse_index_opts_contains' hQ h0 pN pb pQ pb dN db (poly20_ringsSafe oN).1 (line2_ringsSafe oN).2,
    parse_index_opts_intersects' h0 hQ pb pN pb pQ db dN,
    parse_index_opts_contains' hR h0 pN pb pR pb dN db (poly20_ringsSafe oN).1 (line2_ringsSafe oN).2⟩

/-- and the common answers are `true` -/
example : (Obj.polygon (mkPoly oN [ring20]) [ring20] none).contains
    (.lineString (mkLine oN line2) line2 none) = true := by
  simp only [Obj.contains, Obj.withinPoly]; decide +kernel
example : (Obj.polygon (mkPoly oN [ring20]) [ring20] none).intersects
    (.lineString (mkLine oN line2) line2 none) = true := by
  simp only [Obj.intersects, Obj.intersectsPoly]; decide +kernel

/-- a collection of both, with and without child index, against the polygon -/
example (i i' : Bool) (o o' o'' : POpts) :
    (Obj.coll .geometryCollection [.polygon (mkPoly o [ring20]) [ring20] none,
        .lineString (mkLine o line2) line2 none] none i).intersects
      (.polygon (mkPoly o'' [ring20]) [ring20] none) =
    (Obj.coll .geometryCollection [.polygon (mkPoly o' [ring20]) [ring20] none,
        .lineString (mkLine o' line2) line2 none] none i').intersects
      (.polygon (mkPoly o'' [ring20]) [ring20] none) := by
  have b1 : ∀ o : POpts, (Obj.polygon (mkPoly o [ring20]) [ring20] none).Dyadic := fun o =>
    ⟨mkPoly_allSer (P := Series.Built) (fun _ _ => ⟨_, _, rfl⟩) _, poly20_dyadicSized o⟩
  have b2 : ∀ o : POpts, (Obj.lineString (mkLine o line2) line2 none).Dyadic := fun o =>
    ⟨⟨_, _, rfl⟩, line2_dyadicSized o⟩
  refine obsEq_intersects (.coll _ _ _ _ _ _ (.cons _ _ _ _ (.polygon _ _ _ _ (mkPoly_obsEq o o' _))
    (.cons _ _ _ _ (.lineString _ _ _ _ (mkSeries_eqUpToIndex _ _ _ _ _ _)) .nil))) (obsEq_refl _)
    ?_ ?_ (b1 o'').searchOK (b1 o'').searchOK
  · exact ⟨(b1 o).searchOK, (b2 o).searchOK, trivial⟩
  · exact ⟨(b1 o').searchOK, (b2 o').searchOK, trivial⟩
end examples

end Geo

#print axioms Geo.obsEq_sim
#print axioms Geo.obsEq_intersects
#print axioms Geo.obsEq_contains
#print axioms Geo.obsEq_within
#print axioms Geo.obsEq_contains_ringsSafe
#print axioms Geo.obsEq_spatial
#print axioms Geo.dyadic_searchOK
#print axioms Geo.obsEq_intersects_dyadic
#print axioms Geo.obsEq_contains_dyadic
#print axioms Geo.parse_built
#print axioms Geo.parseTop_index_opts
#print axioms Geo.parse_index_opts_intersects
#print axioms Geo.parse_index_opts_contains
#print axioms Geo.parse_index_opts_intersects'
#print axioms Geo.parse_index_opts_contains'
#print axioms Geo.parse_contains_rtree_vs_none
#print axioms Geo.parse_index_opts_contains_counterexample
#print axioms Geo.parse_contains_holes_rtree_vs_none
#print axioms Geo.parse_index_opts_contains_holes_counterexample
