/-
  GeoProofs.CoversSpec.Vertex — vertices of a simple chain are distinct; edges through a vertex; straight corners
-/
import GeoProofs.CoversSpec.Sides
import Mathlib.Tactic.Linarith
import Mathlib.Tactic.Ring
import Mathlib.Tactic.FieldSimp
import Mathlib.Tactic.LinearCombination
import Mathlib.Tactic.Positivity

namespace Geo
namespace CS
open Jordan Cvx

variable {es : List (Pt × Pt)} {P : Nat → Pt} {n : Nat}

/-- the vertices of a simple closed chain are pairwise different -/
theorem vert_inj (h : Simple0 P n) {j k : Nat} (hjk : j < k) (hk : k < n) : P j ≠ P k := by
  intro he
  have ne_succ : ∀ i, P i ≠ P (i+1) := fun i h' =>
    h.adj2 i (by rw [h']; exact K.onSeg_left _ _)
  by_cases h1 : k = j + 1
  · subst h1; exact ne_succ j he
  by_cases h2 : k = j + 2
  · subst h2
    exact h.adj1 j (by rw [← he]; exact K.onSeg_left _ _)
  · have := h.far j (k - 1 - j) (by omega) (by omega)
    apply this
    refine ⟨P j, K.onSeg_left _ _, ?_⟩
    rw [show j + (k - 1 - j) + 1 = k from by omega, he]
    exact K.onSeg_right _ _

theorem vert_inj' (h : Simple0 P n) {j k : Nat} (hj : j < n) (hk : k < n) (he : P j = P k) :
    j = k := by
  by_contra hne
  rcases Nat.lt_or_gt_of_ne hne with g | g
  · exact vert_inj h g hk he
  · exact vert_inj h g hj he.symm

/-- the edges through the vertex `P (i+1)` are the two edges ending / starting there -/
theorem RingD.at_vertex (R : RingD es P n) (i : Nat) {e : Pt × Pt} (he : e ∈ es)
    (hv : OnSeg e.1 e.2 (P (i+1))) : e = (P i, P (i+1)) ∨ e = (P (i+1), P (i+2)) := by
  obtain ⟨j, hj, rfl⟩ := (R.mem_iff e).1 he
  have hn := R.npos
  have per := R.simple.per
  set m := (i + 1) % n with hm
  have hmn : m < n := Nat.mod_lt _ hn
  have pm : P (i+1) = P m := pmod per (i+1)
  have pm1 : P (i+2) = P (m+1) := pmod_add per (i+1) 1
  by_cases hjm : j = m
  · right; rw [hjm, pm, pm1]
  · left
    have hon : OnSeg (P m) (P (m+1)) (P (i+1)) := by rw [pm]; exact K.onSeg_left _ _
    have := (CC.simple0_meet R.simple hj hmn hjm hv hon).1
    rcases this with g | g
    · exfalso
      rw [pm] at g
      exact hjm (vert_inj' R.simple hmn hj g).symm
    · -- P (i+1) = P (j+1): then j ≡ i
      have g' : P m = P ((j + 1) % n) := by rw [← pm, g]; exact pmod per (j+1)
      have e1 := vert_inj' R.simple hmn (Nat.mod_lt _ hn) g'
      have hji : j = i % n := by
        have h1 : (j + 1) % n = (i + 1) % n := e1.symm
        have h2 : (j + 1) % n = (i % n + 1) % n := by rw [h1, Nat.add_mod i 1 n]; simp
        by_cases hc : j + 1 < n
        · rw [Nat.mod_eq_of_lt hc] at h2
          by_cases hd : i % n + 1 < n
          · rw [Nat.mod_eq_of_lt hd] at h2; omega
          · have : i % n + 1 = n := by have := Nat.mod_lt i hn; omega
            rw [this, Nat.mod_self] at h2; omega
        · have hj1 : j + 1 = n := by omega
          rw [hj1, Nat.mod_self] at h2
          by_cases hd : i % n + 1 < n
          · rw [Nat.mod_eq_of_lt hd] at h2; omega
          · have := Nat.mod_lt i hn; omega
      rw [hji]
      exact (R.edge_eq_mod i).symm

/-- a point of the line `ab` whose projection parameter is in `[0,1]` is on the segment -/
theorem onSeg_of_collinear_dot {a b x : Pt} (hab : a ≠ b) (hc : Spec.cross a b x = 0)
    (h0 : 0 ≤ (x.x - a.x) * (b.x - a.x) + (x.y - a.y) * (b.y - a.y))
    (h1 : (x.x - a.x) * (b.x - a.x) + (x.y - a.y) * (b.y - a.y) ≤ len2 a b) : OnSeg a b x := by
  have D := len2_pos hab
  have hD : len2 a b ≠ 0 := D.ne'
  rw [K.cross_def] at hc
  refine K.onSeg_of_param (t := ((x.x - a.x) * (b.x - a.x) + (x.y - a.y) * (b.y - a.y)) / len2 a b)
    (div_nonneg h0 D.le) ((div_le_one D).2 h1) ?_ ?_
  · rw [div_mul_eq_mul_div, eq_comm, ← eq_sub_iff_add_eq', div_eq_iff hD]
    unfold len2; linear_combination (b.y - a.y) * hc
  · rw [div_mul_eq_mul_div, eq_comm, ← eq_sub_iff_add_eq', div_eq_iff hD]
    unfold len2; linear_combination -(b.x - a.x) * hc

/-- collinear `a v c` with `c ∉ [a,v]` and `a ∉ [v,c]`: the chain goes straight on at `v` -/
theorem dot_pos_of_straight {a v c : Pt} (h0 : Spec.cross a v c = 0)
    (h1 : ¬ OnSeg a v c) (h2 : ¬ OnSeg v c a) :
    0 < (v.x - a.x) * (c.x - v.x) + (v.y - a.y) * (c.y - v.y) := by
  by_contra hc
  rw [not_lt] at hc
  have hav : a ≠ v := by rintro rfl; exact h2 (K.onSeg_left _ _)
  have hvc : v ≠ c := by rintro rfl; exact h1 (K.onSeg_right _ _)
  have D1 := len2_pos hav
  have D2 := len2_pos hvc
  have h0' : Spec.cross v c a = 0 := by rw [K.cross_def] at h0 ⊢; linarith
  rw [K.cross_def] at h0
  unfold len2 at D1 D2
  by_cases g1 : 0 ≤ ((v.x - a.x) * (v.x - a.x) + (v.y - a.y) * (v.y - a.y)) +
      ((v.x - a.x) * (c.x - v.x) + (v.y - a.y) * (c.y - v.y))
  · apply h1
    apply onSeg_of_collinear_dot hav (by rw [K.cross_def]; exact h0)
    · nlinarith
    · unfold len2; nlinarith
  · apply h2
    rw [not_le] at g1
    apply onSeg_of_collinear_dot hvc h0'
    · nlinarith
    · unfold len2
      by_contra hlt
      rw [not_le] at hlt
      nlinarith [mul_self_nonneg ((v.x - a.x) * (c.y - v.y) - (v.y - a.y) * (c.x - v.x)),
        mul_pos (by linarith : 0 < -((v.x - a.x) * (c.x - v.x) + (v.y - a.y) * (c.y - v.y)) -
          ((v.x - a.x) * (v.x - a.x) + (v.y - a.y) * (v.y - a.y)))
          (by linarith : 0 < -((v.x - a.x) * (c.x - v.x) + (v.y - a.y) * (c.y - v.y)) -
          ((c.x - v.x) * (c.x - v.x) + (c.y - v.y) * (c.y - v.y)))]

end CS
end Geo
