/-
  GeoModel.GeoDriver — evaluation of the generated spherical-geometry definitions
  (`Geo.Gen.*`, translated from geo/geo.go and circle.go) at `α := Float`, for the numerical
  comparison against the Go code.  Core Lean only.

  `geoEval fn args` dispatches on the Go name.  Booleans are returned as 1.0 / 0.0; the `int32`
  of `DegsToSemi` / `SemiToDegs` travels as a float holding the integer value.  Unknown name or
  wrong number of arguments: `none`.

    Haversine latA lonA latB lonB            DistanceTo latA lonA latB lonB
    NormalizeDistance m                      DestinationPoint lat lon m bearing   -> [lat, lon]
    DistanceToHaversine m                    BearingTo latA lonA latB lonB
    DistanceFromHaversine h                  RectFromCenter lat lon m  -> [minLat, minLon, maxLat, maxLon]
    DegsToSemi degs                          SemiToDegs semi
    earthRadius | radians | degrees | piR | twoPiR        (no arguments)
    circleContainsPoint haversineThreshold cx cy px py    ((*Circle).containsPoint)
    newCircleHaversine m | newCircleMeters m              (NewCircle: fields of the result)
    circleContainsCircle dist otherMeters meters          ((*Circle).Contains, case *Circle)
    circleIntersectsCircle dist otherMeters meters        ((*Circle).Intersects, case *Circle)
-/
import GeoModel.GeoNum
import GeoModel.Generated.GeoFormulas

namespace Geo

private def boolToFloat (b : Bool) : Float := if b then 1.0 else 0.0

def geoEval (fn : String) (args : List Float) : Option (List Float) :=
  match fn, args with
  | "Haversine", [a, b, c, d] => some [Gen.haversine a b c d]
  | "NormalizeDistance", [m] => some [Gen.normalizeDistance m]
  | "DistanceToHaversine", [m] => some [Gen.distanceToHaversine m]
  | "DistanceFromHaversine", [h] => some [Gen.distanceFromHaversine h]
  | "DistanceTo", [a, b, c, d] => some [Gen.distanceTo a b c d]
  | "DestinationPoint", [lat, lon, m, brg] =>
      let (la, lo) := Gen.destinationPoint lat lon m brg
      some [la, lo]
  | "BearingTo", [a, b, c, d] => some [Gen.bearingTo a b c d]
  | "RectFromCenter", [lat, lon, m] =>
      let (minLat, minLon, maxLat, maxLon) := Gen.rectFromCenter lat lon m
      some [minLat, minLon, maxLat, maxLon]
  | "DegsToSemi", [d] => some [Float.ofInt (Gen.degsToSemi d)]
  | "SemiToDegs", [s] => some [Gen.semiToDegs (α := Float) (floatToInt32 s)]
  | "earthRadius", [] => some [Gen.earthRadius]
  | "radians", [] => some [Gen.radians]
  | "degrees", [] => some [Gen.degrees]
  | "piR", [] => some [Gen.piR]
  | "twoPiR", [] => some [Gen.twoPiR]
  | "circleContainsPoint", [h, cx, cy, px, py] =>
      some [boolToFloat (Gen.circleContainsPoint h cx cy px py)]
  | "newCircleHaversine", [m] => some [Gen.newCircleHaversine m]
  | "newCircleMeters", [m] => some [Gen.newCircleMeters m]
  | "circleContainsCircle", [d, om, m] => some [boolToFloat (Gen.circleContainsCircle d om m)]
  | "circleIntersectsCircle", [d, om, m] => some [boolToFloat (Gen.circleIntersectsCircle d om m)]
  | _, _ => none

end Geo
