/-
  Property C06: Parse → JSON → Parse is a lossless fixpoint, on the AST.

  No text parser is modelled: the text a writer produces is identified with an AST `v` it denotes,
  via `Written x v` (GeoProofs.WriteLemmas) and `render_writeV : Written x v → write x = some v.render`;
  that a JSON decoder inverts `render` on token-well-formed ASTs is the decoder contract
  (`Written x v → v.TokOK` is proved: `written_tokOK`).

  `Written` is a RELATION (not a function `writeV`): `Extra.members`/`Extra.values` are texts, the
  ASTs they denote are chosen existentially; the reparse theorems construct the witness from the
  parsed document (foreign members = `(scanKeys ms).foreign`; number nodes
  `.num true val canon (kf canon) canon`, for ANY interpretation `vf`/`kf` of z/m values and ×1000
  texts — `parse` of a written document does not look at them).

  STATUS (see the report): the full `reparse_ok` is proved here for documents of type Point
  (`reparse_ok_partial`) and LineString (`reparse_ok_partial_lineString`), with plain equality
  `x' = x`; for LineString / Polygon the
  coordinate-level round trips (`lineCoords_roundtrip`, `polyCoords_roundtrip`, incl. the z/m table
  and the Rect re-detection `isRectRing_rectRing`) are proved, the Feature parser is characterised
  (`featureOf_cases`) — the assembly of these into the per-type cases of `reparse_ok` for
  Polygon, Multi*, collections and Feature is NOT finished.
-/
import GeoProofs.ReparseLemmas

namespace Geo

/-- the text is the rendering of that AST -/
theorem render_writeV (x : Obj) (v : JVal) (h : Written x v) : write x = some v.render := h.render.1

/-- and the AST is token-well-formed (so the decoder contract applies to it) -/
theorem written_tokOK (x : Obj) (v : JVal) (h : Written x v) : v.TokOK := h.render.2

/-! ### reparse: Point documents -/

/-- Parse → write → Parse for a document of type Point (`.point` or, under AllowSimplePoints,
    `.spoint`): the written document has the AST `v`; it is accepted again under the same options
    with ANY fuel ≥ 1 (in particular `v.depth + 1`), and the result is EQUAL to `x` (hence same
    kind, byte-identical output). `vf`/`kf`: arbitrary decoder interpretations of z/m values
    and ×1000 texts. -/
theorem reparse_ok_partial (vf : String → Rat) (kf : String → String) (o : POpts) (n : Nat)
    (ms : List Member) (r : String) (x : Obj)
    (hp : parse o (n + 1) (.obj ms) = .ok x) (hty : (scanKeys ms).type = some (.str r "Point"))
    (hfin : AllFin x) (hdoc : (JVal.obj ms).DocOK) :
    ∃ v, Written x v ∧ ∃ x', parse o (v.depth + 1) v = .ok x' ∧ kindEq x x' ∧ write x' = write x ∧
      x' = x := by
  rw [parse_obj_str o n ms r "Point" hty, parseTyped_Point] at hp
  simp only [JVal.DocOK] at hdoc
  have hmem := scanKeys_mem JVal.DocOK ms (fun m hm => (docOKM_iff.mp hdoc m hm).2)
  obtain ⟨v, hw, _, hre⟩ := reparse_point vf kf o n (scanKeys ms) x hp hmem.2.1 hdoc.foreign
    (foreign_nonspecial ms) hfin
  refine ⟨v, hw, x, hre _, ?_, rfl, rfl⟩
  have := kindEq_addProps x
  cases x <;> simp_all [kindEq, addProps]

/-- the same for documents of type LineString (positions, z/m table, foreign members): `x' = x` -/
theorem reparse_ok_partial_lineString (vf : String → Rat) (kf : String → String) (o : POpts) (n : Nat)
    (ms : List Member) (r : String) (x : Obj)
    (hp : parse o (n + 1) (.obj ms) = .ok x) (hty : (scanKeys ms).type = some (.str r "LineString"))
    (hfin : AllFin x) (hdoc : (JVal.obj ms).DocOK) :
    ∃ v, Written x v ∧ ∃ x', parse o (v.depth + 1) v = .ok x' ∧ kindEq x x' ∧ write x' = write x ∧
      x' = x := by
  rw [parse_obj_str o n ms r "LineString" hty, parseTyped_LineString] at hp
  simp only [JVal.DocOK] at hdoc
  have hmem := scanKeys_mem JVal.DocOK ms (fun m hm => (docOKM_iff.mp hdoc m hm).2)
  obtain ⟨v, hw, hre⟩ := reparse_lineString vf kf o n (scanKeys ms) x hp hmem.2.1 hdoc.foreign
    (foreign_nonspecial ms) hfin
  refine ⟨v, hw, x, hre _, ?_, rfl, rfl⟩
  have := kindEq_addProps x
  cases x <;> simp_all [kindEq, addProps]

/-- positions (exact x, y and canonical texts), extra values and foreign member text are
    preserved: plain equality for Point documents -/
theorem geometry_preserved (vf : String → Rat) (kf : String → String) (o : POpts) (n : Nat)
    (ms : List Member) (r : String) (x : Obj)
    (hp : parse o (n + 1) (.obj ms) = .ok x) (hty : (scanKeys ms).type = some (.str r "Point"))
    (hfin : AllFin x) (hdoc : (JVal.obj ms).DocOK) :
    ∃ v, Written x v ∧ parse o (v.depth + 1) v = .ok x := by
  obtain ⟨v, hw, x', hre, _, _, rfl⟩ := reparse_ok_partial vf kf o n ms r x hp hty hfin hdoc
  exact ⟨v, hw, hre⟩

/-! ### coordinate-level round trips for LineString / Polygon coordinates -/

/-- the positions and the z/m table of a LineString (or a MultiLineString child) survive
    write → parse: the written coordinates `c` are an AST of what `writeSeries` emits
    (for the object's final `extra` = `withMembers ex k`) and parse back to the same
    positions and the same `extra` -/
theorem lineCoords_roundtrip (vf : String → Rat) (kf : String → String) (rc : JVal) (ps : List Pos)
    (ex : Option Extra) (k : Keys) (h : parseLineCoords rc = .ok (ps, ex)) (hd : rc.DocOK)
    (hfin : ∀ p ∈ ps, p.fin = true) (hex : ExFin ex) :
    SeriesV (withMembers ex k) ps 0 (seriesNodes vf kf ex ps 0) ∧
      parseLineCoords (.arr (seriesNodes vf kf ex ps 0)) = .ok (ps, ex) := by
  obtain ⟨hT, htok⟩ := parseLineCoords_fwd h hd hex
  exact ⟨seriesV_nodes vf kf hT (extrasAt_withMembers ex k) ps 0
      (fun p hp => ⟨hfin p hp, htok p hp⟩) (by omega),
    parseLineCoords_nodes vf kf hT hfin⟩

/-- same for the rings of a Polygon (or a MultiPolygon child) with non-empty rings -/
theorem polyCoords_roundtrip (vf : String → Rat) (kf : String → String) (rc : JVal)
    (rings : List (List Pos)) (ex : Option Extra) (k : Keys)
    (h : parsePolyCoords rc = .ok (rings, ex)) (hd : rc.DocOK)
    (hfin : ∀ r ∈ rings, r ≠ [] ∧ ∀ p ∈ r, p.fin = true) (hex : ExFin ex) :
    RingsV (withMembers ex k) rings 0 (ringsNodes vf kf ex rings 0) ∧
      parsePolyCoords (.arr (ringsNodes vf kf ex rings 0)) = .ok (rings, ex) := by
  obtain ⟨hT, htok⟩ := parsePolyCoords_fwd h hd hex
  exact ⟨ringsV_nodes vf kf hT (extrasAt_withMembers ex k) rings 0
      (fun r hr p hp => ⟨(hfin r hr).2 p hp, htok r hr p hp⟩) (by omega),
    parsePolyCoords_nodes vf kf hT hfin⟩

/-! ### Feature: the `properties` member -/

/-- the document written for a parsed Feature contains a `"properties"` member (either from
    the foreign members or the appended `"properties":{}`): the members `fm` written after
    `"geometry"` contain one, for every AST `vb` of the geometry -/
theorem feature_has_properties (o : POpts) (n : Nat) (ms : List Member) (r : String) (b : Obj)
    (ex : Option Extra) (hp : parse o (n + 1) (.obj ms) = .ok (.feature b ex))
    (hty : (scanKeys ms).type = some (.str r "Feature")) (hdoc : (JVal.obj ms).DocOK) :
    ∃ fm, fm.any (fun m => m.2.1 == "properties") = true ∧
      ∀ vb, Written b vb →
        Written (.feature b ex) (mkObj "Feature" "geometry" vb fm) ∧
        write (.feature b ex) = some (mkObj "Feature" "geometry" vb fm).render ∧
        ((mkObj "Feature" "geometry" vb fm).get "properties").isSome = true := by
  rw [parse_obj_str o n ms r "Feature" hty, parseTyped_Feature, parseFeatureK_eq] at hp
  simp only [JVal.DocOK] at hdoc
  cases hg : (scanKeys ms).geometry with
  | none => simp [hg] at hp
  | some g =>
    simp only [hg] at hp
    cases hb : parse o n g with
    | error e => simp [hb] at hp
    | ok base =>
      simp only [hb] at hp
      rcases featureOf_cases hp hdoc.foreign with ⟨hx, _⟩ | ⟨c, m, hx, _⟩
      · simp only [Obj.feature.injEq] at hx
        obtain ⟨rfl, rfl⟩ := hx
        refine ⟨featFm (scanKeys ms), featFm_hasProps _, ?_⟩
        intro vb hvb
        have hW : Written (.feature b (withMembers none (scanKeys ms)))
            (mkObj "Feature" "geometry" vb (featFm (scanKeys ms))) :=
          ⟨vb, _, hvb, membersV_feature hdoc.foreign, rfl⟩
        refine ⟨hW, hW.render.1, ?_⟩
        have hany := featFm_hasProps (scanKeys ms)
        simp only [List.any_eq_true] at hany
        obtain ⟨m, hm, hk⟩ := hany
        simp only [mkObj, JVal.get, Option.isSome_map, List.find?_isSome]
        exact ⟨m, by simp [hm], hk⟩
      · cases hx

/-- for a parsed Feature (not a Circle) the top-level `members` text is the render of the foreign
    members of the document in their original order (`scanKeys`: the members whose key is not
    one of type/coordinates/geometries/geometry/features), minified; "" when there are none -/
theorem members_preserved_partial (o : POpts) (n : Nat) (ms : List Member) (r : String) (b : Obj)
    (ex : Option Extra) (hp : parse o (n + 1) (.obj ms) = .ok (.feature b ex))
    (hty : (scanKeys ms).type = some (.str r "Feature")) (hdoc : (JVal.obj ms).DocOK) :
    exMembers' ex = (scanKeys ms).members ∧
    (scanKeys ms).foreign = ms.filter (fun m => !isSpecialKey m.2.1) ∧
    (scanKeys ms).members = (if (scanKeys ms).foreign.isEmpty then ""
      else (JVal.obj (scanKeys ms).foreign).render) := by
  rw [parse_obj_str o n ms r "Feature" hty, parseTyped_Feature, parseFeatureK_eq] at hp
  simp only [JVal.DocOK] at hdoc
  refine ⟨?_, scanKeys_foreign ms, by simp [Keys.members, JVal.render]⟩
  cases hg : (scanKeys ms).geometry with
  | none => simp [hg] at hp
  | some g =>
    simp only [hg] at hp
    cases hb : parse o n g with
    | error e => simp [hb] at hp
    | ok base =>
      simp only [hb] at hp
      rcases featureOf_cases hp hdoc.foreign with ⟨hx, _⟩ | ⟨c, m, hx, _⟩
      · simp only [Obj.feature.injEq] at hx
        obtain ⟨rfl, rfl⟩ := hx
        exact withMembers_members _ rfl
      · cases hx

/-- a ring detected as a Rect is written (`rectRing lo hi`) as a 5-point ring that is detected as
    a Rect again, with the same corners -/
theorem isRectRing_rectRing (p0 p1 p2 p3 p4 : Pos) (h : isRectRing [p0, p1, p2, p3, p4] = true) :
    isRectRing (rectRing p0 p2) = true ∧
      (∃ q1 q3 q4, rectRing p0 p2 = [p0, q1, p2, q3, q4]) := by
  simp only [isRectRing, Bool.and_eq_true, decide_eq_true_eq] at h
  obtain ⟨⟨⟨⟨⟨⟨⟨⟨⟨⟨⟨⟨f0, f1⟩, f2⟩, f3⟩, f4⟩, h1⟩, h2⟩, h3⟩, h4⟩, h5⟩, h6⟩, h7⟩, h8⟩ := h
  have hx : p0.p.x < p2.p.x := h3 ▸ h1
  have hy : p0.p.y < p2.p.y := h2 ▸ h4
  refine ⟨?_, ?_⟩
  · simp only [isRectRing, rectRing, Bool.and_eq_true, decide_eq_true_eq, f0, f2, Bool.and_self]
    simp only [GT.gt, hx, hy, and_self]
  · obtain ⟨⟨x0, y0⟩, g0, xs0, ys0⟩ := p0
    obtain ⟨⟨x2, y2⟩, g2, xs2, ys2⟩ := p2
    simp only at f0 f2
    subst f0 f2
    exact ⟨_, _, _, rfl⟩

/-! ### non-vacuity: a concrete Feature with foreign members -/

section Example

def exNum (v : Rat) (t : String) : JVal := .num true v t t t

/-- `{"id":7,"type":"Feature","geometry":{"type":"Point","coordinates":[1.5,-2,10]},"tags":[true]}` -/
def exDoc : JVal :=
  .obj [mem "id" (exNum 7 "7"), mem "type" (strV "Feature"),
    mem "geometry" (.obj [mem "type" (strV "Point"),
      mem "coordinates" (.arr [exNum (3/2) "1.5", exNum (-2) "-2", exNum 10 "10"])]),
    mem "tags" (.arr [.tru])]

/-- the document written for it: foreign members in document order, `"properties":{}` appended -/
def exWritten : String :=
  "{\"type\":\"Feature\",\"geometry\":{\"type\":\"Point\",\"coordinates\":[1.5,-2,10]},\"id\":7,\"tags\":[true],\"properties\":{}}"

/-- the AST of the written document -/
def exDoc' : JVal :=
  .obj [mem "type" (strV "Feature"),
    mem "geometry" (.obj [mem "type" (strV "Point"),
      mem "coordinates" (.arr [exNum (3/2) "1.5", exNum (-2) "-2", exNum 10 "10"])]),
    mem "id" (exNum 7 "7"), mem "tags" (.arr [.tru]), mem "properties" (.obj [])]

def writeOf (r : Except PErr Obj) : Option String :=
  match r with
  | .ok x => write x
  | .error _ => none

/-- info: true -/
#guard_msgs in
#eval writeOf (parseTop {} exDoc) == some exWritten
/-- info: true -/
#guard_msgs in
#eval exDoc'.render == exWritten
-- fixpoint after one step
/-- info: true -/
#guard_msgs in
#eval writeOf (parseTop {} exDoc') == some exWritten

end Example

end Geo

#print axioms Geo.render_writeV
#print axioms Geo.written_tokOK
#print axioms Geo.reparse_ok_partial
#print axioms Geo.reparse_ok_partial_lineString
#print axioms Geo.geometry_preserved
#print axioms Geo.lineCoords_roundtrip
#print axioms Geo.polyCoords_roundtrip
#print axioms Geo.feature_has_properties
#print axioms Geo.members_preserved_partial
#print axioms Geo.isRectRing_rectRing
