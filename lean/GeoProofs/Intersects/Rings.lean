/-
  GeoProofs.Intersects.Rings — the two kinds of ring of the model realise closed chains of the
  specification (`IX.RingSpec`):
  * `ringSpec_ser`: a closed series `mkSeries pts true kind m` whose search is exact
    (`Series.SearchExact`: no index, or an index for which exactness has been proved) realises
    `pts.toList`;
  * `ringSpec_bx`: a well-formed `Rect` (min ≤ max on both axes, degenerate allowed) used as a
    ring realises `Spec.rectPts b.min b.max`; `inRing_rect`: the crossing-parity region of the
    rectangle chain is the closed rectangle.
-/
import GeoProofs.Intersects.Core

namespace Geo
namespace IX
open GL Jordan

/-! ### a closed series -/

theorem ser_empty_iff (pts : Array Pt) (kind : IndexKind) (m : Nat) :
    (Ring.ser (mkSeries pts true kind m)).empty = true ↔ Spec.edges pts.toList true = [] := by
  rw [← List.length_eq_zero_iff, ← numSegments_spec, numSegmentsOf_eq_zero_iff]
  rfl

theorem ser_vertex_onBoundary (pts : Array Pt) (kind : IndexKind) (m : Nat)
    (he : (Ring.ser (mkSeries pts true kind m)).empty = false) (v : Pt) (hv : v ∈ pts.toList) :
    Spec.onBoundary (Spec.edges pts.toList true) v = true := by
  obtain ⟨j, hj, rfl⟩ := List.getElem_of_mem hv
  have hj' : j < pts.size := by simpa using hj
  obtain ⟨i, hi, hon⟩ := vertex_on_segment (mkSeries pts true kind m) he j hj'
  have : (mkSeries pts true kind m).pts[j]! = pts.toList[j] := by
    show pts[j]! = _
    rw [getElem!_pos pts j hj']
    simp
  rw [this] at hon
  exact onBoundary_of_onSeg (segmentAt_mem_edges pts true i hi) hon

theorem ringSpec_ser (pts : Array Pt) (kind : IndexKind) (m : Nat)
    (hvis : (mkSeries pts true kind m).SearchExact) :
    RingSpec (.ser (mkSeries pts true kind m)) pts.toList where
  search := by
    intro q
    obtain ⟨visit, hperm, hv⟩ := hvis q
    refine ⟨visit, hperm, ?_⟩
    intro σ f st
    show ((mkSeries pts true kind m).search q f st).get st = _
    rw [hv f st]
    rfl
  nseg := numSegments_spec pts true
  segAt := fun i hi => segmentAt_spec pts true i hi
  mem := fun p => ringContainsPoint_inclusive pts kind m hvis p
  inRect := by
    intro p hp
    by_contra hc
    have hr : (Ring.ser (mkSeries pts true kind m)).rect = (processPoints pts true).rect := rfl
    rw [hr] at hc
    have hc' : (processPoints pts true).rect.containsPt p = false := by
      simpa using hc
    obtain ⟨h1, h2⟩ := outside_rect pts p hc'
    rw [(inRing_false_iff _ _).2 ⟨h1, h2⟩] at hp
    cases hp
  empty_iff := ser_empty_iff pts kind m
  tight := by
    intro he
    have hne : ¬ ((true && decide (pts.size < 3)) || decide (pts.size < 2)) = true := by
      have : (mkSeries pts true kind m).empty = false := he
      intro hh
      have h2 : (mkSeries pts true kind m).empty = true := hh
      rw [h2] at this
      cases this
    obtain ⟨-, ⟨v1, m1, e1⟩, ⟨v2, m2, e2⟩, ⟨v3, m3, e3⟩, ⟨v4, m4, e4⟩⟩ :=
      bboxSpec_tight pts.toList _ (rect_tight pts true hne).symm
    exact ⟨⟨v1, ser_vertex_onBoundary pts kind m he v1 m1, e1⟩,
      ⟨v2, ser_vertex_onBoundary pts kind m he v2 m2, e2⟩,
      ⟨v3, ser_vertex_onBoundary pts kind m he v3 m3, e3⟩,
      ⟨v4, ser_vertex_onBoundary pts kind m he v4 m4, e4⟩⟩

/-- un-indexed closed series -/
theorem ringSpec_mk (pts : Array Pt) (m : Nat) :
    RingSpec (.ser (mkSeries pts true .none m)) pts.toList :=
  ringSpec_ser pts .none m (series_search_exact_kind_none pts true m)

/-! ### a rectangle used as a ring -/

theorem rect_edges (lo hi : Pt) :
    Spec.edges (Spec.rectPts lo hi) true =
      [(lo, ⟨hi.x, lo.y⟩), (⟨hi.x, lo.y⟩, hi), (hi, ⟨lo.x, hi.y⟩), (⟨lo.x, hi.y⟩, lo)] := by
  simp [Spec.edges, Spec.rectPts]

theorem rect_edges_bx (b : Box) :
    Spec.edges (Spec.rectPts b.min b.max) true =
      [((b.segmentAt 0).a, (b.segmentAt 0).b), ((b.segmentAt 1).a, (b.segmentAt 1).b),
       ((b.segmentAt 2).a, (b.segmentAt 2).b), ((b.segmentAt 3).a, (b.segmentAt 3).b)] := by
  rw [rect_edges]
  rfl

theorem crosses_eq_inn {a b p : Pt} (h : Spec.onSeg a b p = false) :
    Spec.crosses a b p = (raycast a b p).inn := by
  have hns : ¬ OnSeg a b p := by
    intro hc
    rw [(spec_onSeg_iff a b p).2 hc] at h
    cases h
  rw [Bool.eq_iff_iff, spec_crosses_iff]
  exact (raycast_in_iff _ _ _ hns).symm

theorem parity4 (a0 b0 a1 b1 a2 b2 a3 b3 : Pt) (p : Pt) (c0 c1 c2 c3 : Bool)
    (h0 : Spec.crosses a0 b0 p = c0) (h1 : Spec.crosses a1 b1 p = c1)
    (h2 : Spec.crosses a2 b2 p = c2) (h3 : Spec.crosses a3 b3 p = c3) :
    Spec.parity [(a0, b0), (a1, b1), (a2, b2), (a3, b3)] p = (b2n c0 + b2n c1 + b2n c2 + b2n c3) % 2 := by
  subst h0 h1 h2 h3
  unfold Spec.parity
  simp only [List.filter_cons, List.filter_nil]
  cases Spec.crosses a0 b0 p <;> cases Spec.crosses a1 b1 p <;>
    cases Spec.crosses a2 b2 p <;> cases Spec.crosses a3 b3 p <;> rfl

/-- the crossing-parity region of the rectangle chain is the closed rectangle -/
theorem inRing_rect (b : Box) (hb : b.min.x ≤ b.max.x ∧ b.min.y ≤ b.max.y) (p : Pt) :
    Spec.inRing (Spec.edges (Spec.rectPts b.min b.max) true) p = b.containsPt p := by
  by_cases hon : Spec.onBoundary (Spec.edges (Spec.rectPts b.min b.max) true) p = true
  · -- on a side: inside the box
    rw [inRing_of_onBoundary hon]
    obtain ⟨e, he, hp⟩ := (onBoundary_iff _ _).1 hon
    symm
    have hmin : b.containsPt b.min = true := by
      rw [containsPt_iff]; exact ⟨le_refl _, hb.1, le_refl _, hb.2⟩
    have hmax : b.containsPt b.max = true := by
      rw [containsPt_iff]; exact ⟨hb.1, le_refl _, hb.2, le_refl _⟩
    have h1 : b.containsPt ⟨b.max.x, b.min.y⟩ = true := by
      rw [containsPt_iff]; exact ⟨hb.1, le_refl _, le_refl _, hb.2⟩
    have h3 : b.containsPt ⟨b.min.x, b.max.y⟩ = true := by
      rw [containsPt_iff]; exact ⟨le_refl _, hb.1, hb.2, le_refl _⟩
    rw [rect_edges] at he
    simp only [List.mem_cons, List.not_mem_nil, or_false] at he
    rcases he with rfl | rfl | rfl | rfl
    · exact onSeg_in_box b _ _ p hmin h1 hp
    · exact onSeg_in_box b _ _ p h1 hmax hp
    · exact onSeg_in_box b _ _ p hmax h3 hp
    · exact onSeg_in_box b _ _ p h3 hmin hp
  · have hon' : Spec.onBoundary (Spec.edges (Spec.rectPts b.min b.max) true) p = false := by
      simpa using hon
    have hoffs := hon'
    unfold Spec.onBoundary at hoffs
    rw [rect_edges_bx, List.any_eq_false] at hoffs
    have o0 : Spec.onSeg (b.segmentAt 0).a (b.segmentAt 0).b p = false := by simpa using hoffs ((b.segmentAt 0).a, (b.segmentAt 0).b) (by simp)
    have o1 : Spec.onSeg (b.segmentAt 1).a (b.segmentAt 1).b p = false := by simpa using hoffs ((b.segmentAt 1).a, (b.segmentAt 1).b) (by simp)
    have o2 : Spec.onSeg (b.segmentAt 2).a (b.segmentAt 2).b p = false := by simpa using hoffs ((b.segmentAt 2).a, (b.segmentAt 2).b) (by simp)
    have o3 : Spec.onSeg (b.segmentAt 3).a (b.segmentAt 3).b p = false := by simpa using hoffs ((b.segmentAt 3).a, (b.segmentAt 3).b) (by simp)
    unfold Spec.inRing
    rw [hon', Bool.false_or]
    by_cases hc : b.containsPt p = true
    · -- strictly inside: exactly the right-hand side is crossed
      have hany : [0, 1, 2, 3].any (onAt b.segmentAt p) = false := by
        simp only [List.any_cons, List.any_nil, onAt, Seg.raycast, ← spec_onSeg_eq_on, o0, o1, o2, o3]
        rfl
      obtain ⟨i0, i1, i2, i3⟩ := bx_inn b p hc hany
      unfold innAt Seg.raycast at i0 i1 i2 i3
      rw [hc, rect_edges_bx, parity4 _ _ _ _ _ _ _ _ p _ _ _ _ ((crosses_eq_inn o0).trans i0)
        ((crosses_eq_inn o1).trans i1) ((crosses_eq_inn o2).trans i2) ((crosses_eq_inn o3).trans i3)]
      rfl
    · -- outside the box: an even number of crossings
      have hc' : b.containsPt p = false := by simpa using hc
      rw [hc']
      have hmin : b.min.x ≤ b.min.x ∧ b.min.x ≤ b.max.x ∧ b.min.y ≤ b.min.y ∧ b.min.y ≤ b.max.y :=
        ⟨le_refl _, hb.1, le_refl _, hb.2⟩
      have hmax : b.min.x ≤ b.max.x ∧ b.max.x ≤ b.max.x ∧ b.min.y ≤ b.max.y ∧ b.max.y ≤ b.max.y :=
        ⟨hb.1, le_refl _, hb.2, le_refl _⟩
      have h1 : b.min.x ≤ b.max.x ∧ b.max.x ≤ b.max.x ∧ b.min.y ≤ b.min.y ∧ b.min.y ≤ b.max.y :=
        ⟨hb.1, le_refl _, le_refl _, hb.2⟩
      have h3 : b.min.x ≤ b.min.x ∧ b.min.x ≤ b.max.x ∧ b.min.y ≤ b.max.y ∧ b.max.y ≤ b.max.y :=
        ⟨le_refl _, hb.1, hb.2, le_refl _⟩
      have c0 := crosses_outside b.min ⟨b.max.x, b.min.y⟩ p b hmin h1
      have c1 := crosses_outside ⟨b.max.x, b.min.y⟩ b.max p b h1 hmax
      have c2 := crosses_outside b.max ⟨b.min.x, b.max.y⟩ p b hmax h3
      have c3 := crosses_outside ⟨b.min.x, b.max.y⟩ b.min p b h3 hmin
      have hout : p.x < b.min.x ∨ b.max.x < p.x ∨ p.y < b.min.y ∨ b.max.y < p.y := by
        by_contra hcon
        simp only [not_or, not_lt] at hcon
        have := (containsPt_iff b p).2 ⟨hcon.1, hcon.2.1, hcon.2.2.1, hcon.2.2.2⟩
        rw [hc'] at this
        cases this
      rcases hout with h | h | h | h
      · have e0 : Spec.crosses b.min ⟨b.max.x, b.min.y⟩ p =
            (decide (b.min.y ≤ p.y) != decide (b.min.y ≤ p.y)) := c0.1 h
        have e1 : Spec.crosses ⟨b.max.x, b.min.y⟩ b.max p =
            (decide (b.min.y ≤ p.y) != decide (b.max.y ≤ p.y)) := c1.1 h
        have e2 : Spec.crosses b.max ⟨b.min.x, b.max.y⟩ p =
            (decide (b.max.y ≤ p.y) != decide (b.max.y ≤ p.y)) := c2.1 h
        have e3 : Spec.crosses ⟨b.min.x, b.max.y⟩ b.min p =
            (decide (b.max.y ≤ p.y) != decide (b.min.y ≤ p.y)) := c3.1 h
        rw [rect_edges, parity4 _ _ _ _ _ _ _ _ p _ _ _ _ e0 e1 e2 e3]
        cases decide (b.min.y ≤ p.y) <;> cases decide (b.max.y ≤ p.y) <;> rfl
      · rw [rect_edges, parity4 _ _ _ _ _ _ _ _ p _ _ _ _ (c0.2.1 h) (c1.2.1 h) (c2.2.1 h) (c3.2.1 h)]
        rfl
      · rw [rect_edges, parity4 _ _ _ _ _ _ _ _ p _ _ _ _ (c0.2.2.1 h) (c1.2.2.1 h) (c2.2.2.1 h) (c3.2.2.1 h)]
        rfl
      · rw [rect_edges, parity4 _ _ _ _ _ _ _ _ p _ _ _ _ (c0.2.2.2 h) (c1.2.2.2 h) (c2.2.2.2 h) (c3.2.2.2 h)]
        rfl

theorem ringSpec_bx (b : Box) (hb : b.min.x ≤ b.max.x ∧ b.min.y ≤ b.max.y) :
    RingSpec (.bx b) (Spec.rectPts b.min b.max) where
  search := by
    intro q
    exact ⟨_, List.Perm.refl _, fun f st => ring_search_eq (.bx b) trivial q f st⟩
  nseg := by rw [rect_edges]; rfl
  segAt := by
    intro i hi
    rw [rect_edges_bx]
    have hi' : i < 4 := hi
    match i, hi' with
    | 0, _ => rfl
    | 1, _ => rfl
    | 2, _ => rfl
    | 3, _ => rfl
  mem := fun p => by rw [rectRing_containsPoint_iff, inRing_rect b hb]
  inRect := fun p hp => by rw [inRing_rect b hb] at hp; exact hp
  empty_iff := by
    rw [rect_edges]
    exact iff_of_false (by simp [Ring.empty]) (by simp)
  tight := by
    intro _
    have hmin : Spec.onBoundary (Spec.edges (Spec.rectPts b.min b.max) true) b.min = true := by
      refine onBoundary_of_onSeg (e := (b.min, ⟨b.max.x, b.min.y⟩)) ?_ (K.onSeg_left _ _)
      rw [rect_edges]; simp
    have hmax : Spec.onBoundary (Spec.edges (Spec.rectPts b.min b.max) true) b.max = true := by
      refine onBoundary_of_onSeg (e := (⟨b.max.x, b.min.y⟩, b.max)) ?_ (K.onSeg_right _ _)
      rw [rect_edges]; simp
    exact ⟨⟨_, hmin, rfl⟩, ⟨_, hmax, rfl⟩, ⟨_, hmin, rfl⟩, ⟨_, hmax, rfl⟩⟩

end IX
end Geo
