/-
  GeoProofs.Float.KGenRect — the kernels GENERATED from rect.go / point.go / Segment.Rect
  (`Geo.KGen.segmentRect`, `rectContainsPoint`, `rectContainsRect`, `rectIntersectsRect`,
  `pointValid`, `rectValid`, `pointContains*`, `pointIntersects*`, `pointRect`, `rectRect`)
  evaluated at the exact binary64 model `KNum FQ` equal the hand-written `Rat` model
  (`GeoModel/Kernel.lean`, `Geom.lean`, `Series.lean`, `Object.lean`) for ALL finite
  coordinates: they only compare, nothing is rounded.
-/
import GeoProofs.Float.KGenRay
import GeoModel.Geom
import GeoModel.Object
set_option linter.unusedSimpArgs false
namespace Geo.F
open Geo

/-- a model box as a `Rect` of finite doubles -/
def upB (r : Box) : KRect FQ := ⟨up r.min, up r.max⟩
/-- a model segment as a `Segment` of finite doubles -/
def upS (s : Seg) : KSegment FQ := ⟨up s.a, up s.b⟩

theorem up_x (p : Pt) : (up p).x = .fin p.x := rfl
theorem up_y (p : Pt) : (up p).y = .fin p.y := rfl
theorem upB_min (r : Box) : (upB r).min = up r.min := rfl
theorem upB_max (r : Box) : (upB r).max = up r.max := rfl

theorem up_inj {p q : Pt} (h : up p = up q) : p = q := by
  cases p; cases q; simp only [up, KPoint.mk.injEq, FQ.fin.injEq] at h; simp [h.1, h.2]

/-- Go's `==` on points of finite doubles is equality of the rational points -/
theorem kpoint_eq_up (p q : Pt) : KPoint.eq (up p) (up q) = decide (p = q) := by
  simp only [KPoint.eq, up, keq_fin, Pt.ext_iff', Bool.decide_and]

theorem Box.ext_iff' (r s : Box) : r = s ↔ r.min = s.min ∧ r.max = s.max := by
  cases r; cases s; simp

theorem krect_eq_upB (r s : Box) : KRect.eq (upB r) (upB s) = decide (r = s) := by
  simp only [KRect.eq, upB, kpoint_eq_up, Box.ext_iff', Bool.decide_and]

/-! ### Segment.Rect -/

theorem kgen_segmentRect (s : Seg) : KGen.segmentRect (upS s) = upB s.box := by
  obtain ⟨⟨ax, ay⟩, ⟨bx, by'⟩⟩ := s
  unfold KGen.segmentRect Seg.box upS upB up
  by_cases hx : bx < ax <;> by_cases hy : by' < ay <;>
    simp [kgt_fin, hx, hy]

/-! ### Rect -/

theorem kgen_rectContainsPoint (r : Box) (p : Pt) :
    KGen.rectContainsPoint (upB r) (up p) = r.containsPt p := by
  simp only [KGen.rectContainsPoint, Box.containsPt, upB, up, kge_fin, kle_fin]

theorem kgen_rectIntersectsPoint (r : Box) (p : Pt) :
    KGen.rectIntersectsPoint (upB r) (up p) = r.containsPt p :=
  kgen_rectContainsPoint r p

theorem kgen_rectContainsRect (r o : Box) :
    KGen.rectContainsRect (upB r) (upB o) = r.containsBox o := by
  simp only [KGen.rectContainsRect, Box.containsBox, upB, up, kgt_fin, klt_fin,
    Bool.or_eq_true, decide_eq_true_eq]

theorem kgen_rectIntersectsRect (r o : Box) :
    KGen.rectIntersectsRect (upB r) (upB o) = r.intersects o := by
  simp only [KGen.rectIntersectsRect, Box.intersects, upB, up, kgt_fin, klt_fin,
    Bool.or_eq_true, decide_eq_true_eq]

theorem kgen_rectRect (r : Box) : KGen.rectRect (upB r) = upB r := rfl

/-! ### Valid: the literals 180, 90 and their negations -/

theorem kofNat_small (n : ℕ) (h : n < 2 ^ 53) : (KNum.ofNat n : FQ) = .fin n := by
  show ofRat _ = _
  have hn : ((n : ℚ)) < 2 ^ 53 := by exact_mod_cast h
  have h0 : (0 : ℚ) ≤ n := Nat.cast_nonneg n
  have h53 : (2 : ℚ) ^ (53 : ℤ) ≤ 2 ^ (1023 : ℤ) := two_zpow_le (by norm_num)
  have h53' : (2 : ℚ) ^ (53 : ℤ) = 2 ^ 53 := by norm_num
  have hle : |(n : ℚ)| ≤ 2 ^ (1023 : ℤ) := by
    rw [abs_of_nonneg h0]; exact le_trans (le_of_lt (h53' ▸ hn)) h53
  have hrn : rn (n : ℚ) = n := by
    refine rn_of_grid (n : ℤ) 0 ?_ (by norm_num) (by simp)
    rw [abs_of_nonneg (by positivity)]; exact_mod_cast h
  rw [ofRat_small hle, hrn]

theorem kneg_fin (x : ℚ) : KNum.neg (FQ.fin x) = .fin (-x) := rfl

theorem kgen_pointValid (p : Pt) : KGen.pointValid (up p) = p.valid := by
  simp only [KGen.pointValid, Pt.valid, up, kofNat_small 180 (by norm_num),
    kofNat_small 90 (by norm_num), kneg_fin, kge_fin, kle_fin, Nat.cast_ofNat]

theorem kgen_rectValid (r : Box) : KGen.rectValid (upB r) = Obj.boxValid r := by
  simp only [KGen.rectValid, Obj.boxValid, upB, kgen_pointValid]

/-! ### Point -/

theorem kgen_pointRect (p : Pt) : KGen.pointRect (up p) = upB p.box := rfl

theorem kgen_pointContainsPoint (p q : Pt) :
    KGen.pointContainsPoint (up p) (up q) = decide (p = q) := kpoint_eq_up p q

theorem kgen_pointIntersectsPoint (p q : Pt) :
    KGen.pointIntersectsPoint (up p) (up q) = decide (p = q) := kpoint_eq_up p q

theorem kgen_pointContainsRect (p : Pt) (r : Box) :
    KGen.pointContainsRect (up p) (upB r) = p.containsRect r := by
  simp only [KGen.pointContainsRect, kgen_pointRect, krect_eq_upB, Pt.containsRect]

theorem kgen_pointIntersectsRect (p : Pt) (r : Box) :
    KGen.pointIntersectsRect (up p) (upB r) = p.intersectsRect r :=
  kgen_rectContainsPoint r p

end Geo.F
