/-
  GeoProofs.Props.ParseBridge — final statements of the parser bridge: the definitions regenerated
  from /repo's parsers (GeoModel/Generated/ParseGen.lean), instantiated with the hand model's AST
  operations (GeoProofs/Glue/ParseGlue.lean: `PGlue.mops`), agree with the hand model
  (GeoModel/Json.lean).  DONE: every parser function — the position / line / polygon coordinate readers, parseBBoxAndExtras,
  toGeometryOpts, Point, LineString, Polygon (AllowRects, RequireValid), MultiPoint, MultiLineString,
  MultiPolygon, parseInitRectIndex (tree flag, pempty = allEmpty, prect = collRect), GeometryCollection,
  FeatureCollection, Feature (Tile38 Circle recognition), the member scan of parseJSON (= scanKeys), its
  type checks and dispatch, Parse (nil options, leading-byte loop) — and the closing induction over the
  nesting depth: `parse_bridge`.
  Document hypothesis `JOK v`: NoOverflowLit (every number literal has fin = true) and no number literal's
  text is the word "Circle" (JSON grammar).  Error agreement is `AgreeU`: the model's `unmodelled`
  (string-valued circle radius) is not compared, the argument of the unknown-type error is not compared.
  gjson contracts are encoded in the instance `PGlue.mops` (ParseGlue.lean), not as hypotheses: Raw of a
  value is non-empty, starts with the byte its kind dictates, pretty.Ugly ∘ Raw = the model's render, Get on
  the members text built by parseJSON finds the members, ForEach offers the members / elements in order.
-/
import GeoProofs.Glue.ParseGlueFinal

set_option linter.unusedSimpArgs false

namespace Geo.ParseBridge
open Geo Geo.PGen Geo.PGlue

/-- the "Point" arm of `parse` is `mPoint` -/
theorem parse_point (o : POpts) (fuel : Nat) (ms : List (String × String × JVal)) (raw : String)
    (h : (scanKeys ms).type = some (.str raw "Point")) :
    parse o (fuel + 1) (.obj ms) = mPoint o (scanKeys ms) := by
  rw [parse]
  simp only [h, mPoint]
  rfl

/-- the "LineString" arm of `parse` is `mLineString` -/
theorem parse_lineString (o : POpts) (fuel : Nat) (ms : List (String × String × JVal)) (raw : String)
    (h : (scanKeys ms).type = some (.str raw "LineString")) :
    parse o (fuel + 1) (.obj ms) = mLineString o (scanKeys ms) := by
  rw [parse]
  simp only [h, mLineString]
  rfl

/-- BRIDGE, Point: the regenerated parseJSONPoint, run on keys that carry what the model's scanKeys
    collected, returns the object / the error of the model's parse on a document of type "Point" -/
theorem parseJSONPoint_bridge (rec : RecT) (gk : GKeys) (o : POpts) (fuel : Nat) (ms : List (String × String × JVal))
    (raw : String) (ht : (scanKeys ms).type = some (.str raw "Point")) (hk : KeysRel gk (scanKeys ms)) :
    Agree (PGen.parseJSONPoint (mops rec) (some gk) (some (optsG o))) (parse o (fuel + 1) (.obj ms)) := by
  rw [parse_point o fuel ms raw ht]
  exact point_eq rec gk o _ hk

/-- BRIDGE, LineString -/
theorem parseJSONLineString_bridge (rec : RecT) (gk : GKeys) (o : POpts) (fuel : Nat) (ms : List (String × String × JVal))
    (raw : String) (ht : (scanKeys ms).type = some (.str raw "LineString")) (hk : KeysRel gk (scanKeys ms)) :
    Agree (PGen.parseJSONLineString (mops rec) (some gk) (some (optsG o))) (parse o (fuel + 1) (.obj ms)) := by
  rw [parse_lineString o fuel ms raw ht]
  exact lineString_eq rec gk o _ hk

/-- BRIDGE, position reader: generated parseJSONPointCoords on an existing rcoords = parsePointCoords -/
theorem parseJSONPointCoords_bridge (rec : RecT) (keys : Option GKeys) (opts : Option GOpts) (rc : JVal) :
    match parsePointCoords rc with
    | .ok (pos, ex) =>
      toPos (PGen.parseJSONPointCoords (mops rec) keys (some rc) opts).1 = pos ∧
      (PGen.parseJSONPointCoords (mops rec) keys (some rc) opts).2.1.map exM = ex ∧
      (PGen.parseJSONPointCoords (mops rec) keys (some rc) opts).2.2 = none
    | .error e => e = .coordsInvalid ∧
      (PGen.parseJSONPointCoords (mops rec) keys (some rc) opts).2.2 = some .errCoordinatesInvalid :=
  pointCoords_some rec keys opts rc

/-- BRIDGE, line coordinates reader: generated parseJSONLineStringCoords = parseLineCoords -/
theorem parseJSONLineStringCoords_bridge (rec : RecT) (keys : Option GKeys) (opts : Option GOpts) (rc : JVal) :
    match parseLineCoords rc with
    | .ok (ps, ex) =>
      (PGen.parseJSONLineStringCoords (mops rec) keys (some rc) opts).1.map toPos = ps ∧
      (PGen.parseJSONLineStringCoords (mops rec) keys (some rc) opts).2.1.map exM = ex ∧
      (PGen.parseJSONLineStringCoords (mops rec) keys (some rc) opts).2.2 = none
    | .error e => e = .coordsInvalid ∧
      (PGen.parseJSONLineStringCoords (mops rec) keys (some rc) opts).2.2 = some .errCoordinatesInvalid :=
  lineCoords_some rec keys opts rc

/-- BRIDGE, parseBBoxAndExtras = withMembers -/
theorem parseBBoxAndExtras_bridge (rec : RecT) (ex : Option GExtra) (gk : GKeys) (opts : Option GOpts) (k : Keys)
    (hk : KeysRel gk k) :
    (PGen.parseBBoxAndExtras (mops rec) ex (some gk) opts).1 = none ∧
    (PGen.parseBBoxAndExtras (mops rec) ex (some gk) opts).2.map exM = withMembers (ex.map exM) k :=
  bbox_eq rec ex gk opts k hk

/-- BRIDGE, toGeometryOpts -/
theorem toGeometryOpts_bridge (rec : RecT) (o : POpts) :
    PGen.toGeometryOpts (mops rec) (some (optsG o)) = (o.indexKind, (o.indexGeometry : Int)) :=
  toGeometryOpts_eq rec o

/-- BRIDGE, polygon coordinates reader -/
theorem parseJSONPolygonCoords_bridge (rec : RecT) (keys : Option GKeys) (opts : Option GOpts) (rc : JVal) :
    match parsePolyCoords rc with
    | .ok (rings, ex) =>
      (PGen.parseJSONPolygonCoords (mops rec) keys (some rc) opts).1.map (·.map toPos) = rings ∧
      (PGen.parseJSONPolygonCoords (mops rec) keys (some rc) opts).2.1.map exM = ex ∧
      (PGen.parseJSONPolygonCoords (mops rec) keys (some rc) opts).2.2 = none
    | .error e => e = .coordsInvalid ∧
      (PGen.parseJSONPolygonCoords (mops rec) keys (some rc) opts).2.2 = some .errCoordinatesInvalid :=
  polyCoords_some rec keys opts rc

/-- BRIDGE, Polygon (linear-ring test, AllowRects substitution, RequireValid), ring positions finite -/
theorem parseJSONPolygon_bridge (rec : RecT) (gk : GKeys) (o : POpts) (fuel : Nat) (ms : List Mem)
    (raw : String) (ht : (scanKeys ms).type = some (.str raw "Polygon")) (hk : KeysRel gk (scanKeys ms)) (hfin : PolyFin ms) :
    Agree (PGen.parseJSONPolygon (mops rec) (some gk) (some (optsG o))) (parse o (fuel + 1) (.obj ms)) := by
  rw [(parse_arm o fuel ms raw "Polygon" ht).2.2.1 rfl]
  exact polygon_eq rec gk o _ hk hfin

/-- BRIDGE, parseInitRectIndex: tree flag, pempty = allEmpty, prect = collRect; hence the model's mkColl -/
theorem parseInitRectIndex_bridge (rec : RecT) (kind : CollKind) (c : GColl) (o : POpts) (ht : c.tree = none) :
    collObj kind (PGen.parseInitRectIndex (mops rec) c (some (optsG o))) = mkColl o kind c.children (c.extra.map exM) ∧
    (PGen.parseInitRectIndex (mops rec) c (some (optsG o))).pempty = Obj.allEmpty c.children ∧
    (Obj.collRect c.children (c.children.length == 1) none =
      if nonEmptyCount c.children = 0 then none
      else some (boxOf (PGen.parseInitRectIndex (mops rec) c (some (optsG o))).prect)) :=
  ⟨initRect_obj rec kind c o ht, (initRect_eq rec c o ht).2.2.2.1, (initRect_eq rec c o ht).2.2.2.2⟩

/-- BRIDGE, GeometryCollection / FeatureCollection (recursion parameter right one level down) -/
theorem parseJSONGeometryCollection_bridge (rec : RecT) (o : POpts) (fuel : Nat) (hrec : RecOK rec o fuel) (gk : GKeys)
    (ms : List Mem) (raw : String) (ht : (scanKeys ms).type = some (.str raw "GeometryCollection")) (hk : KeysRel gk (scanKeys ms))
    (hJ : ∀ items, (scanKeys ms).geometries = some (.arr items) → ∀ v ∈ items, JOK v = true) :
    AgreeU (PGen.parseJSONGeometryCollection (mops rec) (some gk) (some (optsG o))) (parse o (fuel + 1) (.obj ms)) := by
  rw [(parse_arm o fuel ms raw "GeometryCollection" ht).2.2.2.1 rfl]
  exact gcoll_eq rec o fuel hrec gk _ hk hJ

theorem parseJSONFeatureCollection_bridge (rec : RecT) (o : POpts) (fuel : Nat) (hrec : RecOK rec o fuel) (gk : GKeys)
    (ms : List Mem) (raw : String) (ht : (scanKeys ms).type = some (.str raw "FeatureCollection")) (hk : KeysRel gk (scanKeys ms))
    (hJ : ∀ items, (scanKeys ms).features = some (.arr items) → ∀ v ∈ items, JOK v = true) :
    AgreeU (PGen.parseJSONFeatureCollection (mops rec) (some gk) (some (optsG o))) (parse o (fuel + 1) (.obj ms)) := by
  rw [(parse_arm o fuel ms raw "FeatureCollection" ht).2.2.2.2 rfl]
  exact fcoll_eq rec o fuel hrec gk _ hk hJ

/-- BRIDGE, the member scan of parseJSON = scanKeys (KeysRel discharged from the source) -/
theorem scan_bridge (rec : RecT) (ms : List Mem) :
    ∃ gk fm rT, searchFold (PGen.parseJSON_lit1 (mops rec)) (ms.map memPair) (⟨none, none, none, none, []⟩, [], none) = (gk, fm, rT) ∧
      rT = (scanKeys ms).type ∧
      KeysRel (if (flat fm).length > 0 then { gk with members := fm ++ [Piece.ch '}'] } else gk) (scanKeys ms) :=
  scan_keys rec ms

/-- BRIDGE, Parse: nil options are the defaults -/
theorem defaultOptions_bridge (rec : RecT) : PGen.DefaultParseOptions (mops rec) = some (optsG {}) := rfl

/-- BRIDGE, MultiPoint / MultiLineString / MultiPolygon / Feature: the four kinds, for an object without
    overflowing literals (what `parseJSON` needs about them) -/
theorem kinds_bridge (rec : RecT) (o : POpts) (fuel : Nat) (hrec : RecOK rec o fuel) (ms : List Mem) (h : JOKM ms = true) :
    KindHyps rec o fuel ms :=
  kindHyps_of rec o fuel hrec ms h

theorem parseJSONMultiPoint_bridge (rec : RecT) (gk : GKeys) (o : POpts) (fuel : Nat) (ms : List Mem) (raw : String)
    (ht : (scanKeys ms).type = some (.str raw "MultiPoint")) (hk : KeysRel gk (scanKeys ms)) :
    Agree (PGen.parseJSONMultiPoint (mops rec) (some gk) (some (optsG o))) (parse o (fuel + 1) (.obj ms)) := by
  rw [parse_multiPoint o fuel ms raw ht]; exact multiPoint_eq rec gk o _ hk

theorem parseJSONMultiLineString_bridge (rec : RecT) (gk : GKeys) (o : POpts) (fuel : Nat) (ms : List Mem) (raw : String)
    (ht : (scanKeys ms).type = some (.str raw "MultiLineString")) (hk : KeysRel gk (scanKeys ms)) :
    Agree (PGen.parseJSONMultiLineString (mops rec) (some gk) (some (optsG o))) (parse o (fuel + 1) (.obj ms)) := by
  rw [parse_multiLineString o fuel ms raw ht]; exact multiLineString_eq rec gk o _ hk

theorem parseJSONMultiPolygon_bridge (rec : RecT) (gk : GKeys) (o : POpts) (fuel : Nat) (ms : List Mem) (raw : String)
    (ht : (scanKeys ms).type = some (.str raw "MultiPolygon")) (hk : KeysRel gk (scanKeys ms)) (hJ : JOKM ms = true) :
    Agree (PGen.parseJSONMultiPolygon (mops rec) (some gk) (some (optsG o))) (parse o (fuel + 1) (.obj ms)) := by
  rw [parse_multiPolygon o fuel ms raw ht]
  exact multiPolygon_eq rec gk o _ hk
    (fun rc hrc v hv => polyFinV_of_JOK v (JOK_elems rc ((scan_ok ms hJ).1 rc hrc) v hv))

theorem parseJSONFeature_bridge (rec : RecT) (o : POpts) (fuel : Nat) (hrec : RecOK rec o fuel) (gk : GKeys) (ms : List Mem)
    (raw : String) (ht : (scanKeys ms).type = some (.str raw "Feature")) (hk : KeysRel gk (scanKeys ms)) (hJ : JOKM ms = true) :
    AgreeU (PGen.parseJSONFeature (mops rec) (some gk) (some (optsG o))) (parse o (fuel + 1) (.obj ms)) :=
  (kindHyps_of rec o fuel hrec ms hJ).feature gk raw ht hk

/-- BRIDGE (2): the polygon bridges under NoOverflowLit alone -/
theorem polyFin_bridge (ms : List Mem) (hJ : JOKM ms = true) : PolyFin ms :=
  fun rc rings ex hrc hp => polyFinV_of_JOK rc ((scan_ok ms hJ).1 rc hrc) rings ex hp

/-- BRIDGE, parseJSON on an object without overflowing literals -/
theorem parseJSON_bridge (rec : RecT) (o : POpts) (fuel : Nat) (hrec : RecOK rec o fuel) (ms : List Mem) (hJ : JOKM ms = true) :
    AgreeU (PGen.parseJSON (mops rec) [Piece.doc (.obj ms)] (some (optsG o))) (parse o (fuel + 1) (.obj ms)) :=
  parseJSON_eq rec o fuel hrec ms (kindHyps_of rec o fuel hrec ms hJ) (polyFin_bridge ms hJ)
    (fun items hgs x hx => JOKL_mem items (by simpa [JOK] using (scan_ok ms hJ).2.1 _ hgs) x hx)
    (fun items hfs x hx => JOKL_mem items (by simpa [JOK] using (scan_ok ms hJ).2.2.2.1 _ hfs) x hx)

/-- BRIDGE (3), the closing statement: generated Parse (recursion parameter := generated Parse, v.depth
    levels; loop fuel ≥ leading whitespace + 1) on whitespace ++ text of v = the model's parseTop -/
theorem parse_bridge (o : POpts) (v : JVal) (hv : JOK v = true) (ws : List Char) (hws : ∀ c ∈ ws, isWs c = true) (n : Nat) :
    ∃ g, PGen.Parse (mops (genParse o v.depth)) (ws.length + 1 + n) (ws.map Piece.ch ++ [Piece.doc v]) (some (optsG o)) = some g ∧
      AgreeU g (parseTop o v) :=
  PGlue.parse_bridge o v hv ws hws n

/-- the same with nil options (the defaults) -/
theorem parse_bridge_nil (v : JVal) (hv : JOK v = true) (ws : List Char) (hws : ∀ c ∈ ws, isWs c = true) (n : Nat) :
    ∃ g, PGen.Parse (mops (genParse {} v.depth)) (ws.length + 1 + n) (ws.map Piece.ch ++ [Piece.doc v]) none = some g ∧
      AgreeU g (parseTop {} v) :=
  PGlue.parse_bridge_nil v hv ws hws n

#print axioms kinds_bridge
#print axioms parseJSONMultiPoint_bridge
#print axioms parseJSONMultiLineString_bridge
#print axioms parseJSONMultiPolygon_bridge
#print axioms parseJSONFeature_bridge
#print axioms polyFin_bridge
#print axioms parseJSON_bridge
#print axioms parse_bridge
#print axioms parse_bridge_nil
#print axioms parseJSONPolygonCoords_bridge
#print axioms parseJSONPolygon_bridge
#print axioms parseInitRectIndex_bridge
#print axioms parseJSONGeometryCollection_bridge
#print axioms parseJSONFeatureCollection_bridge
#print axioms scan_bridge
#print axioms defaultOptions_bridge
#print axioms parseJSONPoint_bridge
#print axioms parseJSONLineString_bridge
#print axioms parseJSONPointCoords_bridge
#print axioms parseJSONLineStringCoords_bridge
#print axioms parseBBoxAndExtras_bridge
#print axioms toGeometryOpts_bridge

end Geo.ParseBridge
