/-
  GeoProofs.IndexFloat.Dbl — the carrier of ALL finite IEEE-754 binary64 values for the segment
  indexes (GeoModel/Index.lean), built on the exact model of `GeoProofs/Float`.

  * `Dbl`        : a rational `val` with a proof `F64 val` (x = m·2^e, |m| < 2^53, -1074 ≤ e ≤ 971):
                   normal numbers, subnormals, ±maxF, zero (signed zeros are identified: IEEE
                   comparisons, the only observers here, do not distinguish them).
  * `rs x`       : IEEE round-to-nearest-even of the exact result `x`, i.e. `rn x`, when it is finite
                   (`InRange x` : |x| < 2^1024 - 2^970); where IEEE returns ±Inf, `rs` SATURATES to
                   ±maxF (maxF = 2^1024 - 2^971).  ±maxF has the sign of ±Inf, which is all the
                   index proofs observe of a coordinate difference.
  * `Carrier Dbl`: `lt` the order of the values; `sub a b = rs (a - b)` (geometry/rtree.go),
                   `mul a b = rs (a * b)`, `mid a b = rs (rs (a + b) / 2)`
                   (geometry/qtree.go: `(bounds.Min.X + bounds.Max.X) / 2`, two roundings).

  FAITHFULNESS.  When the exact result is at most 2^1023 in magnitude these are literally the
  operations of the full IEEE model `FQ` (`toFQ_sub`, `toFQ_mul`, `toFQ_mid` in IEEE.lean); e.g.
  all |coordinates| ≤ 2^510 keeps every difference, area product and enlargement of rtree.go
  and every midpoint of qtree.go in that range (remark, not a theorem here).  When an operation
  overflows, Go continues with ±Inf and possibly NaN (Inf - Inf, 0·Inf in `chooseLeast`'s
  areas); these only feed the R-tree's CHOICE of subtree and `(a+b)/2` of the quadtree.  For
  coordinate differences the sign law holds in the model with real infinities as well
  (`ieee_sub_neg/pos`, IEEE.lean), so nothing the proofs use depends on saturation; but the
  saturated model may then differ from Go in the SHAPE of the tree (hence in the visit ORDER,
  not in the visited set).  NaN cannot be put in a carrier with a lawful order (`x < NaN` and
  `NaN < x` are false for all x, which breaks transitivity of `≤`), so the generic theorems
  cannot be instantiated at a carrier containing it.
-/
import GeoModel.Index
import GeoProofs.Float.Closure
import GeoProofs.Float.Ops

namespace Geo.DF
open Geo.F

/-- the largest finite double, (2^53 - 1)·2^971 = 2^1024 - 2^971 -/
def maxF : ℚ := (2 ^ 53 - 1) * (2 : ℚ) ^ (971 : ℤ)

theorem maxF_eq : maxF = (2 : ℚ) ^ (1024 : ℤ) - 2 ^ (971 : ℤ) := by
  unfold maxF
  rw [show (1024 : ℤ) = 53 + 971 by norm_num, zpow_add₀ (by norm_num)]
  generalize (2 : ℚ) ^ (971 : ℤ) = B
  norm_num
  ring

theorem maxF_pos : 0 < maxF := by
  exact mul_pos (by norm_num) (two_zpow_pos 971)

theorem F64_maxF : F64 maxF :=
  ⟨2 ^ 53 - 1, 971, by norm_num, by norm_num, le_refl _, by unfold maxF; congr 1; norm_num⟩

instance (x : ℚ) : Decidable (InRange x) := by unfold InRange; infer_instance

/-- saturating IEEE rounding: `rn x` when finite, ±maxF where IEEE gives ±Inf -/
def rs (x : ℚ) : ℚ := if InRange x then rn x else if 0 < x then maxF else -maxF

theorem rs_of_inRange {x : ℚ} (h : InRange x) : rs x = rn x := if_pos h

theorem F64_rs (x : ℚ) : F64 (rs x) := by
  unfold rs
  split
  · next h => exact F64_rn h
  · split
    · exact F64_maxF
    · exact F64_neg F64_maxF

theorem inRange_zero : InRange 0 := by
  unfold InRange
  rw [abs_zero, sub_pos]
  exact two_zpow_lt (by norm_num)

/-- a finite double is in range -/
theorem F64.inRange {x : ℚ} (h : F64 x) : InRange x := by
  obtain ⟨m, e, hm, _, he, rfl⟩ := h
  unfold InRange
  have hm' : |(m : ℚ)| ≤ 2 ^ 53 - 1 := by
    have : |m| ≤ 2 ^ 53 - 1 := by omega
    calc |(m : ℚ)| = ((|m| : ℤ) : ℚ) := by rw [Int.cast_abs]
      _ ≤ ((2 ^ 53 - 1 : ℤ) : ℚ) := Int.cast_le.mpr this
      _ = 2 ^ 53 - 1 := by norm_num
  have hp := two_zpow_pos e
  have he' : (2 : ℚ) ^ e ≤ 2 ^ (971 : ℤ) := two_zpow_le he
  rw [abs_mul, abs_of_pos hp]
  have h1 : |(m : ℚ)| * 2 ^ e ≤ maxF := by
    unfold maxF
    exact mul_le_mul hm' he' hp.le (by norm_num)
  have h2 : maxF < (2 : ℚ) ^ (1024 : ℤ) - 2 ^ (970 : ℤ) := by
    rw [maxF_eq]
    have : (2 : ℚ) ^ (970 : ℤ) < 2 ^ (971 : ℤ) := two_zpow_lt (by norm_num)
    generalize (2 : ℚ) ^ (970 : ℤ) = A at *
    generalize (2 : ℚ) ^ (971 : ℤ) = B at *
    linarith
  exact lt_of_le_of_lt h1 h2

/-- `rs` is the identity on doubles -/
theorem rs_of_F64 {x : ℚ} (h : F64 x) : rs x = x := by
  rw [rs_of_inRange (F64.inRange h), rn_of_F64 h]

/-! ### the carrier -/

/-- a finite binary64 value -/
structure Dbl where
  val : ℚ
  isF64 : F64 val

theorem Dbl.ext {a b : Dbl} (h : a.val = b.val) : a = b := by
  cases a; cases b; cases h; rfl

/-- the double obtained by (saturating) IEEE rounding of an exact result -/
def Dbl.round (x : ℚ) : Dbl := ⟨rs x, F64_rs x⟩

/-- a rational that is a double, as a double -/
def Dbl.ofF64 (x : ℚ) (h : F64 x) : Dbl := ⟨x, h⟩

def Dbl.zero : Dbl := ⟨0, F64_zero⟩
def Dbl.one : Dbl := ⟨1, by simpa using F64_int 1 (by norm_num)⟩

theorem Dbl.round_val (x : ℚ) : (Dbl.round x).val = rs x := by rfl
theorem Dbl.zero_val : Dbl.zero.val = 0 := by rfl
theorem Dbl.one_val : Dbl.one.val = 1 := by rfl

theorem Dbl.round_of_val (a : Dbl) : Dbl.round a.val = a := Dbl.ext (rs_of_F64 a.isF64)

/-- binary64 arithmetic as executed by the Go code (see the header for overflow) -/
instance : Carrier Dbl where
  lt a b := decide (a.val < b.val)
  mid a b := Dbl.round ((Dbl.round (a.val + b.val)).val / 2)
  sub a b := Dbl.round (a.val - b.val)
  mul a b := Dbl.round (a.val * b.val)
  one := Dbl.one
  zero := Dbl.zero

theorem lt_def (a b : Dbl) : Carrier.lt a b = decide (a.val < b.val) := by rfl
theorem sub_val (a b : Dbl) : (Carrier.sub a b).val = rs (a.val - b.val) := by rfl
theorem mul_val (a b : Dbl) : (Carrier.mul a b).val = rs (a.val * b.val) := by rfl
theorem mid_val (a b : Dbl) : (Carrier.mid a b).val = rs (rs (a.val + b.val) / 2) := by rfl
theorem zero_val : (Carrier.zero : Dbl).val = 0 := by rfl
theorem one_val : (Carrier.one : Dbl).val = 1 := by rfl

end Geo.DF
