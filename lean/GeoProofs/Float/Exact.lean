/-
  GeoProofs.Float.Exact — on the regime E (multiples of 2^-4 up to 2^20 in magnitude) the
  subtractions, products of differences and sums/differences of two such products made by
  geometry/segment.go are exact in binary64.

    E  = Dy 4 2^24      coordinates               (25 significant bits)
    D1 = Dy 4 2^25      differences of two        (26 bits)
    D2 = Dy 8 2^50      products of two D1        (51 bits)
    D3 = Dy 8 2^51      sums / differences of D2  (52 bits)  — all < 2^53, hence F64.

  Since every intermediate is exact, a fused multiply-add (which Go may emit for
  `x*y - z*w` on arm64/ppc64/s390x) yields the same value as the separate operations.
-/
import GeoProofs.Float.Ops

namespace Geo.F

def D1 (x : ℚ) : Prop := Dy 4 (2 ^ 25) x
def D2 (x : ℚ) : Prop := Dy 8 (2 ^ 50) x
def D3 (x : ℚ) : Prop := Dy 8 (2 ^ 51) x

theorem InE.sub {x y : ℚ} (hx : InE x) (hy : InE y) : D1 (x - y) :=
  (Dy.sub hx hy).mono (by norm_num)

theorem InE.D1 {x : ℚ} (hx : InE x) : D1 x := Dy.mono hx (by norm_num)

theorem D1.mul {x y : ℚ} (hx : D1 x) (hy : D1 y) : D2 (x * y) :=
  (Dy.mul hx hy).mono (by norm_num)

theorem D2.sub {x y : ℚ} (hx : D2 x) (hy : D2 y) : D3 (x - y) :=
  (Dy.sub hx hy).mono (by norm_num)

theorem D2.add {x y : ℚ} (hx : D2 x) (hy : D2 y) : D3 (x + y) :=
  (Dy.add hx hy).mono (by norm_num)

theorem D1.F64 {x : ℚ} (h : D1 x) : F64 x := Dy.F64 h (by norm_num) (by norm_num)
theorem D2.F64 {x : ℚ} (h : D2 x) : F64 x := Dy.F64 h (by norm_num) (by norm_num)
theorem D3.F64 {x : ℚ} (h : D3 x) : F64 x := Dy.F64 h (by norm_num) (by norm_num)

/-- a coordinate difference is computed exactly -/
theorem fsub_exact {x y : ℚ} (hx : InE x) (hy : InE y) : fsub x y = x - y :=
  rn_of_F64 (hx.sub hy).F64

/-- a product of two coordinate differences is computed exactly -/
theorem fmul_exact {x y : ℚ} (hx : D1 x) (hy : D1 y) : fmul x y = x * y :=
  rn_of_F64 (hx.mul hy).F64

/-- the difference / sum of two such products is computed exactly -/
theorem fsub_exact2 {x y : ℚ} (hx : D2 x) (hy : D2 y) : fsub x y = x - y :=
  rn_of_F64 (hx.sub hy).F64

theorem fadd_exact2 {x y : ℚ} (hx : D2 x) (hy : D2 y) : fadd x y = x + y :=
  rn_of_F64 (hx.add hy).F64

/-- the `cross`-type expression `(a-b)*(c-d) - (e-f)*(g-h)` of segment.go, as the float code
    computes it, equals the exact value, and that value is a D3 number. -/
theorem cross_exact {a b c d e f g h : ℚ} (ha : InE a) (hb : InE b) (hc : InE c) (hd : InE d)
    (he : InE e) (hf : InE f) (hg : InE g) (hh : InE h) :
    fsub (fmul (fsub a b) (fsub c d)) (fmul (fsub e f) (fsub g h))
      = (a - b) * (c - d) - (e - f) * (g - h)
    ∧ D3 ((a - b) * (c - d) - (e - f) * (g - h)) := by
  rw [fsub_exact ha hb, fsub_exact hc hd, fsub_exact he hf, fsub_exact hg hh,
    fmul_exact (ha.sub hb) (hc.sub hd), fmul_exact (he.sub hf) (hg.sub hh),
    fsub_exact2 ((ha.sub hb).mul (hc.sub hd)) ((he.sub hf).mul (hg.sub hh))]
  exact ⟨rfl, ((ha.sub hb).mul (hc.sub hd)).sub ((he.sub hf).mul (hg.sub hh))⟩

/-- the bounds are attained: non-vacuity of the classes at their extreme points -/
example : InE (2 ^ 20) := ⟨2 ^ 24, by norm_num, by norm_num⟩
example : InE (-(2 ^ 20) + 1 / 16) := ⟨-(2 ^ 24) + 1, by norm_num, by norm_num⟩

end Geo.F
