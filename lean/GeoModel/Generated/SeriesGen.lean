/-
  GENERATED FILE — do not edit.  Regenerate with
      cd /verif/translate && go build -o bin/translate . && \
        ./bin/translate series /repo > /verif/lean/GeoModel/Generated/SeriesGen.lean

  Syntactic translation (translate/series.go, on top of translate/kernel.go) of processPoints of
  geometry/series.go.  Conventions as in Generated/KernelGen.lean, and in addition:
    * int ↦ Int (unbounded).  Only integer literals, len(s), + and - are accepted on ints, so
      every int value is bounded by len(points) plus the literals of the source: the int64
      arithmetic of Go cannot wrap around here.  An int comparison a < b ↦ decide (a < b);
    * []Point ↦ Array (KPoint α); len(s) ↦ (s.size : Int); s[e] ↦ idx s e, the element when
      0 ≤ e < len(s) and the zero Point otherwise.  Go panics in that case: the flag oob' is
      raised (let oob' := oob' || !inb s e, in evaluation order and respecting the
      short-circuit of && and ||) before every statement or condition that indexes, and
      <f>Aux returns it as its first component; <f> and <f>Panics are its projections;
    * named results are variables initialised to their zero values; a bare return ↦ their tuple;
    * for i := lo; i < hi; i++ { body }, where body assigns neither i nor a variable of hi ↦
      loop (hi - lo).toNat (<f>_loopN captured…) state: the body is the separate definition
      <f>_loopN (iteration number k', state s' ↦ new state) with i = lo + k'; the state is the
      tuple of the outer variables the body assigns, in alphabetical order; continue ↦ the
      current state;
    * an if statement that may fall through on both sides and is followed by more statements is
      joined through the tuple jN' of the variables it assigns (projections .1, .2.1, …).
  Anything outside the recognised subset appears below as  opaque <name>_unrecognised : Unit.
-/
import GeoModel.KNum

set_option linter.unusedVariables false

namespace Geo.SGen
open Geo
open scoped Geo.KNum

/-- Go's bounds check of `s[i]` -/
def inb {β : Type} (s : Array β) (i : Int) : Bool := decide (0 ≤ i) && decide (i.toNat < s.size)

/-- `s[i]` on a []Point; the zero Point when out of range (Go panics: see oob') -/
def idx {α : Type} [KNum α] (s : Array (KPoint α)) (i : Int) : KPoint α :=
  if inb s i then s.getD i.toNat { x := (KNum.ofNat 0 : α), y := (KNum.ofNat 0 : α) }
  else { x := (KNum.ofNat 0 : α), y := (KNum.ofNat 0 : α) }

/-- a counted loop: `body k` for k = 0, …, n-1 -/
def loop {σ : Type} (n : Nat) (body : Nat → σ → σ) (s : σ) : σ :=
  (List.range n).foldl (fun s k => body k s) s

/-- body of the Go loop `for i := 0; i < npoints; i++ { … }` of processPoints — geometry/series.go:242; k' is the iteration number,
    s' the values of (a, b, c, concave, cwc, dir, oob', rect) before the iteration, the result their values after it -/
def processPoints_loop1 {α : Type} [KNum α] (npoints : Int) (points : Array (KPoint α)) (k' : Nat) (s' : KPoint α × KPoint α × KPoint α × Bool × α × Int × Bool × KRect α) :
    KPoint α × KPoint α × KPoint α × Bool × α × Int × Bool × KRect α :=
  let a := s'.1
  let b := s'.2.1
  let c := s'.2.2.1
  let concave := s'.2.2.2.1
  let cwc := s'.2.2.2.2.1
  let dir := s'.2.2.2.2.2.1
  let oob' := s'.2.2.2.2.2.2.1
  let rect := s'.2.2.2.2.2.2.2
  let i : Int := Int.ofNat k'
  let j1' : Bool × KRect α :=
    if decide (i = (0 : Int)) then
      let oob' := oob' || !inb points i || !inb points i
      let rect := { min := idx points i, max := idx points i : KRect α }
      (oob', rect)
    else
      let oob' := oob' || !inb points i
      let j0' : Bool × KRect α :=
        if (idx points i).x <ₖ rect.min.x then
          let oob' := oob' || !inb points i
          let rect := { rect with min := { rect.min with x := (idx points i).x } }
          (oob', rect)
        else
          let oob' := oob' || !inb points i
          if (idx points i).x >ₖ rect.max.x then
            let oob' := oob' || !inb points i
            let rect := { rect with max := { rect.max with x := (idx points i).x } }
            (oob', rect)
          else
            (oob', rect)
      let oob' := j0'.1
      let rect := j0'.2
      let oob' := oob' || !inb points i
      if (idx points i).y <ₖ rect.min.y then
        let oob' := oob' || !inb points i
        let rect := { rect with min := { rect.min with y := (idx points i).y } }
        (oob', rect)
      else
        let oob' := oob' || !inb points i
        if (idx points i).y >ₖ rect.max.y then
          let oob' := oob' || !inb points i
          let rect := { rect with max := { rect.max with y := (idx points i).y } }
          (oob', rect)
        else
          (oob', rect)
  let oob' := j1'.1
  let rect := j1'.2
  let oob' := oob' || !inb points i
  let a := idx points i
  let j2' : KPoint α × KPoint α × Bool :=
    if decide (i = npoints - (1 : Int)) then
      let oob' := oob' || !inb points (0 : Int)
      let b := idx points (0 : Int)
      let oob' := oob' || !inb points (1 : Int)
      let c := idx points (1 : Int)
      (b, c, oob')
    else if decide (i = npoints - (2 : Int)) then
      let oob' := oob' || !inb points (i + (1 : Int))
      let b := idx points (i + (1 : Int))
      let oob' := oob' || !inb points (0 : Int)
      let c := idx points (0 : Int)
      (b, c, oob')
    else
      let oob' := oob' || !inb points (i + (1 : Int))
      let b := idx points (i + (1 : Int))
      let oob' := oob' || !inb points (i + (2 : Int))
      let c := idx points (i + (2 : Int))
      (b, c, oob')
  let b := j2'.1
  let c := j2'.2.1
  let oob' := j2'.2.2
  let cwc := cwc +ₖ (b.x -ₖ a.x) *ₖ (b.y +ₖ a.y)
  if concave then
    (a, b, c, concave, cwc, dir, oob', rect)
  else
    let zCrossProduct := (b.x -ₖ a.x) *ₖ (c.y -ₖ b.y) -ₖ (b.y -ₖ a.y) *ₖ (c.x -ₖ b.x)
    if decide (dir = (0 : Int)) then
      if zCrossProduct <ₖ (KNum.ofNat 0 : α) then
        let dir : Int := (-(1 : Int) : Int)
        (a, b, c, concave, cwc, dir, oob', rect)
      else if zCrossProduct >ₖ (KNum.ofNat 0 : α) then
        let dir : Int := (1 : Int)
        (a, b, c, concave, cwc, dir, oob', rect)
      else
        (a, b, c, concave, cwc, dir, oob', rect)
    else if zCrossProduct <ₖ (KNum.ofNat 0 : α) then
      if decide (dir = (1 : Int)) then
        let concave := true
        (a, b, c, concave, cwc, dir, oob', rect)
      else
        (a, b, c, concave, cwc, dir, oob', rect)
    else if zCrossProduct >ₖ (KNum.ofNat 0 : α) then
      if decide (dir = (-(1 : Int) : Int)) then
        let concave := true
        (a, b, c, concave, cwc, dir, oob', rect)
      else
        (a, b, c, concave, cwc, dir, oob', rect)
    else
      (a, b, c, concave, cwc, dir, oob', rect)

/-- Go: `func processPoints(points []Point, closed bool) ( convex bool, rect Rect, clockwise bool, )` — geometry/series.go:225.
    First component: an index expression was out of range (the Go function panics). -/
def processPointsAux {α : Type} [KNum α] (points : Array (KPoint α)) (closed : Bool) : Bool × (Bool × KRect α × Bool) :=
  let oob' : Bool := false
  let convex : Bool := false
  let rect : KRect α := { min := { x := (KNum.ofNat 0 : α), y := (KNum.ofNat 0 : α) : KPoint α }, max := { x := (KNum.ofNat 0 : α), y := (KNum.ofNat 0 : α) : KPoint α } : KRect α }
  let clockwise : Bool := false
  if closed && decide ((points.size : Int) < (3 : Int)) || decide ((points.size : Int) < (2 : Int)) then
    (oob', (convex, rect, clockwise))
  else
    let concave : Bool := false
    let dir : Int := (0 : Int)
    let a : KPoint α := { x := (KNum.ofNat 0 : α), y := (KNum.ofNat 0 : α) : KPoint α }
    let b : KPoint α := { x := (KNum.ofNat 0 : α), y := (KNum.ofNat 0 : α) : KPoint α }
    let c : KPoint α := { x := (KNum.ofNat 0 : α), y := (KNum.ofNat 0 : α) : KPoint α }
    let cwc : α := (KNum.ofNat 0 : α)
    let npoints : Int := (points.size : Int)
    let oob' := oob' || (closed && (!inb points (npoints - (1 : Int)) || !inb points (0 : Int)))
    let npoints :=
      if closed && KPoint.eq (idx points (npoints - (1 : Int))) (idx points (0 : Int)) then
        let npoints := npoints - (1 : Int)
        npoints
      else
        npoints
    -- Go loop `for i := 0; i < npoints; i++ { … }` at series.go:242: npoints.toNat iterations of processPoints_loop1
    let l1' := loop npoints.toNat (processPoints_loop1 npoints points) (a, b, c, concave, cwc, dir, oob', rect)
    let a := l1'.1
    let b := l1'.2.1
    let c := l1'.2.2.1
    let concave := l1'.2.2.2.1
    let cwc := l1'.2.2.2.2.1
    let dir := l1'.2.2.2.2.2.1
    let oob' := l1'.2.2.2.2.2.2.1
    let rect := l1'.2.2.2.2.2.2.2
    (oob', (!concave, rect, cwc >ₖ (KNum.ofNat 0 : α)))

/-- Go: `func processPoints(points []Point, closed bool) ( convex bool, rect Rect, clockwise bool, )` — geometry/series.go:225 (the results) -/
def processPoints {α : Type} [KNum α] (points : Array (KPoint α)) (closed : Bool) : Bool × KRect α × Bool :=
  (processPointsAux points closed).2

/-- does processPoints panic with an index out of range? -/
def processPointsPanics {α : Type} [KNum α] (points : Array (KPoint α)) (closed : Bool) : Bool :=
  (processPointsAux points closed).1

end Geo.SGen
