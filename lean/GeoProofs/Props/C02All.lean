/-
  C02, everything: Props/C02.lean (exact sub-cases, soundness, dispatch symmetry), the discrete
  Jordan lemma (GeoProofs/Jordan), and Props/C02Exact.lean (exactness of intersects against the
  specification for all kind pairs).
-/
import GeoProofs.Props.C02Jordan
import GeoProofs.Props.C02Exact
import GeoProofs.Props.C02Convex
