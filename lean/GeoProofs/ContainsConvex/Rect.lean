/-
  GeoProofs.ContainsConvex.Rect — the Rect receiver against `Spec.covers`, all valid arguments.
-/
import GeoProofs.ContainsConvex.Poly2

namespace Geo
namespace CC
open GL Jordan Contains

theorem rect_member_iff (lo hi p : Pt) :
    (Spec.Shape.rect lo hi).member p = true ↔
      lo.x ≤ p.x ∧ p.x ≤ hi.x ∧ lo.y ≤ p.y ∧ p.y ≤ hi.y := by
  simp only [Spec.Shape.member, Bool.and_eq_true, decide_eq_true_eq, and_assoc]

theorem rect_member_box (lo hi p : Pt) :
    (Spec.Shape.rect lo hi).member p = (⟨lo, hi⟩ : Box).containsPt p := by
  rw [Bool.eq_iff_iff, rect_member_iff, containsPt_iff]

theorem rect_segInside (lo hi a b : Pt) :
    Spec.segInside (Spec.Shape.rect lo hi).member (Spec.Shape.rect lo hi).edges a b =
      ((Spec.Shape.rect lo hi).member a && (Spec.Shape.rect lo hi).member b) := by
  apply segInside_of_convex
  intro ha hb x hx
  rw [rect_member_iff] at ha hb ⊢
  obtain ⟨-, x1, x2, y1, y2⟩ := hx
  refine ⟨le_trans (le_min ha.1 hb.1) x1, le_trans x2 (max_le ha.2.1 hb.2.1),
    le_trans (le_min ha.2.2.1 hb.2.2.1) y1, le_trans y2 (max_le ha.2.2.2 hb.2.2.2)⟩

theorem rect_all (lo hi : Pt) (es : List (Pt × Pt)) :
    es.all (fun e => Spec.segInside (Spec.Shape.rect lo hi).member
      (Spec.Shape.rect lo hi).edges e.1 e.2) = true ↔
    ∀ e ∈ es, (Spec.Shape.rect lo hi).member e.1 = true ∧
      (Spec.Shape.rect lo hi).member e.2 = true := by
  rw [List.all_eq_true]
  refine forall_congr' (fun e => forall_congr' (fun _ => ?_))
  rw [rect_segInside, Bool.and_eq_true]

/-- the specification on a rectangle receiver, arguments other than points -/
theorem covers_rect_eq (lo hi : Pt) (B : Spec.Shape) (hB : ∀ p, B ≠ .point p) :
    Spec.covers (.rect lo hi) B = true ↔
      (B.nonEmpty = true ∧ ¬ (Spec.isRegion B = true ∧ Spec.isRegion (.rect lo hi) = false) ∧
        ∀ e ∈ B.edges, (Spec.Shape.rect lo hi).member e.1 = true ∧
          (Spec.Shape.rect lo hi).member e.2 = true) := by
  have hall := rect_all lo hi B.edges
  cases B with
  | point p => exact absurd rfl (hB p)
  | rect lo' hi' =>
    unfold Spec.covers
    simp only [Spec.Shape.nonEmpty, Spec.Shape.holes, List.all_nil, Bool.true_and]
    cases h1 : Spec.isRegion (.rect lo' hi') <;> cases h2 : Spec.isRegion (.rect lo hi) <;>
      simp [hall]
  | line l =>
    unfold Spec.covers
    have h1 : Spec.isRegion (.line l) = false := rfl
    simp only [h1, Spec.Shape.nonEmpty, Spec.Shape.holes, List.all_nil, Bool.true_and,
      Bool.false_and, Bool.false_eq_true, if_false, Bool.and_true, Bool.and_eq_true, hall]
    simp
  | poly oext oholes =>
    unfold Spec.covers
    have h1 : Spec.isRegion (.poly oext oholes) = true := rfl
    simp only [h1, Spec.Shape.nonEmpty, Spec.Shape.holes, List.all_nil, Bool.true_and, if_true,
      Bool.and_true]
    cases h2 : Spec.isRegion (.rect lo hi) <;> simp [hall]

/-! ### a simple ring is not contained in a vertical or horizontal line -/

theorem foldl_add_eq {α : Type} (g : α → Rat) (l : List α) (a : Rat) :
    l.foldl (fun acc e => acc + g e) a = a + (l.map g).sum := by
  induction l generalizing a with
  | nil => simp
  | cons x xs ih => simp only [List.foldl_cons, List.map_cons, List.sum_cons, ih]; ring

theorem sum_range_tele (g : Nat → Rat) (n : Nat) :
    ((List.range n).map (fun i => g (i+1) - g i)).sum = g n - g 0 := by
  induction n with
  | zero => simp
  | succ n ih =>
    rw [List.range_succ, List.map_append, List.sum_append, ih]
    simp

theorem area2_zero_of_line (L : List Pt) (hs : Spec.simpleRing L = true)
    (h : (∃ c, ∀ v ∈ L, v.x = c) ∨ (∃ c, ∀ v ∈ L, v.y = c)) : False := by
  have harea : Spec.area2 L ≠ 0 := by
    unfold Spec.simpleRing at hs
    simp only [Bool.and_eq_true, decide_eq_true_eq] at hs
    exact hs.1.2
  obtain ⟨hlen, -, hE, -⟩ := Cvx.ring_data L hs
  apply harea
  unfold Spec.area2
  rw [foldl_add_eq, zero_add, hE, List.map_map]
  have hper : Cvx.cyc L (SeriesL.nptsL L) = Cvx.cyc L 0 := by
    have := Cvx.cyc_per L 0
    rwa [zero_add] at this
  have hv : ∀ i, Cvx.cyc L i ∈ L := by
    intro i
    unfold Cvx.cyc
    have hN : 0 < SeriesL.nptsL L := SeriesL.nptsL_pos L (by omega)
    have hlt : i % SeriesL.nptsL L < L.length := by
      have := Nat.mod_lt i hN
      have : SeriesL.nptsL L ≤ L.length := by unfold SeriesL.nptsL; split_ifs <;> omega
      omega
    rw [getElem!_pos L _ hlt]
    exact List.getElem_mem hlt
  rcases h with ⟨c, hc⟩ | ⟨c, hc⟩
  · have : (List.range (SeriesL.nptsL L)).map ((fun e : Pt × Pt => e.1.x * e.2.y - e.2.x * e.1.y) ∘
        (fun i => (Cvx.cyc L i, Cvx.cyc L (i+1)))) =
        (List.range (SeriesL.nptsL L)).map (fun i => c * (Cvx.cyc L (i+1)).y - c * (Cvx.cyc L i).y) := by
      apply List.map_congr_left
      intro i _
      simp only [Function.comp, hc _ (hv i), hc _ (hv (i+1))]
    rw [this, sum_range_tele (fun i => c * (Cvx.cyc L i).y), hper]
    ring
  · have : (List.range (SeriesL.nptsL L)).map ((fun e : Pt × Pt => e.1.x * e.2.y - e.2.x * e.1.y) ∘
        (fun i => (Cvx.cyc L i, Cvx.cyc L (i+1)))) =
        (List.range (SeriesL.nptsL L)).map
          (fun i => (-c) * (Cvx.cyc L (i+1)).x - (-c) * (Cvx.cyc L i).x) := by
      apply List.map_congr_left
      intro i _
      simp only [Function.comp, hc _ (hv i), hc _ (hv (i+1))]
      ring
    rw [this, sum_range_tele (fun i => (-c) * (Cvx.cyc L i).x), hper]
    ring

end CC
end Geo
