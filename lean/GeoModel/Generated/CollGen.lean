/-
  GENERATED FILE — do not edit.  Regenerate with
      cd /verif/translate && go build -o bin/translate . && \
        ./bin/translate collection /repo > /verif/lean/GeoModel/Generated/CollGen.lean

  Syntactic translation (translate/collection.go) of the methods of *collection (collection.go, the
  type embedded in MultiPoint, MultiLineString, MultiPolygon, GeometryCollection and
  FeatureCollection).  Not translated here: AppendJSON, JSON, MarshalJSON, String, parseInitRectIndex (parsers / writers translators).

  Conventions:
    * the definitions are parametrised by `ops : Ops …`: one type parameter per Go type met in the
      source (root package T<Name>, package geometry G<Name>, another package X<Name>, float64 ↦ F,
      interface{} ↦ Any, int ↦ Int (unbounded), []T and [n]T ↦ List T) and one field per distinct
      callee / field read found in the source that is not itself translated here:
        method M of type T ↦ <t>M (Object ↦ obj…, Spatial ↦ spatial…, geometry.Rect ↦ gRect…); a
        call through the interface Object / Spatial is the DYNAMIC DISPATCH supplied by whoever
        instantiates ops — when the dynamic type is one of the collection types it is the method
        translated here (recursion through the interface);
        field f of struct T ↦ <t>_f (a field of pointer type is an Option: none = nil);
        a package-level function f ↦ fn_f (gfn_f: package geometry); x.(T) ↦ <x>As<T>; the implicit
        conversion of a *T to an interface I ↦ <i>Of<T>.
      The callees are taken to be pure, pointer-typed parameters and the receiver to be non-nil;
    * ITERATORS.  A method of another type that takes an iterator,
      `x.M(a, func(y U) bool {…})`, ↦ field <t>M : T → A → List U, the list of what the iterator is
      offered, in order; the call becomes  iterate (fun y st' => body) (ops.<t>M x a) st : S × Bool
      where st : S is the tuple of the variables of the enclosing scopes that the literal assigns
      (nested literals included) and `return e` in the literal ↦ (st, e): iterate stops at the first
      element for which e is false, its Bool is false iff it was stopped — the bool result of the
      method (ForEach) is taken to be that Bool.  A method translated here that TAKES an iterator
      (Search, ForEach) ↦ a definition polymorphic in the state σ of the iterator,
      (iter : U → σ → σ × Bool) (it' : σ), that returns the final state (paired with its Go result):
      iter(u) ↦ let c' := iter u it'; it' := c'.1, value c'.2; handing iter on to x.M(iter) ↦ iterate
      iter (ops.<t>M x) it'.  A call that runs an iterator may only stand (under !) as a statement,
      a condition, the right-hand side of an assignment or a returned value;
    * `if x.f != nil {A} else {B}` on a nilable field ↦ match ops.<t>_f x with | some f' => A | none => B;
      elsewhere x.f != nil ↦ Option.isSome; using a nilable value without such a test is refused;
    * a statement list becomes one expression, continuation style; x := e, x = e, x += e, x++, var x T
      ↦ let (shadowing; a Go name declared twice in one function is refused); the statements after
      an `if` are copied into every arm that falls through, except that an `if` neither arm of which
      leaves (no return / break / continue) and that is followed by more statements is joined:
      let j' := if c then (…; vars) else (…; vars), vars the variables it assigns;
    * `for _, x := range xs { body }` ↦ forRange (fun x st' => body) xs st: end of body / continue ↦
      Flow.next, break ↦ Flow.brk, return e ↦ Flow.ret e; ρ := Empty when the body does not return;
    * xs[i] ↦ sliceAt xs i (out of range, a panic in Go, is `default`); len(xs) ↦ Int.ofNat xs.length;
    * a direct call of a method translated here ↦ a call of its definition (callees first); a call
      that closes a cycle ↦ the Ops field rec_<name>.
  Anything outside the recognised subset appears below as  opaque <name>_unrecognised : Unit.
-/

set_option linter.unusedVariables false

namespace Geo.CGen

/-- how one pass through a loop body ends -/
inductive Flow (σ ρ : Type) where
  | next (s : σ) : Flow σ ρ
  | brk (s : σ) : Flow σ ρ
  | ret (r : ρ) : Flow σ ρ

/-- how a loop ends: normally (or by break) with the final state, or by `return r` -/
inductive Exit (σ ρ : Type) where
  | done (s : σ) : Exit σ ρ
  | ret (r : ρ) : Exit σ ρ

/-- a range loop over the list of the values of its variable -/
def forRange {ε σ ρ : Type} (body : ε → σ → Flow σ ρ) : List ε → σ → Exit σ ρ
  | [], s => Exit.done s
  | x :: xs, s =>
    match body x s with
    | Flow.next s' => forRange body xs s'
    | Flow.brk s' => Exit.done s'
    | Flow.ret r => Exit.ret r

/-- an iteration with iterator f over the list of what the iterator is offered: stops after the
    first element for which f answers false; the Bool is false iff it was stopped -/
def iterate {ε σ : Type} (f : ε → σ → σ × Bool) : List ε → σ → σ × Bool
  | [], s => (s, true)
  | x :: xs, s =>
    match f x s with
    | (s', true) => iterate f xs s'
    | (s', false) => (s', false)

/-- xs[i] -/
def sliceAt {α : Type} [Inhabited α] (xs : List α) (i : Int) : α :=
  if i < 0 then default else xs.getD i.toNat default

/-- the callees of the methods of *collection, one field per distinct callee found in the source.
    Any = interface{};
    F = float64;
    GLine = the Go type *geometry.Line (a non-nil pointer unless it is read from a struct field, where it is an Option);
    GPoint = the Go type geometry.Point;
    GPoly = the Go type *geometry.Poly (a non-nil pointer unless it is read from a struct field, where it is an Option);
    GRect = the Go type geometry.Rect;
    TCollection = the Go type *collection (a non-nil pointer unless it is read from a struct field, where it is an Option);
    TExtra = the Go type *extra (a non-nil pointer unless it is read from a struct field, where it is an Option);
    TObject = the Go type Object (an interface);
    TSpatial = the Go type Spatial (an interface);
    XRTree = the Go type *rtree.RTree (a non-nil pointer unless it is read from a struct field, where it is an Option);
-/
structure Ops (Any F GLine GPoint GPoly GRect TCollection TExtra TObject TSpatial XRTree : Type) where
  /-- the type assertion `value.(Object)` (x.(Object) on a interface{}); a failed assertion panics in Go: the value is taken to have that dynamic type -/
  anyAsObj : Any → TObject
  /-- field children of *collection — collection.go:9 -/
  collection_children : TCollection → List TObject
  /-- field extra of *collection — collection.go:10 (none = nil) -/
  collection_extra : TCollection → Option TExtra
  /-- field pempty of *collection — collection.go:13 -/
  collection_pempty : TCollection → Bool
  /-- field prect of *collection — collection.go:12 -/
  collection_prect : TCollection → GRect
  /-- field tree of *collection — collection.go:11 (none = nil) -/
  collection_tree : TCollection → Option XRTree
  /-- field members of *extra — object.go:74 -/
  extra_members : TExtra → String
  /-- Go: `func geoDistancePoints(a, b geometry.Point) float64` — object.go:316 -/
  fn_geoDistancePoints : GPoint → GPoint → F
  /-- Go: `func (series *baseSeries) Rect() Rect` — geometry/series.go:143 -/
  gLineRect : GLine → GRect
  /-- Go: `func (point Point) Rect() Rect` — geometry/point.go:23 -/
  gPointRect : GPoint → GRect
  /-- field X of geometry.Point — geometry/point.go:8 -/
  gPoint_X : GPoint → F
  /-- field Y of geometry.Point — geometry/point.go:8 -/
  gPoint_Y : GPoint → F
  /-- Go: `func (poly *Poly) Rect() Rect` — geometry/poly.go:53 -/
  gPolyRect : GPoly → GRect
  /-- Go: `func (rect Rect) Center() Point` — geometry/rect.go:26 -/
  gRectCenter : GRect → GPoint
  /-- Go: `func (rect Rect) IntersectsRect(other Rect) bool` — geometry/rect.go:135 -/
  gRectIntersectsRect : GRect → GRect → Bool
  /-- Go: `func (rect Rect) Valid() bool` — geometry/rect.go:104 -/
  gRectValid : GRect → Bool
  /-- field Max of geometry.Rect — geometry/rect.go:8 -/
  gRect_Max : GRect → GPoint
  /-- field Min of geometry.Rect — geometry/rect.go:8 -/
  gRect_Min : GRect → GPoint
  /-- Go: `Contains(other Object) bool` of interface Object — object.go:36 -/
  objContains : TObject → TObject → Bool
  /-- Go: `Empty() bool` of interface Object — object.go:32 -/
  objEmpty : TObject → Bool
  /-- Go: `ForEach(iter func(geom Object) bool) bool` of interface Object — object.go:44; the list of the Object the iterator is offered, in order (iterate cuts it where the iterator answers false; the bool result is taken to be: the iterator never answered false) -/
  objForEach : TObject → List TObject
  /-- Go: `Intersects(other Object) bool` of interface Object — object.go:38 -/
  objIntersects : TObject → TObject → Bool
  /-- Go: `NumPoints() int` of interface Object — object.go:43 -/
  objNumPoints : TObject → Int
  /-- the implicit conversion of a *collection to the interface Object -/
  objOfCollection : TCollection → TObject
  /-- Go: `Rect() geometry.Rect` of interface Object — object.go:34 -/
  objRect : TObject → GRect
  /-- Go: `Spatial() Spatial` of interface Object — object.go:45 -/
  objSpatial : TObject → TSpatial
  /-- method Search of *rtree.RTree (package rtree, not part of the repository: the type of the field is read off the call at collection.go:39); the list of the [2]float64, [2]float64, interface{} the iterator is offered, in order (iterate cuts it where the iterator answers false; a result of the method, if it has one, is not used) -/
  rTreeSearch : XRTree → (List F) → (List F) → List ((List F) × (List F) × Any)
  /-- Go: `DistancePoint(point geometry.Point) float64` of interface Spatial — spatial.go:15 -/
  spatialDistancePoint : TSpatial → GPoint → F
  /-- Go: `IntersectsLine(line *geometry.Line) bool` of interface Spatial — spatial.go:12 -/
  spatialIntersectsLine : TSpatial → GLine → Bool
  /-- Go: `IntersectsPoint(point geometry.Point) bool` of interface Spatial — spatial.go:11 -/
  spatialIntersectsPoint : TSpatial → GPoint → Bool
  /-- Go: `IntersectsPoly(poly *geometry.Poly) bool` of interface Spatial — spatial.go:13 -/
  spatialIntersectsPoly : TSpatial → GPoly → Bool
  /-- Go: `IntersectsRect(rect geometry.Rect) bool` of interface Spatial — spatial.go:10 -/
  spatialIntersectsRect : TSpatial → GRect → Bool
  /-- the implicit conversion of a *collection to the interface Spatial -/
  spatialOfCollection : TCollection → TSpatial
  /-- Go: `WithinLine(line *geometry.Line) bool` of interface Spatial — spatial.go:8 -/
  spatialWithinLine : TSpatial → GLine → Bool
  /-- Go: `WithinPoint(point geometry.Point) bool` of interface Spatial — spatial.go:7 -/
  spatialWithinPoint : TSpatial → GPoint → Bool
  /-- Go: `WithinPoly(poly *geometry.Poly) bool` of interface Spatial — spatial.go:9 -/
  spatialWithinPoly : TSpatial → GPoly → Bool
  /-- Go: `WithinRect(rect geometry.Rect) bool` of interface Spatial — spatial.go:6 -/
  spatialWithinRect : TSpatial → GRect → Bool

/-- Go: `func (g *collection) Indexed() bool` — collection.go:16 -/
def collectionIndexed {Any F GLine GPoint GPoly GRect TCollection TExtra TObject TSpatial XRTree : Type} (ops : Ops Any F GLine GPoint GPoly GRect TCollection TExtra TObject TSpatial XRTree) (g : TCollection) : Bool :=
  Option.isSome (ops.collection_tree g)

/-- Go: `func (g *collection) Children() []Object` — collection.go:20 -/
def collectionChildren {Any F GLine GPoint GPoly GRect TCollection TExtra TObject TSpatial XRTree : Type} (ops : Ops Any F GLine GPoint GPoly GRect TCollection TExtra TObject TSpatial XRTree) (g : TCollection) : List TObject :=
  ops.collection_children g

/-- Go: `func (g *collection) ForEach(iter func(geom Object) bool) bool` — collection.go:24 -/
def collectionForEach {Any F GLine GPoint GPoly GRect TCollection TExtra TObject TSpatial XRTree : Type} {σ : Type} (ops : Ops Any F GLine GPoint GPoly GRect TCollection TExtra TObject TSpatial XRTree) (g : TCollection) (iter : TObject → σ → σ × Bool) (it' : σ) : σ × Bool :=
  (match forRange (σ := σ) (ρ := σ × Bool) (fun (child : TObject) (st' : σ) =>
      let it' : σ := st'
      let c' : σ × Bool := iterate iter (ops.objForEach child) it'
      let it' : σ := c'.1
      if !c'.2 then
        Flow.ret (it', false)
      else
        Flow.next it') (ops.collection_children g) it' with
  | Exit.ret r' => r'
  | Exit.done st' =>
    let it' : σ := st'
    (it', true))

/-- Go: `func (g *collection) Base() []Object` — collection.go:33 -/
def collectionBase {Any F GLine GPoint GPoly GRect TCollection TExtra TObject TSpatial XRTree : Type} (ops : Ops Any F GLine GPoint GPoly GRect TCollection TExtra TObject TSpatial XRTree) (g : TCollection) : List TObject :=
  ops.collection_children g

/-- Go: `func (g *collection) Search(rect geometry.Rect, iter func(child Object) bool)` — collection.go:37 -/
def collectionSearch {Any F GLine GPoint GPoly GRect TCollection TExtra TObject TSpatial XRTree : Type} {σ : Type} (ops : Ops Any F GLine GPoint GPoly GRect TCollection TExtra TObject TSpatial XRTree) (g : TCollection) (rect : GRect) (iter : TObject → σ → σ × Bool) (it' : σ) : σ :=
  (match ops.collection_tree g with
  | some tree' =>
    let c' : σ × Bool := iterate (fun (x' : (List F) × (List F) × Any) (st' : σ) =>
          let value : Any := x'.2.2
          let it' : σ := st'
          let c' : σ × Bool := iter (ops.anyAsObj value) it'
          let it' : σ := c'.1
          (it', c'.2)) (ops.rTreeSearch tree' [ops.gPoint_X (ops.gRect_Min rect), ops.gPoint_Y (ops.gRect_Min rect)] [ops.gPoint_X (ops.gRect_Max rect), ops.gPoint_Y (ops.gRect_Max rect)]) it'
    let it' : σ := c'.1
    it'
  | none =>
    (match forRange (σ := σ) (ρ := Empty) (fun (child : TObject) (st' : σ) =>
        let it' : σ := st'
        if ops.objEmpty child then
          Flow.next it'
        else if ops.gRectIntersectsRect (ops.objRect child) rect then
          let c' : σ × Bool := iter child it'
          let it' : σ := c'.1
          if !c'.2 then
            Flow.brk it'
          else
            Flow.next it'
        else
          Flow.next it') (ops.collection_children g) it' with
    | Exit.ret r' => nomatch r'
    | Exit.done st' =>
      let it' : σ := st'
      it'))

/-- Go: `func (g *collection) Empty() bool` — collection.go:60 -/
def collectionEmpty {Any F GLine GPoint GPoly GRect TCollection TExtra TObject TSpatial XRTree : Type} (ops : Ops Any F GLine GPoint GPoly GRect TCollection TExtra TObject TSpatial XRTree) (g : TCollection) : Bool :=
  ops.collection_pempty g

/-- Go: `func (g *collection) Rect() geometry.Rect` — collection.go:68 -/
def collectionRect {Any F GLine GPoint GPoly GRect TCollection TExtra TObject TSpatial XRTree : Type} (ops : Ops Any F GLine GPoint GPoly GRect TCollection TExtra TObject TSpatial XRTree) (g : TCollection) : GRect :=
  ops.collection_prect g

/-- Go: `func (g *collection) Valid() bool` — collection.go:64 -/
def collectionValid {Any F GLine GPoint GPoly GRect TCollection TExtra TObject TSpatial XRTree : Type} (ops : Ops Any F GLine GPoint GPoly GRect TCollection TExtra TObject TSpatial XRTree) (g : TCollection) : Bool :=
  ops.gRectValid (collectionRect ops g)

/-- Go: `func (g *collection) Center() geometry.Point` — collection.go:72 -/
def collectionCenter {Any F GLine GPoint GPoly GRect TCollection TExtra TObject TSpatial XRTree : Type} (ops : Ops Any F GLine GPoint GPoly GRect TCollection TExtra TObject TSpatial XRTree) (g : TCollection) : GPoint :=
  ops.gRectCenter (collectionRect ops g)

/-- Go: `func (g *collection) Within(obj Object) bool` — collection.go:93 -/
def collectionWithin {Any F GLine GPoint GPoly GRect TCollection TExtra TObject TSpatial XRTree : Type} (ops : Ops Any F GLine GPoint GPoly GRect TCollection TExtra TObject TSpatial XRTree) (g : TCollection) (obj : TObject) : Bool :=
  ops.objContains obj (ops.objOfCollection g)

/-- Go: `func (g *collection) Contains(obj Object) bool` — collection.go:97 -/
def collectionContains {Any F GLine GPoint GPoly GRect TCollection TExtra TObject TSpatial XRTree : Type} (ops : Ops Any F GLine GPoint GPoly GRect TCollection TExtra TObject TSpatial XRTree) (g : TCollection) (obj : TObject) : Bool :=
  if collectionEmpty ops g then
    false
  else
    let objContained : Bool := false
    let c' : Bool × Bool := iterate (fun (geom : TObject) (st' : Bool) =>
          let objContained : Bool := st'
          if ops.objEmpty geom then
            (objContained, true)
          else
            let geomContained : Bool := false
            let c' : Bool := collectionSearch ops g (ops.objRect geom) (fun (child : TObject) (st' : Bool) =>
                  let geomContained : Bool := st'
                  if ops.objContains child geom then
                    let geomContained : Bool := true
                    (geomContained, false)
                  else
                    (geomContained, true)) geomContained
            let geomContained : Bool := c'
            if !geomContained then
              let objContained : Bool := false
              (objContained, false)
            else
              let objContained : Bool := true
              (objContained, true)) (ops.objForEach obj) objContained
    let objContained : Bool := c'.1
    objContained

/-- Go: `func (g *collection) Spatial() Spatial` — collection.go:129 -/
def collectionSpatial {Any F GLine GPoint GPoly GRect TCollection TExtra TObject TSpatial XRTree : Type} (ops : Ops Any F GLine GPoint GPoly GRect TCollection TExtra TObject TSpatial XRTree) (g : TCollection) : TSpatial :=
  ops.spatialOfCollection g

/-- Go: `func (g *collection) WithinRect(rect geometry.Rect) bool` — collection.go:131 -/
def collectionWithinRect {Any F GLine GPoint GPoly GRect TCollection TExtra TObject TSpatial XRTree : Type} (ops : Ops Any F GLine GPoint GPoly GRect TCollection TExtra TObject TSpatial XRTree) (g : TCollection) (rect : GRect) : Bool :=
  if collectionEmpty ops g then
    false
  else
    let withinCount : Int := 0
    let c' : Int := collectionSearch ops g rect (fun (child : TObject) (st' : Int) =>
          let withinCount : Int := st'
          if ops.spatialWithinRect (ops.objSpatial child) rect then
            let withinCount : Int := withinCount + 1
            (withinCount, true)
          else
            (withinCount, false)) withinCount
    let withinCount : Int := c'
    withinCount == (Int.ofNat (List.length (ops.collection_children g)))

/-- Go: `func (g *collection) WithinPoint(point geometry.Point) bool` — collection.go:146 -/
def collectionWithinPoint {Any F GLine GPoint GPoly GRect TCollection TExtra TObject TSpatial XRTree : Type} (ops : Ops Any F GLine GPoint GPoly GRect TCollection TExtra TObject TSpatial XRTree) (g : TCollection) (point : GPoint) : Bool :=
  if collectionEmpty ops g then
    false
  else
    let withinCount : Int := 0
    let c' : Int := collectionSearch ops g (ops.gPointRect point) (fun (child : TObject) (st' : Int) =>
          let withinCount : Int := st'
          if ops.spatialWithinPoint (ops.objSpatial child) point then
            let withinCount : Int := withinCount + 1
            (withinCount, true)
          else
            (withinCount, false)) withinCount
    let withinCount : Int := c'
    withinCount == (Int.ofNat (List.length (ops.collection_children g)))

/-- Go: `func (g *collection) WithinLine(line *geometry.Line) bool` — collection.go:161 -/
def collectionWithinLine {Any F GLine GPoint GPoly GRect TCollection TExtra TObject TSpatial XRTree : Type} (ops : Ops Any F GLine GPoint GPoly GRect TCollection TExtra TObject TSpatial XRTree) (g : TCollection) (line : GLine) : Bool :=
  if collectionEmpty ops g then
    false
  else
    let withinCount : Int := 0
    let c' : Int := collectionSearch ops g (ops.gLineRect line) (fun (child : TObject) (st' : Int) =>
          let withinCount : Int := st'
          if ops.spatialWithinLine (ops.objSpatial child) line then
            let withinCount : Int := withinCount + 1
            (withinCount, true)
          else
            (withinCount, false)) withinCount
    let withinCount : Int := c'
    withinCount == (Int.ofNat (List.length (ops.collection_children g)))

/-- Go: `func (g *collection) WithinPoly(poly *geometry.Poly) bool` — collection.go:176 -/
def collectionWithinPoly {Any F GLine GPoint GPoly GRect TCollection TExtra TObject TSpatial XRTree : Type} (ops : Ops Any F GLine GPoint GPoly GRect TCollection TExtra TObject TSpatial XRTree) (g : TCollection) (poly : GPoly) : Bool :=
  if collectionEmpty ops g then
    false
  else
    let withinCount : Int := 0
    let c' : Int := collectionSearch ops g (ops.gPolyRect poly) (fun (child : TObject) (st' : Int) =>
          let withinCount : Int := st'
          if ops.spatialWithinPoly (ops.objSpatial child) poly then
            let withinCount : Int := withinCount + 1
            (withinCount, true)
          else
            (withinCount, false)) withinCount
    let withinCount : Int := c'
    withinCount == (Int.ofNat (List.length (ops.collection_children g)))

/-- Go: `func (g *collection) Intersects(obj Object) bool` — collection.go:191 -/
def collectionIntersects {Any F GLine GPoint GPoly GRect TCollection TExtra TObject TSpatial XRTree : Type} (ops : Ops Any F GLine GPoint GPoly GRect TCollection TExtra TObject TSpatial XRTree) (g : TCollection) (obj : TObject) : Bool :=
  let intersects : Bool := false
  let c' : Bool × Bool := iterate (fun (geom : TObject) (st' : Bool) =>
        let intersects : Bool := st'
        if ops.objEmpty geom then
          (intersects, true)
        else
          let c' : Bool := collectionSearch ops g (ops.objRect geom) (fun (child : TObject) (st' : Bool) =>
                let intersects : Bool := st'
                if ops.objIntersects child geom then
                  let intersects : Bool := true
                  (intersects, false)
                else
                  (intersects, true)) intersects
          let intersects : Bool := c'
          (intersects, !intersects)) (ops.objForEach obj) intersects
  let intersects : Bool := c'.1
  intersects

/-- Go: `func (g *collection) IntersectsPoint(point geometry.Point) bool` — collection.go:211 -/
def collectionIntersectsPoint {Any F GLine GPoint GPoly GRect TCollection TExtra TObject TSpatial XRTree : Type} (ops : Ops Any F GLine GPoint GPoly GRect TCollection TExtra TObject TSpatial XRTree) (g : TCollection) (point : GPoint) : Bool :=
  let intersects : Bool := false
  let c' : Bool := collectionSearch ops g (ops.gPointRect point) (fun (child : TObject) (st' : Bool) =>
        let intersects : Bool := st'
        if ops.spatialIntersectsPoint (ops.objSpatial child) point then
          let intersects : Bool := true
          (intersects, false)
        else
          (intersects, true)) intersects
  let intersects : Bool := c'
  intersects

/-- Go: `func (g *collection) IntersectsRect(rect geometry.Rect) bool` — collection.go:223 -/
def collectionIntersectsRect {Any F GLine GPoint GPoly GRect TCollection TExtra TObject TSpatial XRTree : Type} (ops : Ops Any F GLine GPoint GPoly GRect TCollection TExtra TObject TSpatial XRTree) (g : TCollection) (rect : GRect) : Bool :=
  let intersects : Bool := false
  let c' : Bool := collectionSearch ops g rect (fun (child : TObject) (st' : Bool) =>
        let intersects : Bool := st'
        if ops.spatialIntersectsRect (ops.objSpatial child) rect then
          let intersects : Bool := true
          (intersects, false)
        else
          (intersects, true)) intersects
  let intersects : Bool := c'
  intersects

/-- Go: `func (g *collection) IntersectsLine(line *geometry.Line) bool` — collection.go:235 -/
def collectionIntersectsLine {Any F GLine GPoint GPoly GRect TCollection TExtra TObject TSpatial XRTree : Type} (ops : Ops Any F GLine GPoint GPoly GRect TCollection TExtra TObject TSpatial XRTree) (g : TCollection) (line : GLine) : Bool :=
  let intersects : Bool := false
  let c' : Bool := collectionSearch ops g (ops.gLineRect line) (fun (child : TObject) (st' : Bool) =>
        let intersects : Bool := st'
        if ops.spatialIntersectsLine (ops.objSpatial child) line then
          let intersects : Bool := true
          (intersects, false)
        else
          (intersects, true)) intersects
  let intersects : Bool := c'
  intersects

/-- Go: `func (g *collection) IntersectsPoly(poly *geometry.Poly) bool` — collection.go:247 -/
def collectionIntersectsPoly {Any F GLine GPoint GPoly GRect TCollection TExtra TObject TSpatial XRTree : Type} (ops : Ops Any F GLine GPoint GPoly GRect TCollection TExtra TObject TSpatial XRTree) (g : TCollection) (poly : GPoly) : Bool :=
  let intersects : Bool := false
  let c' : Bool := collectionSearch ops g (ops.gPolyRect poly) (fun (child : TObject) (st' : Bool) =>
        let intersects : Bool := st'
        if ops.spatialIntersectsPoly (ops.objSpatial child) poly then
          let intersects : Bool := true
          (intersects, false)
        else
          (intersects, true)) intersects
  let intersects : Bool := c'
  intersects

/-- Go: `func (g *collection) NumPoints() int` — collection.go:259 -/
def collectionNumPoints {Any F GLine GPoint GPoly GRect TCollection TExtra TObject TSpatial XRTree : Type} (ops : Ops Any F GLine GPoint GPoly GRect TCollection TExtra TObject TSpatial XRTree) (g : TCollection) : Int :=
  let n : Int := 0
  (match forRange (σ := Int) (ρ := Empty) (fun (child : TObject) (st' : Int) =>
      let n : Int := st'
      let n : Int := n + (ops.objNumPoints child)
      Flow.next n) (ops.collection_children g) n with
  | Exit.ret r' => nomatch r'
  | Exit.done st' =>
    let n : Int := st'
    n)

/-- Go: `func (g *collection) Distance(obj Object) float64` — collection.go:304 -/
def collectionDistance {Any F GLine GPoint GPoly GRect TCollection TExtra TObject TSpatial XRTree : Type} (ops : Ops Any F GLine GPoint GPoly GRect TCollection TExtra TObject TSpatial XRTree) (g : TCollection) (obj : TObject) : F :=
  ops.spatialDistancePoint (ops.objSpatial obj) (collectionCenter ops g)

/-- Go: `func (g *collection) DistancePoint(point geometry.Point) float64` — collection.go:307 -/
def collectionDistancePoint {Any F GLine GPoint GPoly GRect TCollection TExtra TObject TSpatial XRTree : Type} (ops : Ops Any F GLine GPoint GPoly GRect TCollection TExtra TObject TSpatial XRTree) (g : TCollection) (point : GPoint) : F :=
  ops.fn_geoDistancePoints (collectionCenter ops g) point

/-- Go: `func (g *collection) DistanceRect(rect geometry.Rect) float64` — collection.go:310 -/
def collectionDistanceRect {Any F GLine GPoint GPoly GRect TCollection TExtra TObject TSpatial XRTree : Type} (ops : Ops Any F GLine GPoint GPoly GRect TCollection TExtra TObject TSpatial XRTree) (g : TCollection) (rect : GRect) : F :=
  ops.fn_geoDistancePoints (collectionCenter ops g) (ops.gRectCenter rect)

/-- Go: `func (g *collection) DistanceLine(line *geometry.Line) float64` — collection.go:313 -/
def collectionDistanceLine {Any F GLine GPoint GPoly GRect TCollection TExtra TObject TSpatial XRTree : Type} (ops : Ops Any F GLine GPoint GPoly GRect TCollection TExtra TObject TSpatial XRTree) (g : TCollection) (line : GLine) : F :=
  ops.fn_geoDistancePoints (collectionCenter ops g) (ops.gRectCenter (ops.gLineRect line))

/-- Go: `func (g *collection) DistancePoly(poly *geometry.Poly) float64` — collection.go:316 -/
def collectionDistancePoly {Any F GLine GPoint GPoly GRect TCollection TExtra TObject TSpatial XRTree : Type} (ops : Ops Any F GLine GPoint GPoly GRect TCollection TExtra TObject TSpatial XRTree) (g : TCollection) (poly : GPoly) : F :=
  ops.fn_geoDistancePoints (collectionCenter ops g) (ops.gRectCenter (ops.gPolyRect poly))

/-- Go: `func (g *collection) Members() string` — collection.go:320 -/
def collectionMembers {Any F GLine GPoint GPoly GRect TCollection TExtra TObject TSpatial XRTree : Type} (ops : Ops Any F GLine GPoint GPoly GRect TCollection TExtra TObject TSpatial XRTree) (g : TCollection) : String :=
  (match ops.collection_extra g with
  | some extra' =>
    ops.extra_members extra'
  | none =>
    "")

end Geo.CGen
