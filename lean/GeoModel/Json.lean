/-
  GeoModel.Json — ordered JSON AST with raw leaves, the model of Parse (object.go and the
  per-type parsers) and of the AppendJSON writers.

  Boundary of this model: text ↔ AST is done outside (the harness decodes the same text with
  encoding/json's token stream and hands the AST to the driver); `gjson.Valid`, `pretty.Ugly`
  and the number codec (`strconv`) are contracts (DESIGN §7).
-/
import GeoModel.Object
namespace Geo

inductive JVal where
  | null | tru | fls
  /-- `fin`: finite; `val`: exact value; `canon`/`canonK`: AppendFloat(v) and AppendFloat(v*1000); `raw`: source text -/
  | num (fin : Bool) (val : Rat) (canon : String) (canonK : String) (raw : String)
  | str (raw : String) (dec : String)
  | arr (items : List JVal)
  /-- members in document order: raw key text (quoted), decoded key, value -/
  | obj (members : List (String × String × JVal))
deriving Repr, Inhabited

namespace JVal

mutual
/-- minified source text (`pretty.Ugly` of the raw value) -/
def render : JVal → String
  | .null => "null"
  | .tru => "true"
  | .fls => "false"
  | .num _ _ _ _ raw => raw
  | .str raw _ => raw
  | .arr items => "[" ++ renderItems items ++ "]"
  | .obj ms => "{" ++ renderMembers ms ++ "}"
def renderItems : List JVal → String
  | [] => ""
  | [v] => v.render
  | v :: vs => v.render ++ "," ++ renderItems vs
def renderMembers : List (String × String × JVal) → String
  | [] => ""
  | [(k, _, v)] => k ++ ":" ++ v.render
  | (k, _, v) :: ms => k ++ ":" ++ v.render ++ "," ++ renderMembers ms
end

def isArray : JVal → Bool
  | .arr _ => true
  | _ => false

/-- `gjson.Result.ForEach`: elements of an array, VALUES of an object, a scalar itself once -/
def elems : JVal → List JVal
  | .arr items => items
  | .obj ms => ms.map (fun m => m.2.2)
  | v => [v]

/-- `gjson.Get(obj, key)`: first member with that decoded key -/
def get (v : JVal) (key : String) : Option JVal :=
  match v with
  | .obj ms => (ms.find? (fun m => m.2.1 == key)).map (fun m => m.2.2)
  | _ => none

end JVal

inductive PErr where
  | dataInvalid | typeInvalid | typeMissing | typeUnknown
  | coordsInvalid | coordsMissing | geometryMissing
  | featuresMissing | featuresInvalid | geometriesMissing | geometriesInvalid | circleUnits
  | unmodelled    -- the model declines (string-valued circle radius): not compared
deriving Repr, DecidableEq, Inhabited

structure POpts where
  indexChildren : Nat := 64
  indexGeometry : Nat := 64
  indexKind : IndexKind := .quadtree
  requireValid : Bool := false
  allowSimplePoints : Bool := false
  disableCircle : Bool := false
  allowRects : Bool := false
deriving Repr, Inhabited

structure Keys where
  type : Option JVal := none
  coordinates : Option JVal := none
  geometries : Option JVal := none
  geometry : Option JVal := none
  features : Option JVal := none
  foreign : List (String × String × JVal) := []   -- in document order

def scanKeys (ms : List (String × String × JVal)) : Keys :=
  ms.foldl (fun k m =>
    match m.2.1 with
    | "type" => { k with type := some m.2.2 }
    | "coordinates" => { k with coordinates := some m.2.2 }
    | "geometries" => { k with geometries := some m.2.2 }
    | "geometry" => { k with geometry := some m.2.2 }
    | "features" => { k with features := some m.2.2 }
    | _ => { k with foreign := k.foreign ++ [m] }) {}

def Keys.members (k : Keys) : String :=
  if k.foreign.isEmpty then "" else "{" ++ JVal.renderMembers k.foreign ++ "}"

def Keys.hasProps (k : Keys) : Bool := k.foreign.any (fun m => m.2.1 == "properties")

/-- parseBBoxAndExtras -/
def withMembers (ex : Option Extra) (k : Keys) : Option Extra :=
  if k.members == "" then ex
  else match ex with
    | none => some ⟨0, [], k.members, k.hasProps⟩
    | some e => some { e with members := k.members, hasProps := k.hasProps }

/-- one parsed ordinate: finite value + canonical text, or NaN for `null` in points -/
structure Ord where
  fin : Bool
  val : Rat
  canon : String
deriving Repr, Inhabited

/-- the up-to-four-numbers loop shared by all position parsers -/
def takeNums (allowNull : Bool) : List JVal → Nat → Except PErr (List Ord)
  | [], _ => .ok []
  | v :: vs, count =>
    if count == 4 then .ok []
    else match v with
      | .num fin val canon _ _ => do
        let rest ← takeNums allowNull vs (count + 1)
        pure (⟨fin, val, if fin then canon else "null"⟩ :: rest)
      | .null =>
        if allowNull then do
          let rest ← takeNums allowNull vs (count + 1)
          pure (⟨false, 0, "null"⟩ :: rest)
        else .error .coordsInvalid
      | _ => .error .coordsInvalid

def mkPos (x y : Ord) : Pos := ⟨⟨x.val, y.val⟩, x.fin && y.fin, x.canon, y.canon⟩

/-- parseJSONPointCoords on an existing `rcoords` -/
def parsePointCoords (rcoords : JVal) : Except PErr (Pos × Option Extra) := do
  let nums ← takeNums true rcoords.elems 0
  match nums with
  | x :: y :: rest =>
    let ex : Option Extra := if rest.isEmpty then none else some ⟨rest.length, rest.map (·.canon), "", false⟩
    pure (mkPos x y, ex)
  | _ => .error .coordsInvalid

/-- state of the line/polygon coordinate loops: the `extra` being built -/
structure DimSt where
  ex : Option Extra := none
  dims : Nat := 0

/-- after appending a position with `nums`: the dimension rule; `isFirst` = this is the very first
    position of the geometry (`len(coords)==1` resp. also the first ring) -/
def dimStep (st : DimSt) (nums : List Ord) (isFirst : Bool) : Except PErr DimSt := do
  let st ← (match st.ex with
    | some _ => pure st
    | none =>
      if nums.length > 2 then
        if !isFirst then .error .coordsInvalid
        else
          let d := if nums.length > 3 then 2 else 1
          pure ⟨some ⟨d, [], "", false⟩, d⟩
      else pure st : Except PErr DimSt)
  match st.ex with
  | none => pure st
  | some e =>
    -- nums[2+i] for i < dims; absent ordinates are the zero value
    let vals := (List.range st.dims).map (fun i => match nums[2+i]? with | some o => o.canon | none => "0")
    pure { st with ex := some { e with values := e.values ++ vals } }

/-- the loop of parseJSONLineStringCoords over the elements of `rcoords` -/
def parseLineCoordsLoop : List JVal → List Pos → DimSt → Except PErr (List Pos × DimSt)
  | [], acc, st => .ok (acc, st)
  | v :: vs, acc, st => do
    if !v.isArray then throw .coordsInvalid
    let nums ← takeNums false v.elems 0
    match nums with
    | x :: y :: _ =>
      let acc' := acc ++ [mkPos x y]
      let st' ← dimStep st nums (acc'.length == 1)
      parseLineCoordsLoop vs acc' st'
    | _ => throw .coordsInvalid

def parseLineCoords (rcoords : JVal) : Except PErr (List Pos × Option Extra) := do
  let (ps, st) ← parseLineCoordsLoop rcoords.elems [] {}
  pure (ps, st.ex)

/-- positions of one ring (no IsArray check on a position: gjson iterates whatever it is) -/
def parseRingLoop (ringIdx : Nat) : List JVal → List Pos → DimSt → Except PErr (List Pos × DimSt)
  | [], acc, st => .ok (acc, st)
  | v :: vs, acc, st => do
    let nums ← takeNums false v.elems 0
    match nums with
    | x :: y :: _ =>
      let acc' := acc ++ [mkPos x y]
      let st' ← dimStep st nums (ringIdx == 0 && acc'.length == 1)
      parseRingLoop ringIdx vs acc' st'
    | _ => throw .coordsInvalid

def parsePolyCoordsLoop : List JVal → List (List Pos) → DimSt → Except PErr (List (List Pos) × DimSt)
  | [], acc, st => .ok (acc, st)
  | v :: vs, acc, st => do
    if !v.isArray then throw .coordsInvalid
    let (ring, st') ← parseRingLoop acc.length v.elems [] st
    parsePolyCoordsLoop vs (acc ++ [ring]) st'

def parsePolyCoords (rcoords : JVal) : Except PErr (List (List Pos) × Option Extra) := do
  let (rings, st) ← parsePolyCoordsLoop rcoords.elems [] {}
  pure (rings, st.ex)

def ptsOf (ps : List Pos) : Array Pt := (ps.map (·.p)).toArray

def ringOK (r : List Pos) : Bool :=
  decide (r.length ≥ 4) && (match r.head?, r.getLast? with
    | some a, some b => a.fin && b.fin && a.p == b.p
    | _, _ => false)

def mkPoly (o : POpts) (rings : List (List Pos)) : Poly :=
  match rings with
  | [] => ⟨none, []⟩
  | e :: hs =>
    ⟨some (.ser (mkSeries (ptsOf e) true o.indexKind o.indexGeometry)),
     hs.map (fun h => .ser (mkSeries (ptsOf h) true o.indexKind o.indexGeometry))⟩

def mkLine (o : POpts) (ps : List Pos) : Line := mkSeries (ptsOf ps) false o.indexKind o.indexGeometry

/-- AllowRects detection on the exterior ring -/
def isRectRing (e : List Pos) : Bool :=
  match e with
  | [p0, p1, p2, p3, p4] =>
    p0.fin && p1.fin && p2.fin && p3.fin && p4.fin &&
    decide (p0.p.x < p1.p.x) && decide (p0.p.y = p1.p.y) &&
    decide (p1.p.x = p2.p.x) && decide (p1.p.y < p2.p.y) &&
    decide (p2.p.x > p3.p.x) && decide (p2.p.y = p3.p.y) &&
    decide (p3.p.x = p4.p.x) && decide (p3.p.y > p4.p.y)
  | _ => false

/-- required array member: missing / not an array -/
def reqArray (v : Option JVal) (missing invalid : PErr) : Except PErr JVal :=
  match v with
  | none => .error missing
  | some x => if x.isArray then .ok x else .error invalid

/-- gjson `.String()` of an optional value, only as far as the circle logic needs it -/
def strOf : Option JVal → String
  | some (.str _ dec) => dec
  | some (.num _ _ _ _ raw) => raw
  | some .tru => "true"
  | some .fls => "false"
  | some .null => ""
  | some v => v.render
  | none => ""

/-- parseInitRectIndex: the child R-tree is built when enough non-empty children exist -/
def mkColl (o : POpts) (kind : CollKind) (children : List Obj) (ex : Option Extra) : Obj :=
  let count := (children.filter (fun c => !c.empty)).length
  .coll kind children ex (decide (count > 0) && o.indexChildren != 0 && decide (count ≥ o.indexChildren))

mutual
/-- Parse on an already-decoded value: the text must be one JSON object -/
def parse (o : POpts) : Nat → JVal → Except PErr Obj
  | 0, _ => .error .unmodelled     -- fuel exhausted: never happens for fuel > nesting depth (proved)
  | fuel+1, .obj ms =>
    let k := scanKeys ms
    match k.type with
    | none => .error .typeMissing
    | some (.str _ ty) =>
      match ty with
      | "Point" =>
        match k.coordinates with
        | none => .error .coordsMissing
        | some rc =>
          if !rc.isArray then .error .coordsInvalid
          else match parsePointCoords rc with
            | .error e => .error e
            | .ok (pos, ex) =>
              let ex := withMembers ex k
              let ob : Obj := if ex.isNone && o.allowSimplePoints then .spoint pos else .point pos ex
              if o.requireValid && !ob.valid then .error .coordsInvalid else .ok ob
      | "LineString" =>
        match reqArray k.coordinates .coordsMissing .coordsInvalid with
        | .error e => .error e
        | .ok rc =>
          match parseLineCoords rc with
          | .error e => .error e
          | .ok (ps, ex) =>
            if ps.length < 2 then .error .coordsInvalid
            else
              let ob : Obj := .lineString (mkLine o ps) ps (withMembers ex k)
              if o.requireValid && !ob.valid then .error .dataInvalid else .ok ob
      | "Polygon" =>
        match reqArray k.coordinates .coordsMissing .coordsInvalid with
        | .error e => .error e
        | .ok rc =>
          match parsePolyCoords rc with
          | .error e => .error e
          | .ok (rings, ex) =>
            if rings.isEmpty || !(rings.all ringOK) then .error .coordsInvalid
            else
              let ex := withMembers ex k
              let ob : Obj :=
                match rings with
                | [e] =>
                  if ex.isNone && o.allowRects && isRectRing e then
                    match e with
                    | [p0, _, p2, _, _] => .rectO ⟨p0.p, p2.p⟩ p0 p2
                    | _ => .polygon (mkPoly o rings) rings ex
                  else .polygon (mkPoly o rings) rings ex
                | _ => .polygon (mkPoly o rings) rings ex
              if o.requireValid && !ob.valid then .error .coordsInvalid else .ok ob
      | "MultiPoint" =>
        match reqArray k.coordinates .coordsMissing .coordsInvalid with
        | .error e => .error e
        | .ok rc =>
          match rc.elems.mapM (fun v => parsePointCoords v) with
          | .error e => .error e
          | .ok cs =>
            let children : List Obj := cs.map (fun c => Obj.point c.1 c.2)
            if o.requireValid && !(children.all Obj.valid) then .error .coordsInvalid
            else .ok (mkColl o .multiPoint children (withMembers none k))
      | "MultiLineString" =>
        match reqArray k.coordinates .coordsMissing .coordsInvalid with
        | .error e => .error e
        | .ok rc =>
          match rc.elems.mapM (fun v => do
              let (ps, ex) ← parseLineCoords v
              if ps.length < 2 then throw PErr.coordsInvalid
              pure (Obj.lineString (mkLine o ps) ps ex)) with
          | .error e => .error e
          | .ok children =>
            let ob := mkColl o .multiLineString children (withMembers none k)
            if o.requireValid && !ob.valid then .error .coordsInvalid else .ok ob
      | "MultiPolygon" =>
        match reqArray k.coordinates .coordsMissing .coordsInvalid with
        | .error e => .error e
        | .ok rc =>
          match rc.elems.mapM (fun v => do
              let (rings, ex) ← parsePolyCoords v
              if rings.isEmpty || !(rings.all ringOK) then throw PErr.coordsInvalid
              pure (Obj.polygon (mkPoly o rings) rings ex)) with
          | .error e => .error e
          | .ok children =>
            let ob := mkColl o .multiPolygon children (withMembers none k)
            if o.requireValid && !ob.valid then .error .coordsInvalid else .ok ob
      | "GeometryCollection" =>
        match reqArray k.geometries .geometriesMissing .geometriesInvalid with
        | .error e => .error e
        | .ok (.arr items) =>
          match parseList o fuel items with
          | .error e => .error e
          | .ok children => .ok (mkColl o .geometryCollection children (withMembers none k))
        | .ok _ => .error .geometriesInvalid
      | "FeatureCollection" =>
        match reqArray k.features .featuresMissing .featuresInvalid with
        | .error e => .error e
        | .ok (.arr items) =>
          match parseList o fuel items with
          | .error e => .error e
          | .ok children => .ok (mkColl o .featureCollection children (withMembers none k))
        | .ok _ => .error .featuresInvalid
      | "Feature" =>
        match k.geometry with
        | none => .error .geometryMissing
        | some g =>
          match parse o fuel g with
          | .error e => .error e
          | .ok base =>
            let ex := withMembers none k
            let centre : Option Pos := match base with
              | .point pos _ => some pos
              | .spoint pos => some pos
              | _ => none
            match centre, ex with
            | some c, some _ =>
              let props := (JVal.obj k.foreign).get "properties"
              let ptype := props.bind (fun p => p.get "type")
              if !o.disableCircle && (match ptype with | some (.str _ "Circle") => true | _ => false) then
                let radius := props.bind (fun p => p.get "radius")
                let units := strOf (props.bind (fun p => p.get "radius_units"))
                -- radius.Float(): numbers as they are, true = 1, strings are parsed (unmodelled), else 0
                let rtexts : Option (String × String) := match radius with
                  | some (.num fin _ canon canonK _) => if fin then some (canon, canonK) else some ("null", "null")
                  | some .tru => some ("1", "1000")
                  | some (.str _ _) => none
                  | _ => some ("0", "0")
                match rtexts with
                | none => .error .unmodelled
                | some (m, km) =>
                  if units == "" || units == "m" then .ok (.circle c m)
                  else if units == "km" then .ok (.circle c km)
                  else .error .circleUnits
              else .ok (.feature base ex)
            | _, _ => .ok (.feature base ex)
      | _ => .error .typeUnknown
    | some _ => .error .typeInvalid
  | _+1, _ => .error .dataInvalid
def parseList (o : POpts) : Nat → List JVal → Except PErr (List Obj)
  | _, [] => .ok []
  | fuel, v :: vs =>
    match parse o fuel v with
    | .error e => .error e
    | .ok c =>
      match parseList o fuel vs with
      | .error e => .error e
      | .ok cs => .ok (c :: cs)
end

mutual
def JVal.depth : JVal → Nat
  | .arr items => 1 + JVal.depthL items
  | .obj ms => 1 + JVal.depthM ms
  | _ => 0
def JVal.depthL : List JVal → Nat
  | [] => 0
  | v :: vs => max v.depth (JVal.depthL vs)
def JVal.depthM : List (String × String × JVal) → Nat
  | [] => 0
  | (_, _, v) :: ms => max v.depth (JVal.depthM ms)
end

/-- `Parse` (after the text → AST step): fuel = nesting depth + 1 always suffices -/
def parseTop (o : POpts) (v : JVal) : Except PErr Obj := parse o (v.depth + 1) v

end Geo
