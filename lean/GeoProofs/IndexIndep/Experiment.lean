/-
  GeoProofs.IndexIndep.Experiment — executable experiment behind C04Indep (kept small: it is
  compiled in every build; the full runs — ~1000 random rings with 4–6 vertices on a 4×4
  lattice, all pairs of vertices / edge midpoints / lattice points as query segments, both
  `allowOnEdge` values, visit orders identity / reversed / rotated / rotated-reversed, and
  random dyadic subdivisions to 17–90 segments for the real indexes — were done with the same
  code from a scratch file).

  * hypothetical visit orders are fed to the REAL model functions through a hand-written index:
    quadtree bytes of ONE unsplit node listing the segments in the chosen order (`fakeQ`);
  * real indexes: `mkSeries … .quadtree 1`, `mkSeries … .rtree 1`.

  OUTCOME.  `ringIntersectsSegment` (both readings), `ringContainsSegment` with
  `allowOnEdge = false`: never order dependent.  `ringContainsSegment` with `allowOnEdge = true`:
  order dependent on 25–45 % of the random (mostly self-touching / self-crossing) rings, NEVER on
  an edge-simple ring (0 of 822).  The dependence is realised by the real R-tree (`ring17`,
  17 segments) and by the real quadtree (`ring37`, 37 segments), also at the level of
  `Geom.contains` (polygon × line); `Geom.intersects` is unaffected.
-/
import GeoProofs.IndexIndep.RealRTree
import GeoProofs.IndexIndep.RealQTree

namespace Geo.Experiment
open Geo

/-- hand-written quadtree bytes: ONE unsplit node listing the items in the given order -/
def fakeQ (order : List Nat) : Array Nat :=
  let d : Array Nat := #[2,0,0,0,0,1, order.length] ++ order.toArray ++ #[0]
  putU32 d 1 d.size

def withOrder (s : Series) (order : List Nat) : Series := { s with index := some (fakeQ order) }

def lcg (s : Nat) : Nat := (s * 6364136223846793005 + 1442695040888963407) % (2^64)

def randRing (seed nv L : Nat) : Array Pt × Nat := Id.run do
  let mut s := seed
  let mut pts : Array Pt := #[]
  for _ in [0:nv] do
    s := lcg s
    let x : Nat := (s / 2^33) % L
    s := lcg s
    let y : Nat := (s / 2^33) % L
    pts := pts.push ⟨(x : Rat), (y : Rat)⟩
  return (pts, s)

/-- distinct edges meet only when adjacent, and then not collinearly; no zero-length edge -/
def edgeSimple (pts : Array Pt) : Bool := Id.run do
  let s := mkSeries pts true .none 0
  let n := s.numSegments
  if n < 3 then return false
  for i in [0:n] do
    let e := s.segmentAt i
    if e.a == e.b then return false
    for j in [i+1:n] do
      let f := s.segmentAt j
      if e.intersects f then
        if !((j == i + 1) || (i == 0 && j == n - 1)) then return false
        if e.collinearPt f.a && e.collinearPt f.b then return false
  return true

/-- (order dependent `contains`, order dependent `intersects`) on one ring, reversed order,
    query endpoints among the vertices and edge midpoints, both readings -/
def testRing (pts : Array Pt) : Bool × Bool := Id.run do
  let s0 := mkSeries pts true .none 0
  let n := s0.numSegments
  let s1 := withOrder s0 (List.range n).reverse
  let mids := (List.range pts.size).map (fun i =>
    let a := pts[i]!; let b := pts[(i+1) % pts.size]!
    (⟨(a.x + b.x)/2, (a.y + b.y)/2⟩ : Pt))
  let cands := (pts.toList ++ mids).eraseDups
  let mut c := false
  let mut i := false
  for a in cands do
    for b in cands do
      for allow in [true, false] do
        if ringContainsSegment (.ser s0) ⟨a, b⟩ allow != ringContainsSegment (.ser s1) ⟨a, b⟩ allow then
          c := true
        if ringIntersectsSegment (.ser s0) ⟨a, b⟩ allow != ringIntersectsSegment (.ser s1) ⟨a, b⟩ allow then
          i := true
  return (c, i)

def run (seed0 count nv : Nat) : String := Id.run do
  let mut seed := seed0
  let mut simple := 0
  let mut depC := 0
  let mut depI := 0
  let mut depSimple := 0
  for _ in [0:count] do
    let (pts, s') := randRing seed nv 4
    seed := s'
    let sm := edgeSimple pts
    let (c, i) := testRing pts
    if sm then simple := simple + 1
    if c then depC := depC + 1
    if i then depI := depI + 1
    if sm && (c || i) then depSimple := depSimple + 1
  return s!"{count} rings with {nv} vertices ({simple} edge-simple): contains order dependent on {depC}, intersects on {depI}, any on an edge-simple ring {depSimple}"

-- a small sample of the hypothetical-order experiment
#eval run 21 12 5

-- sanity of the device: the identity order through the fake index = no index
#eval (List.range 6).all (fun k =>
  let (pts, _) := randRing (100 + k) 5 4
  let s0 := mkSeries pts true .none 0
  let s1 := withOrder s0 (List.range s0.numSegments)
  pts.toList.all (fun a => pts.toList.all (fun b =>
    ringContainsSegmentS (.ser s0) ⟨a, b⟩ true == ringContainsSegmentS (.ser s1) ⟨a, b⟩ true)))

/-! ### real indexes -/

def polyOf (pts : Array Pt) (k : IndexKind) (m : Nat) : Geom := .poly ⟨some (.ser (mkSeries pts true k m)), []⟩
def lineOf (s : Seg) : Geom := .line (mkSeries #[s.a, s.b] false .none 0)

-- `ring17` × line (32,0)-(64,48): contains = [none, quadtree, rtree]; expected [false, false, true]
#eval [(polyOf ring17 .none 0).contains (lineOf seg17), (polyOf ring17 .quadtree 1).contains (lineOf seg17),
       (polyOf ring17 .rtree 1).contains (lineOf seg17)]
-- `ring37` × line (16,0)-(64,48): expected [false, true, false]
#eval [(polyOf ring37 .none 0).contains (lineOf seg37), (polyOf ring37 .quadtree 1).contains (lineOf seg37),
       (polyOf ring37 .rtree 1).contains (lineOf seg37)]
-- `intersects` is unaffected: expected all true
#eval [(polyOf ring17 .none 0).intersects (lineOf seg17), (polyOf ring17 .rtree 1).intersects (lineOf seg17),
       (polyOf ring37 .none 0).intersects (lineOf seg37), (polyOf ring37 .quadtree 1).intersects (lineOf seg37)]
-- the edge reported for the touching vertex, [none, quadtree, rtree]
#eval [(ringContainsPoint (.ser (mkSeries ring17 true .none 0)) seg17.a true).idx,
       (ringContainsPoint (.ser (mkSeries ring17 true .quadtree 1)) seg17.a true).idx,
       (ringContainsPoint (.ser (mkSeries ring17 true .rtree 1)) seg17.a true).idx]
#eval [(ringContainsPoint (.ser (mkSeries ring37 true .none 0)) seg37.a true).idx,
       (ringContainsPoint (.ser (mkSeries ring37 true .quadtree 1)) seg37.a true).idx,
       (ringContainsPoint (.ser (mkSeries ring37 true .rtree 1)) seg37.a true).idx]

end Geo.Experiment
