/-
  GeoProofs.Glue.IndexGlueRSplit — the generated `rRect_splitLargestAxisEdgeSnap`
  (geometry/rtree.go:136) computes the model's `splitEntries` on the USED slots of the node, in
  the same order, and the two rects it returns are the model's `recalcBoxes` of the two halves
  (whenever that half is not empty; see `split_eq` and the remark before it for the empty case).
  Groundwork (generic loop simulations, `recalc`, `largestAxis`): IndexGlueRSplit2.lean.
-/
import GeoProofs.Glue.IndexGlueRSplit2

set_option linter.unusedVariables false

/- the helpers live in `Geo.IGlue.RSplit` (no collisions with the sibling bridge files); the results
   `split_eq_gen`, `split_eq`, `split_right_empty` are in `Geo.IGlue` -/
namespace Geo.IGlue.RSplit
open Geo Geo.IGen
open scoped Geo.KNum

/-! ## the generated split: its loop bodies, named (verbatim copies of the generated text;
   `split_unfold` below checks by `rfl` that they are the terms in the generated definition) -/

section Bodies
variable {F S SR D : Type} [KNum F]

abbrev SplitSt (F : Type) := IGen.RRect F × List (IGen.RRect F) × Dyn F × Int

def splitCond : SplitSt F → Option Bool :=
  fun (right, equals, r_data, i) => (
              do
                let dn5 ← Dyn.asRNode r_data
                some (decide (i < dn5.count))
            )

def splitBody (axis : Int) (r_min0 r_min1 r_max0 r_max1 : F) :
    SplitSt F → Option (Flow (SplitSt F) (IGen.RRect F × IGen.RRect F)) :=
  (fun (right, equals, r_data, i) => (
              do
                let dn6 ← Dyn.asRNode r_data
                let el7 ← listAt dn6.rects i
                let el8 ← arrSel2 el7.min0 el7.min1 axis
                let el9 ← arrSel2 r_min0 r_min1 axis
                let minDist := (el8 -ₖ el9)
                let el10 ← arrSel2 r_max0 r_max1 axis
                let dn11 ← Dyn.asRNode r_data
                let el12 ← listAt dn11.rects i
                let el13 ← arrSel2 el12.max0 el12.max1 axis
                let maxDist := (el10 -ₖ el13)
                let (right, equals, r_data, i) ← (
                    do
                      if (minDist <ₖ maxDist) then
                        some (right, equals, r_data, i)
                      else
                        do
                          let (right, equals) ← (
                              do
                                if (minDist >ₖ maxDist) then
                                  do
                                    let dn14 ← Dyn.asRNode r_data
                                    let el15 ← listAt dn14.rects i
                                    let dn16 ← Dyn.asRNode right.data
                                    let dn17 ← Dyn.asRNode right.data
                                    let ls18 ← listSet dn17.rects dn16.count el15
                                    let right := (RRect.mk (Dyn.rNode (IGen.RNode.mk dn17.count ls18)) right.min0 right.min1 right.max0 right.max1)
                                    let dn19 ← Dyn.asRNode right.data
                                    let dn20 ← Dyn.asRNode right.data
                                    let right := (RRect.mk (Dyn.rNode (IGen.RNode.mk (dn19.count + 1) dn20.rects)) right.min0 right.min1 right.max0 right.max1)
                                    some (right, equals)
                                else
                                  do
                                    let dn21 ← Dyn.asRNode r_data
                                    let el22 ← listAt dn21.rects i
                                    let equals := (equals ++ [el22])
                                    some (right, equals)
                            )
                          let dn23 ← Dyn.asRNode r_data
                          let dn24 ← Dyn.asRNode r_data
                          let el25 ← listAt dn23.rects (dn24.count - 1)
                          let dn26 ← Dyn.asRNode r_data
                          let ls27 ← listSet dn26.rects i el25
                          let r_data := (Dyn.rNode (IGen.RNode.mk dn26.count ls27))
                          let dn28 ← Dyn.asRNode r_data
                          let ix29 := (dn28.count - 1)
                          let dn30 ← Dyn.asRNode r_data
                          let el31 ← listAt dn30.rects ix29
                          let ls32 ← listSet dn30.rects ix29 (RRect.mk Dyn.nil el31.min0 el31.min1 el31.max0 el31.max1)
                          let r_data := (Dyn.rNode (IGen.RNode.mk dn30.count ls32))
                          let dn33 ← Dyn.asRNode r_data
                          let dn34 ← Dyn.asRNode r_data
                          let r_data := (Dyn.rNode (IGen.RNode.mk (dn33.count - 1) dn34.rects))
                          let i := (i - 1)
                          some (right, equals, r_data, i)
                  )
                let i := (i + 1)
                some (Flow.next (right, equals, r_data, i))
            ))

def splitEqBody : IGen.RRect F → Dyn F × IGen.RRect F → Option (Dyn F × IGen.RRect F) :=
  (fun b (r_data, right) => (
                    do
                      let dn38 ← Dyn.asRNode r_data
                      let dn39 ← Dyn.asRNode right.data
                      if decide (dn38.count < dn39.count) then
                        do
                          let dn40 ← Dyn.asRNode r_data
                          let dn41 ← Dyn.asRNode r_data
                          let ls42 ← listSet dn41.rects dn40.count b
                          let r_data := (Dyn.rNode (IGen.RNode.mk dn41.count ls42))
                          let dn43 ← Dyn.asRNode r_data
                          let dn44 ← Dyn.asRNode r_data
                          let r_data := (Dyn.rNode (IGen.RNode.mk (dn43.count + 1) dn44.rects))
                          some (r_data, right)
                      else
                        do
                          let dn45 ← Dyn.asRNode right.data
                          let dn46 ← Dyn.asRNode right.data
                          let ls47 ← listSet dn46.rects dn45.count b
                          let right := (RRect.mk (Dyn.rNode (IGen.RNode.mk dn46.count ls47)) right.min0 right.min1 right.max0 right.max1)
                          let dn48 ← Dyn.asRNode right.data
                          let dn49 ← Dyn.asRNode right.data
                          let right := (RRect.mk (Dyn.rNode (IGen.RNode.mk (dn48.count + 1) dn49.rects)) right.min0 right.min1 right.max0 right.max1)
                          some (r_data, right)
                  ))

end Bodies

section Unfold
variable {F S SR D : Type} [KNum F] (ops : Ops F S SR D)

/-- the zero `rRect` of a fresh `rNode` -/
def zeroRect : IGen.RRect F :=
  RRect.mk Dyn.nil (KNum.ofNat 0 : F) (KNum.ofNat 0 : F) (KNum.ofNat 0 : F) (KNum.ofNat 0 : F)

theorem split_unfold (fuel : Nat) (d : Dyn F) (a0 a1 c0 c1 : F) (right : IGen.RRect F) :
    rRect_splitLargestAxisEdgeSnap ops fuel (RRect.mk d a0 a1 c0 c1) right =
      (Dyn.asRNode d).bind fun _ =>
        (loopW fuel
          ((RRect.mk (Dyn.rNode (IGen.RNode.mk 0 (List.replicate 17 zeroRect)))
              right.min0 right.min1 right.max0 right.max1 : IGen.RRect F),
            ([] : List (IGen.RRect F)), d, (0 : Int))
          splitCond
          (splitBody (rRect_largestAxis ops (RRect.mk d a0 a1 c0 c1)).1 a0 a1 c0 c1)).bind fun ex =>
        match ex with
        | Exit.ret r36 => some r36
        | Exit.done (right, equals, r_data, _) =>
          (loopM equals (r_data, right) splitEqBody).bind fun p =>
            (rRect_recalc ops (RRect.mk p.1 a0 a1 c0 c1)).bind fun nw50 =>
              match nw50 with
              | .mk r_data r_min0 r_min1 r_max0 r_max1 =>
                (rRect_recalc ops p.2).bind fun nw51 =>
                  some ((RRect.mk r_data r_min0 r_min1 r_max0 r_max1), nw51) := by
  rfl

end Unfold

/-! ## the abstraction of the loop state, the invariant -/

section Concrete
variable {F S SR D : Type} [KNum F] [Carrier F] [Compat F]

/-- the class of an entry in the model's `splitEntries` (0 stay left, 1 right, 2 equal) -/
def mcls (box : GBox F) (e : IGen.RRect F) : Nat :=
  let axisY : Bool := Carrier.lt (Carrier.sub box.maxx box.minx) (Carrier.sub box.maxy box.miny)
  let r := rbox e
  let minDist := if axisY then Carrier.sub r.miny box.miny else Carrier.sub r.minx box.minx
  let maxDist := if axisY then Carrier.sub box.maxy r.maxy else Carrier.sub box.maxx r.maxx
  if Carrier.lt minDist maxDist then 0 else if Carrier.lt maxDist minDist then 1 else 2

omit [KNum F] [Compat F] in
theorem splitEntries_mcls (box : GBox F) (entries : List (IGen.RRect F)) :
    splitEntries rbox box entries =
      (match splitLoop (mcls box) (2 * entries.length + 2) entries 0 [] [] with
       | (l, r, e) => distributeEquals l r e) := rfl

/-- the axis the generated code computes for `box` -/
def maxis (box : GBox F) : Int :=
  if Carrier.lt (Carrier.sub box.maxx box.minx) (Carrier.sub box.maxy box.miny) then 1 else 0

def nodeOf : Dyn F → IGen.RNode F
  | .rNode v => v
  | _ => IGen.RNode.mk 0 []

def sAbs (s : SplitSt F) : List (IGen.RRect F) × Nat × List (IGen.RRect F) × List (IGen.RRect F) :=
  (usedSlots (nodeOf s.2.2.1), s.2.2.2.toNat, usedSlots (nodeOf s.1.data), s.2.1)

def sInv (bx : GBox F) (tot : Int) (s : SplitSt F) : Prop :=
  ∃ ln rn, s.2.2.1 = .rNode ln ∧ s.1.data = .rNode rn ∧ SlotsOK ln ∧ SlotsOK rn ∧
    0 ≤ s.2.2.2 ∧ s.2.2.2 ≤ ln.count ∧ ln.count + rn.count + s.2.1.length = tot ∧ rbox s.1 = bx ∧
    (rn.count = 0 → rn.rects[0]? = some zeroRect)

omit [KNum F] [Carrier F] [Compat F] in
theorem usedSlots_length (nd : IGen.RNode F) (h : SlotsOK nd) : (usedSlots nd).length = nd.count.toNat := by
  obtain ⟨h1, h2, h3⟩ := h
  simp only [usedSlots, List.length_take]
  omega

omit [Carrier F] [Compat F] in
theorem splitCond_eq (bx : GBox F) (tot : Int) (s : SplitSt F) (h : sInv bx tot s) :
    splitCond s = some (decide ((sAbs s).2.1 < (sAbs s).1.length)) := by
  obtain ⟨rt, eqs, d, i⟩ := s
  obtain ⟨ln, rn, h1, h2, h3, h4, h5, h6, h7, h8⟩ := h
  simp only at h1 h2 h5 h6 h7 h8
  subst h1
  simp only [splitCond, sAbs, nodeOf, usedSlots_length _ h3, bind, asRNode_rNode, Option.bind_some]
  congr 1
  apply decide_eq_decide.mpr
  omega

theorem splitBody_eq (bx rbx : GBox F) (tot : Int) (htot : tot ≤ 17) (s : SplitSt F)
    (h : sInv rbx tot s) (hlt : (sAbs s).2.1 < (sAbs s).1.length) :
    ∃ s', splitBody (maxis bx) bx.minx bx.miny bx.maxx bx.maxy s = some (Flow.next s') ∧
      sInv rbx tot s' ∧ sAbs s' = splitStep (mcls bx) (sAbs s) := by
  obtain ⟨rt, eqs, d, i⟩ := s
  obtain ⟨ln, rn, h1, h2, h3, h4, h5, h6, h7, h8⟩ := h
  simp only at h1 h2 h5 h6 h7 h8
  subst h1
  obtain ⟨rd, ra, rb, rc, re⟩ := rt
  simp only [data_mk] at h2
  subst h2
  obtain ⟨cnt, rects⟩ := ln
  obtain ⟨rcnt, rrects⟩ := rn
  simp only [sAbs, nodeOf, usedSlots_length _ h3, count_mk, data_mk] at hlt
  obtain ⟨hl1, hl2, hl3⟩ := h3
  obtain ⟨hr1, hr2, hr3⟩ := h4
  simp only [count_mk, rects_mk] at hl1 hl2 hl3 hr1 hr2 hr3 h6 h7
  have hi : i.toNat < rects.length := by omega
  have hc1 : (cnt - 1).toNat < rects.length := by omega
  have hrc : rcnt.toNat < rrects.length := by omega
  have hax : ∀ (x y : F), arrSel2 x y (maxis bx) =
      some (if Carrier.lt (Carrier.sub bx.maxx bx.minx) (Carrier.sub bx.maxy bx.miny) then y else x) := by
    intro x y
    unfold maxis
    split <;> rfl
  simp only [splitBody, bind, asRNode_rNode, Option.bind_some, rects_mk, count_mk, data_mk,
    listAt_nat rects i h5 hi, hax, min0_mk, min1_mk, max0_mk, max1_mk]
  have hm : mcls bx rects[i.toNat] =
      (if (((if Carrier.lt (Carrier.sub bx.maxx bx.minx) (Carrier.sub bx.maxy bx.miny) = true then
              rects[i.toNat].min1 else rects[i.toNat].min0) -ₖ
            if Carrier.lt (Carrier.sub bx.maxx bx.minx) (Carrier.sub bx.maxy bx.miny) = true then bx.miny
            else bx.minx) <ₖ
          (if Carrier.lt (Carrier.sub bx.maxx bx.minx) (Carrier.sub bx.maxy bx.miny) = true then bx.maxy
            else bx.maxx) -ₖ
            if Carrier.lt (Carrier.sub bx.maxx bx.minx) (Carrier.sub bx.maxy bx.miny) = true then
              rects[i.toNat].max1 else rects[i.toNat].max0) = true then 0
       else if (((if Carrier.lt (Carrier.sub bx.maxx bx.minx) (Carrier.sub bx.maxy bx.miny) = true then
              rects[i.toNat].min1 else rects[i.toNat].min0) -ₖ
            if Carrier.lt (Carrier.sub bx.maxx bx.minx) (Carrier.sub bx.maxy bx.miny) = true then bx.miny
            else bx.minx) >ₖ
          (if Carrier.lt (Carrier.sub bx.maxx bx.minx) (Carrier.sub bx.maxy bx.miny) = true then bx.maxy
            else bx.maxx) -ₖ
            if Carrier.lt (Carrier.sub bx.maxx bx.minx) (Carrier.sub bx.maxy bx.miny) = true then
              rects[i.toNat].max1 else rects[i.toNat].max0) = true then 1 else 2) := by
    simp only [mcls, rbox, KNum.gt]
    cases Carrier.lt (Carrier.sub bx.maxx bx.minx) (Carrier.sub bx.maxy bx.miny) <;>
      simp only [Compat.lt, Compat.sub, if_true, if_false, Bool.false_eq_true]
  generalize ((if Carrier.lt (Carrier.sub bx.maxx bx.minx) (Carrier.sub bx.maxy bx.miny) = true then
              rects[i.toNat].min1 else rects[i.toNat].min0) -ₖ
            if Carrier.lt (Carrier.sub bx.maxx bx.minx) (Carrier.sub bx.maxy bx.miny) = true then bx.miny
            else bx.minx) = mind at hm ⊢
  generalize ((if Carrier.lt (Carrier.sub bx.maxx bx.minx) (Carrier.sub bx.maxy bx.miny) = true then bx.maxy
            else bx.maxx) -ₖ
            if Carrier.lt (Carrier.sub bx.maxx bx.minx) (Carrier.sub bx.maxy bx.miny) = true then
              rects[i.toNat].max1 else rects[i.toNat].max0) = maxd at hm ⊢
  have hget : (usedSlots (IGen.RNode.mk cnt rects))[i.toNat]? = some rects[i.toNat] := by
    simp only [usedSlots, rects_mk, count_mk, List.getElem?_take, hlt, if_true,
      List.getElem?_eq_getElem hi]
  have hcnt : cnt.toNat = (cnt - 1).toNat + 1 := by omega
  -- the swap-remove on the used prefix
  have hswap : ∀ z : IGen.RRect F,
      usedSlots (IGen.RNode.mk (cnt - 1)
        ((rects.set i.toNat rects[(cnt - 1).toNat]).set (cnt - 1).toNat z))
      = ((usedSlots (IGen.RNode.mk cnt rects)).set i.toNat
          ((usedSlots (IGen.RNode.mk cnt rects)).getLast?.getD rects[i.toNat])).dropLast := by
    intro z
    simp only [usedSlots, rects_mk, count_mk]
    rw [hcnt]
    exact swap_remove_take rects (cnt - 1).toNat i.toNat z rects[i.toNat] rects[(cnt - 1).toNat]
      (by omega) (List.getElem?_eq_getElem hc1)
  have hlen27 : (cnt - 1).toNat < (rects.set i.toNat rects[(cnt - 1).toNat]).length := by
    rw [List.length_set]; exact hc1
  have hrest : ∀ (rt' : IGen.RRect F) (eqs' : List (IGen.RRect F)),
      ((listAt rects (cnt - 1)).bind fun el25 =>
        (listSet rects i el25).bind fun ls27 =>
          (listAt ls27 (cnt - 1)).bind fun el31 =>
            (listSet ls27 (cnt - 1) (RRect.mk Dyn.nil el31.min0 el31.min1 el31.max0 el31.max1)).bind
              fun ls32 => some (rt', eqs', Dyn.rNode (IGen.RNode.mk (cnt - 1) ls32), i - 1))
      = some (rt', eqs', Dyn.rNode (IGen.RNode.mk (cnt - 1)
          ((rects.set i.toNat rects[(cnt - 1).toNat]).set (cnt - 1).toNat
            (RRect.mk Dyn.nil (rects.set i.toNat rects[(cnt - 1).toNat])[(cnt - 1).toNat].min0
              (rects.set i.toNat rects[(cnt - 1).toNat])[(cnt - 1).toNat].min1
              (rects.set i.toNat rects[(cnt - 1).toNat])[(cnt - 1).toNat].max0
              (rects.set i.toNat rects[(cnt - 1).toNat])[(cnt - 1).toNat].max1))), i - 1) := by
    intro rt' eqs'
    rw [listAt_nat rects (cnt - 1) (by omega) hc1, Option.bind_some,
      listSet_nat rects i _ h5 hi, Option.bind_some,
      listAt_nat _ (cnt - 1) (by omega) hlen27, Option.bind_some,
      listSet_nat _ (cnt - 1) _ (by omega) hlen27, Option.bind_some]
  have hslots' : ∀ z : IGen.RRect F, SlotsOK (IGen.RNode.mk (cnt - 1)
      ((rects.set i.toNat rects[(cnt - 1).toNat]).set (cnt - 1).toNat z)) := by
    intro z
    refine ⟨?_, ?_, ?_⟩
    · simp only [rects_mk, List.length_set]; exact hl1
    · simp only [count_mk]; omega
    · simp only [count_mk]; omega
  by_cases c0 : (mind <ₖ maxd) = true
  · -- class 0: the entry stays, i++
    rw [if_pos c0] at hm
    simp only [c0, if_true, Option.bind_some]
    refine ⟨_, rfl, ⟨_, _, rfl, rfl, ⟨hl1, hl2, hl3⟩, ⟨hr1, hr2, hr3⟩, ?_, ?_, h7, h8⟩, ?_⟩
    · show 0 ≤ i + 1; omega
    · show i + 1 ≤ cnt; omega
    · simp only [sAbs, nodeOf, data_mk, splitStep, hget, hm]
      congr 2
      omega
  · by_cases c1 : (mind >ₖ maxd) = true
    · -- class 1: the entry moves to the right node
      rw [if_neg c0, if_pos c1] at hm
      simp only [c0, c1, if_true, if_false, Bool.false_eq_true, listSet_nat rrects rcnt _ hr2 hrc,
        Option.bind_some, hrest]
      refine ⟨_, rfl, ⟨_, _, rfl, rfl, hslots' _, ⟨?_, ?_, ?_⟩, ?_, ?_, ?_, h8.1,
        fun hz => absurd hz (by simp only [count_mk]; omega)⟩, ?_⟩
      · simp only [rects_mk, List.length_set]; exact hr1
      · simp only [count_mk]; omega
      · simp only [count_mk]; omega
      · show 0 ≤ i - 1 + 1; omega
      · show i - 1 + 1 ≤ cnt - 1; omega
      · simp only [count_mk]; omega
      · simp only [sAbs, nodeOf, data_mk, splitStep, hget, hm, hswap]
        have hr : usedSlots (IGen.RNode.mk (rcnt + 1) (rrects.set rcnt.toNat rects[i.toNat]))
            = usedSlots (IGen.RNode.mk rcnt rrects) ++ [rects[i.toNat]] := by
          simp only [usedSlots, rects_mk, count_mk]
          rw [show (rcnt + 1).toNat = rcnt.toNat + 1 by omega]
          exact take_set_append rrects rcnt.toNat _ hrc
        rw [hr]
        simp
    · -- class 2: the entry goes to `equals`
      rw [if_neg c0, if_neg c1] at hm
      simp only [c0, c1, if_false, Bool.false_eq_true, Option.bind_some, hrest]
      refine ⟨_, rfl, ⟨_, _, rfl, rfl, hslots' _, ⟨hr1, hr2, hr3⟩, ?_, ?_, ?_, h8⟩, ?_⟩
      · show 0 ≤ i - 1 + 1; omega
      · show i - 1 + 1 ≤ cnt - 1; omega
      · simp only [count_mk, List.length_append, List.length_singleton]; omega
      · simp only [sAbs, nodeOf, data_mk, splitStep, hget, hm, hswap]
        simp

/-! ## the distribution of the equal entries -/

def eAbs (s : Dyn F × IGen.RRect F) : List (IGen.RRect F) × List (IGen.RRect F) :=
  (usedSlots (nodeOf s.1), usedSlots (nodeOf s.2.data))

def eInv (rbx : GBox F) (tot : Int) (k : Nat) (s : Dyn F × IGen.RRect F) : Prop :=
  ∃ ln rn, s.1 = .rNode ln ∧ s.2.data = .rNode rn ∧ SlotsOK ln ∧ SlotsOK rn ∧
    ln.count + rn.count + k = tot ∧ rbox s.2 = rbx ∧
    (rn.count = 0 → rn.rects[0]? = some zeroRect)

omit [Carrier F] [Compat F] in
theorem splitEqBody_eq (rbx : GBox F) (tot : Int) (htot : tot ≤ 17) (k : Nat)
    (s : Dyn F × IGen.RRect F) (b : IGen.RRect F) (h : eInv rbx tot (k + 1) s) :
    ∃ s', splitEqBody b s = some s' ∧ eInv rbx tot k s' ∧
      eAbs s' = (if (eAbs s).1.length < (eAbs s).2.length then ((eAbs s).1 ++ [id b], (eAbs s).2)
                else ((eAbs s).1, (eAbs s).2 ++ [id b])) := by
  obtain ⟨d, rt⟩ := s
  obtain ⟨ln, rn, h1, h2, h3, h4, h5, h6⟩ := h
  simp only at h1 h2 h6
  subst h1
  obtain ⟨rd, ra, rb, rc, re⟩ := rt
  simp only [data_mk] at h2
  subst h2
  obtain ⟨cnt, rects⟩ := ln
  obtain ⟨rcnt, rrects⟩ := rn
  simp only [eAbs, nodeOf, data_mk, usedSlots_length _ h3, usedSlots_length _ h4, count_mk, id]
  obtain ⟨hl1, hl2, hl3⟩ := h3
  obtain ⟨hr1, hr2, hr3⟩ := h4
  simp only [count_mk, rects_mk] at hl1 hl2 hl3 hr1 hr2 hr3 h5
  simp only [splitEqBody, bind, asRNode_rNode, Option.bind_some, rects_mk, count_mk, data_mk,
    min0_mk, min1_mk, max0_mk, max1_mk]
  have happ : ∀ (c : Int) (rs : List (IGen.RRect F)), 0 ≤ c → c.toNat < rs.length →
      usedSlots (IGen.RNode.mk (c + 1) (rs.set c.toNat b)) = usedSlots (IGen.RNode.mk c rs) ++ [b] := by
    intro c rs hc0 hc
    simp only [usedSlots, rects_mk, count_mk]
    rw [show (c + 1).toNat = c.toNat + 1 by omega]
    exact take_set_append rs c.toNat _ hc
  by_cases hlt : cnt < rcnt
  · have hlt' : cnt.toNat < rcnt.toNat := by omega
    have hc : cnt.toNat < rects.length := by omega
    simp only [hlt, hlt', decide_true, if_true, listSet_nat rects cnt b hl2 hc, Option.bind_some]
    refine ⟨_, rfl, ⟨_, _, rfl, rfl, ⟨?_, ?_, ?_⟩, ⟨hr1, hr2, hr3⟩, ?_, h6⟩, ?_⟩
    · simp only [rects_mk, List.length_set]; exact hl1
    · simp only [count_mk]; omega
    · simp only [count_mk]; omega
    · simp only [count_mk]; omega
    · simp only [data_mk, happ cnt rects hl2 hc]
  · have hlt' : ¬ cnt.toNat < rcnt.toNat := by omega
    have hc : rcnt.toNat < rrects.length := by omega
    simp only [hlt, hlt', decide_false, if_false, Bool.false_eq_true,
      listSet_nat rrects rcnt b hr2 hc, Option.bind_some]
    refine ⟨_, rfl, ⟨_, _, rfl, rfl, ⟨hl1, hl2, hl3⟩, ⟨?_, ?_, ?_⟩, ?_, h6.1,
      fun hz => absurd hz (by simp only [count_mk]; omega)⟩, ?_⟩
    · simp only [rects_mk, List.length_set]; exact hr1
    · simp only [count_mk]; omega
    · simp only [count_mk]; omega
    · simp only [count_mk]; omega
    · simp only [data_mk, happ rcnt rrects hr2 hc]

/-- the model's loop when every entry stays left -/
theorem splitLoop_all0 {β : Type} (cls : β → Nat) : ∀ (m : Nat) (left : List β) (i : Nat)
    (right eqs : List β), (∀ e ∈ left, cls e = 0) →
    splitLoop cls m left i right eqs = (left, right, eqs) := by
  intro m
  induction m with
  | zero => intros; rfl
  | succ m ih =>
    intro left i right eqs hall
    by_cases hi : i < left.length
    · rw [splitLoop_succ _ _ _ _ _ _ hi]
      simp only [splitStep, List.getElem?_eq_getElem hi, hall _ (List.getElem_mem hi)]
      exact ih left (i + 1) right eqs hall
    · exact splitLoop_done _ _ _ _ _ _ hi

end Concrete

end Geo.IGlue.RSplit

namespace Geo.IGlue
open Geo Geo.IGen Geo.IGlue.RSplit
open scoped Geo.KNum

/-! ## the split -/

section Main
variable {F S SR D : Type} [KNum F] [Carrier F] [Compat F] (ops : Ops F S SR D)

theorem split_eq_gen (fuel : Nat) (r right : IGen.RRect F) (nd : IGen.RNode F)
    (h : r.data = .rNode nd) (hs : SlotsOK nd) (hf : nd.count.toNat + 1 ≤ fuel) :
    ∃ l' r' ln rn, IGen.rRect_splitLargestAxisEdgeSnap ops fuel r right = some (l', r')
      ∧ l'.data = .rNode ln ∧ r'.data = .rNode rn ∧ SlotsOK ln ∧ SlotsOK rn
      ∧ (usedSlots ln, usedSlots rn) = splitEntries rbox (rbox r) (usedSlots nd)
      ∧ ln.count + rn.count = nd.count
      ∧ (1 ≤ ln.count → ∀ dflt, rbox l' = recalcBoxes ((usedSlots ln).map rbox) dflt)
      ∧ (1 ≤ rn.count → ∀ dflt, rbox r' = recalcBoxes ((usedSlots rn).map rbox) dflt)
      ∧ (ln.count = 0 → ∀ e, ln.rects[0]? = some e → rbox l' = rbox e)
      ∧ (rn.count = 0 → rbox r' = rbox (zeroRect : IGen.RRect F)) := by
  obtain ⟨d, a0, a1, c0, c1⟩ := r
  simp only [data_mk] at h
  subst h
  have hs' := hs
  obtain ⟨hl1, hl2, hl3⟩ := hs'
  rw [split_unfold]
  simp only [asRNode_rNode, Option.bind_some]
  have hax : (rRect_largestAxis ops (RRect.mk (Dyn.rNode nd) a0 a1 c0 c1)).1
      = maxis (⟨a0, a1, c0, c1⟩ : GBox F) := by
    rw [largestAxis_eq']; rfl
  rw [hax]
  -- the partition loop
  have hI0 : sInv (rbox right) nd.count
      ((RRect.mk (Dyn.rNode (IGen.RNode.mk 0 (List.replicate 17 zeroRect)))
          right.min0 right.min1 right.max0 right.max1 : IGen.RRect F),
        ([] : List (IGen.RRect F)), Dyn.rNode nd, (0 : Int)) := by
    refine ⟨nd, _, rfl, rfl, hs, ⟨?_, ?_, ?_⟩, Int.le_refl 0, hl2, ?_, rfl, fun _ => by simp⟩
    · simp only [rects_mk, List.length_replicate]
    · simp only [count_mk]; omega
    · simp only [count_mk]; omega
    · simp only [count_mk, List.length_nil]; omega
  obtain ⟨s1, hloop, hI1, he1⟩ := loopW_splitLoop
    (ρ := IGen.RRect F × IGen.RRect F) (mcls (⟨a0, a1, c0, c1⟩ : GBox F)) splitCond
    (splitBody (maxis (⟨a0, a1, c0, c1⟩ : GBox F)) a0 a1 c0 c1) sAbs (sInv (rbox right) nd.count)
    (splitCond_eq (rbox right) nd.count)
    (splitBody_eq (⟨a0, a1, c0, c1⟩ : GBox F) (rbox right) nd.count hl3)
    nd.count.toNat fuel (2 * (usedSlots nd).length + 2) _ hI0
    (by simp only [sAbs, nodeOf, usedSlots_length _ hs]; omega) (by omega)
    (by rw [usedSlots_length _ hs]; omega)
  rw [hloop]
  obtain ⟨rt1, eqs1, d1, i1⟩ := s1
  obtain ⟨ln1, rn1, g1, g2, g3, g4, g5, g6, g7, g8⟩ := hI1
  simp only at g1 g2 g5 g6 g7 g8
  subst g1
  simp only [Option.bind_some]
  -- the distribution of the equal entries
  obtain ⟨s2, hdist, hI2, he2⟩ := loopM_distribute splitEqBody id eAbs
    (eInv (rbox right) nd.count) (splitEqBody_eq (rbox right) nd.count hl3) eqs1 (Dyn.rNode ln1, rt1)
    ⟨ln1, rn1, rfl, g2, g3, g4, g7, g8⟩
  rw [hdist]
  obtain ⟨d2, rt2⟩ := s2
  obtain ⟨ln2, rn2, k1, k2, k3, k4, k5, k6⟩ := hI2
  simp only at k1 k2 k5 k6
  subst k1
  simp only [Option.bind_some]
  -- the two recalcs
  obtain ⟨l', hrl, hdl, hbl, hzl⟩ := recalc_eq' ops (RRect.mk (Dyn.rNode ln2) a0 a1 c0 c1) ln2 rfl k3
  obtain ⟨r', hrr, hdr, hbr, hzr⟩ := recalc_eq' ops rt2 rn2 k2 k4
  rw [hrl]
  simp only [Option.bind_some]
  obtain ⟨ld, la, lb, lc, le⟩ := l'
  simp only [hrr, Option.bind_some]
  refine ⟨_, _, ln2, rn2, rfl, hdl, hdr.trans k2, k3, k4, ?_, ?_, hbl, hbr, hzl, fun hz => hzr hz _ (k6.2 hz)⟩
  · -- the central equation
    rw [splitEntries_mcls]
    simp only [sAbs, nodeOf, data_mk, g2] at he1
    have hempty : usedSlots (IGen.RNode.mk 0 (List.replicate 17 (zeroRect : IGen.RRect F))) = [] := by
      simp [usedSlots]
    rw [hempty] at he1
    simp only [Int.toNat_zero] at he1
    show _ = (match splitLoop (mcls (⟨a0, a1, c0, c1⟩ : GBox F)) (2 * (usedSlots nd).length + 2)
      (usedSlots nd) 0 [] [] with | (l, r, e) => distributeEquals l r e)
    rw [← he1]
    simp only [eAbs, nodeOf, k2, g2, List.map_id] at he2
    exact he2
  · -- nothing is lost
    simpa using k5

/-- **The generated split is the model's split on the used slots** (same entries, same order,
    on both sides), and each returned rect is the model's `recalcBoxes` of its side when that side
    is not empty.

    REMARK (empty side).  Go's `recalc` starts from `n.rects[0]` even when `count = 0`; the model's
    `recalcBoxes [] dflt` is `dflt`.  `split_eq_gen` says what the generated code returns then: for
    an empty right node the rect of the fresh node's zero slot, `(0,0,0,0)`; for an empty left
    node the rect of the stale slot 0.  A side can be empty only when the receiver's rect is not
    the bounding box of its entries (`split_right_empty` below: all entries strictly nearer the
    min edge); this is why the two rect equations carry the hypothesis `count ≥ 1`. -/
theorem split_eq (fuel : Nat) (hf : 40 ≤ fuel) (r right : IGen.RRect F) (nd : IGen.RNode F)
    (h : r.data = .rNode nd) (hs : SlotsOK nd) (hc : 2 ≤ nd.count) :
    ∃ l' r' ln rn, IGen.rRect_splitLargestAxisEdgeSnap ops fuel r right = some (l', r')
      ∧ l'.data = .rNode ln ∧ r'.data = .rNode rn ∧ SlotsOK ln ∧ SlotsOK rn
      ∧ (usedSlots ln, usedSlots rn) = splitEntries rbox (rbox r) (usedSlots nd)
      ∧ (ln.count ≥ 1 → rbox l' = recalcBoxes ((usedSlots ln).map rbox) (rbox r))
      ∧ (rn.count ≥ 1 → rbox r' = recalcBoxes ((usedSlots rn).map rbox) (rbox right)) := by
  have hf' : nd.count.toNat + 1 ≤ fuel := by have := hs.2.2; omega
  obtain ⟨l', r', ln, rn, e1, e2, e3, e4, e5, e6, _, e8, e9, _, _⟩ :=
    split_eq_gen ops fuel r right nd h hs hf'
  exact ⟨l', r', ln, rn, e1, e2, e3, e4, e5, e6, fun hl => e8 hl _, fun hr => e9 hr _⟩

/-- THE EMPTY SIDE, concretely: when every used entry is strictly nearer the min edge of the
    receiver's rect (class 0 — impossible when that rect is the entries' bounding box), the right
    node comes back empty and the generated code returns the ZERO rect for it, whereas the model's
    `recalcBoxes [] dflt` returns `dflt`. -/
theorem split_right_empty (fuel : Nat) (hf : 18 ≤ fuel) (r right : IGen.RRect F) (nd : IGen.RNode F)
    (h : r.data = .rNode nd) (hs : SlotsOK nd)
    (hall : ∀ e ∈ usedSlots nd, mcls (rbox r) e = 0) :
    ∃ l' r' rn, IGen.rRect_splitLargestAxisEdgeSnap ops fuel r right = some (l', r')
      ∧ r'.data = .rNode rn ∧ usedSlots rn = []
      ∧ rbox r' = ⟨KNum.ofNat 0, KNum.ofNat 0, KNum.ofNat 0, KNum.ofNat 0⟩
      ∧ ∀ dflt, recalcBoxes ((usedSlots rn).map rbox) dflt = dflt := by
  have hf' : nd.count.toNat + 1 ≤ fuel := by have := hs.2.2; omega
  obtain ⟨l', r', ln, rn, e1, _, e3, _, e5, e6, _, _, _, _, e11⟩ :=
    split_eq_gen ops fuel r right nd h hs hf'
  rw [splitEntries_mcls, splitLoop_all0 _ _ _ _ _ _ hall] at e6
  have hrn : usedSlots rn = [] := (Prod.mk.inj e6).2
  have hcnt : rn.count = 0 := by
    have := usedSlots_length rn e5
    rw [hrn] at this
    have := e5.2.1
    simp only [List.length_nil] at *
    omega
  refine ⟨l', r', rn, e1, e3, hrn, e11 hcnt, ?_⟩
  intro dflt
  rw [hrn]; rfl

end Main

#print axioms Geo.IGlue.split_eq_gen
#print axioms Geo.IGlue.split_right_empty
#print axioms Geo.IGlue.split_eq

end Geo.IGlue
