/-
  The float bridge of DESIGN §3 as theorems.

  SETTING.  Finite binary64 values are modelled by their rational value; `Geo.F.rn` is IEEE-754
  round-to-nearest-even to 53 significant bits with gradual underflow (`Float/Round.lean`,
  validated by `#eval` against known doubles in `Float/Ops.lean`), and every binary64 operation
  is the rounding of the exact result (`fadd fsub fmul fdiv`), `nextUp` is
  `math.Nextafter(·, +Inf)`.  What remains TRUSTED: that the hardware implements IEEE-754
  correctly rounded +,-,*,/ (it does, by the standard), that Go compiles the expressions of
  raycast.go / segment.go to these operations (an FMA contraction would not matter: all
  products and sums are exact on E), and that `raycastF`/`segIntersectsF`
  (`Float/KernelF.lean`) transcribe the Go source.  Not modelled: overflow (all quantities on E
  are < 2^60) and the sign of zero (only observable through division by zero; all zero divisors
  in the two functions are differences x - x = +0, or are guarded by `eqZero`).

  REGIME.  E = { k·2^-4 : |k| ≤ 2^24 } (`InE`), the WHOLE regime of DESIGN §3 — not only the
  integer sub-regime: the `t = cmpxs·(1/rxs)` comparisons are proved exact on all of E.
  No coordinates in E were found on which a float decision differs from the exact one.

  RESULTS
  * `raycast_float_exact`        raycastF a b p = Geo.raycast a b p           (a b p ∈ E², any fuel ≥ 2)
  * `segIntersects_float_exact`  segIntersectsF s o = Geo.segIntersectsS s o  (endpoints ∈ E²)
  * `containsSegment_float_exact`, `collinearPoint_float_exact`
  * the same for the kernels GENERATED from the Go source (`GeoModel/Generated/KernelGen.lean`,
    polymorphic in `KNum α`) evaluated at the exact binary64 model `instKNumFQ : KNum FQ`
    (`Float/KNumQ.lean`: NaN, ±Inf, finite = rounded rational, overflow to ±Inf):
      `kgen_raycast_float_exact`, `kgen_intersectsSegment_float_exact`,
      `kgen_containsSegment_float_exact`, `kgen_collinearPoint_float_exact`
    and the identification of the hand transcription with the generated code on E:
      `kgen_raycast_handF`, `kgen_intersects_handF`.  With these the transcription
    `KernelF.lean` leaves the trusted base (what is trusted instead: the translator).
  * `Float/Validate.lean` (executable, `#guard`): `rn`, `nextUp` agree with the hardware on
    100 000 random operations; the hand transcription agrees with the generated kernels run on
    hardware floats on 60 000 random configurations in E.
  * rounding: `rn_of_F64 rn_mono rn_neg rn_rel_error rn_eq_zero_iff rn_pos`, `F64_rn` (rn lands in
    F64 below the overflow threshold), `rn_rn`; `nextUp_gt nextUp_least Grid_nextUp` (nextUp is THE
    successor among doubles)
  * exactness on E: `fsub_exact fmul_exact fsub_exact2 fadd_exact2 cross_exact`
  * quotients: `rn_quot_lt rn_quot_lt_iff rn_quot_le_iff rn_quot_eq_iff fdiv_eq_iff fdiv_le_iff`
  * reciprocal-multiply: `tcmp`;  nudge: `nextUp_E nextUp_lt_iff nextUp_gt_iff nudge_E`
-/
import GeoProofs.Float.BridgeSeg
import GeoProofs.Float.KGenSeg
import GeoProofs.Float.NextUp

namespace Geo
open Geo.F

/-- **Raycast: the binary64 code decides as the exact model on E.** -/
theorem raycast_float_exact {a b p : Pt} (ha : PtE a) (hb : PtE b) (hp : PtE p) :
    raycastF a b p = Geo.raycast a b p := raycastF_eq ha hb hp

/-- the `Nextafter` loop needs at most one step: any fuel ≥ 2 gives the same result -/
theorem raycast_float_exact_fuel {a b p : Pt} (ha : PtE a) (hb : PtE b) (hp : PtE p) (n : ℕ) :
    raycastFuel (n + 2) a b p = Geo.raycast a b p := raycastFuel_eq ha hb hp n

/-- **IntersectsSegment: the binary64 code decides as the exact model on all of E.** -/
theorem segIntersects_float_exact {s o : Seg} (hsa : PtE s.a) (hsb : PtE s.b) (hoa : PtE o.a)
    (hob : PtE o.b) : segIntersectsF s o = segIntersectsS s o :=
  segIntersectsF_eq hsa hsb hoa hob

theorem segIntersects_float_exact_val {s o : Seg} (hsa : PtE s.a) (hsb : PtE s.b)
    (hoa : PtE o.a) (hob : PtE o.b) : (segIntersectsF s o).val = s.intersects o := by
  rw [segIntersects_float_exact hsa hsb hoa hob]; rfl

/-- the integer sub-regime (|coordinate| ≤ 2^20, integer) is contained in E -/
theorem InE_of_int (k : ℤ) (hk : |k| ≤ 2 ^ 20) : InE (k : ℚ) :=
  ⟨16 * k, by rw [abs_mul]; norm_num; omega, by push_cast; ring⟩

theorem segIntersects_float_exact_partial {s o : Seg}
    (h : ∀ p ∈ [s.a, s.b, o.a, o.b], ∃ i j : ℤ, |i| ≤ 2 ^ 20 ∧ |j| ≤ 2 ^ 20 ∧ p = ⟨i, j⟩) :
    segIntersectsF s o = segIntersectsS s o := by
  have key : ∀ p ∈ [s.a, s.b, o.a, o.b], PtE p := by
    intro p hp
    obtain ⟨i, j, hi, hj, rfl⟩ := h p hp
    exact ⟨InE_of_int i hi, InE_of_int j hj⟩
  exact segIntersects_float_exact (key _ (by simp)) (key _ (by simp)) (key _ (by simp))
    (key _ (by simp))

/-- ContainsSegment -/
theorem containsSegment_float_exact {s o : Seg} (hsa : PtE s.a) (hsb : PtE s.b) (hoa : PtE o.a)
    (hob : PtE o.b) :
    ((raycastF s.a s.b o.a).on && (raycastF s.a s.b o.b).on) = s.containsSeg o := by
  rw [raycastF_eq hsa hsb hoa, raycastF_eq hsa hsb hob]; rfl

/-- CollinearPoint: `eqZero(cmpx*ry - cmpy*rx)` in binary64 -/
theorem collinearPoint_float_exact {s : Seg} {p : Pt} (hsa : PtE s.a) (hsb : PtE s.b)
    (hp : PtE p) :
    eqZeroF (fsub (fmul (fsub p.x s.a.x) (fsub s.b.y s.a.y)) (fmul (fsub p.y s.a.y) (fsub s.b.x s.a.x)))
      = s.collinearPt p := by
  rw [(cross_exact hp.1 hsa.1 hsb.2 hsa.2 hp.2 hsa.2 hsb.1 hsa.1).1, eqZeroF_eq]; rfl

/-! ### the generated kernels at the binary64 model -/

/-- **generated `Segment.Raycast`, every operation rounded as IEEE-754 binary64 = exact model** -/
theorem kgen_raycast_float_exact {a b p : Pt} (ha : PtE a) (hb : PtE b) (hp : PtE p) :
    KGen.segmentRaycast (α := FQ) ⟨up a, up b⟩ (up p) = ⟨(Geo.raycast a b p).inn, (Geo.raycast a b p).on⟩ :=
  kgen_raycast_exact ha hb hp

/-- **generated `Segment.IntersectsSegment` at binary64 = exact model, all of E** -/
theorem kgen_intersectsSegment_float_exact {a b c d : Pt} (ha : PtE a) (hb : PtE b) (hc : PtE c)
    (hd : PtE d) :
    KGen.segmentIntersectsSegment (α := FQ) ⟨up a, up b⟩ ⟨up c, up d⟩ = Seg.intersects ⟨a, b⟩ ⟨c, d⟩ :=
  kgen_intersects_exact ha hb hc hd

theorem kgen_containsSegment_float_exact {a b c d : Pt} (ha : PtE a) (hb : PtE b) (hc : PtE c)
    (hd : PtE d) :
    KGen.segmentContainsSegment (α := FQ) ⟨up a, up b⟩ ⟨up c, up d⟩ = Seg.containsSeg ⟨a, b⟩ ⟨c, d⟩ :=
  kgen_containsSegment_exact ha hb hc hd

theorem kgen_collinearPoint_float_exact {a b p : Pt} (ha : PtE a) (hb : PtE b) (hp : PtE p) :
    KGen.segmentCollinearPoint (α := FQ) ⟨up a, up b⟩ (up p) = Seg.collinearPt ⟨a, b⟩ p :=
  kgen_collinearPoint_exact ha hb hp

/-! ### non-vacuity -/

/-- the hypotheses are satisfiable at the extreme corner of E, with non-integer coordinates -/
example : PtE ⟨2 ^ 20, -(2 ^ 20) + 1 / 16⟩ :=
  ⟨⟨2 ^ 24, by norm_num, by norm_num⟩, ⟨-(2 ^ 24) + 1, by norm_num, by norm_num⟩⟩

/-- rounding does happen inside the kernels on E (the bridge is not an exactness triviality):
    the slope (1/16)/(3/16) = 1/3 is not a double, `fdiv` changes it -/
example : F.fdiv (1 / 16) (3 / 16) ≠ (1 / 16 : ℚ) / (3 / 16) := by
  have h13 : (1 : ℚ) / 16 / (3 / 16) = 1 / 3 := by norm_num
  unfold F.fdiv; rw [h13]
  have hx0 : (1 / 3 : ℚ) ≠ 0 := by norm_num
  have h1 : (-2 : ℤ) ≤ ilog (1 / 3) := le_ilog_of_le hx0 (by norm_num [abs_of_pos])
  have h2 : ilog (1 / 3) < -1 := ilog_lt_of_lt hx0 (by norm_num [abs_of_pos])
  have he : expo (1 / 3) = -54 := by unfold expo; omega
  have hu : ulp (1 / 3) = 1 / 2 ^ 54 := by unfold ulp; rw [he]; norm_num
  unfold rn; rw [hu]
  generalize rne (1 / 3 / (1 / 2 ^ 54)) = m
  intro h
  have : ((3 * m : ℤ) : ℚ) = ((2 ^ 54 : ℤ) : ℚ) := by push_cast; linarith
  have : 3 * m = 2 ^ 54 := by exact_mod_cast this
  omega

end Geo

#print axioms Geo.raycast_float_exact
#print axioms Geo.raycast_float_exact_fuel
#print axioms Geo.segIntersects_float_exact
#print axioms Geo.segIntersects_float_exact_val
#print axioms Geo.segIntersects_float_exact_partial
#print axioms Geo.containsSegment_float_exact
#print axioms Geo.collinearPoint_float_exact
#print axioms Geo.F.rn_of_F64
#print axioms Geo.F.rn_mono
#print axioms Geo.F.rn_neg
#print axioms Geo.F.rn_rel_error
#print axioms Geo.F.rn_eq_zero_iff
#print axioms Geo.F.cross_exact
#print axioms Geo.F.rn_quot_lt
#print axioms Geo.F.rn_quot_eq_iff
#print axioms Geo.F.fdiv_eq_iff
#print axioms Geo.F.fdiv_le_iff
#print axioms Geo.F.tcmp
#print axioms Geo.F.nudge_E
#print axioms Geo.F.F64_rn
#print axioms Geo.F.nextUp_least
#print axioms Geo.F.Grid_nextUp
#print axioms Geo.F.rn_quot_le_iff
#print axioms Geo.F.nextUp_E
#print axioms Geo.kgen_raycast_float_exact
#print axioms Geo.kgen_intersectsSegment_float_exact
#print axioms Geo.kgen_containsSegment_float_exact
#print axioms Geo.kgen_collinearPoint_float_exact
#print axioms Geo.F.kgen_raycast_handF
#print axioms Geo.F.kgen_intersects_handF
