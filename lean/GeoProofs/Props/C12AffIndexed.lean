/-
  C12 (affine equivariance of the predicates) lifted from un-indexed shapes to shapes carrying
  ANY segment-index configuration on both sides, by composing `geom_*_index_indep` (C04) with
  `geom_*_aff` (C12).
-/
import GeoProofs.Props.C04Indep
import GeoProofs.Props.C12

namespace Geo
namespace C12AffIndexed

/-- the un-indexed build of a configuration is `Built` -/
theorem plain_built (a : GCfg) : a.plain.Built := by
  cases a with
  | point p => trivial
  | rect r => trivial
  | line c => exact mkSeries_built _ _
  | poly e hs =>
    refine ⟨fun r hr => ?_, fun h hh => ?_⟩
    · simp only [Option.some.injEq] at hr
      subst hr
      exact mkSeries_built _ _
    · simp only [List.mem_map] at hh
      obtain ⟨c, _, rfl⟩ := hh
      exact mkSeries_built _ _

/-- map the vertex list, keep the index request -/
def SerCfg.mapPts (T : Pt → Pt) (c : SerCfg) : SerCfg := ⟨c.pts.map T, c.kind, c.minPoints⟩

/-- map every coordinate of a configuration (rectangles by their corners, as `Geom.mapPts`) -/
def GCfg.mapPts (T : Pt → Pt) : GCfg → GCfg
  | .point p => .point (T p)
  | .rect r => .rect ⟨T r.min, T r.max⟩
  | .line c => .line (SerCfg.mapPts T c)
  | .poly e hs => .poly (SerCfg.mapPts T e) (hs.map (SerCfg.mapPts T))

theorem plain_mapPts (T : Pt → Pt) (a : GCfg) : (GCfg.mapPts T a).plain = a.plain.mapPts T := by
  cases a with
  | point p => rfl
  | rect r => rfl
  | line c =>
    simp only [GCfg.mapPts, GCfg.plain, Geom.mapPts, Series.mapPts, SerCfg.line0, SerCfg.mapPts,
      mkSeries_pts, mkSeries_closed]
  | poly e hs =>
    simp only [GCfg.mapPts, GCfg.plain, Geom.mapPts, Poly.mapPts, Ring.mapPts, Series.mapPts,
      SerCfg.ring0, SerCfg.mapPts, mkSeries_pts, mkSeries_closed, Option.map_some, List.map_map,
      Geom.poly.injEq, Poly.mk.injEq, true_and]
    apply List.map_congr_left
    intro h _
    simp only [Function.comp, Ring.mapPts, Series.mapPts, mkSeries_pts, mkSeries_closed]
    rfl

/-- **intersects, any index configuration on both sides, before and after the affine map**:
    `a'`, `b'` are ANY configurations whose vertex lists are the mapped vertex lists of `a`, `b`
    (index kinds and thresholds may differ from those of `a`, `b`). -/
theorem geom_intersects_aff_indexed {k : Rat} (hk : 0 < k) (d : Pt) (a b a' b' : GCfg)
    (ha : a.Exact) (hb : b.Exact) (ha' : a'.Exact) (hb' : b'.Exact)
    (hpa : a'.plain = a.plain.mapPts (Pt.aff k d)) (hpb : b'.plain = b.plain.mapPts (Pt.aff k d)) :
    a'.build.intersects b'.build = a.build.intersects b.build := by
  rw [geom_intersects_index_indep a' b' ha' hb', geom_intersects_index_indep a b ha hb, hpa, hpb]
  exact geom_intersects_aff hk d _ _ (plain_built a) (plain_built b)

/-- **contains**, with the `RingIdxSafe` side conditions of `geom_contains_index_indep` on both
    pairs -/
theorem geom_contains_aff_indexed {k : Rat} (hk : 0 < k) (d : Pt) (a b a' b' : GCfg)
    (ha : a.Exact) (hb : b.Exact) (ha' : a'.Exact) (hb' : b'.Exact)
    (hsa : a.ExtSafe) (hsb : b.HolesSafe) (hsa' : a'.ExtSafe) (hsb' : b'.HolesSafe)
    (hpa : a'.plain = a.plain.mapPts (Pt.aff k d)) (hpb : b'.plain = b.plain.mapPts (Pt.aff k d)) :
    a'.build.contains b'.build = a.build.contains b.build := by
  rw [geom_contains_index_indep a' b' ha' hb' hsa' hsb', geom_contains_index_indep a b ha hb hsa hsb,
    hpa, hpb]
  exact geom_contains_aff hk d _ _ (plain_built a) (plain_built b)

/-- the mapped configurations themselves (same index requests) -/
theorem geom_intersects_aff_mapPts {k : Rat} (hk : 0 < k) (d : Pt) (a b : GCfg)
    (ha : a.Exact) (hb : b.Exact)
    (ha' : (GCfg.mapPts (Pt.aff k d) a).Exact) (hb' : (GCfg.mapPts (Pt.aff k d) b).Exact) :
    (GCfg.mapPts (Pt.aff k d) a).build.intersects (GCfg.mapPts (Pt.aff k d) b).build =
      a.build.intersects b.build :=
  geom_intersects_aff_indexed hk d a b _ _ ha hb ha' hb' (plain_mapPts _ a) (plain_mapPts _ b)

/-- translation by any offset; `a'`, `b'` have the translated vertex lists and ARBITRARY index
    kinds / thresholds -/
theorem geom_intersects_translate_indexed (d : Pt) (a b a' b' : GCfg)
    (ha : a.Exact) (hb : b.Exact) (ha' : a'.Exact) (hb' : b'.Exact)
    (hpa : a'.plain = (GCfg.mapPts (·.translate d) a).plain)
    (hpb : b'.plain = (GCfg.mapPts (·.translate d) b).plain) :
    a'.build.intersects b'.build = a.build.intersects b.build := by
  rw [plain_mapPts, translate_fun] at hpa hpb
  exact geom_intersects_aff_indexed one_pos d a b a' b' ha hb ha' hb' hpa hpb

/-- scaling by any positive factor (in particular a power of two) -/
theorem geom_intersects_scale_indexed (k : Rat) (hk : 0 < k) (a b a' b' : GCfg)
    (ha : a.Exact) (hb : b.Exact) (ha' : a'.Exact) (hb' : b'.Exact)
    (hpa : a'.plain = (GCfg.mapPts (·.scale k) a).plain)
    (hpb : b'.plain = (GCfg.mapPts (·.scale k) b).plain) :
    a'.build.intersects b'.build = a.build.intersects b.build := by
  rw [plain_mapPts, scale_fun] at hpa hpb
  exact geom_intersects_aff_indexed hk ⟨0, 0⟩ a b a' b' ha hb ha' hb' hpa hpb

theorem geom_contains_translate_indexed (d : Pt) (a b a' b' : GCfg)
    (ha : a.Exact) (hb : b.Exact) (ha' : a'.Exact) (hb' : b'.Exact)
    (hsa : a.ExtSafe) (hsb : b.HolesSafe) (hsa' : a'.ExtSafe) (hsb' : b'.HolesSafe)
    (hpa : a'.plain = (GCfg.mapPts (·.translate d) a).plain)
    (hpb : b'.plain = (GCfg.mapPts (·.translate d) b).plain) :
    a'.build.contains b'.build = a.build.contains b.build := by
  rw [plain_mapPts, translate_fun] at hpa hpb
  exact geom_contains_aff_indexed one_pos d a b a' b' ha hb ha' hb' hsa hsb hsa' hsb' hpa hpb

theorem geom_contains_scale_indexed (k : Rat) (hk : 0 < k) (a b a' b' : GCfg)
    (ha : a.Exact) (hb : b.Exact) (ha' : a'.Exact) (hb' : b'.Exact)
    (hsa : a.ExtSafe) (hsb : b.HolesSafe) (hsa' : a'.ExtSafe) (hsb' : b'.HolesSafe)
    (hpa : a'.plain = (GCfg.mapPts (·.scale k) a).plain)
    (hpb : b'.plain = (GCfg.mapPts (·.scale k) b).plain) :
    a'.build.contains b'.build = a.build.contains b.build := by
  rw [plain_mapPts, scale_fun] at hpa hpb
  exact geom_contains_aff_indexed hk ⟨0, 0⟩ a b a' b' ha hb ha' hb' hsa hsb hsa' hsb' hpa hpb

/-- non-vacuity: the 40-vertex zig-zag ring really indexed by a quadtree, against a point; after
    `p ↦ 2 • p + (1, 2)` the ring is built WITHOUT index (changed index kind) -/
example :
    (GCfg.poly ⟨exRing40.map (Pt.aff 2 ⟨1, 2⟩), .none, 0⟩ []).build.intersects
        (GCfg.point (Pt.aff 2 ⟨1, 2⟩ ⟨3, 4⟩)).build =
      (GCfg.poly ⟨exRing40, .quadtree, 16⟩ []).build.intersects (GCfg.point ⟨3, 4⟩).build := by
  have hq : (GCfg.poly ⟨exRing40, .quadtree, 16⟩ []).Sized := by
    refine ⟨⟨by decide +kernel, fun _ => (by decide +kernel), fun h => (by cases h)⟩, ?_⟩
    intro c hc; cases hc
  have hn : (GCfg.poly ⟨exRing40.map (Pt.aff 2 ⟨1, 2⟩), .none, 0⟩ []).Exact :=
    ⟨series_search_exact_kind_none _ _ _, fun c hc => by cases hc⟩
  exact geom_intersects_aff_indexed (by norm_num) ⟨1, 2⟩ _ (GCfg.point ⟨3, 4⟩) _ _ hq.exact trivial
    hn trivial (plain_mapPts (Pt.aff 2 ⟨1, 2⟩) (GCfg.poly ⟨exRing40, .quadtree, 16⟩ []))
    (plain_mapPts (Pt.aff 2 ⟨1, 2⟩) (GCfg.point ⟨3, 4⟩))

end C12AffIndexed
end Geo
