/-
  GeoProofs.OptPred.CounterexampleHoles — `HolesSafe` of the ARGUMENT of `contains` cannot be
  dropped either: polygon A (big square, triangular hole T) against polygon B (smaller square,
  hole = the pinched ring `ring17`).  `A.contains B` asks whether the hole T of A is covered by a
  hole of B (`ringContainsRing ring17 T true`): `false` when B is parsed without index, `true`
  when B is parsed with `IndexGeometryKind = RTree, IndexGeometry = 6`.
-/
import GeoProofs.OptPred.Counterexample

namespace Geo

/-! ### `ringContainsRing` over a known visit order -/

def ringContainsRingBodyV (s : Series) (v : Box → List Nat) (other : Ring) (allow : Bool) : Bool :=
  if !s.rect.containsBox other.rect then false
  else if s.convex then
    (List.range other.numPoints).all (fun i => (containsPointV s v (other.pointAt i) allow).hit)
  else
    (List.range other.numSegments).all (fun i => (ringContainsSegmentV s v (other.segmentAt i) allow).val)

def ringContainsRingV (s : Series) (v : Box → List Nat) (other : Ring) (allow : Bool) : Bool :=
  if s.empty || other.empty then false
  else if other.numPoints ≥ complexRingMinPoints &&
      ringContainsRingBodyV s v (.bx other.rect) allow then true
  else ringContainsRingBodyV s v other allow

theorem ringContainsRingBody_eq_V (s : Series) (v : Box → List Nat)
    (h : ∀ q, (Ring.ser s).FoldOn q (v q)) (other : Ring) (allow : Bool) :
    ringContainsRingBody (.ser s) other allow = ringContainsRingBodyV s v other allow := by
  have hp : ∀ p, ringContainsPoint (.ser s) p allow = containsPointV s v p allow :=
    fun p => (h _).containsPoint allow
  have hs : ∀ seg, ringContainsSegment (.ser s) seg allow = (ringContainsSegmentV s v seg allow).val :=
    fun seg => by unfold ringContainsSegment; rw [ringContainsSegmentS_eq_V s v h]
  unfold ringContainsRingBody ringContainsRingBodyV
  simp only [hp, hs]
  rfl

theorem ringContainsRing_eq_V (s : Series) (v : Box → List Nat)
    (h : ∀ q, (Ring.ser s).FoldOn q (v q)) (other : Ring) (allow : Bool) :
    ringContainsRing (.ser s) other allow = ringContainsRingV s v other allow := by
  unfold ringContainsRing ringContainsRingV
  rw [ringContainsRingBody_eq_V s v h, ringContainsRingBody_eq_V s v h]
  rfl

/-! ### the documents -/

def bigA : List Pos := [
    pz (-100) (-100) "-100" "-100", pz (200) (-100) "200" "-100", pz (200) (200) "200" "200",
    pz (-100) (200) "-100" "200", pz (-100) (-100) "-100" "-100"]
def bigB : List Pos := [
    pz (-50) (-50) "-50" "-50", pz (150) (-50) "150" "-50", pz (150) (150) "150" "150",
    pz (-50) (150) "-50" "150", pz (-50) (-50) "-50" "-50"]
def tri17 : List Pos := [
    pz (32) (0) "32" "0", pz (64) (48) "64" "48", pz (60) (10) "60" "10",
    pz (32) (0) "32" "0"]

/-- `{"type":"Polygon","coordinates":[[[-100,-100],[200,-100],[200,200],[-100,200],[-100,-100]],
    [[32,0],[64,48],[60,10],[32,0]]]}` -/
def docHoleA : JVal :=
  .obj [jmem "type" (jstr "Polygon"),
    jmem "coordinates" (.arr [.arr [
      .arr [jnum (-100) "-100", jnum (-100) "-100"], .arr [jnum (200) "200", jnum (-100) "-100"],
      .arr [jnum (200) "200", jnum (200) "200"], .arr [jnum (-100) "-100", jnum (200) "200"],
      .arr [jnum (-100) "-100", jnum (-100) "-100"]],
      .arr [
      .arr [jnum (32) "32", jnum (0) "0"], .arr [jnum (64) "64", jnum (48) "48"],
      .arr [jnum (60) "60", jnum (10) "10"], .arr [jnum (32) "32", jnum (0) "0"]]])]

/-- `{"type":"Polygon","coordinates":[[[-50,-50],[150,-50],[150,150],[-50,150],[-50,-50]],
    [[0,0],[8,0],…,[0,64],[0,0]]]}` (second ring: `ring17`) -/
def docHoleB : JVal :=
  .obj [jmem "type" (jstr "Polygon"),
    jmem "coordinates" (.arr [.arr [
      .arr [jnum (-50) "-50", jnum (-50) "-50"], .arr [jnum (150) "150", jnum (-50) "-50"],
      .arr [jnum (150) "150", jnum (150) "150"], .arr [jnum (-50) "-50", jnum (150) "150"],
      .arr [jnum (-50) "-50", jnum (-50) "-50"]],
      .arr [
      .arr [jnum (0) "0", jnum (0) "0"], .arr [jnum (8) "8", jnum (0) "0"],
      .arr [jnum (16) "16", jnum (0) "0"], .arr [jnum (24) "24", jnum (0) "0"],
      .arr [jnum (64) "64", jnum (0) "0"], .arr [jnum (64) "64", jnum (64) "64"],
      .arr [jnum (62) "62", jnum (58) "58"], .arr [jnum (60) "60", jnum (52) "52"],
      .arr [jnum (58) "58", jnum (46) "46"], .arr [jnum (54) "54", jnum (34) "34"],
      .arr [jnum (48) "48", jnum (16) "16"], .arr [jnum (32) "32", jnum (0) "0"],
      .arr [jnum (28) "28", jnum (8) "8"], .arr [jnum (24) "24", jnum (16) "16"],
      .arr [jnum (20) "20", jnum (24) "24"], .arr [jnum (12) "12", jnum (40) "40"],
      .arr [jnum (0) "0", jnum (64) "64"], .arr [jnum (0) "0", jnum (0) "0"]]])]

theorem parse_docHoleA (o : POpts) (ho : o.requireValid = false) :
    parseTop o docHoleA = .ok (.polygon (mkPoly o [bigA, tri17]) [bigA, tri17] none) := by
  obtain ⟨ic, ig, ik, rv, sp, dc, ar⟩ := o
  simp only at ho
  subst ho
  show parse _ (4+1) (.obj _) = _
  rw [parse_succ_obj]
  rfl

theorem parse_docHoleB (o : POpts) (ho : o.requireValid = false) :
    parseTop o docHoleB = .ok (.polygon (mkPoly o [bigB, ring17pos]) [bigB, ring17pos] none) := by
  obtain ⟨ic, ig, ik, rv, sp, dc, ar⟩ := o
  simp only at ho
  subst ho
  show parse _ (4+1) (.obj _) = _
  rw [parse_succ_obj]
  rfl

end Geo

namespace Geo

def optsRTree6 : POpts := { indexKind := .rtree, indexGeometry := 6 }

theorem ring17R6_foldOn (q : Box) :
    (Ring.ser (mkSeries ring17 true .rtree 6)).FoldOn q
      (visitL (mkSeries ring17 true .rtree 6) (rOrder ring17 true) q) :=
  rtree_series_foldOn ring17 true 6 (by decide +kernel) ring17_dyadic (by decide +kernel)
    (by decide +kernel) q

/-- the ring-level fact: is the triangle T covered by the pinched ring (inclusive reading)? -/
theorem hole17_contains_tri :
    ringContainsRing (.ser (mkSeries ring17 true .none 0))
      (.ser (mkSeries (ptsOf tri17) true .none 0)) true = false ∧
    ringContainsRing (.ser (mkSeries ring17 true .rtree 6))
      (.ser (mkSeries (ptsOf tri17) true .none 0)) true = true := by
  constructor
  · decide +kernel
  · rw [ringContainsRing_eq_V _ _ ring17R6_foldOn]
    decide +kernel

theorem objHole_contains (o : POpts) :
    (Obj.polygon (mkPoly optsNone [bigA, tri17]) [bigA, tri17] none).contains
      (.polygon (mkPoly o [bigB, ring17pos]) [bigB, ring17pos] none) =
    Poly.containsPoly (mkPoly optsNone [bigA, tri17]) (mkPoly o [bigB, ring17pos]) := by
  simp only [Obj.contains, Obj.withinPoly]

theorem objHole_contains_none :
    Poly.containsPoly (mkPoly optsNone [bigA, tri17]) (mkPoly optsNone [bigB, ring17pos]) = false := by
  decide +kernel

theorem objHole_contains_rtree :
    Poly.containsPoly (mkPoly optsNone [bigA, tri17]) (mkPoly optsRTree6 [bigB, ring17pos]) = true := by
  have f1 : ringContainsRing (.ser (mkSeries (ptsOf bigA) true .none 0))
      (.ser (mkSeries (ptsOf bigB) true .rtree 6)) true = true := by decide +kernel
  have f2 : ringIntersectsRing (.ser (mkSeries (ptsOf tri17) true .none 0))
      (.ser (mkSeries (ptsOf bigB) true .rtree 6)) false = true := by decide +kernel
  have f3 := hole17_contains_tri.2
  unfold Poly.containsPoly mkPoly
  simp only [optsNone, optsRTree6, List.map_cons, List.map_nil, List.all_cons, List.all_nil,
    List.any_cons, List.any_nil, ptsOf_ring17pos, f1, f2, f3]
  rfl

end Geo

namespace Geo

/-- **FINDING (Parse level, D20 on a hole of the ARGUMENT)**: `docHoleA` parsed once;
    `docHoleB` parsed with `{IndexGeometryKind: None}` resp. `{IndexGeometryKind: RTree,
    IndexGeometry: 6}` (only the 18-point hole gets an index): `A.Contains(B)` is `false` resp.
    `true`.  All exteriors are convex (`ExtSafe` holds); only `HolesSafe` of B fails. -/
theorem parse_contains_holes_rtree_vs_none :
    ∃ a b b', parseTop optsNone docHoleA = .ok a ∧ parseTop optsNone docHoleB = .ok b ∧
      parseTop optsRTree6 docHoleB = .ok b' ∧ SameButIndex optsNone optsRTree6 ∧ ObsEq b b' ∧
      a.ExtSafe ∧ a.contains b = false ∧ a.contains b' = true ∧
      b.within a = false ∧ b'.within a = true := by
  have h : SameButIndex optsNone optsRTree6 := ⟨rfl, rfl, rfl, rfl⟩
  have pa := parse_docHoleA optsNone rfl
  have pb := parse_docHoleB optsNone rfl
  have pb' := parse_docHoleB optsRTree6 rfl
  have e := index_opts_obsEq _ _ h _ _ _ _ pb pb'
  have c1 := (objHole_contains optsNone).trans objHole_contains_none
  have c2 := (objHole_contains optsRTree6).trans objHole_contains_rtree
  refine ⟨_, _, _, pa, pb, pb', h, e, ?_, c1, c2, c1, c2⟩
  intro r hr
  cases hr
  exact Or.inl (by decide +kernel : (processPoints (ptsOf bigA) true).convex = true)

end Geo
