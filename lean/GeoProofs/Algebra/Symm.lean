/-
  GeoProofs.Algebra.Symm — symmetry of `Geom.intersects` on all 16 pairs of kinds from STRUCTURAL
  hypotheses only (`Geom.SymOK`): line strings well-formed (`Series.WF`), polygon exteriors made
  by `mkSeries … true kind m` with an exact search.  No validity, no simplicity; holes arbitrary.

  Point × anything, Rect × Line, Rect × Poly, Line × Poly run the same computation in both
  orders; Rect × Rect is arithmetic; Line × Line swaps its arguments by number of points and is
  exact when they are equal; Poly × Poly rests on the EXACTNESS of ring × ring
  (`IX.ringIntersectsRing_exact_of_spec`, every pair of vertex lists), the two hole tests being
  the same in both orders.
-/
import GeoProofs.Algebra.GeomLaws
import GeoProofs.Intersects.Model
import GeoProofs.IndexIndep.Shapes
import GeoProofs.Props.C02

namespace Geo
open GL IX

/-- a ring made by the constructors: a closed `mkSeries` with exact search, or a well-formed box -/
def Ring.Made : Ring → Prop
  | .ser s => ∃ pts kind m, s = mkSeries pts true kind m ∧ s.SearchExact
  | .bx b => b.min.x ≤ b.max.x ∧ b.min.y ≤ b.max.y

def Geom.SymOK : Geom → Prop
  | .line l => l.WF
  | .poly p => ∀ e, p.ext = some e → e.Made
  | _ => True

theorem Ring.Made.wf {r : Ring} (h : r.Made) : r.WF := by
  cases r with
  | bx b => trivial
  | ser s =>
    obtain ⟨pts, kind, m, rfl, hs⟩ := h
    exact ⟨rfl, hs⟩

theorem Geom.SymOK.wf {A : Geom} (h : A.SymOK) : A.WF := by
  cases A with
  | poly p => exact fun e he => (h e he).wf
  | line l => exact h
  | _ => trivial

theorem Ring.Made.spec {r : Ring} (h : r.Made) : ∃ C, RingSpec r C := by
  cases r with
  | bx b => exact ⟨_, ringSpec_bx b h⟩
  | ser s =>
    obtain ⟨pts, kind, m, rfl, hs⟩ := h
    exact ⟨_, ringSpec_ser pts kind m hs⟩

theorem ringIntersectsRing_symm_made {r o : Ring} (hr : r.Made) (ho : o.Made) :
    ringIntersectsRing r o true = ringIntersectsRing o r true := by
  obtain ⟨A, sA⟩ := hr.spec
  obtain ⟨B, sB⟩ := ho.spec
  rw [Bool.eq_iff_iff, ringIntersectsRing_exact_of_spec sA sB, ringIntersectsRing_exact_of_spec sB sA]
  constructor <;> rintro ⟨x, h1, h2⟩ <;> exact ⟨x, h2, h1⟩

/-- the series with its index dropped -/
def Series.unindexed (s : Series) : Series := { s with index := none }

theorem Series.WF.sim_unindexed {s : Series} (hs : s.WF) : Line.Sim s s.unindexed :=
  ⟨⟨rfl, rfl, rfl, rfl, rfl⟩, hs.2, searchExact_of_index_none _ rfl⟩

theorem Series.WF.plain_unindexed {s : Series} (hs : s.WF) : Plain s.unindexed := ⟨rfl, hs.1⟩

theorem lineIntersectsLine_symm_wf {l m : Line} (hl : l.WF) (hm : m.WF) :
    l.intersectsLine m = m.intersectsLine l := by
  rw [Line.Sim.intersectsLine hl.sim_unindexed hm.sim_unindexed,
    Line.Sim.intersectsLine hm.sim_unindexed hl.sim_unindexed]
  exact lineIntersectsLine_symm _ _ hl.plain_unindexed hm.plain_unindexed

theorem polyIntersectsPoly_symm {p q : Poly} (hp : ∀ e, p.ext = some e → e.Made)
    (hq : ∀ e, q.ext = some e → e.Made) : p.intersectsPoly q = q.intersectsPoly p := by
  unfold Poly.intersectsPoly
  cases he : p.ext with
  | none => cases q.ext <;> rfl
  | some e =>
    cases ho : q.ext with
    | none => rfl
    | some oe =>
      simp only
      rw [ringIntersectsRing_symm_made (hq oe ho) (hp e he)]
      cases ringIntersectsRing e oe true <;>
        cases p.holes.any (fun h => ringContainsRing h oe false) <;>
        cases q.holes.any (fun h => ringContainsRing h e false) <;> rfl

theorem geom_intersects_symm (A B : Geom) (hA : A.SymOK) (hB : B.SymOK) :
    A.intersects B = B.intersects A := by
  cases A with
  | point a =>
    cases B with
    | point b =>
      simp only [Geom.intersects]; rw [Bool.eq_iff_iff, decide_eq_true_eq, decide_eq_true_eq]; exact eq_comm
    | _ => rfl
  | rect r =>
    cases B with
    | rect o => exact rect_intersects_symm r o
    | _ => rfl
  | line l =>
    cases B with
    | line m => exact lineIntersectsLine_symm_wf hA hB
    | _ => rfl
  | poly p =>
    cases B with
    | poly q => exact polyIntersectsPoly_symm hA hB
    | _ => rfl

end Geo
