/-
  GeoProofs.Contains.Covers — the specification side: `Spec.segInside` / `Spec.covers` in
  general position.  When no curve edge of `A` meets the segment there is no cut parameter
  besides 0 and 1, so `segInside` samples the endpoints and the midpoint; membership being
  constant along the segment (Jordan lemma), it is the membership of the first endpoint.
-/
import GeoProofs.Contains.Hole

namespace Geo
open GL Jordan

namespace Contains

theorem cutParams_nil (a b c d : Pt) (h : Spec.segsMeet a b c d = false) :
    Spec.cutParams a b c d = [] := by
  obtain ⟨h1, h2, -, -⟩ := segsMeet_false h
  unfold Spec.cutParams
  simp only [h1, h2, Bool.false_eq_true, if_false, List.append_nil]
  split_ifs with hr hc
  · rfl
  · exfalso
    rw [segsMeet_eq_false_iff] at h
    apply h
    have := (K.cramer_leaf (a := a) (b := b) (c := c) (d := d) hr).1
    apply this
    simp only [Bool.and_eq_true, decide_eq_true_eq, ge_iff_le] at hc ⊢
    exact hc
  · rfl

theorem cut_fold (a b : Pt) (aedges : List (Pt × Pt))
    (h : ∀ f ∈ aedges, Spec.segsMeet a b f.1 f.2 = false) (acc : List Rat) :
    aedges.foldl (fun acc f => (Spec.cutParams a b f.1 f.2).foldl
      (fun acc t => Spec.insertSorted t acc) acc) acc = acc := by
  induction aedges generalizing acc with
  | nil => rfl
  | cons f fs ih =>
    rw [List.foldl_cons, cutParams_nil a b f.1 f.2 (h f (by simp))]
    exact ih (fun g hg => h g (by simp [hg])) acc

theorem pointAt_zero (a b : Pt) : Spec.pointAt a b 0 = a := by
  unfold Spec.pointAt
  simp

theorem pointAt_one (a b : Pt) : Spec.pointAt a b 1 = b := by
  unfold Spec.pointAt
  simp

theorem pointAt_onSeg (a b : Pt) (t : Rat) (h0 : 0 ≤ t) (h1 : t ≤ 1) :
    OnSeg a b (Spec.pointAt a b t) :=
  K.onSeg_of_param h0 h1 rfl rfl

/-- no curve edge meets the segment and membership is constant along it: `segInside` is the
    membership of the first endpoint -/
theorem segInside_of_avoids (member : Pt → Bool) (aedges : List (Pt × Pt)) (a b : Pt)
    (h : ∀ f ∈ aedges, Spec.segsMeet a b f.1 f.2 = false)
    (hc : ∀ x, OnSeg a b x → member x = member a) :
    Spec.segInside member aedges a b = member a := by
  unfold Spec.segInside
  split_ifs with hab
  · rfl
  · simp only [cut_fold a b aedges h]
    simp only [List.tail_cons, List.zip_cons_cons, List.zip_nil_right, List.map_cons, List.map_nil,
      List.cons_append, List.nil_append, List.all_cons, List.all_nil, Bool.and_true]
    rw [pointAt_zero, pointAt_one, hc b (K.onSeg_right a b),
      hc _ (pointAt_onSeg a b ((0 + 1) / 2) (by norm_num) (by norm_num))]
    simp

/-- the edges of the exterior and of every hole, one ring at a time -/
theorem poly_edges_mem (ext : List Pt) (holes : List (List Pt)) (e : Pt × Pt) :
    e ∈ (Spec.Shape.poly ext holes).edges ↔
      (e ∈ Spec.edges ext true ∨ ∃ h ∈ holes, e ∈ Spec.edges h true) := by
  unfold Spec.Shape.edges
  simp only [List.mem_append, List.mem_flatten, List.mem_map]
  constructor
  · rintro (h | ⟨l, ⟨h, hh, rfl⟩, he⟩)
    · exact Or.inl h
    · exact Or.inr ⟨h, hh, he⟩
  · rintro (h | ⟨h, hh, he⟩)
    · exact Or.inl h
    · exact Or.inr ⟨_, ⟨h, hh, rfl⟩, he⟩

theorem all_congr_mem {α : Type} (l : List α) (f g : α → Bool) (h : ∀ x ∈ l, f x = g x) :
    l.all f = l.all g := by
  induction l with
  | nil => rfl
  | cons x xs ih =>
    simp only [List.all_cons]
    rw [h x (by simp), ih (fun y hy => h y (by simp [hy]))]

theorem any_congr_mem {α : Type} (l : List α) (f g : α → Bool) (h : ∀ x ∈ l, f x = g x) :
    l.any f = l.any g := by
  induction l with
  | nil => rfl
  | cons x xs ih =>
    simp only [List.any_cons]
    rw [h x (by simp), ih (fun y hy => h y (by simp [hy]))]

theorem poly_member_eq (ext : List Pt) (holes : List (List Pt)) (p : Pt) :
    (Spec.Shape.poly ext holes).member p =
      (Spec.inRing (Spec.edges ext true) p &&
        holes.all (fun h => !Spec.strictIn (Spec.edges h true) p)) := rfl

/-- polygon membership is constant along a segment that meets no edge of the polygon -/
theorem poly_member_const (ext : List Pt) (holes : List (List Pt)) (a b : Pt)
    (h : ∀ f ∈ (Spec.Shape.poly ext holes).edges, Spec.segsMeet f.1 f.2 a b = false) :
    ∀ x, OnSeg a b x →
      (Spec.Shape.poly ext holes).member x = (Spec.Shape.poly ext holes).member a := by
  intro x hx
  rw [poly_member_eq, poly_member_eq]
  have hsub := avoids_sub h (K.onSeg_left a b) hx
  have h1 : Spec.inRing (Spec.edges ext true) x = Spec.inRing (Spec.edges ext true) a :=
    ((inRing_const_of_avoids ext a x
      (fun e he => hsub e ((poly_edges_mem ext holes e).2 (Or.inl he)))).1).symm
  rw [h1]
  congr 1
  apply all_congr_mem
  intro g hg
  rw [((inRing_const_of_avoids g a x
      (fun e he => hsub e ((poly_edges_mem ext holes e).2 (Or.inr ⟨g, hg, he⟩)))).2)]

theorem segsMeet_comm_false {a b c d : Pt} (h : Spec.segsMeet a b c d = false) :
    Spec.segsMeet c d a b = false := by
  rw [segsMeet_eq_false_iff] at h ⊢
  exact fun hm => h ((K.segsMeet_symm _ _ _ _).1 hm)

/-- `segInside` of a polygon in general position -/
theorem poly_segInside (ext : List Pt) (holes : List (List Pt)) (a b : Pt)
    (h : ∀ f ∈ (Spec.Shape.poly ext holes).edges, Spec.segsMeet f.1 f.2 a b = false) :
    Spec.segInside (Spec.Shape.poly ext holes).member (Spec.Shape.poly ext holes).edges a b =
      (Spec.Shape.poly ext holes).member a :=
  segInside_of_avoids _ _ a b (fun f hf => segsMeet_comm_false (h f hf))
    (poly_member_const ext holes a b h)

end Contains
end Geo
