package main

import (
	"bufio"
	"fmt"
	"math"
	"os"
	"sort"
	"strconv"
	"strings"
)

// Op-stream generators. Every random choice derives from one splitmix64 state seeded by
// VERIF_SEED, so a stream replays exactly. Coordinates are integers meaning sixteenths.

type rng struct{ s uint64 }

func (r *rng) next() uint64 {
	r.s += 0x9e3779b97f4a7c15
	z := r.s
	z = (z ^ (z >> 30)) * 0xbf58476d1ce4e5b9
	z = (z ^ (z >> 27)) * 0x94d049bb133111eb
	return z ^ (z >> 31)
}
func (r *rng) intn(n int) int {
	if n <= 0 {
		return 0
	}
	return int(r.next() % uint64(n))
}
func (r *rng) rangeI(lo, hi int) int { return lo + r.intn(hi-lo+1) }
func (r *rng) coin(p float64) bool    { return float64(r.next()%1000000)/1000000 < p }
func (r *rng) pick(xs []int) int      { return xs[r.intn(len(xs))] }

type ipt struct{ x, y int }

type out struct {
	w   *bufio.Writer
	n   int
	gid int
	id  int
}

func (o *out) op(format string, a ...interface{}) {
	fmt.Fprintf(o.w, format+"\n", a...)
	o.n++
}
func (o *out) newID(prefix string) string { o.id++; return prefix + strconv.Itoa(o.id) }
func (o *out) newGroup() int             { o.gid++; return o.gid }

func ptsStr(pts []ipt) string {
	var sb strings.Builder
	sb.WriteString(strconv.Itoa(len(pts)))
	for _, p := range pts {
		sb.WriteByte(' ')
		sb.WriteString(strconv.Itoa(p.x))
		sb.WriteByte(' ')
		sb.WriteString(strconv.Itoa(p.y))
	}
	return sb.String()
}

// shape description on the generator side
type shape struct {
	kind  string // pt rect line poly
	rings [][]ipt
}

func (s shape) defStr(k, m int) string {
	switch s.kind {
	case "pt":
		return fmt.Sprintf("pt %d %d", s.rings[0][0].x, s.rings[0][0].y)
	case "rect":
		return fmt.Sprintf("rect %d %d %d %d", s.rings[0][0].x, s.rings[0][0].y, s.rings[0][1].x, s.rings[0][1].y)
	case "line":
		return fmt.Sprintf("line %d %d %s", k, m, ptsStr(s.rings[0]))
	default:
		parts := []string{fmt.Sprintf("poly %d %d %d", k, m, len(s.rings))}
		for _, r := range s.rings {
			parts = append(parts, ptsStr(r))
		}
		return strings.Join(parts, " ")
	}
}

func (s shape) mapPts(f func(ipt) ipt) shape {
	t := shape{kind: s.kind}
	for _, r := range s.rings {
		nr := make([]ipt, len(r))
		for i, p := range r {
			nr[i] = f(p)
		}
		t.rings = append(t.rings, nr)
	}
	if t.kind == "rect" {
		a, b := t.rings[0][0], t.rings[0][1]
		if a.x > b.x {
			a.x, b.x = b.x, a.x
		}
		if a.y > b.y {
			a.y, b.y = b.y, a.y
		}
		t.rings[0] = []ipt{a, b}
	}
	return t
}

// ---------------------------------------------------------------------------------------
// shape generators

func closeRing(pts []ipt) []ipt { return append(append([]ipt{}, pts...), pts[0]) }

// star-shaped ring around (cx,cy): distinct directions sorted by angle, lattice step `u`.
func starRing(r *rng, cx, cy, rad, k, u int) []ipt {
	type dir struct {
		p   ipt
		ang float64
	}
	seen := map[ipt]bool{}
	var ds []dir
	for tries := 0; len(ds) < k && tries < 200; tries++ {
		dx := r.rangeI(-rad, rad)
		dy := r.rangeI(-rad, rad)
		if dx == 0 && dy == 0 {
			continue
		}
		p := ipt{cx + dx*u, cy + dy*u}
		if seen[p] {
			continue
		}
		seen[p] = true
		ds = append(ds, dir{p, math.Atan2(float64(dy), float64(dx))})
	}
	sort.Slice(ds, func(i, j int) bool { return ds[i].ang < ds[j].ang })
	pts := make([]ipt, len(ds))
	for i, d := range ds {
		pts[i] = d.p
	}
	return closeRing(pts)
}

func rectRing(x0, y0, x1, y1 int) []ipt {
	return []ipt{{x0, y0}, {x1, y0}, {x1, y1}, {x0, y1}, {x0, y0}}
}

// a polygon (possibly with a hole) with even lattice coordinates (unit u, midpoints exist)
func genPoly(r *rng, u int) shape {
	if r.coin(0.08) {
		return multiHolePoly(r, u)
	}
	var ext []ipt
	switch r.intn(5) {
	case 4: // a dart: exactly one reflex vertex, given first (the seam of the cyclic neighbour selection)
		w, h, d := u*2*r.rangeI(3, 8), u*2*r.rangeI(4, 8), u*2*r.rangeI(1, 2)
		ext = []ipt{{w / 2, d}, {w, 0}, {w / 2, h}, {0, 0}, {w / 2, d}}
	case 0:
		ext = rectRing(0, 0, u*2*r.rangeI(2, 6), u*2*r.rangeI(2, 6))
	case 1: // L / notch shapes (concave, rectilinear)
		a, b := u*2*r.rangeI(3, 6), u*2*r.rangeI(3, 6)
		c, d := u*2*r.rangeI(1, 2), u*2*r.rangeI(1, 2)
		ext = []ipt{{0, 0}, {a, 0}, {a, b}, {a - c, b}, {a - c, d}, {c, d}, {c, b}, {0, b}, {0, 0}}
	default:
		ext = starRing(r, 8*u, 8*u, 4, r.rangeI(3, 8), 2*u)
	}
	s := shape{kind: "poly", rings: [][]ipt{ext}}
	if r.coin(0.4) {
		// a small hole somewhere near the middle of the bbox
		minx, miny, maxx, maxy := bbox(ext)
		cx := (minx + maxx) / 2 / (2 * u) * (2 * u)
		cy := (miny + maxy) / 2 / (2 * u) * (2 * u)
		var h []ipt
		if r.coin(0.5) {
			h = rectRing(cx-u, cy-u, cx+u, cy+u)
		} else {
			h = starRing(r, cx, cy, 1, r.rangeI(3, 5), u)
		}
		s.rings = append(s.rings, h)
	}
	return s
}

func bbox(pts []ipt) (minx, miny, maxx, maxy int) {
	minx, miny, maxx, maxy = pts[0].x, pts[0].y, pts[0].x, pts[0].y
	for _, p := range pts {
		if p.x < minx {
			minx = p.x
		}
		if p.x > maxx {
			maxx = p.x
		}
		if p.y < miny {
			miny = p.y
		}
		if p.y > maxy {
			maxy = p.y
		}
	}
	return
}

// candidate points in contact with shape a: vertices, edge midpoints, plus lattice points
func contactPool(r *rng, a shape, u int) []ipt {
	var pool []ipt
	for _, ring := range a.rings {
		for i, p := range ring {
			pool = append(pool, p)
			if i+1 < len(ring) {
				q := ring[i+1]
				if (p.x+q.x)%2 == 0 && (p.y+q.y)%2 == 0 {
					pool = append(pool, ipt{(p.x + q.x) / 2, (p.y + q.y) / 2})
				}
				if (q.x-p.x)%4 == 0 && (q.y-p.y)%4 == 0 && r.coin(0.5) {
					// quarter points: two interior points of the same edge (nested collinear segments)
					pool = append(pool, ipt{p.x + (q.x-p.x)/4, p.y + (q.y-p.y)/4}, ipt{p.x + 3*(q.x-p.x)/4, p.y + 3*(q.y-p.y)/4})
				}
			}
		}
	}
	minx, miny, maxx, maxy := bbox(a.rings[0])
	for i := 0; i < 6; i++ {
		pool = append(pool, ipt{r.rangeI(minx/u-1, maxx/u+1) * u, r.rangeI(miny/u-1, maxy/u+1) * u})
	}
	return pool
}

// a many-vertex convex-ish ring (>= 16 points: the rectangle shortcut of ringContainsRing)
// around c, leftmost/rightmost/top/bottom vertices on the lattice
func roundRing(r *rng, c ipt, rad int, n int) []ipt {
	var pts []ipt
	seen := map[ipt]bool{}
	for i := 0; i < n; i++ {
		a := 2 * math.Pi * float64(i) / float64(n)
		p := ipt{c.x + int(math.Round(float64(rad)*math.Cos(a))), c.y + int(math.Round(float64(rad)*math.Sin(a)))}
		if !seen[p] {
			seen[p] = true
			pts = append(pts, p)
		}
	}
	return closeRing(pts)
}

func gcdI(a, b int) int {
	if a < 0 {
		a = -a
	}
	if b < 0 {
		b = -b
	}
	for b != 0 {
		a, b = b, a%b
	}
	return a
}

// the same ring with its edges cut at lattice points until it has at least `want` segments
// (collinear extra vertices: the region is unchanged, the index gets real work to do)
func subdivideRing(r *rng, ring []ipt, want int) []ipt {
	cur := append([]ipt{}, ring...)
	for round := 0; len(cur)-1 < want && round < 8; round++ {
		var nxt []ipt
		for i := 0; i+1 < len(cur); i++ {
			p, q := cur[i], cur[i+1]
			nxt = append(nxt, p)
			g := gcdI(q.x-p.x, q.y-p.y)
			if g >= 2 {
				k := g / 2
				if r.coin(0.3) {
					k = r.rangeI(1, g-1)
				}
				nxt = append(nxt, ipt{p.x + (q.x-p.x)/g*k, p.y + (q.y-p.y)/g*k})
			}
		}
		nxt = append(nxt, cur[len(cur)-1])
		if len(nxt) == len(cur) {
			break
		}
		cur = nxt
	}
	return cur
}

// move one vertex of a (closed) ring onto a lattice point in the interior of a non-adjacent edge:
// a ring that touches (or crosses) itself
func pinchRing(r *rng, ring []ipt) []ipt {
	n := len(ring) - 1
	if n < 5 {
		return ring
	}
	for tries := 0; tries < 20; tries++ {
		v := r.rangeI(1, n-1)
		e := r.intn(n)
		if e == v || e == v-1 || (e+1)%n == v || e == (v+1)%n {
			continue
		}
		p, q := ring[e], ring[e+1]
		g := gcdI(q.x-p.x, q.y-p.y)
		if g < 2 {
			continue
		}
		k := r.rangeI(1, g-1)
		out := append([]ipt{}, ring...)
		out[v] = ipt{p.x + (q.x-p.x)/g*k, p.y + (q.y-p.y)/g*k}
		return out
	}
	return ring
}

// a square with several square holes
func multiHolePoly(r *rng, u int) shape {
	n := r.rangeI(2, 3)
	size := 8 * u * (n + 1)
	s := shape{kind: "poly", rings: [][]ipt{rectRing(0, 0, size, 8*u*2)}}
	for i := 0; i < n; i++ {
		x := 8*u*i + 2*u + r.rangeI(0, 2)*u
		s.rings = append(s.rings, rectRing(x, 4*u, x+2*u+r.rangeI(0, 2)*u, 4*u+4*u))
	}
	if r.coin(0.5) { // the hole order matters to some defects
		s.rings[1], s.rings[len(s.rings)-1] = s.rings[len(s.rings)-1], s.rings[1]
	}
	return s
}

// a probe shape biased to touch `a`
func genProbe(r *rng, a shape, u int) shape {
	pool := contactPool(r, a, u)
	pp := func() ipt { return pool[r.intn(len(pool))] }
	if r.coin(0.12) {
		// many-vertex probes: inside a hole touching it, inside the bounding box, around a pool point
		c := pp()
		rad := r.pick([]int{u, 2 * u, 3 * u})
		if len(a.rings) > 1 && r.coin(0.6) {
			h := a.rings[1+r.intn(len(a.rings)-1)]
			minx, miny, maxx, maxy := bbox(h)
			rad = (maxx - minx) / 2
			if (maxy-miny)/2 < rad {
				rad = (maxy - miny) / 2
			}
			if r.coin(0.5) && rad > 1 {
				rad = rad / 2
			}
			c = ipt{minx + rad, (miny + maxy) / 2} // leftmost vertex on the hole's left edge
		}
		if rad < 1 {
			rad = u
		}
		ring := roundRing(r, c, rad, r.rangeI(16, 24))
		if r.coin(0.5) {
			return shape{kind: "poly", rings: [][]ipt{ring}}
		}
		return shape{kind: "line", rings: [][]ipt{ring[:len(ring)-1]}}
	}
	if len(a.rings) > 2 && r.coin(0.4) {
		// a polygon with a hole that covers some of a's holes but not others
		minx, miny, maxx, maxy := bbox(a.rings[0])
		b := shape{kind: "poly", rings: [][]ipt{rectRing(minx+u, miny+u, maxx-u, maxy-u)}}
		h := a.rings[1+r.intn(len(a.rings)-1)]
		hx0, hy0, hx1, hy1 := bbox(h)
		b.rings = append(b.rings, rectRing(hx0-u, hy0-u, hx1+u, hy1+u))
		return b
	}
	switch r.intn(10) {
	case 0:
		return shape{kind: "pt", rings: [][]ipt{{pp()}}}
	case 1, 2:
		p, q := pp(), pp()
		s := shape{kind: "rect", rings: [][]ipt{{p, q}}}
		return s.mapPts(func(p ipt) ipt { return p })
	case 3, 4, 5, 6:
		n := r.rangeI(2, 5)
		var pts []ipt
		for len(pts) < n {
			p := pp()
			if len(pts) > 0 && pts[len(pts)-1] == p && !r.coin(0.15) {
				continue
			}
			pts = append(pts, p)
		}
		return shape{kind: "line", rings: [][]ipt{pts}}
	default:
		if r.coin(0.5) {
			// polygon from pool points sorted around their centroid (often valid)
			n := r.rangeI(3, 5)
			seen := map[ipt]bool{}
			var pts []ipt
			for tries := 0; len(pts) < n && tries < 50; tries++ {
				p := pp()
				if !seen[p] {
					seen[p] = true
					pts = append(pts, p)
				}
			}
			if len(pts) >= 3 {
				cx, cy := 0.0, 0.0
				for _, p := range pts {
					cx += float64(p.x)
					cy += float64(p.y)
				}
				cx /= float64(len(pts))
				cy /= float64(len(pts))
				sort.Slice(pts, func(i, j int) bool {
					return math.Atan2(float64(pts[i].y)-cy, float64(pts[i].x)-cx) < math.Atan2(float64(pts[j].y)-cy, float64(pts[j].x)-cx)
				})
				return shape{kind: "poly", rings: [][]ipt{closeRing(pts)}}
			}
		}
		b := genPoly(r, u)
		// move it somewhere over a
		p := pp()
		q := b.rings[0][r.intn(len(b.rings[0]))]
		dx, dy := p.x-q.x, p.y-q.y
		return b.mapPts(func(t ipt) ipt { return ipt{t.x + dx, t.y + dy} })
	}
}

// ---------------------------------------------------------------------------------------
// suites

var idxConfigs = [][2]int{{0, 0}, {1, 1}, {2, 1}, {1, 64}, {2, 64}}

func genC19(o *out, r *rng, thorough bool) {
	L := 5
	if thorough {
		L = 7
	}
	// the kernels regenerated from the source, on arbitrary doubles
	if thorough {
		genKern(o, r, 400000)
		genXkern(o, r, 400000)
	} else {
		genKern(o, r, 20000)
		genXkern(o, r, 20000)
	}
	// exhaustive (segment, point) triples on the LxL lattice
	for a := 0; a < L*L; a++ {
		for b := 0; b < L*L; b++ {
			for p := 0; p < L*L; p++ {
				o.op("ray %d %d %d %d %d %d", a%L*16, a/L*16, b%L*16, b/L*16, p%L*16, p/L*16)
			}
		}
	}
	M := 4
	if thorough {
		M = 6
	}
	for a := 0; a < M*M; a++ {
		for b := 0; b < M*M; b++ {
			for c := 0; c < M*M; c++ {
				for d := 0; d < M*M; d++ {
					o.op("segint %d %d %d %d %d %d %d %d", a%M*16, a/M*16, b%M*16, b/M*16, c%M*16, c/M*16, d%M*16, d/M*16)
				}
			}
		}
	}
	// the same lattices shifted / scaled to the top of E and to sixteenths
	nrand := 30000
	if thorough {
		nrand = 1500000
	}
	scales := []int{1, 3, 16, 1 << 10, 1 << 20, (1 << 22) - 1}
	for i := 0; i < nrand; i++ {
		sc := r.pick(scales)
		lim := (1<<24 - 8*sc) // keep |coord| ≤ 2^20 (in sixteenths: 2^24)
		if lim < 0 {
			lim = 0
		}
		ox, oy := 0, 0
		if r.coin(0.7) {
			ox = r.rangeI(-lim, lim)
			oy = r.rangeI(-lim, lim)
		}
		c := func() (int, int) { return ox + sc*r.rangeI(0, 7), oy + sc*r.rangeI(0, 7) }
		ax, ay := c()
		bx, by := c()
		if r.coin(0.5) {
			// a point related to the segment: on it, level with an endpoint, or anywhere
			px, py := c()
			switch r.intn(5) {
			case 0:
				px, py = ax, ay
			case 1:
				py = ay
			case 2:
				py = by
			case 3:
				if (ax+bx)%2 == 0 && (ay+by)%2 == 0 {
					px, py = (ax+bx)/2, (ay+by)/2
				}
			}
			o.op("ray %d %d %d %d %d %d", ax, ay, bx, by, px, py)
		} else {
			cx, cy := c()
			dx, dy := c()
			switch r.intn(6) {
			case 0: // collinear with ab
				k1, k2 := r.rangeI(-3, 4), r.rangeI(-3, 4)
				cx, cy = ax+k1*(bx-ax), ay+k1*(by-ay)
				dx, dy = ax+k2*(bx-ax), ay+k2*(by-ay)
			case 1: // shares an endpoint
				cx, cy = bx, by
			case 2: // near-parallel with huge cross products: cmpxs = rxs ± small
				dx, dy = cx+(bx-ax), cy+(by-ay)+r.rangeI(-1, 1)
			case 3: // touches in a T
				if (ax+bx)%2 == 0 && (ay+by)%2 == 0 {
					cx, cy = (ax+bx)/2, (ay+by)/2
				}
			}
			inE := func(v int) bool { return v <= 1<<24 && v >= -(1 << 24) }
			if inE(cx) && inE(cy) && inE(dx) && inE(dy) {
				o.op("segint %d %d %d %d %d %d %d %d", ax, ay, bx, by, cx, cy, dx, dy)
			}
		}
	}
}

func seqDef(o *out, seq []ipt, closed bool, k, m int) string {
	id := o.newID("S")
	if closed {
		o.op("def %s poly %d %d 1 %s", id, k, m, ptsStr(seq))
	} else {
		o.op("def %s line %d %d %s", id, k, m, ptsStr(seq))
	}
	return id
}

func randSeq(r *rng, n int, span int, u int) []ipt {
	pts := make([]ipt, 0, n)
	for len(pts) < n {
		p := ipt{r.rangeI(-span, span) * u, r.rangeI(-span, span) * u}
		switch r.intn(10) {
		case 0:
			if len(pts) > 0 { // duplicate vertex
				p = pts[len(pts)-1]
			}
		case 1:
			if len(pts) > 1 { // collinear continuation
				a, b := pts[len(pts)-2], pts[len(pts)-1]
				p = ipt{2*b.x - a.x, 2*b.y - a.y}
			}
		}
		pts = append(pts, p)
	}
	return pts
}

// C18 + C11(geometry): attributes of all short sequences on the 3x3 lattice, random long ones
func genC18(o *out, r *rng, thorough bool) {
	// processPoints regenerated from the source, on arbitrary doubles
	if thorough {
		genKproc(o, r, 200000)
	} else {
		genKproc(o, r, 15000)
	}
	maxLen := 5
	if thorough {
		maxLen = 6
	}
	var rec func(seq []ipt)
	rec = func(seq []ipt) {
		if len(seq) >= 1 {
			id := seqDef(o, seq, true, 0, 0)
			o.op("attrs %s 0", id)
			if len(seq) <= 3 || thorough {
				id2 := seqDef(o, seq, false, 0, 0)
				o.op("attrs %s 0", id2)
			}
		}
		if len(seq) == maxLen {
			return
		}
		for v := 0; v < 9; v++ {
			rec(append(seq, ipt{v % 3 * 16, v / 3 * 16}))
		}
		if len(seq) == 0 {
			o.op("reset")
		}
	}
	rec(nil)
	o.op("reset")
	n := 2000
	if thorough {
		n = 200000
	}
	for i := 0; i < n; i++ {
		ln := r.rangeI(3, 12)
		if r.coin(0.1) {
			ln = r.rangeI(13, 300)
		}
		seq := randSeq(r, ln, r.pick([]int{2, 5, 1000, 1 << 19}), r.pick([]int{1, 16}))
		if r.coin(0.5) {
			seq = closeRing(seq)
		}
		// all rotations of the start vertex for short ones
		id := seqDef(o, seq, true, 0, 0)
		o.op("attrs %s 0", id)
		id = seqDef(o, seq, false, 0, 0)
		o.op("attrs %s 0", id)
		if i%500 == 499 {
			o.op("reset")
		}
	}
}

func halfLattice(n int) []ipt {
	var ps []ipt
	for y := -1; y <= 2*n-1; y++ {
		for x := -1; x <= 2*n-1; x++ {
			ps = append(ps, ipt{x * 8, y * 8})
		}
	}
	return ps
}

// a square with two or three holes that overlap, nest or touch one another (the hole loop of
// Poly.ContainsPoint must not stop at a hole whose boundary carries the point)
func overlapHolesPoly(r *rng, u int) shape {
	s := shape{kind: "poly", rings: [][]ipt{rectRing(0, 0, 20*u, 20*u)}}
	x0, y0 := r.rangeI(1, 4)*2*u, r.rangeI(1, 4)*2*u
	w, h := r.rangeI(2, 4)*2*u, r.rangeI(2, 4)*2*u
	a := rectRing(x0, y0, x0+w, y0+h)
	var b []ipt
	switch r.intn(4) {
	case 0: // overlapping
		b = rectRing(x0+w/2, y0+h/2, x0+w/2+w, y0+h/2+h)
	case 1: // nested
		b = rectRing(x0-2*u, y0-2*u, x0+w+2*u, y0+h+2*u)
	case 2: // sharing an edge
		b = rectRing(x0+w, y0, x0+w+2*u, y0+h)
	default: // crossing
		b = rectRing(x0+2*u, y0-2*u, x0+w-2*u+2*u, y0+h+2*u)
	}
	s.rings = append(s.rings, a, b)
	if r.coin(0.3) {
		s.rings = append(s.rings, starRing(r, x0+w, y0+h, 2, r.rangeI(3, 5), 2*u))
	}
	// the order of the holes matters to a loop that stops early
	for k := len(s.rings) - 1; k > 1; k-- {
		j := 1 + r.intn(k)
		s.rings[k], s.rings[j] = s.rings[j], s.rings[k]
	}
	return s
}

// C01: membership under every index configuration
func genC01(o *out, r *rng, thorough bool) {
	// exhaustive rings of ≤ L vertices on the 3x3 lattice, all half-step query points
	maxLen := 4
	if thorough {
		maxLen = 5
	}
	qs := halfLattice(3)
	var rec func(seq []ipt)
	rec = func(seq []ipt) {
		if len(seq) >= 3 {
			cfg := idxConfigs[o.n%len(idxConfigs)]
			id := seqDef(o, seq, true, cfg[0], cfg[1])
			for _, q := range qs {
				o.op("ringcp %s 0 %d %d %d", id, q.x, q.y, o.n%2)
			}
			if o.n%7 == 0 {
				for _, q := range qs {
					o.op("member %s %d %d", id, q.x, q.y)
				}
			}
		}
		if len(seq) == maxLen {
			return
		}
		for v := 0; v < 9; v++ {
			rec(append(seq, ipt{v % 3 * 16, v / 3 * 16}))
		}
		if len(seq) == 1 {
			o.op("reset")
		}
	}
	rec(nil)
	o.op("reset")
	// random shapes under all configurations; answers must agree across configurations
	n := 300
	if thorough {
		n = 6000
	}
	for i := 0; i < n; i++ {
		u := r.pick([]int{1, 16, 1 << 12})
		var s shape
		switch r.intn(6) {
		case 0:
			s = shape{kind: "line", rings: [][]ipt{randSeq(r, r.rangeI(2, 80), 6, u)}}
		case 1:
			p := randSeq(r, 2, 5, u)
			s = shape{kind: "rect", rings: [][]ipt{p}}.mapPts(func(p ipt) ipt { return p })
		case 2:
			s = shape{kind: "poly", rings: [][]ipt{randSeq(r, r.rangeI(3, 100), 6, u)}} // arbitrary, maybe unclosed
		case 3:
			s = genPoly(r, u)
		default:
			// big star ring so that indexes are really built with the default threshold
			ext := starRing(r, 0, 0, 40, r.rangeI(64, 120), u)
			s = shape{kind: "poly", rings: [][]ipt{ext}}
			if r.coin(0.5) {
				s.rings = append(s.rings, starRing(r, 0, 0, 3, r.rangeI(3, 8), u))
			}
		}
		if i%10 == 3 {
			s = overlapHolesPoly(r, u)
		}
		if i%10 == 7 {
			// item-width boundaries of the compressed indexes: 255..258 segments, the last segment decides
			n := r.pick([]int{255, 256, 257, 258})
			var ext []ipt
			for k := n - 3; k >= 0; k-- {
				ext = append(ext, ipt{k * u, 0})
			}
			ext = append(ext, ipt{0, 100 * u}, ipt{(n - 3) * u, 100 * u}, ipt{(n - 3) * u, 0})
			if r.coin(0.5) {
				// zigzag ring: every segment (the closing one too) straddles a centre line of the rectangle,
				// so all n of them stay in the quadtree's ROOT node (item-COUNT width boundary; seed W13-1)
				ext = nil
				for k := 0; k < n; k++ {
					y := 100 * u
					if k%2 == 1 {
						y = 0
					}
					ext = append(ext, ipt{k * u, y})
				}
			}
			s = shape{kind: "poly", rings: [][]ipt{ext}}
		}
		npts := len(s.rings[0])
		cfgs := [][2]int{{0, 0}, {1, 1}, {2, 1}, {1, npts}, {2, npts}, {1, npts + 1}, {2, 64}, {1, 64}}
		var ids []string
		for _, c := range cfgs {
			id := o.newID("G")
			o.op("def %s %s", id, s.defStr(c[0], c[1]))
			ids = append(ids, id)
			if s.kind == "pt" || s.kind == "rect" {
				break
			}
		}
		pool := contactPool(r, s, u)
		// points level with vertices
		for j := 0; j < 6; j++ {
			a, b := pool[r.intn(len(pool))], pool[r.intn(len(pool))]
			pool = append(pool, ipt{a.x, b.y})
		}
		if len(pool) > 60 { // large rings: a sample of the contact points
			for k := range pool {
				j := r.intn(len(pool))
				pool[k], pool[j] = pool[j], pool[k]
			}
			pool = pool[:60]
		}
		if i%10 == 7 {
			// points that the last (right-hand) segment decides
			pool = append(pool, ipt{10 * u, 50 * u}, ipt{(len(s.rings[0]) - 4) * u, 50 * u}, ipt{0, 50 * u})
		}
		for _, q := range pool {
			g := o.newGroup()
			for _, id := range ids {
				o.op("same %d member %s %d %d", g, id, q.x, q.y)
			}
			if s.kind == "poly" && r.coin(0.3) {
				g := o.newGroup()
				for _, id := range ids {
					o.op("same %d ringcp %s 0 %d %d 1", g, id, q.x, q.y)
				}
			}
		}
		if i%50 == 49 {
			o.op("reset")
		}
	}
	// object level: the same polygon document (rectangles, right trapezoids, general quadrilaterals)
	// parsed under the representation options, queried with Point and SimplePoint objects: the answers
	// must not depend on the options (a Rect may stand in only for a perfect rectangle)
	o.op("reset")
	nq := 60
	if thorough {
		nq = 1500
	}
	for i := 0; i < nq; i++ {
		w, h := r.rangeI(2, 8), r.rangeI(2, 8)
		x3 := 0
		switch r.intn(3) {
		case 1:
			x3 = r.rangeI(1, w-1) // slanted left edge, top edge still horizontal
		case 2:
			x3 = -r.rangeI(1, 3)
		}
		text := fmt.Sprintf(`{"type":"Polygon","coordinates":[[[0,0],[%d,0],[%d,%d],[%d,%d],[0,0]]]}`, w, w, h, x3, h)
		if r.coin(0.3) {
			text = `{"type":"Feature","geometry":` + text + `,"properties":{}}`
		}
		var ids []string
		for _, opts := range []string{defaultOptsS, optsStr(64, 64, 2, false, false, false, true), optsStr(64, 1, 1, false, true, false, true), optsStr(0, 0, 0, false, true, false, false)} {
			id := o.newID("J")
			emitParse(o, "oparsewf", id, opts, text)
			ids = append(ids, id)
		}
		for k := 0; k < 6; k++ {
			px, py := r.rangeI(-4, 2*w+2)*8, r.rangeI(-2, 2*h+2)*8 // half-integer grid, in sixteenths
			pid := o.newID("O")
			if k%2 == 0 {
				o.op("onew %s point %d %d", pid, px, py)
			} else {
				o.op("onew %s spoint %d %d", pid, px, py)
			}
			g := o.newGroup()
			for _, id := range ids {
				o.op("same %d opred %s %s", g, id, pid)
			}
		}
		if i%20 == 19 {
			o.op("oreset")
		}
	}
	o.op("oreset")
}

func layoutPts(r *rng, n int, layout int) []ipt {
	pts := make([]ipt, n)
	switch layout {
	case 0: // random
		for i := range pts {
			pts[i] = ipt{r.rangeI(-1<<20, 1<<20), r.rangeI(-1<<20, 1<<20)}
		}
	case 1: // collinear
		for i := range pts {
			t := r.rangeI(-1000, 1000)
			pts[i] = ipt{t * 16, t * 48}
		}
	case 2: // all equal
		for i := range pts {
			pts[i] = ipt{80, 80}
		}
	case 3: // zero extent in y
		for i := range pts {
			pts[i] = ipt{r.rangeI(-5000, 5000), 160}
		}
	case 4: // two far clusters
		for i := range pts {
			c := (1 << 23) * (2*(i%2) - 1)
			pts[i] = ipt{c + r.rangeI(-64, 64), c + r.rangeI(-64, 64)}
		}
	case 5: // a smooth loop (typical polygon)
		for i := range pts {
			a := 2 * math.Pi * float64(i) / float64(n)
			rad := 1e5 * (1 + 0.3*math.Sin(5*a))
			pts[i] = ipt{int(rad * math.Cos(a)), int(rad * math.Sin(a))}
		}
	default: // small lattice with many duplicates
		for i := range pts {
			pts[i] = ipt{r.rangeI(0, 3) * 16, r.rangeI(0, 3) * 16}
		}
	}
	return pts
}

// C04: index bytes and searches
func genC04(o *out, r *rng, thorough bool) {
	sizes := []int{0, 1, 2, 3, 4, 31, 32, 33, 34, 63, 64, 65, 130, 255, 256, 257, 600, 1000}
	if thorough {
		sizes = append(sizes, 2000, 5000, 20000, 65535, 65536, 65537, 70000)
	}
	for _, n := range sizes {
		layouts := []int{0, 1, 2, 3, 4, 5, 6}
		if n > 5000 {
			layouts = []int{0, 5} // the model driver and the judge spend minutes on each 70 000-segment answer
		}
		for _, lay := range layouts {
			pts := layoutPts(r, n, lay)
			for _, closed := range []bool{true, false} {
				var ids []string
				for _, c := range [][2]int{{0, 0}, {1, 1}, {2, 1}} {
					id := o.newID("X")
					if closed {
						o.op("def %s poly %d %d 1 %s", id, c[0], c[1], ptsStr(pts))
					} else {
						o.op("def %s line %d %d %s", id, c[0], c[1], ptsStr(pts))
					}
					ids = append(ids, id)
					o.op("index %s 0", id)
				}
				nq := 8
				if n > 5000 {
					nq = 3
				}
				for qi := 0; qi < nq; qi++ {
					var q [4]string
					pick := func() ipt {
						if n == 0 {
							return ipt{r.rangeI(-100, 100), r.rangeI(-100, 100)}
						}
						p := pts[r.intn(n)]
						if r.coin(0.5) {
							p.x += r.rangeI(-64, 64)
							p.y += r.rangeI(-64, 64)
						}
						return p
					}
					a, b := pick(), pick()
					if a.x > b.x {
						a.x, b.x = b.x, a.x
					}
					if a.y > b.y {
						a.y, b.y = b.y, a.y
					}
					q = [4]string{strconv.Itoa(a.x), strconv.Itoa(a.y), strconv.Itoa(b.x), strconv.Itoa(b.y)}
					switch qi {
					case 0:
						q[0], q[2] = "ninf", "pinf"
						q[3] = q[1] // the ray strip
					case 1:
						q = [4]string{"ninf", "ninf", "pinf", "pinf"}
					case 2: // degenerate point query at a vertex
						q[2], q[3] = q[0], q[1]
					case 3: // empty intersection: far away
						q = [4]string{strconv.Itoa(1 << 25), strconv.Itoa(1 << 25), strconv.Itoa(1<<25 + 16), strconv.Itoa(1<<25 + 16)}
					}
					stops := []int{0, 1, 2, 5}
					if n > 5000 {
						stops = []int{0, 2}
					}
					for _, st := range stops {
						for _, id := range ids {
							o.op("search %s 0 %s %s %s %s %d", id, q[0], q[1], q[2], q[3], st)
						}
					}
				}
				o.op("reset")
			}
		}
	}
	// "consequently every geometric predicate returns the same answer under every index kind and
	// build threshold": the same pair of shapes under several index configurations
	np := 250
	if thorough {
		np = 1500 // the model driver builds every index in exact arithmetic: ~0.25 s per pair
	}
	for i := 0; i < np; i++ {
		u := r.pick([]int{16, 32})
		a := genPoly(r, u)
		if r.coin(0.2) {
			a = genProbe(r, a, u)
		}
		if a.kind == "poly" && r.coin(0.5) {
			// enough segments for the R-tree to split (>= 17) or the quadtree to descend, so that
			// the visit orders of the index kinds really differ; sometimes a self-touching ring
			want := r.pick([]int{17, 20, 33, 40, 70})
			if r.coin(0.4) {
				a.rings[0] = pinchRing(r, a.rings[0])
			}
			for k := range a.rings {
				a.rings[k] = subdivideRing(r, a.rings[k], want)
			}
			if r.coin(0.3) {
				a.rings[0] = pinchRing(r, a.rings[0])
			}
		}
		b := genProbe(r, a, u)
		cfgs := [][2]int{{0, 0}, {1, 1}, {2, 1}, {1, 3}, {2, 4}}
		g := o.newGroup()
		g2 := o.newGroup()
		for k, ca := range cfgs {
			cb := cfgs[(k*2+1)%len(cfgs)]
			ida, idb := o.newID("P"), o.newID("P")
			o.op("def %s %s", ida, a.defStr(ca[0], ca[1]))
			o.op("def %s %s", idb, b.defStr(cb[0], cb[1]))
			o.op("same %d pred %s %s", g, ida, idb)
			o.op("same %d pred %s %s", g2, idb, ida)
		}
		if i%30 == 29 {
			o.op("reset")
		}
	}
	o.op("reset")
	// beyond E: arbitrary doubles, checked directly on the implementation (search = filter)
	nx := 300
	if thorough {
		nx = 5000
	}
	for i := 0; i < nx; i++ {
		o.op("xsearch %d %d %d %d", r.next()%(1<<62), r.pick([]int{0, 1, 5, 33, 41, 50, 64, 200, 1500}), r.intn(6), r.intn(3))
	}
	// codec round trip, exhaustive over widths at the boundaries
	o.op("xnumcodec")
	// Move: re-indexing quirk
	for i := 0; i < 60; i++ {
		n := r.pick([]int{3, 10, 63, 64, 65, 200})
		pts := layoutPts(r, n, r.pick([]int{0, 5, 6}))
		for _, c := range [][2]int{{0, 0}, {1, 1}, {2, 1}, {1, 64}, {2, 64}, {1, 1000}} {
			id := o.newID("M")
			o.op("def %s poly %d %d 1 %s", id, c[0], c[1], ptsStr(pts))
			o.op("move %s %d %d %s", id, r.rangeI(-1000, 1000), r.rangeI(-1000, 1000), id+"m")
			o.op("index %s 0", id+"m")
			o.op("attrs %s 0", id+"m")
			o.op("search %s 0 ninf 0 pinf 0 0", id+"m")
		}
		o.op("reset")
	}
}

// small-lattice shapes for exhaustive pair enumeration
func smallShapes(L int, maxRing int) []shape {
	var ss []shape
	var pts []ipt
	for i := 0; i < L*L; i++ {
		pts = append(pts, ipt{i % L * 32, i / L * 32})
	}
	for _, p := range pts {
		ss = append(ss, shape{kind: "pt", rings: [][]ipt{{p}}})
	}
	for _, p := range pts {
		for _, q := range pts {
			if p.x <= q.x && p.y <= q.y {
				ss = append(ss, shape{kind: "rect", rings: [][]ipt{{p, q}}})
			}
			if p != q {
				ss = append(ss, shape{kind: "line", rings: [][]ipt{{p, q}}})
			}
		}
	}
	// 3-point lines and triangles / quads (validity is judged by the spec side)
	for _, p := range pts {
		for _, q := range pts {
			for _, s := range pts {
				if p != q && q != s {
					ss = append(ss, shape{kind: "line", rings: [][]ipt{{p, q, s}}})
					if p != s && maxRing >= 3 {
						ss = append(ss, shape{kind: "poly", rings: [][]ipt{{p, q, s, p}}})
					}
				}
			}
		}
	}
	return ss
}

// receiver lines with repeated / collinear vertices and arguments that walk along them
// through their vertices (the Line.ContainsLine matcher and its termination)
func genLineWalks(o *out, r *rng, n int) {
	for i := 0; i < n; i++ {
		u := 16
		k := r.rangeI(2, 5)
		var a []ipt
		p := ipt{r.rangeI(-3, 3) * 4 * u, r.rangeI(-3, 3) * 4 * u}
		a = append(a, p)
		dir := ipt{4 * u, 0}
		for j := 0; j < k; j++ {
			switch r.intn(5) {
			case 0:
				dir = ipt{0, 4 * u}
			case 1:
				dir = ipt{4 * u, 4 * u}
			case 2:
				dir = ipt{-dir.x, -dir.y} // doubling back over itself
			}
			p = ipt{p.x + dir.x, p.y + dir.y}
			a = append(a, p)
			if r.coin(0.3) {
				a = append(a, p) // repeated vertex: a zero-length segment
			}
		}
		// argument: points of a (vertices, midpoints, quarter points) in walk order, sometimes leaving it
		var cand []ipt
		for j := 0; j+1 < len(a); j++ {
			// vertices, quarter points and midpoints in walk order: consecutive candidates include pairs
			// strictly inside one segment (nested collinear segments)
			cand = append(cand, a[j], ipt{a[j].x + (a[j+1].x-a[j].x)/4, a[j].y + (a[j+1].y-a[j].y)/4},
				ipt{(a[j].x + a[j+1].x) / 2, (a[j].y + a[j+1].y) / 2}, ipt{a[j].x + 3*(a[j+1].x-a[j].x)/4, a[j].y + 3*(a[j+1].y-a[j].y)/4})
		}
		cand = append(cand, a[len(a)-1])
		start := r.intn(len(cand))
		step := 1
		if r.coin(0.3) {
			step = -1
		}
		var b []ipt
		for j := start; j >= 0 && j < len(cand) && len(b) < 5; j += step * r.rangeI(1, 2) {
			if len(b) > 0 && b[len(b)-1] == cand[j] && !r.coin(0.2) {
				continue
			}
			b = append(b, cand[j])
		}
		if r.coin(0.3) && len(b) > 0 {
			q := b[len(b)-1]
			b = append(b, ipt{q.x + u, q.y + 3*u})
		}
		if len(b) < 2 {
			continue
		}
		ida, idb := o.newID("W"), o.newID("W")
		o.op("def %s line 0 0 %s", ida, ptsStr(a))
		o.op("def %s line 0 0 %s", idb, ptsStr(b))
		o.op("pred %s %s", ida, idb)
		o.op("pred %s %s", idb, ida)
		if i%50 == 49 {
			o.op("reset")
		}
	}
	o.op("reset")
}

func genPairs(o *out, r *rng, thorough bool, withRingseg bool) {
	nw := 400
	if thorough {
		nw = 20000
	}
	genLineWalks(o, r, nw)
	// (1) exhaustive pairs of small shapes on the 3x3 lattice (sampled in the quick tier)
	ss := smallShapes(3, 3)
	stride := 23
	if thorough {
		stride = 1
	}
	var ids []string
	for _, s := range ss {
		id := o.newID("E")
		o.op("def %s %s", id, s.defStr(0, 0))
		ids = append(ids, id)
	}
	cnt := 0
	for i := range ids {
		for j := range ids {
			cnt++
			if (cnt+int(r.s%uint64(stride)))%stride == 0 {
				o.op("pred %s %s", ids[i], ids[j])
			}
		}
	}
	o.op("reset")
	// (2) generated polygons with probes in contact configurations, several index configs
	n := 1500
	if thorough {
		n = 40000
	}
	for i := 0; i < n; i++ {
		u := r.pick([]int{16, 16, 32, 1 << 10})
		a := genPoly(r, u)
		if r.coin(0.15) {
			a = genProbe(r, a, u)
		}
		cfg := idxConfigs[r.intn(len(idxConfigs))]
		ida := o.newID("A")
		o.op("def %s %s", ida, a.defStr(cfg[0], cfg[1]))
		for k := 0; k < 6; k++ {
			b := genProbe(r, a, u)
			cfgb := idxConfigs[r.intn(len(idxConfigs))]
			idb := o.newID("B")
			o.op("def %s %s", idb, b.defStr(cfgb[0], cfgb[1]))
			o.op("pred %s %s", ida, idb)
			o.op("pred %s %s", idb, ida)
			if withRingseg && a.kind == "poly" && b.kind == "line" {
				for s := 0; s+1 < len(b.rings[0]); s++ {
					p, q := b.rings[0][s], b.rings[0][s+1]
					o.op("ringseg %s 0 %d %d %d %d %d", ida, p.x, p.y, q.x, q.y, k%2)
				}
			}
		}
		if i%40 == 39 {
			o.op("reset")
		}
	}
}

// C12: metamorphic transformations; all ops of one group must give the same answer
func genC12(o *out, r *rng, thorough bool) {
	n := 500
	if thorough {
		n = 12000
	}
	for i := 0; i < n; i++ {
		u := r.pick([]int{16, 32})
		a := genPoly(r, u)
		if r.coin(0.2) {
			a = genProbe(r, a, u)
		}
		b := genProbe(r, a, u)
		emit := func(g int, a, b shape) {
			ida, idb := o.newID("T"), o.newID("T")
			o.op("def %s %s", ida, a.defStr(0, 0))
			o.op("def %s %s", idb, b.defStr(0, 0))
			o.op("same %d pred %s %s", g, ida, idb)
			o.op("same %d pred %s %s", g+1, idb, ida)
		}
		g := o.newGroup()
		o.newGroup()
		emit(g, a, b)
		// translation (also via Move), scaling, reflections, transposition
		dx, dy := r.rangeI(-1<<20, 1<<20), r.rangeI(-1<<20, 1<<20)
		tr := func(p ipt) ipt { return ipt{p.x + dx, p.y + dy} }
		emit(g, a.mapPts(tr), b.mapPts(tr))
		k := r.pick([]int{2, 4, 1024})
		sc := func(p ipt) ipt { return ipt{p.x * k, p.y * k} }
		emit(g, a.mapPts(sc), b.mapPts(sc))
		emit(g, a.mapPts(func(p ipt) ipt { return ipt{-p.x, p.y} }), b.mapPts(func(p ipt) ipt { return ipt{-p.x, p.y} }))
		emit(g, a.mapPts(func(p ipt) ipt { return ipt{p.x, -p.y} }), b.mapPts(func(p ipt) ipt { return ipt{p.x, -p.y} }))
		emit(g, a.mapPts(func(p ipt) ipt { return ipt{p.y, p.x} }), b.mapPts(func(p ipt) ipt { return ipt{p.y, p.x} }))
		// Move
		{
			ida, idb := o.newID("T"), o.newID("T")
			o.op("def %s %s", ida, a.defStr(2, 1))
			o.op("def %s %s", idb, b.defStr(1, 1))
			o.op("move %s %d %d %s", ida, dx, dy, ida+"m")
			o.op("move %s %d %d %s", idb, dx, dy, idb+"m")
			o.op("same %d pred %s %s", g, ida+"m", idb+"m")
			o.op("same %d pred %s %s", g+1, idb+"m", ida+"m")
		}
		// Move of a shape with enough points for the default index (>= 64), created with each index kind
		if a.kind == "poly" && (r.coin(0.04) || (thorough && r.coin(0.2))) {
			big := shape{kind: "poly"}
			for _, ring := range a.rings {
				big.rings = append(big.rings, subdivideRing(r, ring, 70))
			}
			g3 := o.newGroup()
			g4 := o.newGroup()
			idb := o.newID("T")
			o.op("def %s %s", idb, b.defStr(0, 0))
			o.op("move %s %d %d %s", idb, dx, dy, idb+"m")
			id0 := o.newID("T")
			o.op("def %s %s", id0, big.defStr(0, 0))
			o.op("same %d pred %s %s", g3, id0, idb)
			o.op("same %d pred %s %s", g4, idb, id0)
			for _, cfg := range [][2]int{{0, 64}, {1, 64}, {2, 64}, {1, 1}} {
				ida := o.newID("T")
				o.op("def %s %s", ida, big.defStr(cfg[0], cfg[1]))
				o.op("move %s %d %d %s", ida, dx, dy, ida+"m")
				o.op("same %d pred %s %s", g3, ida+"m", idb+"m")
				o.op("same %d pred %s %s", g4, idb+"m", ida+"m")
			}
		}
		// re-encodings of one operand: rotate start vertex, reverse, drop closing vertex
		reenc := func(s shape) []shape {
			var outp []shape
			if s.kind == "poly" {
				ring := s.rings[0]
				open_ := ring[:len(ring)-1]
				for st := 1; st < len(open_); st++ {
					rot := append(append([]ipt{}, open_[st:]...), open_[:st]...)
					t := shape{kind: "poly", rings: append([][]ipt{closeRing(rot)}, s.rings[1:]...)}
					outp = append(outp, t)
				}
				rev := make([]ipt, len(ring))
				for i2 := range ring {
					rev[i2] = ring[len(ring)-1-i2]
				}
				outp = append(outp, shape{kind: "poly", rings: append([][]ipt{rev}, s.rings[1:]...)})
				outp = append(outp, shape{kind: "poly", rings: append([][]ipt{append([]ipt{}, open_...)}, s.rings[1:]...)})
			}
			if s.kind == "line" {
				ring := s.rings[0]
				rev := make([]ipt, len(ring))
				for i2 := range ring {
					rev[i2] = ring[len(ring)-1-i2]
				}
				outp = append(outp, shape{kind: "line", rings: [][]ipt{rev}})
			}
			return outp
		}
		for _, a2 := range reenc(a) {
			emit(g, a2, b)
		}
		for _, b2 := range reenc(b) {
			emit(g, a, b2)
		}
		if i%20 == 19 {
			o.op("reset")
		}
	}
}

func gen(args []string) {
	if len(args) < 3 {
		fmt.Fprintln(os.Stderr, "usage: gen <suite> <quick|thorough> <seed>")
		os.Exit(2)
	}
	suite, tier := args[0], args[1]
	seed, _ := strconv.ParseUint(args[2], 10, 64)
	// hash the seed so that streams of different seeds do not overlap
	r := &rng{s: seed}
	r.s = r.next() ^ 0x5851f42d4c957f2d
	r.s = r.next()
	o := &out{w: bufio.NewWriterSize(os.Stdout, 1<<20)}
	defer o.w.Flush()
	thorough := tier == "thorough"
	switch suite {
	case "c19":
		genC19(o, r, thorough)
	case "c18":
		genC18(o, r, thorough)
	case "c01":
		genC01(o, r, thorough)
	case "c04":
		genC04(o, r, thorough)
	case "c02", "c03":
		genPairs(o, r, thorough, suite == "c03")
	case "c12":
		genC12(o, r, thorough)
	default:
		if !genObj(suite, o, r, thorough) {
			fmt.Fprintln(os.Stderr, "unknown suite", suite)
			os.Exit(2)
		}
	}
}
