/-
  GeoProofs.Float.KGenRay — the kernel GENERATED from raycast.go (`Geo.KGen.segmentRaycast`),
  evaluated at the exact binary64 model `KNum FQ`, is the hand transcription `raycastFuel 4`
  on the regime E, hence equals the exact model `Geo.raycast`.

  (Two lemmas mention the auto-generated matcher constants of the generated file and of
  `KernelF.lean`; if the generator changes the shape of its `match` joins they must be adapted.)
-/
import GeoProofs.Float.KNumQ
import GeoProofs.Float.BridgeSeg
import GeoModel.Generated.KernelGen
set_option linter.auxLemma false
set_option linter.unusedSimpArgs false
namespace Geo.F
open Geo

def up (p : Pt) : KPoint FQ := ⟨.fin p.x, .fin p.y⟩
def toK (r : RayRes) : KRaycastResult := ⟨r.inn, r.on⟩

theorem InE.lt_maxF {y : ℚ} (hy : InE y) : y < maxF := by
  have h1 := (_root_.abs_le.mp hy.abs_le).2
  have h2 : (2 : ℚ) ^ 20 < 2 ^ (1023 : ℤ) := by
    have := two_zpow_lt (a := 20) (b := 1023) (by norm_num)
    simpa using this
  exact (h1.trans_lt h2).trans_le maxF_ge

/-- a finite double is not `+Inf` (the guard of the Nextafter loop, added by the D22 repair) -/
theorem kne_fin_posInf (x : ℚ) : KNum.ne (FQ.fin x) (KNum.posInf : FQ) = true := rfl

/-- the generated loop is the `nudge` loop -/
theorem iterate_nudge {a b p : Pt} (ha : PtE a) (hb : PtE b) (hp : PtE p) :
    KGen.iterate 4 (fun q : KPoint FQ => (KNum.eq q.y (up a).y || KNum.eq q.y (up b).y) &&
        KNum.ne q.y (KNum.posInf : FQ))
      (fun q => { q with y := KNum.nextUp q.y }) (up p)
    = up ⟨p.x, nudge 4 p.y a.y b.y⟩ := by
  rw [nudge_E hp.2 ha.2 hb.2 2]
  unfold KGen.iterate
  simp only [up, keq_fin, kne_fin_posInf, Bool.and_true]
  by_cases hn : p.y = a.y ∨ p.y = b.y
  · have hnb : (decide (p.y = a.y) || decide (p.y = b.y)) = true := by simpa using hn
    simp only [hnb, hn, if_true, knextUp_fin hp.2.lt_maxF]
    unfold KGen.iterate
    have h1 := nextUp_ne_E hp.2 ha.2
    have h2 := nextUp_ne_E hp.2 hb.2
    simp [keq_fin, h1, h2]
  · have hnb : (decide (p.y = a.y) || decide (p.y = b.y)) = false := by simpa using hn
    simp [hnb, hn]

theorem abs_rn_le_zpow {x : ℚ} {k : ℤ} (hk : -1074 ≤ k) (h : |x| ≤ 2 ^ k) : |rn x| ≤ 2 ^ k := by
  obtain ⟨h1, h2⟩ := _root_.abs_le.mp h
  exact _root_.abs_le.mpr ⟨neg_zpow_le_rn hk h1, rn_le_zpow hk h2⟩

theorem InE.abs_le21 {x : ℚ} (h : InE x) : |x| ≤ 2 ^ 21 := h.abs_le.trans (by norm_num)

theorem abs_sub_le22 {x y : ℚ} (hx : |x| ≤ 2 ^ 21) (hy : |y| ≤ 2 ^ 21) : |x - y| ≤ 2 ^ (22 : ℤ) := by
  have := abs_sub x y
  have : |x - y| ≤ |x| + |y| := by
    calc |x - y| = |x + -y| := by ring_nf
      _ ≤ |x| + |-y| := abs_add_le _ _
      _ = |x| + |y| := by rw [abs_neg]
  norm_num; linarith

theorem ksub_small {x y : ℚ} (hx : |x| ≤ 2 ^ 21) (hy : |y| ≤ 2 ^ 21) :
    KNum.sub (FQ.fin x) (FQ.fin y) = .fin (fsub x y) :=
  ksub_fin ((abs_sub_le22 hx hy).trans (two_zpow_le (by norm_num)))

theorem kdiv_small {u v s t : ℚ} (hu : |u| ≤ 2 ^ 21) (hv : |v| ≤ 2 ^ 21) (hs : InE s) (ht : InE t) :
    KNum.div (FQ.fin (fsub u v)) (FQ.fin (fsub s t)) = fdivF (fsub u v) (fsub s t) := by
  apply kdiv_fin
  rw [fsub_exact hs ht]
  by_cases h0 : s - t = 0
  · exact Or.inl h0
  · right
    have h1 : |fsub u v| ≤ 2 ^ (22 : ℤ) := abs_rn_le_zpow (by norm_num) (abs_sub_le22 hu hv)
    have h2 := (hs.sub ht).abs_ge h0
    have h3 : (2 : ℚ) ^ (26 : ℤ) ≤ 2 ^ (1023 : ℤ) := two_zpow_le (by norm_num)
    refine le_trans ?_ h3
    rw [abs_div, div_le_iff₀ (by linarith)]
    norm_num at h1 ⊢
    nlinarith [abs_nonneg (fsub u v)]

theorem nudge_abs {a b p : Pt} (ha : PtE a) (hb : PtE b) (hp : PtE p) :
    |nudge 4 p.y a.y b.y| ≤ 2 ^ 21 := by
  rw [nudge_E hp.2 ha.2 hb.2 2]
  have h0 := _root_.abs_le.mp hp.2.abs_le
  split_ifs
  · have h1 := nextUp_E_gt hp.2
    have h2 := nextUp_E_lt hp.2
    rw [_root_.abs_le]; constructor <;> linarith
  · exact hp.2.abs_le21

theorem Pt.ext_iff' (p q : Pt) : p = q ↔ p.x = q.x ∧ p.y = q.y := by
  cases p; cases q; simp

theorem feq_fin (x y : ℚ) : (FQ.fin x).feq (FQ.fin y) = decide (x = y) := rfl
theorem fge_fin (x y : ℚ) : (FQ.fin x).fge (FQ.fin y) = decide (y ≤ x) := rfl

theorem match_getD_R (o : Option RayRes) (e : RayRes) :
    Geo.F.rcCastF.match_1 (fun _ => RayRes) o (fun r => r) (fun _ => e) = o.getD e := by
  cases o <;> rfl

theorem match_getD_K (o : Option KRaycastResult) (e : KRaycastResult) :
    Geo.KGen.segmentRaycast.match_1 (fun _ => KRaycastResult) o (fun r => r) (fun _ => e)
      = o.getD e := by
  cases o <;> rfl

theorem ite_some_getD {α : Type} (c : Prop) [Decidable c] (x : α) (o : Option α) (e : α) :
    (if c then some x else o).getD e = if c then x else o.getD e := by split_ifs <;> rfl

theorem ite_getD {α : Type} (c : Prop) [Decidable c] (o1 o2 : Option α) (e : α) :
    (if c then o1 else o2).getD e = if c then o1.getD e else o2.getD e := by split_ifs <;> rfl

theorem toK_mk (i o : Bool) (n : Nat) : toK ⟨i, o, n⟩ = ⟨i, o⟩ := rfl

theorem toK_ite (c : Prop) [Decidable c] (x y : RayRes) :
    toK (if c then x else y) = if c then toK x else toK y := by split_ifs <;> rfl

theorem toK_getD (o : Option RayRes) (e : RayRes) :
    toK (o.getD e) = (o.map toK).getD (toK e) := by cases o <;> rfl

theorem map_ite {α β : Type} (f : α → β) (c : Prop) [Decidable c] (o1 o2 : Option α) :
    Option.map f (if c then o1 else o2) = if c then Option.map f o1 else Option.map f o2 := by
  split_ifs <;> rfl

theorem kgen_raycast_fuel {a b p : Pt} (ha : PtE a) (hb : PtE b) (hp : PtE p) :
    KGen.segmentRaycast ⟨up a, up b⟩ (up p) = toK (raycastFuel 4 a b p) := by
  unfold KGen.segmentRaycast
  simp only [iterate_nudge ha hb hp]
  have hpy := nudge_abs ha hb hp
  generalize hpyd : nudge 4 p.y a.y b.y = py at hpy
  simp only [up, ksub_small hp.1.abs_le21 ha.1.abs_le21, ksub_small hb.1.abs_le21 ha.1.abs_le21,
    ksub_small hp.2.abs_le21 ha.2.abs_le21, ksub_small hb.2.abs_le21 ha.2.abs_le21,
    ksub_small hpy ha.2.abs_le21, ksub_small hpy hb.2.abs_le21,
    ksub_small hp.1.abs_le21 hb.1.abs_le21, ksub_small ha.2.abs_le21 hb.2.abs_le21,
    ksub_small ha.1.abs_le21 hb.1.abs_le21,
    kdiv_small hp.1.abs_le21 ha.1.abs_le21 hb.1 ha.1, kdiv_small hp.2.abs_le21 ha.2.abs_le21 hb.2 ha.2,
    kdiv_small hpy ha.2.abs_le21 hp.1 ha.1, kdiv_small hb.2.abs_le21 ha.2.abs_le21 hb.1 ha.1,
    kdiv_small hpy hb.2.abs_le21 hp.1 hb.1, kdiv_small ha.2.abs_le21 hb.2.abs_le21 ha.1 hb.1,
    klt_fin, kgt_fin, kge_fin, kle_fin, keq_fin, KPoint.eq, keq_def, kge_def, feq_fin, fge_fin]
  unfold raycastFuel rcRange rcHoriz rcVert rcSlopeEqF rcCastF
  rw [hpyd]
  simp only [ge_iff_le, gt_iff_lt, Bool.and_eq_true, Bool.or_eq_true, decide_eq_true_eq, Pt.ext_iff']
  clear hpy hpyd ha hb hp
  generalize (fdivF (fsub p.x a.x) (fsub b.x a.x)).feq (fdivF (fsub p.y a.y) (fsub b.y a.y)) = s1
  generalize (fdivF (fsub py a.y) (fsub p.x a.x)).fge (fdivF (fsub b.y a.y) (fsub b.x a.x)) = g1
  generalize (fdivF (fsub py b.y) (fsub p.x b.x)).fge (fdivF (fsub a.y b.y) (fsub a.x b.x)) = g2
  obtain ⟨ax, ay⟩ := a; obtain ⟨bx, by'⟩ := b; obtain ⟨px, py0⟩ := p
  by_cases hab : ay < by' <;>
  simp only [hab, if_true, if_false, true_and, false_and, Bool.or_eq_true, decide_eq_true_eq, toK_mk, match_getD_R, match_getD_K, toK_getD, toK_ite, map_ite, ite_some_getD, ite_getD, Option.map_some, Option.map_none, Option.getD_some, Option.getD_none]


/-- **generated Raycast at the binary64 model = exact model, on E** -/
theorem kgen_raycast_exact {a b p : Pt} (ha : PtE a) (hb : PtE b) (hp : PtE p) :
    KGen.segmentRaycast ⟨up a, up b⟩ (up p) = toK (Geo.raycast a b p) := by
  rw [kgen_raycast_fuel ha hb hp, raycastFuel_eq ha hb hp 2]

theorem kgen_raycast_handF {a b p : Pt} (ha : PtE a) (hb : PtE b) (hp : PtE p) :
    KGen.segmentRaycast ⟨up a, up b⟩ (up p) = toK (raycastF a b p) := by
  rw [kgen_raycast_exact ha hb hp, raycastF_eq ha hb hp]

end Geo.F
