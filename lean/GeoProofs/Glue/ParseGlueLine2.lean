/-
  GeoProofs.Glue.ParseGlueLine2 — one pass of the generated line-coordinates iterator = one pass of
  the model's parseLineCoordsLoop; the whole iteration; parseJSONLineStringCoords.
-/
import GeoProofs.Glue.ParseGlueLine

set_option linter.unusedSimpArgs false

namespace Geo.PGlue
open Geo Geo.PGen

abbrev LineSt := Option (PGen.Err MStr) × List FP × Option GExtra × Int

theorem exM_values (e : GExtra) (vs : List MF) :
    exM { e with values := e.values ++ vs } = { exM e with values := (exM e).values ++ vs.map (·.canon) } := by
  simp [exM]

theorem line_step (rec : RecT) (key : Option JVal) (v : JVal) (coords : List FP) (ex : Option GExtra) (dims : Int)
    (acc : List Pos) (st : DimSt) (h : RelL coords ex dims acc st) :
    match mLineStep v acc st with
    | .ok (acc', st') => ∃ c' e' d',
        PGen.parseJSONLineStringCoords_lit3 (mops rec) (key, some v) (none, coords, ex, dims) = ((none, c', e', d'), true) ∧
        RelL c' e' d' acc' st'
    | .error e => e = .coordsInvalid ∧
        (PGen.parseJSONLineStringCoords_lit3 (mops rec) (key, some v) (none, coords, ex, dims)).2 = false ∧
        (PGen.parseJSONLineStringCoords_lit3 (mops rec) (key, some v) (none, coords, ex, dims)).1.1 = some .errCoordinatesInvalid := by
  have hnum := takeNums_eq false v.elems (forEach (some v)) 0 (forEach_vals v)
  have key := numFoldR false (forEach (some v))
  have hlit : PGen.parseJSONLineStringCoords_lit1 (mops rec) = numStep false := by funext x st; rfl
  have hrep : List.replicate 4 (mfInt 0) = [mfInt 0, mfInt 0, mfInt 0, mfInt 0] := rfl
  obtain ⟨hacc, hex, hdims⟩ := h
  unfold mLineStep PGen.parseJSONLineStringCoords_lit3
  simp only [m_gjsonResultIsArray, m_gjsonResultForEach, m_f64OfInt, hlit, hrep, m_mkGeometryPoint, m_zeroExtra, deref_some]
  cases hv : v.isArray
  · simp [bind, Except.bind, throw, throwThe, MonadExceptOf.throw]
  · simp only [Bool.not_true, Bool.false_eq_true, if_false, bind, Except.bind, pure, Except.pure]
    rw [hnum]
    cases hr : takeMF false (forEach (some v)) 0 with
    | none =>
      rw [hr] at key
      simp only at key
      simp [key]
    | some os =>
      rw [hr] at key
      obtain ⟨hk, hlen⟩ := key
      simp only [hk]
      rcases os with _ | ⟨a, _ | ⟨b, r⟩⟩
      · simp [throw, throwThe, MonadExceptOf.throw]
      · simp [throw, throwThe, MonadExceptOf.throw]
      · obtain ⟨sex, sdims⟩ := st
        simp only at hex hdims
        subst hex hdims hacc
        have h01 : arrAt (mfInt 0) (pad (a :: b :: r)) 0 = a ∧ arrAt (mfInt 0) (pad (a :: b :: r)) 1 = b := by
          simp [arrAt, pad]
        simp only [h01.1, h01.2, List.map_cons]
        cases ex with
        | some e =>
          have hloop := valuesLoop rec (pad (a :: b :: r)) (List.range sdims) e
          rw [← intRange_zero] at hloop
          have hlt : ¬ ((r.length : Int) + 1 + 1 < 2) := by omega
          simp [dimStep, hloop, pure, Except.pure, bind, Except.bind, hlt]
          refine ⟨_, _, _, ⟨rfl, rfl, rfl⟩, ?_⟩
          refine ⟨by simp [toPos], ?_, rfl⟩
          simp only [exM, List.map_append, List.map_map, Option.map_some]
          congr 3
          apply List.map_congr_left
          intro i _
          have := canon_at (a :: b :: r) hlen i
          simp only [List.map_cons] at this
          simp only [Function.comp]
          have e2 : (2 : Int) + (0 + Int.ofNat i) = 2 + (i : Int) := by simp
          rw [e2] at this
          exact this.symm
        | none =>
          have hz : (Int.repr 0) = "0" := by decide
          rcases r with _ | ⟨c, _ | ⟨d, _ | ⟨x, t⟩⟩⟩
          · simp [dimStep, pure, Except.pure, bind, Except.bind]
            exact ⟨_, _, _, ⟨rfl, rfl, rfl⟩, ⟨by simp [toPos], rfl, rfl⟩⟩
          · cases coords with
            | nil =>
              simp [dimStep, pure, Except.pure, bind, Except.bind, intRange, forRange, PGen.parseJSONLineStringCoords_body2, arrAt, pad]
              exact ⟨_, _, _, ⟨rfl, rfl, rfl⟩, ⟨by simp [toPos], by simp [exM, flat, hasPropsOf, decodeObj, MF.ord], rfl⟩⟩
            | cons p ps =>
              have hps : (1 : Int) < (ps.length : Int) + 1 + 1 := by omega
              simp [dimStep, pure, Except.pure, bind, Except.bind, hps]
          · cases coords with
            | nil =>
              simp [dimStep, pure, Except.pure, bind, Except.bind, intRange, forRange, PGen.parseJSONLineStringCoords_body2, arrAt, pad,
                (by decide : List.range 2 = [0, 1])]
              exact ⟨_, _, _, ⟨rfl, rfl, rfl⟩, ⟨by simp [toPos], by simp [exM, flat, hasPropsOf, decodeObj, MF.ord], rfl⟩⟩
            | cons p ps =>
              have hps : (1 : Int) < (ps.length : Int) + 1 + 1 := by omega
              simp [dimStep, pure, Except.pure, bind, Except.bind, hps]
          · simp at hlen

#print axioms line_step

theorem line_fold (rec : RecT) : ∀ (vs : List JVal) (xs : List RPair), xs.map (·.2) = vs.map some →
    ∀ (coords : List FP) (ex : Option GExtra) (dims : Int) (acc : List Pos) (st : DimSt), RelL coords ex dims acc st →
    match parseLineCoordsLoop vs acc st with
    | .ok (acc', st') => ∃ c' e' d',
        searchFold (PGen.parseJSONLineStringCoords_lit3 (mops rec)) xs (none, coords, ex, dims) = (none, c', e', d') ∧
        RelL c' e' d' acc' st'
    | .error e => e = .coordsInvalid ∧
        (searchFold (PGen.parseJSONLineStringCoords_lit3 (mops rec)) xs (none, coords, ex, dims)).1 = some .errCoordinatesInvalid := by
  intro vs
  induction vs with
  | nil =>
    intro xs h coords ex dims acc st hrel
    simp at h; subst h
    simp only [parseLineCoordsLoop, searchFold]
    exact ⟨_, _, _, rfl, hrel⟩
  | cons v vs ih =>
    intro xs h coords ex dims acc st hrel
    cases xs with
    | nil => simp at h
    | cons x xs =>
      simp only [List.map_cons, List.cons.injEq] at h
      obtain ⟨hx, hxs⟩ := h
      obtain ⟨k, x2⟩ := x
      simp only at hx; subst hx
      have hs := line_step rec k v coords ex dims acc st hrel
      rw [lineLoop_cons]
      cases hm : mLineStep v acc st with
      | error e =>
        rw [hm] at hs
        obtain ⟨he, h2, h1⟩ := hs
        simp only
        refine ⟨he, ?_⟩
        rw [searchFold]
        generalize PGen.parseJSONLineStringCoords_lit3 (mops rec) (k, some v) (none, coords, ex, dims) = R at h1 h2
        obtain ⟨s', b⟩ := R
        simp only at h2 h1; subst h2
        simpa using h1
      | ok r =>
        obtain ⟨a', s'⟩ := r
        rw [hm] at hs
        obtain ⟨c', e', d', hstep, hrel'⟩ := hs
        simp only
        rw [searchFold_cons_true _ _ _ _ _ hstep]
        exact ih xs hxs c' e' d' a' s' hrel'

#print axioms line_fold

end Geo.PGlue
