/-
  GeoProofs.Reencode.Shape — re-encodings of a shape of the specification that do not change
  the point set: `Reenc`.  Membership and validity are invariant.
-/
import GeoProofs.Reencode.Ring
import Mathlib.Data.List.Forall2

namespace Geo
namespace RE
open Spec

/-- `A'` is another encoding of `A`: the exterior ring or any hole re-encoded (`RingEq`: other
    start vertex, other direction, closing vertex repeated / omitted), the holes listed in
    another order, a line string reversed. -/
inductive Reenc : Shape → Shape → Prop
  | refl (S) : Reenc S S
  | ext {e e' : List Pt} (hs : List (List Pt)) (h : RingEq e e') : Reenc (.poly e hs) (.poly e' hs)
  | holes (e : List Pt) {hs hs' : List (List Pt)} (h : List.Forall₂ RingEq hs hs') :
      Reenc (.poly e hs) (.poly e hs')
  | perm (e : List Pt) {hs hs' : List (List Pt)} (h : hs.Perm hs') :
      Reenc (.poly e hs) (.poly e hs')
  | line (l : List Pt) : Reenc (.line l) (.line l.reverse)
  | symm {A B} : Reenc A B → Reenc B A
  | trans {A B C} : Reenc A B → Reenc B C → Reenc A C

/-! ### membership -/

theorem forall2_all {hs hs' : List (List Pt)} (h : List.Forall₂ RingEq hs hs')
    (f : List Pt → Bool) (hf : ∀ a b, RingEq a b → f b = f a) : hs'.all f = hs.all f := by
  induction h with
  | nil => rfl
  | cons hab _ ih => simp only [List.all_cons, ih, hf _ _ hab]

theorem Reenc.member_eq {A A' : Shape} (h : Reenc A A') (p : Pt) : A'.member p = A.member p := by
  induction h with
  | refl S => rfl
  | ext hs h => simp only [Shape.member, h.ecyc.inRing_eq]
  | holes e h =>
    simp only [Shape.member]
    rw [forall2_all h _ (fun a b hab => by rw [hab.ecyc.strictIn_eq])]
  | perm e h => simp only [Shape.member]; rw [h.all_eq]
  | line l => simp only [Shape.member]; exact (ecyc_line_reverse l).onBoundary_eq p
  | symm _ ih => exact ih.symm
  | trans _ _ ih1 ih2 => exact ih2.trans ih1

/-! ### validity: the hole clauses -/

theorem holeInside_ext {e e' : List Pt} (h : RingEq e e') (x : List Pt) :
    holeInside e' x = holeInside e x := by
  unfold holeInside
  rw [(ECyc.refl (edges x true)).noMeet_eq h.ecyc]
  congr 2
  funext p; exact h.ecyc.strictIn_eq p

theorem holeInside_hole (e : List Pt) {x x' : List Pt} (h : RingEq x x') :
    holeInside e x' = holeInside e x := by
  unfold holeInside
  rw [h.ecyc.noMeet_eq (ECyc.refl (edges e true)), h.all_eq]

theorem holesDisjoint_congr {a a' b b' : List Pt} (ha : RingEq a a') (hb : RingEq b b') :
    holesDisjoint a' b' = holesDisjoint a b := by
  unfold holesDisjoint
  rw [ha.ecyc.noMeet_eq hb.ecyc, ha.all_eq, hb.all_eq]
  simp only [hb.ecyc.inRing_eq, ha.ecyc.inRing_eq]

theorem holesDisjoint_comm (a b : List Pt) : holesDisjoint b a = holesDisjoint a b := by
  unfold holesDisjoint
  rw [Bool.eq_iff_iff]
  simp only [Bool.and_eq_true, List.all_eq_true, Bool.not_eq_true']
  constructor
  · rintro ⟨⟨h1, h2⟩, h3⟩
    exact ⟨⟨fun e he f hf => by rw [← segsMeet_comm]; exact h1 f hf e he, h3⟩, h2⟩
  · rintro ⟨⟨h1, h2⟩, h3⟩
    exact ⟨⟨fun e he f hf => by rw [← segsMeet_comm]; exact h1 f hf e he, h3⟩, h2⟩

/-- the pairwise clause of `Shape.valid` -/
def disjB (hs : List (List Pt)) : Bool :=
  (List.range hs.length).all (fun i => (List.range hs.length).all (fun j =>
    if j ≤ i then true else holesDisjoint (hs.getD i []) (hs.getD j [])))

theorem disjB_iff (hs : List (List Pt)) : disjB hs = true ↔
    ∀ i j, i < j → j < hs.length → holesDisjoint (hs.getD i []) (hs.getD j []) = true := by
  unfold disjB
  simp only [List.all_eq_true, List.mem_range]
  constructor
  · intro h i j hij hj
    have := h i (by omega) j hj
    rwa [if_neg (by omega)] at this
  · intro h i hi j hj
    by_cases hc : j ≤ i
    · rw [if_pos hc]
    · rw [if_neg hc]; exact h i j (by omega) hj

theorem getD_get (hs : List (List Pt)) (i : Nat) (hi : i < hs.length) : hs.getD i [] = hs[i] := by
  simp [List.getD_eq_getElem?_getD, hi]

theorem forall2_left {hs hs' : List (List Pt)} (h : List.Forall₂ RingEq hs hs') {x : List Pt}
    (hx : x ∈ hs) : ∃ y ∈ hs', RingEq x y := by
  induction h with
  | nil => simp at hx
  | cons hab _ ih =>
    rcases List.mem_cons.1 hx with rfl | hx
    · exact ⟨_, by simp, hab⟩
    · obtain ⟨y, hy, g⟩ := ih hx
      exact ⟨y, by simp [hy], g⟩

theorem forall2_right {hs hs' : List (List Pt)} (h : List.Forall₂ RingEq hs hs') {y : List Pt}
    (hy : y ∈ hs') : ∃ x ∈ hs, RingEq x y := by
  induction h with
  | nil => simp at hy
  | cons hab _ ih =>
    rcases List.mem_cons.1 hy with rfl | hy
    · exact ⟨_, by simp, hab⟩
    · obtain ⟨x, hx, g⟩ := ih hy
      exact ⟨x, by simp [hx], g⟩

theorem disjB_pairwise (hs : List (List Pt)) :
    disjB hs = true ↔ hs.Pairwise (fun a b => holesDisjoint a b = true) := by
  rw [disjB_iff, List.pairwise_iff_getElem]
  constructor
  · intro h i j hi hj hij
    have := h i j hij hj
    rwa [getD_get _ _ hi, getD_get _ _ hj] at this
  · intro h i j hij hj
    rw [getD_get _ _ (by omega : i < hs.length), getD_get _ _ hj]
    exact h i j (by omega) hj hij

theorem disjB_perm {hs hs' : List (List Pt)} (h : hs.Perm hs') : disjB hs' = disjB hs := by
  rw [Bool.eq_iff_iff, disjB_pairwise, disjB_pairwise]
  exact (h.pairwise_iff (fun {a b} hab => by rw [holesDisjoint_comm]; exact hab)).symm

theorem disjB_forall2 {hs hs' : List (List Pt)} (h : List.Forall₂ RingEq hs hs') :
    disjB hs' = disjB hs := by
  rw [Bool.eq_iff_iff, disjB_pairwise, disjB_pairwise]
  induction h with
  | nil => simp
  | @cons a b l l' hab hl ih =>
    simp only [List.pairwise_cons, ih]
    apply and_congr_left'
    constructor
    · intro g x hx
      obtain ⟨y, hy, hxy⟩ := forall2_left hl hx
      rw [← holesDisjoint_congr hab hxy]; exact g y hy
    · intro g y hy
      obtain ⟨x, hx, hxy⟩ := forall2_right hl hy
      rw [holesDisjoint_congr hab hxy]; exact g x hx

/-! ### validity -/

theorem valid_poly (e : List Pt) (hs : List (List Pt)) :
    (Shape.poly e hs).valid =
      (simpleRing e && hs.all simpleRing && hs.all (holeInside e) && disjB hs) := rfl

theorem Reenc.valid_eq {A A' : Shape} (h : Reenc A A') : A'.valid = A.valid := by
  induction h with
  | refl S => rfl
  | @ext e e' hs h =>
    rw [valid_poly, valid_poly, h.simple_eq]
    have : holeInside e' = holeInside e := funext (holeInside_ext h)
    rw [this]
  | holes e h =>
    rw [valid_poly, valid_poly, disjB_forall2 h,
      forall2_all h simpleRing (fun a b hab => hab.simple_eq),
      forall2_all h (holeInside e) (fun a b hab => holeInside_hole e hab)]
  | perm e h =>
    rw [valid_poly, valid_poly, disjB_perm h, h.all_eq, h.all_eq]
  | line l => simp only [Shape.valid]; exact validLine_reverse l
  | symm _ ih => exact ih.symm
  | trans _ _ ih1 ih2 => exact ih2.trans ih1

/-- what a re-encoding leaves in place: the kind of shape, points and rectangles, the number of
    holes; the exterior ring is re-encoded as a ring -/
def ShapeRel : Shape → Shape → Prop
  | .point p, .point q => p = q
  | .rect a b, .rect c d => a = c ∧ b = d
  | .line _, .line _ => True
  | .poly e hs, .poly e' hs' => RingEq e e' ∧ hs.length = hs'.length
  | _, _ => False

theorem ShapeRel.refl (A : Shape) : ShapeRel A A := by
  cases A <;> simp [ShapeRel, RingEq.refl]

theorem ShapeRel.symm {A B : Shape} (h : ShapeRel A B) : ShapeRel B A := by
  cases A <;> cases B <;> simp only [ShapeRel] at h ⊢
  · exact h.symm
  · exact ⟨h.1.symm, h.2.symm⟩
  · exact ⟨h.1.symm, h.2.symm⟩

theorem ShapeRel.trans {A B C : Shape} (h : ShapeRel A B) (g : ShapeRel B C) : ShapeRel A C := by
  cases A <;> cases B <;> simp only [ShapeRel] at h <;> cases C <;> simp only [ShapeRel] at g ⊢
  · exact h.trans g
  · exact ⟨h.1.trans g.1, h.2.trans g.2⟩
  · exact ⟨h.1.trans g.1, h.2.trans g.2⟩

theorem Reenc.rel {A A' : Shape} (h : Reenc A A') : ShapeRel A A' := by
  induction h with
  | refl S => exact ShapeRel.refl S
  | ext hs h => exact ⟨h, rfl⟩
  | holes e h => exact ⟨RingEq.refl e, h.length_eq⟩
  | perm e h => exact ⟨RingEq.refl e, h.length_eq⟩
  | line l => trivial
  | symm _ ih => exact ih.symm
  | trans _ _ ih1 ih2 => exact ih1.trans ih2

end RE
end Geo
