/-
  GeoProofs.Glue.ParseGlueScan2 — the whole member scan; the text built for the foreign members denotes
  them (render / decode); KeysRel after the scan.
-/
import GeoProofs.Glue.ParseGlueScan

set_option linter.unusedSimpArgs false

namespace Geo.PGlue
open Geo Geo.PGen

theorem scan_fold (rec : RecT) : ∀ (ms : List Mem) (gk : GKeys) (fm : MStr) (rT : Option JVal) (k : Keys), ScanRel gk fm rT k →
    ∃ gk' fm' rT', searchFold (PGen.parseJSON_lit1 (mops rec)) (ms.map memPair) (gk, fm, rT) = (gk', fm', rT') ∧
      ScanRel gk' fm' rT' (ms.foldl scanStep k) := by
  intro ms
  induction ms with
  | nil => intro gk fm rT k h; exact ⟨gk, fm, rT, rfl, h⟩
  | cons m ms ih =>
    intro gk fm rT k h
    obtain ⟨gk1, fm1, rT1, hs, h1⟩ := scan_step rec gk fm rT k m h
    obtain ⟨gk2, fm2, rT2, hf, h2⟩ := ih gk1 fm1 rT1 (scanStep k m) h1
    exact ⟨gk2, fm2, rT2, by rw [List.map_cons, searchFold_cons_true _ _ _ _ _ hs]; exact hf, by simpa using h2⟩

theorem flat_append (a b : MStr) : flat (a ++ b) = flat a ++ flat b := by
  induction a with
  | nil => rfl
  | cons x t ih => cases x <;> simp [flat, ih]

theorem flat_entry (m : Mem) : flat (entry m) = m.1.toList ++ ':' :: m.2.2.render.toList := by
  simp [entry, flat, JVal.render]

theorem flat_rest : ∀ (r : List Mem), flat (r.flatMap (fun m => Piece.ch ',' :: entry m)) =
    (match r with | [] => [] | _ => ',' :: (JVal.renderMembers r).toList) := by
  intro r
  induction r with
  | nil => rfl
  | cons m t ih =>
    obtain ⟨k, d, v⟩ := m
    simp only [List.flatMap_cons, flat_append, ih]
    cases t with
    | nil => simp [flat, entry, JVal.renderMembers, JVal.render, String.toList_append]
    | cons m2 t2 => simp [flat, entry, JVal.renderMembers, JVal.render, String.toList_append]

theorem members_text (f : List Mem) (hf : f ≠ []) :
    String.ofList (flat (piecesOpen f ++ [Piece.ch '}'])) = "{" ++ JVal.renderMembers f ++ "}" := by
  apply String.toList_inj.mp
  rw [String.toList_ofList]
  cases f with
  | nil => exact absurd rfl hf
  | cons m r =>
    obtain ⟨k, d, v⟩ := m
    simp only [piecesOpen, flat_append, flat_rest]
    cases r with
    | nil => simp [flat, entry, JVal.renderMembers, JVal.render, String.toList_append]
    | cons m2 t2 => simp [flat, entry, JVal.renderMembers, JVal.render, String.toList_append]

theorem decode_rest : ∀ (r : List Mem), decodeMembers (r.flatMap (fun m => Piece.ch ',' :: entry m) ++ [Piece.ch '}']) = some r := by
  intro r
  induction r with
  | nil => simp [decodeMembers]
  | cons m t ih =>
    obtain ⟨k, d, v⟩ := m
    simp only [List.flatMap_cons, entry, List.cons_append, List.nil_append, List.append_assoc]
    rw [decodeMembers]
    simp [entry] at ih; simp [ih]

theorem decode_members (f : List Mem) (hf : f ≠ []) : decodeObj (piecesOpen f ++ [Piece.ch '}']) = some (.obj f) := by
  cases f with
  | nil => exact absurd rfl hf
  | cons m r =>
    obtain ⟨k, d, v⟩ := m
    have hd := decode_rest r
    simp only [piecesOpen, entry, List.cons_append, List.nil_append, List.append_assoc, decodeObj]
    rw [decodeMembers]
    simp [entry] at hd; simp [hd]

end Geo.PGlue
